// Harness c14 (admission totality): drives the real admission path (types.Validate, mempool.verifyTx /
// validateTx for EVERY transaction type: sender-state and maximum-fee check, recipient / name resolution, the
// fee-delegation request to a chain-service component on a real hub, system/name/enterprise stateful validation)
// and the real block executor step (chain.NewTxExecutor -> executeTx -> contract.Execute (its Go part; the VM is the
// scripted stub) / executeGovernanceTx -> Execute{System,Name,Enterprise}Tx, with the real voting-power rank and,
// on raft networks, the real raft MakeConfChangeProposal) in chain-service AND block-factory mode on a real StateDB,
// every call under recover(); with the fee switched off and on; in states where the system parameters were changed
// by won parameter votes (extreme values); compares the outcome {ok, rej:<class>, panic:<site>} with the Lean model
// (Aergo.Model.Admit) and evaluates the property itself as oracle: no panic in admission; no panic when executing
// an admitted transaction.
package main

import (
	"bytes"
	"context"
	"encoding/hex"
	"encoding/json"
	"errors"
	"fmt"
	"math/big"
	"os"
	"path/filepath"
	"runtime/debug"
	"strconv"
	"strings"

	"github.com/aergoio/aergo-actor/actor"
	"github.com/aergoio/aergo-lib/db"
	"github.com/aergoio/aergo/v2/account/key"
	crypto "github.com/aergoio/aergo/v2/account/key/crypto"
	"github.com/aergoio/aergo/v2/chain"
	"github.com/aergoio/aergo/v2/consensus"
	"github.com/aergoio/aergo/v2/consensus/impl/raftv2"
	"github.com/aergoio/aergo/v2/contract"
	"github.com/aergoio/aergo/v2/contract/enterprise"
	"github.com/aergoio/aergo/v2/contract/name"
	"github.com/aergoio/aergo/v2/contract/system"
	"github.com/aergoio/aergo/v2/fee"
	"github.com/aergoio/aergo/v2/internal/common"
	"github.com/aergoio/aergo/v2/internal/enc/base58"
	"github.com/aergoio/aergo/v2/internal/enc/base64"
	"github.com/aergoio/aergo/v2/internal/enc/proto"
	"github.com/aergoio/aergo/v2/mempool"
	"github.com/aergoio/aergo/v2/pkg/component"
	"github.com/aergoio/aergo/v2/state"
	"github.com/aergoio/aergo/v2/state/statedb"
	"github.com/aergoio/aergo/v2/types"
	"github.com/aergoio/aergo/v2/types/dbkey"
	"github.com/aergoio/aergo/v2/zz_verif/vh"
	"github.com/btcsuite/btcd/btcec/v2"
)

// ---------------------------------------------------------------- panic site identification

// siteTable maps (function, source text of the panicking line) to the model's Site name. occ is the
// 0-based occurrence of expr among the function's lines (-1: any).
var siteTable = []struct {
	fn, expr string
	occ      int
	site     string
}{
	{"types.validateNameTx", "ci.Args[1].(string)", -1, "tNameUpdTo"},
	{"types.validateNameTx", "ci.Args[0]", -1, "tNameOwner0"},
	{"types._validateNameTx", "ci.Args[0]", -1, "tNameCommon0"},
	{"system.parseIDForProposal", "ci.Args[0]", -1, "sParseId0"},
	{"system.ValidateSystemTx", "ci.Args[1:]", -1, "sCandSlice"},
	{"system.newVoteCmd", "ctx.Call.Args[1:]", -1, "vDaoSlice"},
	{"system.newVoteCmd", "ctx.Call.Args[1].(string)", -1, "vDaoVal"},
	{"system.newVoteCmd", "ctx.Call.Args[0].(string)", -1, "vDaoId"},
	{"system.newVoteCmd", "v.(string)", -1, "vBpCand"},
	{"system.(*VoteResult).AddVote", "vote.Candidate[offset : offset+PeerIDLength]", -1, "rAddSlice"},
	{"system.(*VoteResult).SubVote", "voteResult.rmap[", -1, "rSubNil"},
	{"name.ValidateNameTx", "ci.Args[0].(string)", -1, "nVal0"},
	{"name.ExecuteNameTx", "ci.Args[1].(string)", -1, "nExUpd1"},
	{"name.ExecuteNameTx", "ci.Args[0].(string)", 0, "nExCreate0"},
	{"name.ExecuteNameTx", "ci.Args[0].(string)", 1, "nExUpd0"},
	{"name.ExecuteNameTx", "ci.Args[0].(string)", 2, "nExOwner0"},
	{"enterprise.ValidateEnterpriseTx", "enterpriseKeyDict[strings.ToUpper(ci.Args[0].(string))]", -1, "eEnable0"},
	{"enterprise.ValidateEnterpriseTx", "arg := ci.Args[0].(string)", -1, "eAdmin0"},
	{"enterprise.ValidateEnterpriseTx", "ci.Args[1].(bool)", -1, "eEnable1"},
	{"enterprise.ValidateEnterpriseTx", "context.Args[1:]", -1, "eCtxTail"},
	{"enterprise.ValidateEnterpriseTx", "context.Args[1]", -1, "eCtx1"},
	{"enterprise.ValidateEnterpriseTx", "context.Args[0]", -1, "eCtx0"},
	{"enterprise.checkArgs", "ci.Args[0].(string)", -1, "eCheckArgs0"},
	{"enterprise.checkRPCPermissions", "values[0]", -1, "eRpcVals0"},
	{"enterprise.(*Conf).Validate", "strings.Split(v, \":\")[1]", -1, "cRpcSplit"},
	{"enterprise.getAdmins", "data[i : i+types.AddressLength]", -1, "gAdmins"},
	{"enterprise.ValidateChangeCluster", "ci.Args[0]", -1, "eCc0"},
	{"enterprise.ExecuteEnterpriseTx", "context.Call.Args[1]", -1, "xEnable1"},
	{"enterprise.ExecuteEnterpriseTx", "context.ArgsAny[0]", -1, "xAny0"},
	{"enterprise.ExecuteEnterpriseTx", "context.Args[0]", -1, "xCtx0"},
	{"system.(*VoteResult).Sync", "resultList.Votes[0]", -1, "rSyncTop"},
	{"system.(*VoteResult).threshold", "Div(total,", -1, "rThreshDiv"},
	{"types.VoteList.Less", "Candidate[7:]", -1, "tLessSlice"},
	{"fee.CalcGas", "Div(fee, gasPrice)", -1, "fCalcGas"},
	{"mempool.(*MemPool).validateTx", "rsp.(message.CheckFeeDelegationRsp)", -1, "pFdRsp"},
	{"enterprise.deserializeConf", "data[0]", -1, "cDeser0"},
}

// siteByKind: when the text of the panicking line is not one of the expressions above (the line was reformatted or a
// variable renamed), the function and the kind of runtime panic still identify the site where that pair is unique.
var siteByKind = map[string]string{
	"system.(*VoteResult).AddVote/slice": "rAddSlice", "system.(*VoteResult).SubVote/nil": "rSubNil",
	"system.(*VoteResult).threshold/division": "rThreshDiv", "types.VoteList.Less/slice": "tLessSlice",
	"fee.CalcGas/division": "fCalcGas", "mempool.(*MemPool).validateTx/conversion": "pFdRsp",
	"system.(*VoteResult).Sync/index": "rSyncTop", "enterprise.getAdmins/slice": "gAdmins",
	"system.parseIDForProposal/index": "sParseId0", "types._validateNameTx/index": "tNameCommon0",
	"name.ValidateNameTx/index": "nVal0", "name.ValidateNameTx/conversion": "nVal0",
	"enterprise.checkArgs/index": "eCheckArgs0", "enterprise.checkArgs/conversion": "eCheckArgs0",
	"enterprise.ValidateChangeCluster/index": "eCc0", "enterprise.checkRPCPermissions/index": "eRpcVals0",
	"enterprise.(*Conf).Validate/index": "cRpcSplit", "enterprise.deserializeConf/index": "cDeser0",
}

// class id of a *known* finding (listed in known_findings.json with status "known"), per stage / site /
// kind of runtime panic.  Six earlier findings were repaired in /repo (fix commits b11917e3, 2586c6fa,
// 9f771520): a panic at those sites - or anywhere else, at another stage, or of another kind at a known
// site - has no class and is reported as a plain violation.
var knownClass = map[string]string{
	"execution/rAddSlice/slice": "C14-addVote-voteBP-candidate-length",
	"execution/rSubNil/nil":     "C14-subVote-corrupt-old-vote",
}

func panicKind(msg string) string {
	switch {
	case strings.Contains(msg, "interface conversion"):
		return "conversion"
	case strings.Contains(msg, "index out of range"):
		return "index"
	case strings.Contains(msg, "slice bounds out of range"):
		return "slice"
	case strings.Contains(msg, "nil pointer dereference"):
		return "nil"
	case strings.Contains(msg, "divide by zero"), strings.Contains(msg, "division by zero"):
		return "division"
	}
	return "other"
}

var reported = map[string]int{}

// report records a failure of the property; the first of each stage/site/kind carries the replay.
func report(run *vh.Run, what, stage string, r result, rp interface{}) {
	k := stage + "/" + r.site + "/" + panicKind(r.msg)
	reported[k]++
	run.Count("finding:" + k)
	if reported[k] == 1 {
		run.FailKnown(what, knownClass[k], rp)
	}
}

var srcCache = map[string][]string{}

func srcLines(file string) []string {
	if l, ok := srcCache[file]; ok {
		return l
	}
	b, _ := os.ReadFile(file)
	l := strings.Split(string(b), "\n")
	srcCache[file] = l
	return l
}

func squash(s string) string { return strings.Join(strings.Fields(s), "") }

// siteOf finds the innermost frame of the aergo module in a panic stack and names its site.
func siteOf(stack, msg string) string {
	lines := strings.Split(stack, "\n")
	for i := 0; i+1 < len(lines); i++ {
		fn := lines[i]
		if !strings.HasPrefix(fn, "github.com/aergoio/aergo/v2/") || strings.Contains(fn, "/zz_verif/") {
			continue
		}
		fn = strings.TrimPrefix(fn, "github.com/aergoio/aergo/v2/")
		if k := strings.LastIndex(fn, "("); k > 0 {
			fn = fn[:k]
		}
		if k := strings.LastIndex(fn, "/"); k >= 0 {
			fn = fn[k+1:]
		}
		loc := strings.TrimSpace(lines[i+1])
		if k := strings.Index(loc, " +0x"); k > 0 {
			loc = loc[:k]
		}
		k := strings.LastIndex(loc, ":")
		if k < 0 {
			return "?" + fn
		}
		file, ln := loc[:k], 0
		ln, _ = strconv.Atoi(loc[k+1:])
		src := srcLines(file)
		if ln < 1 || ln > len(src) {
			return "?" + fn
		}
		text := squash(src[ln-1])
		for _, e := range siteTable {
			if e.fn != fn || !strings.Contains(text, squash(e.expr)) {
				continue
			}
			if e.occ >= 0 {
				// occurrence number of expr between the start of the function and this line
				n := -1
				for j := ln - 1; j >= 0; j-- {
					if strings.Contains(squash(src[j]), squash(e.expr)) {
						n++
					}
					if strings.HasPrefix(src[j], "func ") {
						break
					}
				}
				if n != e.occ {
					continue
				}
			}
			return e.site
		}
		if st, ok := siteByKind[fn+"/"+panicKind(msg)]; ok {
			return st
		}
		return "?" + fn + ":" + text
	}
	return "?"
}

type result struct {
	err      error
	panicked bool
	msg      string
	site     string
}

func guard(f func() error) (r result) {
	defer func() {
		if e := recover(); e != nil {
			r.panicked = true
			r.msg = fmt.Sprint(e)
			r.site = siteOf(string(debug.Stack()), r.msg)
		}
	}()
	r.err = f()
	return
}

// ---------------------------------------------------------------- error classes

var sentinel = []struct {
	err error
	cls string
}{
	{types.ErrTxFormatInvalid, "format"}, {types.ErrTxInvalidChainIdHash, "chain"}, {types.ErrTxInvalidSize, "size"},
	{types.ErrTxHasInvalidHash, "hash"}, {types.ErrTxInvalidAmount, "amount"}, {types.ErrTxInvalidPrice, "price"},
	{types.ErrTxInvalidAccount, "account"}, {types.ErrTxInvalidRecipient, "recipient"}, {types.ErrTxInvalidType, "type"},
	{types.ErrTxInvalidPayload, "payload"}, {types.ErrTxOnlySupportedInPriv, "public"}, {types.ErrTxNonceTooLow, "nonce"},
	{types.ErrInsufficientBalance, "balance"}, {types.ErrTooSmallAmount, "state"}, {types.ErrLessTimeHasPassed, "state"},
	{types.ErrMustStakeBeforeVote, "state"}, {types.ErrMustStakeBeforeUnstake, "state"}, {types.ErrExceedAmount, "state"},
	{enterprise.ErrTxEnterpriseAdminIsNotSet, "state"}, {enterprise.ErrNotSupportedMethod, "unsupported"},
	{types.ErrNotAllowedFeeDelegation, "fd"}, {actor.ErrTimeout, "internal"},
}

var prefixes = []struct{ p, cls string }{
	{"invalid arguments in payload", "args"}, {"invalid arguments[0]", "args"}, {"invalid arguments in", "args"},
	{"too long name", "args"}, {"not supported yet", "args"}, {"not allowed character", "args"}, {"invalid receiver", "args"},
	{"invalid new owner", "args"}, {"the number of args", "args"}, {"args[0] invalid id", "args"}, {"too many candidates", "args"},
	{"too few candidates", "args"}, {"include invalid", "args"}, {"candidate should be in", "args"},
	{"not supported operation", "state"}, {"the voting begins", "state"}, {"the voting was already", "state"},
	{"aleady occupied", "state"}, {"owner not matched", "state"}, {"owner aleady set", "state"},
	{"could not execute unknown cmd", "payload"}, {"unsupported call", "payload"},
	{"not string in payload", "args"}, {"not bool in payload", "args"}, {"not allowed key", "args"}, {"not allowed charactor", "args"},
	{"the request has duplicate", "args"}, {"invalid p2p whitelist", "args"}, {"invalid account", "args"}, {"invalid RPC", "args"},
	{"invalid ChangeCluster argument", "args"}, {"invalid argument in payload for ChangeCluster", "args"},
	{"already exist admin", "state"}, {"admins is not exist", "state"}, {"admin is in the account whitelist", "state"},
	{"admin address not matched", "state"}, {"could not get admin", "state"}, {"already included config value", "state"},
	{"value not exist", "state"}, {"the values of", "state"},
	{"the minimum required amount of gas", "fee"}, {"cannot find contract", "fd"}, {"fee delegation is not allowed", "fd"},
}

func classify(err error) string {
	if err == nil || err == types.ErrTxNonceToohigh {
		return "ok"
	}
	for _, s := range sentinel {
		if errors.Is(err, s.err) { // (also through fmt.Errorf("…%w", err))
			return "rej:" + s.cls
		}
	}
	var se *json.SyntaxError
	var te *json.UnmarshalTypeError
	if errors.As(err, &se) || errors.As(err, &te) || strings.Contains(err.Error(), "unexpected end of JSON input") ||
		strings.HasPrefix(err.Error(), "json: cannot unmarshal") || strings.HasPrefix(err.Error(), "strconv.ParseFloat") {
		return "rej:payload"
	}
	msg := err.Error()
	for _, p := range prefixes {
		if strings.HasPrefix(msg, p.p) {
			return "rej:" + p.cls
		}
	}
	if len(msg) > 40 {
		msg = msg[:40]
	}
	return "rej:?" + strings.ReplaceAll(msg, " ", "_")
}

// ---------------------------------------------------------------- world

type world struct {
	run     *vh.Run
	sdb     *state.ChainStateDB
	chainID []byte
	public  bool
	keys    []*btcec.PrivateKey
	addrs   [][]byte
	blockNo uint64
	fv      int32
	mp      *mempool.MemPool
	setup   []string // committed transactions so far (for replays)
	zeroFee bool     // fee.EnableZeroFee() (what a node without fee configuration... the repo's tests) or the real fee
	hub     *component.ComponentHub
	fdMode  string // how the chain-service component of the hub answers CheckFeeDelegation: typed, timeout, none
	raft    *raftv2.BlockFactory
	flags   [2]bool // the pool's cfg.Mempool.BlockMulticall / BlockDeploy
}

var aergo = big.NewInt(1e18)

func coins(n int64) *big.Int { return new(big.Int).Mul(big.NewInt(n), aergo) }

func newWorld(run *vh.Run, dir string, public bool) *world {
	w := &world{run: run, public: public, blockNo: 10, fv: 3, zeroFee: true, fdMode: "typed"}
	w.sdb = state.NewChainStateDB()
	if err := w.sdb.Init(string(db.MemoryImpl), dir, nil, false, nil); err != nil {
		panic(err)
	}
	g := types.GetTestGenesis()
	g.ID.PublicNet = public
	g.ID.Consensus = "dpos"
	if err := w.sdb.SetGenesis(g, nil); err != nil {
		panic(err)
	}
	cid, _ := g.ID.Bytes()
	w.chainID = cid
	seed := vh.NewRng(7) // fixed accounts: the same in every run, so replays name them by index
	for i := 0; i < 5; i++ {
		k, _ := btcec.PrivKeyFromBytes(seed.Bytes(32))
		w.keys = append(w.keys, k)
		w.addrs = append(w.addrs, crypto.GenerateAddress(k.PubKey().ToECDSA()))
	}
	bs := w.sdb.NewBlockState(w.sdb.GetRoot())
	scs, err := statedb.GetSystemAccountState(bs.StateDB)
	if err != nil {
		panic(err)
	}
	system.InitSystemParams(scs, 3)
	if err := system.InitVotingPowerRank(scs); err != nil {
		panic(err)
	}
	for i, a := range w.addrs {
		as, _ := state.GetAccountState(a, bs.StateDB)
		switch {
		case i < 3:
			as.AddBalance(coins(1000000))
		case i == 3:
			as.AddBalance(big.NewInt(5)) // a poor account
		default:
			as.AddBalance(big.NewInt(5000)) // 5000 aer: can stake only once the staking minimum was voted down
		}
		as.PutState()
	}
	// aergo.name holds a balance (so that v1setOwner moves something)
	ns, _ := state.GetAccountState([]byte(types.AergoName), bs.StateDB)
	ns.AddBalance(coins(3))
	ns.PutState()
	w.commit(bs)
	return w
}

func (w *world) commit(bs *state.BlockState) {
	if err := bs.Update(); err != nil {
		panic(err)
	}
	if err := bs.Commit(); err != nil {
		panic(err)
	}
	if err := w.sdb.UpdateRoot(bs); err != nil {
		panic(err)
	}
	w.mp = nil
	// what the consensus does when the block is connected: parameter changes voted in it come into force
	system.CommitParams(true)
}

// reload: a block that is not connected leaves no trace: the process-wide system parameters and the voting-power
// rank are rebuilt from the committed state (what the chain does on a reorganisation / restart).
func (w *world) reload() {
	sdb := w.sdb.OpenNewStateDB(w.sdb.GetRoot())
	scs, err := statedb.GetSystemAccountState(sdb)
	if err != nil {
		panic(err)
	}
	system.InitSystemParams(scs, 3)
	if err := system.InitVotingPowerRank(scs); err != nil {
		panic(err)
	}
}

func (w *world) chainIdHash() []byte { return common.Hasher(types.MakeChainId(w.chainID, w.fv)) }

func (w *world) pool() *mempool.MemPool {
	if w.mp == nil {
		w.mp = mempool.VerifC14New(w.sdb.OpenNewStateDB(w.sdb.GetRoot()), w.public)
		if w.hub == nil {
			w.hub = newHub(w)
		}
	}
	w.mp.VerifC14SetBest(w.blockNo-1, w.fv, w.chainIdHash())
	if w.fdMode == "none" {
		w.mp.SetHub(component.NewComponentHub()) // a hub without a chain service
	} else {
		w.mp.SetHub(w.hub)
	}
	w.mp.VerifC14SetFlags(w.flags[0], w.flags[1])
	// NewMemPoolService(cfg, nil) switches the fee off process-wide: restore this world's setting
	w.applyFee()
	return w.mp
}

func (w *world) applyFee() {
	if w.zeroFee {
		fee.EnableZeroFee()
	} else {
		fee.DisableZeroFee()
	}
}

// cfg: node configuration of a case
type nodeCfg struct {
	consensus string // "dpos", "raft", "sbp"
}

func (w *world) applyCfg(c nodeCfg) {
	types.InitGovernance(c.consensus, w.public)
	consensus.SetCurConsensus(c.consensus)
	chain.VerifC14SetPublic(w.public)
	w.applyFee()
}

// ccc: what executes an admitted changeCluster request: on a raft network the real raft block factory's
// MakeConfChangeProposal on a three-member cluster whose leader this node is; elsewhere nothing is asked.
func (w *world) ccc(cons string) consensus.ChainConsensusCluster {
	if cons != "raft" {
		return stubCcc{}
	}
	if w.raft == nil {
		var ms []*consensus.Member
		for i, pid := range []string{"16Uiu2HAmPZE7gT1hF2bjpg1UVH65xyNUbBVRf3mBFBJpz3tgLGGt", "16Uiu2HAmGiJ2QgVAWHMUtzLKKNM5eFUJ3Ds3FN7nYJq1mHN5ZPj9", "16Uiu2HAm4xYtGsqk7WGKUxrGmRjB9mPDoxBsLEZPHKU7WRGLnTGa"} {
			id, err := types.IDB58Decode(pid)
			if err != nil {
				continue
			}
			ms = append(ms, consensus.NewMember(fmt.Sprintf("n%d", i+1), fmt.Sprintf("/ip4/127.0.0.1/tcp/%d", 7801+i), id, w.chainID, int64(i+1)))
		}
		cl, err := raftv2.VerifNewCluster(ms, nil, uint64(ms[0].ID))
		if err != nil {
			panic(err)
		}
		var prog []raftv2.VerifProgress
		for _, m := range ms {
			prog = append(prog, raftv2.VerifProgress{ID: uint64(m.ID), State: 1, Match: 10})
		}
		cl.VerifSetRaft(true, uint64(ms[0].ID), true, 10, prog)
		w.raft = raftv2.VerifC14Factory(cl)
	}
	return w.raft
}

type stubCcc struct{}

func (stubCcc) MakeConfChangeProposal(req *types.MembershipChange) (*consensus.ConfChangePropose, error) {
	return nil, consensus.ErrorMembershipChangeSkip
}

// ---------------------------------------------------------------- a case

type txCase struct {
	who       int    // signer
	account   []byte // nil: the signer's address
	rcpt      []byte
	amount    *big.Int
	price     *big.Int
	typ       types.TxType
	payload   []byte
	gasLimit  uint64
	nonceOff  int64 // tx nonce = state nonce + 1 + nonceOff
	badSig    bool
	badHash   bool
	badChain  bool
	cons      string
	label     string
	wantClass string
}

func (w *world) build(c *txCase) (*types.Tx, uint64) {
	acc := c.account
	if acc == nil {
		acc = w.addrs[c.who]
	}
	sdb := w.sdb.OpenNewStateDB(w.sdb.GetRoot())
	resolved := w.resolve(acc)
	var stNonce uint64
	if len(resolved) > 0 {
		as, err := state.GetAccountState(resolved, sdb)
		if err == nil {
			stNonce = as.Nonce()
		}
	}
	amt, price := c.amount, c.price
	if amt == nil {
		amt = big.NewInt(0)
	}
	if price == nil {
		price = big.NewInt(0)
	}
	n := int64(stNonce) + 1 + c.nonceOff
	if n < 0 {
		n = 0
	}
	tx := &types.Tx{Body: &types.TxBody{
		Nonce: uint64(n), Account: acc, Recipient: c.rcpt, Amount: amt.Bytes(), GasPrice: price.Bytes(),
		Payload: c.payload, Type: c.typ, ChainIdHash: w.chainIdHash(), GasLimit: c.gasLimit,
	}}
	if c.badChain {
		tx.Body.ChainIdHash = []byte("not the chain")
	}
	key.SignTx(tx, w.keys[c.who])
	if c.badSig && len(tx.Body.Sign) > 10 {
		tx.Body.Sign[9] ^= 0x40
		tx.Hash = tx.CalculateTxHash()
	}
	if c.badHash {
		tx.Hash = append([]byte{}, tx.Hash...)
		tx.Hash[0] ^= 1
	}
	// what a peer/client sends is the protobuf encoding: empty byte fields arrive as nil
	if b, err := proto.Encode(tx); err == nil {
		t2 := &types.Tx{}
		if proto.Decode(b, t2) == nil && t2.Body != nil {
			tx = t2
		}
	}
	return tx, stNonce
}

// resolve does what the pool does with a name account (name.GetAddress on the name contract).
func (w *world) resolve(acc []byte) []byte {
	if len(acc) == types.AddressLength || types.IsSpecialAccount(acc) || len(acc) == 0 {
		return acc
	}
	scs, err := statedb.GetNameAccountState(w.sdb.OpenNewStateDB(w.sdb.GetRoot()))
	if err != nil {
		return nil
	}
	var out []byte
	func() {
		defer func() { recover() }()
		out = name.GetAddress(scs, acc)
	}()
	return out
}

func hx(b []byte) string {
	if len(b) == 0 {
		return "-"
	}
	return hex.EncodeToString(b)
}

func b01(b bool) string {
	if b {
		return "1"
	}
	return "0"
}

func tilde(items [][]byte) string {
	if len(items) == 0 {
		return "-"
	}
	s := make([]string, len(items))
	for i, it := range items {
		s[i] = "~" + hex.EncodeToString(it)
	}
	return strings.Join(s, ",")
}

var issues = []string{"voteBP", "BPCOUNT", "STAKINGMIN", "GASPRICE", "NAMEPRICE"}

// facts renders everything the model takes as observed facts (state records through the real
// accessors, library decoders applied to the string arguments).
func (w *world) facts(tx *types.Tx, stNonce uint64, cons string) string {
	body := tx.Body
	var sb strings.Builder
	kv := func(k, v string) { sb.WriteString(" " + k + "=" + v) }
	sdb := w.sdb.OpenNewStateDB(w.sdb.GetRoot())
	sender := w.resolve(body.Account)
	kv("pub", b01(w.public))
	kv("dpos", b01(cons == "dpos"))
	kv("raft", b01(cons == "raft"))
	kv("max", types.MaxAER.String())
	kv("acc", hx(body.Account))
	kv("rcpt", hx(body.Recipient))
	kv("amt", body.GetAmountBigInt().String())
	kv("price", body.GetGasPriceBigInt().String())
	kv("type", strconv.Itoa(int(body.Type)))
	kv("txn", strconv.FormatUint(body.Nonce, 10))
	kv("pay", hx(body.Payload))
	kv("fv", strconv.Itoa(int(w.fv)))
	kv("bno", strconv.FormatUint(w.blockNo, 10))
	kv("sn", strconv.FormatUint(stNonce, 10))
	bal := big.NewInt(0)
	if len(sender) > 0 {
		if as, err := state.GetAccountState(sender, sdb); err == nil {
			bal = as.Balance()
		}
	}
	kv("bal", bal.String())
	kv("zf", b01(w.zeroFee))
	kv("gp", system.GetGasPrice().String())
	kv("gl", strconv.FormatUint(body.GasLimit, 10))
	kv("bm", b01(w.flags[0]))
	kv("bd", b01(w.flags[1]))
	// the pool's view of the recipient: name.GetAddress on the name contract; the fee-delegation payer's balance
	rcptAddr := body.Recipient
	if r := body.Recipient; len(r) > 0 && len(r) != types.AddressLength && !types.IsSpecialAccount(r) {
		rcptAddr = w.resolve(r)
		kv("rres", b01(rcptAddr != nil))
	}
	if body.Type == types.TxType_FEEDELEGATION && len(body.Recipient) > 0 {
		payer := body.Recipient // the pool resolves only name-length recipients
		if tx.HasNameRecipient() {
			payer = rcptAddr
		}
		if payer != nil {
			if as, err := state.GetAccountState(payer, sdb); err == nil {
				kv("rbal", as.Balance().String())
			}
			kv("fd", w.fdFact(payer, tx))
		}
	}

	var ci types.CallInfo
	jsonOK := json.Unmarshal(body.Payload, &ci) == nil
	argStr := func(i int) (string, bool) {
		if !jsonOK || i >= len(ci.Args) {
			return "", false
		}
		s, ok := ci.Args[i].(string)
		return s, ok
	}

	switch string(body.Recipient) {
	case types.AergoSystem:
		scs, _ := statedb.GetSystemAccountState(sdb)
		st, _ := system.GetStaking(scs, sender)
		if st == nil {
			st = &types.Staking{}
		}
		kv("stk", st.GetAmountBigInt().String())
		kv("srec", b01(st.GetAmount() != nil))
		kv("when", strconv.FormatUint(st.GetWhen(), 10))
		kv("smin", system.GetStakingMinimum().String())
		vrec, oldok := "", ""
		var vamt []string
		for _, is := range issues {
			k := []byte(is)
			v, err := system.GetVote(scs, sender, k)
			has := err == nil && v != nil && v.Amount != nil
			vrec += b01(has)
			if has {
				vamt = append(vamt, v.GetAmountBigInt().String())
			} else {
				vamt = append(vamt, "0")
			}
			ok := true
			if has {
				tally := map[string]bool{}
				if vl, err := system.GetVoteResult(scs, k, 1<<30); err == nil {
					for _, r := range vl.Votes {
						tally[string(r.Candidate)] = true
					}
				}
				if is == "voteBP" {
					for off := 0; off+system.PeerIDLength <= len(v.Candidate); off += system.PeerIDLength {
						if !tally[string(v.Candidate[off:off+system.PeerIDLength])] {
							ok = false
						}
					}
				} else if v.Candidate != nil {
					var cs []string
					if json.Unmarshal(v.Candidate, &cs) == nil {
						for _, c := range cs {
							if !tally[c] {
								ok = false
							}
						}
					}
				}
			}
			oldok += b01(ok)
		}
		kv("vrec", vrec)
		kv("oldok", oldok)
		kv("vamt", strings.Join(vamt, ","))
		// capacity of the candidate buffer newVoteCmd grows with append (a Go runtime fact)
		var cbuf []byte
		if jsonOK {
			for i := range ci.Args {
				if s, ok := argStr(i); ok {
					d, _ := base58.Decode(s)
					cbuf = append(cbuf, d...)
				}
			}
		}
		kv("cap", strconv.Itoa(cap(cbuf)))
		// parameter votes: the staking total and the tally of every issue, in stored order, with the candidates of
		// the sender's old record flagged
		if tot, err := system.GetStakingTotal(scs); err == nil && tot != nil {
			kv("stot", tot.String())
		}
		for i, is := range issues[1:] {
			vl, err := system.GetVoteResult(scs, []byte(is), 1<<30)
			if err != nil || vl == nil || len(vl.Votes) == 0 {
				continue
			}
			old := map[string]bool{}
			if v, err := system.GetVote(scs, sender, []byte(is)); err == nil && v != nil && v.Candidate != nil {
				var cs []string
				if json.Unmarshal(v.Candidate, &cs) == nil {
					for _, c := range cs {
						old[c] = true
					}
				}
			}
			var rows []string
			for _, r := range vl.Votes {
				rows = append(rows, hx(r.Candidate)+":"+r.GetAmountBigInt().String()+":"+b01(old[string(r.Candidate)]))
			}
			kv("tal"+strconv.Itoa(i+1), strings.Join(rows, ","))
		}
	case types.AergoName:
		scs, _ := statedb.GetNameAccountState(sdb)
		kv("nprice", system.GetNamePrice().String())
		if s, ok := argStr(0); ok {
			owner := name.GetOwner(scs, []byte(s))
			kv("nown", b01(owner != nil))
			kv("aeq", b01(bytes.Equal(body.Account, []byte(s))))
			kv("aown", b01(bytes.Equal(body.Account, owner)))
		}
		kv("cown", b01(name.GetOwner(scs, []byte(types.AergoName)) != nil))
	case types.AergoEnterprise:
		scs, _ := statedb.GetEnterpriseAccountState(sdb)
		readable := !guard(func() error { _, err := enterprise.GetAdmin(scs); return err }).panicked
		kv("ard", b01(readable))
		raw, _ := scs.GetData(dbkey.EnterpriseAdmins())
		if readable {
			var adm, enc [][]byte
			for i := 0; i+types.AddressLength <= len(raw); i += types.AddressLength {
				adm = append(adm, raw[i:i+types.AddressLength])
				enc = append(enc, []byte(types.EncodeAddress(raw[i:i+types.AddressLength])))
			}
			kv("adm", tilde(adm))
			kv("admenc", tilde(enc))
		}
		kv("sadm", b01(bytes.Index(raw, sender) != -1))
		conf := func(k string) string {
			data, _ := scs.GetData(dbkey.EnterpriseConf([]byte(k)))
			if data == nil {
				return "nil"
			}
			if len(data) == 0 {
				return "empty" // a stored record without the on/off byte: no writer produces it (deserializeConf would read data[0])
			}
			var vals [][]byte
			for _, v := range strings.Split(string(data), "\\")[1:] {
				vals = append(vals, []byte(v))
			}
			return b01(data[0] == 1) + ":" + tilde(vals)
		}
		if s, ok := argStr(0); ok {
			kv("ck", conf(s))
		}
		kv("cw", conf(enterprise.AccountWhite))
		if jsonOK && len(ci.Args) == 1 {
			if m, ok := ci.Args[0].(map[string]interface{}); ok {
				if s, ok := m["peerid"].(string); ok {
					_, err := types.IDB58Decode(s)
					kv("ccp", b01(err == nil))
				}
				if s, ok := m["address"].(string); ok {
					_, err := types.ParseMultiaddr(s)
					kv("cca", b01(err == nil))
				}
				if s, ok := m["id"].(string); ok {
					_, err := strconv.ParseUint(s, 16, 64)
					kv("cci", b01(err == nil))
				}
			}
		}
	}
	// library decoders applied to the string arguments
	if jsonOK && len(ci.Args) > 0 && len(ci.Args) <= 64 {
		var af []string
		for i := range ci.Args {
			s, ok := argStr(i)
			if !ok {
				af = append(af, "x|x|0|0|0")
				continue
			}
			a, b := "x", "x"
			if addr, err := types.DecodeAddress(s); err == nil {
				a = "~" + hex.EncodeToString(addr)
			}
			pid := false
			if d, err := base58.Decode(s); err == nil {
				b = strconv.Itoa(len(d))
				_, e2 := types.IDFromBytes(d)
				pid = e2 == nil
			}
			_, le := types.ParseListEntry(s)
			_, be := base64.Decode(strings.Split(s, ":")[0])
			af = append(af, a+"|"+b+"|"+b01(pid)+"|"+b01(le == nil)+"|"+b01(be == nil))
		}
		kv("af", strings.Join(af, ";"))
	}
	return sb.String()
}

type replay struct {
	World   string   `json:"world"`
	Setup   []string `json:"committed_before"`
	BlockNo uint64   `json:"block_no"`
	Fork    int32    `json:"fork_version"`
	Cons    string   `json:"consensus"`
	Signer  int      `json:"signer"`
	Account string   `json:"account_hex"`
	Rcpt    string   `json:"recipient"`
	Amount  string   `json:"amount"`
	Type    string   `json:"type"`
	Payload string   `json:"payload"`
	Stage   string   `json:"stage"`
	Panic   string   `json:"panic"`
	Site    string   `json:"site"`
}

func (w *world) worldName() string {
	if w.public {
		return "public"
	}
	return "private"
}

func outName(r result) string {
	if r.panicked {
		return "panic:" + r.site
	}
	return classify(r.err)
}

// runCase runs one governance transaction through admission and execution. commit: keep the
// executed state (setup step).
func (w *world) runCase(c *txCase, commit bool) (admit, exec string) {
	run := w.run
	if c.cons == "" {
		c.cons = "dpos"
	}
	w.applyCfg(nodeCfg{c.cons})
	tx, stNonce := w.build(c)
	txi := types.NewTransaction(tx)
	op := "tx" + w.facts(tx, stNonce, c.cons)

	// admission: Validate alone (to tell a signature rejection from a Validate rejection), verifyTx, validateTx
	mp := w.pool()
	var ar result
	r0 := guard(func() error { return types.NewTransaction(tx).Validate(w.chainIdHash(), w.public) })
	ar = r0
	sigOK := true
	if !r0.panicked && r0.err == nil {
		r1 := guard(func() error { return mp.VerifC14Verify(txi) })
		if r1.panicked {
			ar = r1
		} else if r1.err != nil {
			sigOK = false
			ar = result{err: errSig}
		} else {
			ar = guard(func() error { return mp.VerifC14Validate(txi) })
		}
	}
	admit = outName(ar)
	if !sigOK {
		admit = "rej:sig"
	}
	op += " chain=" + b01(!c.badChain) + " hash=" + b01(!c.badHash) + " sig=" + b01(sigOK) + " size=" + b01(proto.Size(tx) <= types.TxMaxSize)

	// execution in the next block: the real TxExecutor of the chain service (validators) and of the block factory
	// (producers), each on its own block state; nothing is connected, so the process-wide parameters / rank are rebuilt
	exec1 := func(mode int) (result, *state.BlockState) {
		bs := w.sdb.NewBlockState(w.sdb.GetRoot(), state.SetGasPrice(system.GetGasPrice()))
		bi := &types.BlockHeaderInfo{No: w.blockNo, ForkVersion: w.fv, ChainId: types.MakeChainId(w.chainID, w.fv)}
		txe := types.NewTransaction(tx)
		if txi.HasVerifedAccount() {
			txe.SetVerifedAccount(txi.GetVerifedAccount())
		}
		ex := chain.NewTxExecutor(context.Background(), w.ccc(c.cons), nil, bi, mode)
		return guard(func() error { return ex(bs, txe) }), bs
	}
	// (only a system transaction that got past its validation touches the process-wide parameters / rank)
	sysTx := tx.Body.Type == types.TxType_GOVERNANCE && string(tx.Body.Recipient) == types.AergoSystem
	erF, _ := exec1(contract.BlockFactory)
	if sysTx && (erF.err == nil || erF.panicked) {
		w.reload()
	}
	er, bs := exec1(contract.ChainService)
	exec = "done"
	if er.panicked {
		exec = "panic:" + er.site
	}
	if erF.panicked != er.panicked || (er.panicked && erF.site != er.site) {
		k := "modes-differ/" + erF.site + "/" + er.site
		reported[k]++
		run.Count("finding:" + k)
		if reported[k] == 1 {
			run.Fail("the block factory's executor and the chain service's executor differ on the same transaction and state: "+outName(erF)+" vs "+outName(er),
				replay{World: w.worldName(), Setup: append([]string{}, w.setup...), BlockNo: w.blockNo, Fork: w.fv, Cons: c.cons, Signer: c.who,
					Rcpt: string(c.rcpt), Type: tx.Body.Type.String(), Payload: string(c.payload), Stage: "execution", Panic: erF.msg + " / " + er.msg, Site: erF.site + " / " + er.site})
		}
	}
	nontrivial := admit == "ok" || strings.HasPrefix(admit, "panic") || strings.HasPrefix(exec, "panic")
	run.Op(op, "adm="+admit+" exec="+exec, nontrivial)
	if tx.Body.Type == types.TxType_GOVERNANCE {
		run.Count("tx:" + string(c.rcpt))
	} else {
		run.Count("tx:" + tx.Body.Type.String())
		run.Count("admit-" + tx.Body.Type.String() + ":" + admit)
		if admit == "ok" && !er.panicked {
			run.Count("receipt-" + tx.Body.Type.String() + ":" + receiptStatus(bs, er.err))
		}
	}
	run.Count("admit:" + admit)
	run.Count("exec:" + exec)
	if c.label != "" {
		run.Count("gen:" + c.label)
	}

	// oracle: the property itself
	mk := func(stage string, r result) replay {
		return replay{World: w.worldName(), Setup: append([]string{}, w.setup...), BlockNo: w.blockNo, Fork: w.fv, Cons: c.cons,
			Signer: c.who, Account: hex.EncodeToString(tx.Body.Account), Rcpt: string(c.rcpt), Amount: tx.Body.GetAmountBigInt().String(),
			Type: tx.Body.Type.String(), Payload: string(c.payload), Stage: stage, Panic: r.msg, Site: r.site}
	}
	if ar.panicked {
		if ar.site == "pFdRsp" && w.fdMode == "none" {
			// a node whose hub has no chain service: not an input a client or peer controls (the model's hypothesis FdReplyOk)
			run.Count("untyped-reply-without-chain-service")
		} else {
			report(run, "admission of an untrusted transaction panics in "+ar.site+": "+ar.msg, "admission", ar, mk("admission", ar))
		}
	}
	if er.panicked {
		if admit == "ok" {
			report(run, "an admitted transaction panics in block execution at "+er.site+": "+er.msg, "execution", er, mk("execution", er))
		} else {
			run.Count("exec-panic-of-non-admitted-tx")
		}
	}
	if erF.panicked && !er.panicked && admit == "ok" {
		report(run, "an admitted transaction panics in block production (block factory mode) at "+erF.site+": "+erF.msg, "production", erF, mk("production", erF))
	}
	if commit && !er.panicked && er.err == nil {
		w.commit(bs)
		w.setup = append(w.setup, fmt.Sprintf("block %d signer %d -> %s %s amount %s: %s  [%s]", w.blockNo, c.who, tx.Body.Type, printable(c.rcpt), tx.Body.GetAmountBigInt(), c.payload, receiptOf(bs)))
		w.blockNo++
	} else if sysTx && (er.err == nil || er.panicked) {
		w.reload()
	}
	return
}

func printable(b []byte) string {
	for _, c := range b {
		if c < 32 || c > 126 {
			return hex.EncodeToString(b)
		}
	}
	return string(b)
}

// receiptStatus: what the property calls "a success or error receipt or is skipped".
func receiptStatus(bs *state.BlockState, err error) string {
	if err != nil {
		return "skipped"
	}
	rs := bs.Receipts().Get()
	if len(rs) == 0 {
		return "none"
	}
	return rs[len(rs)-1].Status
}

var errSig = errors.New("signature")

func receiptOf(bs *state.BlockState) string {
	rs := bs.Receipts().Get()
	if len(rs) == 0 {
		return "no receipt"
	}
	return rs[0].Status + " " + rs[0].Ret
}

// valCase: Validate alone, any transaction type and field lengths.
func (w *world) valCase(c *txCase) {
	if c.cons == "" {
		c.cons = "dpos"
	}
	w.applyCfg(nodeCfg{c.cons})
	tx, stNonce := w.build(c)
	op := "val" + w.facts(tx, stNonce, c.cons)
	r := guard(func() error { return types.NewTransaction(tx).Validate(w.chainIdHash(), w.public) })
	op += " chain=" + b01(!c.badChain) + " hash=" + b01(!c.badHash) + " size=" + b01(proto.Size(tx) <= types.TxMaxSize)
	out := outName(r)
	w.run.Op(op, "val="+out, out == "ok" || r.panicked)
	w.run.Count("val:" + out)
	if r.panicked {
		report(w.run, "Validate panics in "+r.site+": "+r.msg, "admission", r, replay{World: w.worldName(), Rcpt: string(c.rcpt),
			Type: tx.Body.Type.String(), Payload: string(c.payload), Stage: "Validate", Panic: r.msg, Site: r.site})
	}
	// whatever passes Validate goes through the whole pipeline (pool admission + execution, compared with the model)
	if tx.Body.Type != types.TxType_GOVERNANCE && r.err == nil && !r.panicked {
		cc := *c
		cc.label = "validated-envelope"
		w.runCase(&cc, false)
	}
}

// ---------------------------------------------------------------- payload generation

type jv = interface{}

func js(v jv) string {
	b, err := json.Marshal(v)
	if err != nil {
		panic(err)
	}
	return string(b)
}

// raw JSON fragments of every kind, used to replace an argument
func kindSamples(rng *vh.Rng, thorough bool) []string {
	s := []string{`null`, `true`, `false`, `0`, `5`, `-1`, `1.5`, `1e400`, `-1e400`, `1e308`, `1.7976931348623159e308`, `""`, `"x"`, `[]`, `["x"]`, `{}`,
		`{"a":1}`, `"\u0000"`, `"\ud800"`, `"\ud83d\ude00"`, `123456789012345678901234567890`, `0.000000000000000000000000000001e-400`}
	if thorough {
		s = append(s, strings.Repeat("[", 50)+strings.Repeat("]", 50), `"`+strings.Repeat("a", 3000)+`"`, `1`+strings.Repeat("0", 400),
			`{"command":"add"}`, `[[[1e999]]]`, `"\\"`, `"\u212a"`)
	}
	return s
}

type tmpl struct {
	rcpt string
	name string
	args []string // raw JSON per argument
	amt  *big.Int
}

func q(s string) string { return js(s) }

func (w *world) templates() []tmpl {
	pid39 := "16Uiu2HAmPZE7gT1hF2bjpg1UVH65xyNUbBVRf3mBFBJpz3tgLGGt"
	pid39b := "16Uiu2HAmGiJ2QgVAWHMUtzLKKNM5eFUJ3Ds3FN7nYJq1mHN5ZPj9"
	a0 := types.EncodeAddress(w.addrs[0])
	a1 := types.EncodeAddress(w.addrs[1])
	a2 := types.EncodeAddress(w.addrs[2])
	sys, nam, ent := types.AergoSystem, types.AergoName, types.AergoEnterprise
	return []tmpl{
		{sys, "v1stake", nil, coins(10000)},
		{sys, "v1stake", nil, coins(1)},
		{sys, "v1unstake", nil, coins(10000)},
		{sys, "v1unstake", nil, coins(1)},
		{sys, "v1voteBP", []string{q(pid39)}, nil},
		{sys, "v1voteBP", []string{q(pid39), q(pid39b)}, nil},
		{sys, "v1voteDAO", []string{q("BPCOUNT"), q("3")}, nil},
		{sys, "v1voteDAO", []string{q("stakingmin"), q("20000000000000000000000")}, nil},
		{sys, "v1voteDAO", []string{q("GASPRICE"), q("50000000000")}, nil},
		{sys, "v1voteDAO", []string{q("namePrice"), q("1000000000000000000")}, nil},
		{nam, "v1createName", []string{q("abcdefghijkl")}, coins(1)},
		{nam, "v1createName", []string{q("zyxwvu987654")}, coins(1)},
		{nam, "v1updateName", []string{q("abcdefghijkl"), q(a1)}, coins(1)},
		{nam, "v1setOwner", []string{q(a2)}, nil},
		{ent, "appendAdmin", []string{q(a0)}, nil},
		{ent, "appendAdmin", []string{q(a1)}, nil},
		{ent, "removeAdmin", []string{q(a0)}, nil},
		{ent, "removeAdmin", []string{q(a1)}, nil},
		{ent, "setConf", []string{q("p2pwhite"), q(`{"peerid":"` + pid39 + `","address":"","cidr":"172.21.3.35/24"}`)}, nil},
		{ent, "setConf", []string{q("accountwhite"), q(a0), q(a1)}, nil},
		{ent, "setConf", []string{q("rpcpermissions"), q("dGVzdA==:RW"), q("Y2VydA==:R")}, nil},
		{ent, "appendConf", []string{q("accountwhite"), q(a2)}, nil},
		{ent, "appendConf", []string{q("rpcpermissions"), q("YWJj:W")}, nil},
		{ent, "removeConf", []string{q("accountwhite"), q(a0)}, nil},
		{ent, "removeConf", []string{q("rpcpermissions"), q("dGVzdA==:RW")}, nil},
		{ent, "enableConf", []string{q("accountwhite"), "true"}, nil},
		{ent, "enableConf", []string{q("rpcpermissions"), "true"}, nil},
		{ent, "enableConf", []string{q("p2pblack"), "false"}, nil},
		{ent, "enableConf", []string{q("p2pwhite"), "true"}, nil},
		{ent, "setConf", []string{q("p2pblack"), q(`{"peerid":"","address":"","cidr":"10.9.0.0/16"}`)}, nil},
		{ent, "appendConf", []string{q("p2pblack"), q(`{"peerid":"","address":"","cidr":"10.9.0.0/16"}`)}, nil},
		{ent, "removeConf", []string{q("p2pblack"), q(`{"peerid":"","address":"","cidr":"10.9.0.0/16"}`)}, nil},
		{ent, "appendConf", []string{q("p2pwhite"), q(`{"peerid":"","address":"","cidr":"10.8.0.0/16"}`)}, nil},
		{ent, "removeConf", []string{q("p2pwhite"), q(`{"peerid":"","address":"","cidr":"10.8.0.0/16"}`)}, nil},
		{ent, "changeCluster", []string{`{"command":"add","name":"n4","address":"/ip4/127.0.0.1/tcp/7846","peerid":"` + pid39 + `"}`}, nil},
		{ent, "changeCluster", []string{`{"command":"remove","id":"dd44cf1a06727dc5"}`}, nil},
		// member attributes the enterprise validator accepts and the raft cluster code then has to digest
		{ent, "changeCluster", []string{`{"command":"add","name":"n5","address":"/ip4/1.2.3.4","peerid":"` + pid39b + `"}`}, nil},
		{ent, "changeCluster", []string{`{"command":"add","name":"n1","address":"/dns/localhost/tcp/1","peerid":"` + pid39 + `"}`}, nil},
		{ent, "changeCluster", []string{`{"command":"add","name":"","address":"/ip6/::1/tcp/7846","peerid":"` + pid39b + `"}`}, nil},
		{ent, "changeCluster", []string{`{"command":"add","name":"` + strings.Repeat("n", 300) + `","address":"/ip4/127.0.0.1/tcp/7802","peerid":"QmNp5n7FFav5ZDaHAj6HzuhJ8LDbL1N6NRzAgT6piWS2Kx"}`}, nil},
		{ent, "changeCluster", []string{`{"command":"remove","id":"0"}`}, nil},
		{ent, "changeCluster", []string{`{"command":"remove","id":"ffffffffffffffff"}`}, nil},
	}
}

func payloadOf(name string, args []string) string {
	return `{"Name":` + q(name) + `,"Args":[` + strings.Join(args, ",") + `]}`
}

// interesting string arguments per position kind
func (w *world) stringPool(rng *vh.Rng) []string {
	mh := func(code byte, n int) string {
		return base58.Encode(append([]byte{code, byte(n)}, bytes.Repeat([]byte{7}, n)...))
	}
	a0 := types.EncodeAddress(w.addrs[0])
	bad := []byte(a0)
	bad[10] ^= 1
	return []string{
		"", "a", "abcdefghijk", "abcdefghijkl", "abcdefghijklm", "ABCDEFGHIJKL", "abcdefghij.l", "abcdefghi\u212al", "\u212a\u212a\u212a\u212a", "abcdefghijk\u0130",
		"aergo.system", "aergo.name", "aergo.vault", "aergo.enterprise", a0, string(bad), types.EncodeAddress(w.addrs[3]), a0 + "x",
		mh(0x12, 32), mh(0x11, 20), mh(0x00, 1), mh(0x00, 37), mh(0x00, 38), mh(0x12, 31), "0OIl", "zzzz", "16Uiu2HAmPZE7gT1hF2bjpg1UVH65xyNUbBVRf3mBFBJpz3tgLGGt",
		"BPCOUNT", "bpcount", "bpCount", "stak\u0131ngm\u0131n", "ga\u017fprice", "GASPRICE ", "NAMEPRICE", "voteBP", "PERMISSIONS",
		"3", "0", "100", "101", "-5", "+7", "03", "1e3", "abc", "500000000000000000000000000", "500000000000000000000000001", "1_000",
		"p2pwhite", "P2PBLACK", "accountwhite", "RPCPERMISSIONS", "rpcperm\u0131ss\u0131ons", "nokey", "a\\b", "YWJj:W", "YWJj:r", "YWJj", "!!!:W", "a:b:c", ":", "YWJj:",
		`{"peerid":"","address":"","cidr":"10.0.0.0/8"}`, `{"peerid":"x"}`,
		// values a dedicated checker accepts but that contain the separator of the stored form (backslash)
		"dGVzdA==:R\\x", "YWJj:W\\", `{"peerid":"","address":"","cidr":"10.0.0.0\/8"}`,
	}
}

const mutChars = "\"[]{},:\\0123456789eE.-+ntfu "

type gen struct {
	w   *world
	rng *vh.Rng
	out []*txCase
}

func (g *gen) add(rcpt, payload string, amt *big.Int, label string) {
	g.out = append(g.out, &txCase{rcpt: []byte(rcpt), payload: []byte(payload), amount: amt, typ: types.TxType_GOVERNANCE, label: label})
}

// structured mutations of every valid call
func (g *gen) structured(thorough bool) {
	kinds := kindSamples(g.rng, thorough)
	pool := g.w.stringPool(g.rng)
	for _, t := range append(g.w.templates(), g.w.unknownCommandTemplates()...) {
		g.add(t.rcpt, payloadOf(t.name, t.args), t.amt, "valid")
		// each argument replaced by each JSON kind / by interesting strings
		for i := range t.args {
			for _, k := range kinds {
				a := append([]string{}, t.args...)
				a[i] = k
				g.add(t.rcpt, payloadOf(t.name, a), t.amt, "arg-kind")
			}
			n := len(pool)
			if !thorough {
				n = 14
			}
			for j := 0; j < n; j++ {
				a := append([]string{}, t.args...)
				a[i] = q(pool[g.rng.Intn(len(pool))])
				if thorough {
					a[i] = q(pool[j])
				}
				g.add(t.rcpt, payloadOf(t.name, a), t.amt, "arg-string")
			}
		}
		// arguments dropped / added / duplicated
		for n := 0; n < len(t.args); n++ {
			g.add(t.rcpt, payloadOf(t.name, t.args[:n]), t.amt, "args-dropped")
		}
		for _, k := range []string{`"x"`, `5`, `null`, `true`, q(pool[g.rng.Intn(len(pool))])} {
			g.add(t.rcpt, payloadOf(t.name, append(append([]string{}, t.args...), k)), t.amt, "args-added")
			g.add(t.rcpt, payloadOf(t.name, append([]string{k}, t.args...)), t.amt, "args-added")
		}
		if len(t.args) > 0 {
			g.add(t.rcpt, payloadOf(t.name, append(append([]string{}, t.args...), t.args[len(t.args)-1])), t.amt, "args-dup")
		}
		// shapes of the call object itself
		argl := "[" + strings.Join(t.args, ",") + "]"
		nm := q(t.name)
		for _, p := range []string{
			`{"Name":` + nm + `}`, `{"Name":` + nm + `,"Args":null}`, `{"Name":` + nm + `,"Args":{}}`, `{"Name":` + nm + `,"Args":"x"}`, `{"Name":` + nm + `,"Args":5}`,
			`{"Args":` + argl + `}`, `{"Name":null,"Args":` + argl + `}`, `{"Name":5,"Args":` + argl + `}`, `{"Name":"","Args":` + argl + `}`,
			`{"name":` + nm + `,"ARGS":` + argl + `}`, `{"NAME":` + nm + `,"arg\u017f":` + argl + `}`, `{"Name":` + nm + `,"Args":[],"Args":` + argl + `}`,
			`{"Name":` + nm + `,"Args":` + argl + `,"Args":null}`, `{"Name":"x","Name":` + nm + `,"Args":` + argl + `}`, `{"Name":` + nm + `,"Args":` + argl + `,"Extra":[1e400]}`,
			` {"Name" : ` + nm + ` , "Args" : ` + argl + ` } `, `{"Name":` + nm + `,"Args":` + argl + `}x`, `{"Name":` + nm + `,"Args":` + argl, `[` + nm + `]`,
			`{"Name":` + q(strings.ToUpper(t.name)) + `,"Args":` + argl + `}`, `{"Name":` + q(t.name+" ") + `,"Args":` + argl + `}`,
			`{"Name":` + nm + `,"Args":[` + strings.Repeat("[", 40) + strings.Repeat("]", 40) + `]}`,
		} {
			g.add(t.rcpt, p, t.amt, "call-shape")
		}
	}
	// payloads that are not calls at all
	for _, rc := range []string{types.AergoSystem, types.AergoName, types.AergoEnterprise, "aergo.vault", "someoneelse"} {
		for _, p := range []string{`null`, `[]`, `{}`, `"x"`, `5`, `true`, ` `, `{`, `nul`, `{"Name":"\u00e9"}`, "\xff\xfe", `{"Name":"a\x01"}`, "\xef\xbb\xbf{}", `{"Name":"\xc3"}`} {
			g.add(rc, p, nil, "non-call")
		}
	}
	// nesting at the decoder's limit
	for _, d := range []int{9999, 10000, 10001} {
		if !thorough && d != 10000 {
			continue
		}
		g.add(types.AergoSystem, `{"Name":"v1voteBP","Args":`+strings.Repeat("[", d-1)+strings.Repeat("]", d-1)+`}`, nil, "deep")
	}
	// many candidates
	for _, n := range []int{29, 30, 31} {
		var c []string
		for i := 0; i < n; i++ {
			id := append([]byte{0x00, 37}, bytes.Repeat([]byte{byte(i + 1)}, 37)...)
			c = append(c, q(base58.Encode(id)))
		}
		g.add(types.AergoSystem, payloadOf("v1voteBP", c), nil, "many-candidates")
		// … followed by an argument no per-candidate check would accept (the checks stop at MaxCandidates, execution does not)
		for _, junk := range []string{`5`, `null`, `{}`, `"0OIl"`, q(base58.Encode([]byte{0x00, 1, 7}))} {
			g.add(types.AergoSystem, payloadOf("v1voteBP", append(append([]string{}, c...), junk)), nil, "many-candidates-junk")
		}
	}
	// candidates of assorted decoded lengths (capacity classes of the candidate buffer)
	for _, ls := range [][]int{{1}, {6}, {20}, {22}, {30}, {31}, {32}, {37, 37}, {37, 36}, {37, 38}, {46}, {62}, {76}, {37, 37, 1}, {100}, {37, 20, 20}} {
		var c []string
		for j, l := range ls {
			c = append(c, q(base58.Encode(append([]byte{0x00, byte(l)}, bytes.Repeat([]byte{byte(9 + j)}, l)...))))
		}
		g.add(types.AergoSystem, payloadOf("v1voteBP", c), nil, "candidate-lengths")
	}
}

// byte-level mutations of valid payloads (the malformed stream)
func (g *gen) malformed(n int) {
	ts := g.w.templates()
	for i := 0; i < n; i++ {
		t := ts[g.rng.Intn(len(ts))]
		b := []byte(payloadOf(t.name, t.args))
		for k := 0; k <= g.rng.Intn(3); k++ {
			p := g.rng.Intn(len(b))
			switch g.rng.Intn(4) {
			case 0:
				b[p] = byte(g.rng.Next())
			case 1:
				b = append(b[:p], b[p+1:]...)
			case 2:
				b = append(b[:p], append([]byte{mutChars[g.rng.Intn(len(mutChars))]}, b[p:]...)...)
			case 3:
				b[p] ^= 1 << uint(g.rng.Intn(8))
			}
			if len(b) == 0 {
				b = []byte{' '}
			}
		}
		g.add(t.rcpt, string(b), t.amt, "malformed")
	}
}

// ---------------------------------------------------------------- main

func main() {
	run := vh.Start("c14", "tx: transactions of every type. Governance: every valid aergo.system/name/enterprise call (command names taken from the code under test); each "+
		"argument replaced by every JSON kind and by boundary strings; arguments dropped/added/duplicated; call-object shapes; non-call payloads; nesting at the decoder "+
		"limit; byte-level mutations. Other types: NORMAL/TRANSFER/CALL/DEPLOY/REDEPLOY/MULTICALL/FEEDELEGATION x recipients (account, name, unknown name, special, "+
		"contract, none) x payloads (stub-VM scripts, call JSON, junk) x amounts x gas limits x senders (rich, poor, name account), fee off and on, pool switches, "+
		"chain-service replies. States: unstaked, staked, voted, corrupt old vote; name owned/free; no admin, admin; parameters changed by won votes (STAKINGMIN, GASPRICE, "+
		"NAMEPRICE, BPCOUNT at their extremes). Through the real mempool.verifyTx/validateTx and chain.NewTxExecutor (chain-service and block-factory mode) under recover(). "+
		"val: Validate alone over all tx types and field lengths. json/up/low: the model's JSON decoder and rune tables against encoding/json and unicode. "+
		"non-trivial = admitted, or a panic; distinct by (op, answer)")
	defer run.Finish()
	rng := run.Rng
	dir := filepath.Join(run.Out, "db")
	thorough := run.Thorough()

	// ---- rune tables and JSON decoding of the model against the Go libraries
	runeOps(run, rng)
	jsonOps(run, rng, run.Pick(1500, 60000))

	// ---- private network (enterprise transactions allowed)
	w := newWorld(run, filepath.Join(dir, "priv"), false)
	batch := func(w *world, label string, senders []int, malformed int) {
		g := &gen{w: w, rng: rng}
		g.structured(thorough)
		g.malformed(malformed)
		for _, c := range g.out {
			for _, who := range senders {
				cc := *c
				cc.who = who
				run.Count("phase:" + label)
				w.runCase(&cc, false)
			}
		}
	}
	one := func(w *world, who int, rcpt, payload string, amt *big.Int, commit bool) (string, string) {
		return w.runCase(&txCase{who: who, rcpt: []byte(rcpt), payload: []byte(payload), amount: amt, typ: types.TxType_GOVERNANCE, label: "scenario"}, commit)
	}
	must := func(a, e string) {
		if a != "ok" || e != "done" {
			// the failure itself is reported by runCase's oracle (a panic) or shows as a trace difference; the later
			// phases then run in a state that lacks this step
			run.Count("scenario-step-failed:" + a + "/" + e)
		}
	}
	attempt := func(a, e string) {
		run.Count("scenario-attempt:" + a + "/" + e)
	}
	sys, nam, ent := types.AergoSystem, types.AergoName, types.AergoEnterprise
	a0 := types.EncodeAddress(w.addrs[0])
	pid39 := "16Uiu2HAmPZE7gT1hF2bjpg1UVH65xyNUbBVRf3mBFBJpz3tgLGGt"
	qm34 := base58.Encode(append([]byte{0x12, 32}, bytes.Repeat([]byte{7}, 32)...))

	// phase 0: fresh state: nobody staked, no names, no admins
	batch(w, "0-fresh", []int{0, 3}, run.Pick(150, 12000))
	fieldCases(w, rng, thorough)

	// phase 1: accounts 0 and 1 stake, 0 creates a name, 0 becomes enterprise admin
	must(one(w, 0, sys, `{"Name":"v1stake"}`, coins(20000), true))
	must(one(w, 1, sys, `{"Name":"v1stake"}`, coins(10000), true))
	must(one(w, 0, nam, `{"Name":"v1createName","Args":["abcdefghijkl"]}`, coins(1), true))
	must(one(w, 0, ent, `{"Name":"appendAdmin","Args":["`+a0+`"]}`, nil, true))
	// a contract (stub VM: the payload is its code and its script), then every other transaction type
	must(w.runCase(&txCase{who: 0, payload: []byte(`{"ret":"deployed"}`), typ: types.TxType_DEPLOY, label: "scenario"}, true))
	contractAddr := contract.CreateContractID(w.addrs[0], w.lastNonce(0))
	w.runOther("1-other-types", contractAddr, true, thorough)
	batch(w, "1-just-staked", []int{0}, run.Pick(50, 2000))
	// a name account: signed by the owner's key, Account = the name
	for _, p := range []string{`{"Name":"v1updateName","Args":["abcdefghijkl","` + types.EncodeAddress(w.addrs[1]) + `"]}`, `{"Name":"v1updateName","Args":["abcdefghijkl",5]}`, `{"Name":"v1stake"}`} {
		rc := nam
		if strings.Contains(p, "stake") {
			rc = sys
		}
		w.runCase(&txCase{who: 0, account: []byte("abcdefghijkl"), rcpt: []byte(rc), payload: []byte(p), amount: coins(1), typ: types.TxType_GOVERNANCE, label: "name-account"}, false)
	}

	// phase 2: a day later the stakers may vote
	w.blockNo += system.StakingDelay + 10
	for _, fv := range []int32{0, 2, 3, 4} {
		w.fv = fv
		w.mp = nil
		batch(w, fmt.Sprintf("2-staked-fork%d", fv), []int{0, 2}, run.Pick(40, 1500))
		if !thorough && fv == 2 {
			break
		}
	}
	w.fv = 3
	w.mp = nil
	for _, cons := range []string{"raft", "sbp"} {
		g := &gen{w: w, rng: rng}
		g.structured(false)
		for i, c := range g.out {
			if thorough || i%3 == 0 || strings.Contains(string(c.payload), "changeCluster") {
				cc := *c
				cc.cons = cons
				run.Count("phase:2-" + cons)
				w.runCase(&cc, false)
			}
		}
	}

	// phase 3: votes are cast; account 1 votes for a 34-byte peer id (a valid multihash, accepted by every check)
	must(one(w, 0, sys, `{"Name":"v1voteBP","Args":["`+pid39+`"]}`, nil, true))
	attempt(one(w, 1, sys, `{"Name":"v1voteBP","Args":["`+qm34+`"]}`, nil, true)) // refused once candidates must be 39 bytes
	must(one(w, 0, sys, `{"Name":"v1voteDAO","Args":["BPCOUNT","5"]}`, nil, true))
	must(one(w, 0, ent, `{"Name":"setConf","Args":["rpcpermissions","dGVzdA==:RW","Y2VydA==:R"]}`, nil, true))
	must(one(w, 0, ent, `{"Name":"setConf","Args":["accountwhite","`+a0+`"]}`, nil, true))
	must(one(w, 0, ent, `{"Name":"enableConf","Args":["rpcpermissions",true]}`, nil, true))
	batch(w, "3-just-voted", []int{0, 1}, run.Pick(30, 1500))

	// phase 4: a day later they may vote again
	w.blockNo += system.VotingDelay + 10
	batch(w, "4-revote", []int{0, 1}, run.Pick(60, 4000))
	must(one(w, 0, ent, `{"Name":"enableConf","Args":["accountwhite",true]}`, nil, true))
	batch(w, "4-whitelist-on", []int{0, 1}, 0)

	// phase 5: the admin tries to add a 3-byte "address" (DecodeAddress takes names); before fix 2586c6fa this was
	// accepted and the admin list stopped being a multiple of 33 bytes
	attempt(one(w, 0, ent, `{"Name":"appendAdmin","Args":["abc"]}`, nil, true)) // refused since fix 2586c6fa (admins must be 33 bytes)
	// a permission whose right part carries the separator of the stored form: refused; were it stored, it would be read back
	// as two values, the second without ':' (Conf.Validate splits on ':')
	attempt(one(w, 0, ent, `{"Name":"appendConf","Args":["rpcpermissions","dGVzdAo=:R\\x"]}`, nil, true))
	attempt(one(w, 0, ent, `{"Name":"appendConf","Args":["p2pwhite","{\"peerid\":\"\",\"address\":\"\",\"cidr\":\"10.0.0.0\\/8\"}"]}`, nil, true))
	{
		g := &gen{w: w, rng: rng}
		g.structured(false)
		for i, c := range g.out {
			if string(c.rcpt) == ent && (thorough || i%4 == 0) {
				cc := *c
				run.Count("phase:5-short-admin")
				w.runCase(&cc, false)
			}
		}
	}

	// phase 6: "empty again" states, each written by a committed block and read back from the new root before the next
	// admission: a configuration that is switched off and has no value (never set, then disabled; a value appended and
	// removed again), the admin's stake fully withdrawn
	must(one(w, 0, ent, `{"Name":"enableConf","Args":["p2pblack",false]}`, nil, true))
	must(one(w, 0, ent, `{"Name":"appendConf","Args":["p2pwhite","{\"peerid\":\"\",\"address\":\"\",\"cidr\":\"10.8.0.0/16\"}"]}`, nil, true))
	must(one(w, 0, ent, `{"Name":"removeConf","Args":["p2pwhite","{\"peerid\":\"\",\"address\":\"\",\"cidr\":\"10.8.0.0/16\"}"]}`, nil, true))
	w.blockNo += system.StakingDelay + 10
	must(one(w, 0, sys, `{"Name":"v1unstake"}`, coins(20000), true))
	{
		g := &gen{w: w, rng: rng}
		g.structured(false)
		for i, c := range g.out {
			p := string(c.payload)
			if (string(c.rcpt) == ent && (strings.Contains(p, "p2p") || thorough || i%6 == 0)) || (string(c.rcpt) == sys && (thorough || i%5 == 0)) {
				cc := *c
				run.Count("phase:6-empty-again")
				w.runCase(&cc, false)
			}
		}
	}

	// ---- public network: enterprise transactions are refused by Validate
	wp := newWorld(run, filepath.Join(dir, "pub"), true)
	{
		g := &gen{w: wp, rng: rng}
		g.structured(false)
		for i, c := range g.out {
			if thorough || i%5 == 0 || string(c.rcpt) == ent && i%2 == 0 {
				cc := *c
				run.Count("phase:public")
				wp.runCase(&cc, false)
			}
		}
	}
	fieldCases(wp, rng, false)
	wp.runOther("public-other-types", nil, false, false)

	// ---- parameters changed by won votes; regressions of the round-3 crashes
	daoScenarios(run, dir, thorough)
}

// fieldCases: every transaction type x lengths of account / recipient / amount / price / payload.
func fieldCases(w *world, rng *vh.Rng, thorough bool) {
	over := new(big.Int).Add(types.MaxAER, big.NewInt(1))
	huge := new(big.Int).Lsh(big.NewInt(1), 2000)
	amounts := []*big.Int{big.NewInt(0), big.NewInt(1), types.MaxAER, over, huge}
	rcpts := [][]byte{nil, []byte("a"), []byte("abcdefghijkl"), w.addrs[1], append(append([]byte{}, w.addrs[1]...), 1), bytes.Repeat([]byte{1}, 200),
		[]byte(types.AergoSystem), []byte(types.AergoName), []byte(types.AergoEnterprise), []byte(types.AergoVault), bytes.Repeat([]byte{2}, 32)}
	accts := [][]byte{nil, {}, []byte("a"), []byte("abcdefghijkl"), bytes.Repeat([]byte{3}, 13), bytes.Repeat([]byte{3}, 32), bytes.Repeat([]byte{3}, 34), bytes.Repeat([]byte{3}, 500)}
	pays := [][]byte{nil, []byte("x"), []byte(`{"Name":"v1stake"}`), []byte(`{"Name":"v1setOwner","Args":[]}`)}
	if thorough {
		pays = append(pays, bytes.Repeat([]byte{'a'}, types.TxMaxSize+10))
	}
	for typ := int32(-1); typ <= 9; typ++ {
		for _, rc := range rcpts {
			for _, p := range pays {
				w.valCase(&txCase{who: 0, rcpt: rc, payload: p, typ: types.TxType(typ), amount: amounts[rng.Intn(2)], label: "type-rcpt"})
			}
		}
		for _, a := range amounts {
			w.valCase(&txCase{who: 0, rcpt: w.addrs[1], payload: []byte("x"), typ: types.TxType(typ), amount: a})
			w.valCase(&txCase{who: 0, rcpt: w.addrs[1], payload: []byte("x"), typ: types.TxType(typ), price: a})
			w.valCase(&txCase{who: 0, rcpt: nil, payload: []byte("x"), typ: types.TxType(typ), amount: a})
		}
		for _, a := range accts {
			if a == nil {
				continue
			}
			w.valCase(&txCase{who: 0, account: a, rcpt: w.addrs[1], payload: []byte("x"), typ: types.TxType(typ)})
		}
		w.valCase(&txCase{who: 0, rcpt: w.addrs[1], payload: []byte("x"), typ: types.TxType(typ), badHash: true})
		w.valCase(&txCase{who: 0, rcpt: w.addrs[1], payload: []byte("x"), typ: types.TxType(typ), badChain: true})
	}
	// governance transactions whose envelope is wrong
	for _, c := range []*txCase{
		{who: 0, rcpt: []byte(types.AergoSystem), payload: []byte(`{"Name":"v1stake"}`), amount: coins(10000), typ: types.TxType_GOVERNANCE, badSig: true},
		{who: 0, rcpt: []byte(types.AergoSystem), payload: []byte(`{"Name":"v1stake"}`), amount: coins(10000), typ: types.TxType_GOVERNANCE, badHash: true},
		{who: 0, rcpt: []byte(types.AergoSystem), payload: []byte(`{"Name":"v1stake"}`), amount: coins(10000), typ: types.TxType_GOVERNANCE, badChain: true},
		{who: 0, rcpt: []byte(types.AergoSystem), payload: []byte(`{"Name":"v1stake"}`), amount: coins(10000), typ: types.TxType_GOVERNANCE, nonceOff: -1},
		{who: 0, rcpt: []byte(types.AergoSystem), payload: []byte(`{"Name":"v1stake"}`), amount: coins(10000), typ: types.TxType_GOVERNANCE, nonceOff: 5},
		{who: 0, rcpt: []byte(types.AergoSystem), payload: []byte(`{"Name":"v1stake"}`), amount: over, typ: types.TxType_GOVERNANCE},
		{who: 3, rcpt: []byte(types.AergoSystem), payload: []byte(`{"Name":"v1stake"}`), amount: coins(10000), typ: types.TxType_GOVERNANCE},
		{who: 3, rcpt: []byte(types.AergoName), payload: []byte(`{"Name":"v1createName","Args":["qwertyuiopas"]}`), amount: coins(1), typ: types.TxType_GOVERNANCE},
		{who: 0, rcpt: []byte(types.AergoVault), payload: []byte(`{"Name":"v1stake"}`), typ: types.TxType_GOVERNANCE},
		{who: 0, rcpt: w.addrs[1], payload: []byte(`{"Name":"v1stake"}`), typ: types.TxType_GOVERNANCE},
		{who: 0, account: []byte("nosuchname12"), rcpt: []byte(types.AergoSystem), payload: []byte(`{"Name":"v1stake"}`), typ: types.TxType_GOVERNANCE},
	} {
		c.label = "envelope"
		w.runCase(c, false)
	}
}

// runeOps: the model's case tables against Go's unicode tables, on every rune that matters and a sample.
func runeOps(run *vh.Run, rng *vh.Rng) {
	const allowed = "abcdefghijklmnopqrstuvwxyz1234567890"
	dict := map[string]bool{"RPCPERMISSIONS": true, "P2PWHITE": true, "P2PBLACK": true, "ACCOUNTWHITE": true}
	ids := map[string]int{"BPCOUNT": 1, "STAKINGMIN": 2, "GASPRICE": 3, "NAMEPRICE": 4}
	emit := func(s string) {
		up := strings.ToUpper(s)
		run.Op("up "+hx([]byte(s)), fmt.Sprintf("%d %v", ids[up], dict[up]), ids[up] != 0 || dict[up])
		ok := true
		for _, ch := range s {
			if !strings.Contains(allowed, strings.ToLower(string(ch))) {
				ok = false
			}
		}
		run.Op("low "+hx([]byte(s)), fmt.Sprintf("%v %d", ok, len(s)), ok)
		run.Count("rune-op")
	}
	bases := []string{"bpcount", "stakingmin", "gasprice", "nameprice", "rpcpermissions", "p2pwhite", "p2pblack", "accountwhite", "abcdefghijkl", "k1s2i3"}
	var special []rune
	for r := rune(0); r <= 0x10FFFF; r++ {
		if r >= 0xD800 && r < 0xE000 {
			continue
		}
		u, l := []rune(strings.ToUpper(string(r)))[0], []rune(strings.ToLower(string(r)))[0]
		if (r >= 128 && (u < 128 || l < 128)) || r < 128 {
			special = append(special, r)
		}
	}
	for _, b := range bases {
		emit(b)
		emit(strings.ToUpper(b))
		for _, r := range special {
			if r < 128 && rng.Intn(4) != 0 {
				continue
			}
			rs := []rune(b)
			rs[rng.Intn(len(rs))] = r
			emit(string(rs))
		}
		// substitute every letter by its exotic case variants
		rep := strings.NewReplacer("i", "\u0131", "s", "\u017f", "k", "\u212a")
		emit(rep.Replace(b))
		emit(strings.ReplaceAll(b, "i", "\u0130"))
	}
	for i := 0; i < 300; i++ {
		n := 1 + rng.Intn(14)
		rs := make([]rune, n)
		for j := range rs {
			switch rng.Intn(4) {
			case 0:
				rs[j] = rune(rng.Intn(0x10FFFF))
				if rs[j] >= 0xD800 && rs[j] < 0xE000 {
					rs[j] = 'x'
				}
			case 1:
				rs[j] = special[rng.Intn(len(special))]
			default:
				rs[j] = rune("abcxyzABCXYZ0189.-_ "[rng.Intn(20)])
			}
		}
		emit(string(rs))
	}
}

func kindsOf(args []interface{}) string {
	var sb strings.Builder
	for _, a := range args {
		switch a.(type) {
		case nil:
			sb.WriteByte('n')
		case bool:
			sb.WriteByte('b')
		case float64:
			sb.WriteByte('f')
		case string:
			sb.WriteByte('s')
		case []interface{}:
			sb.WriteByte('a')
		case map[string]interface{}:
			sb.WriteByte('o')
		default:
			sb.WriteByte('?')
		}
	}
	return sb.String()
}

// jsonOps: json.Unmarshal into types.CallInfo against the model's decoder on raw bytes.
func jsonOps(run *vh.Run, rng *vh.Rng, n int) {
	emit := func(p []byte) {
		var ci types.CallInfo
		err := json.Unmarshal(p, &ci)
		out := "err"
		if err == nil {
			out = hx([]byte(ci.Name)) + " " + strconv.Itoa(len(ci.Args)) + " " + kindsOf(ci.Args)
		}
		run.Op("json "+hx(p), out, err == nil)
		run.Count("json-op")
	}
	fixed := []string{``, ` `, `null`, ` null `, `nul`, `nulll`, `true`, `[]`, `{}`, `{"Name":"a"}`, `{"Name":"a",}`, `{"Name":"a" "Args":[]}`, `{"Name":"a","Args":[1,2,]}`,
		`{"Name":"a","Args":[01]}`, `{"Name":"a","Args":[-]}`, `{"Name":"a","Args":[1.]}`, `{"Name":"a","Args":[.5]}`, `{"Name":"a","Args":[1e]}`, `{"Name":"a","Args":[1e+]}`,
		`{"Name":"a","Args":[+1]}`, `{"Name":"a","Args":[-0]}`, `{"Name":"a","Args":[-0.0e-0]}`, `{"Name":"a","Args":[1E5]}`, `{"Name":"a","Args":[1e309]}`, `{"Name":"a","Args":[1e308]}`,
		`{"Name":"a","Args":[1.7976931348623157e308]}`, `{"Name":"a","Args":[1.7976931348623158e308]}`, `{"Name":"a","Args":[1.797693134862315807e308]}`, `{"Name":"a","Args":[1.797693134862315808e308]}`,
		`{"Name":"a","Args":[179769313486231580793728971405303415079934132710037826936173778980444968292764750946649017977587207096330286416692887910946555547851940402630657488671505820681908902000708383676273854845817711531764475730270069855571366959622842914819860834936475292719074168444365510704342711559699508093042880177904174497791]}`,
		`{"Name":"a","Args":[179769313486231580793728971405303415079934132710037826936173778980444968292764750946649017977587207096330286416692887910946555547851940402630657488671505820681908902000708383676273854845817711531764475730270069855571366959622842914819860834936475292719074168444365510704342711559699508093042880177904174497792]}`,
		`{"Name":"a","Args":[0.00000000000000000000000000000000000001e347]}`, `{"Name":"a","Args":[0.00000000000000000000000000000000000001e346]}`,
		`{"Name":"a","Args":[1e99999]}`, `{"Name":"a","Args":[1e100000]}`, `{"Name":"a","Args":[1e-99999999999]}`, `{"Name":"a","Args":[0e99999999]}`, `{"Name":"a","Args":[0.0e400]}`,
		`{"Name":"a","Args":["\u00e9\u212a\ud83d\ude00\ud83d","\ude00","\ud800\u0041","\udc00\ud800"]}`, `{"Name":"a","Args":["\x"]}`, `{"Name":"a","Args":["\u12"]}`, `{"Name":"a","Args":["\u12G4"]}`,
		`{"Name":"a","Args":["\ud800\u12"]}`, "{\"Name\":\"a\",\"Args\":[\"\t\"]}", "{\"Name\":\"a\x7f\"}", "{\"Name\":\"\xc3\xa9\xe2\x82\xac\xf0\x9f\x98\x80\"}",
		"{\"Name\":\"\xc0\x80\xe0\x80\x80\xed\xa0\x80\xf4\x90\x80\x80\xf8\x88\x80\x80\x80\xe2\x82\"}", "{\"Name\":\"\xe2\x82", "\xef\xbb\xbf{}",
		`{"Name":{"a":1}}`, `{"Name":["a"]}`, `{"Name":true}`, `{"Args":true}`, `{"Args":"x"}`, `{"Args":{"0":1}}`, `{"Args":[{"a":[1e400]}]}`, `{"Other":[1e400],"Args":[1]}`,
		`{"Name":1e400}`, `{"args":[1],"ARGS":[1,2],"Args":null}`, `{"arg\u017f":[1]}`, `{"\u212aame":"x"}`, `{"nam\u0065":"x"}`, `{"Name":"a"}{"Name":"b"}`, `{"Name":"a"} x`,
		`{"Name":"a","Args":[[[[[]]]]]}`, `{"":1}`, `{"Name":"a","Name":null}`, `{"Name":null,"Name":"b"}`, "{\n\t\"Name\"\r:\n\"a\" }", `[{"Name":"a"}]`, `"{\"Name\":\"a\"}"`,
		`{"Name":"a","Args":[` + strings.Repeat("[", 9998) + strings.Repeat("]", 9998) + `]}`, `{"Name":"a","Args":[` + strings.Repeat("[", 9999) + strings.Repeat("]", 9999) + `]}`,
		strings.Repeat("[", 10000) + strings.Repeat("]", 10000), strings.Repeat("[", 10001) + strings.Repeat("]", 10001), strings.Repeat(`{"a":`, 10000) + `1` + strings.Repeat("}", 10000),
	}
	for _, f := range fixed {
		emit([]byte(f))
	}
	// random structured documents, then byte-level mutations of them
	var genVal func(d int) string
	genVal = func(d int) string {
		switch k := rng.Intn(9); {
		case k == 0:
			return "null"
		case k == 1:
			return []string{"true", "false"}[rng.Intn(2)]
		case k == 2:
			m := []string{"0", "-0", "1", "-12", "3.25", "1e5", "1E-5", "1e308", "1e309", "-1e400", "17976931348623157e292", "17976931348623159e292", "0.1e310", "123456789e300"}
			return m[rng.Intn(len(m))]
		case k <= 4 || d > 4:
			s := []string{`""`, `"a"`, `"abcdefghijkl"`, `"\u00e9"`, `"\ud83d\ude00"`, `"\ud800"`, `"\n\t\"\\\/\b\f\r"`, "\"\xc3\xa9\"", "\"\xff\"", `"BPCOUNT"`, `"16Uiu2HAmPZE7gT1hF2bjpg1UVH65xyNUbBVRf3mBFBJpz3tgLGGt"`}
			return s[rng.Intn(len(s))]
		case k <= 6:
			n := rng.Intn(4)
			e := make([]string, n)
			for i := range e {
				e[i] = genVal(d + 1)
			}
			return "[" + strings.Join(e, ",") + "]"
		default:
			n := rng.Intn(4)
			e := make([]string, n)
			keys := []string{"Name", "Args", "name", "args", "NAME", "ARGS", "arg\u017f", "x", "", "command", "Nam", "Argss"}
			for i := range e {
				e[i] = js(keys[rng.Intn(len(keys))]) + ":" + genVal(d+1)
			}
			return "{" + strings.Join(e, ",") + "}"
		}
	}
	for i := 0; i < n; i++ {
		var doc string
		if rng.Intn(3) == 0 {
			doc = genVal(0)
		} else {
			keys := []string{"Name", "Args", "name", "ARGS", "Extra", "arg\u017f"}
			m := rng.Intn(4)
			e := make([]string, m)
			for j := range e {
				k := keys[rng.Intn(len(keys))]
				v := genVal(1)
				if rng.Intn(2) == 0 {
					if strings.EqualFold(k, "name") {
						v = js([]string{"v1voteBP", "x", ""}[rng.Intn(3)])
					} else {
						v = "[" + genVal(2) + "," + genVal(2) + "]"
					}
				}
				e[j] = js(k) + ":" + v
			}
			doc = "{" + strings.Join(e, ",") + "}"
		}
		b := []byte(doc)
		if rng.Intn(3) == 0 && len(b) > 0 {
			for k := 0; k <= rng.Intn(2); k++ {
				p := rng.Intn(len(b))
				switch rng.Intn(3) {
				case 0:
					b[p] = byte(rng.Next())
				case 1:
					b = append(b[:p], b[p+1:]...)
				case 2:
					b = append(b[:p], append([]byte{mutChars[rng.Intn(len(mutChars))]}, b[p:]...)...)
				}
				if len(b) == 0 {
					break
				}
			}
		}
		emit(b)
	}
}
