package main

// The transaction types other than GOVERNANCE: the chain-service component the pool asks about fee delegation,
// the generator of NORMAL / TRANSFER / CALL / DEPLOY / REDEPLOY / MULTICALL / FEEDELEGATION transactions over
// recipients (account, name, unknown name, special account, contract, none), payloads (scripts of the stub VM,
// call-info JSON, junk), amounts, gas limits and senders (rich, poor, name account).

import (
	"bytes"
	"encoding/hex"
	"math/big"
	"time"

	"github.com/aergoio/aergo-actor/actor"
	"github.com/aergoio/aergo/v2/contract"
	"github.com/aergoio/aergo/v2/pkg/component"
	"github.com/aergoio/aergo/v2/state"
	"github.com/aergoio/aergo/v2/state/statedb"
	"github.com/aergoio/aergo/v2/types"
	"github.com/aergoio/aergo/v2/types/message"
)

// chainComp stands where the chain service stands in the hub.  For message.CheckFeeDelegation it does what the
// chain worker does (chain/chainservice.go: open the contract state at the current root, contract.CheckFeeDelegation,
// reply with the typed message.CheckFeeDelegationRsp); in mode "timeout" it never replies.
type chainComp struct {
	hub *component.ComponentHub
	w   *world
}

func (r *chainComp) GetName() string                          { return message.ChainSvc }
func (r *chainComp) Start()                                   {}
func (r *chainComp) Stop()                                    {}
func (r *chainComp) Status() component.Status                 { return component.StartedStatus }
func (r *chainComp) SetHub(hub *component.ComponentHub)       { r.hub = hub }
func (r *chainComp) Hub() *component.ComponentHub             { return r.hub }
func (r *chainComp) MsgQueueLen() int32                       { return 0 }
func (r *chainComp) Receive(actor.Context)                    {}
func (r *chainComp) Tell(m interface{})                       {}
func (r *chainComp) Request(m interface{}, sender *actor.PID) {}
func (r *chainComp) RequestFuture(m interface{}, timeout time.Duration, tip string) *actor.Future {
	f := actor.NewFuturePrefix("verif", timeout)
	if msg, ok := m.(*message.CheckFeeDelegation); ok {
		if r.w.fdMode == "timeout" {
			return f // nobody answers: the future times out
		}
		f.PID().Tell(message.CheckFeeDelegationRsp{Err: r.w.checkFd(msg.Contract, msg.Payload, msg.TxHash, msg.Sender, msg.Amount)})
		return f
	}
	f.PID().Tell(component.ErrHubUnregistered)
	return f
}

func newHub(w *world) *component.ComponentHub {
	hub := component.NewComponentHub()
	hub.Register(&chainComp{w: w})
	return hub
}

// checkFd: the chain worker's handling of message.CheckFeeDelegation.
func (w *world) checkFd(contractAddr, payload, txHash, sender, amount []byte) error {
	sdb := w.sdb.OpenNewStateDB(w.sdb.GetRoot())
	ctrState, err := statedb.OpenContractStateAccount(contractAddr, sdb)
	if err != nil {
		return err
	}
	bs := state.NewBlockState(sdb)
	return contract.CheckFeeDelegation(contractAddr, bs, nil, nil, ctrState, payload, txHash, sender, amount)
}

// fdFact: what the pool's request is answered with (a fact of the actor system and of the contract).
func (w *world) fdFact(rcptAddr []byte, tx *types.Tx) string {
	switch w.fdMode {
	case "none":
		return "untyped"
	case "timeout":
		return "timeout"
	}
	if w.checkFd(rcptAddr, tx.Body.Payload, tx.Hash, tx.Body.Account, tx.Body.Amount) != nil {
		return "refused"
	}
	return "ok"
}

// otherCases: transactions of the non-governance types.  contractAddr: a deployed contract (nil before the scenario
// deployed one), nameAcct: a registered name (nil before).
func (w *world) otherCases(contractAddr []byte, haveName bool, thorough bool) []*txCase {
	rng := w.run.Rng
	unknown := bytes.Repeat([]byte{0x07}, types.AddressLength)
	rcpts := [][]byte{nil, w.addrs[1], w.addrs[0], unknown, []byte("nosuchname12"), []byte("a"), []byte(types.AergoSystem), []byte(types.AergoVault),
		[]byte(types.AergoName), []byte(types.AergoEnterprise), bytes.Repeat([]byte{9}, 13), bytes.Repeat([]byte{9}, 32)}
	if contractAddr != nil {
		rcpts = append(rcpts, contractAddr)
	}
	if haveName {
		rcpts = append(rcpts, []byte("abcdefghijkl"))
	}
	to1 := `"` + hex.EncodeToString(w.addrs[1]) + `"`
	pays := []string{"", "x", `{}`, `{"fee":"100"}`, `{"fee":"1000000000000000000000000000"}`, `{"err":"vm","fee":"7"}`, `{"err":"system"}`, `{"err":"timeout"}`,
		`{"err":"negfee"}`, `{"err":"nofd"}`, `{"xfers":[{"to":` + to1 + `,"amt":"1"}],"sets":[{"k":"a","v":"b"}],"events":2,"ret":"r"}`,
		`{"xfers":[{"to":` + to1 + `,"amt":"999999999999999999999999999999"}]}`, `{"Name":"f","Args":[1,"x",null]}`, `{"Name":"v1stake"}`, `[`, "\xff\x00"}
	if thorough {
		pays = append(pays, string(bytes.Repeat([]byte{'a'}, 250)), string(bytes.Repeat([]byte{'a'}, 210000)), `{"ret":"`+string(bytes.Repeat([]byte{'r'}, 2000))+`"}`)
	} else {
		pays = append(pays, string(bytes.Repeat([]byte{'a'}, 250)), `{"ret":"`+string(bytes.Repeat([]byte{'r'}, 1100))+`"}`)
	}
	typs := []types.TxType{types.TxType_NORMAL, types.TxType_TRANSFER, types.TxType_CALL, types.TxType_DEPLOY, types.TxType_REDEPLOY,
		types.TxType_MULTICALL, types.TxType_FEEDELEGATION}
	amounts := []*big.Int{big.NewInt(0), big.NewInt(1), coins(2000000)}
	gas := []uint64{0, 1, 100000, 100001, 200000, 1 << 40, 1<<64 - 1}
	var out []*txCase
	for _, t := range typs {
		for ri, rc := range rcpts {
			for pi, p := range pays {
				// the full product for the contract / account recipients, a sample elsewhere
				full := ri == 1 || (contractAddr != nil && bytes.Equal(rc, contractAddr)) || rc == nil
				if !full && !thorough && (ri+pi)%3 != 0 {
					continue
				}
				c := &txCase{who: 0, rcpt: rc, payload: []byte(p), typ: t, amount: amounts[rng.Intn(2)], gasLimit: gas[rng.Intn(len(gas))], label: "other-types"}
				out = append(out, c)
			}
		}
		// amounts and gas limits on a plain account / the contract
		for _, rc := range [][]byte{w.addrs[1], contractAddr} {
			if rc == nil && t != types.TxType_DEPLOY && t != types.TxType_MULTICALL {
				continue
			}
			if t == types.TxType_DEPLOY || t == types.TxType_MULTICALL {
				rc = nil
			}
			for _, a := range amounts {
				for _, g := range gas {
					out = append(out, &txCase{who: 0, rcpt: rc, payload: []byte(`{"fee":"5"}`), typ: t, amount: a, gasLimit: g, label: "other-amount-gas"})
				}
			}
			// the poor account, the 5000-aer account, a name account (signed by its owner)
			for _, who := range []int{3, 4} {
				out = append(out, &txCase{who: who, rcpt: rc, payload: []byte(`{"fee":"5"}`), typ: t, amount: big.NewInt(1), label: "other-poor"})
				out = append(out, &txCase{who: who, rcpt: rc, payload: []byte(`{"fee":"5"}`), typ: t, amount: big.NewInt(6000), gasLimit: 1, label: "other-poor"})
			}
			if haveName {
				out = append(out, &txCase{who: 0, account: []byte("abcdefghijkl"), rcpt: rc, payload: []byte(`{}`), typ: t, amount: big.NewInt(1), label: "other-name-sender"})
				out = append(out, &txCase{who: 1, account: []byte("abcdefghijkl"), rcpt: rc, payload: []byte(`{}`), typ: t, amount: big.NewInt(1), label: "other-name-sender"})
			}
			out = append(out, &txCase{who: 0, account: []byte("nosuchname12"), rcpt: rc, payload: []byte(`{}`), typ: t, label: "other-name-sender"})
			out = append(out, &txCase{who: 0, rcpt: rc, payload: []byte(`{}`), typ: t, nonceOff: 3, label: "other-nonce"})
			out = append(out, &txCase{who: 0, rcpt: rc, payload: []byte(`{}`), typ: t, nonceOff: -1, label: "other-nonce"})
		}
	}
	return out
}

// runOther runs the non-governance cases in the world's current state, with the fee switched off and on, the pool's
// deploy / multicall switches, and the three behaviours of the chain-service component.
func (w *world) runOther(label string, contractAddr []byte, haveName, thorough bool) {
	cases := w.otherCases(contractAddr, haveName, thorough)
	saveFee := w.zeroFee
	for _, zf := range []bool{true, false} {
		w.zeroFee = zf
		for i, c := range cases {
			if !thorough && zf && i%2 == 1 {
				continue // the zero-fee pass is the less interesting one
			}
			cc := *c
			w.run.Count("phase:" + label)
			w.runCase(&cc, false)
		}
	}
	w.zeroFee = false
	// the pool's switches and the other answers of the chain service: a sample
	for _, flags := range [][2]bool{{true, false}, {false, true}} {
		for i, c := range cases {
			if (c.typ == types.TxType_DEPLOY || c.typ == types.TxType_MULTICALL) && i%4 == 0 {
				cc := *c
				w.flags = flags
				w.runCase(&cc, false)
				w.flags = [2]bool{}
				w.run.Count("phase:" + label + "-switches")
			}
		}
	}
	for _, mode := range []string{"none", "timeout"} {
		w.fdMode = mode
		n := 0
		for _, c := range cases {
			if c.typ == types.TxType_FEEDELEGATION && contractAddr != nil && bytes.Equal(c.rcpt, contractAddr) && n < w.run.Pick(2, 4) {
				cc := *c
				cc.gasLimit = 0
				w.runCase(&cc, false)
				w.run.Count("phase:" + label + "-fd-" + mode)
				n++
			}
		}
	}
	w.fdMode = "typed"
	w.zeroFee = saveFee
	w.applyFee()
}
