// Harness c15 (governance accounting): drives the real block-executor step (chain.executeTx ->
// executeGovernanceTx -> system.ExecuteSystemTx / name.ExecuteNameTx, and contract.Execute for plain
// transfers) on a real StateDB (memorydb) with several accounts over block heights that straddle the
// staking and voting delays; after every operation it prints the governance state of the real node
// (staking records, total, votes, persisted rankings, vote totals, parameters, the live voting-power rank
// and the one reloaded by the real loadVpr, names in the buffered and in the committed view, balances) in
// the canonical form the Lean model driver (lean/Drv/C15.lean) prints, and evaluates the property's own
// clauses on the real state as oracle.
//
// op lines: see lean/Drv/C15.lean.
package main

import (
	"bytes"
	"encoding/hex"
	"encoding/json"
	"fmt"
	"math/big"
	"os"
	"path/filepath"
	"sort"
	"strings"

	"github.com/aergoio/aergo-lib/db"
	"github.com/aergoio/aergo/v2/chain"
	"github.com/aergoio/aergo/v2/consensus"
	"github.com/aergoio/aergo/v2/contract/name"
	"github.com/aergoio/aergo/v2/contract/system"
	"github.com/aergoio/aergo/v2/fee"
	"github.com/aergoio/aergo/v2/internal/common"
	"github.com/aergoio/aergo/v2/internal/enc/base58"
	"github.com/aergoio/aergo/v2/state"
	"github.com/aergoio/aergo/v2/state/statedb"
	"github.com/aergoio/aergo/v2/types"
	"github.com/aergoio/aergo/v2/types/dbkey"
	"github.com/aergoio/aergo/v2/zz_verif/vh"
	"github.com/rs/zerolog"
)

// classes of known findings (DESIGN §5 lead 4b and a new one); the two others this harness found
// (VoteList.Less ties, stale node in the voting-power rank's member tree) were repaired in /repo
// (1c75543b, 36df0321) and are plain oracle failures now.
const (
	kNot39   = "C15-votebp-candidate-not-39-bytes"
	kSysXfer = "C15-transfer-to-system-account"
)

var (
	aergo   = new(big.Int).Exp(big.NewInt(10), big.NewInt(18), nil)
	sysAddr = []byte(types.AergoSystem)
	nmAddr  = []byte(types.AergoName)
	bpKey   = []byte("voteBP")
	daoIDs  = []string{"BPCOUNT", "STAKINGMIN", "GASPRICE", "NAMEPRICE"}
	issues  = []string{"voteBP", "BPCOUNT", "STAKINGMIN", "GASPRICE", "NAMEPRICE"}
)

func coins(n int64) *big.Int { return new(big.Int).Mul(big.NewInt(n), aergo) }

func hx(b []byte) string {
	if len(b) == 0 {
		return "-"
	}
	return hex.EncodeToString(b)
}

func joinC(xs []string) string { return strings.Join(xs, ",") }

type stubCcc struct{}

func (stubCcc) MakeConfChangeProposal(req *types.MembershipChange) (*consensus.ConfChangePropose, error) {
	return nil, consensus.ErrorMembershipChangeSkip
}

// ---------------------------------------------------------------- known-finding bookkeeping

type findings struct {
	run  *vh.Run
	seen map[string]bool
}

// known reports a known-finding class once per run (with its first replay) and counts the rest, so that
// the bounded failure list always has room for a different violation.
func (f *findings) known(class, what string, replay interface{}) {
	f.run.Count("known:" + class)
	if f.seen[class] {
		return
	}
	f.seen[class] = true
	f.run.FailKnown(what, class, replay)
}

// ---------------------------------------------------------------- session

type acct struct {
	addr []byte
	id   types.AccountID
}

type sess struct {
	run   *vh.Run
	fd    *findings
	rng   *vh.Rng
	sdb   *state.ChainStateDB
	bs    *state.BlockState
	fv    int32
	cid   []byte
	accts []*acct
	cands [][]byte
	names []string
	h     uint64
	ops   []string
	dead  bool
	label string

	view    *view             // the state observed after the last operation
	lastAct map[string]uint64 // height of the account's last successful stake / unstake / vote
	sysXfer bool              // a plain transfer to aergo.system was executed in this session
	not39   bool              // a voteBP with a candidate length != 39 was executed
	forceAcc []byte           // scripted sessions: the account field of the next system transactions (a name bound to the sender)
	taint   string            // node sessions: class of the defect this history has run into (its consequences are counted, not failed)
	how     string            // replay: how the op lines are executed
}

var dbSeq int

func newSess(run *vh.Run, fd *findings, rng *vh.Rng, fv int32, label string) *sess {
	s := &sess{run: run, fd: fd, rng: rng, fv: fv, h: 1, label: label, lastAct: map[string]uint64{}}
	dbSeq++
	s.sdb = state.NewChainStateDB()
	if err := s.sdb.Init(string(db.MemoryImpl), filepath.Join(run.Out, "db", fmt.Sprint(dbSeq)), nil, false, nil); err != nil {
		panic(err)
	}
	g := types.GetTestGenesis()
	if err := s.sdb.SetGenesis(g, nil); err != nil {
		panic(err)
	}
	s.cid, _ = g.ID.Bytes()
	s.bs = s.sdb.NewBlockState(s.sdb.GetRoot())
	scs := s.sys()
	system.InitSystemParams(scs, 3)
	if err := system.InitVotingPowerRank(scs); err != nil {
		panic(err)
	}
	s.emit(fmt.Sprintf("new %d", fv), "ok", false)
	return s
}

func (s *sess) close() { s.sdb.Close() }

func (s *sess) sys() *statedb.ContractState {
	scs, err := statedb.GetSystemAccountState(s.bs.StateDB)
	if err != nil {
		panic(err)
	}
	return scs
}

func (s *sess) nameCS() *statedb.ContractState {
	scs, err := statedb.GetNameAccountState(s.bs.StateDB)
	if err != nil {
		panic(err)
	}
	return scs
}

func (s *sess) balance(a []byte) *big.Int {
	as, err := state.GetAccountState(a, s.bs.StateDB)
	if err != nil {
		panic(err)
	}
	return as.Balance()
}

// addAcct declares an account with a balance.
func (s *sess) addAcct(addr []byte, bal *big.Int) *acct {
	a := &acct{addr: addr, id: types.ToAccountID(addr)}
	s.accts = append(s.accts, a)
	as, _ := state.GetAccountState(addr, s.bs.StateDB)
	as.AddBalance(bal)
	as.PutState()
	s.emit(fmt.Sprintf("acct %s %s %s", hx(addr), hx(a.id[:]), bal), "ok", false)
	return a
}

func (s *sess) emit(op, res string, nontrivial bool) {
	s.ops = append(s.ops, op)
	if res == "panic" {
		// a Go panic inside block execution kills the node (executeTx has no recover): the session ends here,
		// the half-updated in-memory rank is not an observable state of a running node
		s.run.Op(op, "panic", true)
		s.run.Count("panic-in-execution")
		return
	}
	if msg, p := vh.Guard(func() string { s.view = s.look(); return "" }); p {
		// reading the governance state back through the real accessors (vote result, rank loader, queries) died
		s.fail("the governance state written by " + op + " cannot be read back: " + msg)
		s.dead = true
		s.run.Op(op, res+" | unreadable", nontrivial)
		return
	}
	s.run.Op(op, res+" | "+s.show(s.view), nontrivial)
}

// ---------------------------------------------------------------- observation (canonical state)

type voteRec struct {
	issue  string
	addr   []byte
	amount *big.Int
	cands  [][]byte
}

type entry struct {
	cand []byte
	amt  *big.Int
}

func realLess(a, b entry) bool {
	vl := types.VoteList{Votes: []*types.Vote{{Candidate: a.cand, Amount: a.amt.Bytes()}, {Candidate: b.cand, Amount: b.amt.Bytes()}}}
	return vl.Less(0, 1)
}

// canonRank sorts every maximal run of adjacent mutually tied entries by candidate hex (the order inside
// such a run comes from Go's map iteration).
func canonRank(l []entry) []entry {
	var out, grp []entry
	flush := func() {
		sort.SliceStable(grp, func(i, j int) bool { return hx(grp[i].cand) < hx(grp[j].cand) })
		out = append(out, grp...)
		grp = nil
	}
	for _, x := range l {
		if len(grp) > 0 {
			y := grp[len(grp)-1]
			tied := false
			vh.Guard(func() string { tied = !realLess(y, x) && !realLess(x, y); return "" })
			if !tied {
				flush()
			}
		}
		grp = append(grp, x)
	}
	flush()
	return out
}

func showRank(l []entry) string {
	var xs []string
	for _, e := range canonRank(l) {
		xs = append(xs, hx(e.cand)+":"+e.amt.String())
	}
	return joinC(xs)
}

type view struct {
	total   *big.Int
	stakes  map[string]*types.Staking // hex addr -> record (only existing records)
	votes   []voteRec
	ranks   map[string][]entry
	vtotal  map[string]*big.Int
	mem     *system.VerifC15VprView
	load    *system.VerifC15VprView
	bal     map[string]*big.Int
	namesB  map[string][2][]byte
	namesI  map[string][2][]byte
	sysBal  *big.Int
	nameBal *big.Int
	rankers []string // system.GetRankers: what the DPoS producer election reads (hex candidates)
}

func (s *sess) issueKey(id string) []byte {
	if id == "voteBP" {
		return bpKey
	}
	return system.GenProposalKey(id)
}

func (s *sess) look() *view {
	scs := s.sys()
	v := &view{stakes: map[string]*types.Staking{}, ranks: map[string][]entry{}, vtotal: map[string]*big.Int{},
		bal: map[string]*big.Int{}, namesB: map[string][2][]byte{}, namesI: map[string][2][]byte{}}
	var err error
	if v.total, err = system.GetStakingTotal(scs); err != nil {
		panic(err)
	}
	for _, a := range s.accts {
		st, err := system.GetStaking(scs, a.addr)
		if err != nil {
			panic(err)
		}
		if st.GetAmount() != nil {
			v.stakes[hx(a.addr)] = st
		}
		for _, is := range issues {
			vt, err := system.GetVote(scs, a.addr, s.issueKey(is))
			if err != nil {
				panic(err)
			}
			if vt.Amount == nil {
				continue
			}
			r := voteRec{issue: is, addr: a.addr, amount: new(big.Int).SetBytes(vt.Amount)}
			if is == "voteBP" {
				c := vt.Candidate
				for len(c) > 0 {
					n := 39
					if len(c) < n {
						n = len(c)
					}
					r.cands = append(r.cands, c[:n])
					c = c[n:]
				}
			} else {
				var args []string
				if err := json.Unmarshal(vt.Candidate, &args); err != nil {
					panic(err)
				}
				for _, x := range args {
					r.cands = append(r.cands, []byte(x))
				}
			}
			v.votes = append(v.votes, r)
		}
	}
	for _, is := range issues {
		vl, err := system.GetVoteResult(scs, []byte(is), 1<<30)
		if err != nil {
			panic(err)
		}
		var es []entry
		for _, x := range vl.Votes {
			es = append(es, entry{x.Candidate, new(big.Int).SetBytes(x.Amount)})
		}
		v.ranks[is] = es
		if is != "voteBP" {
			d, err := scs.GetData(dbkey.SystemVoteTotal(s.issueKey(is)))
			if err != nil {
				panic(err)
			}
			v.vtotal[is] = new(big.Int).SetBytes(d)
		}
	}
	if msg, p := vh.Guard(func() string {
		rk, err := system.GetRankers(scs)
		if err != nil {
			panic(err)
		}
		for _, c := range rk {
			b, _ := base58.Decode(c)
			v.rankers = append(v.rankers, hx(b))
		}
		return ""
	}); p {
		v.rankers = []string{"panic"}
		s.fail("system.GetRankers panics on the node's state: " + msg)
	}
	v.mem = system.VerifC15VprMemory()
	if v.load, err = system.VerifC15VprLoad(scs); err != nil {
		panic(err)
	}
	for _, a := range s.accts {
		v.bal[hx(a.addr)] = s.balance(a.addr)
	}
	v.sysBal = s.balance(sysAddr)
	v.nameBal = s.balance(nmAddr)
	v.bal[hx(sysAddr)] = v.sysBal
	v.bal[hx(nmAddr)] = v.nameBal
	ncs := s.nameCS()
	for _, n := range append([]string{types.AergoName}, s.names...) {
		if o, d, ok := name.VerifC15NameMap(ncs, []byte(n), false); ok {
			v.namesB[n] = [2][]byte{o, d}
		}
		if o, d, ok := name.VerifC15NameMap(ncs, []byte(n), true); ok {
			v.namesI[n] = [2][]byte{o, d}
		}
	}
	return v
}

func showVP(p system.VerifC15VP) string { return hx(p.ID) + ":" + hx(p.Addr) + ":" + p.Power.String() }

func showVpr(w *system.VerifC15VprView, changes bool) string {
	var ps []string
	for _, p := range w.Powers {
		ps = append(ps, showVP(p))
	}
	sort.Strings(ps)
	var idx []int
	for i := range w.Buckets {
		idx = append(idx, int(i))
	}
	sort.Ints(idx)
	var bs []string
	for _, i := range idx {
		var xs []string
		for _, p := range w.Buckets[uint8(i)] {
			xs = append(xs, showVP(p))
		}
		bs = append(bs, fmt.Sprintf("%d=[%s]", i, joinC(xs)))
	}
	c := ""
	if changes {
		var cs []string
		for _, p := range w.Changes {
			cs = append(cs, showVP(p))
		}
		sort.Strings(cs)
		c = " c=[" + joinC(cs) + "]"
	}
	var ms []string
	for i, p := range w.Members {
		if i > w.MembersSize+2 {
			ms = append(ms, "...")
			break
		}
		ms = append(ms, hx(p.ID[:4])+":"+p.Power.String())
	}
	return fmt.Sprintf("{t=%s p=[%s] b=[%s] m=[%s]%s%s}", w.Total, joinC(ps), strings.Join(bs, " "), joinC(ms), w.MembersPanic, c)
}

func showNames(m map[string][2][]byte) string {
	var xs []string
	for n, r := range m {
		xs = append(xs, hx([]byte(n))+":"+hx(r[0])+":"+hx(r[1]))
	}
	sort.Strings(xs)
	return joinC(xs)
}

func (s *sess) show(v *view) string {
	var st []string
	for a, r := range v.stakes {
		st = append(st, fmt.Sprintf("%s:%s@%d", a, r.GetAmountBigInt(), r.GetWhen()))
	}
	sort.Strings(st)
	var vs []string
	for _, r := range v.votes {
		c := "-"
		if len(r.cands) > 0 {
			var xs []string
			for _, x := range r.cands {
				xs = append(xs, hx(x))
			}
			c = strings.Join(xs, "+")
		}
		vs = append(vs, fmt.Sprintf("%s/%s:%s:%s", r.issue, hx(r.addr), r.amount, c))
	}
	sort.Strings(vs)
	var rk, vt, p, np []string
	for _, is := range issues {
		rk = append(rk, fmt.Sprintf("r.%s=[%s]", is, showRank(v.ranks[is])))
	}
	for _, id := range daoIDs {
		vt = append(vt, id+":"+v.vtotal[id].String())
		p = append(p, id+":"+system.GetParam(id).String())
		np = append(np, id+":"+system.GetNextBlockParam(id).String())
	}
	var bl []string
	for a, b := range v.bal {
		if b.Sign() != 0 {
			bl = append(bl, a+":"+b.String())
		}
	}
	sort.Strings(bl)
	return fmt.Sprintf("T=%s st=[%s] v=[%s] %s rk=[%s] vt=[%s] p=[%s] np=[%s] vm=%s vd=%s nm=[%s] ni=[%s] b=[%s]",
		v.total, joinC(st), joinC(vs), strings.Join(rk, " "), joinC(v.rankers), joinC(vt), joinC(p), joinC(np),
		showVpr(v.mem, true), showVpr(v.load, false), showNames(v.namesB), showNames(v.namesI), joinC(bl))
}

// ---------------------------------------------------------------- execution through the real executor

func classify(err error) string {
	switch err {
	case nil:
		return "ok"
	case types.ErrInsufficientBalance:
		return "insufficient"
	case types.ErrLessTimeHasPassed:
		return "lesstime"
	case types.ErrTooSmallAmount:
		return "toosmall"
	case types.ErrMustStakeBeforeVote:
		return "muststake-vote"
	case types.ErrMustStakeBeforeUnstake:
		return "muststake-unstake"
	case types.ErrExceedAmount:
		return "exceed"
	}
	m := err.Error()
	for _, c := range [][2]string{
		{"not supported operation", "notsupported"},
		{"args[0] invalid id", "dao-badid"},
		{"too few candidates", "dao-toofew"},
		{"too many candidates", "dao-toomany"},
		{"include invalid number range", "dao-badrange"},
		{"include invalid number", "dao-badnumber"},
		{"aleady occupied", "occupied"},
		{"owner not matched", "owner-mismatch"},
		{"is not created yet", "not-created"},
		{"owner aleady set", "owner-set"},
	} {
		if strings.Contains(m, c[0]) {
			return c[1]
		}
	}
	return "other:" + m
}

func (s *sess) blockInfo() *types.BlockHeaderInfo {
	return &types.BlockHeaderInfo{No: s.h, ForkVersion: s.fv, ChainId: types.MakeChainId(s.cid, s.fv)}
}

// execTx runs one transaction the way chain.NewTxExecutor does: snapshot, executeTx, rollback on error.
// A transaction that the admission rules (types.Validate) refuse is run through the governance executor
// directly (only generated for duplicate candidates).
func (s *sess) execTx(txAcc, sender, rcpt []byte, amount *big.Int, typ types.TxType, payload string) string {
	bi := s.blockInfo()
	as, err := state.GetAccountState(sender, s.bs.StateDB)
	if err != nil {
		panic(err)
	}
	tx := &types.Tx{Body: &types.TxBody{Account: txAcc, Recipient: rcpt, Amount: amount.Bytes(), Nonce: as.Nonce() + 1,
		Type: typ, Payload: []byte(payload), ChainIdHash: common.Hasher(bi.ChainId)}}
	tx.Hash = tx.CalculateTxHash()
	txe := types.NewTransaction(tx)
	s.bs.SetGasPrice(system.GetGasPrice())
	snap := s.bs.Snapshot()
	var res string
	if verr := txe.Validate(bi.ChainIdHash(), false); verr != nil {
		if typ != types.TxType_GOVERNANCE || string(rcpt) != types.AergoSystem || verr != types.ErrTxInvalidPayload {
			// the admission rules refuse the generated transaction (e.g. an amount above types.MaxAER after the staking minimum
			// was voted up to the cap): it never reaches execution; no operation is recorded
			s.run.Count("generator:not-admitted:" + verr.Error())
			return "skip"
		}
		s.run.Count("path:direct")
		out, p := vh.Guard(func() string {
			receiver, _ := state.GetAccountState(rcpt, s.bs.StateDB)
			scs, err := statedb.OpenContractState(receiver.IDNoPadding(), receiver.State(), s.bs.StateDB)
			if err != nil {
				panic(err)
			}
			_, e := system.ExecuteSystemTx(scs, tx.Body, as, receiver, bi)
			if e == nil {
				statedb.StageContractState(scs, s.bs.StateDB)
				as.PutState()
				receiver.PutState()
			}
			return classify(e)
		})
		res = out
		if p {
			res = "panic"
		}
	} else {
		s.run.Count("path:tx")
		out, p := vh.Guard(func() string { return classify(chain.VerifC15ExecuteTx(stubCcc{}, s.bs, txe, bi)) })
		res = out
		if p {
			res = "panic"
			s.run.Sample("panic in executeTx: " + out + " on " + payload)
		}
	}
	if res != "ok" {
		if err := s.bs.Rollback(snap); err != nil {
			panic(err)
		}
	}
	if res == "panic" {
		s.dead = true
	}
	return res
}

// sysTx: a governance transaction of a to aergo.system. One time in three, when a name is bound (in the committed state)
// to a's address, the transaction names that *name* as its account: executeTx resolves it to the same sender, so the
// staking / vote records must be the ones of a's address (the model op line carries the address).
func (s *sess) sysTx(a *acct, amount *big.Int, payload string) string {
	txAcc := a.addr
	if s.forceAcc != nil {
		txAcc = s.forceAcc
		s.run.Count("systx:name-account-sender")
	} else if s.view != nil {
		var cand []string
		for n, r := range s.view.namesI {
			if bytes.Equal(r[1], a.addr) && n != types.AergoName {
				cand = append(cand, n)
			}
		}
		sort.Strings(cand)
		if len(cand) > 0 && s.rng.Chance(1, 3) {
			txAcc = []byte(cand[s.rng.Intn(len(cand))])
			s.run.Count("systx:name-account-sender")
		}
	}
	return s.execTx(txAcc, a.addr, sysAddr, amount, types.TxType_GOVERNANCE, payload)
}

// ---------------------------------------------------------------- operations (with the property's clauses as oracle)

func (s *sess) replay(extra ...string) map[string]interface{} {
	return map[string]interface{}{"session": s.label, "fork_version": s.fv,
		"ops": append(append([]string{}, s.ops...), extra...),
		"how": s.howText()}
}

func (s *sess) howText() string {
	if s.how != "" {
		return s.how
	}
	return "op lines of harness/c15 (see lean/Drv/C15.lean): executed in order on a fresh memorydb StateDB through chain.executeTx"
}

func (s *sess) fail(what string) {
	if s.taint != "" {
		s.run.Count("consequence-of:" + s.taint)
		return
	}
	s.run.Fail(what, s.replay())
}

func minStake() *big.Int { return system.GetStakingMinimum() }

// acted: a successful stake, unstake or vote (re)starts the account's lock periods: the record's When must be
// the height of that operation (the delays of the property are measured from it).
func (s *sess) acted(op string, a *acct, post *view) {
	s.lastAct[hx(a.addr)] = s.h
	if r := post.stakes[hx(a.addr)]; r == nil || r.GetWhen() != s.h {
		s.fail(fmt.Sprintf("%s succeeded at height %d but the lock period of the account was not restarted (recorded When: %v)", op, s.h, r))
	}
}

func (s *sess) stake(a *acct, amt *big.Int) {
	if s.dead {
		return
	}
	pre := s.view
	op := fmt.Sprintf("stake %s %d %s", hx(a.addr), s.h, amt)
	res := s.sysTx(a, amt, `{"Name":"v1stake"}`)
	if res == "skip" {
		return
	}
	s.emit(op, res, res == "ok")
	s.run.Count("stake:" + res)
	post := s.view
	// lock_rules: refused iff within the delay / below the minimum (other refusal: balance)
	rec := pre.stakes[hx(a.addr)]
	cur := new(big.Int)
	locked := false
	if rec != nil {
		cur = rec.GetAmountBigInt()
		locked = rec.GetWhen()+system.StakingDelay > s.h
	}
	below := new(big.Int).Add(cur, amt).Cmp(minStake()) < 0
	poor := pre.bal[hx(a.addr)].Cmp(amt) < 0
	if (res == "ok") == (locked || below || poor) {
		s.fail(fmt.Sprintf("lock rule: %s returned %s with locked=%v belowMinimum=%v insufficientBalance=%v", op, res, locked, below, poor))
	}
	if res == "ok" {
		s.exact(op, a, pre, post, amt, +1)
		s.acted(op, a, post)
	} else {
		s.unchanged(op, pre, post)
	}
	s.inv(post)
}

func (s *sess) unstake(a *acct, amt *big.Int) {
	if s.dead {
		return
	}
	pre := s.view
	op := fmt.Sprintf("unstake %s %d %s", hx(a.addr), s.h, amt)
	res := s.sysTx(a, amt, `{"Name":"v1unstake"}`)
	if res == "skip" {
		return
	}
	s.emit(op, res, res == "ok")
	s.run.Count("unstake:" + res)
	if s.dead {
		return
	}
	post := s.view
	rec := pre.stakes[hx(a.addr)]
	refuse := true
	if rec != nil && rec.GetAmountBigInt().Sign() > 0 {
		cur := rec.GetAmountBigInt()
		locked := rec.GetWhen()+system.StakingDelay > s.h
		exceed := cur.Cmp(amt) < 0
		rest := new(big.Int).Sub(cur, amt)
		below := rest.Sign() > 0 && rest.Cmp(minStake()) < 0
		refuse = locked || exceed || below
		if rest.Sign() > 0 && rest.Cmp(minStake()) >= 0 && amt.Sign() > 0 {
			s.run.Count("unstake-shape:partial")
		}
	}
	if (res == "ok") == refuse {
		s.fail(fmt.Sprintf("lock rule: %s returned %s although the rules say refuse=%v", op, res, refuse))
	}
	if res == "ok" {
		s.exact(op, a, pre, post, amt, -1)
		s.acted(op, a, post)
		// votes shrunk by the refresh
		for _, r := range pre.votes {
			if bytes.Equal(r.addr, a.addr) && r.amount.Cmp(post.stakes[hx(a.addr)].GetAmountBigInt()) > 0 {
				s.run.Count("unstake-shape:shrinks-vote")
			}
		}
	} else {
		s.unchanged(op, pre, post)
	}
	s.inv(post)
}

// exact: a successful stake (+1) / unstake (-1) of x moves exactly x between sender and aergo.system and
// changes record and total by x.
func (s *sess) exact(op string, a *acct, pre, post *view, x *big.Int, sign int) {
	d := func(after, before *big.Int) *big.Int { return new(big.Int).Sub(after, before) }
	want := new(big.Int).Set(x)
	if sign < 0 {
		want.Neg(want)
	}
	neg := new(big.Int).Neg(want)
	cur := new(big.Int)
	if r := pre.stakes[hx(a.addr)]; r != nil {
		cur = r.GetAmountBigInt()
	}
	got := post.stakes[hx(a.addr)]
	if got == nil ||
		d(got.GetAmountBigInt(), cur).Cmp(want) != 0 ||
		d(post.total, pre.total).Cmp(want) != 0 ||
		d(post.sysBal, pre.sysBal).Cmp(want) != 0 ||
		d(post.bal[hx(a.addr)], pre.bal[hx(a.addr)]).Cmp(neg) != 0 {
		s.fail(fmt.Sprintf("%s succeeded but did not move exactly %s: record %v -> %v, total %s -> %s, system balance %s -> %s, sender %s -> %s",
			op, x, cur, got, pre.total, post.total, pre.sysBal, post.sysBal, pre.bal[hx(a.addr)], post.bal[hx(a.addr)]))
	}
}

// unchanged: a refused operation leaves the governance state as it was.
func (s *sess) unchanged(op string, pre, post *view) {
	if s.dead {
		return
	}
	if a, b := s.show(pre), s.show(post); a != b {
		s.fail(fmt.Sprintf("%s was refused but changed the state:\n before %s\n after  %s", op, a, b))
	}
}

func (s *sess) voteBP(a *acct, cands [][]byte) {
	if s.dead {
		return
	}
	pre := s.view
	var enc, hs []string
	aligned := 0
	for _, c := range cands {
		enc = append(enc, `"`+base58.Encode(c)+`"`)
		hs = append(hs, hx(c))
		aligned += len(c)
	}
	cs := "-"
	if len(hs) > 0 {
		cs = joinC(hs)
	}
	op := fmt.Sprintf("votebp %s %d %s", hx(a.addr), s.h, cs)
	res := s.sysTx(a, new(big.Int), `{"Name":"v1voteBP","Args":[`+joinC(enc)+`]}`)
	if res == "skip" {
		return
	}
	if aligned%39 != 0 {
		// not modelled: the model answers with this token and the session stops being compared
		s.not39 = true
		s.ops = append(s.ops, op)
		s.run.Op(op, "unmodelled-misaligned-candidate | "+s.show(pre), true)
		s.run.Count("votebp:misaligned:" + res)
		if !s.dead {
			s.inv(s.look())
		}
		s.dead = true
		return
	}
	s.emit(op, res, res == "ok")
	s.run.Count("votebp:" + res)
	if s.dead {
		return
	}
	post := s.view
	s.voteRule(op, "voteBP", a, pre, post, res)
	if res == "ok" {
		for _, r := range pre.votes {
			if r.issue == "voteBP" && bytes.Equal(r.addr, a.addr) {
				s.run.Count("votebp-shape:revote")
				for _, c := range r.cands {
					for _, c2 := range cands {
						if bytes.Equal(c, c2) {
							s.run.Count("votebp-shape:revote-overlap")
						}
					}
				}
			}
		}
	}
	s.inv(post)
}

func (s *sess) voteRule(op, issue string, a *acct, pre, post *view, res string) {
	rec := pre.stakes[hx(a.addr)]
	refuse := true
	if rec != nil && rec.GetAmountBigInt().Sign() > 0 {
		voted := false
		for _, r := range pre.votes {
			if r.issue == issue && bytes.Equal(r.addr, a.addr) {
				voted = true
			}
		}
		refuse = voted && rec.GetWhen()+system.VotingDelay > s.h
	}
	if res == "ok" && refuse {
		s.fail(fmt.Sprintf("lock rule: %s succeeded although a re-vote within the voting delay / without stake must be refused", op))
	}
	if res != "ok" && !refuse && (res == "lesstime" || res == "muststake-vote") {
		s.fail(fmt.Sprintf("lock rule: %s refused with %s although the account has stake and is outside the delay", op, res))
	}
	if res != "ok" {
		s.unchanged(op, pre, post)
	} else {
		s.acted(op, a, post)
	}
}

func (s *sess) voteDAO(a *acct, id string, args []string) {
	if s.dead {
		return
	}
	pre := s.view
	var enc, hs []string
	enc = append(enc, `"`+id+`"`)
	for _, x := range args {
		enc = append(enc, `"`+x+`"`)
		hs = append(hs, hx([]byte(x)))
	}
	as := "-"
	if len(hs) > 0 {
		as = joinC(hs)
	}
	op := fmt.Sprintf("votedao %s %d %s %s", hx(a.addr), s.h, id, as)
	res := s.sysTx(a, new(big.Int), `{"Name":"v1voteDAO","Args":[`+joinC(enc)+`]}`)
	if res == "skip" {
		return
	}
	s.emit(op, res, res == "ok")
	s.run.Count("votedao:" + res)
	if s.dead {
		return
	}
	post := s.view
	s.voteRule(op, strings.ToUpper(id), a, pre, post, res)
	if res == "ok" {
		for _, i := range daoIDs {
			if system.GetNextBlockParam(i).Cmp(system.GetParam(i)) != 0 {
				s.run.Count("votedao-shape:param-changes-next-block")
			}
		}
	}
	s.inv(post)
}

func (s *sess) transfer(from *acct, to []byte, amt *big.Int) {
	if s.dead {
		return
	}
	pre := s.view
	op := fmt.Sprintf("transfer %s %s %s", hx(from.addr), hx(to), amt)
	res := s.execTx(from.addr, from.addr, to, amt, types.TxType_TRANSFER, "")
	if res == "skip" {
		return
	}
	if res == "ok" && bytes.Equal(to, sysAddr) && amt.Sign() > 0 {
		s.sysXfer = true
	}
	s.emit(op, res, res == "ok")
	s.run.Count("transfer:" + res)
	post := s.view
	if res != "ok" {
		s.unchanged(op, pre, post)
	}
	s.inv(post)
}

func (s *sess) useName(n string) {
	for _, x := range s.names {
		if x == n {
			return
		}
	}
	s.names = append(s.names, n)
}

func (s *sess) nameCreate(a *acct, n string, amt *big.Int) {
	if s.dead {
		return
	}
	s.useName(n)
	pre := s.view
	op := fmt.Sprintf("namecreate %s %s %s", hx(a.addr), hx([]byte(n)), amt)
	res := s.execTx(a.addr, a.addr, nmAddr, amt, types.TxType_GOVERNANCE, `{"Name":"v1createName","Args":["`+n+`"]}`)
	if res == "skip" {
		return
	}
	s.emit(op, res, res == "ok")
	s.run.Count("namecreate:" + res)
	post := s.view
	_, was := pre.namesB[n]
	if res == "ok" {
		now, ok := post.namesB[n]
		if was || !ok || !bytes.Equal(now[0], a.addr) || amt.Cmp(system.GetNamePrice()) < 0 {
			s.fail(fmt.Sprintf("%s succeeded: name bound before=%v, owner after=%x, price %s", op, was, now[0], system.GetNamePrice()))
		}
		// paid: the sender's balance went down by the amount, the name account (or the contract owner) got it
		if d := new(big.Int).Sub(pre.bal[hx(a.addr)], post.bal[hx(a.addr)]); d.Cmp(amt) != 0 && !bytes.Equal(s.nameOwner(pre), a.addr) {
			s.fail(fmt.Sprintf("%s succeeded but the sender paid %s", op, d))
		}
	} else {
		s.unchanged(op, pre, post)
	}
	s.namesOthers(op, n, pre, post)
	s.inv(post)
}

func (s *sess) nameOwner(v *view) []byte {
	if r, ok := v.namesB[types.AergoName]; ok {
		return r[0]
	}
	return nmAddr
}

// nameUpdate: txAcc is the account field of the transaction (an address or a name that resolves to sender).
func (s *sess) nameUpdate(txAcc []byte, sender *acct, n string, to string, toRaw []byte, amt *big.Int) {
	if s.dead {
		return
	}
	s.useName(n)
	pre := s.view
	op := fmt.Sprintf("nameupdate %s %s %s %s %s", hx(txAcc), hx(sender.addr), hx([]byte(n)), hx(toRaw), amt)
	res := s.execTx(txAcc, sender.addr, nmAddr, amt, types.TxType_GOVERNANCE, `{"Name":"v1updateName","Args":["`+n+`","`+to+`"]}`)
	if res == "skip" {
		return
	}
	s.emit(op, res, res == "ok")
	s.run.Count("nameupdate:" + res)
	post := s.view
	if res == "ok" {
		before, was := pre.namesB[n]
		if !(bytes.Equal(txAcc, []byte(n)) || (was && bytes.Equal(txAcc, before[0]))) || amt.Cmp(system.GetNamePrice()) < 0 {
			s.fail(fmt.Sprintf("%s succeeded although the transaction account is neither the name nor its owner %x (or below the price)", op, before[0]))
		}
		if bytes.Equal(txAcc, []byte(n)) {
			s.run.Count("nameupdate-shape:by-name-account")
		}
	} else {
		s.unchanged(op, pre, post)
	}
	s.namesOthers(op, n, pre, post)
	s.inv(post)
}

func (s *sess) setOwner(by *acct, owner *acct) {
	if s.dead {
		return
	}
	pre := s.view
	op := fmt.Sprintf("setowner %s", hx(owner.addr))
	res := s.execTx(by.addr, by.addr, nmAddr, new(big.Int), types.TxType_GOVERNANCE, `{"Name":"v1setOwner","Args":["`+types.EncodeAddress(owner.addr)+`"]}`)
	if res == "skip" {
		return
	}
	s.emit(op, res, res == "ok")
	s.run.Count("setowner:" + res)
	post := s.view
	if res != "ok" {
		s.unchanged(op, pre, post)
	}
	s.namesOthers(op, types.AergoName, pre, post)
	s.inv(post)
}

// namesOthers: an operation on one name leaves every other name as it was.
func (s *sess) namesOthers(op, n string, pre, post *view) {
	for k, r := range pre.namesB {
		if k == n {
			continue
		}
		r2, ok := post.namesB[k]
		if !ok || !bytes.Equal(r[0], r2[0]) || !bytes.Equal(r[1], r2[1]) {
			s.fail(fmt.Sprintf("%s changed another name %q", op, k))
		}
	}
}

func (s *sess) endBlock(next uint64) {
	if s.dead {
		return
	}
	if err := s.bs.Update(); err != nil {
		panic(err)
	}
	if err := s.bs.Commit(); err != nil {
		panic(err)
	}
	if err := s.sdb.UpdateRoot(s.bs); err != nil {
		panic(err)
	}
	system.CommitParams(true)
	s.bs = s.sdb.NewBlockState(s.sdb.GetRoot())
	s.emit("endblock", "ok", false)
	s.run.Count("endblock")
	v := s.view
	// the rank reloaded from the *committed* state by a fresh state db
	fresh := s.sdb.OpenNewStateDB(s.sdb.GetRoot())
	fscs, err := statedb.GetSystemAccountState(fresh)
	if err != nil {
		panic(err)
	}
	ld, err := system.VerifC15VprLoad(fscs)
	if err != nil {
		panic(err)
	}
	if showVpr(ld, false) != showVpr(v.mem, false) {
		s.fail("block boundary: the live voting-power rank " + showVpr(v.mem, false) + " differs from the rank reloaded from the committed state " + showVpr(ld, false))
	}
	if showNames(v.namesB) != showNames(v.namesI) {
		s.fail("block boundary: buffered names " + showNames(v.namesB) + " differ from committed names " + showNames(v.namesI))
	}
	// the parameter table in memory against the one loadParams builds from the committed state; nothing pending
	cur, pending := system.VerifC15ParamsMemory()
	if a, b := showParams(cur), showParams(system.VerifC15ParamsLoad(fscs)); a != b || len(pending) > 0 {
		s.fail("block boundary: system parameters in memory [" + a + "] (pending [" + showParams(pending) + "]) differ from the ones loaded from the committed state [" + b + "]")
	}
	s.inv(v)
	s.h = next
}

func (s *sess) restart() {
	if s.dead {
		return
	}
	scs := s.sys()
	system.InitSystemParams(scs, 3)
	if err := system.InitVotingPowerRank(scs); err != nil {
		panic(err)
	}
	s.emit("restart", "ok", false)
	s.run.Count("restart")
	s.inv(s.view)
}

// ---------------------------------------------------------------- GInv on the real state

func (s *sess) inv(v *view) {
	s.run.Eval("", false)
	// total = sum of stakes = balance of aergo.system
	sum := new(big.Int)
	for _, r := range v.stakes {
		sum.Add(sum, r.GetAmountBigInt())
	}
	if sum.Cmp(v.total) != 0 {
		s.fail(fmt.Sprintf("recorded total stake %s differs from the sum of the staking records %s", v.total, sum))
	}
	if v.sysBal.Cmp(v.total) != 0 {
		what := fmt.Sprintf("balance of aergo.system %s differs from the recorded total stake %s", v.sysBal, v.total)
		if s.sysXfer {
			s.fd.known(kSysXfer, what+" after a plain transfer to aergo.system (executed with a SUCCESS receipt)", s.replay())
		} else {
			s.fail(what)
		}
	}
	// tally = sum of the voting amounts of the accounts voting for the candidate (with multiplicity); vote <= stake
	for _, is := range issues {
		want := map[string]*big.Int{}
		for _, r := range v.votes {
			if r.issue != is {
				continue
			}
			st := new(big.Int)
			if x := v.stakes[hx(r.addr)]; x != nil {
				st = x.GetAmountBigInt()
			}
			if r.amount.Cmp(st) > 0 {
				what := fmt.Sprintf("voting amount %s recorded for %s/%x exceeds its stake %s", r.amount, is, r.addr, st)
				if s.not39 {
					s.fd.known(kNot39, what, s.replay())
				} else {
					s.fail(what)
				}
			}
			for _, c := range r.cands {
				k := string(c)
				if want[k] == nil {
					want[k] = new(big.Int)
				}
				want[k].Add(want[k], r.amount)
			}
		}
		got := map[string]*big.Int{}
		for _, e := range v.ranks[is] {
			got[string(e.cand)] = e.amt
		}
		bad := ""
		for k, w := range want {
			g := got[k]
			if g == nil || g.Cmp(w) != 0 {
				bad = fmt.Sprintf("%s: tally of candidate %x is %v, the votes recorded for it sum to %s", is, k, g, w)
			}
		}
		for k, g := range got {
			if want[k] == nil && g.Sign() != 0 {
				bad = fmt.Sprintf("%s: tally of candidate %x is %s but no recorded vote names it", is, k, g)
			}
		}
		if bad != "" {
			if s.not39 {
				s.fd.known(kNot39, bad+" (after a voteBP naming a candidate that is not 39 bytes long)", s.replay())
			} else {
				s.fail(bad)
			}
		}
		// ranking = tallies in Less order, Less a strict total order on the tallied entries
		l := v.ranks[is]
		for i := 0; i+1 < len(l); i++ {
			var ab, ba bool
			if _, p := vh.Guard(func() string { ab = realLess(l[i], l[i+1]); ba = realLess(l[i+1], l[i]); return "" }); p {
				s.fail(fmt.Sprintf("%s: VoteList.Less panics on %x / %x", is, l[i].cand, l[i+1].cand))
				continue
			}
			if ab {
				s.fail(fmt.Sprintf("%s: persisted ranking is not in order: %x:%s is Less than its successor %x:%s", is, l[i].cand, l[i].amt, l[i+1].cand, l[i+1].amt))
			} else if !ba {
				what := fmt.Sprintf("%s: candidates %x and %x (tally %s each) are not ordered by VoteList.Less in either direction: their rank order is whatever the map iteration produced", is, l[i].cand, l[i+1].cand, l[i].amt)
				if s.not39 {
					s.fd.known(kNot39, what, s.replay())
				} else {
					rp := s.replay()
					rp["orders_seen_in_64_rebuilds"] = s.rebuilds(v.ranks[is])
					if s.taint != "" {
						s.run.Count("consequence-of:" + s.taint)
					} else {
						s.run.Fail(what, rp)
					}
				}
			}
		}
	}
	// voting-power rank: memory = reload; totalPower = sum of powers
	if a, b := showVpr(v.mem, false), showVpr(v.load, false); a != b {
		s.fail("live voting-power rank " + a + " differs from the rank rebuilt from the persisted buckets " + b)
	}
	ps := new(big.Int)
	for _, p := range v.mem.Powers {
		ps.Add(ps, p.Power)
	}
	if ps.Cmp(v.mem.Total) != 0 {
		s.fail(fmt.Sprintf("voting-power rank: totalPower %s differs from the sum of the voters' powers %s", v.mem.Total, ps))
	}
	if s.fv >= 2 {
		// (statistic, not an oracle: the property does not say what a voter's power is)
		okp := true
		for _, a := range s.accts {
			w := new(big.Int)
			for _, r := range v.votes {
				if bytes.Equal(r.addr, a.addr) {
					w.Add(w, r.amount)
				}
			}
			g := new(big.Int)
			for _, p := range v.mem.Powers {
				if bytes.Equal(p.ID, a.id[:]) {
					g = p.Power
				}
			}
			if g.Cmp(w) != 0 {
				okp = false
			}
		}
		if okp {
			s.run.Count("vpr:power=sum-of-votes")
		} else {
			s.run.Count("vpr:power!=sum-of-votes")
		}
	}
	// the ordered view of the live rank (red-black tree `members`) against the reloaded one
	mm, ml := membersStr(v.mem), membersStr(v.load)
	if mm != ml {
		s.fail("the live voting-power rank's ordered member tree " + mm + " differs from the one rebuilt from persisted state " + ml)
	} else if a, b := lowestStr(v.mem), lowestStr(v.load); a != b {
		// vpr.lowest is written by updateLowest but read by nothing except vpr.equals: with two voters of equal
		// power it depends on the order of arrival. Counted, not an oracle (no observable ranking depends on it).
		s.run.Count("vpr:lowest-differs-from-reload(equal powers)")
	}
}

func membersStr(w *system.VerifC15VprView) string {
	var xs []string
	for i, p := range w.Members {
		if i > w.MembersSize+2 {
			xs = append(xs, "...")
			break
		}
		xs = append(xs, hx(p.ID[:4])+":"+p.Power.String())
	}
	return fmt.Sprintf("{size=%d members=[%s]%s}", w.MembersSize, joinC(xs), w.MembersPanic)
}

func lowestStr(w *system.VerifC15VprView) string {
	if w.Lowest == nil {
		return "nil"
	}
	return hx(w.Lowest.ID[:4]) + ":" + w.Lowest.Power.String()
}

// rebuilds: the real buildVoteList (via BuildOrderedCandidates) on the same tallies, 64 times: how many
// different orders come out.
func (s *sess) rebuilds(l []entry) map[string]int {
	out := map[string]int{}
	for i := 0; i < 64; i++ {
		m := map[string]*big.Int{}
		for _, e := range l {
			m[base58.Encode(e.cand)] = new(big.Int).Set(e.amt)
		}
		var xs []string
		for _, c := range system.BuildOrderedCandidates(m) {
			b, _ := base58.Decode(c)
			xs = append(xs, hx(b[:8]))
		}
		out[strings.Join(xs, ">")]++
	}
	return out
}

// ---------------------------------------------------------------- generators

func peerID(par byte, x []byte) []byte {
	b := []byte{0, 0x25, 8, 2, 0x12, 0x21, par}
	return append(b, x...)
}

func (s *sess) mkAddr(rng *vh.Rng) []byte {
	return append([]byte{2 + byte(rng.Intn(2))}, rng.Bytes(32)...)
}

// mkAddrBucket: an address whose account id falls into voting-power bucket b.
func (s *sess) mkAddrBucket(rng *vh.Rng, b uint8) []byte {
	for {
		a := s.mkAddr(rng)
		if system.VerifC15BucketIdx(types.ToAccountID(a)) == b {
			return a
		}
	}
}

var (
	pow72 = new(big.Int).Lsh(big.NewInt(1), 72) // 4,722.4 aergo: amounts below it have 9 bytes
	pow80 = new(big.Int).Lsh(big.NewInt(1), 80) // 1,208,925.8 aergo: amounts from it on have 11 bytes
)

var nameChars = "abcdefghijklmnopqrstuvwxyz1234567890"

func mkName(rng *vh.Rng) string {
	b := make([]byte, 12)
	for i := range b {
		b[i] = nameChars[rng.Intn(len(nameChars))]
	}
	return string(b)
}

func (s *sess) pickH(rng *vh.Rng) uint64 {
	// next block height: +1, or around the expiry of some account's delay
	if rng.Chance(1, 3) {
		return s.h + 1
	}
	scs := s.sys()
	var whens []uint64
	for _, a := range s.accts {
		st, _ := system.GetStaking(scs, a.addr)
		if st.GetAmount() != nil {
			whens = append(whens, st.GetWhen())
		}
	}
	if len(whens) == 0 {
		return s.h + 1
	}
	w := whens[rng.Intn(len(whens))]
	t := w + system.StakingDelay
	switch rng.Intn(5) {
	case 0:
		t--
	case 1:
		t++
	case 2:
		t += uint64(rng.Intn(1000))
	}
	if t <= s.h {
		return s.h + 1 + uint64(rng.Intn(3))*system.StakingDelay/2
	}
	return t
}

// large: six to eight accounts in ONE voting-power bucket, a pool of more than thirty candidates, votes naming up to the
// admitted maximum of 30 (serialised vote records and list elements longer than 255 bytes).
func dedup(cs [][]byte) [][]byte {
	var out [][]byte
	seen := map[string]bool{}
	for _, c := range cs {
		if !seen[string(c)] {
			seen[string(c)] = true
			out = append(out, c)
		}
	}
	return out
}

func (s *sess) randomSession(steps int, tiePool bool, large bool) {
	rng := s.rng
	na := 2 + rng.Intn(4)
	sameBucket := rng.Bool()
	if large {
		na = 6 + rng.Intn(3)
		sameBucket = true
	}
	b := uint8(rng.Intn(71))
	for i := 0; i < na; i++ {
		var a []byte
		if sameBucket && (i < 3 || large) {
			a = s.mkAddrBucket(rng, b)
		} else {
			a = s.mkAddr(rng)
		}
		bal := coins(int64(20000 + rng.Intn(200000)))
		if rng.Chance(1, 8) {
			bal = coins(int64(rng.Intn(12000)))
		} else if rng.Chance(1, 5) {
			bal = coins(int64(1500000 + rng.Intn(2000000))) // enough to stake across 2^80 aer (1,208,925.8 aergo: 11 bytes)
		}
		s.addAcct(a, bal)
	}
	// candidates: a few distinct ones; optionally pairs equal from byte 7 on (the tie shape)
	nc := 2 + rng.Intn(4)
	if large {
		nc = 31 + rng.Intn(3)
	}
	for i := 0; i < nc; i++ {
		x := rng.Bytes(32)
		s.cands = append(s.cands, peerID(2+byte(rng.Intn(2)), x))
		if tiePool && rng.Chance(1, 2) {
			c := peerID(2, x)
			c2 := peerID(3, x)
			s.cands[len(s.cands)-1] = c
			s.cands = append(s.cands, c2)
		}
	}
	for i := 0; i < 3; i++ {
		s.names = append(s.names, mkName(rng))
	}
	amounts := func(a *acct) *big.Int {
		min := minStake()
		if s.balance(a.addr).Cmp(pow80) > 0 && rng.Chance(1, 3) {
			// around the power of 256 where the byte length of the amount changes
			return new(big.Int).Add(pow80, big.NewInt(int64(rng.Intn(3))-1))
		}
		switch rng.Intn(8) {
		case 0:
			return new(big.Int).Set(min)
		case 1:
			return new(big.Int).Sub(min, big.NewInt(1))
		case 2:
			return new(big.Int).Mul(min, big.NewInt(int64(1+rng.Intn(4))))
		case 3:
			if rng.Chance(1, 3) {
				return new(big.Int).Add(s.balance(a.addr), big.NewInt(int64(rng.Intn(2))))
			}
			return coins(int64(10000 + 1000*rng.Intn(30)))
		case 4:
			return coins(int64(rng.Intn(3000)))
		default:
			return coins(int64(10000 + 1000*rng.Intn(30)))
		}
	}
	if large {
		// every account becomes a voter first: six to eight entries in one bucket, in the order of their random ids
		for _, a := range s.accts {
			s.stake(a, coins(int64(10000*(1+rng.Intn(2)))))
			var cs [][]byte
			for j := 0; j < 1+rng.Intn(3); j++ {
				cs = append(cs, s.cands[(rng.Intn(len(s.cands))+j)%len(s.cands)])
			}
			s.voteBP(a, dedup(cs))
		}
		s.endBlock(s.h + D)
	}
	for i := 0; i < steps && !s.dead; i++ {
		a := s.accts[rng.Intn(len(s.accts))]
		scs := s.sys()
		st, _ := system.GetStaking(scs, a.addr)
		cur := st.GetAmountBigInt()
		// operation mix by the account's situation (k selects the case below):
		// stake, unstake, votebp, votedao, transfer, namecreate, nameupdate, setowner, endblock
		staked := cur.Sign() > 0
		locked := st.GetAmount() != nil && st.GetWhen()+system.StakingDelay > s.h
		w := []int{55, 4, 4, 4, 10, 8, 6, 1, 8}
		if locked {
			w = []int{5, 6, 22, 12, 8, 6, 6, 1, 34}
		} else if staked {
			w = []int{12, 30, 26, 12, 5, 4, 4, 1, 6}
		}
		starts := []int{0, 18, 34, 58, 70, 78, 84, 90, 91}
		r, k := rng.Intn(100), 91
		for j, x := range w {
			if r < x {
				k = starts[j]
				break
			}
			r -= x
		}
		switch {
		case k < 18:
			s.stake(a, amounts(a))
		case k < 34:
			var x *big.Int
			min := minStake()
			switch rng.Intn(8) {
			case 0:
				x = new(big.Int).Set(cur)
			case 1:
				x = new(big.Int).Add(cur, big.NewInt(1))
			case 2:
				x = new(big.Int)
			case 3: // leave exactly the minimum
				x = new(big.Int).Sub(cur, min)
				if x.Sign() < 0 {
					x = new(big.Int).Set(cur)
				}
			case 4: // leave one below the minimum
				x = new(big.Int).Sub(cur, new(big.Int).Sub(min, big.NewInt(1)))
				if x.Sign() < 0 {
					x = big.NewInt(1)
				}
			case 5: // down across a byte-length boundary of the amount (2^80, 2^72 aer)
				x = coins(100000)
				if cur.Cmp(pow80) < 0 || rng.Bool() {
					x = new(big.Int).Sub(cur, new(big.Int).Sub(pow72, big.NewInt(1)))
					if x.Sign() <= 0 {
						x = coins(1)
					}
				}
			default: // partial
				if cur.Sign() > 0 {
					x = new(big.Int).Div(cur, big.NewInt(int64(2+rng.Intn(3))))
				} else {
					x = coins(1)
				}
			}
			s.unstake(a, x)
		case k < 58:
			n := rng.Intn(4)
			if large {
				n = rng.Intn(31)
			}
			if rng.Chance(1, 12) {
				n = 0
			}
			var cs [][]byte
			used := map[int]bool{}
			for j := 0; j < n; j++ {
				c := rng.Intn(len(s.cands))
				if used[c] && (large || !rng.Chance(1, 10)) {
					continue
				}
				used[c] = true
				cs = append(cs, s.cands[c])
			}
			s.voteBP(a, cs)
		case k < 70:
			id := daoIDs[rng.Intn(4)]
			if rng.Chance(1, 4) {
				id = strings.ToLower(id)
			}
			if rng.Chance(1, 20) {
				id = "NOSUCHID"
			}
			var args []string
			switch rng.Intn(12) {
			case 0:
				args = []string{"abc"}
			case 1:
				args = []string{"0"}
			case 2:
				args = []string{"5", "7"}
			case 3:
				args = []string{"101"}
			case 4:
				args = []string{"600000000000000000000000000"}
			case 5:
				args = []string{[]string{"007", "-5", "+3", "-0", "-", "-100", "-101", "-500000000000000000000000000", "-500000000000000000000000001", "-1000000000000000000000"}[rng.Intn(10)]}
			case 6:
				args = nil
				if !rng.Chance(1, 4) {
					args = []string{"13"}
				}
				if rng.Chance(1, 3) {
					// a zero-padded number: admitted (SetString), the candidate string - and with it the element of the persisted
					// ranking - is longer than 255 bytes (never 39 characters: that length takes the peer-id branch of Less)
					args = []string{strings.Repeat("0", 40+rng.Intn(300)) + fmt.Sprint(1+rng.Intn(9))}
				}
			default:
				switch strings.ToUpper(id) {
				case "BPCOUNT":
					args = []string{fmt.Sprint(1 + rng.Intn(30))}
				case "STAKINGMIN":
					args = []string{coins(int64(1000 * (1 + rng.Intn(20)))).String()}
				case "NAMEPRICE":
					args = []string{coins(int64(1 + rng.Intn(5))).String()}
				default:
					args = []string{fmt.Sprint(1000000000 * (1 + rng.Intn(100)))}
				}
			}
			s.voteDAO(a, id, args)
		case k < 78:
			var to []byte
			switch rng.Intn(12) {
			case 0:
				to = nmAddr
			case 1: // to itself (never to aergo.system here: that is the deliberate probe scripted:transfer-to-system)
				to = a.addr
			default:
				to = s.accts[rng.Intn(len(s.accts))].addr
			}
			amt := coins(int64(rng.Intn(5000)))
			if rng.Chance(1, 10) {
				amt = new(big.Int).Add(s.balance(a.addr), big.NewInt(1))
			}
			s.transfer(a, to, amt)
		case k < 84:
			n := s.names[rng.Intn(len(s.names))]
			amt := new(big.Int).Set(system.GetNamePrice())
			switch rng.Intn(6) {
			case 0:
				amt.Sub(amt, big.NewInt(1))
			case 1:
				amt.Add(amt, coins(1))
			}
			s.nameCreate(a, n, amt)
		case k < 90:
			n := s.names[rng.Intn(len(s.names))]
			amt := new(big.Int).Set(system.GetNamePrice())
			if rng.Chance(1, 8) {
				amt.Sub(amt, big.NewInt(1))
			}
			toA := s.accts[rng.Intn(len(s.accts))]
			to, toRaw := types.EncodeAddress(toA.addr), toA.addr
			if rng.Chance(1, 6) {
				n2 := s.names[rng.Intn(len(s.names))]
				to, toRaw = n2, []byte(n2)
			}
			txAcc, sender := a.addr, a
			// the name itself as the transaction account, when it resolves (committed) to one of our accounts
			if rng.Chance(1, 3) {
				if _, d, ok := name.VerifC15NameMap(s.nameCS(), []byte(n), true); ok {
					for _, x := range s.accts {
						if bytes.Equal(x.addr, d) {
							txAcc, sender = []byte(n), x
						}
					}
				}
			} else if rng.Chance(1, 2) {
				// the current owner
				if o, _, ok := name.VerifC15NameMap(s.nameCS(), []byte(n), false); ok {
					for _, x := range s.accts {
						if bytes.Equal(x.addr, o) {
							txAcc, sender = x.addr, x
						}
					}
				}
			}
			s.nameUpdate(txAcc, sender, n, to, toRaw, amt)
		case k < 91:
			// the new owner may be the sender itself (repaired by 583738ca: the live sender record is credited)
			s.setOwner(a, s.accts[rng.Intn(len(s.accts))])
		default:
			s.endBlock(s.pickH(rng))
			if rng.Chance(1, 6) {
				s.restart()
			}
		}
	}
	if !s.dead {
		s.endBlock(s.h + 1)
	}
}

// ---------------------------------------------------------------- scripted sessions

func fixedAddr(i int) []byte {
	r := vh.NewRng(uint64(1000 + i))
	return append([]byte{2 + byte(i&1)}, r.Bytes(32)...)
}

func fill(b byte) []byte { return bytes.Repeat([]byte{b}, 32) }

const D = system.StakingDelay

func scripted(run *vh.Run, fd *findings) {
	// S1: delays exactly at their boundaries, partial unstake shrinking votes on overlapping candidate sets
	{
		s := newSess(run, fd, run.Rng.Fork(), 2, "scripted:boundaries")
		a := s.addAcct(fixedAddr(0), coins(100000))
		b := s.addAcct(fixedAddr(1), coins(100000))
		c := s.addAcct(fixedAddr(2), coins(9999))
		c1, c2, c3 := peerID(2, fill(0x11)), peerID(3, fill(0x22)), peerID(2, fill(0x33))
		s.h = 10
		s.stake(c, coins(9999))       // below the minimum
		s.stake(c, coins(10000))      // insufficient balance
		s.stake(a, coins(30000))      // ok, when = 10
		s.stake(a, coins(1))          // within the delay
		s.voteBP(b, [][]byte{c1})     // no stake
		s.unstake(b, coins(1))        // no stake
		s.voteBP(a, [][]byte{c1, c2}) // first vote: no delay
		s.voteBP(a, [][]byte{c2})     // re-vote within the delay
		s.stake(b, coins(20000))
		s.voteBP(b, [][]byte{c2, c3})
		s.endBlock(10 + D - 1)
		s.unstake(a, coins(1000)) // one block early
		s.voteBP(a, [][]byte{c3})
		s.stake(a, coins(1))
		s.endBlock(10 + D)
		s.unstake(a, coins(40000)) // exceeds
		s.unstake(a, coins(20001)) // would leave 9999
		s.unstake(a, coins(10000)) // ok: votes of a shrink from 30000 to 20000
		s.voteBP(a, [][]byte{c3})  // when was just reset by the unstake
		s.endBlock(10 + 2*D)
		s.voteBP(a, [][]byte{c1, c3}) // re-vote with an overlapping set
		s.unstake(b, coins(20000))    // full unstake: votes of b shrink to 0
		s.endBlock(10 + 3*D)
		s.stake(b, coins(10000))
		s.voteBP(b, nil) // vote for nobody
		s.unstake(a, coins(20000))
		s.restart()
		s.endBlock(10 + 4*D)
		s.close()
	}
	// S2: parameter votes: the staking minimum and the name price change at the next block
	{
		s := newSess(run, fd, run.Rng.Fork(), 2, "scripted:parameters")
		a := s.addAcct(fixedAddr(3), coins(500000))
		b := s.addAcct(fixedAddr(4), coins(500000))
		s.h = 5
		s.stake(a, coins(90000))
		s.stake(b, coins(30000))
		s.voteDAO(b, "stakingmin", []string{coins(20000).String()}) // 30000 of 120000: below the threshold
		s.voteDAO(a, "STAKINGMIN", []string{coins(5000).String()})  // 90000 of 120000: wins, active next block
		s.voteDAO(a, "namePrice", []string{coins(3).String()})
		s.voteDAO(a, "BPCOUNT", []string{"5"})
		s.voteDAO(a, "BPCOUNT", []string{"6"}) // within the delay
		s.stake(b, coins(5000))                // delay
		s.nameCreate(b, "name11112222", coins(1))
		s.endBlock(5 + D)
		s.nameCreate(b, "name33334444", coins(1)) // price is 3 now
		s.nameCreate(b, "name33334444", coins(3))
		s.unstake(b, coins(25000)) // leaves 5000: allowed by the new minimum; the vote of b shrinks
		s.restart()
		s.endBlock(5 + 2*D)
		s.voteDAO(a, "STAKINGMIN", []string{coins(20000).String()})
		s.endBlock(5 + 3*D)
		s.stake(b, coins(1)) // 5001 < 20000
		s.unstake(a, coins(90000))
		s.endBlock(5 + 4*D)
		s.close()
	}
	// S3: names
	{
		s := newSess(run, fd, run.Rng.Fork(), 2, "scripted:names")
		a := s.addAcct(fixedAddr(5), coins(100))
		b := s.addAcct(fixedAddr(6), coins(100))
		c := s.addAcct(fixedAddr(7), big.NewInt(5))
		n1, n2 := "abcdefgh1234", "zzzzyyyy9999"
		s.h = 3
		s.nameCreate(c, n1, coins(1)) // insufficient
		s.nameCreate(a, n1, new(big.Int).Sub(coins(1), big.NewInt(1)))
		s.nameCreate(a, n1, coins(1))
		s.nameCreate(b, n1, coins(1))                                              // occupied
		s.nameUpdate(a.addr, a, n1, types.EncodeAddress(b.addr), b.addr, coins(1)) // created in this block: not committed yet
		s.endBlock(4)
		s.nameUpdate(b.addr, b, n1, types.EncodeAddress(b.addr), b.addr, coins(1))     // not the owner
		s.nameUpdate([]byte(n1), a, n1, types.EncodeAddress(b.addr), b.addr, coins(1)) // the name's account itself
		s.endBlock(5)
		s.nameUpdate(a.addr, a, n1, types.EncodeAddress(a.addr), a.addr, coins(1)) // a is no longer the owner
		s.nameUpdate(b.addr, b, n1, n2, []byte(n2), coins(1))                      // destination: an unbound name
		s.transfer(a, nmAddr, coins(2))
		s.setOwner(a, b)
		s.setOwner(b, a)              // already set
		s.nameCreate(a, n2, coins(1)) // the payment goes to the contract owner now
		s.endBlock(6)
		s.close()
	}
	// S6: amounts whose byte length changes (powers of 256): the stored amounts are minimal big-endian byte strings, a vote of
	// 2^80 aer (01 00..00, 11 bytes) against a remaining stake of 10 bytes with a larger leading byte
	{
		s := newSess(run, fd, run.Rng.Fork(), 2, "scripted:byte-length-boundary")
		a := s.addAcct(fixedAddr(23), coins(3000000))
		b := s.addAcct(fixedAddr(24), coins(3000000))
		c1 := peerID(2, fill(0x21))
		rest := new(big.Int).Sub(new(big.Int).Sub(pow80, coins(100000)), new(big.Int).Sub(pow72, big.NewInt(1)))
		s.h = 2
		s.stake(a, pow80)
		s.stake(b, new(big.Int).Sub(pow80, big.NewInt(1)))
		s.voteBP(a, [][]byte{c1})
		s.voteDAO(a, "GASPRICE", []string{"7"})
		s.voteBP(b, [][]byte{c1})
		s.endBlock(2 + D)
		s.unstake(a, coins(100000)) // 11 bytes -> 10 bytes, leading byte 0x01 -> 0xea: both votes must shrink
		s.unstake(b, big.NewInt(1)) // stays 10 bytes
		s.stake(b, big.NewInt(1))   // within the delay
		s.endBlock(2 + 2*D)
		s.stake(b, big.NewInt(2)) // 10 bytes -> 11 bytes
		s.unstake(a, rest)        // would leave 2^72-1 aer: below the minimum
		s.voteDAO(a, "STAKINGMIN", []string{coins(4000).String()})
		s.endBlock(2 + 3*D)
		s.unstake(a, rest) // 10 bytes -> 9 bytes
		s.endBlock(2 + 4*D)
		s.close()
	}
	// S5: system transactions whose account field is a *name* bound to the sender: the records are those of the address
	{
		s := newSess(run, fd, run.Rng.Fork(), 2, "scripted:name-account-sender")
		a := s.addAcct(fixedAddr(18), coins(100000))
		b := s.addAcct(fixedAddr(19), coins(100000))
		n1 := "sendername12"
		c1, c2 := peerID(2, fill(0x12)), peerID(3, fill(0x13))
		s.h = 4
		s.nameCreate(a, n1, coins(1))
		s.stake(b, coins(10000))
		s.endBlock(5)
		s.forceAcc = []byte(n1)
		s.stake(a, coins(30000))
		s.voteBP(a, [][]byte{c1, c2})
		s.voteDAO(a, "BPCOUNT", []string{"4"})
		s.stake(a, coins(1)) // within the delay
		s.forceAcc = nil
		s.voteBP(a, [][]byte{c1}) // the same account by its address: a re-vote within the delay
		s.endBlock(5 + D)
		s.forceAcc = []byte(n1)
		s.unstake(a, coins(10000))
		s.forceAcc = nil
		s.nameUpdate(a.addr, a, n1, types.EncodeAddress(b.addr), b.addr, coins(1)) // the name now resolves to b
		s.endBlock(5 + 2*D)
		s.forceAcc = []byte(n1)
		s.voteBP(b, [][]byte{c2}) // signed by b under the name: b's records
		s.forceAcc = nil
		s.unstake(a, coins(20000))
		s.endBlock(6 + 2*D)
		s.close()
	}
	// S4: before hard fork 2: no voting-power rank, no parameter votes
	{
		s := newSess(run, fd, run.Rng.Fork(), 1, "scripted:fork1")
		a := s.addAcct(fixedAddr(8), coins(100000))
		s.h = 2
		s.stake(a, coins(20000))
		s.voteBP(a, [][]byte{peerID(2, fill(0x44))})
		s.voteDAO(a, "BPCOUNT", []string{"5"})
		s.endBlock(2 + D)
		s.unstake(a, coins(10000))
		s.endBlock(3 + 2*D)
		s.close()
	}
	// R3: tallies below 100 aer once the staking minimum has been voted that low (threshold divided by zero before f9db0000)
	{
		s := newSess(run, fd, run.Rng.Fork(), 2, "scripted:tally-below-100-aer")
		a := s.addAcct(fixedAddr(16), coins(20000))
		b := s.addAcct(fixedAddr(17), coins(1))
		s.h = 2
		s.stake(a, coins(10000))
		s.voteDAO(a, "STAKINGMIN", []string{"7"})
		s.endBlock(3)
		s.stake(b, big.NewInt(150))
		s.voteDAO(b, "BPCOUNT", []string{"5"}) // tally 150 aer: hundredth = 1
		s.stake(b, big.NewInt(1))              // within the delay
		s.endBlock(3 + D)
		s.unstake(b, big.NewInt(100)) // leaves 50 aer: the refreshed vote has no hundredth
		s.voteDAO(b, "GASPRICE", []string{"1"})
		s.endBlock(3 + 2*D)
		s.unstake(a, coins(10000))
		s.unstake(b, big.NewInt(43)) // leaves 7 aer
		s.voteDAO(b, "BPCOUNT", []string{"7"})
		if s.dead {
			s.fail("an admitted governance transaction panicked in block execution")
		}
		s.endBlock(4 + 2*D)
		s.close()
	}
	// R5: signed parameter candidates (a winning negative number left memory = -5, state = 5 before 949e5958)
	{
		s := newSess(run, fd, run.Rng.Fork(), 2, "scripted:signed-parameter-candidates")
		a := s.addAcct(fixedAddr(21), coins(20000))
		s.h = 2
		s.stake(a, coins(10000))
		s.voteDAO(a, "GASPRICE", []string{"-5"})
		s.voteDAO(a, "BPCOUNT", []string{"+7"})
		s.voteDAO(a, "STAKINGMIN", []string{"-0"})
		s.voteDAO(a, "NAMEPRICE", []string{"-"})
		s.voteDAO(a, "NAMEPRICE", []string{"-2000000000000000000"})
		s.endBlock(3)
		s.restart()
		s.endBlock(3 + D)
		s.voteDAO(a, "GASPRICE", []string{"5"}) // a different candidate string with the same value
		s.endBlock(4 + D)
		s.close()
	}
	// R6: a negative candidate beyond the cap (regression: it passed validateById before b0b4c2db; BPCOUNT = 10^21 made
	// system.GetRankers panic, which every observation of this harness calls)
	{
		s := newSess(run, fd, run.Rng.Fork(), 2, "scripted:negative-beyond-cap")
		a := s.addAcct(fixedAddr(22), coins(20000))
		s.h = 2
		s.stake(a, coins(10000))
		s.voteDAO(a, "BPCOUNT", []string{"-1000000000000000000000"})
		s.voteDAO(a, "BPCOUNT", []string{"-101"})
		s.voteDAO(a, "BPCOUNT", []string{"-100"})
		s.voteDAO(a, "STAKINGMIN", []string{"-500000000000000000000000001"})
		s.voteDAO(a, "STAKINGMIN", []string{"-500000000000000000000000000"})
		s.endBlock(3)
		s.close()
	}
	// K1: two candidates equal from byte 7 on with equal tallies (DESIGN lead 4)
	{
		s := newSess(run, fd, run.Rng.Fork(), 2, "scripted:tie")
		a := s.addAcct(fixedAddr(9), coins(20000))
		b := s.addAcct(fixedAddr(10), coins(20000))
		s.h = 2
		s.stake(a, coins(10000))
		s.stake(b, coins(10000))
		s.voteBP(a, [][]byte{peerID(2, fill(0x55))})
		s.voteBP(b, [][]byte{peerID(3, fill(0x55))})
		s.endBlock(3)
		s.close()
	}
	// K2: the ordered member tree of the live rank after a voter's power changed (new finding)
	{
		s := newSess(run, fd, run.Rng.Fork(), 2, "scripted:members")
		a := s.addAcct(fixedAddr(11), coins(100000))
		b := s.addAcct(fixedAddr(12), coins(100000))
		c := s.addAcct(fixedAddr(13), coins(100000))
		c1 := peerID(2, fill(0x66))
		s.h = 2
		s.stake(a, coins(30000))
		s.stake(b, coins(20000))
		s.stake(c, coins(10000))
		s.voteBP(a, [][]byte{c1})
		s.voteBP(b, [][]byte{c1})
		s.voteBP(c, [][]byte{c1})
		s.endBlock(2 + D)
		s.stake(c, coins(50000))
		s.endBlock(2 + 2*D)
		s.voteBP(c, [][]byte{c1})
		s.endBlock(3 + 2*D)
		s.close()
	}
	// K3: a plain transfer to the staking account (new finding)
	{
		s := newSess(run, fd, run.Rng.Fork(), 2, "scripted:transfer-to-system")
		a := s.addAcct(fixedAddr(14), coins(20000))
		s.h = 2
		s.stake(a, coins(10000))
		s.transfer(a, sysAddr, coins(7))
		s.endBlock(3)
		s.close()
	}
	// K4: a candidate that is a valid 38-byte (ed25519) peer id (DESIGN lead 4b)
	{
		s := newSess(run, fd, run.Rng.Fork(), 2, "scripted:candidate-38-bytes")
		a := s.addAcct(fixedAddr(15), coins(20000))
		s.h = 2
		s.stake(a, coins(10000))
		ed := append([]byte{0, 0x24, 8, 1, 0x12, 0x20}, fill(0x77)...)
		if err := types.ValidateSystemTx(&types.TxBody{Payload: []byte(`{"Name":"v1voteBP","Args":["` + base58.Encode(ed) + `"]}`)}); err != nil {
			run.Count("k4:not-admitted")
		} else {
			run.Count("k4:admitted")
		}
		s.voteBP(a, [][]byte{ed})
		s.close()
	}
}

// ---------------------------------------------------------------- pure operations: Less, sort, codecs

func pureOps(run *vh.Run) {
	rng := run.Rng.Fork()
	n := run.Pick(400, 4000)
	bpCand := func() []byte {
		switch rng.Intn(5) {
		case 0:
			return peerID(2, fill(byte(rng.Intn(3))))
		case 1:
			return peerID(3, fill(byte(rng.Intn(3))))
		case 2: // leading zero bytes after index 7
			x := fill(0)
			x[31] = byte(rng.Intn(3))
			x[20+rng.Intn(11)] = byte(rng.Intn(2))
			return peerID(2+byte(rng.Intn(2)), x)
		default:
			return peerID(2+byte(rng.Intn(2)), rng.Bytes(32))
		}
	}
	daoCand := func() []byte {
		switch rng.Intn(4) {
		case 0: // same digits with a leading zero
			return []byte("0" + fmt.Sprint(rng.Intn(20)))
		case 1: // leading zero *bytes*: equal as integers
			return append(make([]byte, rng.Intn(3)), byte(1+rng.Intn(3)))
		case 2:
			return rng.Bytes(7 + rng.Intn(40))
		default:
			return []byte(fmt.Sprint(rng.Intn(200)))
		}
	}
	var fam int
	mkCand := func() []byte {
		switch {
		case fam < 6:
			return bpCand()
		case fam < 9:
			return daoCand()
		case rng.Bool():
			return bpCand()
		default:
			return daoCand()
		}
	}
	mkAmt := func() *big.Int { return coins(int64(10000 * rng.Intn(4))) }
	for i := 0; i < n; i++ {
		fam = rng.Intn(10)
		a, b := entry{mkCand(), mkAmt()}, entry{mkCand(), mkAmt()}
		if rng.Chance(2, 3) {
			b.amt = a.amt
		}
		var ab, ba bool
		_, p := vh.Guard(func() string { ab = realLess(a, b); ba = realLess(b, a); return "" })
		out := fmt.Sprintf("%d %d", b01(ab), b01(ba))
		if p {
			out = "panic"
		}
		run.Op(fmt.Sprintf("less %s %s %s %s", hx(a.cand), a.amt, hx(b.cand), b.amt), out, true)
		run.Count("less:" + out)
	}
	// a candidate shorter than 7 bytes on the right of a 39-byte one with equal amount: Candidate[7:] panicked
	{
		// (regression: repaired by 3f9132cd; a 39-character parameter candidate tied with a short one)
		for _, pr := range [][2]entry{{{peerID(2, fill(1)), coins(1)}, {[]byte("13"), coins(1)}},
			{{[]byte("000000000000000000000000000000000000005"), coins(2)}, {[]byte("3"), coins(2)}}} {
			a, b := pr[0], pr[1]
			var ab, ba bool
			_, p := vh.Guard(func() string { ab = realLess(a, b); ba = realLess(b, a); return "" })
			out := fmt.Sprintf("%d %d", b01(ab), b01(ba))
			if p {
				out = "panic"
				run.Fail("VoteList.Less panics", map[string]interface{}{"a": hx(a.cand), "b": hx(b.cand)})
			}
			run.Op(fmt.Sprintf("less %s %s %s %s", hx(a.cand), a.amt, hx(b.cand), b.amt), out, true)
		}
	}
	for i := 0; i < n/4; i++ {
		k := 1 + rng.Intn(7)
		var es []entry
		seen := map[string]bool{}
		for j := 0; j < k; j++ {
			var c []byte
			if rng.Chance(1, 2) {
				c = peerID(2+byte(rng.Intn(2)), fill(byte(rng.Intn(4))))
			} else {
				c = peerID(2+byte(rng.Intn(2)), rng.Bytes(32))
			}
			if seen[string(c)] {
				continue
			}
			seen[string(c)] = true
			es = append(es, entry{c, coins(int64(10000 * rng.Intn(3)))})
		}
		vl := types.VoteList{}
		var xs []string
		for _, e := range es {
			vl.Votes = append(vl.Votes, &types.Vote{Candidate: e.cand, Amount: e.amt.Bytes()})
			xs = append(xs, hx(e.cand)+":"+e.amt.String())
		}
		rng2 := rng.Fork()
		for j := len(vl.Votes) - 1; j > 0; j-- { // the slice comes from a map: any order
			q := rng2.Intn(j + 1)
			vl.Votes[j], vl.Votes[q] = vl.Votes[q], vl.Votes[j]
		}
		sort.Sort(sort.Reverse(vl))
		var got []entry
		for _, v := range vl.Votes {
			got = append(got, entry{v.Candidate, new(big.Int).SetBytes(v.Amount)})
		}
		run.Op("rank "+joinC(xs), showRank(got), true)
		run.Count("rank")
	}
	// codecs
	for i := 0; i < n/2; i++ {
		amt := coins(int64(rng.Intn(100000))).Bytes()
		if rng.Chance(1, 6) {
			amt = nil
		}
		switch rng.Intn(7) {
		case 0:
			w := rng.Next() >> uint(rng.Intn(64))
			d := system.VerifC15SerializeStaking(&types.Staking{Amount: amt, When: w})
			r := system.VerifC15DeserializeStaking(d)
			run.Op(fmt.Sprintf("codec staking %d %s", w, hx(amt)), fmt.Sprintf("%s -> %d %s", hx(d), r.When, hx(r.Amount)), true)
			if r.When != w || !bytes.Equal(r.Amount, amt) {
				run.Fail("staking record does not round-trip", map[string]interface{}{"when": w, "amount": hx(amt)})
			}
		case 1:
			k := rng.Intn(4)
			var c []byte
			for j := 0; j < k; j++ {
				c = append(c, peerID(2, rng.Bytes(32))...)
			}
			if rng.Chance(1, 5) { // not a multiple of 39: the framing breaks (reported by the sessions, here only corresponded)
				c = append(c, rng.Bytes(1+rng.Intn(38))...)
			}
			d := system.VerifC15SerializeVote(&types.Vote{Candidate: c, Amount: amt})
			r := system.VerifC15DeserializeVote(d)
			run.Op(fmt.Sprintf("codec vote %s %s", hx(c), hx(amt)), fmt.Sprintf("%s -> %s %s", hx(d), hx(r.Candidate), hx(r.Amount)), true)
			if len(c)%39 == 0 && (!bytes.Equal(r.Candidate, c) || !bytes.Equal(r.Amount, amt)) {
				run.Fail("vote record with 39-byte candidates does not round-trip", map[string]interface{}{"candidate": hx(c), "amount": hx(amt)})
			}
			run.Count(fmt.Sprintf("codec-vote:aligned=%v", len(c)%39 == 0))
		case 2:
			c := []byte(`["` + fmt.Sprint(rng.Intn(1000)) + `"]`)
			if rng.Chance(1, 4) {
				c = rng.Bytes(rng.Intn(50))
			}
			d := system.VerifC15SerializeVoteEx(&types.Vote{Candidate: c, Amount: amt})
			r := system.VerifC15DeserializeVoteEx(d)
			run.Op(fmt.Sprintf("codec voteex %s %s", hx(c), hx(amt)), fmt.Sprintf("%s -> %s %s", hx(d), hx(r.Candidate), hx(r.Amount)), true)
			if !bytes.Equal(r.Candidate, c) || !bytes.Equal(r.Amount, amt) {
				run.Fail("parameter-vote record does not round-trip", map[string]interface{}{"candidate": hx(c), "amount": hx(amt)})
			}
		case 3:
			ex := rng.Bool()
			k := rng.Intn(5)
			vl := &types.VoteList{}
			var xs []string
			for j := 0; j < k; j++ {
				var c []byte
				if ex {
					c = []byte(fmt.Sprint(rng.Intn(1000)))
				} else {
					c = peerID(2, rng.Bytes(32))
				}
				a := coins(int64(rng.Intn(100000))).Bytes()
				vl.Votes = append(vl.Votes, &types.Vote{Candidate: c, Amount: a})
				xs = append(xs, hx(c)+":"+hx(a))
			}
			d := system.VerifC15SerializeVoteList(vl, ex)
			r := system.VerifC15DeserializeVoteList(d, ex)
			var ys []string
			for _, v := range r.Votes {
				ys = append(ys, hx(v.Candidate)+":"+hx(v.Amount))
			}
			l := "-"
			if len(xs) > 0 {
				l = joinC(xs)
			}
			run.Op(fmt.Sprintf("codec votelist %d %s", b01(ex), l), hx(d)+" -> "+joinC(ys), true)
			if joinC(xs) != joinC(ys) {
				run.Fail("vote list does not round-trip", map[string]interface{}{"ex": ex, "list": xs})
			}
		case 4:
			id, addr := rng.Bytes(32), append([]byte{2}, rng.Bytes(32)...)
			if rng.Chance(1, 5) {
				addr = []byte("aergo.x")
			}
			pw := new(big.Int).SetBytes(amt)
			d := system.VerifC15MarshalVP(id, addr, pw)
			r, nn := system.VerifC15UnmarshalVP(d)
			run.Op(fmt.Sprintf("codec vp %s %s %s", hx(id), hx(addr), hx(pw.Bytes())),
				fmt.Sprintf("%s -> %s %s %s %d", hx(d), hx(r.ID), hx(r.Addr), hx(r.Power.Bytes()), nn), true)
			if !bytes.Equal(r.ID, id) || !bytes.Equal(r.Addr, addr) || r.Power.Cmp(pw) != 0 || int(nn) != len(d) {
				run.Fail("voting-power entry does not round-trip", map[string]interface{}{"id": hx(id), "addr": hx(addr), "power": pw.String()})
			}
		case 5:
			k := rng.Intn(4)
			var d []byte
			var xs []string
			for j := 0; j < k; j++ {
				id, addr := rng.Bytes(32), append([]byte{3}, rng.Bytes(32)...)
				pw := coins(int64(1 + rng.Intn(100000)))
				d = append(d, system.VerifC15MarshalVP(id, addr, pw)...)
				xs = append(xs, hx(id)+":"+hx(addr)+":"+hx(pw.Bytes()))
			}
			var ys []string
			for off := 0; off < len(d); {
				r, nn := system.VerifC15UnmarshalVP(d[off:])
				off += int(nn)
				ys = append(ys, hx(r.ID)+":"+hx(r.Addr)+":"+hx(r.Power.Bytes()))
			}
			l := "-"
			if len(xs) > 0 {
				l = joinC(xs)
			}
			run.Op("codec bucket "+l, hx(d)+" -> "+joinC(ys), true)
			if joinC(xs) != joinC(ys) {
				run.Fail("voting-power bucket does not round-trip", map[string]interface{}{"entries": xs})
			}
		case 6:
			o, dst := append([]byte{2}, rng.Bytes(32)...), append([]byte{3}, rng.Bytes(32)...)
			if rng.Chance(1, 4) {
				dst = nmAddr
			}
			if rng.Chance(1, 8) {
				o, dst = nil, nil
			}
			d := name.VerifC15SerializeNameMap(o, dst)
			ro, rd, _ := name.VerifC15DeserializeNameMap(d)
			run.Op(fmt.Sprintf("codec namemap %s %s", hx(o), hx(dst)), fmt.Sprintf("%s -> %s %s", hx(d), hx(ro), hx(rd)), true)
			if !bytes.Equal(ro, o) || !bytes.Equal(rd, dst) {
				run.Fail("name record does not round-trip", map[string]interface{}{"owner": hx(o), "dest": hx(dst)})
			}
		}
		run.Count("codec")
	}
}

func b01(b bool) int {
	if b {
		return 1
	}
	return 0
}

func main() {
	run := vh.Start("c15", "sessions on the real block executor step (chain.executeTx -> Execute{System,Name}Tx / contract.Execute) over a memorydb StateDB: "+
		"scripted delay-boundary, parameter, name and known-finding scenarios, random multi-account sessions with partial unstakes, overlapping re-votes and ties; "+
		"VoteList.Less / sort and the six record codecs on generated values; nontrivial = the operation was executed (result ok) or is a pure comparison/codec case")
	defer run.Finish()
	zerolog.SetGlobalLevel(zerolog.Disabled)
	fee.EnableZeroFee()
	types.InitGovernance("dpos", true)
	fd := &findings{run: run, seen: map[string]bool{}}
	only := os.Getenv("C15_ONLY") // debugging aid: "node" runs the node-level part alone
	if only == "" || only == "node" {
		nodeScripted(run, fd)
		for i := 0; i < run.Pick(10, 120); i++ {
			s := newNSess(run, fd, run.Rng.Fork(), fmt.Sprintf("node-random:%d", i))
			s.randomSession(6 + run.Rng.Intn(run.Pick(8, 14)))
			s.close()
			run.Count("node-sessions")
		}
		if only == "node" {
			return
		}
	}
	scripted(run, fd)
	pureOps(run)
	nsess := run.Pick(60, 700)
	for i := 0; i < nsess; i++ {
		fv := int32(2)
		if i%9 == 8 {
			fv = int32(run.Rng.Intn(2))
		}
		if i%11 == 10 {
			fv = 3
		}
		s := newSess(run, fd, run.Rng.Fork(), fv, fmt.Sprintf("random:%d", i))
		large := i%20 == 19
		steps := 20 + run.Rng.Intn(run.Pick(40, 80))
		if large {
			run.Count("sessions:large")
			if steps > 40 {
				steps = 40
			}
		}
		s.randomSession(steps, i%3 == 0, large)
		s.close()
		run.Count("sessions")
	}
}
