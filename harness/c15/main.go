package main

import (
	"encoding/hex"
	"fmt"
	"math/big"
	"os"

	"github.com/aergoio/aergo-lib/db"
	"github.com/aergoio/aergo/v2/chain"
	"github.com/aergoio/aergo/v2/consensus"
	"github.com/aergoio/aergo/v2/internal/common"
	"github.com/aergoio/aergo/v2/contract/system"
	"github.com/aergoio/aergo/v2/internal/enc/base58"
	"github.com/aergoio/aergo/v2/state"
	"github.com/aergoio/aergo/v2/state/statedb"
	"github.com/aergoio/aergo/v2/types"
	"github.com/aergoio/aergo/v2/zz_verif/vh"
)

var aergo = big.NewInt(1e18)

func coins(n int64) *big.Int { return new(big.Int).Mul(big.NewInt(n), aergo) }

type world struct {
	sdb   *state.ChainStateDB
	bs    *state.BlockState
	addrs [][]byte
}

func newWorld(dir string) *world {
	w := &world{}
	w.sdb = state.NewChainStateDB()
	if err := w.sdb.Init(string(db.MemoryImpl), dir, nil, false, nil); err != nil {
		panic(err)
	}
	g := types.GetTestGenesis()
	if err := w.sdb.SetGenesis(g, nil); err != nil {
		panic(err)
	}
	r := vh.NewRng(7)
	for i := 0; i < 6; i++ {
		a := append([]byte{2 + byte(i&1)}, r.Bytes(32)...)
		w.addrs = append(w.addrs, a)
	}
	w.bs = w.sdb.NewBlockState(w.sdb.GetRoot())
	scs, _ := statedb.GetSystemAccountState(w.bs.StateDB)
	system.InitSystemParams(scs, 3)
	system.InitVotingPowerRank(scs)
	for _, a := range w.addrs {
		as, _ := state.GetAccountState(a, w.bs.StateDB)
		as.AddBalance(coins(1000000))
		as.PutState()
	}
	w.commit()
	return w
}

func (w *world) commit() {
	if err := w.bs.Update(); err != nil {
		panic(err)
	}
	if err := w.bs.Commit(); err != nil {
		panic(err)
	}
	if err := w.sdb.UpdateRoot(w.bs); err != nil {
		panic(err)
	}
	w.bs = w.sdb.NewBlockState(w.sdb.GetRoot())
}

func (w *world) sys(who int, no uint64, amount *big.Int, payload string) error {
	sender, _ := state.GetAccountState(w.addrs[who], w.bs.StateDB)
	receiver, _ := state.GetAccountState([]byte(types.AergoSystem), w.bs.StateDB)
	scs, err := statedb.OpenContractState(receiver.IDNoPadding(), receiver.State(), w.bs.StateDB)
	if err != nil {
		panic(err)
	}
	tx := &types.TxBody{Account: w.addrs[who], Recipient: []byte(types.AergoSystem), Amount: amount.Bytes(), Payload: []byte(payload), Type: types.TxType_GOVERNANCE}
	bi := &types.BlockHeaderInfo{No: no, ForkVersion: 2}
	var e error
	out, p := vh.Guard(func() string {
		_, e = system.ExecuteSystemTx(scs, tx, sender, receiver, bi)
		return ""
	})
	if p {
		return fmt.Errorf("%s", out)
	}
	if e != nil {
		return e
	}
	statedb.StageContractState(scs, w.bs.StateDB)
	sender.PutState()
	receiver.PutState()
	return nil
}

func cand(par byte, x byte) []byte {
	b := []byte{0, 0x25, 8, 2, 0x12, 0x21, par}
	for i := 0; i < 32; i++ {
		b = append(b, x)
	}
	return b
}

func (w *world) dump(tag string) {
	scs, _ := statedb.GetSystemAccountState(w.bs.StateDB)
	mem := system.VerifC15VprMemory()
	ld, _ := system.VerifC15VprLoad(scs)
	eq, _ := system.VerifC15VprEquals(scs)
	fmt.Println(tag, "MEM ", mem.String(true))
	fmt.Println(tag, "LOAD", ld.String(true))
	fmt.Println(tag, "equals:", eq)
	vl, err := system.GetVoteResult(scs, []byte("voteBP"), 100)
	if err == nil {
		for _, v := range vl.Votes {
			fmt.Println(tag, "  rank", hex.EncodeToString(v.Candidate), new(big.Int).SetBytes(v.Amount))
		}
	}
	tot, _ := system.GetStakingTotal(scs)
	sa, _ := state.GetAccountState([]byte(types.AergoSystem), w.bs.StateDB)
	fmt.Println(tag, "total", tot, "sysbal", sa.Balance())
}

type stubCcc struct{}

func (stubCcc) MakeConfChangeProposal(req *types.MembershipChange) (*consensus.ConfChangePropose, error) {
	return nil, consensus.ErrorMembershipChangeSkip
}

func (w *world) transferToSystem() {
	g := types.GetTestGenesis()
	cid, _ := g.ID.Bytes()
	fv := int32(2)
	bi := &types.BlockHeaderInfo{No: 500000, ForkVersion: fv, ChainId: types.MakeChainId(cid, fv)}
	tx := &types.Tx{Body: &types.TxBody{Account: w.addrs[4], Recipient: []byte(types.AergoSystem), Amount: coins(7).Bytes(), Nonce: 1,
		Type: types.TxType_TRANSFER, ChainIdHash: common.Hasher(types.MakeChainId(cid, fv)), GasLimit: 0}}
	tx.Hash = tx.CalculateTxHash()
	txe := types.NewTransaction(tx)
	fmt.Println("types.Validate:", txe.Validate(bi.ChainIdHash(), true))
	w.bs.SetGasPrice(system.GetGasPrice())
	snap := w.bs.Snapshot()
	err := chain.VerifC15ExecuteTx(stubCcc{}, w.bs, txe, bi)
	fmt.Println("executeTx TRANSFER to aergo.system:", err)
	if err != nil {
		w.bs.Rollback(snap)
	}
	rs := w.bs.Receipts().Get()
	for _, r := range rs {
		fmt.Println("receipt", r.Status, r.Ret)
	}
	w.commit()
	w.dump("C1")
}

func main() {
	dir := os.Args[1]
	w := newWorld(dir)
	c1 := base58.Encode(cand(2, 0x11))
	c2 := base58.Encode(cand(3, 0x22))
	fmt.Println("--- A: members tree stale key")
	fmt.Println(w.sys(0, 1, coins(30000), `{"Name":"v1stake"}`))
	fmt.Println(w.sys(1, 1, coins(20000), `{"Name":"v1stake"}`))
	fmt.Println(w.sys(2, 1, coins(10000), `{"Name":"v1stake"}`))
	fmt.Println(w.sys(0, 2, big.NewInt(0), `{"Name":"v1voteBP","Args":["`+c1+`"]}`))
	fmt.Println(w.sys(1, 2, big.NewInt(0), `{"Name":"v1voteBP","Args":["`+c1+`","`+c2+`"]}`))
	fmt.Println(w.sys(2, 2, big.NewInt(0), `{"Name":"v1voteBP","Args":["`+c2+`"]}`))
	w.commit()
	w.dump("A1")
	no := uint64(system.StakingDelay + 10)
	fmt.Println(w.sys(2, no, coins(50000), `{"Name":"v1stake"}`))
	fmt.Println(w.sys(2, no+system.VotingDelay, big.NewInt(0), `{"Name":"v1voteBP","Args":["`+c2+`"]}`))
	w.commit()
	w.dump("A2")
	fmt.Println(w.sys(1, no+system.VotingDelay, coins(20000), `{"Name":"v1unstake"}`))
	w.commit()
	w.dump("A3")

	fmt.Println("--- B: 38-byte candidate")
	ed := append([]byte{0, 0x24, 8, 1, 0x12, 0x20}, make([]byte, 32)...)
	for i := 6; i < 38; i++ {
		ed[i] = 0x77
	}
	_, err := types.IDFromBytes(ed)
	fmt.Println("IDFromBytes(ed25519 38 bytes):", err)
	txb := &types.TxBody{Payload: []byte(`{"Name":"v1voteBP","Args":["` + base58.Encode(ed) + `"]}`)}
	fmt.Println("types.ValidateSystemTx:", types.ValidateSystemTx(txb))
	fmt.Println(w.sys(3, no, coins(10000), `{"Name":"v1stake"}`))
	fmt.Println("vote38:", w.sys(3, no+1, big.NewInt(0), `{"Name":"v1voteBP","Args":["`+base58.Encode(ed)+`"]}`))
	w.commit()
	w.dump("B1")
	scs, _ := statedb.GetSystemAccountState(w.bs.StateDB)
	out, p := vh.Guard(func() string {
		v, err := system.GetVote(scs, w.addrs[3], []byte("voteBP"))
		return fmt.Sprint(hex.EncodeToString(v.Candidate), " ", new(big.Int).SetBytes(v.Amount), " ", err)
	})
	fmt.Println("stored vote of 3:", out, p)
	st, _ := system.GetStaking(scs, w.addrs[3])
	fmt.Println("stake of 3:", st.GetAmountBigInt())
	fmt.Println("revote38:", w.sys(3, no+1+system.VotingDelay, big.NewInt(0), `{"Name":"v1voteBP","Args":["`+c1+`"]}`))
	w.commit()
	w.dump("B2")
	fmt.Println("--- C: plain transfer to aergo.system")
	w.transferToSystem()
}
