// Node-level part of harness c15: a REAL chain.ChainService (memorydb stores) with the REAL DPoS consensus object
// (dpos.New: Status, BP cluster/snapshots, block factory, voting reward) on a DPoS genesis with three genesis
// producers. Blocks are produced by the real BlockFactory.generateBlock (GatherTXs under the chain lock on
// transactions handed out by a stub mempool component) and connected by the real ChainService.addBlock: as the
// node's own block (with its block state), as a block from the network (executed again), as a block that fails,
// as an own block that has become stale, and as a side branch that triggers the real reorganisation.
// After every block event the in-memory voting-power rank and the in-memory system parameters of the node are
// compared with what the real loaders rebuild from the state of the node's best block.
package main

import (
	"bytes"
	"fmt"
	"math/big"
	"os"
	"path/filepath"
	"sort"
	"strings"
	"time"

	"github.com/aergoio/aergo-actor/actor"
	"github.com/aergoio/aergo-lib/log"
	"github.com/aergoio/aergo/v2/account/key"
	crypto "github.com/aergoio/aergo/v2/account/key/crypto"
	"github.com/aergoio/aergo/v2/chain"
	"github.com/aergoio/aergo/v2/config"
	"github.com/aergoio/aergo/v2/consensus"
	"github.com/aergoio/aergo/v2/consensus/impl/dpos"
	"github.com/aergoio/aergo/v2/consensus/impl/dpos/bp"
	"github.com/aergoio/aergo/v2/consensus/impl/dpos/slot"
	"github.com/aergoio/aergo/v2/contract/system"
	"github.com/aergoio/aergo/v2/internal/enc/proto"
	"github.com/aergoio/aergo/v2/p2p/p2pkey"
	"github.com/aergoio/aergo/v2/p2p/p2putil"
	"github.com/aergoio/aergo/v2/pkg/component"
	"github.com/aergoio/aergo/v2/state"
	"github.com/aergoio/aergo/v2/state/statedb"
	"github.com/aergoio/aergo/v2/types"
	"github.com/aergoio/aergo/v2/types/message"
	"github.com/aergoio/aergo/v2/zz_verif/vh"
	"github.com/btcsuite/btcd/btcec/v2"
	lcrypto "github.com/libp2p/go-libp2p/core/crypto"
)

// ---------------------------------------------------------------- stub components (mempool hands out the queued txs)

type stubComp struct {
	name string
	hub  *component.ComponentHub
	txs  func() []types.Transaction
}

func (r *stubComp) GetName() string                          { return r.name }
func (r *stubComp) Start()                                   {}
func (r *stubComp) Stop()                                    {}
func (r *stubComp) Status() component.Status                 { return component.StartedStatus }
func (r *stubComp) SetHub(hub *component.ComponentHub)       { r.hub = hub }
func (r *stubComp) Hub() *component.ComponentHub             { return r.hub }
func (r *stubComp) MsgQueueLen() int32                       { return 0 }
func (r *stubComp) Receive(actor.Context)                    {}
func (r *stubComp) Tell(m interface{})                       {}
func (r *stubComp) Request(m interface{}, sender *actor.PID) {}
func (r *stubComp) RequestFuture(m interface{}, timeout time.Duration, tip string) *actor.Future {
	f := actor.NewFuturePrefix("verif", timeout)
	if _, ok := m.(*message.MemPoolGet); ok && r.txs != nil {
		f.PID().Tell(&message.MemPoolGetRsp{Txs: r.txs()})
		return f
	}
	f.PID().Tell(component.ErrHubUnregistered)
	return f
}

// ---------------------------------------------------------------- node

type cnode struct {
	run    *vh.Run
	dir    string
	cs     *chain.ChainService
	cons   consensus.Consensus
	keys   []*btcec.PrivateKey
	addrs  [][]byte
	queue  []types.Transaction // what the stub mempool hands to the block factory
	ts     int64               // time of the last produced block (ns)
	lpb    types.BlockNo
	chainH []byte
	bpSize uint16
	bpIdx  uint16
	gbps   []string // genesis producers (base58 peer ids)
	cfg    *config.Config
}

var nodeSeq int

const cAccts = 5
const genesisCoins = 100000000

func newCNode(run *vh.Run) *cnode {
	nodeSeq++
	n := &cnode{run: run, dir: filepath.Join(run.Out, "cnode", fmt.Sprint(nodeSeq))}
	os.RemoveAll(n.dir)
	os.MkdirAll(n.dir, 0o755)
	seed := vh.NewRng(77) // fixed keys: the same accounts and producers in every run
	// the node key (block producer identity): a key file read by the real InitNodeInfo
	nodeKey, _ := btcec.PrivKeyFromBytes(seed.Bytes(32))
	if p2pkey.NodeSID() == "" {
		kf := filepath.Join(run.Out, "cnode", "node.key")
		raw, err := lcrypto.MarshalPrivateKey(p2putil.ConvertPKToLibP2P(nodeKey))
		if err != nil {
			panic(err)
		}
		if err := os.WriteFile(kf, raw, 0o600); err != nil {
			panic(err)
		}
		p2pkey.InitNodeInfo(&config.BaseConfig{}, &config.P2PConfig{NPKey: kf}, "v2.0.0", log.NewLogger("c15"))
	}
	bal := map[string]string{}
	for i := 0; i < cAccts; i++ {
		k, _ := btcec.PrivKeyFromBytes(seed.Bytes(32))
		n.keys = append(n.keys, k)
		a := crypto.GenerateAddress(k.PubKey().ToECDSA())
		n.addrs = append(n.addrs, a)
		// (chain.initChainParams sets types.MaxAER to the total genesis balance of a private chain: 5 x 10^8 aergo keeps it
		// at the default 500,000,000 aergo, the bound of the parameter votes, for the whole process)
		bal[types.EncodeAddress(a)] = coins(genesisCoins).String()
	}
	// two more genesis producers that never produce: the last irreversible block stays at genesis, so every
	// reorganisation of the scenarios is permitted by the real Status.NeedReorganization
	bps := []string{p2pkey.NodeSID()}
	for i := 0; i < 2; i++ {
		k, _ := btcec.PrivKeyFromBytes(seed.Bytes(32))
		pid, _ := types.IDFromPublicKey(p2putil.ConvertPKToLibP2P(k).GetPublic())
		bps = append(bps, types.IDB58Encode(pid))
	}
	n.gbps = bps
	g := &types.Genesis{
		ID:        types.ChainID{Version: 0, Magic: "c15.verif", PublicNet: false, MainNet: false, Consensus: "dpos"},
		Timestamp: 1_600_000_000_000_000_000,
		Balance:   bal,
		BPs:       bps,
	}
	core, err := chain.NewCore("memorydb", n.dir, false, 0, &config.DBConfig{})
	if err != nil {
		panic(err)
	}
	if err := core.InitGenesisBlock(g, false); err != nil {
		panic(err)
	}
	core.Close()
	cfg := config.NewServerContext("", "").GetDefaultConfig().(*config.Config)
	cfg.DbType = "memorydb"
	cfg.DataDir = n.dir
	cfg.Blockchain.NumWorkers = 1
	cfg.Blockchain.VerifierCount = 2
	cfg.Hardfork = config.AllEnabledHardforkConfig
	n.cfg = cfg
	n.open()
	return n
}

// open starts the chain service and the consensus object on the node's data directory (first start and restart).
func (n *cnode) open() {
	cfg := n.cfg
	var err error
	n.cs = chain.NewChainService(cfg)
	hub := component.NewComponentHub()
	for _, nm := range []string{message.MemPoolSvc, message.RPCSvc, message.P2PSvc, message.SyncerSvc} {
		c := &stubComp{name: nm}
		if nm == message.MemPoolSvc {
			c.txs = func() []types.Transaction { return n.queue }
		}
		hub.Register(c)
	}
	n.cs.SetHub(hub)
	// what consensus/impl.New does for a DPoS chain: the real dpos.New on the chain service's stores
	n.cons, err = dpos.New(cfg, hub, n.cs.CDB(), n.cs.SDB())
	if err != nil {
		panic(err)
	}
	n.cs.SetChainConsensus(n.cons)
	chain.VerifC15SetSkipMempool(n.cs, true)
	gb, _ := n.cs.GetBestBlock()
	if gb.GetHeader().GetTimestamp() > n.ts {
		n.ts = gb.GetHeader().GetTimestamp()
	}
	n.bpSize = uint16(len(n.gbps))
	for i, id := range dpos.VerifC15BPs(n.cons) {
		if id == p2pkey.NodeSID() {
			n.bpIdx = uint16(i)
		}
	}
}

// restart: the process stops (stores closed) and starts again on the same data directory.
func (n *cnode) restart() {
	n.close()
	n.open()
}

func (n *cnode) close() {
	n.cs.BeforeStop() // closes the stores too
}

func (n *cnode) best() *types.Block {
	b, err := n.cs.GetBestBlock()
	if err != nil {
		panic(err)
	}
	return b
}

// nextSlot: the next time after n.ts whose slot belongs to this node's producer index.
func (n *cnode) nextSlot() int64 {
	t := n.ts
	for i := 0; i < 1000; i++ {
		t += int64(consensus.BlockInterval)
		if slot.NewFromUnixNano(t).IsFor(bp.Index(n.bpIdx), n.bpSize) {
			n.ts = t
			return t
		}
	}
	panic("no slot for this producer")
}

func (n *cnode) sysStateAt(root []byte) *statedb.ContractState {
	sdb := n.cs.SDB().OpenNewStateDB(root)
	scs, err := statedb.GetSystemAccountState(sdb)
	if err != nil {
		panic(err)
	}
	return scs
}

func (n *cnode) nonceAt(root []byte, a []byte) uint64 {
	sdb := n.cs.SDB().OpenNewStateDB(root)
	as, err := state.GetAccountState(a, sdb)
	if err != nil {
		panic(err)
	}
	return as.Nonce()
}

// mkTx: a signed transaction of account i.
func (n *cnode) mkTx(i int, nonce uint64, rcpt []byte, amount *big.Int, typ types.TxType, payload string) types.Transaction {
	bi := types.NewBlockHeaderInfoFromPrevBlock(n.best(), n.ts, config.AllEnabledHardforkConfig)
	tx := &types.Tx{Body: &types.TxBody{Account: n.addrs[i], Recipient: rcpt, Amount: amount.Bytes(), Nonce: nonce,
		GasPrice: big.NewInt(0).Bytes(), Type: typ, Payload: []byte(payload), ChainIdHash: bi.ChainIdHash()}}

	if err := key.SignTx(tx, n.keys[i]); err != nil {
		panic(err)
	}
	if b, err := proto.Encode(tx); err == nil {
		t2 := &types.Tx{}
		if proto.Decode(b, t2) == nil {
			tx = t2
		}
	}
	if err := types.NewTransaction(tx).Validate(bi.ChainIdHash(), false); err != nil {
		panic(fmt.Sprintf("generator: transaction not admitted: %v (%s)", err, payload))
	}
	return types.NewTransaction(tx)
}

// produce runs the real block factory on parent with the given transactions. coherent=false: with the node's
// live in-memory governance state (what the node's own block factory does). coherent=true: as another honest
// producer would: the package-level rank and parameters are swapped for ones loaded from the parent's state for
// the duration of the call and swapped back afterwards (the process holds one copy of these globals).
func (n *cnode) produce(parent *types.Block, txs []types.Transaction, coherent bool) (*types.Block, *state.BlockState, error) {
	n.queue = txs
	defer func() { n.queue = nil }()
	var h *system.VerifC15Globals
	if coherent {
		h = system.VerifC15SwapInFresh(n.sysStateAt(parent.GetHeader().GetBlocksRootHash()))
		defer system.VerifC15SwapBack(h)
	}
	lpb := n.lpb
	if coherent {
		// another producer: its previous block is not known here; "confirms 1" (its last block was the parent)
		lpb = parent.BlockNo()
	}
	blk, bs, err := dpos.VerifC15Generate(n.cons, parent, n.nextSlot(), lpb)
	if err != nil {
		return nil, nil, err
	}
	if coherent {
		// the other producer has the resulting state: its trie nodes are put into the (content-addressed) store so that
		// it can build the next block of its branch; the node's own root pointer is not touched
		if err := bs.Commit(); err != nil {
			panic(err)
		}
	}
	return blk, bs, nil
}

func wire(b *types.Block) *types.Block {
	raw, err := proto.Encode(b)
	if err != nil {
		panic(err)
	}
	out := &types.Block{}
	if err := proto.Decode(raw, out); err != nil {
		panic(err)
	}
	return out
}

func (n *cnode) connectOwn(b *types.Block, bs *state.BlockState) error {
	err := chain.VerifC15AddBlock(n.cs, b, bs, "")
	if err == nil {
		n.lpb = b.BlockNo()
	}
	return err
}

func (n *cnode) receive(b *types.Block) error {
	return chain.VerifC15AddBlock(n.cs, wire(b), nil, "peer")
}

// ---------------------------------------------------------------- observation: memory against the best block's state

type memObs struct {
	vprMem, vprLoad string
	parMem, parLoad string
	next            string
}

func (n *cnode) observe() memObs {
	scs := n.sysStateAt(n.best().GetHeader().GetBlocksRootHash())
	ld, err := system.VerifC15VprLoad(scs)
	if err != nil {
		panic(err)
	}
	o := memObs{vprMem: showVpr(system.VerifC15VprMemory(), true), vprLoad: showVpr(ld, true)}
	cur, next := system.VerifC15ParamsMemory()
	o.parMem = showParams(cur)
	o.next = showParams(next)
	o.parLoad = showParams(system.VerifC15ParamsLoad(scs))
	return o
}

func showParams(m map[string]*big.Int) string {
	var xs []string
	for k, v := range m {
		xs = append(xs, k+":"+v.String())
	}
	sort.Strings(xs)
	return strings.Join(xs, ",")
}

func (o memObs) coherent() (bool, string) {
	var bad []string
	if o.vprMem != o.vprLoad {
		bad = append(bad, "voting-power rank in memory "+o.vprMem+" differs from the rank rebuilt from the best block's state "+o.vprLoad)
	}
	if o.parMem != o.parLoad {
		bad = append(bad, "system parameters in memory ["+o.parMem+"] differ from the ones loaded from the best block's state ["+o.parLoad+"]")
	}
	if o.next != "" {
		bad = append(bad, "next-block parameter values are pending at a block boundary: ["+o.next+"]")
	}
	return len(bad) == 0, strings.Join(bad, "; ")
}

var _ = bytes.Equal
