package main

// Node-level sessions (see node.go): block events on a real chain service with the real DPoS consensus object.
//
// op lines (model: lean/Aergo/Model/GovNode.lean, driver lean/Drv/C15.lean):
//   nnew <forkVersion> <genesis producer ids, hex, comma separated>
//   acct <addr> <accountId> <balance>                    (as in tx-level sessions)
//   ev own <tx ; tx ; ..|->          the node's block factory gathers these candidates on its best block and the block is connected
//   ev stale <tx ; ..|->             ... gathers them, but the block is never connected (it has become stale)
//   ev net <tx ; ..|->               a valid block of another producer on the best block is received
//   ev netfail <tx ; ..|->           a block of another producer whose header claims a wrong state root is received
//   ev reorg <k> <failAt|-> <blk / blk / ..>   a side branch rooted k blocks below the parent of the best block arrives; the last
//                                    block triggers the reorganisation; failAt = index of the side block whose execution failed
//   ev restart                       the process is stopped and started again on its data directory
// a tx is one of the transaction op lines of the tx-level sessions (stake, unstake, votebp, votedao, transfer, namecreate,
// nameupdate). answer: `<bits|ok|fail> | <canonical governance state: storage of the best block + the process memory>`.

import (
	"bytes"
	"fmt"
	"math/big"
	"strings"

	"github.com/aergoio/aergo/v2/chain"
	"github.com/aergoio/aergo/v2/consensus/impl/dpos"
	"github.com/aergoio/aergo/v2/contract/name"
	"github.com/aergoio/aergo/v2/contract/system"
	"github.com/aergoio/aergo/v2/internal/enc/base58"
	"github.com/aergoio/aergo/v2/p2p/p2pkey"
	"github.com/aergoio/aergo/v2/state"
	"github.com/aergoio/aergo/v2/types"
	"github.com/aergoio/aergo/v2/zz_verif/vh"
)

// Known finding found at node level (known_findings.json): the block factory executes on the process-wide rank and
// parameter table; when its block is not connected nothing is reloaded. Exactly this mechanism and its consequences until
// the next reload are reported under the class; every other divergence of memory and state is a plain failure.
// (Three more defects found here were repaired in /repo: reorganisation under the old branch's parameters and activation
// of a failed block's parameter vote, 01aa461f; division by zero in threshold, f9db0000. They are plain oracles now.)
const dStale = "C15-stale-own-block-leaves-memory-dirty"

func (f *findings) defect(class, what string, replay interface{}) { f.known(class, what, replay) }

type ntx struct {
	acct int
	op   string
	mk   func(nonce uint64) types.Transaction
}

type nsess struct {
	run    *vh.Run
	fd     *findings
	rng    *vh.Rng
	n      *cnode
	v      *sess          // viewer: canonical printing and the clause oracles on the state of the best block
	main   []*types.Block // the node's main chain as the harness knows it, genesis first
	ended  bool
	cands  [][]byte
	nnames []string
}

const nodeHow = "op lines of harness/c15 node sessions (harness/c15/nodesess.go): block events on a real chain.ChainService with the real dpos consensus object (three genesis producers, five funded accounts)"

func newNSess(run *vh.Run, fd *findings, rng *vh.Rng, label string) *nsess {
	s := &nsess{run: run, fd: fd, rng: rng, n: newCNode(run)}
	s.v = &sess{run: run, fd: fd, rng: rng, fv: 5, label: label, lastAct: map[string]uint64{}, how: nodeHow}
	s.main = []*types.Block{s.n.best()}
	var gb []string
	for _, id := range s.n.gbps {
		b, err := base58.Decode(id)
		if err != nil {
			panic(err)
		}
		gb = append(gb, hx(b))
		s.cands = append(s.cands, b)
	}
	s.point()
	s.emit("nnew 5 "+joinC(gb), "ok", false)
	for _, a := range s.n.addrs {
		ac := &acct{addr: a, id: types.ToAccountID(a)}
		s.v.accts = append(s.v.accts, ac)
		s.emit(fmt.Sprintf("acct %s %s %s", hx(a), hx(ac.id[:]), coins(genesisCoins)), "ok", false)
	}
	return s
}

func (s *nsess) close() { s.n.close() }

// point: the viewer reads the state of the node's best block.
func (s *nsess) point() {
	root := s.n.best().GetHeader().GetBlocksRootHash()
	s.v.bs = s.n.cs.SDB().NewBlockState(root)
	s.v.h = s.n.best().BlockNo() + 1
}

func (s *nsess) emit(op, res string, nontrivial bool) {
	s.v.ops = append(s.v.ops, op)
	s.point()
	if msg, p := vh.Guard(func() string { s.v.view = s.v.look(); return "" }); p {
		s.v.fail("the governance state after " + op + " cannot be read back: " + msg)
		s.ended = true
		s.run.Op(op, res+" | unreadable", nontrivial)
		return
	}
	s.run.Op(op, res+" | "+s.v.show(s.v.view), nontrivial)
}

func (s *nsess) best() *types.Block { return s.n.best() }

// ---------------------------------------------------------------- transactions

func (s *nsess) txStake(i int, h uint64, amt *big.Int) ntx {
	a := s.n.addrs[i]
	return ntx{i, fmt.Sprintf("stake %s %d %s", hx(a), h, amt), func(nn uint64) types.Transaction {
		return s.n.mkTx(i, nn, sysAddr, amt, types.TxType_GOVERNANCE, `{"Name":"v1stake"}`)
	}}
}

func (s *nsess) txUnstake(i int, h uint64, amt *big.Int) ntx {
	a := s.n.addrs[i]
	return ntx{i, fmt.Sprintf("unstake %s %d %s", hx(a), h, amt), func(nn uint64) types.Transaction {
		return s.n.mkTx(i, nn, sysAddr, amt, types.TxType_GOVERNANCE, `{"Name":"v1unstake"}`)
	}}
}

func (s *nsess) txVoteBP(i int, h uint64, cands [][]byte) ntx {
	a := s.n.addrs[i]
	var enc, hs []string
	for _, c := range cands {
		enc = append(enc, `"`+base58.Encode(c)+`"`)
		hs = append(hs, hx(c))
	}
	cs := "-"
	if len(hs) > 0 {
		cs = joinC(hs)
	}
	return ntx{i, fmt.Sprintf("votebp %s %d %s", hx(a), h, cs), func(nn uint64) types.Transaction {
		return s.n.mkTx(i, nn, sysAddr, new(big.Int), types.TxType_GOVERNANCE, `{"Name":"v1voteBP","Args":[`+joinC(enc)+`]}`)
	}}
}

func (s *nsess) txVoteDAO(i int, h uint64, id string, arg string) ntx {
	a := s.n.addrs[i]
	return ntx{i, fmt.Sprintf("votedao %s %d %s %s", hx(a), h, id, hx([]byte(arg))), func(nn uint64) types.Transaction {
		return s.n.mkTx(i, nn, sysAddr, new(big.Int), types.TxType_GOVERNANCE, `{"Name":"v1voteDAO","Args":["`+id+`","`+arg+`"]}`)
	}}
}

func (s *nsess) txTransfer(i int, to []byte, amt *big.Int) ntx {
	a := s.n.addrs[i]
	return ntx{i, fmt.Sprintf("transfer %s %s %s", hx(a), hx(to), amt), func(nn uint64) types.Transaction {
		return s.n.mkTx(i, nn, to, amt, types.TxType_TRANSFER, "")
	}}
}

func (s *nsess) txNameCreate(i int, nm string, amt *big.Int) ntx {
	a := s.n.addrs[i]
	s.v.useName(nm)
	return ntx{i, fmt.Sprintf("namecreate %s %s %s", hx(a), hx([]byte(nm)), amt), func(nn uint64) types.Transaction {
		return s.n.mkTx(i, nn, nmAddr, amt, types.TxType_GOVERNANCE, `{"Name":"v1createName","Args":["`+nm+`"]}`)
	}}
}

func (s *nsess) txNameUpdate(i int, nm string, to int, amt *big.Int) ntx {
	a := s.n.addrs[i]
	s.v.useName(nm)
	return ntx{i, fmt.Sprintf("nameupdate %s %s %s %s %s", hx(a), hx(a), hx([]byte(nm)), hx(s.n.addrs[to]), amt), func(nn uint64) types.Transaction {
		return s.n.mkTx(i, nn, nmAddr, amt, types.TxType_GOVERNANCE, `{"Name":"v1updateName","Args":["`+nm+`","`+types.EncodeAddress(s.n.addrs[to])+`"]}`)
	}}
}

// build: the candidates as signed transactions with consecutive nonces per account on top of the parent's state.
func (s *nsess) build(parent *types.Block, txs []ntx) []types.Transaction {
	root := parent.GetHeader().GetBlocksRootHash()
	next := map[int]uint64{}
	var out []types.Transaction
	for _, t := range txs {
		if _, ok := next[t.acct]; !ok {
			next[t.acct] = s.n.nonceAt(root, s.n.addrs[t.acct]) + 1
		}
		out = append(out, t.mk(next[t.acct]))
		next[t.acct]++
	}
	return out
}

func opsOf(txs []ntx) string {
	if len(txs) == 0 {
		return "-"
	}
	var xs []string
	for _, t := range txs {
		xs = append(xs, t.op)
	}
	return strings.Join(xs, " ; ")
}

// included: which candidates the produced block carries.
func included(b *types.Block, cand []types.Transaction) ([]bool, string) {
	in := map[string]bool{}
	for _, t := range b.GetBody().GetTxs() {
		in[string(t.GetHash())] = true
	}
	var out []bool
	bits := ""
	for _, c := range cand {
		ok := in[string(c.GetHash())]
		out = append(out, ok)
		if ok {
			bits += "1"
		} else {
			bits += "0"
		}
	}
	if bits == "" {
		bits = "-"
	}
	return out, bits
}

func keep(txs []ntx, in []bool) []ntx {
	var out []ntx
	for i, t := range txs {
		if in[i] {
			out = append(out, t)
		}
	}
	return out
}

// ---------------------------------------------------------------- events

func (s *nsess) fail(what string) { s.v.fail(what) }

// own: the node's block factory produces a block on the best block and the chain service connects it.
func (s *nsess) own(txs []ntx) {
	if s.ended {
		return
	}
	parent := s.best()
	cand := s.build(parent, txs)
	blk, bs, err := s.n.produce(parent, cand, false)
	if err != nil {
		s.factoryFailed("own", txs, err)
		return
	}
	_, bits := included(blk, cand)
	if err := s.n.connectOwn(blk, bs); err != nil {
		s.fail(fmt.Sprintf("the node's own block on its best block was not connected: %v", err))
		s.ended = true
		return
	}
	s.main = append(s.main, blk)
	s.emit("ev own "+opsOf(txs), bits, len(blk.GetBody().GetTxs()) > 0)
	s.run.Count("node-ev:own")
	s.after()
}

// factoryFailed: generateBlock returned an error (a panic inside GatherTXs is recovered there).
func (s *nsess) factoryFailed(kind string, txs []ntx, err error) {
	s.run.Count("node-ev:" + kind + ":factory-error")
	s.v.ops = append(s.v.ops, "ev "+kind+" "+opsOf(txs))
	s.fail(fmt.Sprintf("the block factory failed on admitted transactions: %v; %s", err, s.memoryReport()))
	s.ended = true
}

// stale: the block factory gathers the candidates, then a block of another producer on the same parent is connected first and
// the node's own block is refused as stale (chainhandle.go addBlockInternal: errBlockStale).
func (s *nsess) stale(txs []ntx, other []ntx) {
	if s.ended {
		return
	}
	parent := s.best()
	cand := s.build(parent, txs)
	blk, bs, err := s.n.produce(parent, cand, false)
	if err != nil {
		s.factoryFailed("stale", txs, err)
		return
	}
	in, bits := included(blk, cand)
	touched := false
	for i, t := range txs {
		if in[i] && (strings.HasPrefix(t.op, "vote") || strings.HasPrefix(t.op, "unstake")) {
			touched = true
		}
	}
	if touched {
		s.v.taint = dStale
	}
	s.emit("ev stale "+opsOf(txs), bits, len(blk.GetBody().GetTxs()) > 0)
	s.run.Count("node-ev:stale")
	s.after()
	// the other producer's block arrives and is connected; then the own block is offered
	s.net(other)
	if s.ended {
		return
	}
	if err := s.n.connectOwn(blk, bs); err == nil {
		s.v.taint = ""
		s.fail("the node connected its own block on a parent that is no longer the best block")
		s.ended = true
	}
}

// producedBy: a block of another (coherent) producer on parent carrying those of txs that execute.
func (s *nsess) producedBy(parent *types.Block, txs []ntx) (*types.Block, []ntx) {
	cand := s.build(parent, txs)
	blk, _, err := s.n.produce(parent, cand, true)
	if err != nil {
		s.fail(fmt.Sprintf("a producer with coherent memory failed on admitted transactions: %v", err))
		s.ended = true
		return nil, nil
	}
	in, _ := included(blk, cand)
	return blk, keep(txs, in)
}

func (s *nsess) net(txs []ntx) {
	if s.ended {
		return
	}
	blk, inc := s.producedBy(s.best(), txs)
	if blk == nil {
		return
	}
	if err := s.n.receive(blk); err != nil {
		if s.v.taint == "" {
			s.fail(fmt.Sprintf("a valid block of another producer on the best block was refused: %v", err))
		} else {
			s.fd.defect(s.v.taint, fmt.Sprintf("a valid block of another producer is refused (%v) by the node; %s", err, s.memoryReport()), s.v.replay("ev net "+opsOf(inc)))
			s.run.Count("node-ev:net:refused-after-defect")
		}
		s.ended = true
		return
	}
	s.main = append(s.main, blk)
	s.emit("ev net "+opsOf(inc), "ok", len(inc) > 0)
	s.run.Count("node-ev:net")
	s.after()
}

func resign(b *types.Block) {
	b.Hash = nil
	if err := b.Sign(p2pkey.NodePrivKey()); err != nil {
		panic(err)
	}
}

func (s *nsess) netFail(txs []ntx) {
	if s.ended {
		return
	}
	blk, inc := s.producedBy(s.best(), txs)
	if blk == nil {
		return
	}
	blk.Header.BlocksRootHash = s.rng.Bytes(32)
	resign(blk)
	if err := s.n.receive(blk); err == nil {
		s.fail("a block whose header claims a wrong state root was connected")
		s.ended = true
		return
	}
	s.emit("ev netfail "+opsOf(inc), "fail", len(inc) > 0)
	s.run.Count("node-ev:netfail")
	s.after()
}

// reorg: a side branch on the block k below the parent of the best block, one block longer than the main chain;
// bad >= 0: that side block claims a wrong state root.
func (s *nsess) reorg(k int, blocks [][]ntx, bad int) {
	if s.ended {
		return
	}
	rootIdx := len(s.main) - 2 - k
	if rootIdx < 0 || len(blocks) != k+2 {
		panic("reorg: bad shape")
	}
	parent := s.main[rootIdx]
	if lib := dpos.VerifC15LibNo(s.n.cons); parent.BlockNo() < lib {
		// the branch root is below the last irreversible block: the real node refuses such blocks (by design)
		s.run.Count("node-ev:reorg:skipped-below-lib")
		return
	}
	var side []*types.Block
	var incs [][]ntx
	for _, txs := range blocks {
		blk, inc := s.producedBy(parent, txs)
		if blk == nil {
			return
		}
		side = append(side, blk)
		incs = append(incs, inc)
		parent = blk
	}
	if bad >= 0 {
		side[bad].Header.BlocksRootHash = s.rng.Bytes(32)
		resign(side[bad])
		for j := bad + 1; j < len(side); j++ {
			side[j].Header.PrevBlockHash = side[j-1].BlockHash()
			resign(side[j])
		}
	}
	oldBest := s.best()
	for j, b := range side {
		err := s.n.receive(b)
		if j < len(side)-1 && err != nil {
			s.fail(fmt.Sprintf("a side-branch block was refused before the reorganisation: %v", err))
			s.ended = true
			return
		}
	}
	var bl []string
	for _, inc := range incs {
		bl = append(bl, opsOf(inc))
	}
	res, failAt := "ok", "-"
	if s.best().ID() == side[len(side)-1].ID() {
		if bad >= 0 {
			s.fail("the node reorganised to a branch that contains a block with a wrong state root")
			s.ended = true
			return
		}
		s.main = append(append([]*types.Block{}, s.main[:rootIdx+1]...), side...)
	} else {
		res = "fail"
		if s.best().ID() != oldBest.ID() {
			s.fail("after a failed reorganisation the best block is neither the old nor the new tip")
			s.ended = true
			return
		}
		// which block failed: the first one that carries transactions and has no stored receipts
		first := -1
		for j, b := range side {
			if len(b.GetBody().GetTxs()) > 0 && !chain.VerifC15HasReceipts(s.n.cs, b.BlockHash(), b.BlockNo()) {
				first = j
				break
			}
		}
		if bad < 0 || (first >= 0 && first < bad) {
			// a valid block of the branch failed
			why := fmt.Sprintf("the node refused to reorganise to a longer valid branch (fork point %d blocks below its tip); %s", k+1, s.memoryReport())
			if s.v.taint != "" {
				s.fd.defect(s.v.taint, why, s.v.replay("ev reorg "+strings.Join(bl, " / ")))
			} else {
				s.v.ops = append(s.v.ops, "ev reorg "+strings.Join(bl, " / "))
				s.fail(why)
			}
			s.run.Count("node-ev:reorg:valid-branch-refused")
			s.ended = true
			return
		}
		failAt = fmt.Sprint(bad)
	}
	s.emit(fmt.Sprintf("ev reorg %d %s %s", k, failAt, strings.Join(bl, " / ")), res, true)
	s.run.Count("node-ev:reorg:" + res)
	s.after()
}

func (s *nsess) restart() {
	if s.ended {
		return
	}
	s.n.restart()
	s.v.taint = "" // a restart rebuilds the memory from the state
	s.emit("ev restart", "ok", false)
	s.run.Count("node-ev:restart")
	s.after()
}

// ---------------------------------------------------------------- oracles after every event

func (s *nsess) memoryReport() string {
	_, why := s.n.observe().coherent()
	return why
}

func (s *nsess) after() {
	if s.ended || s.v.view == nil {
		return
	}
	v := s.v.view
	// clause 4 at node level: memory = what the loaders rebuild from the best block's state
	if ok, why := s.n.observe().coherent(); !ok {
		if s.v.taint != "" {
			s.fd.defect(s.v.taint, "at a block boundary: "+why, s.v.replay())
		} else {
			s.v.fail("at a block boundary: " + why)
		}
	} else {
		s.run.Count("node:memory-coherent")
	}
	s.v.inv(v)
	s.queries(v)
	s.rankers(v)
}

// queries: the chain service's query handlers (the property's observation points) against the storage.
func (s *nsess) queries(v *view) {
	cs := s.n.cs
	for _, a := range s.v.accts {
		st, err := chain.VerifC15QueryStaking(cs, a.addr)
		if err != nil {
			s.fail(fmt.Sprintf("staking query failed: %v", err))
			continue
		}
		want := v.stakes[hx(a.addr)]
		if (want == nil) != (st.GetAmount() == nil) || (want != nil && (want.GetAmountBigInt().Cmp(st.GetAmountBigInt()) != 0 || want.GetWhen() != st.GetWhen())) {
			s.fail(fmt.Sprintf("staking query of %x answers %v, the record is %v", a.addr, st, want))
		}
		av, err := chain.VerifC15QueryAccountVote(cs, a.addr)
		if err != nil {
			s.fail(fmt.Sprintf("vote query failed: %v", err))
			continue
		}
		for _, vi := range av.GetVoting() {
			var rec *voteRec
			for i := range v.votes {
				if v.votes[i].issue == vi.GetId() && bytes.Equal(v.votes[i].addr, a.addr) {
					rec = &v.votes[i]
				}
			}
			if rec == nil {
				if vi.GetAmount() != "" || len(vi.GetCandidates()) > 0 {
					s.fail(fmt.Sprintf("vote query of %x reports a vote on %s that is not recorded", a.addr, vi.GetId()))
				}
				continue
			}
			var cs []string
			for _, c := range rec.cands {
				if rec.issue == "voteBP" {
					cs = append(cs, base58.Encode(c))
				} else {
					cs = append(cs, string(c))
				}
			}
			if vi.GetAmount() != rec.amount.String() || strings.Join(vi.GetCandidates(), ",") != strings.Join(cs, ",") {
				s.fail(fmt.Sprintf("vote query of %x on %s answers %s %v, the record is %s %v", a.addr, vi.GetId(), vi.GetAmount(), vi.GetCandidates(), rec.amount, cs))
			}
		}
		s.run.Count("node:query-account")
	}
	for _, nm := range s.v.names {
		ni, err := chain.VerifC15QueryNameInfo(cs, nm, 0)
		if err != nil {
			s.fail(fmt.Sprintf("name query failed: %v", err))
			continue
		}
		r, ok := v.namesI[nm]
		if ok != (len(ni.GetOwner()) > 0) || (ok && (!bytes.Equal(ni.GetOwner(), r[0]) || !bytes.Equal(ni.GetDestination(), r[1]))) {
			s.fail(fmt.Sprintf("name query of %q answers owner %x destination %x, the record is %x", nm, ni.GetOwner(), ni.GetDestination(), r))
		}
		s.run.Count("node:query-name")
	}
}

// rankers: what consensus consumes of the ranking: GetRankers (top GetBpCount()) and the votes query for every length.
func (s *nsess) rankers(v *view) {
	full := v.ranks["voteBP"]
	scs := s.v.sys()
	got, err := system.GetRankers(scs)
	if err != nil {
		s.fail(fmt.Sprintf("GetRankers failed: %v", err))
		return
	}
	n := system.GetBpCount()
	if n > len(full) {
		n = len(full)
	}
	var want []string
	for _, e := range full[:n] {
		want = append(want, base58.Encode(e.cand))
	}
	if strings.Join(got, ",") != strings.Join(want, ",") {
		s.fail(fmt.Sprintf("GetRankers returns %v, the first %d entries of the producer ranking are %v", got, system.GetBpCount(), want))
	}
	for _, k := range []int{1, 2, len(full), len(full) + 1, 0} {
		vl, err := chain.VerifC15QueryVotes(s.n.cs, "voteBP", uint32(k))
		if err != nil {
			s.fail(fmt.Sprintf("votes query failed: %v", err))
			continue
		}
		m := k
		if k == 0 {
			m = system.GetBpCount()
		}
		if m > len(full) {
			m = len(full)
		}
		ok := len(vl.GetVotes()) == m
		for i := 0; ok && i < m; i++ {
			ok = bytes.Equal(vl.Votes[i].Candidate, full[i].cand) && new(big.Int).SetBytes(vl.Votes[i].Amount).Cmp(full[i].amt) == 0
		}
		if !ok {
			s.fail(fmt.Sprintf("votes query for %d entries does not return the first %d entries of the ranking", k, m))
		}
	}
	s.run.Count("node:rankers")
}

var _ = name.VerifC15NameMap
var _ = state.GetAccountState

// ---------------------------------------------------------------- scripted node scenarios and random node sessions

func (s *nsess) h() uint64 { return s.best().BlockNo() + 1 }

// sh: the height of block j of a side branch rooted k blocks below the parent of the best block.
func (s *nsess) sh(k, j int) uint64 { return s.main[len(s.main)-2-k].BlockNo() + 1 + uint64(j) }

func nodeScripted(run *vh.Run, fd *findings) {
	c1 := peerID(2, fill(0x11))
	// N1: blocks that connect, a block that fails after its governance transactions ran, a restart
	{
		s := newNSess(run, fd, run.Rng.Fork(), "node:failed-block")
		s.own([]ntx{s.txStake(0, s.h(), coins(90000)), s.txVoteBP(0, s.h(), [][]byte{c1, s.cands[0]})})
		s.net([]ntx{s.txStake(1, s.h(), coins(20000)), s.txVoteBP(1, s.h(), [][]byte{c1}), s.txNameCreate(2, "name11112222", coins(1))})
		s.netFail([]ntx{s.txStake(2, s.h(), coins(10000)), s.txVoteBP(2, s.h(), [][]byte{s.cands[1]}),
			s.txVoteDAO(0, s.h(), "STAKINGMIN", coins(5000).String()), s.txVoteDAO(1, s.h(), "NAMEPRICE", coins(3).String())})
		s.own([]ntx{s.txVoteDAO(0, s.h(), "NAMEPRICE", coins(2).String()), s.txStake(3, s.h(), coins(9999)), s.txStake(3, s.h(), coins(10000))})
		s.own(nil)
		s.net([]ntx{s.txNameCreate(3, "name33334444", coins(1)), s.txNameCreate(3, "name33334444", coins(2)), s.txNameUpdate(2, "name11112222", 4, coins(2))})
		s.restart()
		s.own([]ntx{s.txUnstake(0, s.h(), coins(1)), s.txVoteBP(0, s.h(), [][]byte{c1})}) // both within the delay
		s.close()
	}
	// N2: reorganisations without a parameter difference: the rank is reloaded from the fork point and rebuilt by the new branch
	{
		s := newNSess(run, fd, run.Rng.Fork(), "node:reorg")
		s.own([]ntx{s.txStake(0, s.h(), coins(90000)), s.txVoteBP(0, s.h(), [][]byte{c1})})
		s.own([]ntx{s.txStake(1, s.h(), coins(20000)), s.txVoteBP(1, s.h(), [][]byte{c1, s.cands[2]})})
		s.reorg(0, [][]ntx{{s.txStake(2, s.sh(0, 0), coins(30000)), s.txVoteBP(2, s.sh(0, 0), [][]byte{s.cands[0]})}, {s.txTransfer(3, s.n.addrs[4], coins(5))}}, -1)
		s.own([]ntx{s.txStake(1, s.h(), coins(20000))})
		s.reorg(1, [][]ntx{nil, {s.txStake(4, s.sh(1, 1), coins(10000)), s.txVoteBP(4, s.sh(1, 1), [][]byte{c1})}, nil}, 1) // the second side block is bad
		s.reorg(1, [][]ntx{{s.txStake(4, s.sh(1, 0), coins(10000))}, {s.txVoteBP(4, s.sh(1, 1), [][]byte{c1})}, nil}, -1)
		s.close()
	}
	// K5: an own block that has become stale (known finding C15-stale-own-block-leaves-memory-dirty)
	{
		s := newNSess(run, fd, run.Rng.Fork(), "node:stale-own-block")
		s.own([]ntx{s.txStake(0, s.h(), coins(90000)), s.txVoteBP(0, s.h(), [][]byte{c1})})
		s.stale([]ntx{s.txStake(1, s.h(), coins(20000)), s.txVoteBP(1, s.h(), [][]byte{c1}), s.txVoteDAO(0, s.h(), "NAMEPRICE", coins(3).String())}, nil)
		s.close()
	}
	// K5b: ... and the next valid block of another producer that touches the same rank bucket is refused
	{
		s := newNSess(run, fd, run.Rng.Fork(), "node:stale-own-block-then-valid-block-refused")
		s.own([]ntx{s.txStake(0, s.h(), coins(90000)), s.txVoteBP(0, s.h(), [][]byte{c1})})
		s.stale([]ntx{s.txStake(1, s.h(), coins(20000)), s.txVoteBP(1, s.h(), [][]byte{c1})}, nil)
		s.net([]ntx{s.txStake(1, s.h(), coins(20000)), s.txVoteBP(1, s.h(), [][]byte{c1})})
		s.close()
	}
	// R2: reorganisation away from a branch that changed a parameter (regression: repaired by 01aa461f)
	{
		s := newNSess(run, fd, run.Rng.Fork(), "node:reorg-across-parameter-change")
		s.own([]ntx{s.txStake(0, s.h(), coins(90000)), s.txVoteDAO(0, s.h(), "NAMEPRICE", coins(3).String())})
		s.own(nil)
		s.reorg(1, [][]ntx{{s.txNameCreate(1, "name11112222", coins(1))}, nil, nil}, -1)
		s.close()
	}
	// R3: a parameter vote with a tally below 100 aer (regression: division by zero in threshold, repaired by f9db0000)
	{
		s := newNSess(run, fd, run.Rng.Fork(), "node:threshold-division-by-zero")
		s.own([]ntx{s.txStake(0, s.h(), coins(10000)), s.txVoteDAO(0, s.h(), "STAKINGMIN", "7")})
		s.own([]ntx{s.txStake(1, s.h(), big.NewInt(50)), s.txVoteDAO(1, s.h(), "BPCOUNT", "3")})
		s.close()
	}
	// R4: a failed reorganisation whose first new block carries a winning parameter vote, old branch one block long
	// (regression: the vote of the failed block was activated, repaired by 01aa461f)
	{
		s := newNSess(run, fd, run.Rng.Fork(), "node:failed-reorg-activates-parameter")
		s.own([]ntx{s.txStake(0, s.h(), coins(90000)), s.txVoteBP(0, s.h(), [][]byte{c1})})
		s.reorg(0, [][]ntx{{s.txStake(1, s.sh(0, 0), coins(20000)), s.txVoteBP(1, s.sh(0, 0), [][]byte{c1}), s.txVoteDAO(1, s.sh(0, 0), "STAKINGMIN", coins(5000).String())}, nil}, 0)
		s.close()
	}
}

func (s *nsess) randomTxs(h uint64) []ntx {
	rng := s.rng
	n := rng.Intn(5)
	var out []ntx
	for j := 0; j < n; j++ {
		i := rng.Intn(cAccts)
		switch rng.Intn(12) {
		case 0, 1, 2:
			amt := coins(int64(10000 * (1 + rng.Intn(5))))
			if rng.Chance(1, 6) {
				amt = coins(9999)
			}
			out = append(out, s.txStake(i, h, amt))
		case 3, 4, 5:
			k := 1 + rng.Intn(3)
			var cs [][]byte
			used := map[int]bool{}
			for len(cs) < k {
				c := rng.Intn(len(s.cands))
				if used[c] {
					break
				}
				used[c] = true
				cs = append(cs, s.cands[c])
			}
			out = append(out, s.txVoteBP(i, h, cs))
		case 6, 7:
			id := daoIDs[rng.Intn(4)]
			var arg string
			switch id {
			case "BPCOUNT":
				arg = fmt.Sprint(1 + rng.Intn(5))
			case "STAKINGMIN":
				arg = coins(int64(1000 * (1 + rng.Intn(20)))).String()
			case "NAMEPRICE":
				arg = coins(int64(1 + rng.Intn(3))).String()
			default:
				arg = fmt.Sprint(1000000000 * (1 + rng.Intn(100)))
			}
			out = append(out, s.txVoteDAO(i, h, id, arg))
		case 8:
			out = append(out, s.txTransfer(i, s.n.addrs[rng.Intn(cAccts)], coins(int64(rng.Intn(50)))))
		case 9:
			out = append(out, s.txNameCreate(i, s.nnames[rng.Intn(len(s.nnames))], coins(int64(1+rng.Intn(3)))))
		case 10:
			out = append(out, s.txNameUpdate(i, s.nnames[rng.Intn(len(s.nnames))], rng.Intn(cAccts), coins(int64(1+rng.Intn(3)))))
		default:
			out = append(out, s.txUnstake(i, h, coins(int64(1+rng.Intn(10000)))))
		}
	}
	return out
}

func (s *nsess) randomSession(steps int) {
	rng := s.rng
	for i := 0; i < 3; i++ {
		s.nnames = append(s.nnames, mkName(rng))
	}
	for i := 0; i < 2+rng.Intn(3); i++ {
		s.cands = append(s.cands, peerID(2+byte(rng.Intn(2)), rng.Bytes(32)))
	}
	for i := 0; i < steps && !s.ended; i++ {
		r := rng.Intn(100)
		switch {
		case r < 40:
			s.own(s.randomTxs(s.h()))
		case r < 65:
			s.net(s.randomTxs(s.h()))
		case r < 75:
			s.netFail(s.randomTxs(s.h()))
		case r < 80:
			s.stale(s.randomTxs(s.h()), s.randomTxs(s.h()))
		case r < 95:
			k := rng.Intn(3)
			if len(s.main)-2-k < 0 {
				s.own(s.randomTxs(s.h()))
				continue
			}
			h0 := s.main[len(s.main)-2-k].BlockNo() + 1
			var blocks [][]ntx
			for j := 0; j < k+2; j++ {
				blocks = append(blocks, s.randomTxs(h0+uint64(j)))
			}
			bad := -1
			if rng.Chance(1, 3) {
				bad = rng.Intn(k + 2)
			}
			s.reorg(k, blocks, bad)
		default:
			s.restart()
		}
	}
}
