package main

// A journaling key/value store for the raft WAL sessions: a db.DB wrapper that records every durable
// write unit in program order
//
//	set / del   a single DB.Set / DB.Delete
//	tx          a committed Transaction (its puts/deletes in the order they were issued)
//	bulk        a flushed Bulk
//
// together with the external events the harness interleaves (messages handed to the transport), so
// that the store content after every *prefix* of the write sequence of an operation can be rebuilt
// and restarted from: a crash between two commits of one operation, not only between operations.
// Discarded transactions/bulks and units without any put/delete leave nothing. Reads go to the wrapped store.

import (
	"os"
	"path/filepath"
	"sort"

	"github.com/aergoio/aergo-lib/db"
)

type wop struct {
	del bool
	key string
	val []byte
}

type jevent struct {
	kind string // tx | bulk | set | del | send
	ops  []wop  // write units
	note string // send: what was sent
}

type journal struct {
	on     bool
	events []jevent
}

func (j *journal) add(e jevent) {
	if j.on {
		j.events = append(j.events, e)
	}
}

// start begins recording; stop ends it and returns what was recorded.
func (j *journal) start() { j.on, j.events = true, nil }
func (j *journal) stop() []jevent {
	ev := j.events
	j.on, j.events = false, nil
	return ev
}

type jdb struct {
	inner db.DB
	j     *journal
}

var _ db.DB = (*jdb)(nil)

func cpb(b []byte) []byte {
	if b == nil {
		return []byte{}
	}
	return append([]byte{}, b...)
}

func (d *jdb) Type() string { return d.inner.Type() }
func (d *jdb) Set(k, v []byte) {
	d.inner.Set(k, v)
	d.j.add(jevent{kind: "set", ops: []wop{{key: string(k), val: cpb(v)}}})
}
func (d *jdb) Delete(k []byte) {
	d.inner.Delete(k)
	d.j.add(jevent{kind: "del", ops: []wop{{del: true, key: string(k)}}})
}
func (d *jdb) Get(k []byte) []byte              { return d.inner.Get(k) }
func (d *jdb) Exist(k []byte) bool              { return d.inner.Exist(k) }
func (d *jdb) Iterator(s, e []byte) db.Iterator { return d.inner.Iterator(s, e) }
func (d *jdb) Close()                           { d.inner.Close() }
func (d *jdb) NewTx() db.Transaction            { return &jtx{d: d, in: d.inner.NewTx()} }
func (d *jdb) NewBulk() db.Bulk                 { return &jbulk{d: d, in: d.inner.NewBulk()} }

type jtx struct {
	d   *jdb
	in  db.Transaction
	ops []wop
}

func (t *jtx) Set(k, v []byte) { t.in.Set(k, v); t.ops = append(t.ops, wop{key: string(k), val: cpb(v)}) }
func (t *jtx) Delete(k []byte) { t.in.Delete(k); t.ops = append(t.ops, wop{del: true, key: string(k)}) }
func (t *jtx) Commit() {
	t.in.Commit()
	if len(t.ops) > 0 {
		t.d.j.add(jevent{kind: "tx", ops: t.ops})
	}
	t.ops = nil
}
func (t *jtx) Discard() { t.in.Discard() }

type jbulk struct {
	d   *jdb
	in  db.Bulk
	ops []wop
}

func (t *jbulk) Set(k, v []byte) { t.in.Set(k, v); t.ops = append(t.ops, wop{key: string(k), val: cpb(v)}) }
func (t *jbulk) Delete(k []byte) { t.in.Delete(k); t.ops = append(t.ops, wop{del: true, key: string(k)}) }
func (t *jbulk) Flush() {
	t.in.Flush()
	if len(t.ops) > 0 {
		t.d.j.add(jevent{kind: "bulk", ops: t.ops})
	}
	t.ops = nil
}
func (t *jbulk) DiscardLast() { t.in.DiscardLast() }

// content is a copy of everything in the store.
func content(d db.DB) map[string][]byte {
	m := map[string][]byte{}
	it := d.Iterator(nil, nil)
	for ; it.Valid(); it.Next() {
		m[string(it.Key())] = cpb(it.Value())
	}
	return m
}

func cloneContent(m map[string][]byte) map[string][]byte {
	n := make(map[string][]byte, len(m))
	for k, v := range m {
		n[k] = v
	}
	return n
}

func applyUnit(m map[string][]byte, e jevent, upto int) {
	for i, o := range e.ops {
		if upto >= 0 && i >= upto {
			return
		}
		if o.del {
			delete(m, o.key)
		} else {
			m[o.key] = o.val
		}
	}
}

// materialise builds a fresh in-memory store (never written to a file) with the given content.
func materialise(m map[string][]byte) db.DB { return materialiseIn("/nonexistent-verif-c16", m) }

// materialiseIn: the same, as the store of directory dir (Close writes it there; a file left by an
// earlier store of that directory is removed first).
func materialiseIn(dir string, m map[string][]byte) db.DB {
	os.Remove(filepath.Join(dir, "database"))
	d := db.NewDB(db.MemoryImpl, dir)
	keys := make([]string, 0, len(m))
	for k := range m {
		keys = append(keys, k)
	}
	sort.Strings(keys)
	for _, k := range keys {
		d.Set([]byte(k), m[k])
	}
	return d
}

func sameContent(a, b map[string][]byte) bool {
	if len(a) != len(b) {
		return false
	}
	for k, v := range a {
		w, ok := b[k]
		if !ok || string(v) != string(w) {
			return false
		}
	}
	return true
}

// isWrite: the event is a durable write unit (not an external event).
func (e jevent) isWrite() bool { return e.kind != "send" }
