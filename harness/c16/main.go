// Harness c16: the real raft WAL functions of ChainDB (+ WalDB.SaveEntry/ReadAll) and the real
// membership-change checks of raftv2.Cluster, against the Lean model `Aergo.RaftLog`, with the
// property's own predicate (a reference map log / the refusal rules) evaluated on the real results.
package main

import (
	"bytes"
	"encoding/hex"
	"encoding/json"
	"errors"
	"fmt"
	"os"
	"path/filepath"
	"strings"

	"github.com/aergoio/aergo-lib/db"
	"github.com/aergoio/aergo/v2/chain"
	"github.com/aergoio/aergo/v2/consensus"
	"github.com/aergoio/aergo/v2/consensus/impl/raftv2"
	"github.com/aergoio/aergo/v2/internal/enc/proto"
	"github.com/aergoio/aergo/v2/types"
	"github.com/aergoio/aergo/v2/zz_verif/vh"
	"github.com/aergoio/etcd/raft/raftpb"
	"github.com/libp2p/go-libp2p/core/crypto"
	"github.com/rs/zerolog"
)

// lead 10 (stale inverse index after truncation): GetRaftEntryOfBlock of a truncated block returns
// whatever entry now sits at the old index. The property text is about index-addressed reads; the
// behaviour is corresponded and counted, and reported as a violation only if this is switched on.
const staleInverseIsViolation = false

func hx(b []byte) string {
	if len(b) == 0 {
		return "-"
	}
	return hex.EncodeToString(b)
}

func dash(s string) string {
	if s == "" {
		return "-"
	}
	return s
}

// ---------------------------------------------------------------------------------------------
// WAL sessions

type blk struct {
	b    *types.Block
	hash []byte
	no   uint64
}

func (b *blk) tok() string { return fmt.Sprintf("%s/%d", hx(b.hash), b.no) }

type refEntry struct {
	typ         int
	term, index uint64
	data        []byte
	blk         *blk
	raw         *raftpb.Entry // what etcd/raft handed to SaveEntry (nil for direct writes)
}

type session struct {
	run   *vh.Run
	rng   *vh.Rng
	dir   string
	store db.DB
	cdb   *chain.ChainDB
	wal   *raftv2.WalDB // the real WalDB, kept alive from one restart to the next (as raftServer does)
	ops   []string      // replay: the op lines of this session

	// reference (the property's view)
	log    map[uint64]*refEntry
	last   uint64
	hs     *raftpb.HardState
	snap   *raftpb.Snapshot
	ident  *consensus.RaftIdentity
	best   *blk
	valid  bool // only well-formed batches so far (contiguous, ascending, 1 <= first <= last+1)
	maxIdx uint64
	term   uint64
	blocks []*blk            // every block ever written in this session
	where  map[string]uint64 // block hash -> index of its most recent write
	ccids  []uint64
	nblk   uint64
}

func (s *session) op(line, out string, nontrivial bool) {
	s.ops = append(s.ops, line+" => "+out)
	s.run.Op(line, out, nontrivial)
}

func (s *session) fail(what string) {
	s.run.Fail(what, map[string]interface{}{"session": append([]string{}, s.ops...)})
}

func (s *session) newBlock() *blk {
	s.nblk++
	no := uint64(1 + s.rng.Intn(40))
	b := types.NewBlock(&types.BlockHeaderInfo{No: no, Ts: int64(s.nblk)*1000 + int64(s.rng.Intn(1000)), ChainId: []byte("c16")}, nil, nil, nil, nil, nil)
	h := b.BlockHash()
	k := &blk{b: b, hash: append([]byte{}, h...), no: no}
	s.blocks = append(s.blocks, k)
	return k
}

func (s *session) open() {
	var err error
	s.store = db.NewDB(db.MemoryImpl, s.dir)
	if s.cdb, err = chain.VerifRaftChainDBOn(s.store); err != nil {
		panic(err)
	}
	s.wal = raftv2.NewWalDB(s.cdb)
}

func (s *session) start() {
	os.RemoveAll(s.dir)
	os.MkdirAll(s.dir, 0o755)
	s.open()
	s.ops = nil
	s.log, s.last, s.hs, s.snap, s.ident, s.best = map[uint64]*refEntry{}, 0, nil, nil, nil, nil
	s.valid, s.maxIdx, s.term, s.blocks, s.where, s.ccids = true, 0, 1, nil, map[string]uint64{}, nil
	s.op("new", "ok", true)
}

func res(f func() error) string {
	out, p := vh.Guard(func() string {
		if err := f(); err != nil {
			if errors.Is(err, chain.ErrNilHardState) {
				return "nilhs"
			}
			return "err"
		}
		return "ok"
	})
	if p {
		return "panic"
	}
	return out
}

// restart: a fresh ChainDB on the same store; every fourth time the memorydb is closed (written
// to its file) and re-opened from the file.
func (s *session) restart() {
	hard := s.rng.Chance(1, 4)
	out := "ok"
	if hard {
		s.store.Close()
		s.store = db.NewDB(db.MemoryImpl, s.dir)
		s.run.Count("restart:close+reopen-file")
	} else {
		s.run.Count("restart:fresh-chaindb-same-store")
	}
	cdb, err := chain.VerifRaftChainDBOn(s.store)
	if err != nil {
		out = "panic"
	} else {
		s.cdb = cdb
		s.wal = raftv2.NewWalDB(cdb) // a restarted node builds a new WalDB: nothing cached in memory survives
	}
	s.op("restart", out, true)
}

func (s *session) showEntry(e *consensus.WalEntry) string {
	base := fmt.Sprintf("%d,%d,%d,%s", int(e.Type), e.Term, e.Index, hx(e.Data))
	if e.Type == consensus.EntryBlock {
		b, err := s.cdb.GetBlock(e.Data)
		var nb *chain.ErrNoBlock
		switch {
		case err == nil:
			base += fmt.Sprintf(",%s/%d", hx(b.BlockHash()), b.BlockNo())
		case errors.As(err, &nb):
			base += ",noblock"
		default:
			base += ",nilhash"
		}
	}
	return base
}

func (s *session) showGet(e *consensus.WalEntry, err error) string {
	switch {
	case err == nil:
		return s.showEntry(e)
	case errors.Is(err, chain.ErrNoWalEntry):
		return "absent"
	case errors.Is(err, chain.ErrMismatchedEntry):
		return "mismatch"
	}
	return "err"
}

func showHS(h *raftpb.HardState) string {
	if h == nil {
		return "none"
	}
	return fmt.Sprintf("%d,%d,%d", h.Term, h.Vote, h.Commit)
}

func showIdent(id *consensus.RaftIdentity) string {
	if id == nil {
		return "none"
	}
	return fmt.Sprintf("%d,%d,%s,%s", id.ClusterID, id.ID, id.Name, id.PeerID)
}

func showSnap(sn *raftpb.Snapshot) string {
	if sn == nil {
		return "none"
	}
	var sd consensus.SnapshotData
	if err := sd.Decode(sn.Data); err != nil {
		return "undecodable"
	}
	return fmt.Sprintf("%d,%d,%s/%d", sn.Metadata.Index, sn.Metadata.Term, hx(sd.Chain.Hash), sd.Chain.No)
}

// dump reads everything back through the real getters and runs the oracle.
func (s *session) dump() {
	mx := s.maxIdx
	line := fmt.Sprintf("dump %d", mx)
	out, _ := vh.Guard(func() string {
		last, _ := s.cdb.GetRaftEntryLastIdx()
		var ents []string
		for i := uint64(0); i <= mx+2; i++ {
			e, err := s.cdb.GetRaftEntry(i)
			ents = append(ents, fmt.Sprintf("%d:%s", i, s.showGet(e, err)))
		}
		hs, _ := s.cdb.GetHardState()
		sn, _ := s.cdb.GetSnapshot()
		id, _ := s.cdb.GetIdentity()
		best := "none"
		if b, _ := s.cdb.GetBestBlock(); b != nil {
			best = fmt.Sprintf("%s/%d", hx(b.BlockHash()), b.BlockNo())
		}
		return fmt.Sprintf("last=%d ents=%s hs=%s snap=%s id=%s best=%s", last, strings.Join(ents, " "), showHS(hs), showSnap(sn), showIdent(id), best)
	})
	s.op(line, out, s.last > 0)
	s.oracle()
}

// oracle: the property evaluated on the real getters against the reference log.
func (s *session) oracle() {
	if !s.valid {
		s.run.Count("oracle:skipped(ill-formed batch in session)")
		return
	}
	s.run.Count("oracle:log-vs-reference")
	last, err := s.cdb.GetRaftEntryLastIdx()
	if err != nil || last != s.last {
		s.fail(fmt.Sprintf("last index read back %d, reference %d", last, s.last))
	}
	for j := uint64(1); j <= s.maxIdx+2; j++ {
		e, err := s.cdb.GetRaftEntry(j)
		r, live := s.log[j]
		if live && j <= s.last {
			if err != nil {
				s.fail(fmt.Sprintf("index %d: stored entry not returned (%v)", j, err))
				continue
			}
			if int(e.Type) != r.typ || e.Term != r.term || e.Index != r.index || !bytes.Equal(e.Data, r.data) {
				s.fail(fmt.Sprintf("index %d: returned entry (type %d term %d index %d) is not the one most recently stored (type %d term %d index %d)",
					j, int(e.Type), e.Term, e.Index, r.typ, r.term, r.index))
			}
			if r.typ == int(consensus.EntryBlock) && r.blk != nil {
				b, err := s.cdb.GetBlock(e.Data)
				if err != nil {
					s.fail(fmt.Sprintf("index %d: block of the entry not found (%v)", j, err))
				} else {
					got, _ := proto.Encode(b)
					want, _ := proto.Encode(r.blk.b)
					if !bytes.Equal(got, want) {
						s.fail(fmt.Sprintf("index %d: entry carries a different block than the one written with it", j))
					}
				}
			}
		} else if err == nil {
			s.fail(fmt.Sprintf("index %d: an entry is returned (type %d term %d) although it was removed or never written (last=%d)", j, int(e.Type), e.Term, s.last))
		} else if !errors.Is(err, chain.ErrNoWalEntry) {
			s.fail(fmt.Sprintf("index %d: unexpected error %v", j, err))
		}
	}
	// hard state, snapshot, identity survive
	hs, err := s.cdb.GetHardState()
	if s.hs == nil {
		if err == nil {
			s.fail("a hard state is returned although none was written")
		}
	} else if err != nil || hs.Term != s.hs.Term || hs.Vote != s.hs.Vote || hs.Commit != s.hs.Commit {
		s.fail(fmt.Sprintf("hard state read back %s, written %s", showHS(hs), showHS(s.hs)))
	}
	sn, _ := s.cdb.GetSnapshot()
	if (sn == nil) != (s.snap == nil) {
		s.fail("snapshot presence differs from what was written")
	} else if sn != nil {
		a, _ := sn.Marshal()
		b, _ := s.snap.Marshal()
		if !bytes.Equal(a, b) {
			s.fail("snapshot read back differs from the one written")
		}
	}
	id, _ := s.cdb.GetIdentity()
	if (id == nil) != (s.ident == nil) || (id != nil && *id != *s.ident) {
		s.fail(fmt.Sprintf("identity read back %s, written %s", showIdent(id), showIdent(s.ident)))
	}
}

func showReadErr(err error) string {
	var nb *chain.ErrNoBlock
	switch {
	case errors.Is(err, raftv2.ErrWalGetHardState):
		return "hardstate"
	case errors.Is(err, chain.ErrNoWalEntry):
		return "noentry"
	case errors.Is(err, chain.ErrMismatchedEntry):
		return "mismatch"
	case errors.Is(err, raftv2.ErrWalEntryTooLowTerm):
		return "lowterm"
	case errors.Is(err, raftv2.ErrInvalidWalEntry):
		return "invalidwal"
	case errors.As(err, &nb):
		return "noblock"
	case strings.Contains(err.Error(), "block hash invalid"):
		return "nilhash"
	}
	return "other"
}

func (s *session) readall() {
	var snap *raftpb.Snapshot
	arg := "nil"
	if s.rng.Chance(2, 3) {
		idx := uint64(s.rng.Intn(int(s.last) + 2))
		term := uint64(0)
		switch s.rng.Intn(4) {
		case 0:
			term = s.term + 1
		case 1:
			term = uint64(s.rng.Intn(int(s.term) + 1))
		}
		snap = &raftpb.Snapshot{Metadata: raftpb.SnapshotMetadata{Index: idx, Term: term}}
		arg = fmt.Sprintf("%d,%d", idx, term)
	}
	w := s.wal
	var (
		id   *consensus.RaftIdentity
		st   *raftpb.HardState
		ents []raftpb.Entry
		err  error
	)
	out, _ := vh.Guard(func() string {
		id, st, ents, err = w.ReadAll(snap)
		if err != nil {
			return "err:" + showReadErr(err)
		}
		var b strings.Builder
		fmt.Fprintf(&b, "id=%s hs=%s ents=%d", showIdent(id), showHS(st), len(ents))
		for _, e := range ents {
			switch {
			case e.Type == raftpb.EntryConfChange:
				fmt.Fprintf(&b, " c,%d,%d,%s", e.Term, e.Index, hx(e.Data))
			case e.Data == nil:
				fmt.Fprintf(&b, " n,%d,%d,-", e.Term, e.Index)
			default:
				blk, uerr := raftv2.VerifUnmarshalBlock(e.Data)
				if uerr != nil {
					fmt.Fprintf(&b, " n,%d,%d,undecodable", e.Term, e.Index)
				} else {
					fmt.Fprintf(&b, " n,%d,%d,%s/%d", e.Term, e.Index, hx(blk.BlockHash()), blk.BlockNo())
				}
			}
		}
		return b.String()
	})
	s.op("readall "+arg, out, err == nil && len(ents) > 0)
	if err != nil {
		s.run.Count("readall:" + out)
	} else {
		s.run.Count("readall:ok")
	}
	if !s.valid {
		return
	}
	// oracle: the restarted node hands the consensus library the log it acknowledged
	var snapIdx, snapTerm uint64
	if snap != nil {
		snapIdx, snapTerm = snap.Metadata.Index, snap.Metadata.Term
	}
	expectOK := s.hs != nil
	var want []*refEntry
	for i := snapIdx + 1; i <= s.last && expectOK; i++ {
		r := s.log[i]
		if r == nil || r.term < snapTerm {
			expectOK = false
			break
		}
		want = append(want, r)
	}
	if !expectOK {
		if err == nil {
			s.fail(fmt.Sprintf("ReadAll(%s) succeeds although the log after the snapshot is incomplete or the hard state is missing", arg))
		}
		return
	}
	if err != nil {
		s.fail(fmt.Sprintf("ReadAll(%s) fails (%v) on a complete log", arg, err))
		return
	}
	if len(ents) != len(want) {
		s.fail(fmt.Sprintf("ReadAll(%s) returns %d entries, reference has %d", arg, len(ents), len(want)))
		return
	}
	for k, r := range want {
		e := ents[k]
		var wdata []byte
		wtype := raftpb.EntryNormal
		switch r.typ {
		case int(consensus.EntryBlock):
			wdata, _ = raftv2.VerifMarshalBlock(r.blk.b)
		case int(consensus.EntryConfChange):
			wdata, wtype = r.data, raftpb.EntryConfChange
		}
		if r.raw != nil {
			wdata, wtype = r.raw.Data, r.raw.Type
		}
		if e.Type != wtype || e.Term != r.term || e.Index != r.index || !bytes.Equal(e.Data, wdata) {
			s.fail(fmt.Sprintf("ReadAll(%s): entry %d handed back to raft differs from the one acknowledged", arg, r.index))
		}
	}
	if st == nil || st.Term != s.hs.Term || st.Vote != s.hs.Vote || st.Commit != s.hs.Commit {
		s.fail("ReadAll: hard state differs from the one written")
	}
}

func (s *session) ofblock() {
	if len(s.blocks) == 0 {
		return
	}
	b := s.blocks[s.rng.Intn(len(s.blocks))]
	var e *consensus.WalEntry
	var err error
	out, _ := vh.Guard(func() string {
		idx, ierr := s.cdb.GetRaftEntryIndexOfBlock(b.hash)
		e, err = s.cdb.GetRaftEntryOfBlock(b.hash)
		if ierr != nil {
			return "none"
		}
		return fmt.Sprintf("%d:%s", idx, s.showGet(e, err))
	})
	s.op("ofblock "+hx(b.hash), out, err == nil)
	if !s.valid {
		return
	}
	idx, written := s.where[string(b.hash)]
	r := s.log[idx]
	liveHere := written && idx <= s.last && r != nil && r.typ == int(consensus.EntryBlock) && bytes.Equal(r.data, b.hash)
	switch {
	case liveHere:
		s.run.Count("ofblock:live")
		if err != nil || e.Index != idx || !bytes.Equal(e.Data, b.hash) {
			s.fail(fmt.Sprintf("GetRaftEntryOfBlock does not return the live entry %d of block %s", idx, hx(b.hash)))
		}
	case err != nil:
		s.run.Count("ofblock:removed-or-never-written->absent")
	default:
		// the block's entry was removed by a conflicting overwrite, yet an entry is reported for it
		s.run.Count("ofblock:removed->OTHER-ENTRY-RETURNED(lead10,stale-inverse-index)")
		if staleInverseIsViolation {
			s.run.FailKnown(fmt.Sprintf("GetRaftEntryOfBlock(%s): the entry of this block was removed by a conflicting overwrite, but entry %d (type %d, data %s) is reported for it",
				hx(b.hash), e.Index, int(e.Type), hx(e.Data)), "C16-stale-inverse-index", map[string]interface{}{"session": append([]string{}, s.ops...)})
		}
	}
}

func (s *session) ccget() {
	if len(s.ccids) == 0 {
		return
	}
	id := s.ccids[s.rng.Intn(len(s.ccids))]
	out, _ := vh.Guard(func() string {
		p, err := s.cdb.GetConfChangeProgress(id)
		if err != nil {
			return "err"
		}
		if p == nil {
			return "none"
		}
		return fmt.Sprint(int(p.State))
	})
	s.op(fmt.Sprintf("ccget %d", id), out, out != "none")
}

// ---- batch generation

// a real peer id: Member JSON (conf-change context, snapshot data) only round-trips with one
var somePeerID = func() []byte {
	_, pub, err := crypto.GenerateSecp256k1Key(bytes.NewReader(bytes.Repeat([]byte{7}, 64)))
	if err != nil {
		panic(err)
	}
	pid, err := types.IDFromPublicKey(pub)
	if err != nil {
		panic(err)
	}
	return []byte(pid)
}()

type genEntry struct {
	typ   int // 0 block 1 empty 2 conf, >2 other code
	term  uint64
	index uint64
	data  []byte
	blk   *blk
	ccid  uint64
	raw   raftpb.Entry
}

func (s *session) confChange(ccid uint64) []byte {
	m := &consensus.Member{MemberAttr: types.MemberAttr{ID: uint64(100 + s.rng.Intn(5)), Name: fmt.Sprintf("n%d", s.rng.Intn(9)),
		Address: "/ip4/127.0.0.1/tcp/7000", PeerID: somePeerID}}
	ctx, err := json.Marshal(m)
	if err != nil {
		panic(err)
	}
	cc := raftpb.ConfChange{ID: ccid, Type: raftpb.ConfChangeType(s.rng.Intn(2)), NodeID: m.ID, Context: ctx}
	d, err := cc.Marshal()
	if err != nil || len(ctx) == 0 {
		panic(err)
	}
	return d
}

// contiguous ascending batch starting at first, n entries, mixed kinds
func (s *session) genBatch(first uint64, n int) []*genEntry {
	var out []*genEntry
	for k := 0; k < n; k++ {
		g := &genEntry{term: s.term, index: first + uint64(k)}
		switch r := s.rng.Intn(10); {
		case r < 5:
			g.typ = 0
			if len(s.blocks) > 0 && s.rng.Chance(1, 6) {
				g.blk = s.blocks[s.rng.Intn(len(s.blocks))] // the same block proposed again
			} else {
				g.blk = s.newBlock()
			}
			g.data = g.blk.hash
			d, _ := raftv2.VerifMarshalBlock(g.blk.b)
			g.raw = raftpb.Entry{Type: raftpb.EntryNormal, Term: g.term, Index: g.index, Data: d}
		case r < 8:
			g.typ = 1
			g.raw = raftpb.Entry{Type: raftpb.EntryNormal, Term: g.term, Index: g.index}
		default:
			g.typ = 2
			if s.rng.Chance(1, 5) {
				g.ccid = 0
			} else {
				g.ccid = uint64(1 + s.rng.Intn(6))
			}
			s.ccids = append(s.ccids, g.ccid)
			g.data = s.confChange(g.ccid)
			g.raw = raftpb.Entry{Type: raftpb.EntryConfChange, Term: g.term, Index: g.index, Data: g.data}
		}
		out = append(out, g)
	}
	return out
}

// where the next batch starts and how long it is: the four overwrite shapes of the property
func (s *session) shape() (first uint64, n int, kind string) {
	if s.last == 0 || s.rng.Chance(2, 5) {
		return s.last + 1, 1 + s.rng.Intn(4), "append"
	}
	lo := uint64(1)
	if s.last > 5 && s.rng.Chance(3, 4) {
		lo = s.last - 4
	}
	first = lo + uint64(s.rng.Intn(int(s.last-lo)+1))
	suffix := int(s.last - first + 1)
	switch s.rng.Intn(3) {
	case 0:
		if suffix > 1 {
			return first, 1 + s.rng.Intn(suffix-1), "conflict-shorter"
		}
		return first, 1, "conflict-equal"
	case 1:
		return first, suffix, "conflict-equal"
	}
	return first, suffix + 1 + s.rng.Intn(3), "conflict-longer"
}

func (s *session) applyRef(b []*genEntry, viaSave bool) {
	first := b[0].index
	for j := first; j <= s.last; j++ {
		delete(s.log, j)
	}
	for _, g := range b {
		r := &refEntry{typ: g.typ, term: g.term, index: g.index, data: g.data, blk: g.blk}
		if viaSave {
			raw := g.raw
			r.raw = &raw
		}
		s.log[g.index] = r
		if g.typ == 0 && g.blk != nil {
			s.where[string(g.blk.hash)] = g.index
		}
		if g.index > s.maxIdx {
			s.maxIdx = g.index
		}
	}
	s.last = b[len(b)-1].index
}

func (s *session) save() {
	first, n, kind := s.shape()
	if kind != "append" && s.rng.Chance(1, 2) {
		s.term++
	}
	b := s.genBatch(first, n)
	state := raftpb.HardState{}
	if s.rng.Chance(2, 3) {
		state = raftpb.HardState{Term: s.term, Vote: uint64(s.rng.Intn(4)), Commit: uint64(s.rng.Intn(int(first) + 1))}
	}
	s.saveWith(state, b, kind)
}

// saveWith: one SaveEntry call on the session's live WalDB object (b may be empty: hard state only)
func (s *session) saveWith(state raftpb.HardState, b []*genEntry, kind string) {
	var toks []string
	var raws []raftpb.Entry
	for _, g := range b {
		raws = append(raws, g.raw)
		switch g.typ {
		case 0:
			toks = append(toks, fmt.Sprintf("b,%d,%d,%s", g.term, g.index, g.blk.tok()))
			s.run.Count("entry:block")
		case 1:
			toks = append(toks, fmt.Sprintf("e,%d,%d", g.term, g.index))
			s.run.Count("entry:empty")
		default:
			toks = append(toks, fmt.Sprintf("c,%d,%d,%s,%d", g.term, g.index, hx(g.data), g.ccid))
			s.run.Count("entry:confchange")
		}
	}
	out := res(func() error { return s.wal.SaveEntry(state, raws) })
	s.op(strings.TrimSpace(fmt.Sprintf("save %d,%d,%d %s", state.Term, state.Vote, state.Commit, strings.Join(toks, " "))), out, out == "ok")
	s.run.Count("batch:" + kind)
	if out == "ok" {
		if len(b) > 0 {
			s.applyRef(b, true)
		}
		if state.Term != 0 || state.Vote != 0 || state.Commit != 0 {
			st := state
			s.hs = &st
		}
	} else {
		s.fail("SaveEntry of a well-formed batch ended with " + out)
	}
}

// burst: several SaveEntry calls on the same live WalDB with no restart in between (what a running
// node does between two Ready rounds); each hard state differs from the previous one handed to
// SaveEntry in exactly one of Term / Vote / Commit; entries are absent, or a batch. The restart and
// the read-back follow the burst: the hard state read back must be the last one handed over.
func (s *session) burst() {
	prev := raftpb.HardState{Term: s.term, Vote: 0, Commit: uint64(s.rng.Intn(int(s.last) + 1))}
	if s.hs != nil && s.rng.Chance(1, 2) && (s.hs.Term != 0 || s.hs.Vote != 0 || s.hs.Commit != 0) {
		prev = *s.hs
	} else {
		s.saveWith(prev, nil, "hardstate-only")
		s.run.Count("burst:first-state-saved")
	}
	k := 1 + s.rng.Intn(4)
	for i := 0; i < k; i++ {
		next := prev
		switch s.rng.Intn(4) {
		case 0:
			next.Term++
			if next.Term > s.term {
				s.term = next.Term
			}
			s.run.Count("burst:only-term-differs")
		case 1, 2:
			next.Vote = uint64(1 + (int(prev.Vote)+s.rng.Intn(3))%4)
			if next.Vote == prev.Vote {
				next.Vote++
			}
			s.run.Count("burst:only-vote-differs")
		default:
			next.Commit++
			s.run.Count("burst:only-commit-differs")
		}
		var b []*genEntry
		kind := "hardstate-only"
		if s.rng.Chance(1, 3) {
			first, n, kd := s.shape()
			b, kind = s.genBatch(first, n), kd
		}
		s.saveWith(next, b, kind)
		prev = next
		if s.rng.Chance(1, 5) {
			s.saveWith(raftpb.HardState{}, nil, "empty-hardstate-no-entries") // empty Ready: nothing to persist
		}
	}
	s.run.Count("op:burst")
}

// direct ChainDB.WriteRaftEntry; wellFormed=false produces the malformed stream
func (s *session) write(wellFormed bool) {
	var b []*genEntry
	kind := ""
	if wellFormed {
		first, n, k := s.shape()
		b, kind = s.genBatch(first, n), k
	} else {
		switch s.rng.Intn(7) {
		case 0:
			kind = "ill:empty-batch"
		case 1:
			kind = "ill:gap"
			b = s.genBatch(s.last+2+uint64(s.rng.Intn(3)), 1+s.rng.Intn(3))
		case 2:
			kind = "ill:descending"
			b = s.genBatch(uint64(2+s.rng.Intn(4)), 2)
			b[1].index = b[0].index - 1
		case 3:
			kind = "ill:holes"
			b = s.genBatch(s.last+1, 3)
			b[1].index += 2
			b[2].index += 4
		case 4:
			kind = "ill:type-code"
			b = s.genBatch(s.last+1, 2)
			b[1].typ, b[1].blk, b[1].data = 3+s.rng.Intn(100), nil, s.rng.Bytes(2)
		case 5:
			kind = "ill:nil-block"
			b = s.genBatch(s.last+1, 2)
			b[1].typ, b[1].blk, b[1].data = 0, nil, s.rng.Bytes(4)
		default:
			kind = "ill:index0-or-data-not-hash"
			b = s.genBatch(uint64(s.rng.Intn(2)), 2)
			if b[0].typ == 0 {
				b[0].data = s.rng.Bytes(3)
			}
		}
		s.valid = false
	}
	var toks []string
	var ents []*consensus.WalEntry
	var blocks []*types.Block
	var ccs []*raftpb.ConfChange
	for _, g := range b {
		ents = append(ents, &consensus.WalEntry{Type: consensus.EntryType(g.typ), Term: g.term, Index: g.index, Data: g.data})
		var blkp *types.Block
		var cc *raftpb.ConfChange
		switch {
		case g.typ == 0 && g.blk != nil:
			blkp = g.blk.b
			toks = append(toks, fmt.Sprintf("b,%d,%d,%s,%s", g.term, g.index, hx(g.data), g.blk.tok()))
		case g.typ == 0:
			toks = append(toks, fmt.Sprintf("b,%d,%d,%s,nil", g.term, g.index, hx(g.data)))
		case g.typ == 1:
			toks = append(toks, fmt.Sprintf("e,%d,%d,%s", g.term, g.index, hx(g.data)))
		case g.typ == 2:
			cc = &raftpb.ConfChange{ID: g.ccid}
			toks = append(toks, fmt.Sprintf("c,%d,%d,%s,%d", g.term, g.index, hx(g.data), g.ccid))
		default:
			toks = append(toks, fmt.Sprintf("t%d,%d,%d,%s", g.typ, g.term, g.index, hx(g.data)))
		}
		blocks = append(blocks, blkp)
		ccs = append(ccs, cc)
		if g.index > s.maxIdx {
			s.maxIdx = g.index
		}
	}
	out := res(func() error { return s.cdb.WriteRaftEntry(ents, blocks, ccs) })
	s.op(strings.TrimSpace("write "+strings.Join(toks, " ")), out, out == "ok")
	s.run.Count("batch:" + kind + "(direct)")
	s.run.Count("write-result:" + out)
	if wellFormed {
		if out == "ok" {
			s.applyRef(b, false)
		} else {
			s.fail("WriteRaftEntry of a well-formed batch ended with " + out)
		}
	}
}

func (s *session) stepOnce(malformed bool) {
	r := s.rng.Intn(100)
	switch {
	case r < 34:
		s.save()
	case r < 50:
		s.burst()
	case r < 62:
		s.write(!malformed || s.rng.Chance(1, 3))
	case r < 68:
		h := raftpb.HardState{Term: s.term, Vote: uint64(s.rng.Intn(4)), Commit: uint64(s.rng.Intn(int(s.last) + 1))}
		if s.rng.Chance(1, 6) {
			h = raftpb.HardState{}
		}
		out := res(func() error { return s.cdb.WriteHardState(&h) })
		s.op(fmt.Sprintf("hard %d,%d,%d", h.Term, h.Vote, h.Commit), out, true)
		s.hs = &h
		s.run.Count("op:hard")
	case r < 74:
		b := s.newBlock()
		s.blocks = s.blocks[:len(s.blocks)-1] // not a WAL block
		idx, term := uint64(s.rng.Intn(int(s.last)+1)), uint64(s.rng.Intn(int(s.term)+1))
		var members []*consensus.Member
		for k := 0; k < s.rng.Intn(3); k++ {
			members = append(members, &consensus.Member{MemberAttr: types.MemberAttr{ID: uint64(k + 1), Name: fmt.Sprintf("m%d", k), Address: "/ip4/127.0.0.1/tcp/1", PeerID: somePeerID}})
		}
		data, _ := consensus.NewSnapshotData(members, nil, b.b).Encode()
		sn := &raftpb.Snapshot{Data: data, Metadata: raftpb.SnapshotMetadata{Index: idx, Term: term, ConfState: raftpb.ConfState{Nodes: []uint64{1, 2, uint64(3 + s.rng.Intn(3))}}}}
		out := res(func() error { return s.cdb.WriteSnapshot(sn) })
		s.op(fmt.Sprintf("snap %d,%d,%s", idx, term, b.tok()), out, true)
		s.snap = sn
		s.run.Count("op:snap")
	case r < 79:
		id := &consensus.RaftIdentity{ClusterID: uint64(s.rng.Intn(3)), ID: uint64(s.rng.Intn(5)), Name: fmt.Sprintf("node%d", s.rng.Intn(4)), PeerID: fmt.Sprintf("16Uiu2peer%d", s.rng.Intn(4))}
		if s.rng.Chance(1, 8) {
			id = &consensus.RaftIdentity{}
		}
		out := res(func() error { return s.cdb.WriteIdentity(id) })
		s.op(fmt.Sprintf("ident %d,%d,%s,%s", id.ClusterID, id.ID, dash(id.Name), dash(id.PeerID)), out, true)
		s.ident = id
		s.run.Count("op:ident")
	case r < 84:
		b := s.newBlock()
		s.blocks = s.blocks[:len(s.blocks)-1]
		out := res(func() error { s.cdb.VerifRaftConnectBest(b.b); return nil })
		s.op("best "+b.tok(), out, true)
		s.best = b
		s.run.Count("op:best")
	case r < 88:
		out := res(func() error { s.cdb.ClearWAL(); return nil })
		s.op("clear", out, true)
		s.log, s.last, s.hs, s.snap, s.ident = map[uint64]*refEntry{}, 0, nil, nil, nil
		s.run.Count("op:clear")
	case r < 95:
		if s.rng.Chance(1, 10) {
			out := res(func() error { return s.cdb.ResetWAL(nil) })
			s.op("reset nil", out, false)
			s.run.Count("op:reset-nil")
			break
		}
		term, commit := uint64(1+s.rng.Intn(int(s.term)+1)), uint64(s.rng.Intn(int(s.last)+3))
		out := res(func() error { return s.cdb.ResetWAL(&types.HardStateInfo{Term: term, Commit: commit}) })
		s.op(fmt.Sprintf("reset %d,%d", term, commit), out, out == "ok")
		s.run.Count("op:reset->" + out)
		s.log, s.snap, s.ident = map[uint64]*refEntry{}, nil, nil
		s.hs = &raftpb.HardState{Term: term, Commit: commit}
		if out == "ok" {
			// property: after ResetWAL last = commit and the snapshot is the best block
			s.last = commit
			if commit > s.maxIdx {
				s.maxIdx = commit
			}
			if s.best == nil {
				s.fail("ResetWAL succeeded without a best block")
			} else {
				data, _ := consensus.NewSnapshotData(nil, nil, s.best.b).Encode()
				s.snap = &raftpb.Snapshot{Data: data, Metadata: raftpb.SnapshotMetadata{Index: commit, Term: term}}
			}
		} else {
			s.last = 0 // panicked after ClearWAL + WriteHardState (no best block): documented, not atomic
			if s.best != nil {
				s.fail("ResetWAL with a best block ended with " + out)
			}
		}
	default:
		s.ccget()
		return
	}
	s.restart()
	s.dump()
	if s.rng.Chance(1, 2) {
		s.readall()
	}
	if s.rng.Chance(1, 2) {
		s.ofblock()
	}
}

func walSessions(run *vh.Run) {
	s := &session{run: run, rng: run.Rng, dir: filepath.Join(run.Out, "waldb")}
	nsess := run.Pick(1500, 16000)
	for i := 0; i < nsess; i++ {
		s.start()
		malformed := i%6 == 5
		if malformed {
			run.Count("session:with-ill-formed-batches")
		} else {
			run.Count("session:well-formed")
		}
		if s.rng.Chance(3, 4) {
			b := s.newBlock()
			s.blocks = s.blocks[:len(s.blocks)-1]
			s.cdb.VerifRaftConnectBest(b.b)
			s.op("best "+b.tok(), "ok", true)
			s.best = b
		}
		n := 6 + s.rng.Intn(run.Pick(14, 24))
		for k := 0; k < n; k++ {
			s.stepOnce(malformed)
		}
		s.store.Close()
	}
	// the minimal scenario of lead 10, always present
	s.start()
	b1, b2 := s.newBlock(), s.newBlock()
	g := []*genEntry{{typ: 0, term: 1, index: 1, data: b1.hash, blk: b1}, {typ: 0, term: 1, index: 2, data: b2.hash, blk: b2}}
	for _, x := range g {
		d, _ := raftv2.VerifMarshalBlock(x.blk.b)
		x.raw = raftpb.Entry{Term: x.term, Index: x.index, Data: d}
	}
	w := s.wal
	out := res(func() error { return w.SaveEntry(raftpb.HardState{}, []raftpb.Entry{g[0].raw, g[1].raw}) })
	s.op(fmt.Sprintf("save 0,0,0 b,1,1,%s b,1,2,%s", b1.tok(), b2.tok()), out, true)
	s.applyRef(g, true)
	e := &genEntry{typ: 1, term: 2, index: 2, raw: raftpb.Entry{Term: 2, Index: 2}}
	out = res(func() error { return w.SaveEntry(raftpb.HardState{}, []raftpb.Entry{e.raw}) })
	s.op("save 0,0,0 e,2,2", out, true)
	s.applyRef([]*genEntry{e}, true)
	s.restart()
	s.dump()
	s.blocks = []*blk{b2}
	s.ofblock()
	s.store.Close()
	os.RemoveAll(s.dir)
}

// ---------------------------------------------------------------------------------------------
// membership

type mem struct {
	id         uint64
	name, addr string
	peer       []byte
}

func (m *mem) member() *consensus.Member {
	return &consensus.Member{MemberAttr: types.MemberAttr{ID: m.id, Name: m.name, Address: m.addr, PeerID: m.peer}}
}

func (m *mem) tok() string {
	ok := 0
	if _, err := types.ParseMultiaddr(m.addr); err == nil {
		ok = 1
	}
	return fmt.Sprintf("%d,%s,%s,%d,%s", m.id, dash(m.name), dash(m.addr), ok, hx(m.peer))
}

func vClass(err error) string {
	switch {
	case err == nil:
		return "ok"
	case errors.Is(err, raftv2.ErrCCMemberIsNil):
		return "nilmember"
	case errors.Is(err, consensus.ErrInvalidMemberID):
		return "invalidid"
	case errors.Is(err, raftv2.ErrCCAlreadyRemoved):
		return "removed"
	case errors.Is(err, raftv2.ErrInvalidMember):
		return "invalidmember"
	case errors.Is(err, raftv2.ErrCCAlreadyAdded):
		return "added"
	case errors.Is(err, raftv2.ErrDupBP):
		return "dup"
	case errors.Is(err, raftv2.ErrCCNoMemberToRemove):
		return "nomember"
	case errors.Is(err, raftv2.ErrInvCCType):
		return "invtype"
	}
	return "other"
}

func eClass(err error) string {
	switch {
	case err == nil:
		return "ok"
	case errors.Is(err, raftv2.ErrRaftStatusEmpty):
		return "statusempty"
	case errors.Is(err, raftv2.ErrUnhealtyNodeExist):
		return "unhealthy"
	case errors.Is(err, raftv2.ErrNotExitRaftProgress):
		return "noprogress"
	case errors.Is(err, raftv2.ErrRemoveHealthyNode):
		return "removehealthy"
	case errors.Is(err, raftv2.ErrInvalidMembershipReqType):
		return "invtype"
	}
	return "other"
}

type raftCfg struct {
	hasNode  bool
	statusID uint64
	leader   bool
	self     uint64
	last     uint64
	prog     []raftv2.VerifProgress
}

type memCase struct {
	run     *vh.Run
	applied []*mem
	removed []*mem
	cl      *raftv2.Cluster
	rc      raftCfg
	head    string // "A=… R=… raft=… P=…"
	health  map[uint64]int
	n       int
}

func (c *memCase) build() bool {
	var am, rm []*consensus.Member
	var at, rt []string
	for _, m := range c.applied {
		am = append(am, m.member())
		at = append(at, m.tok())
	}
	for _, m := range c.removed {
		rm = append(rm, m.member())
		rt = append(rt, fmt.Sprint(m.id))
	}
	cl, err := raftv2.VerifNewCluster(am, rm, c.rc.self)
	if err != nil {
		return false
	}
	c.cl = cl
	c.head = fmt.Sprintf("A=%s R=%s", strings.Join(at, ";"), strings.Join(rt, ";"))
	return true
}

func (c *memCase) setRaft(rc raftCfg) string {
	c.rc = rc
	c.cl.SetNodeID(rc.self)
	c.cl.VerifSetRaft(rc.hasNode, rc.statusID, rc.leader, rc.last, rc.prog)
	var pt []string
	for _, p := range rc.prog {
		pt = append(pt, fmt.Sprintf("%d:%d:%d", p.ID, p.State, p.Match))
	}
	b := func(x bool) int {
		if x {
			return 1
		}
		return 0
	}
	c.n, c.health, _ = c.cl.VerifMemberHealth()
	return fmt.Sprintf("raft=%d,%d,%d,%d,%d,%d P=%s", b(rc.hasNode), rc.statusID, b(rc.leader), rc.self, rc.last, raftv2.VerifSlowGap(), strings.Join(pt, ";"))
}

// one request against the current cluster and raft status
func (c *memCase) request(raftTok string, ccType int, m *mem) {
	var mm *consensus.Member
	mtok := "nil"
	var nodeID uint64
	if m != nil {
		mm = m.member()
		mtok = m.tok()
		nodeID = m.id
	}
	var verr, eerr error
	out, p := vh.Guard(func() string {
		verr = c.cl.VerifValidate(raftpb.ConfChangeType(ccType), mm)
		eerr = c.cl.VerifEnable(raftpb.ConfChangeType(ccType), nodeID)
		var hv []string
		for _, pr := range c.rc.prog {
			if st, ok := c.health[pr.ID]; ok {
				hv = append(hv, fmt.Sprintf("%d=%d", pr.ID, st))
			}
		}
		return fmt.Sprintf("%s %s acc=%v h=%d:%s", vClass(verr), eClass(eerr), m != nil && verr == nil && eerr == nil, c.n, strings.Join(hv, ","))
	})
	line := fmt.Sprintf("mem %s %s t=%d m=%s", c.head, raftTok, ccType, mtok)
	accepted := !p && m != nil && verr == nil && eerr == nil
	c.run.Op(line, out, accepted)
	c.run.Count(fmt.Sprintf("mem:t=%d validate=%s enable=%s", ccType, vClass(verr), eClass(eerr)))
	if p || m == nil {
		return
	}
	// oracle: the refusal rules of the property
	bad := func(why string) {
		c.run.Fail("membership change accepted although "+why, map[string]interface{}{"op": line, "answer": out})
	}
	inRemoved := false
	for _, r := range c.removed {
		inRemoved = inRemoved || r.id == m.id
	}
	var known *mem
	for _, a := range c.applied {
		if a.id == m.id {
			known = a
		}
	}
	switch ccType {
	case 0:
		for _, a := range c.applied {
			switch {
			case a.name == m.name && accepted:
				bad("it duplicates the name of member " + a.name)
			case a.id == m.id && accepted:
				bad(fmt.Sprintf("it duplicates the id %d of a member", a.id))
			case a.addr == m.addr && accepted:
				bad("it duplicates the address of member " + a.name)
			case bytes.Equal(a.peer, m.peer) && accepted:
				bad("it duplicates the peer id of member " + a.name)
			}
		}
		if inRemoved && accepted {
			bad(fmt.Sprintf("it re-adds the removed member %d", m.id))
		}
	case 1:
		if known == nil && accepted {
			bad(fmt.Sprintf("it removes the unknown member %d", m.id))
		}
		if inRemoved && accepted {
			bad(fmt.Sprintf("it removes the already removed member %d", m.id))
		}
		if st, ok := c.health[m.id]; ok && st == 0 && accepted {
			h := 0
			for _, v := range c.health {
				if v == 0 {
					h++
				}
			}
			// remaining healthy nodes h-1 must still be a quorum of the remaining c.n-1 nodes
			if h-1 < (c.n-1)/2+1 {
				bad(fmt.Sprintf("it removes healthy node %d leaving %d healthy of %d nodes (quorum %d)", m.id, h-1, c.n-1, (c.n-1)/2+1))
			}
		}
	}
}

func membership(run *vh.Run) {
	rng := run.Rng
	// a pool of nodes with real peer ids
	var pool []*mem
	for i := 0; i < 9; i++ {
		_, pub, err := crypto.GenerateSecp256k1Key(bytes.NewReader(rng.Bytes(64)))
		if err != nil {
			panic(err)
		}
		pid, err := types.IDFromPublicKey(pub)
		if err != nil {
			panic(err)
		}
		pool = append(pool, &mem{id: uint64(i + 1), name: fmt.Sprintf("bp%d", i+1), addr: fmt.Sprintf("/ip4/10.0.0.%d/tcp/7846", i+1), peer: []byte(pid)})
	}
	fresh := pool[8] // never a member: id 9
	healthyRaft := func(n int) raftCfg {
		rc := raftCfg{hasNode: true, statusID: 1, leader: true, self: 1, last: 500}
		for i := 0; i < n; i++ {
			rc.prog = append(rc.prog, raftv2.VerifProgress{ID: uint64(i + 1), State: 1, Match: 500})
		}
		return rc
	}

	// (a) validation: every composition (0..5 applied, 0..2 removed) x every request of the request space
	for n := 0; n <= 5; n++ {
		for nr := 0; nr <= 2; nr++ {
			c := &memCase{run: run, applied: pool[:n], removed: pool[5 : 5+nr]}
			c.rc.self = 1
			if !c.build() {
				panic("cluster build failed")
			}
			rt := c.setRaft(healthyRaft(n))
			run.Count(fmt.Sprintf("composition:applied=%d", n))
			// add requests: each attribute fresh / equal to the first member / equal to the last member / empty (/ not parseable)
			ids := []uint64{fresh.id, 0, 6, 7}
			names := []string{fresh.name, ""}
			addrs := []string{fresh.addr, "", "10.0.0.1:7846", "/ip4/300.1.1.1/tcp/1"}
			peers := [][]byte{fresh.peer, nil}
			if n > 0 {
				ids = append(ids, pool[0].id, pool[n-1].id)
				names = append(names, pool[0].name, pool[n-1].name)
				addrs = append(addrs, pool[0].addr, pool[n-1].addr)
				peers = append(peers, pool[0].peer, pool[n-1].peer)
			}
			for _, id := range ids {
				for _, nm := range names {
					for _, ad := range addrs {
						for _, pe := range peers {
							c.request(rt, 0, &mem{id: id, name: nm, addr: ad, peer: pe})
						}
					}
				}
			}
			// remove requests: every id of the universe, with and without attributes
			for id := uint64(0); id <= 9; id++ {
				c.request(rt, 1, &mem{id: id})
			}
			c.request(rt, 1, pool[0])
			// other conf-change types and the nil member
			c.request(rt, 2, fresh)
			c.request(rt, 3, fresh)
			c.request(rt, 0, nil)
			c.request(rt, 1, nil)
		}
	}

	// (b) availability: every health vector (raw progress state x replication gap per follower) of 1..5 nodes
	gap := raftv2.VerifSlowGap()
	last := uint64(1000)
	raws := []raftv2.VerifProgress{{State: 1, Match: last}, {State: 1, Match: last - gap}, {State: 1, Match: last - gap - 1},
		{State: 0, Match: last}, {State: 2, Match: last}, {State: 2, Match: 0}}
	for n := 1; n <= 5; n++ {
		c := &memCase{run: run, applied: pool[:n], removed: pool[5:6]}
		c.rc.self = 1
		if !c.build() {
			panic("cluster build failed")
		}
		total := 1
		for i := 1; i < n; i++ {
			total *= len(raws)
		}
		for v := 0; v < total; v++ {
			rc := raftCfg{hasNode: true, statusID: 1, leader: true, self: 1, last: last}
			rc.prog = append(rc.prog, raftv2.VerifProgress{ID: 1, State: 0, Match: 0}) // self: always healthy, whatever its own row says
			x := v
			for i := 1; i < n; i++ {
				p := raws[x%len(raws)]
				x /= len(raws)
				p.ID = uint64(i + 1)
				rc.prog = append(rc.prog, p)
			}
			rt := c.setRaft(rc)
			h := 0
			for _, st := range c.health {
				if st == 0 {
					h++
				}
			}
			run.Count(fmt.Sprintf("health:N=%d healthy=%d", n, h))
			for i := 0; i < n; i++ {
				c.request(rt, 1, &mem{id: pool[i].id})
			}
			c.request(rt, 1, &mem{id: 99})
			c.request(rt, 0, fresh)
		}
		// degenerate raft status: no node, status id 0, not leader, empty progress, a member without progress row, self not in the table
		base := healthyRaft(n)
		variants := []raftCfg{}
		v1 := base
		v1.hasNode = false
		v2 := base
		v2.statusID = 0
		v3 := base
		v3.leader = false
		v4 := base
		v4.prog = nil
		v5 := base
		v5.prog = base.prog[:n-1]
		v6 := base
		v6.self = 77
		v6.prog = append([]raftv2.VerifProgress{}, base.prog...)
		v6.prog[0].State = 0
		variants = append(variants, v1, v2, v3, v4, v5, v6)
		for _, rc := range variants {
			rt := c.setRaft(rc)
			run.Count("health:degenerate-status")
			for i := 0; i < n; i++ {
				c.request(rt, 1, &mem{id: pool[i].id})
			}
			c.request(rt, 0, fresh)
			c.request(rt, 2, fresh)
		}
	}

	// (c) random clusters: colliding attributes inside the request, larger clusters, random progress
	for i := 0; i < run.Pick(4000, 60000); i++ {
		n := rng.Intn(8)
		perm := rng.Intn(9)
		var ap, rm []*mem
		for k := 0; k < n; k++ {
			ap = append(ap, pool[(perm+k)%9])
		}
		for k := 0; k < rng.Intn(3); k++ {
			rm = append(rm, pool[(perm+n+k)%9])
		}
		c := &memCase{run: run, applied: ap, removed: rm}
		self := uint64(1 + rng.Intn(9))
		c.rc.self = self
		if !c.build() {
			run.Count("random-cluster:not-buildable")
			continue
		}
		rc := raftCfg{hasNode: !rng.Chance(1, 20), statusID: uint64(rng.Intn(6)), leader: !rng.Chance(1, 8), self: self, last: uint64(rng.Intn(400))}
		for _, a := range ap {
			if rng.Chance(1, 12) {
				continue
			}
			rc.prog = append(rc.prog, raftv2.VerifProgress{ID: a.id, State: rng.Intn(3), Match: uint64(rng.Intn(400))})
		}
		rt := c.setRaft(rc)
		for k := 0; k < 6; k++ {
			pick := func() *mem { return pool[rng.Intn(9)] }
			m := &mem{id: pick().id, name: pick().name, addr: pick().addr, peer: pick().peer}
			if rng.Chance(1, 10) {
				m.id = 0
			}
			c.request(rt, rng.Intn(2), m)
		}
		run.Count("random-cluster")
	}
}

func main() {
	if os.Getenv("C16_LOG") == "" {
		zerolog.SetGlobalLevel(zerolog.Disabled)
	}
	run := vh.Start("c16", "wal: sessions on the real ChainDB (memorydb) with a restart (fresh ChainDB on the same store; every 4th time close + re-open from file) after "+
		"every operation: SaveEntry (on one live WalDB per process lifetime; bursts of several saves without a restart whose hard states differ in exactly one of term/vote/commit, with and without entries)/WriteRaftEntry batches that append or overwrite a suffix (shorter, equal, longer), mixed block/empty/conf-change entries, hard state, "+
		"snapshot, identity, best block, ClearWAL, ResetWAL, an ill-formed stream (gaps, descending, empty batch, nil block, unknown type codes) in every 6th session; "+
		"after each op every getter is read back for indices 0..max+2 and compared with a reference map log; ReadAll and GetRaftEntryOfBlock sampled. "+
		"mem: validateChangeMembership + isEnableChangeMembership on real Clusters: every composition of 0..5 applied and 0..2 removed members x a request space "+
		"(each attribute fresh/duplicate of first/duplicate of last/empty/unparseable; remove of every id), every raw progress vector of 1..5 nodes, degenerate raft status, random clusters up to 7. "+
		"non-trivial = op succeeded / request accepted; distinct by (op, answer)")
	defer run.Finish()
	walSessions(run)
	membership(run)
}
