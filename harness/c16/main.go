// Harness c16: the real raft WAL functions of ChainDB (+ WalDB.SaveEntry/ReadAll) and the real
// membership-change checks of raftv2.Cluster, against the Lean model `Aergo.RaftLog`, with the
// property's own predicate (a reference map log / the refusal rules) evaluated on the real results.
package main

import (
	"bytes"
	"encoding/hex"
	"encoding/json"
	"errors"
	"fmt"
	"os"
	"path/filepath"
	"runtime/pprof"
	"sort"
	"strings"

	"github.com/aergoio/aergo-lib/db"
	"github.com/aergoio/aergo/v2/chain"
	"github.com/aergoio/aergo/v2/consensus"
	"github.com/aergoio/aergo/v2/consensus/impl/raftv2"
	"github.com/aergoio/aergo/v2/internal/enc/proto"
	"github.com/aergoio/aergo/v2/types"
	"github.com/aergoio/aergo/v2/zz_verif/vh"
	raftlib "github.com/aergoio/etcd/raft"
	"github.com/aergoio/etcd/raft/raftpb"
	"github.com/libp2p/go-libp2p/core/crypto"
	"github.com/rs/zerolog"
)

// lead 10 (stale inverse index after truncation): GetRaftEntryOfBlock of a truncated block returns
// whatever entry now sits at the old index. The property text is about index-addressed reads; the
// behaviour is corresponded and counted, and reported as a violation only if this is switched on.
const staleInverseIsViolation = false

func hx(b []byte) string {
	if len(b) == 0 {
		return "-"
	}
	return hex.EncodeToString(b)
}

func dash(s string) string {
	if s == "" {
		return "-"
	}
	return s
}

// ---------------------------------------------------------------------------------------------
// WAL sessions

type blk struct {
	b    *types.Block
	hash []byte
	no   uint64
}

func (b *blk) tok() string { return fmt.Sprintf("%s/%d", hx(b.hash), b.no) }

type refEntry struct {
	typ         int
	term, index uint64
	data        []byte
	blk         *blk
	raw         *raftpb.Entry // what etcd/raft handed to SaveEntry (nil for direct writes)
}

type session struct {
	run   *vh.Run
	rng   *vh.Rng
	dir   string
	store db.DB
	cdb   *chain.ChainDB
	wal   *raftv2.WalDB // the real WalDB, kept alive from one restart to the next (as raftServer does)
	ops   []string      // replay: the op lines of this session

	// reference (the property's view)
	log    map[uint64]*refEntry
	last   uint64
	hs     *raftpb.HardState
	snap   *raftpb.Snapshot
	ident  *consensus.RaftIdentity
	best   *blk
	valid  bool // only well-formed batches so far (contiguous, ascending, 1 <= first <= last+1)
	maxIdx uint64
	term   uint64
	blocks []*blk            // every block ever written in this session
	where  map[string]uint64 // block hash -> index of its most recent write
	ccids  []uint64
	nblk   uint64

	// crash points: the store is wrapped by a journal of write units
	j    *journal
	cuts bool     // explore the crash points of the operations of this session
	hold bool     // op lines are held back (the cut lines of an operation precede it in the op stream)
	held []heldOp
}

type heldOp struct {
	line, out  string
	nontrivial bool
}

func (s *session) op(line, out string, nontrivial bool) {
	if s.hold {
		s.held = append(s.held, heldOp{line, out, nontrivial})
		return
	}
	s.ops = append(s.ops, line+" => "+out)
	s.run.Op(line, out, nontrivial)
}

// refState is the property's view of the durable state at one moment.
type refState struct {
	log   map[uint64]*refEntry
	last  uint64
	hs    *raftpb.HardState
	snap  *raftpb.Snapshot
	ident *consensus.RaftIdentity
}

func (s *session) ref() refState {
	l := make(map[uint64]*refEntry, len(s.log))
	for k, v := range s.log {
		l[k] = v
	}
	return refState{log: l, last: s.last, hs: s.hs, snap: s.snap, ident: s.ident}
}

// view: everything read back once through the real getters of one ChainDB.
type view struct {
	last    uint64
	lastErr error
	ents    []*consensus.WalEntry // index 0..mx
	errs    []error
	hs      *raftpb.HardState
	hsErr   error
	snap    *raftpb.Snapshot
	ident   *consensus.RaftIdentity
	bestTok string
	cdb     *chain.ChainDB
}

func readView(cdb *chain.ChainDB, mx uint64) (v *view, panicked bool) {
	v = &view{cdb: cdb}
	_, panicked = vh.Guard(func() string {
		v.last, v.lastErr = cdb.GetRaftEntryLastIdx()
		for i := uint64(0); i <= mx; i++ {
			e, err := cdb.GetRaftEntry(i)
			v.ents, v.errs = append(v.ents, e), append(v.errs, err)
		}
		v.hs, v.hsErr = cdb.GetHardState()
		v.snap, _ = cdb.GetSnapshot()
		v.ident, _ = cdb.GetIdentity()
		v.bestTok = "none"
		if b, _ := cdb.GetBestBlock(); b != nil {
			v.bestTok = fmt.Sprintf("%s/%d", hx(b.BlockHash()), b.BlockNo())
		}
		return ""
	})
	return
}

func (v *view) dump() string {
	var ents []string
	for i := range v.ents {
		ents = append(ents, fmt.Sprintf("%d:%s", i, showGetOn(v.cdb, v.ents[i], v.errs[i])))
	}
	return fmt.Sprintf("last=%d ents=%s hs=%s snap=%s id=%s best=%s", v.last, strings.Join(ents, " "), showHS(v.hs), showSnap(v.snap), showIdent(v.ident), v.bestTok)
}

// agrees: which parts of the view equal the reference r (log = last index and every index 1..mx).
func (r *refState) agrees(v *view) (logOK, hsOK, snapOK, identOK bool) {
	logOK = v.lastErr == nil && v.last == r.last
	for j := 1; j < len(v.ents) && logOK; j++ {
		e, err := v.ents[j], v.errs[j]
		x, live := r.log[uint64(j)]
		if live && uint64(j) <= r.last {
			if err != nil || int(e.Type) != x.typ || e.Term != x.term || e.Index != x.index || !bytes.Equal(e.Data, x.data) {
				logOK = false
			}
		} else if err == nil {
			logOK = false
		}
	}
	if r.hs == nil {
		hsOK = v.hsErr != nil
	} else {
		hsOK = v.hsErr == nil && v.hs.Term == r.hs.Term && v.hs.Vote == r.hs.Vote && v.hs.Commit == r.hs.Commit
	}
	snapOK = sameSnap(v.snap, r.snap)
	identOK = (v.ident == nil) == (r.ident == nil) && (v.ident == nil || *v.ident == *r.ident)
	return
}

// journaled runs one operation of the session with the journal on and then visits its crash points:
// the store content after every prefix of the operation's write units (0 .. n) is rebuilt, a fresh
// ChainDB is started on it (a restart after a crash at that point) and everything is read back.
// kind: what the operation is for the crash oracle ("save", "write", "hard", "snap", "ident"; "" = correspondence only).
func (s *session) journaled(kind string, f func()) {
	if !s.cuts {
		f()
		return
	}
	pre := content(s.store)
	ref0 := s.ref()
	valid0 := s.valid
	s.hold = true
	s.j.start()
	f()
	ev := s.j.stop()
	s.hold = false
	held := s.held
	s.held = nil
	if len(held) == 1 {
		s.crashPoints(kind, pre, ev, held[0].line, ref0, valid0 && s.valid)
	}
	for _, h := range held {
		s.op(h.line, h.out, h.nontrivial)
	}
}

func (s *session) crashPoints(kind string, pre map[string][]byte, ev []jevent, line string, ref0 refState, valid bool) {
	var units []jevent
	for _, e := range ev {
		if e.isWrite() {
			units = append(units, e)
		}
	}
	n := len(units)
	ref1 := s.ref()
	mx := s.maxIdx
	s.run.Count(fmt.Sprintf("cut:units=%d(%s)", n, strings.SplitN(line, " ", 2)[0]))
	m := cloneContent(pre)
	for k := 0; k <= n; k++ {
		if k > 0 {
			applyUnit(m, units[k-1], -1)
		}
		cdb, err := chain.VerifRaftChainDBOn(materialise(m))
		out := "restart-fails"
		var v *view
		if err == nil {
			var p bool
			if v, p = readView(cdb, mx+2); p {
				out = "panic"
			} else {
				out = v.dump()
			}
		}
		s.op(fmt.Sprintf("cut %d %d %s", k, mx, line), fmt.Sprintf("n=%d %s", n, out), true)
		if err != nil || !valid || kind == "" || out == "panic" {
			continue
		}
		// the crash oracle: whatever a restarted node reads is the acknowledged state before the operation or the
		// state the operation was asked to produce, never a mixture inside the log
		l0, h0, s0, i0 := ref0.agrees(v)
		l1, h1, s1, i1 := ref1.agrees(v)
		where := fmt.Sprintf("crash after %d of the %d write units of [%s]: ", k, n, clip(line, 160))
		if !l0 && !l1 {
			s.fail(where + "the log read back after the restart (last index, entries) is neither the log before the operation nor the log after it")
		}
		if !h0 && !h1 {
			s.fail(where + "the hard state read back is neither the one before nor the one after the operation")
		}
		if !s0 && !s1 {
			s.fail(where + "the snapshot read back is neither the one before nor the one after the operation")
		}
		if !i0 && !i1 {
			s.fail(where + "the identity read back is neither the one before nor the one after the operation")
		}
		if kind == "save" && h1 && !h0 && !l1 {
			s.fail(where + "the hard state of the call is durable before its entries")
		}
		if k == n && !(l1 && h1 && s1 && i1) {
			var which []string
			for _, x := range []struct {
				ok bool
				n  string
			}{{l1, "log"}, {h1, "hard state"}, {s1, "snapshot"}, {i1, "identity"}} {
				if !x.ok {
					which = append(which, x.n)
				}
			}
			s.fail(where + "after all its write units a restarted node does not read back what the operation was asked to store (" + strings.Join(which, ", ") + ")")
		}
		s.run.Count("cut:oracle")
	}
}

func (s *session) fail(what string) {
	s.run.Fail(what, map[string]interface{}{"session": append([]string{}, s.ops...)})
}

func (s *session) newBlock() *blk {
	s.nblk++
	no := uint64(1 + s.rng.Intn(40))
	b := types.NewBlock(&types.BlockHeaderInfo{No: no, Ts: int64(s.nblk)*1000 + int64(s.rng.Intn(1000)), ChainId: []byte("c16")}, nil, nil, nil, nil, nil)
	h := b.BlockHash()
	k := &blk{b: b, hash: append([]byte{}, h...), no: no}
	s.blocks = append(s.blocks, k)
	return k
}

func (s *session) open() {
	var err error
	if s.j == nil {
		s.j = &journal{}
	}
	s.store = &jdb{inner: db.NewDB(db.MemoryImpl, s.dir), j: s.j}
	if s.cdb, err = chain.VerifRaftChainDBOn(s.store); err != nil {
		panic(err)
	}
	s.wal = raftv2.NewWalDB(s.cdb)
}

func (s *session) start() {
	os.RemoveAll(s.dir)
	os.MkdirAll(s.dir, 0o755)
	s.open()
	s.ops = nil
	s.log, s.last, s.hs, s.snap, s.ident, s.best = map[uint64]*refEntry{}, 0, nil, nil, nil, nil
	s.valid, s.maxIdx, s.term, s.blocks, s.where, s.ccids = true, 0, 1, nil, map[string]uint64{}, nil
	s.op("new", "ok", true)
}

func res(f func() error) string {
	out, p := vh.Guard(func() string {
		if err := f(); err != nil {
			if errors.Is(err, chain.ErrNilHardState) {
				return "nilhs"
			}
			return "err"
		}
		return "ok"
	})
	if p {
		return "panic"
	}
	return out
}

// restart: a fresh ChainDB on the same store; every fourth time the memorydb is closed (written
// to its file) and re-opened from the file.
func (s *session) restart() {
	hard := s.rng.Chance(1, 4)
	out := "ok"
	if hard {
		s.store.Close()
		s.store = &jdb{inner: db.NewDB(db.MemoryImpl, s.dir), j: s.j}
		s.run.Count("restart:close+reopen-file")
	} else {
		s.run.Count("restart:fresh-chaindb-same-store")
	}
	cdb, err := chain.VerifRaftChainDBOn(s.store)
	if err != nil {
		out = "panic"
	} else {
		s.cdb = cdb
		s.wal = raftv2.NewWalDB(cdb) // a restarted node builds a new WalDB: nothing cached in memory survives
	}
	s.op("restart", out, true)
}

func (s *session) showEntry(e *consensus.WalEntry) string { return showEntryOn(s.cdb, e) }

func showEntryOn(cdb *chain.ChainDB, e *consensus.WalEntry) string {
	base := fmt.Sprintf("%d,%d,%d,%s", int(e.Type), e.Term, e.Index, hx(e.Data))
	if e.Type == consensus.EntryBlock {
		b, err := cdb.GetBlock(e.Data)
		var nb *chain.ErrNoBlock
		switch {
		case err == nil:
			base += fmt.Sprintf(",%s/%d", hx(b.BlockHash()), b.BlockNo())
		case errors.As(err, &nb):
			base += ",noblock"
		default:
			base += ",nilhash"
		}
	}
	return base
}

func (s *session) showGet(e *consensus.WalEntry, err error) string { return showGetOn(s.cdb, e, err) }

func showGetOn(cdb *chain.ChainDB, e *consensus.WalEntry, err error) string {
	switch {
	case err == nil:
		return showEntryOn(cdb, e)
	case errors.Is(err, chain.ErrNoWalEntry):
		return "absent"
	case errors.Is(err, chain.ErrMismatchedEntry):
		return "mismatch"
	}
	return "err"
}

func showHS(h *raftpb.HardState) string {
	if h == nil {
		return "none"
	}
	return fmt.Sprintf("%d,%d,%d", h.Term, h.Vote, h.Commit)
}

func showIdent(id *consensus.RaftIdentity) string {
	if id == nil {
		return "none"
	}
	return fmt.Sprintf("%d,%d,%s,%s", id.ClusterID, id.ID, id.Name, id.PeerID)
}

func showSnap(sn *raftpb.Snapshot) string {
	if sn == nil {
		return "none"
	}
	var sd consensus.SnapshotData
	if err := sd.Decode(sn.Data); err != nil {
		return "undecodable"
	}
	return fmt.Sprintf("%d,%d,%s/%d", sn.Metadata.Index, sn.Metadata.Term, hx(sd.Chain.Hash), sd.Chain.No)
}

// dump reads everything back through the real getters and runs the oracle.
func (s *session) dump() {
	mx := s.maxIdx
	line := fmt.Sprintf("dump %d", mx)
	out := dumpOf(s.cdb, mx)
	s.op(line, out, s.last > 0)
	s.oracle()
}

// dumpOf reads everything back through the real getters of cdb.
func dumpOf(cdb *chain.ChainDB, mx uint64) string {
	out, _ := vh.Guard(func() string {
		last, _ := cdb.GetRaftEntryLastIdx()
		var ents []string
		for i := uint64(0); i <= mx+2; i++ {
			e, err := cdb.GetRaftEntry(i)
			ents = append(ents, fmt.Sprintf("%d:%s", i, showGetOn(cdb, e, err)))
		}
		hs, _ := cdb.GetHardState()
		sn, _ := cdb.GetSnapshot()
		id, _ := cdb.GetIdentity()
		best := "none"
		if b, _ := cdb.GetBestBlock(); b != nil {
			best = fmt.Sprintf("%s/%d", hx(b.BlockHash()), b.BlockNo())
		}
		return fmt.Sprintf("last=%d ents=%s hs=%s snap=%s id=%s best=%s", last, strings.Join(ents, " "), showHS(hs), showSnap(sn), showIdent(id), best)
	})
	return out
}

// oracle: the property evaluated on the real getters against the reference log.
func (s *session) oracle() {
	if !s.valid {
		s.run.Count("oracle:skipped(ill-formed batch in session)")
		return
	}
	s.run.Count("oracle:log-vs-reference")
	last, err := s.cdb.GetRaftEntryLastIdx()
	if err != nil || last != s.last {
		s.fail(fmt.Sprintf("last index read back %d, reference %d", last, s.last))
	}
	for j := uint64(1); j <= s.maxIdx+2; j++ {
		e, err := s.cdb.GetRaftEntry(j)
		r, live := s.log[j]
		if live && j <= s.last {
			if err != nil {
				s.fail(fmt.Sprintf("index %d: stored entry not returned (%v)", j, err))
				continue
			}
			if int(e.Type) != r.typ || e.Term != r.term || e.Index != r.index || !bytes.Equal(e.Data, r.data) {
				s.fail(fmt.Sprintf("index %d: returned entry (type %d term %d index %d) is not the one most recently stored (type %d term %d index %d)",
					j, int(e.Type), e.Term, e.Index, r.typ, r.term, r.index))
			}
			if r.typ == int(consensus.EntryBlock) && r.blk != nil {
				b, err := s.cdb.GetBlock(e.Data)
				if err != nil {
					s.fail(fmt.Sprintf("index %d: block of the entry not found (%v)", j, err))
				} else {
					got, _ := proto.Encode(b)
					want, _ := proto.Encode(r.blk.b)
					if !bytes.Equal(got, want) {
						s.fail(fmt.Sprintf("index %d: entry carries a different block than the one written with it", j))
					}
				}
			}
		} else if err == nil {
			s.fail(fmt.Sprintf("index %d: an entry is returned (type %d term %d) although it was removed or never written (last=%d)", j, int(e.Type), e.Term, s.last))
		} else if !errors.Is(err, chain.ErrNoWalEntry) {
			s.fail(fmt.Sprintf("index %d: unexpected error %v", j, err))
		}
	}
	// hard state, snapshot, identity survive
	hs, err := s.cdb.GetHardState()
	if s.hs == nil {
		if err == nil {
			s.fail("a hard state is returned although none was written")
		}
	} else if err != nil || hs.Term != s.hs.Term || hs.Vote != s.hs.Vote || hs.Commit != s.hs.Commit {
		s.fail(fmt.Sprintf("hard state read back %s, written %s", showHS(hs), showHS(s.hs)))
	}
	sn, _ := s.cdb.GetSnapshot()
	if (sn == nil) != (s.snap == nil) {
		s.fail("snapshot presence differs from what was written")
	} else if !sameSnap(sn, s.snap) {
		s.fail("snapshot read back differs from the one written")
	}
	id, _ := s.cdb.GetIdentity()
	if (id == nil) != (s.ident == nil) || (id != nil && *id != *s.ident) {
		s.fail(fmt.Sprintf("identity read back %s, written %s", showIdent(id), showIdent(s.ident)))
	}
}

// sameSnap: the snapshot read back is the one written, as far as the property is concerned: index, term,
// configuration (node and learner ids as sets) and the data bytes (a re-encoding of the envelope is harmless).
func sameSnap(a, b *raftpb.Snapshot) bool {
	if a == nil || b == nil {
		return a == b
	}
	set := func(l []uint64) string {
		c := append([]uint64{}, l...)
		sort.Slice(c, func(i, j int) bool { return c[i] < c[j] })
		return fmt.Sprint(c)
	}
	return a.Metadata.Index == b.Metadata.Index && a.Metadata.Term == b.Metadata.Term && bytes.Equal(a.Data, b.Data) &&
		set(a.Metadata.ConfState.Nodes) == set(b.Metadata.ConfState.Nodes) && set(a.Metadata.ConfState.Learners) == set(b.Metadata.ConfState.Learners)
}

// sameEntry: the raftpb entry handed back is the one acknowledged: type, term, index and the same payload —
// the same bytes, or bytes that decode to the same block / the same conf change (an equivalent re-encoding is harmless).
func sameEntry(e raftpb.Entry, wtype raftpb.EntryType, wterm, windex uint64, wdata []byte) bool {
	if e.Type != wtype || e.Term != wterm || e.Index != windex {
		return false
	}
	if bytes.Equal(e.Data, wdata) {
		return true
	}
	if len(e.Data) == 0 || len(wdata) == 0 {
		return false
	}
	if wtype == raftpb.EntryConfChange {
		var a, b raftpb.ConfChange
		return a.Unmarshal(e.Data) == nil && b.Unmarshal(wdata) == nil && a.ID == b.ID && a.Type == b.Type && a.NodeID == b.NodeID && bytes.Equal(a.Context, b.Context)
	}
	ba, err1 := raftv2.VerifUnmarshalBlock(e.Data)
	bb, err2 := raftv2.VerifUnmarshalBlock(wdata)
	if err1 != nil || err2 != nil {
		return false
	}
	x, _ := proto.Encode(ba)
	y, _ := proto.Encode(bb)
	return bytes.Equal(ba.BlockHash(), bb.BlockHash()) && bytes.Equal(x, y)
}

func showReadErr(err error) string {
	var nb *chain.ErrNoBlock
	switch {
	case errors.Is(err, raftv2.ErrWalGetHardState):
		return "hardstate"
	case errors.Is(err, chain.ErrNoWalEntry):
		return "noentry"
	case errors.Is(err, chain.ErrMismatchedEntry):
		return "mismatch"
	case errors.Is(err, raftv2.ErrWalEntryTooLowTerm):
		return "lowterm"
	case errors.Is(err, raftv2.ErrInvalidWalEntry):
		return "invalidwal"
	case errors.As(err, &nb):
		return "noblock"
	case strings.Contains(err.Error(), "block hash invalid"):
		return "nilhash"
	}
	return "other"
}

func (s *session) readall() {
	var snap *raftpb.Snapshot
	arg := "nil"
	if s.rng.Chance(2, 3) {
		idx := uint64(s.rng.Intn(int(s.last) + 2))
		term := uint64(0)
		switch s.rng.Intn(4) {
		case 0:
			term = s.term + 1
		case 1:
			term = uint64(s.rng.Intn(int(s.term) + 1))
		}
		snap = &raftpb.Snapshot{Metadata: raftpb.SnapshotMetadata{Index: idx, Term: term}}
		arg = fmt.Sprintf("%d,%d", idx, term)
	}
	w := s.wal
	var (
		id   *consensus.RaftIdentity
		st   *raftpb.HardState
		ents []raftpb.Entry
		err  error
	)
	out, _ := vh.Guard(func() string {
		id, st, ents, err = w.ReadAll(snap)
		if err != nil {
			return "err:" + showReadErr(err)
		}
		var b strings.Builder
		fmt.Fprintf(&b, "id=%s hs=%s ents=%d", showIdent(id), showHS(st), len(ents))
		for _, e := range ents {
			switch {
			case e.Type == raftpb.EntryConfChange:
				fmt.Fprintf(&b, " c,%d,%d,%s", e.Term, e.Index, hx(e.Data))
			case e.Data == nil:
				fmt.Fprintf(&b, " n,%d,%d,-", e.Term, e.Index)
			default:
				blk, uerr := raftv2.VerifUnmarshalBlock(e.Data)
				if uerr != nil {
					fmt.Fprintf(&b, " n,%d,%d,undecodable", e.Term, e.Index)
				} else {
					fmt.Fprintf(&b, " n,%d,%d,%s/%d", e.Term, e.Index, hx(blk.BlockHash()), blk.BlockNo())
				}
			}
		}
		return b.String()
	})
	s.op("readall "+arg, out, err == nil && len(ents) > 0)
	if err != nil {
		s.run.Count("readall:" + out)
	} else {
		s.run.Count("readall:ok")
	}
	if !s.valid {
		return
	}
	// oracle: the restarted node hands the consensus library the log it acknowledged
	var snapIdx, snapTerm uint64
	if snap != nil {
		snapIdx, snapTerm = snap.Metadata.Index, snap.Metadata.Term
	}
	expectOK := s.hs != nil
	var want []*refEntry
	for i := snapIdx + 1; i <= s.last && expectOK; i++ {
		r := s.log[i]
		if r == nil || r.term < snapTerm {
			expectOK = false
			break
		}
		want = append(want, r)
	}
	if !expectOK {
		if err == nil {
			s.fail(fmt.Sprintf("ReadAll(%s) succeeds although the log after the snapshot is incomplete or the hard state is missing", arg))
		}
		return
	}
	if err != nil {
		s.fail(fmt.Sprintf("ReadAll(%s) fails (%v) on a complete log", arg, err))
		return
	}
	if len(ents) != len(want) {
		s.fail(fmt.Sprintf("ReadAll(%s) returns %d entries, reference has %d", arg, len(ents), len(want)))
		return
	}
	for k, r := range want {
		e := ents[k]
		var wdata []byte
		wtype := raftpb.EntryNormal
		switch r.typ {
		case int(consensus.EntryBlock):
			wdata, _ = raftv2.VerifMarshalBlock(r.blk.b)
		case int(consensus.EntryConfChange):
			wdata, wtype = r.data, raftpb.EntryConfChange
		}
		if r.raw != nil {
			wdata, wtype = r.raw.Data, r.raw.Type
		}
		if !sameEntry(e, wtype, r.term, r.index, wdata) {
			s.fail(fmt.Sprintf("ReadAll(%s): entry %d handed back to raft differs from the one acknowledged", arg, r.index))
		}
	}
	if st == nil || st.Term != s.hs.Term || st.Vote != s.hs.Vote || st.Commit != s.hs.Commit {
		s.fail("ReadAll: hard state differs from the one written")
	}
}

func showRaftEnts(ents []raftpb.Entry) string {
	var b strings.Builder
	for _, e := range ents {
		switch {
		case e.Type == raftpb.EntryConfChange:
			fmt.Fprintf(&b, " c,%d,%d,%s", e.Term, e.Index, hx(e.Data))
		case e.Data == nil:
			fmt.Fprintf(&b, " n,%d,%d,-", e.Term, e.Index)
		default:
			blk, uerr := raftv2.VerifUnmarshalBlock(e.Data)
			if uerr != nil {
				fmt.Fprintf(&b, " n,%d,%d,undecodable", e.Term, e.Index)
			} else {
				fmt.Fprintf(&b, " n,%d,%d,%s/%d", e.Term, e.Index, hx(blk.BlockHash()), blk.BlockNo())
			}
		}
	}
	return b.String()
}

// handed: what the restart path handed (or would hand) to the consensus library
type handed struct {
	class string // nowal:… | emptylog | fatal:… | raft-panics | ok
	snap  *raftpb.Snapshot
	hs    raftpb.HardState
	ents  []raftpb.Entry
	ident consensus.RaftIdentity
	srv   *raftv2.VerifServer
}

func (h *handed) String() string {
	if h.class != "ok" && h.class != "raft-panics" {
		return h.class
	}
	sn := "none"
	if h.snap != nil {
		sn = fmt.Sprintf("%d,%d", h.snap.Metadata.Index, h.snap.Metadata.Term)
	}
	id := h.ident
	return fmt.Sprintf("%s snap=%s hs=%s id=%s ents=%d%s", h.class, sn, showHS(&h.hs), showIdent(&id), len(h.ents), showRaftEnts(h.ents))
}

// handOver runs the restart path of a node configured as cl on the WAL cdb: the real HasWal, then (after
// checking with the non-fatal getters that none of the logger.Fatal exits of the path is due) the real
// restartNode: loadSnapshot, replayWAL, Cluster.Recover and the restart of etcd/raft on what was replayed.
// mk (may be nil) builds the node the returned server continues with.
func handOver(cdb *chain.ChainDB, cl *raftv2.Cluster, tr *raftv2.VerifTransport, mk func(*raftlib.Config, []raftlib.Peer) raftlib.Node) *handed {
	h := &handed{}
	has, err := cl.VerifHasWal(cdb)
	if !has {
		switch {
		case err == nil:
			h.class = "nowal:noidentity"
		case errors.Is(err, chain.ErrWalNotEqualIdentityName):
			h.class = "nowal:name"
		case errors.Is(err, chain.ErrWalNotEqualIdentityPeerID):
			h.class = "nowal:peer"
		case errors.Is(err, chain.ErrWalNoHardState):
			h.class = "nowal:nohardstate"
		default:
			h.class = "nowal:other"
		}
		return h
	}
	wal := raftv2.NewWalDB(cdb)
	last, _ := cdb.GetRaftEntryLastIdx()
	snapshot, _ := cdb.GetSnapshot()
	if last == 0 && snapshot == nil {
		h.class = "emptylog"
		return h
	}
	id, st, ents, err := wal.ReadAll(snapshot)
	switch {
	case err != nil:
		h.class = "fatal:read:" + showReadErr(err)
		return h
	case id == nil || id.ClusterID == 0:
		h.class = "fatal:identity"
		return h
	case snapshot != nil && snapshot.Metadata.Index == 0:
		h.class = "fatal:snap-out-of-date"
		return h
	}
	h.snap, h.hs, h.ents, h.ident = snapshot, *st, ents, *id
	srv, ho, panicked := raftv2.VerifRestartServer(cdb, cl, tr, mk)
	h.srv = srv
	h.class = "ok"
	if panicked != nil {
		h.class = "raft-panics"
	}
	// from here on: what is really in the storage handed to etcd/raft
	h.hs, h.ents, h.ident = ho.Hard, ho.Ents, ho.Identity
	if ho.Snap.Metadata.Index == 0 {
		h.snap = nil
	} else {
		sn := ho.Snap
		h.snap = &sn
	}
	return h
}

// expectHandOver: what the property expects of a restart in the reference state r for a node configured (name, peer).
// wantOK: the WAL is the node's, complete above its snapshot and readable, so the library must be handed exactly `want`.
func (r *refState) expectHandOver(name, peer string) (class string, want []*refEntry) {
	switch {
	case r.ident == nil:
		return "nowal", nil
	case r.ident.Name != name || r.ident.PeerID != peer || r.hs == nil:
		return "nowal", nil
	case r.last == 0 && r.snap == nil:
		return "emptylog", nil
	}
	var snapIdx, snapTerm uint64
	if r.snap != nil {
		snapIdx, snapTerm = r.snap.Metadata.Index, r.snap.Metadata.Term
	}
	for i := snapIdx + 1; i <= r.last; i++ {
		x := r.log[i]
		if x == nil || x.term < snapTerm {
			return "fatal", nil
		}
		want = append(want, x)
	}
	if r.ident.ClusterID == 0 || (r.snap != nil && snapIdx == 0) {
		return "fatal", nil
	}
	return "handed", want
}

// checkHanded compares what was handed over with the reference entries (byte for byte with what etcd/raft gave to SaveEntry).
func (s *session) checkHanded(where string, h *handed, r *refState, want []*refEntry) {
	if len(h.ents) != len(want) {
		s.fail(fmt.Sprintf("%s: the restarted node hands %d entries to the consensus library, it acknowledged %d after its snapshot", where, len(h.ents), len(want)))
		return
	}
	for k, x := range want {
		e := h.ents[k]
		var wdata []byte
		wtype := raftpb.EntryNormal
		switch x.typ {
		case int(consensus.EntryBlock):
			wdata, _ = raftv2.VerifMarshalBlock(x.blk.b)
		case int(consensus.EntryConfChange):
			wdata, wtype = x.data, raftpb.EntryConfChange
		}
		if x.raw != nil {
			wdata, wtype = x.raw.Data, x.raw.Type
		}
		if !sameEntry(e, wtype, x.term, x.index, wdata) {
			s.fail(fmt.Sprintf("%s: entry %d handed to the consensus library differs from the one acknowledged", where, x.index))
		}
	}
	// the commit index handed over is the stored one, or the snapshot's index if that is higher (what a snapshot contains is committed)
	wantCommit := uint64(0)
	if r.hs != nil {
		wantCommit = r.hs.Commit
	}
	if r.snap != nil && r.snap.Metadata.Index > wantCommit {
		wantCommit = r.snap.Metadata.Index
	}
	if r.hs == nil || h.hs.Term != r.hs.Term || h.hs.Vote != r.hs.Vote || h.hs.Commit != wantCommit {
		s.fail(fmt.Sprintf("%s: hard state handed over %s, acknowledged %s", where, showHS(&h.hs), showHS(r.hs)))
	}
	if !sameSnap(h.snap, r.snap) {
		s.fail(where + ": snapshot handed over differs from the one written last")
	}
	if h.ident != *r.ident {
		s.fail(where + ": identity handed over differs from the one written")
	}
}

func peerOfB58(b58 string) types.PeerID {
	for _, p := range nodePeers {
		if types.IDB58Encode(p) == b58 {
			return p
		}
	}
	return ""
}

// handover: the restart path on the session's WAL, for a node configured mostly as the stored identity says.
func (s *session) handover() {
	name, peer := fmt.Sprintf("node%d", s.rng.Intn(3)), nodePeers[s.rng.Intn(3)]
	if s.ident != nil && s.rng.Chance(5, 6) {
		name, peer = s.ident.Name, peerOfB58(s.ident.PeerID)
	}
	cl := raftv2.VerifNewClusterNamed(name, peer)
	cfg := cl.VerifIdentity()
	h := handOver(s.cdb, cl, &raftv2.VerifTransport{}, nil)
	if h.srv != nil {
		h.srv.Cluster() // nothing runs on this server: it only held the hand-over
	}
	s.op(fmt.Sprintf("handover %s,%s", dash(cfg.Name), dash(cfg.PeerID)), h.String(), h.class == "ok")
	s.run.Count("handover:" + strings.SplitN(h.class, ":", 2)[0])
	if !s.valid {
		return
	}
	r := s.ref()
	class, want := r.expectHandOver(cfg.Name, cfg.PeerID)
	got := strings.SplitN(h.class, ":", 2)[0]
	switch class {
	case "handed":
		if got != "ok" && got != "raft-panics" {
			s.fail(fmt.Sprintf("restart of a node with a complete WAL does not hand the log over (%s)", h.class))
			return
		}
		s.checkHanded("restart", h, &r, want)
	case "fatal":
		if got == "ok" || got == "raft-panics" {
			s.fail("restart hands a log over although the stored log is incomplete above the snapshot (or identity/snapshot unusable)")
		}
	default:
		if got != class {
			s.fail(fmt.Sprintf("restart decision %s, expected %s (identity %s, config %s/%s)", h.class, class, showIdent(s.ident), cfg.Name, cfg.PeerID))
		}
	}
}

func (s *session) ofblock() {
	if len(s.blocks) == 0 {
		return
	}
	b := s.blocks[s.rng.Intn(len(s.blocks))]
	var e *consensus.WalEntry
	var err error
	out, _ := vh.Guard(func() string {
		idx, ierr := s.cdb.GetRaftEntryIndexOfBlock(b.hash)
		e, err = s.cdb.GetRaftEntryOfBlock(b.hash)
		if ierr != nil {
			return "none"
		}
		return fmt.Sprintf("%d:%s", idx, s.showGet(e, err))
	})
	s.op("ofblock "+hx(b.hash), out, err == nil)
	if !s.valid {
		return
	}
	idx, written := s.where[string(b.hash)]
	r := s.log[idx]
	liveHere := written && idx <= s.last && r != nil && r.typ == int(consensus.EntryBlock) && bytes.Equal(r.data, b.hash)
	switch {
	case liveHere:
		s.run.Count("ofblock:live")
		if err != nil || e.Index != idx || !bytes.Equal(e.Data, b.hash) {
			s.fail(fmt.Sprintf("GetRaftEntryOfBlock does not return the live entry %d of block %s", idx, hx(b.hash)))
		}
	case err != nil:
		s.run.Count("ofblock:removed-or-never-written->absent")
	default:
		// the block's entry was removed by a conflicting overwrite, yet an entry is reported for it
		s.run.Count("ofblock:removed->OTHER-ENTRY-RETURNED(lead10,stale-inverse-index)")
		if staleInverseIsViolation {
			s.run.FailKnown(fmt.Sprintf("GetRaftEntryOfBlock(%s): the entry of this block was removed by a conflicting overwrite, but entry %d (type %d, data %s) is reported for it",
				hx(b.hash), e.Index, int(e.Type), hx(e.Data)), "C16-stale-inverse-index", map[string]interface{}{"session": append([]string{}, s.ops...)})
		}
	}
}

func (s *session) ccget() {
	if len(s.ccids) == 0 {
		return
	}
	id := s.ccids[s.rng.Intn(len(s.ccids))]
	out, _ := vh.Guard(func() string {
		p, err := s.cdb.GetConfChangeProgress(id)
		if err != nil {
			return "err"
		}
		if p == nil {
			return "none"
		}
		return fmt.Sprint(int(p.State))
	})
	s.op(fmt.Sprintf("ccget %d", id), out, out != "none")
}

// ---- batch generation

// a real peer id: Member JSON (conf-change context, snapshot data) only round-trips with one
var somePeerID = func() []byte {
	_, pub, err := crypto.GenerateSecp256k1Key(bytes.NewReader(bytes.Repeat([]byte{7}, 64)))
	if err != nil {
		panic(err)
	}
	pid, err := types.IDFromPublicKey(pub)
	if err != nil {
		panic(err)
	}
	return []byte(pid)
}()

// three nodes with real p2p peer ids (a raft identity carries the base58 form)
var nodePeers = func() []types.PeerID {
	var out []types.PeerID
	for i := 0; i < 3; i++ {
		_, pub, err := crypto.GenerateSecp256k1Key(bytes.NewReader(bytes.Repeat([]byte{byte(11 + i)}, 64)))
		if err != nil {
			panic(err)
		}
		pid, err := types.IDFromPublicKey(pub)
		if err != nil {
			panic(err)
		}
		out = append(out, pid)
	}
	return out
}()

type genEntry struct {
	typ   int // 0 block 1 empty 2 conf, >2 other code
	term  uint64
	index uint64
	data  []byte
	blk   *blk
	ccid  uint64
	raw   raftpb.Entry
}

func (s *session) confChange(ccid uint64) []byte {
	m := &consensus.Member{MemberAttr: types.MemberAttr{ID: uint64(100 + s.rng.Intn(5)), Name: fmt.Sprintf("n%d", s.rng.Intn(9)),
		Address: "/ip4/127.0.0.1/tcp/7000", PeerID: somePeerID}}
	ctx, err := json.Marshal(m)
	if err != nil {
		panic(err)
	}
	cc := raftpb.ConfChange{ID: ccid, Type: raftpb.ConfChangeType(s.rng.Intn(2)), NodeID: m.ID, Context: ctx}
	d, err := cc.Marshal()
	if err != nil || len(ctx) == 0 {
		panic(err)
	}
	return d
}

// contiguous ascending batch starting at first, n entries, mixed kinds
func (s *session) genBatch(first uint64, n int) []*genEntry {
	var out []*genEntry
	for k := 0; k < n; k++ {
		g := &genEntry{term: s.term, index: first + uint64(k)}
		switch r := s.rng.Intn(10); {
		case r < 5:
			g.typ = 0
			if len(s.blocks) > 0 && s.rng.Chance(1, 6) {
				g.blk = s.blocks[s.rng.Intn(len(s.blocks))] // the same block proposed again
			} else {
				g.blk = s.newBlock()
			}
			g.data = g.blk.hash
			d, _ := raftv2.VerifMarshalBlock(g.blk.b)
			g.raw = raftpb.Entry{Type: raftpb.EntryNormal, Term: g.term, Index: g.index, Data: d}
		case r < 8:
			g.typ = 1
			g.raw = raftpb.Entry{Type: raftpb.EntryNormal, Term: g.term, Index: g.index}
		default:
			g.typ = 2
			if s.rng.Chance(1, 5) {
				g.ccid = 0
			} else {
				g.ccid = uint64(1 + s.rng.Intn(6))
			}
			s.ccids = append(s.ccids, g.ccid)
			g.data = s.confChange(g.ccid)
			g.raw = raftpb.Entry{Type: raftpb.EntryConfChange, Term: g.term, Index: g.index, Data: g.data}
		}
		out = append(out, g)
	}
	return out
}

// where the next batch starts and how long it is: the four overwrite shapes of the property
func (s *session) shape() (first uint64, n int, kind string) {
	if s.last == 0 || s.rng.Chance(2, 5) {
		return s.last + 1, 1 + s.rng.Intn(4), "append"
	}
	lo := uint64(1)
	if s.last > 5 && s.rng.Chance(3, 4) {
		lo = s.last - 4
	}
	first = lo + uint64(s.rng.Intn(int(s.last-lo)+1))
	suffix := int(s.last - first + 1)
	switch s.rng.Intn(3) {
	case 0:
		if suffix > 1 {
			return first, 1 + s.rng.Intn(suffix-1), "conflict-shorter"
		}
		return first, 1, "conflict-equal"
	case 1:
		return first, suffix, "conflict-equal"
	}
	return first, suffix + 1 + s.rng.Intn(3), "conflict-longer"
}

func (s *session) applyRef(b []*genEntry, viaSave bool) {
	first := b[0].index
	for j := first; j <= s.last; j++ {
		delete(s.log, j)
	}
	for _, g := range b {
		r := &refEntry{typ: g.typ, term: g.term, index: g.index, data: g.data, blk: g.blk}
		if viaSave {
			raw := g.raw
			r.raw = &raw
		}
		s.log[g.index] = r
		if g.typ == 0 && g.blk != nil {
			s.where[string(g.blk.hash)] = g.index
		}
		if g.index > s.maxIdx {
			s.maxIdx = g.index
		}
	}
	s.last = b[len(b)-1].index
}

func (s *session) save() {
	first, n, kind := s.shape()
	if kind != "append" && s.rng.Chance(1, 2) {
		s.term++
	}
	b := s.genBatch(first, n)
	state := raftpb.HardState{}
	if s.rng.Chance(2, 3) {
		state = raftpb.HardState{Term: s.term, Vote: uint64(s.rng.Intn(4)), Commit: uint64(s.rng.Intn(int(first) + 1))}
	}
	s.saveWith(state, b, kind)
}

// saveWith: one SaveEntry call on the session's live WalDB object (b may be empty: hard state only)
func (s *session) saveWith(state raftpb.HardState, b []*genEntry, kind string) {
	s.journaled("save", func() { s.saveWith0(state, b, kind) })
}

func (s *session) saveWith0(state raftpb.HardState, b []*genEntry, kind string) {
	var toks []string
	var raws []raftpb.Entry
	for _, g := range b {
		raws = append(raws, g.raw)
		switch g.typ {
		case 0:
			toks = append(toks, fmt.Sprintf("b,%d,%d,%s", g.term, g.index, g.blk.tok()))
			s.run.Count("entry:block")
		case 1:
			toks = append(toks, fmt.Sprintf("e,%d,%d", g.term, g.index))
			s.run.Count("entry:empty")
		default:
			toks = append(toks, fmt.Sprintf("c,%d,%d,%s,%d", g.term, g.index, hx(g.data), g.ccid))
			s.run.Count("entry:confchange")
		}
	}
	out := res(func() error { return s.wal.SaveEntry(state, raws) })
	s.op(strings.TrimSpace(fmt.Sprintf("save %d,%d,%d %s", state.Term, state.Vote, state.Commit, strings.Join(toks, " "))), out, out == "ok")
	s.run.Count("batch:" + kind)
	if out == "ok" {
		if len(b) > 0 {
			s.applyRef(b, true)
		}
		if state.Term != 0 || state.Vote != 0 || state.Commit != 0 {
			st := state
			s.hs = &st
		}
	} else {
		s.fail("SaveEntry of a well-formed batch ended with " + out)
	}
}

// burst: several SaveEntry calls on the same live WalDB with no restart in between (what a running
// node does between two Ready rounds); each hard state differs from the previous one handed to
// SaveEntry in exactly one of Term / Vote / Commit; entries are absent, or a batch. The restart and
// the read-back follow the burst: the hard state read back must be the last one handed over.
func (s *session) burst() {
	prev := raftpb.HardState{Term: s.term, Vote: 0, Commit: uint64(s.rng.Intn(int(s.last) + 1))}
	if s.hs != nil && s.rng.Chance(1, 2) && (s.hs.Term != 0 || s.hs.Vote != 0 || s.hs.Commit != 0) {
		prev = *s.hs
	} else {
		s.saveWith(prev, nil, "hardstate-only")
		s.run.Count("burst:first-state-saved")
	}
	k := 1 + s.rng.Intn(4)
	for i := 0; i < k; i++ {
		next := prev
		switch s.rng.Intn(4) {
		case 0:
			next.Term++
			if next.Term > s.term {
				s.term = next.Term
			}
			s.run.Count("burst:only-term-differs")
		case 1, 2:
			next.Vote = uint64(1 + (int(prev.Vote)+s.rng.Intn(3))%4)
			if next.Vote == prev.Vote {
				next.Vote++
			}
			s.run.Count("burst:only-vote-differs")
		default:
			next.Commit++
			s.run.Count("burst:only-commit-differs")
		}
		var b []*genEntry
		kind := "hardstate-only"
		if s.rng.Chance(1, 3) {
			first, n, kd := s.shape()
			b, kind = s.genBatch(first, n), kd
		}
		s.saveWith(next, b, kind)
		prev = next
		if s.rng.Chance(1, 5) {
			s.saveWith(raftpb.HardState{}, nil, "empty-hardstate-no-entries") // empty Ready: nothing to persist
		}
	}
	s.run.Count("op:burst")
}

// direct ChainDB.WriteRaftEntry; wellFormed=false produces the malformed stream
func (s *session) write(wellFormed bool) {
	k := ""
	if wellFormed {
		k = "write"
	}
	s.journaled(k, func() { s.write0(wellFormed) })
}

// writeBatch: a direct, well-formed ChainDB.WriteRaftEntry of the given batch.
func (s *session) writeBatch(b []*genEntry, kind string) {
	s.journaled("write", func() {
		var toks []string
		var ents []*consensus.WalEntry
		var blocks []*types.Block
		var ccs []*raftpb.ConfChange
		for _, g := range b {
			ents = append(ents, &consensus.WalEntry{Type: consensus.EntryType(g.typ), Term: g.term, Index: g.index, Data: g.data})
			var blkp *types.Block
			var cc *raftpb.ConfChange
			switch g.typ {
			case 0:
				blkp = g.blk.b
				toks = append(toks, fmt.Sprintf("b,%d,%d,%s,%s", g.term, g.index, hx(g.data), g.blk.tok()))
			case 1:
				toks = append(toks, fmt.Sprintf("e,%d,%d,%s", g.term, g.index, hx(g.data)))
			default:
				cc = &raftpb.ConfChange{ID: g.ccid}
				toks = append(toks, fmt.Sprintf("c,%d,%d,%s,%d", g.term, g.index, hx(g.data), g.ccid))
			}
			blocks, ccs = append(blocks, blkp), append(ccs, cc)
			if g.index > s.maxIdx {
				s.maxIdx = g.index
			}
		}
		out := res(func() error { return s.cdb.WriteRaftEntry(ents, blocks, ccs) })
		s.op("write "+strings.Join(toks, " "), out, out == "ok")
		s.run.Count("batch:" + kind + "(direct)")
		if out == "ok" {
			s.applyRef(b, false)
		} else {
			s.fail("WriteRaftEntry of a well-formed batch ended with " + out)
		}
	})
}

func (s *session) write0(wellFormed bool) {
	var b []*genEntry
	kind := ""
	if wellFormed {
		first, n, k := s.shape()
		b, kind = s.genBatch(first, n), k
	} else {
		switch s.rng.Intn(7) {
		case 0:
			kind = "ill:empty-batch"
		case 1:
			kind = "ill:gap"
			b = s.genBatch(s.last+2+uint64(s.rng.Intn(3)), 1+s.rng.Intn(3))
		case 2:
			kind = "ill:descending"
			b = s.genBatch(uint64(2+s.rng.Intn(4)), 2)
			b[1].index = b[0].index - 1
		case 3:
			kind = "ill:holes"
			b = s.genBatch(s.last+1, 3)
			b[1].index += 2
			b[2].index += 4
		case 4:
			kind = "ill:type-code"
			b = s.genBatch(s.last+1, 2)
			b[1].typ, b[1].blk, b[1].data = 3+s.rng.Intn(100), nil, s.rng.Bytes(2)
		case 5:
			kind = "ill:nil-block"
			b = s.genBatch(s.last+1, 2)
			b[1].typ, b[1].blk, b[1].data = 0, nil, s.rng.Bytes(4)
		default:
			kind = "ill:index0-or-data-not-hash"
			b = s.genBatch(uint64(s.rng.Intn(2)), 2)
			if b[0].typ == 0 {
				b[0].data = s.rng.Bytes(3)
			}
		}
		s.valid = false
	}
	var toks []string
	var ents []*consensus.WalEntry
	var blocks []*types.Block
	var ccs []*raftpb.ConfChange
	for _, g := range b {
		ents = append(ents, &consensus.WalEntry{Type: consensus.EntryType(g.typ), Term: g.term, Index: g.index, Data: g.data})
		var blkp *types.Block
		var cc *raftpb.ConfChange
		switch {
		case g.typ == 0 && g.blk != nil:
			blkp = g.blk.b
			toks = append(toks, fmt.Sprintf("b,%d,%d,%s,%s", g.term, g.index, hx(g.data), g.blk.tok()))
		case g.typ == 0:
			toks = append(toks, fmt.Sprintf("b,%d,%d,%s,nil", g.term, g.index, hx(g.data)))
		case g.typ == 1:
			toks = append(toks, fmt.Sprintf("e,%d,%d,%s", g.term, g.index, hx(g.data)))
		case g.typ == 2:
			cc = &raftpb.ConfChange{ID: g.ccid}
			toks = append(toks, fmt.Sprintf("c,%d,%d,%s,%d", g.term, g.index, hx(g.data), g.ccid))
		default:
			toks = append(toks, fmt.Sprintf("t%d,%d,%d,%s", g.typ, g.term, g.index, hx(g.data)))
		}
		blocks = append(blocks, blkp)
		ccs = append(ccs, cc)
		if g.index > s.maxIdx {
			s.maxIdx = g.index
		}
	}
	out := res(func() error { return s.cdb.WriteRaftEntry(ents, blocks, ccs) })
	s.op(strings.TrimSpace("write "+strings.Join(toks, " ")), out, out == "ok")
	s.run.Count("batch:" + kind + "(direct)")
	s.run.Count("write-result:" + out)
	if wellFormed {
		if out == "ok" {
			s.applyRef(b, false)
		} else {
			s.fail("WriteRaftEntry of a well-formed batch ended with " + out)
		}
	}
}

func (s *session) stepOnce(malformed bool) {
	r := s.rng.Intn(100)
	switch {
	case r < 34:
		s.save()
	case r < 50:
		s.burst()
	case r < 62:
		s.write(!malformed || s.rng.Chance(1, 3))
	case r < 68:
		h := raftpb.HardState{Term: s.term, Vote: uint64(s.rng.Intn(4)), Commit: uint64(s.rng.Intn(int(s.last) + 1))}
		if s.rng.Chance(1, 6) {
			h = raftpb.HardState{}
		}
		s.journaled("hard", func() {
			out := res(func() error { return s.cdb.WriteHardState(&h) })
			s.op(fmt.Sprintf("hard %d,%d,%d", h.Term, h.Vote, h.Commit), out, true)
			s.hs = &h
		})
		s.run.Count("op:hard")
	case r < 74:
		b := s.newBlock()
		s.blocks = s.blocks[:len(s.blocks)-1] // not a WAL block
		idx, term := uint64(s.rng.Intn(int(s.last)+1)), uint64(s.rng.Intn(int(s.term)+1))
		var members []*consensus.Member
		for k := 0; k < s.rng.Intn(3); k++ {
			members = append(members, &consensus.Member{MemberAttr: types.MemberAttr{ID: uint64(k + 1), Name: fmt.Sprintf("m%d", k), Address: "/ip4/127.0.0.1/tcp/1", PeerID: somePeerID}})
		}
		data, _ := consensus.NewSnapshotData(members, nil, b.b).Encode()
		sn := &raftpb.Snapshot{Data: data, Metadata: raftpb.SnapshotMetadata{Index: idx, Term: term, ConfState: raftpb.ConfState{Nodes: []uint64{1, 2, uint64(3 + s.rng.Intn(3))}}}}
		s.journaled("snap", func() {
			out := res(func() error { return s.cdb.WriteSnapshot(sn) })
			s.op(fmt.Sprintf("snap %d,%d,%s", idx, term, b.tok()), out, true)
			s.snap = sn
		})
		s.run.Count("op:snap")
	case r < 79:
		id := &consensus.RaftIdentity{ClusterID: uint64(s.rng.Intn(3)), ID: uint64(s.rng.Intn(5)), Name: fmt.Sprintf("node%d", s.rng.Intn(3)), PeerID: types.IDB58Encode(nodePeers[s.rng.Intn(3)])}
		if s.rng.Chance(1, 8) {
			id = &consensus.RaftIdentity{}
		}
		s.journaled("ident", func() {
			out := res(func() error { return s.cdb.WriteIdentity(id) })
			s.op(fmt.Sprintf("ident %d,%d,%s,%s", id.ClusterID, id.ID, dash(id.Name), dash(id.PeerID)), out, true)
			s.ident = id
		})
		s.run.Count("op:ident")
	case r < 84:
		b := s.newBlock()
		s.blocks = s.blocks[:len(s.blocks)-1]
		out := res(func() error { s.cdb.VerifRaftConnectBest(b.b); return nil })
		s.op("best "+b.tok(), out, true)
		s.best = b
		s.run.Count("op:best")
	case r < 88:
		s.journaled("", func() {
			out := res(func() error { s.cdb.ClearWAL(); return nil })
			s.op("clear", out, true)
			s.log, s.last, s.hs, s.snap, s.ident = map[uint64]*refEntry{}, 0, nil, nil, nil
		})
		s.run.Count("op:clear")
	case r < 95:
		if s.rng.Chance(1, 10) {
			out := res(func() error { return s.cdb.ResetWAL(nil) })
			s.op("reset nil", out, false)
			s.run.Count("op:reset-nil")
			break
		}
		term, commit := uint64(1+s.rng.Intn(int(s.term)+1)), uint64(s.rng.Intn(int(s.last)+3))
		var out string
		s.journaled("", func() {
			out = res(func() error { return s.cdb.ResetWAL(&types.HardStateInfo{Term: term, Commit: commit}) })
			s.op(fmt.Sprintf("reset %d,%d", term, commit), out, out == "ok")
		})
		s.run.Count("op:reset->" + out)
		s.log, s.snap, s.ident = map[uint64]*refEntry{}, nil, nil
		s.hs = &raftpb.HardState{Term: term, Commit: commit}
		if out == "ok" {
			// property: after ResetWAL last = commit and the snapshot is the best block
			s.last = commit
			if commit > s.maxIdx {
				s.maxIdx = commit
			}
			if s.best == nil {
				s.fail("ResetWAL succeeded without a best block")
			} else {
				data, _ := consensus.NewSnapshotData(nil, nil, s.best.b).Encode()
				s.snap = &raftpb.Snapshot{Data: data, Metadata: raftpb.SnapshotMetadata{Index: commit, Term: term}}
			}
		} else {
			s.last = 0 // panicked after ClearWAL + WriteHardState (no best block): documented, not atomic
			if s.best != nil {
				s.fail("ResetWAL with a best block ended with " + out)
			}
		}
	default:
		s.ccget()
		return
	}
	s.restart()
	s.dump()
	if s.rng.Chance(1, 2) {
		s.readall()
	}
	if s.rng.Chance(1, 2) {
		s.ofblock()
	}
	if s.rng.Chance(1, 3) {
		s.handover()
	}
}

func walSessions(run *vh.Run) {
	s := &session{run: run, rng: run.Rng, dir: filepath.Join(run.Out, "waldb")}
	nsess := run.Pick(500, 5000)
	for i := 0; i < nsess; i++ {
		s.cuts = s.rng.Chance(1, 3)
		s.start()
		malformed := i%6 == 5
		if malformed {
			run.Count("session:with-ill-formed-batches")
		} else {
			run.Count("session:well-formed")
		}
		if s.rng.Chance(3, 4) {
			b := s.newBlock()
			s.blocks = s.blocks[:len(s.blocks)-1]
			s.cdb.VerifRaftConnectBest(b.b)
			s.op("best "+b.tok(), "ok", true)
			s.best = b
		}
		n := 6 + s.rng.Intn(run.Pick(14, 24))
		for k := 0; k < n; k++ {
			s.stepOnce(malformed)
		}
		s.store.Close()
	}
	// a long log: indices beyond one byte (and, thorough, beyond a thousand), truncated across those boundaries, cleared
	{
		n := uint64(run.Pick(300, 1100))
		s.cuts = true
		s.start()
		b := s.genBatch(1, int(n))
		s.writeBatch(b, "long-append")
		s.restart()
		s.dump()
		s.term++
		for _, first := range []uint64{n - 3, 250, 1} {
			if first > s.last {
				continue
			}
			s.writeBatch(s.genBatch(first, 5), "long-truncate")
			s.restart()
			s.dump()
			s.readall()
			s.term++
			if s.last < n {
				s.writeBatch(s.genBatch(s.last+1, int(n-s.last)), "long-refill")
			}
		}
		s.journaled("", func() {
			out := res(func() error { s.cdb.ClearWAL(); return nil })
			s.op("clear", out, true)
			s.log, s.last, s.hs, s.snap, s.ident = map[uint64]*refEntry{}, 0, nil, nil, nil
		})
		s.restart()
		s.dump()
		s.store.Close()
		run.Count("session:long-log")
	}
	// the minimal scenario of lead 10, always present
	s.start()
	b1, b2 := s.newBlock(), s.newBlock()
	g := []*genEntry{{typ: 0, term: 1, index: 1, data: b1.hash, blk: b1}, {typ: 0, term: 1, index: 2, data: b2.hash, blk: b2}}
	for _, x := range g {
		d, _ := raftv2.VerifMarshalBlock(x.blk.b)
		x.raw = raftpb.Entry{Term: x.term, Index: x.index, Data: d}
	}
	w := s.wal
	out := res(func() error { return w.SaveEntry(raftpb.HardState{}, []raftpb.Entry{g[0].raw, g[1].raw}) })
	s.op(fmt.Sprintf("save 0,0,0 b,1,1,%s b,1,2,%s", b1.tok(), b2.tok()), out, true)
	s.applyRef(g, true)
	e := &genEntry{typ: 1, term: 2, index: 2, raw: raftpb.Entry{Term: 2, Index: 2}}
	out = res(func() error { return w.SaveEntry(raftpb.HardState{}, []raftpb.Entry{e.raw}) })
	s.op("save 0,0,0 e,2,2", out, true)
	s.applyRef([]*genEntry{e}, true)
	s.restart()
	s.dump()
	s.blocks = []*blk{b2}
	s.ofblock()
	s.store.Close()
	os.RemoveAll(s.dir)
}

// ---------------------------------------------------------------------------------------------
// membership

type mem struct {
	id         uint64
	name, addr string
	peer       []byte
}

func (m *mem) member() *consensus.Member {
	return &consensus.Member{MemberAttr: types.MemberAttr{ID: m.id, Name: m.name, Address: m.addr, PeerID: m.peer}}
}

func (m *mem) tok() string {
	ok := 0
	if _, err := types.ParseMultiaddr(m.addr); err == nil {
		ok = 1
	}
	return fmt.Sprintf("%d,%s,%s,%d,%s", m.id, dash(m.name), dash(m.addr), ok, hx(m.peer))
}

func vClass(err error) string {
	switch {
	case err == nil:
		return "ok"
	case errors.Is(err, raftv2.ErrCCMemberIsNil):
		return "nilmember"
	case errors.Is(err, consensus.ErrInvalidMemberID):
		return "invalidid"
	case errors.Is(err, raftv2.ErrCCAlreadyRemoved):
		return "removed"
	case errors.Is(err, raftv2.ErrInvalidMember):
		return "invalidmember"
	case errors.Is(err, raftv2.ErrCCAlreadyAdded):
		return "added"
	case errors.Is(err, raftv2.ErrDupBP):
		return "dup"
	case errors.Is(err, raftv2.ErrCCNoMemberToRemove):
		return "nomember"
	case errors.Is(err, raftv2.ErrInvCCType):
		return "invtype"
	}
	return "other"
}

func eClass(err error) string {
	switch {
	case err == nil:
		return "ok"
	case errors.Is(err, raftv2.ErrRaftStatusEmpty):
		return "statusempty"
	case errors.Is(err, raftv2.ErrUnhealtyNodeExist):
		return "unhealthy"
	case errors.Is(err, raftv2.ErrNotExitRaftProgress):
		return "noprogress"
	case errors.Is(err, raftv2.ErrRemoveHealthyNode):
		return "removehealthy"
	case errors.Is(err, raftv2.ErrInvalidMembershipReqType):
		return "invtype"
	}
	return "other"
}

type raftCfg struct {
	hasNode  bool
	statusID uint64
	leader   bool
	self     uint64
	last     uint64
	prog     []raftv2.VerifProgress
}

type memCase struct {
	run     *vh.Run
	applied []*mem
	removed []*mem
	cl      *raftv2.Cluster
	rc      raftCfg
	head    string // "A=… R=… raft=… P=…"
	health  map[uint64]int
	spec    map[uint64]bool // healthy by the specification, for the members GetClusterProgress reports on
	n       int
	wal     *chain.ChainDB // what the request / raft-log paths write conf-change progress to
}

func (c *memCase) build() bool {
	var am, rm []*consensus.Member
	var at, rt []string
	for _, m := range c.applied {
		am = append(am, m.member())
		at = append(at, m.tok())
	}
	for _, m := range c.removed {
		rm = append(rm, m.member())
		rt = append(rt, fmt.Sprint(m.id))
	}
	cl, err := raftv2.VerifNewCluster(am, rm, c.rc.self)
	if err != nil {
		return false
	}
	c.cl = cl
	c.head = fmt.Sprintf("A=%s R=%s", strings.Join(at, ";"), strings.Join(rt, ";"))
	return true
}

func (c *memCase) setRaft(rc raftCfg) string {
	c.rc = rc
	c.cl.SetNodeID(rc.self)
	c.cl.VerifSetRaft(rc.hasNode, rc.statusID, rc.leader, rc.last, rc.prog)
	var pt []string
	for _, p := range rc.prog {
		next := p.Next
		if next == 0 {
			next = p.Match + 1
		}
		act := 0
		if p.Active {
			act = 1
		}
		pt = append(pt, fmt.Sprintf("%d:%d:%d:%d:%d", p.ID, p.State, p.Match, next, act))
	}
	b := func(x bool) int {
		if x {
			return 1
		}
		return 0
	}
	if c.wal != nil {
		c.cl.VerifAttachServer(c.wal)
	}
	c.n, c.health, _ = c.cl.VerifMemberHealth()
	c.healthOracle()
	return fmt.Sprintf("raft=%d,%d,%d,%d,%d,%d P=%s", b(rc.hasNode), rc.statusID, b(rc.leader), rc.self, rc.last, raftv2.VerifSlowGap(), strings.Join(pt, ";"))
}

// healthOracle: the health classification that feeds the availability check, against its specification: a
// member is healthy iff it is this (leader) node itself, or raft replicates to it (not probing, not sending a
// snapshot) and what it has acknowledged (Match) is at most MaxSlowNodeGap behind the leader's last index.
// Nothing else of the progress row (Next, the optimistic send position; RecentActive) counts.
func (c *memCase) healthOracle() {
	c.spec = nil
	if c.health == nil {
		return
	}
	c.spec = map[uint64]bool{}
	gap := raftv2.VerifSlowGap()
	for _, p := range c.rc.prog {
		st, ok := c.health[p.ID]
		if !ok {
			continue
		}
		behind := uint64(0)
		if c.rc.last > p.Match {
			behind = c.rc.last - p.Match
		}
		want := p.ID == c.rc.self || (p.State == 1 && behind <= gap)
		c.spec[p.ID] = want
		c.run.Count(fmt.Sprintf("health-spec:state=%d healthy=%v", p.State, want))
		if p.State == 1 && !p.Active && st == 0 && p.ID != c.rc.self {
			c.run.Count("health-spec:observation(replicate row with RecentActive=false counts as healthy)")
		}
		if (st == 0) != want {
			next := p.Next
			if next == 0 {
				next = p.Match + 1
			}
			c.run.Fail(fmt.Sprintf("member %d is classified %s by GetClusterProgress: raft state %d, acknowledged index %d (next %d), leader's last index %d, allowed gap %d — the availability check counts healthy members from this",
				p.ID, map[bool]string{true: "healthy", false: "not healthy"}[st == 0], p.State, p.Match, next, c.rc.last, gap),
				map[string]interface{}{"cluster": c.head, "self": c.rc.self, "last": c.rc.last, "progress": fmt.Sprint(c.rc.prog)})
		}
	}
}

// one request against the current cluster and raft status
func (c *memCase) request(raftTok string, ccType int, m *mem) {
	var mm *consensus.Member
	mtok := "nil"
	var nodeID uint64
	if m != nil {
		mm = m.member()
		mtok = m.tok()
		nodeID = m.id
	}
	var verr, eerr error
	out, p := vh.Guard(func() string {
		verr = c.cl.VerifValidate(raftpb.ConfChangeType(ccType), mm)
		eerr = c.cl.VerifEnable(raftpb.ConfChangeType(ccType), nodeID)
		var hv []string
		for _, pr := range c.rc.prog {
			if st, ok := c.health[pr.ID]; ok {
				hv = append(hv, fmt.Sprintf("%d=%d", pr.ID, st))
			}
		}
		return fmt.Sprintf("%s %s acc=%v h=%d:%s", vClass(verr), eClass(eerr), m != nil && verr == nil && eerr == nil, c.n, strings.Join(hv, ","))
	})
	line := fmt.Sprintf("mem %s %s t=%d m=%s", c.head, raftTok, ccType, mtok)
	accepted := !p && m != nil && verr == nil && eerr == nil
	c.run.Op(line, out, accepted)
	c.run.Count(fmt.Sprintf("mem:t=%d validate=%s enable=%s", ccType, vClass(verr), eClass(eerr)))
	if p || m == nil {
		return
	}
	c.refusalOracle(line, out, "membership change accepted", ccType, m, accepted, true)
}

// refusalOracle: the refusal rules of the property. accepted: the request passed the gate under test;
// withHealth: the gate includes the availability check (the raft-log path does not).
func (c *memCase) refusalOracle(line, out, verb string, ccType int, m *mem, accepted, withHealth bool) {
	bad := func(why string) {
		c.run.Fail(verb+" although "+why, map[string]interface{}{"op": line, "answer": out})
	}
	inRemoved := false
	for _, r := range c.removed {
		inRemoved = inRemoved || r.id == m.id
	}
	var known *mem
	for _, a := range c.applied {
		if a.id == m.id {
			known = a
		}
	}
	switch ccType {
	case 0:
		for _, a := range c.applied {
			switch {
			case a.name == m.name && accepted:
				bad("it duplicates the name of member " + a.name)
			case a.id == m.id && accepted:
				bad(fmt.Sprintf("it duplicates the id %d of a member", a.id))
			case a.addr == m.addr && accepted:
				bad("it duplicates the address of member " + a.name)
			case bytes.Equal(a.peer, m.peer) && accepted:
				bad("it duplicates the peer id of member " + a.name)
			}
		}
		if inRemoved && accepted {
			bad(fmt.Sprintf("it re-adds the removed member %d", m.id))
		}
	case 1:
		if known == nil && accepted {
			bad(fmt.Sprintf("it removes the unknown member %d", m.id))
		}
		if inRemoved && accepted {
			bad(fmt.Sprintf("it removes the already removed member %d", m.id))
		}
		// healthy by the specification (acknowledged index within the allowed gap), not by the classification under test
		if ok := c.spec[m.id]; withHealth && ok && accepted {
			h := 0
			for _, v := range c.spec {
				if v {
					h++
				}
			}
			// remaining healthy nodes h-1 must still be a quorum of the remaining c.n-1 nodes
			if h-1 < (c.n-1)/2+1 {
				bad(fmt.Sprintf("it removes healthy node %d leaving %d healthy of %d nodes (quorum %d)", m.id, h-1, c.n-1, (c.n-1)/2+1))
			}
		}
	}
}

func cmClass(err error) string {
	switch {
	case err == nil:
		return "ok"
	case errors.Is(err, raftv2.ErrPendingConfChange):
		return "pending"
	case errors.Is(err, consensus.ErrInvalidMemberAttr):
		return "invalidattr"
	case errors.Is(err, consensus.ErrInvalidMemberID):
		return "invalidid"
	case errors.Is(err, consensus.ErrorMembershipChangeSkip):
		return "notleader"
	case errors.Is(err, raftv2.ErrConfChangeChannelBusy):
		return "busy"
	}
	if v := vClass(err); v != "other" {
		return "v:" + v
	}
	if e := eClass(err); e != "other" {
		if e == "invtype" {
			return "invreqtype" // makeProposal refuses an unknown request type with the same sentinel before any check
		}
		return "e:" + e
	}
	return "other"
}

// prod: one request through the production request path: Cluster.ChangeMembership (via "cm") or
// BlockFactory.MakeConfChangeProposal (via "mk"), on the current cluster and raft status.
func (c *memCase) prod(raftTok, via string, reqType int, m *mem, pending bool) {
	ok := 0
	if _, err := types.ParseMultiaddr(m.addr); err == nil {
		ok = 1
	}
	req := &types.MembershipChange{Type: types.MembershipChangeType(reqType), RequestID: 4711,
		Attr: &types.MemberAttr{ID: m.id, Name: m.name, Address: m.addr, PeerID: m.peer}}
	c.cl.VerifSetPending(pending)
	var cc *raftpb.ConfChange
	var err error
	out, p := vh.Guard(func() string {
		if via == "cm" {
			cc, err = c.cl.VerifChangeMembershipProd(req, false)
		} else {
			cc, err = c.cl.VerifMakeConfChangeProposal(req)
		}
		return cmClass(err)
	})
	c.cl.VerifSetPending(false)
	if p {
		out = "panic"
	}
	gen := uint64(1000003) // an added member's id is derived from name, chain id and the clock: fresh
	eff := *m
	if reqType == 0 {
		if cc != nil {
			gen = cc.NodeID
		}
		eff.id = gen
	}
	pd := 0
	if pending {
		pd = 1
	}
	line := fmt.Sprintf("memp %s %s pend=%d via=%s req=%d,%d,%s,%s,%d,%s gen=%d", c.head, raftTok, pd, via, reqType, m.id, dash(m.name), dash(m.addr), ok, hx(m.peer), gen)
	accepted := out == "ok"
	c.run.Op(line, out, accepted)
	c.run.Count(fmt.Sprintf("memp:%s t=%d %s", via, reqType, out))
	if p || reqType > 1 {
		return
	}
	if accepted && (cc == nil || int(cc.Type) != reqType || cc.NodeID != eff.id) {
		c.run.Fail("an accepted membership request did not produce the conf change it asks for", map[string]interface{}{"op": line})
	}
	c.refusalOracle(line, out, "membership change accepted by "+map[string]string{"cm": "ChangeMembership", "mk": "MakeConfChangeProposal"}[via], reqType, &eff, accepted, true)
}

func ids(l []uint64) string {
	var t []string
	for _, x := range l {
		t = append(t, fmt.Sprint(x))
	}
	return strings.Join(t, ";")
}

// applyEntry: the raft-log path. A committed conf-change entry carrying member m goes through the real
// applyConfChange (ValidateConfChangeEntry → validateChangeMembership, then addMember/removeMember) on a
// freshly built copy of the cluster; the cluster afterwards is the observable.
func (c *memCase) applyEntry(ccType int, m *mem, ccid uint64) {
	if !c.build() {
		panic("cluster build failed")
	}
	rc := c.rc
	rc.hasNode = true // a server that applies committed entries has a raft node
	c.setRaft(rc)
	mm := m.member()
	ctx, err := json.Marshal(mm)
	var back consensus.Member
	if err != nil || json.Unmarshal(ctx, &back) != nil {
		c.run.Count("mema:skipped(member not encodable)")
		return
	}
	cc := raftpb.ConfChange{ID: ccid, Type: raftpb.ConfChangeType(ccType), NodeID: m.id, Context: ctx}
	data, _ := cc.Marshal()
	ent := &raftpb.Entry{Type: raftpb.EntryConfChange, Term: 3, Index: 17, Data: data}
	a0, r0 := c.cl.VerifMembers()
	var a1, r1 []uint64
	out, p := vh.Guard(func() string {
		verr := c.cl.VerifValidateConfChangeEntry(ent)
		c.cl.VerifApplyConfChange(ent)
		a1, r1 = c.cl.VerifMembers()
		return fmt.Sprintf("%s A=%s R=%s", vClass(verr), ids(a1), ids(r1))
	})
	if p {
		out = "panic"
	}
	// the member as the decoded entry carries it (what the validation sees)
	bm := &mem{id: back.ID, name: back.Name, addr: back.Address, peer: back.PeerID}
	line := fmt.Sprintf("mema %s t=%d m=%s", c.head, ccType, bm.tok())
	changed := ids(a0) != ids(a1) || ids(r0) != ids(r1)
	c.run.Op(line, out, changed)
	c.run.Count(fmt.Sprintf("mema:t=%d %s", ccType, strings.SplitN(out, " ", 2)[0]))
	if p {
		return
	}
	c.refusalOracle(line, out, "a committed conf-change entry changed the cluster", ccType, bm, changed, false)
}

func (m *mem) full() string { return m.tok() }

func memList(l []*mem) string {
	var t []string
	for _, m := range l {
		t = append(t, m.tok())
	}
	return strings.Join(t, ";")
}

// recoverFrom: the cluster (c.applied, c.removed) receives a snapshot carrying (sa, sr) through the real
// publishSnapshot → Cluster.Recover. Afterwards the cluster must be the snapshot's: in particular every
// member the snapshot lists as removed is known as removed, so that re-adding it is refused.
func (c *memCase) recoverFrom(sa, sr []*mem, blk *types.Block) {
	if !c.build() {
		panic("cluster build failed")
	}
	c.setRaft(c.rc)
	var ms, rs []*consensus.Member
	for _, m := range sa {
		ms = append(ms, m.member())
	}
	for _, m := range sr {
		rs = append(rs, m.member())
	}
	data, err := consensus.NewSnapshotData(ms, rs, blk).Encode()
	if err != nil {
		panic(err)
	}
	snap := raftpb.Snapshot{Data: data, Metadata: raftpb.SnapshotMetadata{Index: 9, Term: 2, ConfState: raftpb.ConfState{Nodes: []uint64{1}}}}
	rebuilt := false
	c.cl.VerifTransport().OnPeer = func(what string, id uint64) {
		if what == "removeall" {
			rebuilt = true
		}
	}
	var a1, r1 []uint64
	out, p := vh.Guard(func() string {
		if err := c.cl.VerifPublishSnapshot(snap); err != nil {
			return "err"
		}
		a1, r1 = c.cl.VerifMembers()
		return fmt.Sprintf("eq=%v A=%s R=%s", !rebuilt, ids(a1), ids(r1))
	})
	if p {
		out = "panic"
	}
	line := fmt.Sprintf("memr A=%s RM=%s SA=%s SR=%s", memList(c.applied), memList(c.removed), memList(sa), memList(sr))
	c.run.Op(line, out, rebuilt)
	c.run.Count("memr:" + strings.SplitN(out, " ", 2)[0])
	if p || out == "err" {
		return
	}
	has := func(l []uint64, id uint64) bool {
		for _, x := range l {
			if x == id {
				return true
			}
		}
		return false
	}
	for _, m := range sr {
		if !has(r1, m.id) {
			c.run.Fail(fmt.Sprintf("after catching up from a snapshot that lists member %d as removed, the cluster does not know it as removed: re-adding it is no longer refused", m.id),
				map[string]interface{}{"op": line, "answer": out})
			continue
		}
		// and the gate really refuses it
		if err := c.cl.VerifValidate(raftpb.ConfChangeAddNode, m.member()); err == nil {
			c.run.Fail(fmt.Sprintf("re-adding removed member %d is accepted after a snapshot catch-up", m.id), map[string]interface{}{"op": line})
		}
	}
	for _, m := range sa {
		if !has(a1, m.id) {
			c.run.Fail(fmt.Sprintf("after catching up from a snapshot the cluster lacks member %d of the snapshot", m.id), map[string]interface{}{"op": line, "answer": out})
		}
	}
	if len(a1) != len(uniqIDs(sa)) || len(r1) != len(uniqIDs(sr)) {
		c.run.Fail("after catching up from a snapshot the member / removed-member sets of the cluster are not the snapshot's", map[string]interface{}{"op": line, "answer": out})
	}
}

func uniqIDs(l []*mem) map[uint64]bool {
	m := map[uint64]bool{}
	for _, x := range l {
		m[x.id] = true
	}
	return m
}

func membership(run *vh.Run) {
	rng := run.Rng
	// a pool of nodes with real peer ids
	var pool []*mem
	for i := 0; i < 9; i++ {
		_, pub, err := crypto.GenerateSecp256k1Key(bytes.NewReader(rng.Bytes(64)))
		if err != nil {
			panic(err)
		}
		pid, err := types.IDFromPublicKey(pub)
		if err != nil {
			panic(err)
		}
		pool = append(pool, &mem{id: uint64(i + 1), name: fmt.Sprintf("bp%d", i+1), addr: fmt.Sprintf("/ip4/10.0.0.%d/tcp/7846", i+1), peer: []byte(pid)})
	}
	fresh := pool[8] // never a member: id 9
	// a chain DB for what the production paths write (conf-change progress) and read (the block of a snapshot)
	wdir := filepath.Join(run.Out, "memwal")
	os.MkdirAll(wdir, 0o755)
	wal, err := chain.VerifRaftChainDBOn(db.NewDB(db.MemoryImpl, wdir))
	if err != nil {
		panic(err)
	}
	snapBlock := types.NewBlock(&types.BlockHeaderInfo{No: 5, Ts: 5000, ChainId: []byte("c16")}, nil, nil, nil, nil, nil)
	snapBlock.BlockHash() // sets the Hash field (addBlock stores the encoded block as it is)
	wal.VerifRaftConnectBest(snapBlock)
	if b, err := wal.GetBlockByNo(5); err != nil || b == nil {
		panic(fmt.Sprintf("snapshot block not connected: %v", err))
	}
	defer os.RemoveAll(wdir)
	healthyRaft := func(n int) raftCfg {
		rc := raftCfg{hasNode: true, statusID: 1, leader: true, self: 1, last: 500}
		for i := 0; i < n; i++ {
			rc.prog = append(rc.prog, raftv2.VerifProgress{ID: uint64(i + 1), State: 1, Match: 500, Active: true})
		}
		return rc
	}

	// (a) validation: every composition (0..5 applied, 0..2 removed) x every request of the request space
	for n := 0; n <= 5; n++ {
		for nr := 0; nr <= 2; nr++ {
			c := &memCase{run: run, applied: pool[:n], removed: pool[5 : 5+nr], wal: wal}
			c.rc.self = 1
			if !c.build() {
				panic("cluster build failed")
			}
			rt := c.setRaft(healthyRaft(n))
			run.Count(fmt.Sprintf("composition:applied=%d", n))
			// add requests: each attribute fresh / equal to the first member / equal to the last member / empty (/ not parseable)
			ids := []uint64{fresh.id, 0, 6, 7}
			names := []string{fresh.name, ""}
			addrs := []string{fresh.addr, "", "10.0.0.1:7846", "/ip4/300.1.1.1/tcp/1"}
			peers := [][]byte{fresh.peer, nil}
			if n > 0 {
				ids = append(ids, pool[0].id, pool[n-1].id)
				names = append(names, pool[0].name, pool[n-1].name)
				addrs = append(addrs, pool[0].addr, pool[n-1].addr)
				peers = append(peers, pool[0].peer, pool[n-1].peer)
			}
			var adds []*mem
			for _, id := range ids {
				for _, nm := range names {
					for _, ad := range addrs {
						for _, pe := range peers {
							m := &mem{id: id, name: nm, addr: ad, peer: pe}
							c.request(rt, 0, m)
							if id == fresh.id {
								// the production request paths (the id of an added member is derived, not requested)
								c.prod(rt, "cm", 0, m, false)
								c.prod(rt, "mk", 0, m, false)
							}
							adds = append(adds, m)
						}
					}
				}
			}
			// remove requests: every id of the universe, with and without attributes
			for id := uint64(0); id <= 9; id++ {
				c.request(rt, 1, &mem{id: id})
				c.prod(rt, "cm", 1, &mem{id: id}, false)
				c.prod(rt, "mk", 1, &mem{id: id}, false)
			}
			c.request(rt, 1, pool[0])
			c.prod(rt, "cm", 1, pool[0], false)
			// other conf-change types and the nil member
			c.request(rt, 2, fresh)
			c.request(rt, 3, fresh)
			c.request(rt, 0, nil)
			c.request(rt, 1, nil)
			c.prod(rt, "cm", 2, fresh, false)
			c.prod(rt, "mk", 7, fresh, false)
			// while a change is pending everything is refused
			c.prod(rt, "cm", 0, fresh, true)
			c.prod(rt, "mk", 1, pool[0], true)
			// the raft-log path: the same requests as committed conf-change entries (each on a fresh copy of the cluster)
			for _, m := range adds {
				c.applyEntry(0, m, 0)
			}
			for id := uint64(0); id <= 9; id++ {
				c.applyEntry(1, &mem{id: id, name: "x", addr: "/ip4/10.9.9.9/tcp/1", peer: fresh.peer}, uint64(id%2)*31)
			}
			c.applyEntry(2, fresh, 5)
		}
	}

	// (b) availability: every health vector (raw progress state x replication gap per follower) of 1..5 nodes
	gap := raftv2.VerifSlowGap()
	last := uint64(1000)
	raws := []raftv2.VerifProgress{{State: 1, Match: last, Active: true}, {State: 1, Match: last - gap, Active: true}, {State: 1, Match: last - gap - 1, Active: true},
		{State: 0, Match: last, Active: true}, {State: 2, Match: last, Active: true}, {State: 2, Match: 0},
		// raft streams to a follower that lags: Next (the optimistic send position) is at the end of the log, Match far behind
		{State: 1, Match: last - gap - 1, Next: last + 1, Active: true}, {State: 1, Match: last - 4*gap, Next: last - gap/2, Active: true},
		{State: 1, Match: last - gap, Next: last + 1}}
	allRaws := raws
	for n := 1; n <= 5; n++ {
		c := &memCase{run: run, applied: pool[:n], removed: pool[5:6], wal: wal}
		c.rc.self = 1
		if !c.build() {
			panic("cluster build failed")
		}
		raws := allRaws
		if n == 5 && !run.Thorough() {
			raws = []raftv2.VerifProgress{allRaws[0], allRaws[2], allRaws[3], allRaws[6], allRaws[8]} // 5^4 vectors; thorough: all 9^4
		}
		total := 1
		for i := 1; i < n; i++ {
			total *= len(raws)
		}
		for v := 0; v < total; v++ {
			rc := raftCfg{hasNode: true, statusID: 1, leader: true, self: 1, last: last}
			rc.prog = append(rc.prog, raftv2.VerifProgress{ID: 1, State: 0, Match: 0, Active: true}) // self: always healthy, whatever its own row says
			x := v
			for i := 1; i < n; i++ {
				p := raws[x%len(raws)]
				x /= len(raws)
				p.ID = uint64(i + 1)
				rc.prog = append(rc.prog, p)
			}
			rt := c.setRaft(rc)
			h := 0
			for _, st := range c.health {
				if st == 0 {
					h++
				}
			}
			run.Count(fmt.Sprintf("health:N=%d healthy=%d", n, h))
			for i := 0; i < n; i++ {
				c.request(rt, 1, &mem{id: pool[i].id})
				c.prod(rt, "cm", 1, &mem{id: pool[i].id}, false)
				c.prod(rt, "mk", 1, &mem{id: pool[i].id}, false)
			}
			c.request(rt, 1, &mem{id: 99})
			c.request(rt, 0, fresh)
			c.prod(rt, "cm", 1, &mem{id: 99}, false)
			c.prod(rt, "cm", 0, fresh, false)
			c.prod(rt, "mk", 0, fresh, false)
		}
		// degenerate raft status: no node, status id 0, not leader, empty progress, a member without progress row, self not in the table
		base := healthyRaft(n)
		variants := []raftCfg{}
		v1 := base
		v1.hasNode = false
		v2 := base
		v2.statusID = 0
		v3 := base
		v3.leader = false
		v4 := base
		v4.prog = nil
		v5 := base
		v5.prog = base.prog[:n-1]
		v6 := base
		v6.self = 77
		v6.prog = append([]raftv2.VerifProgress{}, base.prog...)
		v6.prog[0].State = 0
		variants = append(variants, v1, v2, v3, v4, v5, v6)
		for _, rc := range variants {
			rt := c.setRaft(rc)
			run.Count("health:degenerate-status")
			for i := 0; i < n; i++ {
				c.request(rt, 1, &mem{id: pool[i].id})
				c.prod(rt, "cm", 1, &mem{id: pool[i].id}, false)
				c.prod(rt, "mk", 1, &mem{id: pool[i].id}, false)
			}
			c.request(rt, 0, fresh)
			c.request(rt, 2, fresh)
			c.prod(rt, "cm", 0, fresh, false)
			c.prod(rt, "mk", 0, fresh, false)
		}
	}

	// (e) the health classification itself: one follower row swept over raft state x acknowledged index around the
	// MaxSlowNodeGap boundary x send position x activity, as leader and as non-leader, in a 3-node cluster whose third
	// node is healthy: removing the healthy third node must be refused exactly when the swept one is not healthy
	{
		c := &memCase{run: run, applied: pool[:3], removed: pool[5:6], wal: wal}
		c.rc.self = 1
		if !c.build() {
			panic("cluster build failed")
		}
		matches := []uint64{last, last - gap + 1, last - gap, last - gap - 1, last - 4*gap, 0, last + 5}
		for st := 0; st <= 2; st++ {
			for _, m := range matches {
				for _, nx := range []uint64{m + 1, last + 1, last - gap, 1} {
					for _, act := range []bool{true, false} {
						for _, leader := range []bool{true, false} {
							rc := raftCfg{hasNode: true, statusID: 1, leader: leader, self: 1, last: last}
							rc.prog = []raftv2.VerifProgress{{ID: 1, State: 0, Match: 0, Active: true}, {ID: 2, State: st, Match: m, Next: nx, Active: act},
								{ID: 3, State: 1, Match: last, Active: true}}
							rt := c.setRaft(rc)
							run.Count("health:classification-sweep")
							for _, id := range []uint64{2, 3} {
								c.request(rt, 1, &mem{id: id})
								c.prod(rt, "cm", 1, &mem{id: id}, false)
							}
							c.request(rt, 0, fresh)
							c.prod(rt, "mk", 0, fresh, false)
						}
					}
				}
			}
		}
	}

	// (d) snapshot catch-up: a cluster (applied, removed) receives a snapshot (publishSnapshot → Cluster.Recover)
	for n := 0; n <= 4; n++ {
		for nr := 0; nr <= 2; nr++ {
			c := &memCase{run: run, applied: pool[:n], removed: pool[5 : 5+nr], wal: wal}
			c.rc = healthyRaft(n)
			c.rc.self = 1
			rev := func(l []*mem) []*mem {
				var o []*mem
				for i := len(l) - 1; i >= 0; i-- {
					o = append(o, l[i])
				}
				return o
			}
			alt := func(m *mem) *mem { x := *m; x.addr = "/ip4/10.1.1.1/tcp/9"; return &x }
			ap, rm := pool[:n], pool[5:5+nr]
			variants := [][2][]*mem{
				{ap, rm},                            // the same
				{rev(ap), rev(rm)},                  // the same, other order
				{ap, append(append([]*mem{}, rm...), pool[7])}, // one more removed member (added and removed while this node lagged)
				{ap, append([]*mem{pool[7]}, rm...)},
				{ap, nil},                                      // no removed members in the snapshot
				{append(append([]*mem{}, ap...), pool[4]), rm}, // one more applied member
				{append(append([]*mem{}, ap...), pool[4]), append(append([]*mem{}, rm...), pool[7])},
			}
			if nr > 0 {
				variants = append(variants, [2][]*mem{ap, rm[:nr-1]}, [2][]*mem{ap, append([]*mem{alt(rm[0])}, rm[1:]...)},
					[2][]*mem{ap, append(append([]*mem{}, rm[:nr-1]...), pool[7])}) // same number of removed members, another one
			}
			if n > 0 {
				variants = append(variants, [2][]*mem{ap[:n-1], rm}, [2][]*mem{append([]*mem{alt(ap[0])}, ap[1:]...), rm},
					[2][]*mem{ap[:n-1], append(append([]*mem{}, rm...), ap[n-1])}, // the last member was removed meanwhile
					[2][]*mem{append(append([]*mem{}, ap...), ap[0]), rm})         // a member listed twice
			}
			for _, v := range variants {
				c.recoverFrom(v[0], v[1], snapBlock)
			}
		}
	}

	// (c) random clusters: colliding attributes inside the request, larger clusters, random progress
	for i := 0; i < run.Pick(3000, 40000); i++ {
		n := rng.Intn(8)
		perm := rng.Intn(9)
		var ap, rm []*mem
		for k := 0; k < n; k++ {
			ap = append(ap, pool[(perm+k)%9])
		}
		for k := 0; k < rng.Intn(3); k++ {
			rm = append(rm, pool[(perm+n+k)%9])
		}
		c := &memCase{run: run, applied: ap, removed: rm, wal: wal}
		self := uint64(1 + rng.Intn(9))
		c.rc.self = self
		if !c.build() {
			run.Count("random-cluster:not-buildable")
			continue
		}
		rc := raftCfg{hasNode: !rng.Chance(1, 20), statusID: uint64(rng.Intn(6)), leader: !rng.Chance(1, 8), self: self, last: uint64(rng.Intn(400))}
		for _, a := range ap {
			if rng.Chance(1, 12) {
				continue
			}
			pr := raftv2.VerifProgress{ID: a.id, State: rng.Intn(3), Match: uint64(rng.Intn(400)), Active: !rng.Chance(1, 5)}
			if rng.Chance(1, 2) {
				pr.Next = pr.Match + 1 + uint64(rng.Intn(400))
			}
			rc.prog = append(rc.prog, pr)
		}
		rt := c.setRaft(rc)
		for k := 0; k < 6; k++ {
			pick := func() *mem { return pool[rng.Intn(9)] }
			m := &mem{id: pick().id, name: pick().name, addr: pick().addr, peer: pick().peer}
			if rng.Chance(1, 10) {
				m.id = 0
			}
			ty := rng.Intn(2)
			c.request(rt, ty, m)
			c.prod(rt, []string{"cm", "mk"}[rng.Intn(2)], ty, m, rng.Chance(1, 12))
			if k == 0 {
				c.applyEntry(ty, m, uint64(rng.Intn(3)))
				c.build() // the entry may have changed the cluster: the remaining requests get a fresh copy
				c.setRaft(rc)
			}
		}
		run.Count("random-cluster")
	}
}

func main() {
	if sub := os.Getenv("C16_SUB"); strings.HasPrefix(sub, "startnode:") {
		subStartNode(strings.TrimPrefix(sub, "startnode:"))
		return
	}
	if os.Getenv("C16_LOG") == "" {
		zerolog.SetGlobalLevel(zerolog.Disabled)
	}
	if pf := os.Getenv("C16_PROF"); pf != "" {
		f, _ := os.Create(pf)
		pprof.StartCPUProfile(f)
		defer pprof.StopCPUProfile()
	}
	run := vh.Start("c16", "wal: sessions on the real ChainDB (memorydb) with a restart (fresh ChainDB on the same store; every 4th time close + re-open from file) after "+
		"every operation: SaveEntry (on one live WalDB per process lifetime; bursts of several saves without a restart whose hard states differ in exactly one of term/vote/commit, with and without entries)/WriteRaftEntry batches that append or overwrite a suffix (shorter, equal, longer), mixed block/empty/conf-change entries, hard state, "+
		"snapshot, identity, best block, ClearWAL, ResetWAL, an ill-formed stream (gaps, descending, empty batch, nil block, unknown type codes) in every 6th session; "+
		"after each op every getter is read back for indices 0..max+2 and compared with a reference map log; ReadAll and GetRaftEntryOfBlock sampled. "+
		"mem: validateChangeMembership + isEnableChangeMembership on real Clusters: every composition of 0..5 applied and 0..2 removed members x a request space "+
		"(each attribute fresh/duplicate of first/duplicate of last/empty/unparseable; remove of every id), every raw progress vector of 1..5 nodes, degenerate raft status, random clusters up to 7. "+
		"non-trivial = op succeeded / request accepted; distinct by (op, answer)")
	defer run.Finish()
	only := os.Getenv("C16_ONLY") // development aid: run one phase only
	if only == "" || only == "wal" {
		walSessions(run)
	}
	if only == "" || only == "raft" {
		raftSessions(run)
	}
	if only == "" || only == "mem" {
		membership(run)
	}
}
