package main

// Raft sessions: the storage and the membership code driven through their production callers.
//
// One node (id 1 of a three-node cluster) runs the *real* server loop raftServer.serveChannels on the
// *real* etcd/raft state machine (a synchronous raftlib.Node built on raft.RawNode: the harness decides
// when a Ready is handed over, nothing else is changed). The other two nodes are a script that plays a
// correct raft leader: it appends, replicates (also overlapping ranges), commits, is replaced by a new
// leader whose log conflicts with the follower's uncommitted suffix, asks for votes, lets the follower
// lag and sends it a snapshot, and proposes configuration changes (valid ones and ones the property says
// must be refused). Everything the node persists goes through WalDB.SaveEntry / WriteSnapshot /
// WriteConfChangeProgress as called by the server loop, on a journaling store.
//
// After every Ready: every getter is read back on the *live* ChainDB (no restart in between), and for
// every prefix of the write units of the Ready (a crash at that point) the store is rebuilt and a node is
// restarted on it through the real restart path (HasWal → restartNode: loadSnapshot → replayWAL →
// Cluster.Recover → raft restart): what the restarted node hands to etcd/raft must be what it had
// acknowledged (sent) before the crash point or what the Ready asked it to persist — never a mixture
// inside the log, never less than what was acknowledged.

import (
	"bytes"
	"context"
	"encoding/json"
	"fmt"
	"os"
	"os/exec"
	"path/filepath"
	"sort"
	"strings"

	"github.com/aergoio/aergo-lib/db"

	"github.com/aergoio/aergo/v2/chain"
	"github.com/aergoio/aergo/v2/consensus"
	"github.com/aergoio/aergo/v2/consensus/impl/raftv2"
	"github.com/aergoio/aergo/v2/internal/enc/proto"
	"github.com/aergoio/aergo/v2/types"
	"github.com/aergoio/aergo/v2/types/dbkey"
	"github.com/aergoio/aergo/v2/zz_verif/vh"
	raftlib "github.com/aergoio/etcd/raft"
	"github.com/aergoio/etcd/raft/raftpb"
	"github.com/libp2p/go-libp2p/core/crypto"
)

// ---------------------------------------------------------------- a synchronous raft node

type pumpNode struct {
	rn     *raftlib.RawNode
	readyc chan raftlib.Ready
	advc   chan struct{}
}

func newPump(c *raftlib.Config, peers []raftlib.Peer) *pumpNode {
	rn, err := raftlib.NewRawNode(c, peers)
	if err != nil {
		panic(err)
	}
	return &pumpNode{rn: rn, readyc: make(chan raftlib.Ready), advc: make(chan struct{})}
}

func (n *pumpNode) Tick()                              {}
func (n *pumpNode) Campaign(ctx context.Context) error { return nil }
func (n *pumpNode) Propose(ctx context.Context, data []byte) error {
	return n.rn.Propose(data)
}
func (n *pumpNode) ProposeConfChange(ctx context.Context, cc raftpb.ConfChange) error {
	return n.rn.ProposeConfChange(cc)
}
func (n *pumpNode) Step(ctx context.Context, msg raftpb.Message) error { return n.rn.Step(msg) }
func (n *pumpNode) Ready() <-chan raftlib.Ready                        { return n.readyc }
func (n *pumpNode) Advance()                                           { n.advc <- struct{}{} }
func (n *pumpNode) ApplyConfChange(cc raftpb.ConfChange) *raftpb.ConfState {
	return n.rn.ApplyConfChange(cc)
}
func (n *pumpNode) TransferLeadership(ctx context.Context, lead, transferee uint64) {}
func (n *pumpNode) ReadIndex(ctx context.Context, rctx []byte) error                { return nil }
func (n *pumpNode) Status() raftlib.Status                                          { return *n.rn.Status() }
func (n *pumpNode) ReportUnreachable(id uint64)                                     {}
func (n *pumpNode) ReportSnapshot(id uint64, status raftlib.SnapshotStatus)         {}
func (n *pumpNode) Stop()                                                           {}

// ---------------------------------------------------------------- the session

var extraPeers = func() [][]byte {
	var out [][]byte
	for i := 0; i < 5; i++ {
		_, pub, err := crypto.GenerateSecp256k1Key(bytes.NewReader(bytes.Repeat([]byte{byte(31 + i)}, 64)))
		if err != nil {
			panic(err)
		}
		pid, err := types.IDFromPublicKey(pub)
		if err != nil {
			panic(err)
		}
		out = append(out, []byte(pid))
	}
	return out
}()

type confView struct {
	applied map[uint64]*mem
	removed map[uint64]bool
}

func newConfView() *confView { return &confView{applied: map[uint64]*mem{}, removed: map[uint64]bool{}} }

func (c *confView) clone() *confView {
	n := newConfView()
	for k, v := range c.applied {
		n.applied[k] = v
	}
	for k := range c.removed {
		n.removed[k] = true
	}
	return n
}

// apply: the property's rules for one committed conf change (refused changes leave the configuration as it is).
func (c *confView) apply(ccType raftpb.ConfChangeType, m *mem) bool {
	switch ccType {
	case raftpb.ConfChangeAddNode:
		if m.id == 0 || c.removed[m.id] || len(m.peer) == 0 || m.name == "" || m.addr == "" {
			return false
		}
		for _, a := range c.applied {
			if a.id == m.id || a.name == m.name || a.addr == m.addr || bytes.Equal(a.peer, m.peer) {
				return false
			}
		}
		c.applied[m.id] = m
		return true
	case raftpb.ConfChangeRemoveNode:
		if m.id == 0 || c.removed[m.id] || c.applied[m.id] == nil {
			return false
		}
		delete(c.applied, m.id)
		c.removed[m.id] = true
		return true
	}
	return false
}

func (c *confView) ids() (ap, rm []uint64) {
	for id := range c.applied {
		ap = append(ap, id)
	}
	for id := range c.removed {
		rm = append(rm, id)
	}
	sort.Slice(ap, func(i, j int) bool { return ap[i] < ap[j] })
	sort.Slice(rm, func(i, j int) bool { return rm[i] < rm[j] })
	return
}

type rsess struct {
	*session
	name string
	peer types.PeerID
	cl   *raftv2.Cluster
	srv  *raftv2.VerifServer
	node *pumpNode
	tr   *raftv2.VerifTransport

	// the scripted leader
	llog      []raftpb.Entry // llog[i-1] is the entry at index i
	lcommit   uint64
	lterm     uint64
	leader    uint64
	fmatch    uint64
	blkNo     uint64
	blkByData map[string]*blk
	removedM  map[uint64]*mem // full attributes of removed members (a snapshot carries them)
	outbox    []raftpb.Message
	conf      *confView // the configuration the follower must have (property's rules over what it applied)
	dead      bool
	steps     int
	firstOfRun bool
	controlDone bool
}

func ccMember(e *raftpb.Entry) (*raftpb.ConfChange, *mem) {
	var cc raftpb.ConfChange
	if cc.Unmarshal(e.Data) != nil {
		return nil, nil
	}
	var m consensus.Member
	if len(cc.Context) == 0 || json.Unmarshal(cc.Context, &m) != nil {
		return &cc, nil
	}
	return &cc, &mem{id: m.ID, name: m.Name, addr: m.Address, peer: m.PeerID}
}

func (r *rsess) mk(c *raftlib.Config, peers []raftlib.Peer) raftlib.Node {
	r.node = newPump(c, peers)
	return r.node
}

func (r *rsess) newTransport() *raftv2.VerifTransport {
	r.tr = &raftv2.VerifTransport{}
	r.tr.OnSend = func(msgs []raftpb.Message) {
		var t []string
		for _, m := range msgs {
			if m.To == 0 {
				continue
			}
			r.outbox = append(r.outbox, m)
			t = append(t, fmt.Sprintf("%s(term %d index %d reject %v)", m.Type, m.Term, m.Index, m.Reject))
		}
		if len(t) > 0 {
			r.j.add(jevent{kind: "send", note: strings.Join(t, " ")})
		}
	}
	return r.tr
}

func (r *rsess) fail(what string) {
	r.dead = true
	r.session.fail(what)
}

// entryGen turns a raftpb entry handed over by etcd/raft into the token of the op line and the reference entry.
func (r *rsess) entryGen(e raftpb.Entry) (string, *genEntry) {
	g := &genEntry{term: e.Term, index: e.Index, raw: e}
	switch {
	case e.Type == raftpb.EntryConfChange:
		g.typ, g.data = 2, e.Data
		if cc, _ := ccMember(&e); cc != nil {
			g.ccid = cc.ID
		}
		if g.ccid != 0 {
			r.ccids = append(r.ccids, g.ccid)
		}
		return fmt.Sprintf("c,%d,%d,%s,%d", e.Term, e.Index, hx(e.Data), g.ccid), g
	case e.Data == nil:
		g.typ = 1
		return fmt.Sprintf("e,%d,%d", e.Term, e.Index), g
	}
	b := r.blkByData[string(e.Data)]
	if b == nil {
		panic("unknown block entry")
	}
	g.typ, g.blk, g.data = 0, b, b.hash
	return fmt.Sprintf("b,%d,%d,%s", e.Term, e.Index, b.tok()), g
}

// start: a new three-node cluster; this node is member 1.
func (r *rsess) start() bool {
	s := r.session
	s.start()
	r.name, r.peer = "node0", nodePeers[0]
	r.cl = raftv2.VerifNewClusterNamed(r.name, r.peer)
	for i := 0; i < 3; i++ {
		m := &consensus.Member{MemberAttr: types.MemberAttr{ID: uint64(i + 1), Name: fmt.Sprintf("node%d", i), Address: fmt.Sprintf("/ip4/10.0.0.%d/tcp/7846", i+1), PeerID: []byte(nodePeers[i])}}
		if err := r.cl.VerifAddInitMember(m); err != nil {
			panic(err)
		}
	}
	r.llog, r.lcommit, r.lterm, r.leader, r.fmatch = nil, 0, 1, 2, 0
	r.blkByData, r.removedM, r.outbox, r.conf, r.dead, r.steps = map[string]*blk{}, map[uint64]*mem{}, nil, newConfView(), false, 0
	var err error
	s.journaled("ident", func() {
		r.srv, err = raftv2.VerifStartServer(s.cdb, r.cl, r.newTransport(), r.mk)
		if err != nil {
			panic(err)
		}
		id := r.cl.VerifIdentity()
		s.op(fmt.Sprintf("ident %d,%d,%s,%s", id.ClusterID, id.ID, dash(id.Name), dash(id.PeerID)), "ok", true)
		s.ident = &id
	})
	r.srv.SetSnapFrequency(snapEvery)
	r.srv.Serve()
	// the bootstrap Ready: the initial configuration as three conf-change entries, committed
	boot := r.pump()
	if r.dead {
		return false
	}
	if len(boot) != 3 {
		r.fail(fmt.Sprintf("bootstrap handed %d entries to the storage, expected the 3 initial conf changes", len(boot)))
		return false
	}
	r.llog = append(r.llog, boot...)
	r.lcommit, r.fmatch = 3, 3
	return true
}

func (r *rsess) termAt(i uint64) uint64 {
	if i == 0 || i > uint64(len(r.llog)) {
		return 0
	}
	return r.llog[i-1].Term
}

// confAt: the configuration after the first n entries of the leader's log (the property's rules).
func (r *rsess) confAt(n uint64) (*confView, map[uint64]*mem) {
	c := newConfView()
	rm := map[uint64]*mem{}
	for i := uint64(0); i < n && i < uint64(len(r.llog)); i++ {
		e := r.llog[i]
		if e.Type != raftpb.EntryConfChange {
			continue
		}
		cc, m := ccMember(&e)
		if cc == nil || m == nil {
			continue
		}
		if cc.Type == raftpb.ConfChangeRemoveNode {
			if full := c.applied[m.id]; full != nil && c.apply(cc.Type, m) {
				rm[m.id] = full
			}
			continue
		}
		c.apply(cc.Type, m)
	}
	return c, rm
}

// pump hands every pending Ready of the raft state machine to the real server loop, one at a time, and
// after each: the op lines of what the loop persisted, the crash points, the read-back on the live ChainDB.
// Returns the entries the node was asked to persist.
func (r *rsess) pump() (persisted []raftpb.Entry) {
	s := r.session
	for !r.dead && r.node.rn.HasReady() {
		rd := r.node.rn.Ready()
		pre := content(s.store)
		ref0 := s.ref()
		s.j.start()
		r.node.readyc <- rd
		<-r.node.advc
		ev := s.j.stop()
		r.node.rn.Advance(rd)
		persisted = append(persisted, rd.Entries...)

		// what the Ready asked the node to persist → op lines and the reference
		var lines []string // the op lines of the Ready, in the order in which the server loop wrote
		saveLine := ""
		if len(rd.Entries) > 0 || !raftlib.IsEmptyHardState(rd.HardState) {
			var toks []string
			var b []*genEntry
			for _, e := range rd.Entries {
				t, g := r.entryGen(e)
				toks, b = append(toks, t), append(b, g)
				s.run.Count("rs:entry:" + []string{"block", "empty", "confchange"}[g.typ])
			}
			saveLine = strings.TrimSpace(fmt.Sprintf("save %d,%d,%d %s", rd.HardState.Term, rd.HardState.Vote, rd.HardState.Commit, strings.Join(toks, " ")))
			if len(b) > 0 {
				// what etcd/raft hands to the storage (the admissibility hypothesis of the theorems, here an observed fact)
				first := b[0].index
				var snapIdx uint64
				if s.snap != nil {
					snapIdx = s.snap.Metadata.Index
				}
				switch {
				case first == 0:
					r.fail("etcd/raft handed a batch starting at index 0 to the storage")
				case first <= s.last:
					n := b[len(b)-1].index
					switch {
					case n < s.last:
						s.run.Count("rs:batch:conflict-shorter")
					case n == s.last:
						s.run.Count("rs:batch:conflict-equal")
					default:
						s.run.Count("rs:batch:conflict-longer")
					}
				case first == s.last+1:
					s.run.Count("rs:batch:append")
				case first == snapIdx+1:
					s.run.Count("rs:batch:first-after-installed-snapshot(gap)")
				default:
					r.fail(fmt.Sprintf("etcd/raft handed a batch starting at %d to the storage: last index %d, snapshot %d", first, s.last, snapIdx))
				}
				for k := 1; k < len(b); k++ {
					if b[k].index != b[k-1].index+1 {
						r.fail("etcd/raft handed a non-contiguous batch to the storage")
					}
				}
				s.applyRef(b, true)
			}
			if !raftlib.IsEmptyHardState(rd.HardState) {
				h := rd.HardState
				s.hs = &h
				if h.Term > s.term {
					s.term = h.Term
				}
			}
		}
		gotSnap := !raftlib.IsEmptySnap(rd.Snapshot)
		// the remaining write units in program order: received snapshot, conf-change progress records, own snapshot
		var units []jevent
		sent := -1 // number of write units that precede the first hand-over of messages to the transport
		for _, e := range ev {
			if e.isWrite() {
				units = append(units, e)
			} else if sent < 0 {
				sent = len(units)
			}
		}
		snapSeen := false
		snapAck := s.snap // the snapshot that must be durable when the messages of this Ready go out
		for _, u := range units {
			o := u.ops[0]
			if len(u.ops) != 1 || o.key == string(dbkey.RaftState()) {
				// entries / hard state: the SaveEntry call of the Ready
				if saveLine != "" {
					lines, saveLine = append(lines, saveLine), ""
				}
				continue
			}
			switch {
			case o.key == string(dbkey.RaftSnap()) && !o.del:
				var sn raftpb.Snapshot
				if err := sn.Unmarshal(o.val); err != nil {
					r.fail("undecodable snapshot written")
					continue
				}
				if gotSnap && !snapSeen {
					sn = rd.Snapshot // the property's reference is what the node was asked to store
					s.run.Count("rs:snapshot:received")
				} else {
					s.run.Count("rs:snapshot:own(triggerSnapshot)")
				}
				snapSeen = true
				var sd consensus.SnapshotData
				if err := sd.Decode(sn.Data); err != nil {
					r.fail("snapshot data undecodable")
					continue
				}
				lines = append(lines, fmt.Sprintf("snap %d,%d,%s/%d", sn.Metadata.Index, sn.Metadata.Term, hx(sd.Chain.Hash), sd.Chain.No))
				c := sn
				s.snap = &c
				if gotSnap && snapAck == ref0.snap {
					snapAck = s.snap
				}
			case strings.HasPrefix(o.key, string(dbkey.RaftConfChangeProgress(0)[:len(dbkey.RaftConfChangeProgress(0))-8])) && !o.del:
				id := types.BytesToUint64([]byte(o.key[len(o.key)-8:]))
				var p types.ConfChangeProgress
				if err := proto.Decode(o.val, &p); err != nil {
					r.fail("undecodable conf-change progress written")
					continue
				}
				lines = append(lines, fmt.Sprintf("ccprog %d %d", id, int(p.State)))
				s.run.Count("rs:ccprog")
			}
		}
		if saveLine != "" {
			lines = append(lines, saveLine) // asked to persist, nothing written: the model will say so
		}
		if gotSnap && !snapSeen {
			r.fail("a Ready carried a snapshot and the server loop did not write it")
		}
		if s.last > s.maxIdx {
			s.maxIdx = s.last
		}

		// the configuration the node must now have
		if gotSnap {
			var sd consensus.SnapshotData
			if sd.Decode(rd.Snapshot.Data) == nil {
				r.conf = newConfView()
				for _, m := range sd.Members {
					r.conf.applied[m.ID] = &mem{id: m.ID, name: m.Name, addr: m.Address, peer: m.PeerID}
				}
				for _, m := range sd.RemovedMembers {
					r.conf.removed[m.ID] = true
				}
			}
		}
		for i := range rd.CommittedEntries {
			e := rd.CommittedEntries[i]
			if e.Type != raftpb.EntryConfChange {
				continue
			}
			if cc, m := ccMember(&e); cc != nil && m != nil {
				if r.conf.apply(cc.Type, m) {
					s.run.Count("rs:confchange:takes-effect")
				} else {
					s.run.Count("rs:confchange:must-be-refused")
				}
			}
		}

		r.afterReady(pre, ref0, units, sent, lines, snapAck)
		r.srv.DrainCommitted(true)
	}
	return
}

// afterReady: crash points of the Ready, op lines, live read-back, configuration oracle.
func (r *rsess) afterReady(pre map[string][]byte, ref0 refState, units []jevent, sent int, lines []string, snapAck *raftpb.Snapshot) {
	s := r.session
	n := len(units)
	ref1 := s.ref()
	mx := s.maxIdx
	opsLine := strings.Join(lines, " ;; ")
	if opsLine == "" && n > 0 {
		opsLine = "restart" // nothing to persist was asked for, yet something was written: the model says n=0
	}
	cfg := fmt.Sprintf("%s,%s", r.name, types.IDB58Encode(r.peer))
	crashAt := -1
	if n > 0 && r.steps > 2 && s.rng.Chance(1, 12) {
		crashAt = s.rng.Intn(n + 1)
	}
	if opsLine != "" {
		s.run.Count(fmt.Sprintf("rs:ready:units=%d", n))
		m := cloneContent(pre)
		for k := 0; k <= n && !r.dead; k++ {
			if k > 0 {
				applyUnit(m, units[k-1], -1)
			}
			cdb, err := chain.VerifRaftChainDBOn(materialise(m))
			if err != nil {
				s.op(fmt.Sprintf("cut %d %d %s", k, mx, opsLine), fmt.Sprintf("n=%d restart-fails", n), true)
				r.fail("the node does not come up after a crash inside a Ready")
				break
			}
			v, p := readView(cdb, mx+2)
			out := "panic"
			if !p {
				out = v.dump()
			}
			s.op(fmt.Sprintf("cut %d %d %s", k, mx, opsLine), fmt.Sprintf("n=%d %s", n, out), true)
			h := handOver(cdb, raftv2.VerifNewClusterNamed(r.name, r.peer), &raftv2.VerifTransport{}, nil)
			if h.class == "nowal:nohardstate" && r.firstOfRun && k <= 1 {
				r.firstStartCrash(fmt.Sprintf("identity durable, %d of the %d write units of the first Ready", k, n), m)
			}
			s.op(fmt.Sprintf("cuth %d %s %s", k, cfg, opsLine), fmt.Sprintf("n=%d %s", n, h.String()), h.class == "ok")
			if p {
				continue
			}
			r.crashOracle(k, n, sent, opsLine, v, h, &ref0, &ref1, snapAck)
		}
	}
	if r.dead {
		return
	}
	if crashAt >= 0 && crashAt < n {
		r.crashRestart(pre, units, crashAt, opsLine, &ref0, &ref1)
		return
	}
	for _, l := range lines {
		s.op(l, "ok", true)
	}
	if len(lines) > 0 {
		s.dump() // on the live ChainDB: no restart since the write
		if s.rng.Chance(1, 3) {
			s.readall()
		}
		if s.rng.Chance(1, 3) {
			s.ofblock()
		}
		if s.rng.Chance(1, 4) {
			s.ccget()
		}
	}
	// the configuration after the committed conf changes of this Ready went through applyConfChange
	ap, rm := r.cl.VerifMembers()
	wa, wr := r.conf.ids()
	if ids(ap) != ids(wa) || ids(rm) != ids(wr) {
		r.fail(fmt.Sprintf("after applying the committed conf changes the cluster has members [%s] removed [%s]; by the refusal rules it must have [%s] removed [%s]", ids(ap), ids(rm), ids(wa), ids(wr)))
	}
}

// crashOracle: the property at one crash point (k of n write units of a Ready are durable).
func (r *rsess) crashOracle(k, n, sent int, opsLine string, v *view, h *handed, ref0, ref1 *refState, snapAck *raftpb.Snapshot) {
	s := r.session
	where := fmt.Sprintf("crash after %d of the %d write units of one Ready [%s]", k, n, clip(opsLine, 160))
	l0, h0, s0, i0 := ref0.agrees(v)
	l1, h1, s1, i1 := ref1.agrees(v)
	s.run.Count("rs:crash-point")
	switch {
	case !l0 && !l1:
		r.fail(where + ": the log read back after the restart (last index, entries) is neither the log acknowledged before the Ready nor the log the Ready asked for")
	case !h0 && !h1:
		r.fail(where + ": the hard state read back is neither the one before nor the one of the Ready")
	case !s0 && !s1:
		r.fail(where + ": the snapshot read back is neither the one before nor the one of the Ready")
	case !i0 || !i1:
		r.fail(where + ": the identity changed")
	case h1 && !h0 && !l1:
		r.fail(where + ": the hard state of the Ready is durable before its entries")
	case k == n && !(l1 && h1 && s1):
		r.fail(where + ": after all write units the store is not what the Ready asked for")
	}
	if r.dead {
		return
	}
	// whatever was handed to the transport before this point was acknowledged on the strength of a durable state
	acked := sent >= 0 && sent <= k
	ackRef := refState{log: ref1.log, last: ref1.last, hs: ref1.hs, snap: snapAck, ident: ref1.ident}
	_, _, sa, _ := ackRef.agrees(v)
	if acked && !(l1 && h1 && (sa || s1)) {
		r.fail(fmt.Sprintf("%s: messages were handed to the transport after %d write units, before the state they acknowledge was durable", where, sent))
		return
	}
	// the hand-over: the mixture of before/after that is on disk, exactly
	mix := refState{log: ref0.log, last: ref0.last, hs: ref0.hs, snap: ref0.snap, ident: ref1.ident}
	if l1 {
		mix.log, mix.last = ref1.log, ref1.last
	}
	if h1 {
		mix.hs = ref1.hs
	}
	if s1 {
		mix.snap = ref1.snap
	}
	class, want := mix.expectHandOver(r.name, types.IDB58Encode(r.peer))
	got := strings.SplitN(h.class, ":", 2)[0]
	if class != "handed" {
		// before the first hard state is durable the node has no WAL yet (bootstrap): nothing was acknowledged
		if got != class {
			r.fail(fmt.Sprintf("%s: restart decision %s, expected %s", where, h.class, class))
		}
		s.run.Count("rs:handover:" + class)
		return
	}
	switch got {
	case "ok":
		s.checkHanded(where, h, &mix, want)
		s.run.Count("rs:handover:ok")
	case "raft-panics":
		s.checkHanded(where, h, &mix, want)
		r.fail(where + ": etcd/raft refuses what the restarted node hands it (hard state " + showHS(mix.hs) + ")")
	default:
		r.fail(fmt.Sprintf("%s: the restarted node does not hand its log to the consensus library (%s)", where, h.class))
	}
}

func clip(s string, n int) string {
	if len(s) > n {
		return s[:n] + "…"
	}
	return s
}

// adopt makes the reference the mixture of ref0/ref1 that is on disk.
func (r *rsess) adopt(v *view, ref0, ref1 *refState) {
	s := r.session
	l1, h1, s1, _ := ref1.agrees(v)
	if l1 {
		s.log, s.last = ref1.log, ref1.last
	} else {
		s.log, s.last = ref0.log, ref0.last
	}
	if h1 {
		s.hs = ref1.hs
	} else {
		s.hs = ref0.hs
	}
	if s1 {
		s.snap = ref1.snap
	} else {
		s.snap = ref0.snap
	}
}

// crashRestart: the node dies after k write units of the Ready and restarts on what is on disk.
func (r *rsess) crashRestart(pre map[string][]byte, units []jevent, k int, opsLine string, ref0, ref1 *refState) {
	s := r.session
	r.srv.Stop()
	m := cloneContent(pre)
	for i := 0; i < k; i++ {
		applyUnit(m, units[i], -1)
	}
	s.store = &jdb{inner: materialiseIn(s.dir, m), j: s.j}
	cdb, err := chain.VerifRaftChainDBOn(s.store)
	if err != nil {
		r.fail("restart after a crash fails")
		return
	}
	s.cdb, s.wal = cdb, raftv2.NewWalDB(cdb)
	s.op(fmt.Sprintf("crash %d %s", k, opsLine), "ok", true)
	s.run.Count("rs:crash-restart(continue on the torn state)")
	v, _ := readView(cdb, s.maxIdx+2)
	r.adopt(v, ref0, ref1)
	r.rejoin()
}

// cleanRestart: the node is stopped between two Readies and restarted.
func (r *rsess) cleanRestart() {
	s := r.session
	r.srv.Stop()
	s.restart()
	s.run.Count("rs:clean-restart")
	r.rejoin()
}

// rejoin: the real restart path on the session's store; the server loop continues on the restarted raft.
func (r *rsess) rejoin() {
	s := r.session
	r.cl = raftv2.VerifNewClusterNamed(r.name, r.peer)
	cfg := r.cl.VerifIdentity()
	h := handOver(s.cdb, r.cl, r.newTransport(), r.mk)
	s.op(fmt.Sprintf("handover %s,%s", dash(cfg.Name), dash(cfg.PeerID)), h.String(), h.class == "ok")
	s.run.Count("rs:restart-handover:" + strings.SplitN(h.class, ":", 2)[0])
	ref := s.ref()
	class, want := ref.expectHandOver(cfg.Name, cfg.PeerID)
	if class != "handed" || h.class != "ok" {
		r.fail(fmt.Sprintf("restart of a node that had started: %s (reference: %s)", h.class, class))
		return
	}
	s.checkHanded("restart", h, &ref, want)
	r.srv = h.srv
	r.srv.SetSnapFrequency(snapEvery)
	// the configuration a restarted node begins with: its snapshot's, then the committed entries are applied again
	r.conf = newConfView()
	if s.snap != nil {
		var sd consensus.SnapshotData
		if sd.Decode(s.snap.Data) == nil {
			for _, m := range sd.Members {
				r.conf.applied[m.ID] = &mem{id: m.ID, name: m.Name, addr: m.Address, peer: m.PeerID}
			}
			for _, m := range sd.RemovedMembers {
				r.conf.removed[m.ID] = true
			}
		}
	}
	r.outbox = nil
	r.srv.Serve()
	r.pump()
	if r.dead {
		return
	}
	// the leader finds out where the follower's log matches its own (what probing does)
	st := r.srv.Storage()
	last, _ := st.LastIndex()
	first, _ := st.FirstIndex()
	fm := last
	if fm > uint64(len(r.llog)) {
		fm = uint64(len(r.llog))
	}
	for fm+1 >= first && fm > 0 {
		if t, err := st.Term(fm); err == nil && t == r.termAt(fm) {
			break
		}
		fm--
	}
	if fm+1 < first {
		r.fail("the restarted node's log does not match the leader's log at its own snapshot")
		return
	}
	r.fmatch = fm
}

// step: one message of the scripted leader, then everything the node does with it.
func (r *rsess) step(m raftpb.Message) {
	m.To = 1
	if m.From == 0 {
		m.From = r.leader
	}
	if m.Term == 0 {
		m.Term = r.lterm
	}
	r.outbox = nil
	if err := r.node.rn.Step(m); err != nil {
		r.session.run.Count("rs:step-error:" + err.Error())
	}
	r.session.run.Count("rs:msg:" + m.Type.String())
	r.pump()
	for _, o := range r.outbox {
		if o.Type == raftpb.MsgAppResp {
			if o.Reject {
				if o.RejectHint < r.fmatch {
					r.fmatch = o.RejectHint
				}
				r.session.run.Count("rs:ack:reject")
			} else if o.Index <= uint64(len(r.llog)) {
				r.fmatch = o.Index
				r.session.run.Count("rs:ack:accept")
			}
		}
	}
}

func (r *rsess) newBlockEntry() []byte {
	r.blkNo++
	b := types.NewBlock(&types.BlockHeaderInfo{No: r.blkNo, Ts: int64(r.blkNo)*1000 + int64(r.rng.Intn(1000)), ChainId: []byte("c16")}, nil, nil, nil, nil, nil)
	h := b.BlockHash()
	k := &blk{b: b, hash: append([]byte{}, h...), no: r.blkNo}
	r.session.blocks = append(r.session.blocks, k)
	d, err := raftv2.VerifMarshalBlock(b)
	if err != nil {
		panic(err)
	}
	r.blkByData[string(d)] = k
	return d
}

// a conf change the leader proposes: valid ones and ones the property says must be refused
func (r *rsess) newConfChange() []byte {
	c, _ := r.confAt(uint64(len(r.llog)))
	var m *mem
	ty := raftpb.ConfChangeAddNode
	extra := func(i int) *mem {
		return &mem{id: uint64(4 + i), name: fmt.Sprintf("node%d", 3+i), addr: fmt.Sprintf("/ip4/10.0.0.%d/tcp/7846", 4+i), peer: extraPeers[i]}
	}
	var in, out, gone []int
	for i := 0; i < 5; i++ {
		switch {
		case c.applied[uint64(4+i)] != nil:
			in = append(in, i)
		case c.removed[uint64(4+i)]:
			gone = append(gone, i)
		default:
			out = append(out, i)
		}
	}
	pick := func(l []int) int { return l[r.rng.Intn(len(l))] }
	switch k := r.rng.Intn(10); {
	case k < 3 && len(out) > 0:
		m = extra(pick(out))
		r.run.Count("rs:cc:add-new")
	case k < 5 && len(in) > 0:
		m, ty = extra(pick(in)), raftpb.ConfChangeRemoveNode
		r.run.Count("rs:cc:remove-member")
	case k < 6 && len(gone) > 0:
		m = extra(pick(gone))
		r.run.Count("rs:cc:re-add-removed")
	case k < 7 && len(out) > 0:
		m = extra(pick(out))
		switch r.rng.Intn(3) {
		case 0:
			m.name = "node1"
		case 1:
			m.addr = "/ip4/10.0.0.2/tcp/7846"
		default:
			m.peer = []byte(nodePeers[2])
		}
		r.run.Count("rs:cc:add-duplicate-attribute")
	case k < 8:
		m, ty = &mem{id: uint64(20 + r.rng.Intn(3)), name: "ghost", addr: "/ip4/10.0.9.9/tcp/1", peer: extraPeers[0]}, raftpb.ConfChangeRemoveNode
		r.run.Count("rs:cc:remove-unknown")
	case k < 9 && len(gone) > 0:
		m, ty = extra(pick(gone)), raftpb.ConfChangeRemoveNode
		r.run.Count("rs:cc:remove-removed")
	default:
		m = &mem{id: uint64(2 + r.rng.Intn(2)), name: "other", addr: "/ip4/10.0.8.8/tcp/1", peer: extraPeers[4]}
		r.run.Count("rs:cc:add-duplicate-id")
	}
	ctx, err := json.Marshal(m.member())
	if err != nil {
		panic(err)
	}
	cc := raftpb.ConfChange{ID: uint64(r.rng.Intn(3)) * uint64(1+r.rng.Intn(50)), Type: ty, NodeID: m.id, Context: ctx}
	d, err := cc.Marshal()
	if err != nil {
		panic(err)
	}
	return d
}

func (r *rsess) leaderAppend(n int) {
	for i := 0; i < n; i++ {
		e := raftpb.Entry{Term: r.lterm, Index: uint64(len(r.llog) + 1)}
		switch k := r.rng.Intn(10); {
		case k < 5:
			e.Data = r.newBlockEntry()
		case k < 7:
		default:
			e.Type, e.Data = raftpb.EntryConfChange, r.newConfChange()
		}
		r.llog = append(r.llog, e)
	}
}

func (r *rsess) sendApp(prev, hi uint64) {
	ents := append([]raftpb.Entry{}, r.llog[prev:hi]...)
	r.step(raftpb.Message{Type: raftpb.MsgApp, Index: prev, LogTerm: r.termAt(prev), Entries: ents, Commit: r.lcommit})
}

// advanceCommit: the leader commits what a quorum (itself and this follower) holds, entries of its own term only
func (r *rsess) advanceCommit() {
	for c := r.fmatch; c > r.lcommit; c-- {
		if r.termAt(c) == r.lterm {
			r.lcommit = c
			return
		}
	}
}

func (r *rsess) one() {
	s := r.session
	r.steps++
	L := uint64(len(r.llog))
	switch k := s.rng.Intn(100); {
	case k < 34: // append and replicate (sometimes only a part, sometimes a range the follower already has)
		r.leaderAppend(1 + s.rng.Intn(3))
		L = uint64(len(r.llog))
		prev := r.fmatch
		if prev > 0 && s.rng.Chance(1, 4) {
			back := uint64(1 + s.rng.Intn(2))
			if back > prev {
				back = prev
			}
			prev -= back
			s.run.Count("rs:app:overlapping")
		}
		hi := L
		if hi > prev+1 && s.rng.Chance(1, 4) {
			hi = prev + 1 + uint64(s.rng.Intn(int(hi-prev-1)))
		}
		r.sendApp(prev, hi)
		if s.rng.Chance(2, 3) {
			r.advanceCommit()
		}
	case k < 46: // heartbeat carrying the commit index
		r.advanceCommit()
		c := r.lcommit
		if c > r.fmatch {
			c = r.fmatch
		}
		r.step(raftpb.Message{Type: raftpb.MsgHeartbeat, Commit: c})
	case k < 54: // catch up: everything the follower lacks
		if r.fmatch < L {
			r.sendApp(r.fmatch, L)
		} else {
			r.sendApp(r.fmatch, r.fmatch) // empty append: commit only
		}
		r.advanceCommit()
	case k < 72: // a new leader whose log ends somewhere at or after the commit index
		cand := uint64(5) - r.leader
		r.lterm += uint64(1 + s.rng.Intn(2))
		t := r.lcommit + uint64(s.rng.Intn(int(L-r.lcommit)+1))
		r.llog = r.llog[:t]
		if r.fmatch > t {
			r.fmatch = t
		}
		r.leader = cand
		s.run.Count("rs:new-leader")
		if s.rng.Chance(1, 2) {
			// it asks for this node's vote first (a transfer: the lease check is bypassed, as raft does for leader transfer)
			r.step(raftpb.Message{Type: raftpb.MsgVote, Index: t, LogTerm: r.termAt(t), Context: []byte("CampaignTransfer")})
			for _, o := range r.outbox {
				if o.Type == raftpb.MsgVoteResp {
					s.run.Count(fmt.Sprintf("rs:vote:reject=%v", o.Reject))
				}
			}
		}
		if r.dead {
			return
		}
		r.llog = append(r.llog, raftpb.Entry{Term: r.lterm, Index: t + 1}) // the new leader's no-op entry
		r.leaderAppend(s.rng.Intn(3))
		L = uint64(len(r.llog))
		prev := r.fmatch
		if prev > r.lcommit && s.rng.Chance(1, 3) {
			prev = r.lcommit + uint64(s.rng.Intn(int(prev-r.lcommit)+1))
		}
		r.sendApp(prev, L)
	case k < 82: // the follower lags, the leader compacts its log and sends a snapshot
		r.leaderAppend(2 + s.rng.Intn(3))
		L = uint64(len(r.llog))
		if r.termAt(L) != r.lterm {
			return
		}
		r.lcommit = L // committed with the other follower
		S := L
		if s.rng.Chance(1, 4) && r.fmatch > r.lcommit {
			S = r.fmatch // a snapshot of something the follower already has (fast-forward, no install)
		}
		r.sendSnapshot(S)
	case k < 90:
		r.cleanRestart()
	default: // duplicate / stale traffic
		if r.fmatch > 0 {
			p := uint64(s.rng.Intn(int(r.fmatch)))
			r.sendApp(p, r.fmatch)
			s.run.Count("rs:app:duplicate")
		}
	}
}

func (r *rsess) sendSnapshot(S uint64) {
	s := r.session
	c, rm := r.confAt(S)
	// the chain block of the snapshot must be in the node's chain (the snapshot receiver syncs the chain first)
	no := 100000 + uint64(r.steps)
	bb := types.NewBlock(&types.BlockHeaderInfo{No: no, Ts: int64(no)*1000 + int64(s.rng.Intn(1000)), ChainId: []byte("c16")}, nil, nil, nil, nil, nil)
	b := &blk{b: bb, hash: append([]byte{}, bb.BlockHash()...), no: no}
	out := res(func() error { s.cdb.VerifRaftConnectBest(b.b); return nil })
	s.op("best "+b.tok(), out, true)
	s.best = b
	var ms, rs []*consensus.Member
	ap, _ := c.ids()
	for _, id := range ap {
		ms = append(ms, c.applied[id].member())
	}
	var rids []uint64
	for id := range rm {
		rids = append(rids, id)
	}
	sort.Slice(rids, func(i, j int) bool { return rids[i] < rids[j] })
	for _, id := range rids {
		rs = append(rs, rm[id].member())
	}
	data, err := consensus.NewSnapshotData(ms, rs, b.b).Encode()
	if err != nil {
		panic(err)
	}
	snap := raftpb.Snapshot{Data: data, Metadata: raftpb.SnapshotMetadata{Index: S, Term: r.termAt(S), ConfState: raftpb.ConfState{Nodes: ap}}}
	s.run.Count("rs:leader-sends-snapshot")
	r.step(raftpb.Message{Type: raftpb.MsgSnap, Snapshot: snap})
}

// the node takes its own snapshot every snapEvery applied entries and keeps as many entries behind it
// (production: both are the configured snapshot frequency)
const snapEvery = 3

// A crash during the very first start of a node: the identity is durable (SaveIdentity), the first hard
// state is not. HasWal then answers false and startRaft takes the new-cluster branch again: startNode.
// startNode ends the process through logger.Fatal when it refuses, so it is run in a child process
// (this binary, C16_SUB=startnode:<dir>) on a copy of the torn store.
const firstStartCrashIsViolation = true

func subStartNode(dir string) {
	store := db.NewDB(db.MemoryImpl, dir)
	cdb, err := chain.VerifRaftChainDBOn(store)
	if err != nil {
		fmt.Println("init-failed")
		os.Exit(3)
	}
	cl := raftv2.VerifNewClusterNamed("node0", nodePeers[0])
	for i := 0; i < 3; i++ {
		m := &consensus.Member{MemberAttr: types.MemberAttr{ID: uint64(i + 1), Name: fmt.Sprintf("node%d", i), Address: fmt.Sprintf("/ip4/10.0.0.%d/tcp/7846", i+1), PeerID: []byte(nodePeers[i])}}
		if err := cl.VerifAddInitMember(m); err != nil {
			panic(err)
		}
	}
	raftv2.VerifStartNodeReal(cdb, cl)
	fmt.Println("started")
	os.Exit(0)
}

// firstStartCrash: the node is started a second time on the store as a crash left it during its first start.
func (r *rsess) firstStartCrash(what string, m map[string][]byte) {
	s := r.session
	if !r.controlDone {
		// control: the same child on an empty store must start (otherwise the refusal below would prove nothing)
		r.controlDone = true
		r.firstStartCrash("control: empty store", map[string][]byte{})
	}
	dir := filepath.Join(s.run.Out, "firststart")
	os.RemoveAll(dir)
	os.MkdirAll(dir, 0o755)
	materialiseIn(dir, m).Close() // memorydb writes its file on Close
	cmd := exec.Command(os.Args[0])
	cmd.Env = append(os.Environ(), "C16_SUB=startnode:"+dir, "C16_LOG=1")
	out, err := cmd.CombinedOutput()
	os.RemoveAll(dir)
	last := ""
	for _, l := range strings.Split(strings.TrimSpace(string(out)), "\n") {
		if strings.Contains(l, "\"level\":\"fatal\"") || l == "started" {
			last = l
		}
	}
	if err == nil && last == "started" {
		s.run.Count("rs:first-start-crash(" + what + "):second-start-succeeds")
		return
	}
	msg := last
	if i := strings.Index(last, "\"message\":"); i >= 0 {
		msg = strings.Trim(last[i+10:], "\"}")
	}
	s.run.Count("rs:first-start-crash(" + what + "):SECOND-START-REFUSED: " + clip(msg, 100))
	if firstStartCrashIsViolation {
		s.run.FailKnown("a node that crashed during its first start ("+what+") can never start: "+clip(last, 300), "C16-first-start-crash",
			map[string]interface{}{"session": append([]string{}, s.ops...), "child": clip(string(out), 1500)})
	}
}

func raftSessions(run *vh.Run) {
	raftv2.ConfSnapFrequency, raftv2.ConfSnapshotCatchUpEntriesN = snapEvery, snapEvery
	s := &session{run: run, rng: run.Rng, dir: filepath.Join(run.Out, "raftnode")}
	n := run.Pick(45, 500)
	for i := 0; i < n; i++ {
		r := &rsess{session: s, firstOfRun: i == 0}
		s.cuts = true
		if !r.start() {
			continue
		}
		run.Count("rs:session")
		steps := 10 + s.rng.Intn(run.Pick(25, 40))
		for k := 0; k < steps && !r.dead; k++ {
			r.one()
		}
		if !r.dead {
			r.srv.Stop()
		}
		s.store.Close()
	}
}
