package main

import (
	"fmt"
	"math/big"
	"sync"
	"time"

	"github.com/aergoio/aergo/v2/syncer"
	"github.com/aergoio/aergo/v2/types"
	"github.com/aergoio/aergo/v2/types/message"
	"github.com/aergoio/aergo/v2/zz_verif/vh"
)

// End-to-end runs: the real Syncer with its real goroutines (finder, hash fetcher, block fetcher
// loop, ticker). The harness plays P2P, the peers and the chain service through the requester
// interface and is the single thread that feeds Syncer.Receive, like the actor mailbox. Schedules
// are whatever the Go runtime does; only the property is evaluated (no model line).

type liveChain struct {
	mu    sync.RWMutex
	c     *chainT
	db    *dbChain
	useDB bool      // answer from the real chain DB (side-branch blocks are found by id) instead of the block slice
	hist  []*chainT // every chain that has been the main chain
}

func (l *liveChain) set(c *chainT) {
	l.setDB(c, newDBChain(c))
}

func (l *liveChain) setDB(c *chainT, db *dbChain) {
	l.mu.Lock()
	l.c, l.db = c, db
	l.hist = append(l.hist, c)
	l.mu.Unlock()
}
func (l *liveChain) get() (*chainT, *dbChain) {
	l.mu.RLock()
	defer l.mu.RUnlock()
	return l.c, l.db
}
func (l *liveChain) GetGenesisInfo() *types.Genesis { return nil }
func (l *liveChain) GetConsensusInfo() string       { return "" }
func (l *liveChain) GetBestBlock() (*types.Block, error) {
	c, db := l.get()
	if l.useDB {
		return db.cs.GetBestBlock()
	}
	return (&memChain{c}).GetBestBlock()
}
func (l *liveChain) GetBlock(h []byte) (*types.Block, error) {
	c, db := l.get()
	if l.useDB {
		return db.cs.GetBlock(h)
	}
	return (&memChain{c}).GetBlock(h)
}
func (l *liveChain) GetHashByNo(no types.BlockNo) ([]byte, error) {
	c, db := l.get()
	if l.useDB {
		return db.cs.GetHashByNo(no)
	}
	return (&memChain{c}).GetHashByNo(no)
}
func (l *liveChain) GetChainStats() string                                       { return "" }
func (l *liveChain) GetSystemValue(types.SystemValue) (*big.Int, error)          { return nil, nil }
func (l *liveChain) GetEnterpriseConfig(string) (*types.EnterpriseConfig, error) { return nil, nil }
func (l *liveChain) ChainID(types.BlockNo) *types.ChainID                        { return nil }
func (l *liveChain) HardforkHeights() map[string]types.BlockNo                   { return nil }

type pItem struct {
	due      time.Time
	msg      interface{}
	toSyncer bool
}

type pump struct {
	mu    sync.Mutex
	items []pItem
	wake  chan struct{}
}

func (p *pump) push(it pItem) {
	p.mu.Lock()
	p.items = append(p.items, it)
	p.mu.Unlock()
	select {
	case p.wake <- struct{}{}:
	default:
	}
}

// next returns the first item that is due (FIFO among due items); waits up to `wait`.
func (p *pump) next(wait time.Duration) (pItem, bool) {
	deadline := time.Now().Add(wait)
	for {
		now := time.Now()
		p.mu.Lock()
		sleep := deadline.Sub(now)
		for i, it := range p.items {
			if !it.due.After(now) {
				p.items = append(p.items[:i:i], p.items[i+1:]...)
				p.mu.Unlock()
				return it, true
			}
			if d := it.due.Sub(now); d < sleep {
				sleep = d
			}
		}
		p.mu.Unlock()
		if sleep <= 0 {
			return pItem{}, false
		}
		select {
		case <-p.wake:
		case <-time.After(sleep):
		}
	}
}

type e2eReq struct {
	p      *pump
	local  *liveChain
	npeers int
}

func (r *e2eReq) TellTo(target string, msg interface{})    { r.p.push(pItem{due: time.Now(), msg: msg}) }
func (r *e2eReq) RequestTo(target string, msg interface{}) { r.p.push(pItem{due: time.Now(), msg: msg}) }
func (r *e2eReq) RequestToFutureResult(target string, msg interface{}, timeout time.Duration, tip string) (interface{}, error) {
	switch m := msg.(type) {
	case *message.GetAnchors:
		_, db := r.local.get()
		hs, last, err := db.cs.VerifC17Anchors()
		return message.GetAnchorsRsp{Seq: m.Seq, Hashes: hs, LastNo: last, Err: err}, nil
	case *message.GetPeers:
		return peersRsp(r.npeers), nil
	}
	return nil, errStub
}

const (
	fHonest = iota
	fDrop
	fError
	fTooFew
	fTooMany
	fSwapped
	fOtherFork
	fWrongPeer
	fEmpty
)

var faultNames = []string{"honest", "drop", "error", "too-few", "too-many", "swapped", "other-fork", "wrong-peer", "empty"}

type e2eScenario struct {
	L, F, R   int
	npeers    int
	hashReq   int
	fetchSize int
	pendConn  int
	tasks     int
	fullOnly  bool
	faultPct  int   // probability (percent) that a block request is answered faultily
	addErrAt  int   // the chain service refuses the k-th block (-1: never)
	hashFault int   // 0 none, 1 error reply, 2 no reply, 3 wrong echo   (applied to hashFaultAt-th request)
	hashAt    int
	finderDrop bool // the first remote request of the finder is never answered
	stopAt    int   // inject a stop request before pump step k (-1: never)
	seed      uint64
	wire      *wireCfg // non-nil: the requests go through the real P2P request path (wiree2e.go)
}

func (sc *e2eScenario) String() string {
	s := fmt.Sprintf("L=%d F=%d R=%d peers=%d hashReq=%d fetch=%d pend=%d tasks=%d full=%v fault%%=%d addErrAt=%d hashFault=%d@%d finderDrop=%v stopAt=%d seed=%d",
		sc.L, sc.F, sc.R, sc.npeers, sc.hashReq, sc.fetchSize, sc.pendConn, sc.tasks, sc.fullOnly, sc.faultPct, sc.addErrAt, sc.hashFault, sc.hashAt, sc.finderDrop, sc.stopAt, sc.seed)
	if sc.wire != nil {
		s += " wire{" + sc.wire.String() + "}"
	}
	return s
}

type e2eResult struct {
	ended     bool
	err       error
	ancestor  *types.BlockInfo
	delivered []*types.Block
	steps     int
	hung      string
	log       []string
	probes    int      // GetHashByNo requests of the finder (> 0: the full scan ran)
	light     []string // what the finder was answered on its anchor list ("nil" or a height), in order
	ancFailed bool     // the ancestor exchange failed below the syncer (no answer of the remote chain service / failure status)
	hbnFailed bool     // a hash-by-no exchange failed below the syncer
	hist      []*chainT // the chains that were the local main chain during the session (more than one: it changed)
}

type e2eEnv struct {
	sy     *syncer.Syncer
	cfg    *syncer.SyncerConfig
	req    *e2eReq
	p      *pump
	local  *liveChain
	remote *chainT
	alt    *chainT
	wire   *wireNet
	swapTo *chainT
}

var errUserStop = stubErr("c17 stop request")
var errOrphan = stubErr("c17 chain service: block does not continue the chain")

// runSession drives one synchronisation session to its end (or to the watchdog).
func (env *e2eEnv) runSession(sc *e2eScenario, target uint64, faults bool, watchdog time.Duration) *e2eResult {
	res := &e2eResult{}
	rng := vh.NewRng(sc.seed)
	notify := make(chan error, 1)
	done := make(chan struct{})
	var mu sync.Mutex
	logf := func(f string, a ...interface{}) {
		mu.Lock()
		if len(res.log) < 400 {
			res.log = append(res.log, fmt.Sprintf(f, a...))
		}
		mu.Unlock()
	}
	go func() {
		defer close(done)
		sy, p := env.sy, env.p
		seq0 := sy.Seq
		sy.Receive(actorCtx{m: &message.SyncStart{PeerID: peerID(0), TargetNo: target, NotifyC: notify}})
		if !sy.VerifC17IsRunning() {
			res.hung = "start request not taken"
			return
		}
		seq := sy.Seq
		if seq != seq0+1 {
			res.hung = "sequence not advanced by one"
			return
		}
		timeout := 40 * time.Millisecond
		chunkNo, addNo, hashNo, finderReq := 0, 0, 0, 0
		toSyncer := func(d time.Duration, m interface{}) { p.push(pItem{due: time.Now().Add(d), msg: m, toSyncer: true}) }
		if env.wire != nil {
			env.wireSession(sc, faults, rng, res, &mu, logf, func(m interface{}) { toSyncer(0, m) })
			defer env.wire.set(nil, nil, nil, nil)
		}
		for {
			select {
			case e := <-notify:
				res.ended, res.err = true, e
				return
			default:
			}
			it, ok := p.next(20 * time.Millisecond)
			if !ok {
				continue
			}
			res.steps++
			if faults && sc.wire != nil && sc.wire.swapAt == res.steps && env.swapTo != nil {
				logf("the local main chain changes (kind %d)", sc.wire.swapKind)
				_, odb := env.local.get()
				ndb := newDBChain(env.swapTo)
				// the blocks of the branch that was left stay in the store
				for _, b := range odb.c.blocks {
					if _, e := ndb.cs.GetBlock(b.GetHash()); e != nil {
						ndb.cs.VerifC17AddSide(b)
					}
				}
				env.local.setDB(env.swapTo, ndb)
			}
			if faults && sc.stopAt == res.steps {
				logf("inject stop request")
				sy.Receive(actorCtx{m: &message.SyncStop{Seq: seq, FromWho: "user", Err: errUserStop}})
			}
			if it.toSyncer {
				sy.Receive(actorCtx{m: it.msg})
				continue
			}
			switch m := it.msg.(type) {
			case *message.FinderResult:
				if m.Seq == seq {
					res.ancestor = m.Ancestor
				}
				logf("finder result %v", m.Ancestor != nil)
				if faults {
					syncer.VerifC17SetFetchTimeout(env.cfg, timeout)
				}
				sy.Receive(actorCtx{m: m})
			case *message.SyncStop:
				logf("stop from %s: %v", m.FromWho, m.Err)
				sy.Receive(actorCtx{m: m})
			case *message.CloseFetcher:
				sy.Receive(actorCtx{m: m})
			case *message.GetSyncAncestor:
				finderReq++
				if faults && sc.finderDrop && finderReq == 1 {
					logf("ancestor request not answered")
					break
				}
				if env.wire != nil {
					env.wire.request(m)
					break
				}
				var anc *types.BlockInfo
				for _, h := range m.Hashes {
					if b, ok := env.remote.byHash[string(h)]; ok {
						anc = &types.BlockInfo{Hash: b.GetHash(), No: b.GetHeader().GetBlockNo()}
						break
					}
				}
				mu.Lock()
				if anc == nil {
					res.light = append(res.light, "nil")
				} else {
					res.light = append(res.light, fmt.Sprint(anc.No))
				}
				mu.Unlock()
				toSyncer(2*time.Millisecond, &message.GetSyncAncestorRsp{Seq: m.Seq, Ancestor: anc})
			case *message.GetHashByNo:
				finderReq++
				mu.Lock()
				res.probes++
				mu.Unlock()
				if faults && sc.finderDrop && finderReq == 1 {
					logf("hash-by-no request not answered")
					break
				}
				if env.wire != nil {
					env.wire.request(m)
					break
				}
				toSyncer(0, &message.GetHashByNoRsp{Seq: m.Seq, BlockHash: env.remote.hashAt(m.BlockNo)})
			case *message.GetHashes:
				hashNo++
				if env.wire != nil {
					env.wire.request(m)
					break
				}
				rsp := &message.GetHashesRsp{Seq: m.Seq, PrevInfo: m.PrevInfo}
				for i := uint64(1); i <= m.Count; i++ {
					if h := env.remote.hashAt(m.PrevInfo.No + i); h != nil {
						rsp.Hashes = append(rsp.Hashes, message.BlockHash(h))
					}
				}
				rsp.Count = uint64(len(rsp.Hashes))
				if faults && sc.hashFault != 0 && hashNo == sc.hashAt {
					logf("hash request %d: fault %d", hashNo, sc.hashFault)
					switch sc.hashFault {
					case 1:
						rsp.Err = errStub
					case 2:
						rsp = nil
					case 3:
						rsp.PrevInfo = &types.BlockInfo{Hash: m.PrevInfo.Hash, No: m.PrevInfo.No + 1}
					}
				}
				if rsp != nil {
					toSyncer(time.Duration(rng.Intn(2))*time.Millisecond, rsp)
				}
			case *message.GetBlockChunks:
				chunkNo++
				if env.wire != nil {
					env.wire.request(m)
					break
				}
				kind := fHonest
				if faults && rng.Intn(100) < sc.faultPct {
					kind = 1 + rng.Intn(len(faultNames)-1)
				}
				var good []*types.Block
				for _, h := range m.Hashes {
					if b, ok := env.remote.byHash[string(h)]; ok {
						good = append(good, b)
					}
				}
				rsp := &message.GetBlockChunksRsp{Seq: m.Seq, ToWhom: m.ToWhom, Blocks: good}
				switch kind {
				case fDrop:
					rsp = nil
				case fError:
					rsp.Blocks, rsp.Err = nil, errStub
				case fEmpty:
					rsp.Blocks = nil
				case fTooFew:
					rsp.Blocks = good[:rng.Intn(len(good))]
				case fTooMany:
					rsp.Blocks = append(append([]*types.Block{}, good...), env.alt.blocks[len(env.alt.blocks)-1])
				case fSwapped:
					if len(good) >= 2 {
						b := append([]*types.Block{}, good...)
						b[0], b[1] = b[1], b[0]
						rsp.Blocks = b
					}
				case fOtherFork:
					b := append([]*types.Block{}, good...)
					j := rng.Intn(len(b))
					b[j] = env.alt.blocks[b[j].GetHeader().GetBlockNo()]
					rsp.Blocks = b
				case fWrongPeer:
					rsp.ToWhom = peerID((peerNoOf(m.ToWhom) + 1) % 6)
				}
				if kind != fHonest {
					logf("block request %d to %s: %s", chunkNo, m.ToWhom, faultNames[kind])
				}
				if rsp != nil {
					d := time.Duration(rng.Intn(4)) * time.Millisecond
					if faults && rng.Intn(100) < sc.faultPct/2 {
						d = timeout * 2 // slower than the fetch timeout: P2P's own TTL swallows the reply
					}
					if d < timeout {
						toSyncer(d, rsp)
					}
				}
			case *message.AddBlock:
				addNo++
				mu.Lock()
				res.delivered = append(res.delivered, m.Block)
				mu.Unlock()
				rsp := &message.AddBlockRsp{BlockNo: m.Block.GetHeader().GetBlockNo(), BlockHash: m.Block.GetHash()}
				// like the chain service in sync mode: a block that does not continue what was connected is refused
				mu.Lock()
				if n := len(res.delivered); n >= 2 && string(m.Block.GetHeader().GetPrevBlockHash()) != string(res.delivered[n-2].GetHash()) {
					rsp.Err = errOrphan
				} else if n == 1 && res.ancestor != nil && string(m.Block.GetHeader().GetPrevBlockHash()) != string(res.ancestor.Hash) {
					rsp.Err = errOrphan
				}
				mu.Unlock()
				if faults && addNo == sc.addErrAt {
					logf("chain service refuses block %d", rsp.BlockNo)
					rsp.Err = errStub
				}
				toSyncer(0, rsp)
			default:
				logf("unexpected message %T", m)
			}
		}
	}()
	select {
	case <-done:
	case <-time.After(watchdog):
		mu.Lock()
		res.hung = "watchdog: the session neither completed nor stopped"
		mu.Unlock()
	}
	return res
}

// check the property on what one session did
var e2eFails int

func e2eCheck(run *vh.Run, sc *e2eScenario, what string, local, remote *chainT, target uint64, res *e2eResult, mustComplete bool) bool {
	replay := map[string]interface{}{"scenario": sc.String(), "session": what, "log": res.log}
	fail := func(msg string) bool {
		run.Fail(what+": "+msg, replay)
		e2eFails++
		return false
	}
	if res.hung != "" {
		return fail(res.hung)
	}
	if !res.ended {
		return fail("no result notification")
	}
	anc := -1
	if res.ancestor != nil {
		anc = int(res.ancestor.No)
		chains := res.hist
		if len(chains) == 0 {
			chains = []*chainT{local}
		}
		onSome := false
		for _, lc := range chains {
			if sameAt(lc, remote, uint64(anc)) && string(res.ancestor.Hash) == string(lc.hashAt(uint64(anc))) {
				onSome = true
			}
		}
		if !onSome {
			return fail(fmt.Sprintf("ancestor %d is not a block of the local main chain that the remote main chain has", anc))
		}
		if len(chains) == 1 {
			lightNone := sc.fullOnly
			if !lightNone {
				lightNone = true
				for _, a := range anchorsOf(local.best()) {
					if sameAt(local, remote, a) {
						lightNone = false
					}
				}
			}
			// the finder took the quick comparison for "none" exactly when it went on to probe single heights
			scanned := res.probes > 0
			if hc := highestCommon(local, remote); (lightNone || scanned) && anc != hc {
				if !lightNone && res.ancFailed {
					// the ancestor exchange FAILED below the syncer and the finder was told "no anchor shared"
					ancFailureAsNone(run, sc, what, anc, hc, res)
				} else {
					return fail(fmt.Sprintf("the quick anchor comparison found none but ancestor %d is not the highest shared block %d", anc, hc))
				}
			}
		}
	}
	if len(res.delivered) > 0 && anc < 0 {
		return fail("blocks delivered without an ancestor")
	}
	for k, b := range res.delivered {
		h := uint64(anc + 1 + k)
		prev := remote.hashAt(uint64(anc))
		if k > 0 {
			prev = res.delivered[k-1].GetHash()
		}
		if h > target || b.GetHeader().GetBlockNo() != h || string(b.GetHash()) != string(remote.hashAt(h)) ||
			string(b.GetHeader().GetPrevBlockHash()) != string(prev) {
			return fail(fmt.Sprintf("delivery #%d (height %d) breaks the ascending contiguous linked order from ancestor %d", k, b.GetHeader().GetBlockNo(), anc))
		}
	}
	if res.err == nil && (anc < 0 || uint64(anc+len(res.delivered)) != target) {
		return fail(fmt.Sprintf("success reported but %d blocks from ancestor %d do not reach the target %d", len(res.delivered), anc, target))
	}
	if mustComplete && res.err != nil {
		return fail(fmt.Sprintf("a fault-free later synchronisation stopped with %v", res.err))
	}
	return true
}

func anchorsOf(best uint64) []uint64 {
	var out []uint64
	no := best
	for i := 0; i < 32; i++ {
		out = append(out, no)
		if no == 0 {
			break
		}
		if no < 16 {
			no = 0
		} else {
			no -= 16
		}
	}
	return out
}

func runE2E(run *vh.Run, sc *e2eScenario, idx int) (steps int) {
	base := newChain(nil, -1, sc.F, int64(20000+3*idx))
	local := newChain(base, sc.F, sc.L, int64(20001+3*idx))
	remote := newChain(base, sc.F, sc.R+3, int64(20002+3*idx))
	alt := newChain(remote, sc.F, sc.R+3, int64(30000+idx))
	env := &e2eEnv{p: &pump{wake: make(chan struct{}, 1)}, local: &liveChain{}, remote: remote, alt: alt}
	env.local.set(local)
	if sc.wire != nil {
		env.setupWire(sc, local, remote)
		defer env.wire.close()
		switch sc.wire.swapKind {
		case 1:
			env.swapTo = newChain(local, sc.L, sc.L+2, int64(40000+idx))
		case 2:
			env.swapTo = &chainT{}
			for i := 0; i <= sc.L+1 && i < len(remote.blocks); i++ {
				env.swapTo.add(remote.blocks[i])
			}
		}
	}
	env.req = &e2eReq{p: env.p, local: env.local, npeers: sc.npeers}
	// The finder waits for each answer on an unbuffered channel and the service hands a late answer over
	// with a blocking send (notes/C17.md): a reply that arrives after the finder gave up would block the
	// single service thread for ever. Keep the finder's timeout far above any scheduling hiccup and shorten
	// it for the block tasks once the ancestor is known. (With finderDrop nothing is ever answered.)
	ft := 5 * time.Second
	if sc.finderDrop {
		ft = 60 * time.Millisecond
	}
	env.cfg = syncer.VerifC17NewCfg(uint64(sc.hashReq), sc.fetchSize, sc.pendConn, sc.tasks, ft, sc.fullOnly)
	env.sy = syncer.NewSyncer(nil, env.local, env.cfg)
	env.sy.SetRequester(env.req)

	oldTick, oldHash := syncer.VerifC17SetTimers(3*time.Millisecond, 150*time.Millisecond)
	defer syncer.VerifC17SetTimers(oldTick, oldHash)

	target := uint64(sc.R)
	wd := 12 * time.Second
	if sc.L > 100 {
		wd = 40 * time.Second
	}
	res := env.runSession(sc, target, true, wd)
	res.hist = append([]*chainT{}, env.local.hist...)
	if env.wire != nil && res.hung == "" {
		time.Sleep(2 * time.Millisecond)
		env.wire.serveAncOps(func(op, out string) { run.Op(op, out, true); run.Count("wire:serveanc-line") })
	}
	if len(res.hist) > 1 {
		run.Count("e2e:local-chain-changed-during-session")
	}
	run.Eval("e2e:"+sc.String(), res.ended && len(res.delivered) > 0)
	if res.hung != "" {
		e2eCheck(run, sc, "first session", local, remote, target, res, false)
		return res.steps
	}
	switch {
	case res.err == nil:
		run.Count("e2e:completed")
	case res.err == errUserStop:
		run.Count("e2e:stopped-on-request")
	default:
		run.Count("e2e:stopped-with-error")
	}
	// what is still in the mailboxes was sent before the session reported its end: a request to the
	// chain service among it still counts as handed over (and must continue the order); late replies
	// addressed to the finished session must be dropped by the service
	drain := func() (adds int) {
		for {
			it, ok := env.p.next(0)
			if !ok {
				return
			}
			switch m := it.msg.(type) {
			case *message.AddBlock:
				res.delivered = append(res.delivered, m.Block)
				adds++
			case *message.SyncStop, *message.CloseFetcher, *message.FinderResult:
				env.sy.Receive(actorCtx{m: m}) // the session's own late notices: dropped as garbage
			default:
				if it.toSyncer {
					env.sy.Receive(actorCtx{m: it.msg})
				}
			}
		}
	}
	drain()
	if !e2eCheck(run, sc, "first session", local, remote, target, res, false) {
		return res.steps
	}
	f, h, b := env.sy.VerifC17HasParts()
	if env.sy.VerifC17IsRunning() || f || h || b {
		run.Fail("first session: still running after its result was reported", map[string]interface{}{"scenario": sc.String(), "log": res.log})
		e2eFails++
		return res.steps
	}
	// Reset has joined every goroutine of the session before it notified: nothing more may be sent now
	time.Sleep(4 * time.Millisecond)
	if drain() > 0 {
		run.Fail("first session: a block was handed to the chain service after the session had been torn down",
			map[string]interface{}{"scenario": sc.String(), "log": res.log})
	}
	// a later synchronisation can start: the node now has what was connected; the remote chain has grown
	local2, _ := env.local.get()
	if res.ancestor != nil && int(res.ancestor.No)+len(res.delivered) > int(local2.best()) {
		local2 = &chainT{}
		for i := 0; i <= int(res.ancestor.No)+len(res.delivered); i++ {
			local2.add(remote.blocks[i])
		}
	}
	env.local.hist = nil
	env.local.set(local2)
	syncer.VerifC17SetFetchTimeout(env.cfg, 20*time.Second)
	syncer.VerifC17SetTimers(3*time.Millisecond, 60*time.Second)
	target2 := uint64(sc.R + 3)
	res2 := env.runSession(sc, target2, false, 40*time.Second)
	if e2eCheck(run, sc, "later session", local2, remote, target2, res2, true) {
		run.Count("e2e:restart-ok")
	}
	return res.steps
}

func e2eRuns(run *vh.Run, n int) {
	rng := run.Rng
	gen := func() *e2eScenario {
		sc := &e2eScenario{addErrAt: -1, stopAt: -1, seed: rng.Next()}
		sc.L = rng.Intn(30)
		sc.F = rng.Intn(sc.L + 1)
		sc.R = sc.L + 1 + rng.Intn(14)
		sc.npeers = 1 + rng.Intn(4)
		sc.hashReq = 1 + rng.Intn(6)
		sc.fetchSize = 1 + rng.Intn(4)
		sc.pendConn = 1 + rng.Intn(4)
		sc.tasks = 1 + rng.Intn(4)
		sc.fullOnly = rng.Intn(3) == 0
		switch rng.Intn(4) {
		case 0:
		case 1:
			sc.faultPct = 10
		default:
			sc.faultPct = 30
		}
		if rng.Intn(8) == 0 {
			sc.addErrAt = 1 + rng.Intn(sc.R-sc.F)
		}
		if rng.Intn(8) == 0 {
			sc.hashFault, sc.hashAt = 1+rng.Intn(3), 1+rng.Intn(3)
		}
		sc.finderDrop = rng.Intn(25) == 0
		return sc
	}
	for i := 0; i < n && e2eFails < 3; i++ {
		runE2E(run, gen(), i)
	}
	if e2eFails >= 3 {
		run.Count("e2e:abandoned-after-failures")
		return
	}
	// stop requests at every step of one scenario
	for k := 0; k < run.Pick(1, 4); k++ {
		sc := gen()
		sc.finderDrop, sc.hashFault, sc.addErrAt = false, 0, -1
		steps := runE2E(run, sc, n+1000*k)
		for st := 1; st <= steps+1 && e2eFails < 3; st++ {
			c := *sc
			c.stopAt = st
			runE2E(run, &c, n+1000*k)
			run.Count("e2e:stop-injected")
		}
	}
}

// ancFailureAsNone: known finding C17-ancestor-failure-read-as-none - a failed ancestor exchange reaches the finder
// as "no anchor shared" (p2p/ancestorreceiver.go: any status but OK => Ancestor: nil), the full scan below LastAnchor
// then returns a shared block that is not the highest shared one. Tagged only when the nil reply was caused by a
// status other than NOT_FOUND (res.ancFailed) and the ancestor is shared (checked by the caller before).
func ancFailureAsNone(run *vh.Run, sc *e2eScenario, what string, anc, hc int, res *e2eResult) {
	run.Count("known:C17-ancestor-failure-read-as-none")
	run.FailKnown(fmt.Sprintf("%s: the ancestor exchange failed below the syncer (status other than NOT_FOUND), the finder was told 'no anchor shared' and handed on ancestor %d, not the highest shared block %d",
		what, anc, hc), "C17-ancestor-failure-read-as-none",
		map[string]interface{}{"scenario": sc.String(), "light_replies": res.light, "probes": res.probes, "log": res.log})
}
