package main

import (
	"fmt"
	"math/big"
	"strconv"
	"strings"
	"sync"
	"time"

	"github.com/aergoio/aergo/v2/chain"
	"github.com/aergoio/aergo/v2/syncer"
	"github.com/aergoio/aergo/v2/types"
	"github.com/aergoio/aergo/v2/types/message"
	"github.com/aergoio/aergo/v2/zz_verif/vh"
)

// memChain: a types.ChainAccessor over a block slice (GetHashByNo fails above the best block, as
// the real ChainDB does).
type memChain struct{ c *chainT }

func (m *memChain) GetGenesisInfo() *types.Genesis { return nil }
func (m *memChain) GetConsensusInfo() string       { return "" }
func (m *memChain) GetBestBlock() (*types.Block, error) {
	return m.c.blocks[len(m.c.blocks)-1], nil
}
func (m *memChain) GetBlock(h []byte) (*types.Block, error) {
	if b, ok := m.c.byHash[string(h)]; ok {
		return b, nil
	}
	for _, b := range m.c.blocks {
		if string(b.GetHash()) == string(h) {
			return b, nil
		}
	}
	return nil, errLocal
}
func (m *memChain) GetHashByNo(no types.BlockNo) ([]byte, error) {
	if no >= uint64(len(m.c.blocks)) {
		return nil, errLocal
	}
	return m.c.blocks[no].GetHash(), nil
}
func (m *memChain) GetChainStats() string                                   { return "" }
func (m *memChain) GetSystemValue(types.SystemValue) (*big.Int, error)      { return nil, nil }
func (m *memChain) GetEnterpriseConfig(string) (*types.EnterpriseConfig, error) { return nil, nil }
func (m *memChain) ChainID(types.BlockNo) *types.ChainID                    { return nil }
func (m *memChain) HardforkHeights() map[string]types.BlockNo               { return nil }

var otherHash = []byte("c17-some-other-hash-0123456789ab")

// probeAnswer: what the remote peer answers for one height. 's': the local hash, 'd': another
// hash, 'n': no hash, 'e': error, 'x': no answer at all.
type bsCase struct {
	local   types.ChainAccessor
	lhash   func(no uint64) []byte
	answer  func(no uint64) byte
	timeout time.Duration
}

// runBS runs the real Finder.binarySearch against a requester that answers GetHashByNo.
func runBS(c *bsCase, lo, hi uint64) (res string, probes []uint64) {
	to := c.timeout
	if to == 0 {
		to = 120 * time.Second
	}
	cfg := syncer.VerifC17NewCfg(10, 2, 2, 2, to, true)
	ctx := types.NewSyncCtx(7, peerID(0), hi+1, hi, nil)
	var f *syncer.Finder
	var mu sync.Mutex
	req := &recReq{}
	req.onTell = func(target string, msg interface{}) {
		m, ok := msg.(*message.GetHashByNo)
		if !ok {
			return
		}
		mu.Lock()
		probes = append(probes, m.BlockNo)
		mu.Unlock()
		rsp := &message.GetHashByNoRsp{Seq: m.Seq}
		switch c.answer(m.BlockNo) {
		case 's':
			rsp.BlockHash = c.lhash(m.BlockNo)
		case 'd':
			rsp.BlockHash = otherHash
		case 'n':
		case 'e':
			rsp.Err = errStub
		default:
			return
		}
		go f.GetHashByNoRsp(rsp)
	}
	f = syncer.VerifC17NewFinder(ctx, req, c.local, cfg)
	bi, err := f.VerifC17BinarySearch(lo, hi)
	switch {
	case err == errLocal:
		res = "localerr"
	case err != nil:
		res = "remoteerr"
	case bi == nil:
		res = "none"
	default:
		res = fmt.Sprintf("some:%d", bi.No)
		if string(bi.Hash) != string(c.lhash(bi.No)) {
			res += "!wronghash"
		}
	}
	return
}

func u64s(l []uint64) string {
	if len(l) == 0 {
		return "-"
	}
	s := make([]string, len(l))
	for i, x := range l {
		s[i] = strconv.FormatUint(x, 10)
	}
	return strings.Join(s, ",")
}

// pattern of two chains as seen from the local one, heights 0..local best.
func patternOf(local, remote *chainT) string {
	var sb strings.Builder
	for i := uint64(0); i <= local.best(); i++ {
		switch {
		case sameAt(local, remote, i):
			sb.WriteByte('s')
		case remote.hashAt(i) != nil:
			sb.WriteByte('d')
		default:
			sb.WriteByte('n')
		}
	}
	return sb.String()
}

// highest common height of two chains (-1: none).
func highestCommon(a, b *chainT) int {
	h := -1
	for i := uint64(0); i <= a.best() && i <= b.best(); i++ {
		if sameAt(a, b, i) {
			h = int(i)
		}
	}
	return h
}

// finderExhaustive: every local/remote chain pair with at most `max` blocks each: every fork
// point (including "nothing shared") and every pair of lengths; full scan over the whole local chain.
func finderExhaustive(run *vh.Run, max int) {
	base := newChain(nil, -1, max-1, 1)
	for f := -1; f < max; f++ {
		lfull := newChain(base, f, max-1, int64(100+f))
		rfull := newChain(base, f, max-1, int64(200+f))
		minL := f
		if minL < 0 {
			minL = 0
		}
		for L := minL; L < max; L++ {
			local := &chainT{blocks: lfull.blocks[:L+1]}
			for R := minL; R < max; R++ {
				remote := &chainT{blocks: rfull.blocks[:R+1]}
				if f >= 0 && f < L && f < R && sameAt(local, remote, uint64(f+1)) {
					panic("generator: chains share a block above the fork point")
				}
				c := &bsCase{local: &memChain{local}, lhash: local.hashAt, answer: func(no uint64) byte {
					switch {
					case sameAt(local, remote, no):
						return 's'
					case remote.hashAt(no) != nil:
						return 'd'
					}
					return 'n'
				}}
				res, probes := runBS(c, 0, uint64(L))
				op := fmt.Sprintf("bs %d 0 %d %s", L, L, patternOf(local, remote))
				run.Op(op, fmt.Sprintf("%s probes=%s", res, u64s(probes)), f >= 0)
				run.Count("bs-exhaustive")
				// oracle: the highest block both chains share, none if they share nothing
				want := "none"
				if hc := highestCommon(local, remote); hc >= 0 {
					want = fmt.Sprintf("some:%d", hc)
				}
				if res != want {
					run.Fail("binarySearch does not return the highest common block", map[string]interface{}{
						"local_best": L, "remote_best": R, "fork_point": f, "got": res, "want": want, "op": op})
				}
			}
		}
	}
}

// finderRandom: arbitrary windows, non-monotone answer patterns, errors, missing answers.
func finderRandom(run *vh.Run, n int) {
	rng := run.Rng
	base := newChain(nil, -1, 34, 3)
	for i := 0; i < n; i++ {
		L := rng.Intn(33)
		local := &chainT{blocks: base.blocks[:L+1]}
		plen := rng.Intn(L + 3)
		pat := make([]byte, plen)
		mode := rng.Intn(4)
		cut := rng.Intn(L + 2)
		for j := range pat {
			switch mode {
			case 0: // monotone
				if j < cut {
					pat[j] = 's'
				} else {
					pat[j] = "dn"[rng.Intn(2)]
				}
			case 1: // monotone with one error
				if j < cut {
					pat[j] = 's'
				} else {
					pat[j] = 'd'
				}
			default:
				pat[j] = "ssddne"[rng.Intn(6)]
			}
		}
		if mode == 1 && plen > 0 {
			pat[rng.Intn(plen)] = 'e'
		}
		var lo, hi uint64
		switch rng.Intn(5) {
		case 0:
			lo, hi = 0, uint64(L)
		case 1:
			lo, hi = 0, uint64(L+rng.Intn(4))
		case 2:
			lo, hi = uint64(rng.Intn(L+1)), uint64(rng.Intn(L+2))
		case 3:
			lo, hi = 0, ^uint64(0) // LastAnchor == 0: fullscan(0, 2^64-1)
		default:
			lo, hi = uint64(rng.Intn(3)), uint64(L)
		}
		timeoutAt := -1
		if i%200 == 7 && plen > 0 {
			timeoutAt = rng.Intn(plen)
			pat[timeoutAt] = 'e' // the model sees a missing answer as a remote error
		}
		c := &bsCase{local: &memChain{local}, lhash: local.hashAt, answer: func(no uint64) byte {
			if int(no) == timeoutAt {
				return 'x'
			}
			if no < uint64(len(pat)) {
				return pat[no]
			}
			return 'n'
		}}
		if timeoutAt >= 0 {
			c.timeout = 300 * time.Millisecond
		}
		res, probes := runBS(c, lo, hi)
		ps := string(pat)
		if ps == "" {
			ps = "-"
		}
		op := fmt.Sprintf("bs %d %d %d %s", L, lo, hi, ps)
		run.Op(op, fmt.Sprintf("%s probes=%s", res, u64s(probes)), strings.HasPrefix(res, "some"))
		run.Count("bs-random:" + strings.SplitN(res, ":", 2)[0])
		// oracle (ancestor_sound): whatever the answers, a reported block is one the peer confirmed
		if strings.HasPrefix(res, "some:") {
			k, _ := strconv.Atoi(res[5:])
			if k > L || k >= len(pat) || pat[k] != 's' {
				run.Fail("binarySearch reports a block the remote did not confirm", map[string]interface{}{"op": op, "got": res})
			}
		}
	}
}

// ---------------------------------------------------------------------------------------------
// the whole finder (lightscan + fullscan) on real chain DBs

type dbChain struct {
	c  *chainT
	cs *chain.ChainService
}

func newDBChain(c *chainT) *dbChain {
	cs, err := chain.VerifC17ChainService()
	if err != nil {
		panic(err)
	}
	for _, b := range c.blocks {
		cs.VerifC17Connect(b)
	}
	return &dbChain{c: c, cs: cs}
}

func (d *dbChain) heightOf(h []byte) int {
	if b, ok := d.c.byHash[string(h)]; ok {
		return int(b.GetHeader().GetBlockNo())
	}
	return -1
}

type finderCase struct {
	local, remote *dbChain
	fullOnly      bool
	target        uint64
	bogus         []int // replies sent before the honest one: heights on the local chain (-1: nil)
	foreign       []bool // parallel to bogus: the reply carries an id that is NOT the local main-chain id at that height
	noReply       bool
	replyIds      []string // out: every reply as the model's `tok/no` (or nil)
	ancHash       []byte   // out: the id the finder handed on
}

var foreignHash = []byte("c17-foreign-block-id-0123456789a")

// runFinder runs the real Finder.start() goroutine: anchors from the real getAnchorsNew of the local
// chain DB, the peer's answer from the real findAncestor of the remote chain DB.
func runFinder(fc *finderCase) (res string, replies []string) {
	to := 120 * time.Second
	if fc.noReply {
		to = 300 * time.Millisecond
	}
	cfg := syncer.VerifC17NewCfg(10, 2, 2, 2, to, fc.fullOnly)
	ctx := types.NewSyncCtx(9, peerID(0), fc.target, fc.local.c.best(), nil)
	var f *syncer.Finder
	done := make(chan string, 4)
	giveUp := make(chan struct{})
	req := &recReq{}
	req.future = func(msg interface{}) (interface{}, error) {
		if m, ok := msg.(*message.GetAnchors); ok {
			hs, last, err := fc.local.cs.VerifC17Anchors()
			return message.GetAnchorsRsp{Seq: m.Seq, Hashes: hs, LastNo: last, Err: err}, nil
		}
		return nil, errStub
	}
	req.onTell = func(target string, msg interface{}) {
		switch m := msg.(type) {
		case *message.GetSyncAncestor:
			var send []*types.BlockInfo
			for k, h := range fc.bogus {
				if h < 0 {
					continue // a nil reply is always accepted; bogus ones are non-nil
				}
				hash := fc.local.c.hashAt(uint64(h))
				if k < len(fc.foreign) && fc.foreign[k] {
					hash = foreignHash
				}
				send = append(send, &types.BlockInfo{Hash: hash, No: uint64(h)})
				replies = append(replies, strconv.Itoa(h))
				fc.replyIds = append(fc.replyIds, fmt.Sprintf("%d/%d", tok(hash), h))
			}
			if !fc.noReply {
				anc, err := fc.remote.cs.VerifC17FindAncestor(m.Hashes)
				if err != nil {
					anc = nil
				}
				send = append(send, anc)
				if anc == nil {
					replies = append(replies, "nil")
					fc.replyIds = append(fc.replyIds, "nil")
				} else {
					replies = append(replies, strconv.FormatUint(anc.No, 10))
					fc.replyIds = append(fc.replyIds, fmt.Sprintf("%d/%d", tok(anc.Hash), anc.No))
				}
			}
			go func() {
				for _, bi := range send {
					if !f.VerifC17LScanSend(bi, giveUp) {
						return
					}
				}
			}()
		case *message.GetHashByNo:
			h, err := fc.remote.cs.GetHashByNo(m.BlockNo)
			rsp := &message.GetHashByNoRsp{Seq: m.Seq}
			if err == nil {
				rsp.BlockHash = h
			}
			go f.GetHashByNoRsp(rsp)
		case *message.FinderResult:
			if m.Ancestor == nil {
				done <- "noancestor"
			} else {
				s := fmt.Sprintf("ancestor:%d", m.Ancestor.No)
				fc.ancHash = m.Ancestor.Hash
				done <- s
			}
		case *message.SyncStop:
			switch {
			case m.Err == syncer.ErrAlreadySyncDone:
				done <- "done"
			case m.Err == syncer.ErrorGetSyncAncestorTimeout:
				done <- "timeout"
			case m.Err == syncer.ErrFinderTimeout:
				done <- "remoteerr"
			case m.Err == nil:
				done <- "stop-nil"
			default:
				if _, ok := m.Err.(*chain.ErrNoBlock); ok { // chain DB: no hash at that height
					done <- "localerr"
				} else {
					done <- "err:" + m.Err.Error()
				}
			}
		}
	}
	f = syncer.VerifC17NewFinder(ctx, req, fc.local.cs, cfg)
	f.VerifC17Start()
	select {
	case res = <-done:
	case <-time.After(60 * time.Second):
		res = "hang"
	}
	close(giveUp)
	f.VerifC17Stop()
	return
}

func replay0(L, R, f int, fc *finderCase, res string) map[string]interface{} {
	return map[string]interface{}{"local_best": L, "remote_best": R, "fork_point": f, "full_only": fc.fullOnly, "target": fc.target, "replies": fc.replyIds, "got": res}
}

func finderFlows(run *vh.Run, n int) {
	rng := run.Rng
	long := rng.Intn(3) == 0 || run.Thorough()
	maxLen := 70
	if long {
		maxLen = 600
	}
	base := newChain(nil, -1, maxLen, 5)
	for i := 0; i < n; i++ {
		var L, f, R int
		switch rng.Intn(6) {
		case 0: // deep fork below the lowest anchor (needs a long chain)
			L = 497 + rng.Intn(maxLen-497+1)
			if !long {
				L = 20 + rng.Intn(40)
			}
			f = rng.Intn(L + 1)
			if long {
				f = rng.Intn(L - 496 + 1)
			}
			R = f + rng.Intn(maxLen-f+1)
		case 1: // nothing shared
			L, f, R = rng.Intn(40), -1, rng.Intn(40)
		case 2: // remote is an extension of local
			L = rng.Intn(60)
			f = L
			R = L + rng.Intn(8)
		default:
			L = rng.Intn(maxLen + 1)
			f = rng.Intn(L + 1)
			R = f + rng.Intn(20)
			if R > maxLen {
				R = maxLen
			}
		}
		lc := newChain(base, f, L, int64(1000+2*i))
		rc := newChain(base, f, R, int64(1001+2*i))
		local, remote := newDBChain(lc), newDBChain(rc)

		// anchors: the real getAnchorsNew against the model's anchor heights
		hs, last, err := local.cs.VerifC17Anchors()
		var heights []uint64
		for _, h := range hs {
			heights = append(heights, uint64(local.heightOf(h)))
		}
		out := fmt.Sprintf("%s last=%d", u64s(heights), last)
		if err != nil {
			out = "err"
		}
		run.Op(fmt.Sprintf("anchors %d", L), out, true)

		fc := &finderCase{local: local, remote: remote, fullOnly: rng.Intn(4) == 0, target: uint64(R)}
		if rng.Intn(5) == 0 {
			fc.target = uint64(rng.Intn(L + 2)) // may be at or below an anchor: ErrAlreadySyncDone
		}
		if !fc.fullOnly {
			for k := rng.Intn(3); k > 0; k-- {
				fc.bogus = append(fc.bogus, rng.Intn(L+1)) // below LastAnchor ⇒ skipped, else taken
				fc.foreign = append(fc.foreign, rng.Intn(3) == 0)
			}
			fc.noReply = rng.Intn(12) == 0
		}
		res, replies := runFinder(fc)
		rs := "-"
		if len(replies) > 0 {
			rs = strings.Join(replies, ",")
		}
		op := fmt.Sprintf("finder %d %d %d %s %s", b2i(fc.fullOnly), L, fc.target, rs, patternOf(lc, rc))
		run.Op(op, res, strings.HasPrefix(res, "ancestor"))
		// the same run with the ids: what is handed on is (id, height)
		ids := "-"
		if len(fc.replyIds) > 0 {
			ids = strings.Join(fc.replyIds, ",")
		}
		var lm [][]byte
		for _, b := range lc.blocks {
			lm = append(lm, b.GetHash())
		}
		resi := res
		if strings.HasPrefix(res, "ancestor:") {
			resi = fmt.Sprintf("ancestor:%d/%s", tok(fc.ancHash), res[9:])
		}
		run.Op(fmt.Sprintf("finderi %d %d %d %s %s %s", b2i(fc.fullOnly), L, fc.target, ids, patternOf(lc, rc), tokList(lm)), resi, strings.HasPrefix(res, "ancestor"))
		if strings.HasPrefix(res, "ancestor:") {
			if a, e := strconv.Atoi(res[9:]); e == nil && string(fc.ancHash) != string(lc.hashAt(uint64(a))) {
				run.Count("finder:handed-on-foreign-id")
				// only a reply that carried that very id can be the cause (finder_id_own_main_chain_partial: truthful replies)
				if string(fc.ancHash) != string(foreignHash) {
					run.Fail("the finder handed on an id that is neither the local main-chain id nor an id a reply carried", replay0(L, R, f, fc, res))
				}
			}
		}
		run.Count("finder:" + strings.SplitN(res, ":", 2)[0])
		// oracle
		hc := highestCommon(lc, rc)
		replay := map[string]interface{}{"local_best": L, "remote_best": R, "fork_point": f, "full_only": fc.fullOnly,
			"target": fc.target, "replies": replies, "got": res}
		if res == "hang" {
			run.Fail("finder neither reported an ancestor nor stopped", replay)
		}
		if strings.HasPrefix(res, "ancestor:") {
			a, e := strconv.Atoi(res[9:])
			honest := len(fc.bogus) == 0
			if e != nil || (honest && !sameAt(lc, rc, uint64(a))) {
				run.Fail("the ancestor handed on is not a block of the local main chain that the remote chain has", replay)
			}
			lightNone := fc.fullOnly || (len(replies) > 0 && replies[len(replies)-1] == "nil" && honest)
			if lightNone && a != hc {
				run.Fail("light scan found nothing but the ancestor is not the highest shared block", replay)
			}
		}
	}
}
