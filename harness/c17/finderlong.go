package main

import (
	"encoding/binary"
	"fmt"
	"math/big"
	"sort"
	"strconv"
	"time"

	"github.com/aergoio/aergo/v2/syncer"
	"github.com/aergoio/aergo/v2/types"
	"github.com/aergoio/aergo/v2/types/message"
	"github.com/aergoio/aergo/v2/zz_verif/vh"
)

// Long chains for the finder: chains given by lengths only (ids are synthetic: height + branch), so that
// the anchor list is full (32 anchors, 16 apart) and the fork point can sit between any two anchors.
// Heights below `common` are shared; the local chain has blocks up to `best`, the remote up to `rbest`.

func synHash(no uint64, branch byte) []byte {
	h := make([]byte, 32)
	binary.BigEndian.PutUint64(h[8:], no)
	h[0], h[31] = 0xC1, branch
	return h
}

type synChain struct {
	best, common uint64
	branch       byte
}

func (c *synChain) hashAt(no uint64) []byte {
	if no > c.best {
		return nil
	}
	if no < c.common {
		return synHash(no, 0)
	}
	return synHash(no, c.branch)
}

// has reports whether the id is on this chain, and at which height.
func (c *synChain) has(h []byte) (uint64, bool) {
	if len(h) != 32 || h[0] != 0xC1 {
		return 0, false
	}
	no := binary.BigEndian.Uint64(h[8:])
	return no, string(c.hashAt(no)) == string(h)
}

func (c *synChain) GetGenesisInfo() *types.Genesis      { return nil }
func (c *synChain) GetConsensusInfo() string            { return "" }
func (c *synChain) GetBestBlock() (*types.Block, error) { return nil, errLocal }
func (c *synChain) GetBlock([]byte) (*types.Block, error) {
	return nil, errLocal
}
func (c *synChain) GetHashByNo(no types.BlockNo) ([]byte, error) {
	if no > c.best {
		return nil, errLocal
	}
	return c.hashAt(no), nil
}
func (c *synChain) GetChainStats() string                                       { return "" }
func (c *synChain) GetSystemValue(types.SystemValue) (*big.Int, error)          { return nil, nil }
func (c *synChain) GetEnterpriseConfig(string) (*types.EnterpriseConfig, error) { return nil, nil }
func (c *synChain) ChainID(types.BlockNo) *types.ChainID                        { return nil }
func (c *synChain) HardforkHeights() map[string]types.BlockNo                   { return nil }

// runFinderLong runs the real Finder.start() goroutine; the chain service's answer to GetAnchors is the
// anchor rule applied to the local chain (tied to the real getAnchorsNew by the `anchors` ops), the peer
// answers GetSyncAncestor from the ids it is actually handed (first one on its main chain) and
// GetHashByNo from its chain.
func runFinderLong(run *vh.Run, fullOnly bool, local, remote *synChain, target uint64) {
	cfg := syncer.VerifC17NewCfg(10, 2, 2, 2, 120*time.Second, fullOnly)
	ctx := types.NewSyncCtx(9, peerID(0), target, local.best, nil)
	var f *syncer.Finder
	done := make(chan string, 4)
	giveUp := make(chan struct{})
	light := "-"
	var anchorsGiven, anchorsSent [][]byte
	req := &recReq{}
	req.future = func(msg interface{}) (interface{}, error) {
		if m, ok := msg.(*message.GetAnchors); ok {
			hs := anchorsOf(local.best)
			for _, a := range hs {
				anchorsGiven = append(anchorsGiven, local.hashAt(a))
			}
			return message.GetAnchorsRsp{Seq: m.Seq, Hashes: anchorsGiven, LastNo: hs[len(hs)-1]}, nil
		}
		return nil, errStub
	}
	req.onTell = func(t string, msg interface{}) {
		switch m := msg.(type) {
		case *message.GetSyncAncestor:
			anchorsSent = m.Hashes
			var anc *types.BlockInfo
			light = "nil"
			for _, h := range m.Hashes {
				if no, ok := remote.has(h); ok {
					anc = &types.BlockInfo{Hash: h, No: no}
					light = strconv.FormatUint(no, 10)
					break
				}
			}
			go f.VerifC17LScanSend(anc, giveUp)
		case *message.GetHashByNo:
			go f.GetHashByNoRsp(&message.GetHashByNoRsp{Seq: m.Seq, BlockHash: remote.hashAt(m.BlockNo)})
		case *message.FinderResult:
			if m.Ancestor == nil {
				done <- "noancestor"
			} else {
				s := fmt.Sprintf("ancestor:%d", m.Ancestor.No)
				if string(m.Ancestor.Hash) != string(local.hashAt(m.Ancestor.No)) {
					s += "!notlocal"
				}
				done <- s
			}
		case *message.SyncStop:
			switch {
			case m.Err == syncer.ErrAlreadySyncDone:
				done <- "done"
			case m.Err == syncer.ErrorGetSyncAncestorTimeout:
				done <- "timeout"
			case m.Err == errLocal:
				done <- "localerr"
			case m.Err != nil:
				done <- "remoteerr"
			default:
				done <- "stop-nil"
			}
		}
	}
	f = syncer.VerifC17NewFinder(ctx, req, local, cfg)
	f.VerifC17Start()
	var res string
	select {
	case res = <-done:
	case <-time.After(60 * time.Second):
		res = "hang"
	}
	close(giveUp)
	f.VerifC17Stop()
	last := f.VerifC17LastAnchor()

	op := fmt.Sprintf("finderf %d %d %d %d %d", b2i(fullOnly), local.best, target, local.common, remote.best)
	run.Op(op, fmt.Sprintf("%s light=%s last=%d", res, light, last), len(res) > 9 && res[:9] == "ancestor:")
	run.Count("finder-long:" + res[:min(len(res), 8)])

	replay := map[string]interface{}{"op": op, "local_best": local.best, "remote_best": remote.best, "shared_below": local.common,
		"full_only": fullOnly, "target": target, "light_reply": light, "last_anchor": last, "got": res}
	if res == "hang" {
		run.Fail("finder neither reported an ancestor nor stopped", replay)
		return
	}
	// oracle 1: what is handed to the peer contains every anchor the search bound is derived from
	if !fullOnly {
		sent := map[string]bool{}
		for _, h := range anchorsSent {
			sent[string(h)] = true
		}
		for _, h := range anchorsGiven {
			if !sent[string(h)] {
				run.Fail("the anchor list handed to the peer lacks an anchor of the list LastAnchor is taken from", replay)
				break
			}
		}
		if !sent[string(local.hashAt(last))] {
			run.Fail("the search bound LastAnchor is not among the anchors handed to the peer", replay)
		}
	}
	// oracle 2: the ancestor is shared; it is the highest shared block whenever the quick anchor comparison found none
	if len(res) > 9 && res[:9] == "ancestor:" {
		a, err := strconv.ParseUint(res[9:], 10, 64)
		if err != nil || a >= local.common || a > remote.best {
			run.Fail("the ancestor handed on is not a block of the local main chain that the remote chain has", replay)
			return
		}
		highest := local.common - 1
		if remote.best < highest {
			highest = remote.best
		}
		if (fullOnly || light == "nil") && a != highest {
			run.Fail(fmt.Sprintf("the quick anchor comparison found none but the ancestor %d is not the highest shared block %d", a, highest), replay)
		}
	}
}

func min(a, b int) int {
	if a < b {
		return a
	}
	return b
}

func finderLong(run *vh.Run) {
	// the anchor rule used below is the model's; tie it to the real getAnchorsNew on real long chain DBs
	for _, L := range []int{511, 1500} {
		db := newDBChain(newChain(nil, -1, L, int64(700+L)))
		hs, last, err := db.cs.VerifC17Anchors()
		var heights []uint64
		for _, h := range hs {
			heights = append(heights, uint64(db.heightOf(h)))
		}
		out := fmt.Sprintf("%s last=%d", u64s(heights), last)
		if err != nil {
			out = "err"
		}
		run.Op(fmt.Sprintf("anchors %d", L), out, true)
		if fmt.Sprint(heights) != fmt.Sprint(anchorsOf(uint64(L))) {
			run.Fail("harness anchor rule differs from getAnchorsNew", map[string]interface{}{"best": L})
		}
	}
	lengths := []uint64{497, 513, 1000, 3000}
	if run.Thorough() {
		lengths = []uint64{255, 256, 257, 495, 496, 497, 498, 511, 512, 513, 600, 1000, 2047, 3000, 5000}
	}
	for _, L := range lengths {
		as := anchorsOf(L)
		forks := map[uint64]bool{0: true, 1: true, L: true, L + 1: true} // value = number of shared heights (`common`)
		for i, a := range as {
			// fork right at, just below and just above every anchor; and inside every gap between two anchors
			for _, c := range []uint64{a, a + 1, a + 2} {
				forks[c] = true
			}
			if a > 0 {
				forks[a-1] = true
			}
			if i+1 < len(as) {
				forks[(a+as[i+1])/2+1] = true
			}
		}
		la := as[len(as)-1]
		forks[la/2] = true
		var cs []uint64
		for c := range forks {
			if c <= L+1 {
				cs = append(cs, c)
			}
		}
		sort.Slice(cs, func(i, j int) bool { return cs[i] < cs[j] })
		for _, common := range cs {
			for _, rel := range []int{-1, 0, 1} { // remote shorter / equal / longer than local
				R := int64(L) + int64(rel)*7
				if common > 0 && R < int64(common)-1 {
					R = int64(common) - 1
				}
				if R < 0 {
					R = 0
				}
				local := &synChain{best: L, common: common, branch: 1}
				remote := &synChain{best: uint64(R), common: common, branch: 2}
				if common > uint64(R)+1 {
					continue
				}
				target := L + 1
				if uint64(R) > L {
					target = uint64(R)
				}
				full := run.Rng.Intn(6) == 0
				runFinderLong(run, full, local, remote, target)
			}
		}
	}
}
