package main

import (
	"fmt"
	"strings"
	"time"

	"github.com/aergoio/aergo/v2/syncer"
	"github.com/aergoio/aergo/v2/types"
	"github.com/aergoio/aergo/v2/types/message"
	"github.com/aergoio/aergo/v2/zz_verif/vh"
)

// Hash fetcher sessions: the real HashFetcher goroutine (its real run loop), fed through the real
// GetHahsesRsp. After every reply a fence reply with an impossible echo is offered: the loop takes
// it only when it is back at its select, i.e. when the reply before it has been fully processed
// (the fence itself is ignored by isValidResponse). If the loop has returned, the wait group says so.

type hfSess struct {
	run     *vh.Run
	hf      *syncer.HashFetcher
	req     *recReq
	ch      chan *syncer.HashSet
	exited  <-chan struct{}
	ops     []string
	remote  *chainT
	anc     int
	target  int
	lastNo  uint64 // reference: the hash fetcher's position
	stopped bool
}

func (s *hfSess) outs() (string, bool) {
	var parts []string
	pushed := false
	for {
		select {
		case hs := <-s.ch:
			parts = append(parts, fmt.Sprintf("pushed %d %s", hs.StartNo, tokList(hashesOf(hs.Hashes))))
			pushed = true
			// oracle: hash sets handed to the block fetcher are contiguous from the ancestor
			if hs.StartNo != s.lastNo+1 || hs.Count != len(hs.Hashes) {
				s.run.Fail("hash set handed to the block fetcher does not continue the previous one",
					map[string]interface{}{"session": s.ops, "start": hs.StartNo, "expected": s.lastNo + 1})
			}
			s.lastNo = hs.StartNo + uint64(len(hs.Hashes)) - 1
			if s.lastNo > uint64(s.target) {
				s.run.Fail("hash set beyond the target handed to the block fetcher", map[string]interface{}{"session": s.ops})
			}
			continue
		default:
		}
		break
	}
	tail := ""
	for _, o := range s.req.take() {
		switch m := o.(type) {
		case *message.GetHashes:
			tail = fmt.Sprintf("next %d", m.Count)
			if !pushed {
				tail = fmt.Sprintf("req %d %d %d", tok(m.PrevInfo.Hash), m.PrevInfo.No, m.Count)
			}
		case *message.CloseFetcher:
			tail = "fin"
		case *message.SyncStop:
			s.stopped = true
			switch m.Err {
			case syncer.ErrInvalidHashSet:
				parts = append(parts, "stopinvalid")
			case errStub:
				parts = append(parts, "stoperr")
			default:
				parts = append(parts, fmt.Sprintf("stop(%v)", m.Err))
			}
		}
	}
	if tail != "" {
		parts = append(parts, tail)
	}
	return strings.Join(parts, " "), pushed
}

func (s *hfSess) state() string {
	l := s.hf.VerifC17Last()
	return fmt.Sprintf("last=%d/%d req=%d", tok(l.Hash), l.No, s.hf.VerifC17ReqCount())
}

func (s *hfSess) rsp(prevHash []byte, prevNo uint64, count uint64, isErr bool, hashes [][]byte) {
	m := &message.GetHashesRsp{Seq: 5, PrevInfo: &types.BlockInfo{Hash: prevHash, No: prevNo}, Count: count}
	for _, h := range hashes {
		m.Hashes = append(m.Hashes, message.BlockHash(h))
	}
	if isErr {
		m.Err = errStub
	}
	line := fmt.Sprintf("hf rsp %d %d %d %d %s", tok(prevHash), prevNo, count, b2i(isErr), tokList(hashes))
	s.run.Pending(line)
	s.hf.VerifC17Offer(m, s.exited)
	fence := &message.GetHashesRsp{Seq: 5, PrevInfo: &types.BlockInfo{Hash: otherHash, No: 1 << 62}, Count: 1 << 62,
		Hashes: []message.BlockHash{otherHash}}
	s.hf.VerifC17Offer(fence, s.exited)
	o, pushed := s.outs()
	switch {
	case len(hashes) == 0:
		o = "dropped"
	case o == "":
		o = "ignored"
	}
	o += " " + s.state()
	s.ops = append(s.ops, line+" => "+o)
	s.run.Op(line, o, pushed)
	s.run.Count("hf:" + strings.SplitN(o, " ", 2)[0])
}

func hfSessions(run *vh.Run, n int) {
	rng := run.Rng
	for i := 0; i < n; i++ {
		s := &hfSess{run: run, req: &recReq{}, ch: make(chan *syncer.HashSet, 256)}
		s.anc = rng.Intn(4)
		s.target = s.anc + 1 + rng.Intn(14)
		s.remote = newChain(nil, -1, s.target+4, int64(9000+i))
		maxReq := 1 + rng.Intn(6)
		ancBlk := s.remote.blocks[s.anc]
		ctx := types.NewSyncCtx(5, peerID(0), uint64(s.target), uint64(s.anc), nil)
		ctx.SetAncestor(ancBlk)
		cfg := syncer.VerifC17NewCfg(uint64(maxReq), 2, 2, 2, time.Hour, false)
		s.hf = syncer.VerifC17NewHashFetcher(ctx, s.req, s.ch, cfg)
		s.lastNo = uint64(s.anc)
		s.hf.VerifC17Start()
		s.exited = s.hf.VerifC17Exited()
		// the loop sends its first request before it selects; the fence waits for that
		fence := &message.GetHashesRsp{Seq: 5, PrevInfo: &types.BlockInfo{Hash: otherHash, No: 1 << 62}, Count: 1 << 62,
			Hashes: []message.BlockHash{otherHash}}
		s.hf.VerifC17Offer(fence, s.exited)
		o, _ := s.outs()
		line := fmt.Sprintf("hf new %d %d %d %d", tok(ancBlk.GetHash()), s.anc, s.target, maxReq)
		s.ops = append(s.ops, line+" => "+o)
		run.Op(line, o, true)

		for step := 0; step < 40 && !s.stopped; step++ {
			select {
			case <-s.exited:
				s.stopped = true
				continue
			default:
			}
			l := s.hf.VerifC17Last()
			want := s.hf.VerifC17ReqCount()
			prevHash, prevNo, count := l.Hash, l.No, want
			k := int(want)
			isErr := false
			switch r := rng.Intn(16); {
			case r < 8: // honest
			case r == 8: // fewer hashes than asked (Count echo still right)
				k = rng.Intn(k + 1)
			case r == 9: // more hashes than asked
				k += 1 + rng.Intn(3)
			case r == 10: // wrong echo of the count
				count = want + 1
			case r == 11: // wrong echo of the previous block: height
				prevNo = l.No + uint64(rng.Intn(3)) - 1
			case r == 12: // wrong echo: hash
				prevHash = otherHash
			case r == 13: // stale: answer to an earlier request
				if l.No > uint64(s.anc) {
					prevNo = uint64(s.anc)
					prevHash = s.remote.blocks[s.anc].GetHash()
				}
			case r == 14:
				isErr = true
				if rng.Intn(2) == 0 {
					k = 0 // what P2P sends on failure: an error without hashes
				}
			default:
				k = 0
			}
			var hashes [][]byte
			for j := 0; j < k; j++ {
				h := prevNo + 1 + uint64(j)
				if h < uint64(len(s.remote.blocks)) {
					hashes = append(hashes, s.remote.blocks[h].GetHash())
				} else {
					hashes = append(hashes, []byte(fmt.Sprintf("c17-beyond-%d-%d", i, h)))
				}
			}
			s.rsp(prevHash, prevNo, count, isErr, hashes)
		}
		s.hf.VerifC17Stop()
	}
}
