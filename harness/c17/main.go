// Harness c17: the real block synchroniser (syncer.Finder, HashFetcher, BlockFetcher,
// BlockProcessor, Syncer; chain.getAnchorsNew/findAncestor; p2p.BlocksChunkReceiver) against the
// Lean model `Aergo.Sync`, with the property's own predicate evaluated on what the real code hands
// to the chain service.
package main

import (
	"os"

	"github.com/aergoio/aergo/v2/chain"
	"github.com/aergoio/aergo/v2/zz_verif/vh"
	"github.com/rs/zerolog"
)

func main() {
	if os.Getenv("C17_LOG") == "" {
		zerolog.SetGlobalLevel(zerolog.Disabled)
	}
	// block size limit for the chunk receiver's size check: body 2000 bytes + header allowance
	chain.Init(2000, "", false, 20, 1)
	run := vh.Start("c17", "finder: real Finder.binarySearch with a requester answering from the remote chain for EVERY local/remote chain pair of at most 40 blocks each "+
		"(every fork point incl. nothing shared, every pair of lengths), random windows/non-monotone answers/errors/missing answers, and the whole finder goroutine "+
		"(lightscan+fullscan) on real chain DBs with the real getAnchorsNew/findAncestor incl. chains longer than the anchor window; the finder goroutine on LONG chains (up to 3000/5000 blocks, full anchor list) with the fork point at, next to and between every pair of consecutive anchors, remote shorter/equal/longer, checking also that the anchor list handed to the peer covers the search bound; "+
		"hash fetcher: the real goroutine fed honest, short, long, stale, wrong-echo, error and empty replies; "+
		"fetcher/processor: real BlockFetcher+BlockProcessor stepped synchronously (schedule, checkTaskTimeout with a virtual clock, blockProcessor.run) on generated "+
		"orders of honest/erroneous/short/long/swapped/foreign/wrong-peer/duplicated/dropped chunk replies and honest/refused/mismatching/duplicated/unsolicited AddBlock replies, "+
		"full state compared after every step, then an honest continuation that must complete; service: verifySeq for every message kind, start/stop/stale sessions on the real Syncer; "+
		"p2p chunk receiver parts; end-to-end sessions with the real goroutines, faults per peer, a stop request at every step of a scenario, and a later fault-free session. "+
		"non-trivial = a block reached the chain service / an ancestor was found / a message was accepted; distinct by (op, answer)")
	defer run.Finish()

	// development aid: C17_ONLY=<part> runs one part only (never set by ./check)
	if only := os.Getenv("C17_ONLY"); only != "" {
		switch only {
		case "wire":
			wireRuns(run, run.Pick(24, 200))
		case "e2e":
			e2eRuns(run, run.Pick(60, 500))
		case "svc":
			lateFinderReply(run)
			lateBlockReply(run)
			svcSessions(run, run.Pick(40, 300))
		case "recv":
			recvSessions(run, run.Pick(200, 2000))
			smallRecvOps(run)
			hrecvSessions(run, run.Pick(200, 2000))
			fancOps(run, run.Pick(150, 1500))
		case "fetch":
			unlinkedAnnouncement(run)
			fetchSessions(run, run.Pick(500, 6000))
		case "finder":
			finderFlows(run, run.Pick(30, 200))
		}
		return
	}
	finderExhaustive(run, 40)
	finderRandom(run, run.Pick(1500, 12000))
	finderLong(run)
	finderFlows(run, run.Pick(30, 200))
	hfSessions(run, run.Pick(150, 1500))
	fetchSessions(run, run.Pick(500, 6000))
	unlinkedAnnouncement(run)
	seqFilter(run)
	lateFinderReply(run)
	lateBlockReply(run)
	svcSessions(run, run.Pick(40, 300))
	recvSessions(run, run.Pick(200, 2000))
	smallRecvOps(run)
	hrecvSessions(run, run.Pick(200, 2000))
	fancOps(run, run.Pick(150, 1500))
	e2eRuns(run, run.Pick(60, 500))
	wireRuns(run, run.Pick(24, 200))
}
