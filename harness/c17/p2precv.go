package main

import (
	"fmt"
	"strings"
	"time"

	"github.com/aergoio/aergo/v2/p2p"
	"github.com/aergoio/aergo/v2/types"
	"github.com/aergoio/aergo/v2/types/message"
	"github.com/aergoio/aergo/v2/zz_verif/vh"
)

// The three small receivers between the wire and the syncer, stepped synchronously against the model
// (`arecv`, `hbnrecv`, `hrecv …` lines), and the serving node's findAncestor on chain DBs with side branches
// (`fanc` lines).

var allStatuses = []types.ResultStatus{types.ResultStatus_OK, types.ResultStatus_NOT_FOUND, types.ResultStatus_ABORTED,
	types.ResultStatus_INTERNAL, types.ResultStatus_RESOURCE_EXHAUSTED, types.ResultStatus_INVALID_ARGUMENT,
	types.ResultStatus_CANCELED, types.ResultStatus_UNKNOWN, types.ResultStatus_DEADLINE_EXCEEDED, types.ResultStatus_UNAVAILABLE,
	types.ResultStatus_UNIMPLEMENTED, types.ResultStatus_DATA_LOSS}

// statusClass: the only distinction the model keeps.
func statusClass(st types.ResultStatus) string {
	switch st {
	case types.ResultStatus_OK:
		return "ok"
	case types.ResultStatus_NOT_FOUND:
		return "notfound"
	}
	return "failed"
}

func smallRecvOps(run *vh.Run) {
	c := newChain(nil, -1, 6, 9101)
	for _, st := range allStatuses {
		for _, timedOut := range []bool{false, true} {
			ttl := time.Hour
			if timedOut {
				ttl = -time.Hour
			}
			for _, no := range []uint64{0, 3, 6} {
				h := c.hashAt(no)
				// ancestor receiver
				peer, act := &stubPeer{}, &stubActor{}
				ar := p2p.NewAncestorReceiver(act, peer, 21, [][]byte{h}, ttl)
				line := fmt.Sprintf("arecv %d %s %d %d", b2i(timedOut), statusClass(st), tok(h), no)
				out := "nothing"
				vh.Guard(func() string {
					ar.ReceiveResp(nil, &types.GetAncestorResponse{Status: st, AncestorHash: h, AncestorNo: no})
					return ""
				})
				for _, m := range act.sent {
					r := m.(*message.GetSyncAncestorRsp)
					if r.Ancestor == nil {
						out = "rsp:nil"
					} else {
						out = fmt.Sprintf("rsp:%d/%d", tok(r.Ancestor.Hash), r.Ancestor.No)
					}
					if r.Seq != 21 {
						run.Fail("ancestor receiver answered for another session", map[string]interface{}{"op": line})
					}
				}
				run.Op(line, out, out != "nothing")
				run.Count("arecv:" + statusClass(st))
				n0 := len(act.sent)
				ar.ReceiveResp(nil, &types.GetAncestorResponse{Status: types.ResultStatus_OK, AncestorHash: h, AncestorNo: no})
				if len(act.sent) != n0 || n0 > 1 {
					run.Fail("ancestor receiver answered the syncer more than once for one request", map[string]interface{}{"op": line})
				}
				// oracle: a block is named to the finder only if the peer named it with status OK, in time
				if strings.HasPrefix(out, "rsp:") && out != "rsp:nil" && (st != types.ResultStatus_OK || timedOut) {
					run.Fail("ancestor receiver handed the finder a block from a failed or late answer", map[string]interface{}{"op": line, "status": st.String()})
				}

				// hash-by-no receiver
				peer2, act2 := &stubPeer{}, &stubActor{}
				hr := p2p.NewBlockHashByNoReceiver(act2, peer2, 21, no, ttl)
				line = fmt.Sprintf("hbnrecv %d %s %d", b2i(timedOut), statusClass(st), tok(h))
				out = "nothing"
				vh.Guard(func() string {
					hr.ReceiveResp(nil, &types.GetHashByNoResponse{Status: st, BlockHash: h})
					return ""
				})
				for _, m := range act2.sent {
					r := m.(*message.GetHashByNoRsp)
					switch {
					case r.Err != nil:
						out = "err"
					default:
						out = fmt.Sprintf("hash:%d", tok(r.BlockHash))
					}
					if r.Seq != 21 {
						run.Fail("hash-by-no receiver answered for another session", map[string]interface{}{"op": line})
					}
				}
				run.Op(line, out, out != "nothing")
				run.Count("hbnrecv:" + statusClass(st))
				// oracle (failed_probe_is_an_error): a failed exchange must reach the finder as an error, never as a hash or "no hash"
				if st != types.ResultStatus_OK && !timedOut && out != "err" {
					run.Fail("a failed hash-by-no exchange reached the finder without an error (the search would take it for 'different')",
						map[string]interface{}{"op": line, "status": st.String(), "got": out})
				}
				n0 = len(act2.sent)
				hr.ReceiveResp(nil, &types.GetHashByNoResponse{Status: types.ResultStatus_OK, BlockHash: h})
				if len(act2.sent) != n0 || n0 > 1 {
					run.Fail("hash-by-no receiver answered the syncer more than once for one request", map[string]interface{}{"op": line})
				}
			}
		}
	}
}

func hrecvErrName(err error) string {
	switch err {
	case message.RemotePeerFailError:
		return "remotepeerfail"
	case message.MissingHashError:
		return "missinghash"
	case message.WrongBlockHashError:
		return "wronghash"
	case message.TooManyBlocksError:
		return "toomany"
	}
	return fmt.Sprintf("other(%v)", err)
}

// hrecvSessions: the real BlockHashesReceiver fed generated lists of partial responses.
func hrecvSessions(run *vh.Run, n int) {
	rng := run.Rng
	remote := newChain(nil, -1, 40, 9201)
	for i := 0; i < n; i++ {
		prev := rng.Intn(25)
		cnt := 1 + rng.Intn(8)
		timedOut := rng.Intn(12) == 0
		ttl := time.Hour
		if timedOut {
			ttl = -time.Hour
		}
		peer, act := &stubPeer{}, &stubActor{}
		prevInfo := &types.BlockInfo{Hash: remote.hashAt(uint64(prev)), No: uint64(prev)}
		br := p2p.NewBlockHashesReceiver(act, peer, 11, &message.GetHashes{Seq: 11, ToWhom: peerID(4), PrevInfo: prevInfo, Count: uint64(cnt)}, ttl)
		var ops []string
		line := fmt.Sprintf("hrecv new %d", cnt)
		run.Op(line, "st=waiting got=0", true)
		ops = append(ops, line)
		pos := 0
		answered := false
		var sent [][]byte // hashes of the parts that reached the receiver while it was waiting
		stName := []string{"waiting", "canceled", "finished"}
		for part := 0; part < 5; part++ {
			if !timedOut && part > 0 && rng.Intn(10) == 0 {
				br.VerifC17Expire()
				timedOut = true
				run.Count("hrecv:expires-mid-exchange")
			}
			k := 1 + rng.Intn(4)
			var hs [][]byte
			for j := 0; j < k && pos+j < cnt; j++ {
				hs = append(hs, remote.hashAt(uint64(prev+1+pos+j)))
			}
			statusOK, hasNext := true, pos+len(hs) < cnt
			name := "honest"
			switch r := rng.Intn(12); {
			case r == 0:
				name, statusOK = "status-not-ok", false
			case r == 1:
				name, hs = "empty", nil
			case r == 2 && len(hs) > 0:
				name = "wrong-length"
				hs = append([][]byte{}, hs...)
				j := rng.Intn(len(hs))
				hs[j] = hs[j][:20+rng.Intn(11)]
			case r == 3:
				name = "too-many"
				hs = append(append([][]byte{}, hs...), remote.hashAt(39), remote.hashAt(40))
				if rng.Intn(2) == 0 {
					hasNext = false
				}
			case r == 4:
				name, hasNext = "ends-early", false
			case r == 5:
				name, hasNext = "claims-more", true
			}
			run.Count("hrecv-part:" + name)
			body := &types.GetHashesResponse{Status: types.ResultStatus_OK, Hashes: hs, HasNext: hasNext}
			if !statusOK {
				body.Status = types.ResultStatus_INTERNAL
			}
			var ts []string
			for _, h := range hs {
				ts = append(ts, fmt.Sprintf("%d:%d", tok(h), b2i(len(h) == types.HashIDLength)))
			}
			hl := "-"
			if len(ts) > 0 {
				hl = joinComma(ts)
			}
			line := fmt.Sprintf("hrecv part %d %d %d %s", b2i(timedOut), b2i(statusOK), b2i(hasNext), hl)
			act.sent = nil
			st0, _ := br.VerifC17State()
			if st0 == 0 && !timedOut && statusOK {
				sent = append(sent, hs...)
			}
			o, panicked := vh.Guard(func() string {
				br.ReceiveResp(nil, body)
				return "nothing"
			})
			for _, m := range act.sent {
				r := m.(*message.GetHashesRsp)
				if r.Err != nil {
					o = "err:" + hrecvErrName(r.Err)
				} else {
					o = fmt.Sprintf("rsp:%s:%d", tokList(hashesOf(r.Hashes)), r.Count)
					// oracle (hash_receiver_forwards_at_most_requested + what was sent): never more than asked for, Count is the
					// number of hashes, and the hashes are what the peer sent, in order
					if len(r.Hashes) > cnt || int(r.Count) != len(r.Hashes) {
						run.Fail("hash receiver forwarded more hashes than requested, or a Count that is not their number", map[string]interface{}{"session": ops})
					}
					for j, h := range r.Hashes {
						if j >= len(sent) || string(h) != string(sent[j]) {
							run.Fail("hash receiver forwarded a hash the peer did not send at that position", map[string]interface{}{"session": ops})
							break
						}
					}
					if hasNext {
						run.Fail("hash receiver answered before the last part", map[string]interface{}{"session": ops})
					}
				}
				if r.Seq != 11 || r.PrevInfo != prevInfo {
					run.Fail("hash receiver answered for another session or another request", map[string]interface{}{"session": ops})
				}
			}
			if len(act.sent) > 1 || (st0 != 0 && len(act.sent) > 0) || (answered && len(act.sent) > 0) {
				run.Fail("hash receiver answered more than once for one request", map[string]interface{}{"session": ops})
			}
			if timedOut && len(act.sent) > 0 {
				run.Fail("hash receiver answered the syncer after its time limit", map[string]interface{}{"session": ops})
			}
			if len(act.sent) > 0 {
				answered = true
			}
			st1, got := br.VerifC17State()
			if panicked {
				o = "panic"
			}
			out := fmt.Sprintf("%s st=%s got=%d", o, stName[st1], got)
			ops = append(ops, line+" => "+out)
			run.Op(line, out, strings.HasPrefix(o, "rsp"))
			pos += len(hs)
			if pos > cnt {
				pos = cnt
			}
		}
		run.Count("hrecv:session")
	}
}

// fancOps: ChainService.findAncestor on real chain DBs that also store side-branch blocks.
func fancOps(run *vh.Run, n int) {
	rng := run.Rng
	for i := 0; i < n; i++ {
		R := 2 + rng.Intn(14)
		F := rng.Intn(R)
		main := newChain(nil, -1, R, int64(9300+2*i))
		side := newChain(main, F, R+rng.Intn(3), int64(9301+2*i)) // shares 0..F with the main chain
		db := newDBChain(main)
		var store, mainL []string
		for no, b := range main.blocks {
			store = append(store, fmt.Sprintf("%d:%d", tok(b.GetHash()), no))
			mainL = append(mainL, fmt.Sprintf("%d:%d", no, tok(b.GetHash())))
		}
		nside := 0
		for no := F + 1; no < len(side.blocks); no++ {
			if rng.Intn(3) != 0 {
				if err := db.cs.VerifC17AddSide(side.blocks[no]); err != nil {
					panic(err)
				}
				store = append(store, fmt.Sprintf("%d:%d", tok(side.blocks[no].GetHash()), no))
				nside++
			}
		}
		// the ids the requesting node lists: mostly of the side branch (its own main chain), from the top down, some unknown
		var hashes [][]byte
		for no := len(side.blocks) - 1; no >= 0; no -= 1 + rng.Intn(3) {
			switch rng.Intn(8) {
			case 0:
				hashes = append(hashes, []byte(fmt.Sprintf("c17-unknown-id-%04d-0123456789abcdef", rng.Intn(9999)))[:32])
			case 1:
				if no < len(main.blocks) {
					hashes = append(hashes, main.hashAt(uint64(no)))
					break
				}
				fallthrough
			default:
				hashes = append(hashes, side.hashAt(uint64(no)))
			}
		}
		if rng.Intn(10) == 0 {
			hashes = nil
		}
		anc, err := db.cs.VerifC17FindAncestor(hashes)
		out := "none"
		if err == nil && anc != nil {
			out = fmt.Sprintf("some:%d/%d", tok(anc.Hash), anc.No)
		}
		line := fmt.Sprintf("fanc %s %s %s", joinComma(store), joinComma(mainL), tokList(hashes))
		run.Op(line, out, out != "none")
		run.Count("fanc:" + out[:4])
		if nside > 0 {
			run.Count("fanc:db-with-side-branch")
		}
		// oracle (find_ancestor_first_on_main): the block named is on the MAIN chain of this node and is the first listed such id
		replay := map[string]interface{}{"op": line, "got": out}
		first := -1
		for j, h := range hashes {
			if b, ok := main.byHash[string(h)]; ok && string(main.hashAt(b.GetHeader().GetBlockNo())) == string(h) {
				first = j
				break
			}
		}
		switch {
		case anc == nil && first >= 0:
			run.Fail("findAncestor found nothing although a listed id is on the main chain", replay)
		case anc != nil && (first < 0 || string(hashes[first]) != string(anc.Hash)):
			run.Fail("findAncestor named a block that is not the first listed id on its main chain (a side-branch block?)", replay)
		case anc != nil && string(main.hashAt(anc.No)) != string(anc.Hash):
			run.Fail("findAncestor named a block with a height at which its main chain has another block", replay)
		}
	}
}
