package main

import (
	"fmt"
	"strconv"
	"strings"
	"time"

	"github.com/aergoio/aergo/v2/internal/enc/proto"
	"github.com/aergoio/aergo/v2/syncer"
	"github.com/aergoio/aergo/v2/types"
	"github.com/aergoio/aergo/v2/types/message"
	"github.com/aergoio/aergo/v2/zz_verif/vh"
	"github.com/pkg/errors"
)

// Block fetcher + block processor sessions: the real structs, stepped synchronously.
// One virtual time unit is an hour; real elapsed time between steps is microseconds.
const unit = time.Hour

// classes of peer misbehaviour that break the binding between a block id and its header
// (the carried Hash is kept, the header is altered); see notes/C17.md
const classForgedNo = "C17-header-not-bound-to-id"

type outFetch struct {
	peer   int
	hashes [][]byte
}

type sentReply struct {
	peer   int
	err    bool
	blocks []*types.Block
}

type fsess struct {
	run *vh.Run
	rng *vh.Rng
	bf  *syncer.BlockFetcher
	req *recReq

	remote, alt *chainT
	anc, target int
	npeers      int
	T           int
	hashReq     int
	hsNext      int // next height to announce
	wild        bool
	forged      bool
	big         bool // scale: long connect queues, large chunks, many peers
	maxConnQ    int

	ops       []string
	fetches   []*outFetch
	history   []sentReply
	adds      []*types.Block
	lastAdd   *types.Block
	delivered []*types.Block
	stopOK    int
	stopped   bool
	stopClass string
	nontriv   bool
}

// errClass: the class of an error by its cause (a wrapped error keeps its class).
func errClass(err error) string {
	c := errors.Cause(err)
	switch {
	case c == syncer.ErrAllPeerBad:
		return "allpeerbad"
	case c == errStub:
		return "rsperr"
	}
	if _, ok := c.(*syncer.ErrSyncMsg); ok {
		return "invalidadd"
	}
	return "other(" + err.Error() + ")"
}

func taskStr(t syncer.VerifC17Task, now time.Time) string {
	p, age := "-", 0
	if t.PeerNo >= 0 {
		p = fmt.Sprintf("%d.%d", t.PeerNo, t.PeerFail)
		age = int((now.Sub(t.Started) + unit/2) / unit)
	}
	s := fmt.Sprintf("%d:%s:%s:%d:%d", t.StartNo, tokList(hashesOf(t.Hashes)), p, t.Retry, age)
	if t.Count != len(t.Hashes) {
		s += "!count"
	}
	return s
}

func listStr(items []string) string { return "[" + strings.Join(items, " ") + "]" }

func (s *fsess) dump() string {
	st := s.bf.VerifC17Dump()
	now := time.Now()
	mapT := func(ts []syncer.VerifC17Task) string {
		var l []string
		for _, t := range ts {
			l = append(l, taskStr(t, now))
		}
		return listStr(l)
	}
	var free, connq []string
	for _, p := range st.Free {
		free = append(free, fmt.Sprintf("%d.%d", p.No, p.FailCnt))
	}
	for _, c := range st.ConnQ {
		connq = append(connq, fmt.Sprintf("%d:%d", c.FirstNo, len(c.Blocks)))
	}
	if len(st.ConnQ) > s.maxConnQ {
		s.maxConnQ = len(st.ConnQ)
	}
	cur := "-"
	if st.Cur != nil {
		cur = fmt.Sprintf("%d:%d:%d", st.Cur.FirstNo, st.Cur.Cur, len(st.Cur.Blocks))
	}
	if st.FreeCnt != len(st.Free) || st.Bad != st.BadLen {
		s.fail("peer set counters disagree with its lists")
	}
	return fmt.Sprintf("run=%s pend=%s retry=%s free=%s bad=%d total=%d connq=%s cur=%s prev=%s cb=%s hs=%d hfq=%d",
		mapT(st.Running), mapT(st.Pending), mapT(st.Retry), listStr(free), st.Bad, st.Total, listStr(connq), cur,
		blkTok(st.Prev), blkTok(st.CurBlock), b2i(st.CurHashSet), st.HfqLen)
}

var sessFails int

func (s *fsess) fail(what string) {
	sessFails++
	s.run.Fail(what, map[string]interface{}{"session": append([]string{}, s.ops...)})
}

// failOrder: a violation of the delivery order. In a session in which a peer answered with the
// genuine ids but an altered header (height of the first or of an inner block, parent of the first
// block) this is the known finding C17-header-not-bound-to-id; anywhere else it is a violation.
func (s *fsess) failOrder(what string) {
	rep := map[string]interface{}{"session": append([]string{}, s.ops...)}
	if !s.forged {
		sessFails++
	}
	if s.forged {
		s.run.FailKnown(what+" (a peer altered the header of a block and kept its id)", classForgedNo, rep)
		return
	}
	s.run.Fail(what, rep)
}

// do runs one real step, turns what the real code sent and returned into the canonical answer line.
func (s *fsess) do(line string, f func() error) {
	var err error
	s.run.Pending(line)
	_, panicked := vh.Guard(func() string { err = f(); return "" })
	var outs []string
	for _, o := range s.req.take() {
		switch m := o.(type) {
		case *message.GetBlockChunks:
			p := peerNoOf(m.ToWhom)
			outs = append(outs, fmt.Sprintf("fetch:%d:%s", p, tokList(hashesOf(m.Hashes))))
			s.fetches = append(s.fetches, &outFetch{peer: p, hashes: hashesOf(m.Hashes)})
		case *message.AddBlock:
			outs = append(outs, "add:"+blkTok(m.Block))
			s.adds = append(s.adds, m.Block)
			s.delivered = append(s.delivered, m.Block)
			s.nontriv = true
			if !m.IsSync {
				s.fail("AddBlock sent by the syncer without IsSync")
			}
		case *message.SyncStop:
			if m.Err == nil {
				outs = append(outs, "stop:ok")
				s.stopOK++
			} else {
				outs = append(outs, "stop:"+errClass(m.Err))
				s.stopped, s.stopClass = true, errClass(m.Err)
			}
		default:
			outs = append(outs, fmt.Sprintf("unexpected:%T", o))
		}
	}
	if panicked {
		outs = append(outs, "stop:panic")
		s.stopped, s.stopClass = true, "panic"
	} else if err != nil {
		outs = append(outs, "stop:"+errClass(err))
		s.stopped, s.stopClass = true, errClass(err)
	}
	o := "-"
	if len(outs) > 0 {
		o = strings.Join(outs, " ")
	}
	if !s.stopped {
		o += " | " + s.dump()
	}
	s.ops = append(s.ops, line+" => "+o)
	s.run.Op(line, o, s.nontriv)
	s.checkDelivered()
}

// checkDelivered: the property on what reached the chain service so far.
func (s *fsess) checkDelivered() {
	if s.wild {
		return
	}
	for k, b := range s.delivered {
		h := uint64(s.anc + 1 + k)
		if h > uint64(s.target) {
			s.failOrder(fmt.Sprintf("block %d handed to the chain service beyond the target %d", h, s.target))
			s.delivered, s.wild = nil, true
			return
		}
		want := s.remote.blocks[h]
		prev := s.remote.blocks[s.anc].GetHash()
		if k > 0 {
			prev = s.delivered[k-1].GetHash()
		}
		switch {
		case b.GetHeader().GetBlockNo() != h:
			s.failOrder(fmt.Sprintf("delivery #%d has height %d, expected %d (gap, duplicate or disorder)", k, b.GetHeader().GetBlockNo(), h))
		case string(b.GetHash()) != string(want.GetHash()):
			s.failOrder(fmt.Sprintf("delivery #%d at height %d is not the announced block", k, h))
		case string(b.GetHeader().GetPrevBlockHash()) != string(prev):
			s.failOrder(fmt.Sprintf("delivery #%d at height %d is not a child of the previous delivery", k, h))
		default:
			continue
		}
		s.delivered = nil // report once
		s.wild = true
		return
	}
	if s.stopOK > 0 && len(s.delivered) != s.target-s.anc {
		s.failOrder(fmt.Sprintf("success reported after %d of %d blocks", len(s.delivered), s.target-s.anc))
		s.wild = true
	}
	if s.stopOK > 1 {
		s.failOrder("success reported twice")
		s.wild = true
	}
}

func newFsess(run *vh.Run, idx int) *fsess {
	rng := run.Rng
	s := &fsess{run: run, rng: rng}
	s.anc = rng.Intn(5)
	n := 1 + rng.Intn(12)
	if rng.Intn(6) == 0 {
		n = 1 + rng.Intn(3)
	}
	// scale: the shipped configuration has 100-block chunks, 5 tasks, 10 pending connect tasks, hash sets of 1000
	bigEvery := 40
	if run.Thorough() {
		bigEvery = 8
	}
	prod := run.Thorough() && idx%1500 == 7
	s.big = idx%bigEvery == 3 || prod
	if s.big {
		n = 30 + rng.Intn(120)
	}
	if prod {
		n = 1300 + rng.Intn(400)
	}
	s.target = s.anc + n
	s.remote = newChain(nil, -1, s.target+2, int64(5000+2*idx))
	s.alt = newChain(s.remote, s.anc, s.target+2, int64(5001+2*idx))
	s.npeers = 1 + rng.Intn(4)
	if rng.Intn(40) == 0 {
		s.npeers = 0
	}
	s.T = 1 + rng.Intn(2)
	s.hashReq = 1 + rng.Intn(6)
	s.hsNext = s.anc + 1
	s.wild = rng.Intn(10) == 0
	mfs, mft, mpc := 1+rng.Intn(4), 1+rng.Intn(4), 1+rng.Intn(4)
	if s.big {
		mfs, mft, mpc = 1+rng.Intn(24), 3+rng.Intn(6), 6+rng.Intn(9)
		s.npeers = 3 + rng.Intn(6)
		s.hashReq = 8 + rng.Intn(33)
		s.wild = false
		run.Count("fetch-session:big")
	}
	if prod {
		mfs, mft, mpc, s.hashReq, s.npeers = 100, 5, 10, 1000, 5
		run.Count("fetch-session:shipped-config")
	}
	ancBlk := s.remote.blocks[s.anc]

	s.req = &recReq{}
	notRunning := 0
	if rng.Intn(4) == 0 {
		notRunning = 1 + rng.Intn(3)
		run.Count("fetch-session:peer-list-with-non-running-peers")
	}
	s.req.future = func(msg interface{}) (interface{}, error) {
		if _, ok := msg.(*message.GetPeers); ok {
			// BlockFetcher.init takes the RUNNING peers only
			return peersRspMixed(s.npeers, notRunning), nil
		}
		return nil, errStub
	}
	cfg := syncer.VerifC17NewCfg(uint64(s.hashReq), mfs, mpc, mft, time.Duration(s.T)*unit+unit/2, false)
	ctx := types.NewSyncCtx(3, peerID(0), uint64(s.target), uint64(s.anc), nil)
	ctx.SetAncestor(ancBlk)
	line := fmt.Sprintf("new %d %d %d %d %d %d %s", mfs, mft, mpc, s.T, s.target, s.npeers, blkTok(ancBlk))
	s.do(line, func() error {
		s.bf = syncer.VerifC17NewBlockFetcher(ctx, s.req, cfg)
		return s.bf.VerifC17Init()
	})
	run.Count(fmt.Sprintf("fetch-session:peers=%d", s.npeers))
	return s
}

func (s *fsess) pushHashSet(startNo uint64, hashes [][]byte) {
	hs := &syncer.HashSet{Count: len(hashes), StartNo: startNo}
	for _, h := range hashes {
		hs.Hashes = append(hs.Hashes, message.BlockHash(h))
	}
	s.do(fmt.Sprintf("hs %d %s", startNo, tokList(hashes)), func() error { s.bf.VerifC17PushHashSet(hs); return nil })
}

// nextHashSet announces the next hashes of the remote chain, as the HashFetcher would.
func (s *fsess) nextHashSet() bool {
	if s.hsNext > s.target {
		return false
	}
	n := s.hashReq
	if s.hsNext+n-1 > s.target {
		n = s.target - s.hsNext + 1
	}
	var hs [][]byte
	for i := 0; i < n; i++ {
		hs = append(hs, s.remote.blocks[s.hsNext+i].GetHash())
	}
	s.pushHashSet(uint64(s.hsNext), hs)
	s.hsNext += n
	return true
}

func (s *fsess) canSched() bool {
	st := s.bf.VerifC17Dump()
	// the real searchCandidateTask blocks on the channel while no hash set was ever received
	return st.CurHashSet || st.HfqLen > 0 || len(st.Pending) > 0 || len(st.Retry) > 0 || len(st.Free) == 0
}

func (s *fsess) sched() {
	if !s.canSched() {
		return
	}
	s.do("sched", func() error { return s.bf.VerifC17Schedule() })
}

func (s *fsess) tick(d int) {
	s.do(fmt.Sprintf("tick %d", d), func() error {
		s.bf.VerifC17Age(time.Duration(d) * unit)
		return s.bf.VerifC17CheckTaskTimeout()
	})
}

func (s *fsess) reply(peer int, isErr bool, blocks []*types.Block) {
	msg := &message.GetBlockChunksRsp{Seq: 3, ToWhom: peerID(peer), Blocks: blocks}
	if isErr {
		msg.Err = errStub
	}
	s.history = append(s.history, sentReply{peer, isErr, blocks})
	s.do(fmt.Sprintf("chunk %d %d %s", peer, b2i(isErr), blksTok(blocks)), func() error { return s.bf.VerifC17Run(msg) })
}

func (s *fsess) blocksOf(hashes [][]byte) []*types.Block {
	var out []*types.Block
	for _, h := range hashes {
		if b, ok := s.remote.byHash[string(h)]; ok {
			out = append(out, b)
		} else if b, ok := s.alt.byHash[string(h)]; ok {
			out = append(out, b)
		}
	}
	return out
}

func cloneBlock(b *types.Block) *types.Block {
	return proto.Clone(b).(*types.Block)
}

// answer one outstanding fetch request, honestly or not.
func (s *fsess) answer(i int, kind int) {
	f := s.fetches[i]
	s.fetches = append(s.fetches[:i:i], s.fetches[i+1:]...)
	good := s.blocksOf(f.hashes)
	rng := s.rng
	name := "honest"
	peer, isErr, blocks := f.peer, false, good
	switch kind {
	case 1:
		name, isErr, blocks = "error", true, nil
	case 2:
		name, blocks = "empty", nil
	case 3:
		name, blocks = "too-few", good[:rng.Intn(len(good))]
	case 4:
		name = "too-many"
		extra := s.remote.blocks[(int(good[len(good)-1].GetHeader().GetBlockNo())+1)%len(s.remote.blocks)]
		blocks = append(append([]*types.Block{}, good...), extra)
	case 5:
		name = "swapped"
		blocks = append([]*types.Block{}, good...)
		if len(blocks) >= 2 {
			j := rng.Intn(len(blocks) - 1)
			blocks[j], blocks[j+1] = blocks[j+1], blocks[j]
		}
	case 6:
		name = "other-fork-block"
		blocks = append([]*types.Block{}, good...)
		j := rng.Intn(len(blocks))
		blocks[j] = s.alt.blocks[blocks[j].GetHeader().GetBlockNo()]
	case 7:
		name = "wrong-peer"
		peer = (f.peer + 1 + rng.Intn(3)) % 5
	case 8:
		name = "other-range"
		st := s.anc + 1 + rng.Intn(s.target-s.anc)
		blocks = nil
		for k := 0; k < len(good) && st+k < len(s.remote.blocks); k++ {
			blocks = append(blocks, s.remote.blocks[st+k])
		}
	case 9:
		name, isErr = "error-with-blocks", true
	case 10: // id kept, parent field altered: unlinked inside the chunk
		name = "forged-parent"
		blocks = append([]*types.Block{}, good...)
		j := rng.Intn(len(blocks))
		c := cloneBlock(blocks[j])
		c.Header.PrevBlockHash = otherHash
		blocks[j] = c
		if j == 0 {
			s.forged = true // inside a chunk the link check catches it; the first block's parent is not looked at
		}
	case 11: // id kept, height field altered
		name = "forged-height"
		blocks = append([]*types.Block{}, good...)
		j := rng.Intn(len(blocks))
		if rng.Intn(2) == 0 {
			j = 0
		}
		c := cloneBlock(blocks[j])
		c.Header.BlockNo = uint64(s.anc + 1 + rng.Intn(s.target-s.anc+1))
		if c.Header.BlockNo != blocks[j].Header.BlockNo {
			s.forged = true
		}
		blocks[j] = c
	}
	s.run.Count("chunk-reply:" + name)
	s.reply(peer, isErr, blocks)
}

func (s *fsess) addRsp(no uint64, hash []byte, isErr bool) {
	msg := &message.AddBlockRsp{BlockNo: no, BlockHash: hash}
	if isErr {
		msg.Err = errStub
	}
	ht := "nil"
	if hash != nil {
		ht = strconv.Itoa(tok(hash))
	}
	s.do(fmt.Sprintf("add %d %s %d", no, ht, b2i(isErr)), func() error { return s.bf.VerifC17Run(msg) })
}

func (s *fsess) answerAdd(kind int) {
	var b *types.Block
	if len(s.adds) > 0 {
		b = s.adds[0]
		s.adds = s.adds[1:]
	}
	name := "honest"
	switch {
	case b == nil && s.lastAdd != nil:
		name = "duplicate"
		s.addRsp(s.lastAdd.GetHeader().GetBlockNo(), s.lastAdd.GetHash(), false)
	case b == nil:
		name = "unsolicited"
		x := s.remote.blocks[s.anc+1]
		s.addRsp(x.GetHeader().GetBlockNo(), x.GetHash(), false)
	case kind == 1:
		name = "error"
		s.addRsp(b.GetHeader().GetBlockNo(), b.GetHash(), true)
	case kind == 2:
		name = "nil-hash"
		s.addRsp(b.GetHeader().GetBlockNo(), nil, false)
	case kind == 3:
		name = "wrong-no"
		s.addRsp(b.GetHeader().GetBlockNo()+1, b.GetHash(), false)
	case kind == 4:
		name = "wrong-hash"
		s.addRsp(b.GetHeader().GetBlockNo(), otherHash, false)
	default:
		s.lastAdd = b
		s.addRsp(b.GetHeader().GetBlockNo(), b.GetHash(), false)
	}
	s.run.Count("add-reply:" + name)
}

func (s *fsess) done() bool { return s.stopped || s.stopOK > 0 }

// random phase: any order, any fault.
func (s *fsess) randomPhase(steps int) {
	rng := s.rng
	faulty := rng.Intn(4) != 0 // a quarter of the sessions have honest peers and only reordering/delays
	for i := 0; i < steps && !s.done(); i++ {
		schedAfter := rng.Intn(4) != 0
		switch r := rng.Intn(20); {
		case r < 3:
			if s.wild && rng.Intn(3) == 0 {
				// an arbitrary hash set (the HashFetcher would not produce it)
				st := s.anc + 1 + rng.Intn(s.target-s.anc)
				n := 1 + rng.Intn(3)
				var hs [][]byte
				for k := 0; k < n && st+k < len(s.remote.blocks); k++ {
					hs = append(hs, s.remote.blocks[st+k].GetHash())
				}
				s.pushHashSet(uint64(st), hs)
			} else if !s.nextHashSet() {
				s.sched()
			}
		case r < 6:
			s.sched()
			schedAfter = false
		case r < 13:
			if len(s.fetches) == 0 {
				s.sched()
				break
			}
			kind := 0
			if faulty && rng.Intn(3) == 0 {
				kind = 1 + rng.Intn(11)
				if kind == 11 && rng.Intn(3) != 0 {
					kind = 0 // keep the id-forging class rare
				}
			}
			which := rng.Intn(len(s.fetches))
			if s.big && len(s.fetches) > 1 && rng.Intn(4) != 0 {
				which = 1 + rng.Intn(len(s.fetches)-1) // the oldest request stays unanswered: the connect queue fills up behind it
			}
			s.answer(which, kind)
		case r < 14:
			if faulty && len(s.fetches) > 0 { // drop: the request is never answered
				i := rng.Intn(len(s.fetches))
				s.fetches = append(s.fetches[:i:i], s.fetches[i+1:]...)
				s.run.Count("chunk-reply:dropped")
			}
			schedAfter = false
		case r < 15:
			if faulty && len(s.history) > 0 { // duplicate / late copy of an earlier reply
				h := s.history[rng.Intn(len(s.history))]
				s.run.Count("chunk-reply:duplicate")
				s.reply(h.peer, h.err, h.blocks)
			}
		case r < 17:
			s.tick(1 + rng.Intn(s.T+1))
		default:
			kind := 0
			if faulty && rng.Intn(8) == 0 {
				kind = 1 + rng.Intn(4)
			}
			if len(s.adds) == 0 && !(faulty && rng.Intn(12) == 0) {
				s.sched()
				break
			}
			s.answerAdd(kind)
		}
		if schedAfter && !s.done() {
			s.sched()
		}
	}
}

// stallPhase: the oldest request stays unanswered while every other one is answered honestly: the connect
// queue fills up behind the missing chunk until the pending-connect limit stops the scheduler.
func (s *fsess) stallPhase() {
	for round := 0; round < 200 && !s.done(); round++ {
		s.nextHashSet()
		s.sched()
		if len(s.fetches) <= 1 {
			if s.hsNext > s.target {
				return
			}
			st := s.bf.VerifC17Dump()
			if len(st.Pending) > 0 || st.HfqLen > 0 {
				return // the scheduler holds back: the limit is reached
			}
			continue
		}
		for len(s.fetches) > 1 && !s.done() {
			s.answer(1, 0)
		}
	}
}

// fairPhase: from wherever the random phase left the session, honest peers and an honest chain
// service; the session must complete (or have stopped with an error).
func (s *fsess) fairPhase() {
	prevSig := ""
	for round := 0; round < 400 && !s.done(); round++ {
		s.nextHashSet()
		s.sched()
		for len(s.fetches) > 0 && !s.done() {
			s.answer(0, 0)
			if !s.done() {
				s.sched()
			}
		}
		for len(s.adds) > 0 && !s.done() {
			s.answerAdd(0)
			if !s.done() {
				s.sched()
			}
		}
		if s.done() {
			break
		}
		st := s.bf.VerifC17Dump()
		if len(st.Running) > 0 { // requests that were dropped: only the clock helps
			s.tick(s.T + 1)
			if !s.done() {
				s.sched()
			}
			continue
		}
		sig := s.dump()
		if sig == prevSig && len(s.fetches) == 0 && len(s.adds) == 0 && s.hsNext > s.target {
			break // nothing outstanding, nothing running, nothing changes any more
		}
		prevSig = sig
	}
	if !s.done() {
		if s.npeers == 0 {
			s.run.Count("fetch-session:stalled-without-peers")
			return
		}
		s.fail("no progress: with honest peers and chain service from here on the session neither completes nor stops")
	}
}

func fetchSessions(run *vh.Run, n int) {
	for i := 0; i < n && sessFails < 12; i++ {
		s := newFsess(run, i)
		if s.stopped {
			run.Count("fetch-session:end=" + s.stopClass)
			continue
		}
		steps := 10 + run.Rng.Intn(60)
		if s.big {
			steps = 60 + run.Rng.Intn(400)
			if run.Rng.Intn(2) == 0 {
				s.stallPhase()
			}
		}
		s.randomPhase(steps)
		if !s.wild && !s.forged && !s.done() {
			s.fairPhase()
		}
		switch {
		case s.stopped:
			run.Count("fetch-session:end=" + s.stopClass)
		case s.stopOK > 0:
			run.Count("fetch-session:end=completed")
		default:
			run.Count("fetch-session:end=open")
		}
		if s.wild {
			run.Count("fetch-session:wild")
		}
		if s.forged {
			run.Count("fetch-session:forged-header")
		}
		switch {
		case s.maxConnQ > 8:
			run.Count("fetch-session:connq>8")
		case s.maxConnQ > 4:
			run.Count("fetch-session:connq>4")
		}
	}
}

// unlinkedAnnouncement: the sync peer announces ids that do not form a chain (every block is genuine,
// no header is altered): ids of two different branches in one hash set, cut into two fetch tasks. Inside
// a chunk the processor checks the parent links (isValidResponse); across two chunks, and between the
// ancestor and the first block, nothing does (popFromConnQueue looks at the height only). Known finding
// C17-unlinked-announcement-delivered: a block handed to the chain service is not a child of the one before.
func unlinkedAnnouncement(run *vh.Run) {
	for variant := 0; variant < 2; variant++ {
		s := &fsess{run: run, rng: run.Rng, wild: true}
		s.anc, s.target, s.npeers, s.T, s.hashReq = 3, 5, 2, 1, 4
		base := newChain(nil, -1, 2, 8801)
		s.remote = newChain(base, 2, 8, 8802)  // the ancestor (height 3) is on this branch
		s.alt = newChain(s.remote, 3, 8, 8803) // shares the ancestor, own blocks from height 4
		low := newChain(base, 2, 8, 8804)      // forks BELOW the ancestor
		ancBlk := s.remote.blocks[s.anc]
		s.req = &recReq{}
		s.req.future = func(msg interface{}) (interface{}, error) {
			if _, ok := msg.(*message.GetPeers); ok {
				return peersRsp(s.npeers), nil
			}
			return nil, errStub
		}
		cfg := syncer.VerifC17NewCfg(4, 1, 4, 2, time.Duration(s.T)*unit+unit/2, false)
		ctx := types.NewSyncCtx(3, peerID(0), uint64(s.target), uint64(s.anc), nil)
		ctx.SetAncestor(ancBlk)
		s.do(fmt.Sprintf("new 1 2 4 %d %d %d %s", s.T, s.target, s.npeers, blkTok(ancBlk)), func() error {
			s.bf = syncer.VerifC17NewBlockFetcher(ctx, s.req, cfg)
			return s.bf.VerifC17Init()
		})
		var first, second *types.Block
		if variant == 0 {
			first, second = s.remote.blocks[4], s.alt.blocks[5] // a child of the ancestor, then a block of the other branch
		} else {
			first, second = low.blocks[4], low.blocks[5] // the first block is not a child of the ancestor
		}
		s.pushHashSet(4, [][]byte{first.GetHash(), second.GetHash()})
		s.sched()
		byHash := map[string]*types.Block{string(first.GetHash()): first, string(second.GetHash()): second}
		for len(s.fetches) > 0 && !s.stopped {
			f := s.fetches[0]
			s.fetches = s.fetches[1:]
			var bs []*types.Block
			for _, h := range f.hashes {
				bs = append(bs, byHash[string(h)])
			}
			s.reply(f.peer, false, bs)
		}
		for len(s.adds) > 0 && !s.stopped {
			b := s.adds[0]
			s.adds = s.adds[1:]
			s.addRsp(b.GetHeader().GetBlockNo(), b.GetHash(), false)
		}
		// the announced ids are not a chain from the ancestor on; every block is genuine (real header, real id)
		notChain := string(first.GetHeader().GetPrevBlockHash()) != string(ancBlk.GetHash()) ||
			string(second.GetHeader().GetPrevBlockHash()) != string(first.GetHash())
		prev := ancBlk.GetHash()
		for k, b := range s.delivered {
			genuine := (b == first || b == second) && b.GetHeader().GetBlockNo() == uint64(s.anc+1+k)
			if string(b.GetHeader().GetPrevBlockHash()) != string(prev) {
				what := fmt.Sprintf("delivery #%d (%s) is not a child of the block handed over before it (id %d)", k, blkTok(b), tok(prev))
				rep := map[string]interface{}{"session": append([]string{}, s.ops...), "variant": variant}
				if notChain && genuine {
					// known finding: the ids the sync peer announced do not form a chain; across chunk boundaries (and between the
					// ancestor and the first block) the processor compares heights only
					run.FailKnown(what+": the announced ids are not a chain, every block is genuine", "C17-unlinked-announcement-delivered", rep)
				} else {
					run.Fail(what, rep)
				}
				break
			}
			prev = b.GetHash()
		}
		run.Count("unlinked-announcement:scripted")
	}
}
