package main

import (
	"fmt"
	"time"

	"github.com/aergoio/aergo-actor/actor"
	"github.com/aergoio/aergo/v2/p2p"
	"github.com/aergoio/aergo/v2/p2p/p2pcommon"
	"github.com/aergoio/aergo/v2/syncer"
	"github.com/aergoio/aergo/v2/types"
	"github.com/aergoio/aergo/v2/types/message"
	"github.com/aergoio/aergo/v2/zz_verif/vh"
)

// actorCtx: the only thing Syncer.Receive asks its context for is the message.
type actorCtx struct {
	actor.Context
	m interface{}
}

func (c actorCtx) Message() interface{} { return c.m }

var kinds = []string{"syncStart", "anchorsRsp", "ancestorRsp", "finderResult", "hashesRsp", "hashByNoRsp",
	"blockChunksRsp", "addBlockRsp", "syncStop", "closeFetcher", "blockChunksReq", "other"}

func mkMsg(kind string, seq uint64) interface{} {
	switch kind {
	case "syncStart":
		return &message.SyncStart{}
	case "anchorsRsp":
		return &message.GetAnchorsRsp{Seq: seq}
	case "ancestorRsp":
		return &message.GetSyncAncestorRsp{Seq: seq}
	case "finderResult":
		return &message.FinderResult{Seq: seq}
	case "hashesRsp":
		return &message.GetHashesRsp{Seq: seq}
	case "hashByNoRsp":
		return &message.GetHashByNoRsp{Seq: seq}
	case "blockChunksRsp":
		return &message.GetBlockChunksRsp{Seq: seq}
	case "addBlockRsp":
		return &message.AddBlockRsp{}
	case "syncStop":
		return &message.SyncStop{Seq: seq}
	case "closeFetcher":
		return &message.CloseFetcher{Seq: seq}
	case "blockChunksReq":
		return &message.GetBlockChunks{Seq: seq}
	}
	return &message.GetPeers{}
}

// verifySeq: every message kind x every relation between the message's and the session's sequence.
func seqFilter(run *vh.Run) {
	base := newChain(nil, -1, 3, 77)
	sy := syncer.NewSyncer(nil, &memChain{base}, syncer.VerifC17NewCfg(3, 2, 2, 2, time.Second, true))
	for _, cur := range []uint64{1, 2, 7, 1 << 40} {
		sy.VerifC17SetSeq(cur)
		for _, k := range kinds {
			for _, seq := range []uint64{cur, cur - 1, cur + 1, 0, 1} {
				got := sy.VerifC17VerifySeq(mkMsg(k, seq))
				run.Op(fmt.Sprintf("vseq %d %s %d", cur, k, seq), fmt.Sprint(b2i(got)), got)
				run.Count("vseq")
				// oracle (stale_dropped): a message that carries another session's sequence is not let through
				carries := k != "syncStart" && k != "addBlockRsp" && k != "blockChunksReq" && k != "other"
				if carries && seq != cur && got {
					run.Fail("a message of another session passed the sequence filter", map[string]interface{}{"kind": k, "cur": cur, "seq": seq})
				}
				if seq == cur && !got {
					run.Fail("a message of the current session was filtered out", map[string]interface{}{"kind": k, "cur": cur})
				}
			}
		}
	}
}

// Service sessions: the real Syncer; its finder's requests fail at once, so that a session is
// running but idle; start / stop / stale stop / failed finder result in any order.
func svcSessions(run *vh.Run, n int) {
	rng := run.Rng
	for i := 0; i < n; i++ {
		best := rng.Intn(6)
		local := newChain(nil, -1, best, int64(12000+i))
		req := &recReq{}
		sy := syncer.NewSyncer(nil, &memChain{local}, syncer.VerifC17NewCfg(3, 2, 2, 2, 50*time.Millisecond, false))
		sy.SetRequester(req)
		var ops []string
		notify := make(chan error, 8)
		state := func() string {
			return fmt.Sprintf("seq=%d running=%d target=%d", sy.Seq, b2i(sy.VerifC17IsRunning()), sy.VerifC17Target())
		}
		// every real action is one `svc` line (model Svc: the counters) and one `sys` line (model Sys: the
		// whole session behind Receive's filter, verifySeq and the dispatch); both must give the real state
		emit := func(line string) {
			o := state()
			ops = append(ops, line+" => "+o)
			run.Op(line, o, sy.VerifC17IsRunning())
			run.Op("sys"+line[3:], o, sy.VerifC17IsRunning())
		}
		emit("svc new")
		for step := 0; step < 14; step++ {
			wasRunning, seq0 := sy.VerifC17IsRunning(), sy.Seq
			switch r := rng.Intn(8); {
			case r < 3:
				target := uint64(rng.Intn(best + 4))
				sy.Receive(actorCtx{m: &message.SyncStart{PeerID: peerID(0), TargetNo: target, NotifyC: notify}})
				emit(fmt.Sprintf("svc start %d %d", target, best))
				run.Count("svc:start")
				// oracle (session_restart): a start request is taken whenever no session runs and the target is ahead
				if !wasRunning && target > uint64(best) && !(sy.VerifC17IsRunning() && sy.Seq == seq0+1) {
					run.Fail("a synchronisation could not be started although none was running", map[string]interface{}{"session": ops})
				}
				if wasRunning && sy.Seq != seq0 {
					run.Fail("a start request disturbed the running session", map[string]interface{}{"session": ops})
				}
			case r < 6:
				seq := sy.Seq
				if rng.Intn(3) == 0 {
					seq = sy.Seq - 1 - uint64(rng.Intn(2))
				}
				for len(notify) > 0 {
					<-notify
				}
				kind := "stop"
				var m interface{} = &message.SyncStop{Seq: seq, FromWho: "test", Err: errStub}
				if rng.Intn(3) == 0 {
					kind, m = "finderfail", &message.FinderResult{Seq: seq, Err: errStub}
				}
				sy.Receive(actorCtx{m: m})
				emit(fmt.Sprintf("svc %s %d", kind, seq))
				run.Count("svc:" + kind)
				switch {
				case wasRunning && seq == seq0:
					f, h, b := sy.VerifC17HasParts()
					if sy.VerifC17IsRunning() || f || h || b {
						run.Fail("session not torn down by a stop of its own sequence", map[string]interface{}{"session": ops})
					}
					if len(notify) != 1 {
						run.Fail("the requester of the session was not told that it stopped", map[string]interface{}{"session": ops})
					}
				default:
					if sy.VerifC17IsRunning() != wasRunning || sy.Seq != seq0 {
						run.Fail("a stale stop changed the session", map[string]interface{}{"session": ops})
					}
				}
			default:
				// any other kind of message, with a stale sequence, or with the running session's own sequence for
				// the kinds that are inert while only the finder exists (hashesRsp needs a hash fetcher; a
				// hashByNoRsp with the current sequence reaches a finder that has already returned: lateFinderReply)
				k := kinds[1+rng.Intn(len(kinds)-1)]
				seq := sy.Seq - 1 - uint64(rng.Intn(2))
				if rng.Intn(3) == 0 {
					switch k {
					case "anchorsRsp", "ancestorRsp", "hashByNoRsp", "blockChunksRsp", "addBlockRsp", "closeFetcher", "blockChunksReq", "other", "syncStop":
						seq = sy.Seq
					}
				}
				if k == "finderResult" || (k == "hashesRsp" && seq == sy.Seq) {
					k = "blockChunksRsp"
				}
				for len(notify) > 0 {
					<-notify
				}
				if !recvGuard(sy, mkMsg(k, seq)) {
					run.Fail("the syncer actor is blocked for ever in Receive", map[string]interface{}{"session": ops, "kind": k, "seq": seq, "running-seq": seq0})
					return
				}
				o := state()
				line := fmt.Sprintf("sys msg %s %d", k, seq)
				ops = append(ops, line+" => "+o)
				run.Op(line, o, sy.VerifC17IsRunning())
				run.Op(fmt.Sprintf("svc stop %d", func() uint64 {
					if k == "syncStop" {
						return seq
					}
					return 0 // a sequence no session has: the counters model must not move either
				}()), o, sy.VerifC17IsRunning())
				run.Count("sys:msg:" + map[bool]string{true: "current", false: "stale"}[seq == seq0])
				stops := wasRunning && k == "syncStop" && seq == seq0
				if !stops && (sy.VerifC17IsRunning() != wasRunning || sy.Seq != seq0) {
					run.Fail("a message that is not a stop of the running session changed the session", map[string]interface{}{"session": ops, "kind": k})
				}
				if stops && sy.VerifC17IsRunning() {
					run.Fail("session not torn down by a stop of its own sequence", map[string]interface{}{"session": ops})
				}
			}
		}
		if sy.VerifC17IsRunning() {
			sy.Receive(actorCtx{m: &message.SyncStop{Seq: sy.Seq, FromWho: "test"}})
		}
	}
}

// ---------------------------------------------------------------------------------------------
// P2P BlocksChunkReceiver

type stubPeer struct {
	p2pcommon.RemotePeer
	consumed int
}

func (p *stubPeer) ID() types.PeerID { return peerID(4) }
func (p *stubPeer) ConsumeRequest(id p2pcommon.MsgID) p2pcommon.MsgOrder {
	p.consumed++
	return nil
}

type stubActor struct {
	p2pcommon.ActorService
	sent []interface{}
}

func (a *stubActor) TellRequest(actorName string, msg interface{}) { a.sent = append(a.sent, msg) }

func recvErrName(err error) string {
	switch err {
	case message.RemotePeerFailError:
		return "remotepeerfail"
	case message.MissingHashError:
		return "missinghash"
	case message.TooManyBlocksError:
		return "toomany"
	case message.UnexpectedBlockError:
		return "unexpected"
	case message.TooBigBlockError:
		return "toobig"
	case message.TooFewBlocksError:
		return "toofew"
	}
	return fmt.Sprintf("other(%v)", err)
}

func recvSessions(run *vh.Run, n int) {
	rng := run.Rng
	remote := newChain(nil, -1, 30, 31)
	alt := newChain(remote, 3, 30, 32)
	// a block above the size limit (chain.Init was given a small limit)
	bigBlk := types.NewBlock(&types.BlockHeaderInfo{No: 31, Ts: 1, PrevBlockHash: remote.blocks[30].GetHash(), ChainId: []byte("c17")}, nil, nil,
		[]*types.Tx{{Hash: []byte("t"), Body: &types.TxBody{Payload: make([]byte, 6000)}}}, nil, nil)
	bigBlk.BlockHash()
	remote.add(bigBlk)
	for i := 0; i < n; i++ {
		st := 1 + rng.Intn(24)
		cnt := 1 + rng.Intn(6)
		if rng.Intn(6) == 0 && st+cnt <= 31 {
			st = 31 - cnt + 1 // ends with the oversized block
		}
		var want []message.BlockHash
		var wantB []*types.Block
		for k := 0; k < cnt && st+k < len(remote.blocks); k++ {
			want = append(want, message.BlockHash(remote.blocks[st+k].GetHash()))
			wantB = append(wantB, remote.blocks[st+k])
		}
		timedOut := rng.Intn(12) == 0
		ttl := time.Hour
		if timedOut {
			ttl = -time.Hour
		}
		peer, act := &stubPeer{}, &stubActor{}
		br := p2p.NewBlockReceiver(act, peer, 11, want, ttl)
		var ops []string
		line := "recv new " + tokList(hashesOf(want))
		run.Op(line, "st=waiting got=0", true)
		ops = append(ops, line)
		pos := 0
		stName := []string{"waiting", "canceled", "finished"}
		var sent []*types.Block // blocks of the parts that reached the receiver while it was waiting, in order
		answered := false
		for part := 0; part < 5; part++ {
			// the time limit may elapse in the middle of the exchange
			if !timedOut && part > 0 && rng.Intn(10) == 0 {
				br.VerifC17Expire()
				timedOut = true
				run.Count("recv:expires-mid-exchange")
			}
			// the next part of the answer
			k := 1 + rng.Intn(3)
			var blocks []*types.Block
			for j := 0; j < k && pos+j < len(wantB); j++ {
				blocks = append(blocks, wantB[pos+j])
			}
			statusOK, hasNext := true, pos+len(blocks) < len(wantB)
			name := "honest"
			switch r := rng.Intn(14); {
			case r == 0:
				name, statusOK = "status-not-ok", false
			case r == 1:
				name, blocks = "empty", nil
			case r == 2 && len(blocks) > 0:
				name = "unexpected"
				blocks = append([]*types.Block{}, blocks...)
				j := rng.Intn(len(blocks))
				blocks[j] = alt.blocks[blocks[j].GetHeader().GetBlockNo()%uint64(len(alt.blocks))]
			case r == 3:
				name = "too-many"
				blocks = append(append([]*types.Block{}, blocks...), remote.blocks[(st+cnt)%len(remote.blocks)], remote.blocks[(st+cnt+1)%len(remote.blocks)])
				if rng.Intn(2) == 0 {
					hasNext = false
				}
			case r == 4:
				name, hasNext = "ends-early", false
			case r == 5:
				name, hasNext = "claims-more", true
			case r == 6 && len(blocks) > 1:
				name = "swapped"
				blocks = append([]*types.Block{}, blocks...)
				blocks[0], blocks[1] = blocks[1], blocks[0]
			}
			run.Count("recv-part:" + name)
			gb := &types.GetBlockResponse{Status: types.ResultStatus_OK, Blocks: blocks, HasNext: hasNext}
			if !statusOK {
				gb.Status = types.ResultStatus_NOT_FOUND
			}
			var toks []string
			for _, b := range blocks {
				t := blkTok(b)
				if b == bigBlk {
					t += "/B"
				}
				toks = append(toks, t)
			}
			bl := "-"
			if len(toks) > 0 {
				bl = joinComma(toks)
			}
			line := fmt.Sprintf("recv part %d %d %d %s", b2i(timedOut), b2i(statusOK), b2i(hasNext), bl)
			act.sent = nil
			st0, _ := br.VerifC17State()
			if st0 == 0 && !timedOut && statusOK {
				sent = append(sent, blocks...)
			}
			o, panicked := vh.Guard(func() string {
				br.ReceiveResp(nil, gb)
				return "nothing"
			})
			for _, m := range act.sent {
				r := m.(*message.GetBlockChunksRsp)
				if r.Err != nil {
					o = "err:" + recvErrName(r.Err)
				} else {
					o = "rsp:" + blksTok(r.Blocks)
					// oracle (chunk_linked at the receiver): a delivered chunk is exactly the requested ids, in order
					if len(r.Blocks) != len(want) {
						run.Fail("chunk receiver delivered a chunk of the wrong length", map[string]interface{}{"session": ops})
					}
					for j, b := range r.Blocks {
						if j < len(want) && string(b.GetHash()) != string(want[j]) {
							run.Fail("chunk receiver delivered a block that was not requested at that position", map[string]interface{}{"session": ops})
						}
					}
				}
				if r.Seq != 11 || r.ToWhom != peerID(4) {
					run.Fail("chunk receiver answered for another session or peer", map[string]interface{}{"session": ops})
				}
			}
			if len(act.sent) > 1 || (st0 != 0 && len(act.sent) > 0) || (answered && len(act.sent) > 0) {
				run.Fail("chunk receiver answered more than once for one request", map[string]interface{}{"session": ops})
			}
			if len(act.sent) > 0 {
				answered = true
			}
			st1, off := br.VerifC17State()
			// oracle (receiver_holds_prefix): what the receiver holds is a prefix of the request and of what the peer sent
			got := br.VerifC17Got()
			for j, b := range got {
				if j >= len(want) || string(b.GetHash()) != string(want[j]) {
					run.Fail("chunk receiver holds a block that is not the requested one at its position", map[string]interface{}{"session": ops})
					break
				}
				if j >= len(sent) || sent[j] != b {
					run.Fail("chunk receiver holds a block the peer did not send at that position", map[string]interface{}{"session": ops})
					break
				}
			}
			// oracle (receiver_forwards_exactly): a success answer is exactly what the peer sent, up to this part
			for _, m := range act.sent {
				if r := m.(*message.GetBlockChunksRsp); r.Err == nil {
					same := len(r.Blocks) == len(sent) && !hasNext
					for j := 0; same && j < len(sent); j++ {
						same = r.Blocks[j] == sent[j]
					}
					if !same {
						run.Fail("chunk receiver forwarded something else than the blocks the peer sent (or before the last part)", map[string]interface{}{"session": ops})
					}
				}
			}
			// oracle (receiver_timeout_is_silent): a part after the time limit produces no message
			if timedOut && len(act.sent) > 0 {
				run.Fail("chunk receiver answered the syncer after its time limit", map[string]interface{}{"session": ops})
			}
			if !panicked {
				o += fmt.Sprintf(" st=%s got=%d", stName[st1%3], off)
			}
			ops = append(ops, line+" => "+o)
			run.Op(line, o, len(act.sent) > 0)
			if st1 == 0 {
				pos = off
			}
		}
	}
}

func joinComma(l []string) string {
	s := ""
	for i, x := range l {
		if i > 0 {
			s += ","
		}
		s += x
	}
	return s
}

// recvGuard calls the real Syncer.Receive and reports whether it returned within the watchdog.
func recvGuard(sy *syncer.Syncer, m interface{}) bool {
	done := make(chan struct{})
	go func() {
		defer func() { _ = recover() }()
		sy.Receive(actorCtx{m: m})
		close(done)
	}()
	select {
	case <-done:
		return true
	case <-time.After(2 * time.Second):
		return false
	}
}

// lateFinderReply: replies to the finder's GetHashByNo probes that the syncer actor handles when the finder no
// longer waits for them. (A) mailbox order [GetHashByNoRsp, SyncStop]: the probe timed out, the finder posted its
// SyncStop and returned, the reply queued just before is handled first. (B) a duplicate reply handled after the
// finder's result has been accepted (finder == nil). In both the actor must return from Receive (the property's
// "never deadlocks": the pinned code blocked for ever on the unbuffered fScanCh in (A) and dereferenced the nil
// finder in (B); repaired by a353b784), the session must stay as it is, and the stop behind must end it.
func lateFinderReply(run *vh.Run) {
	var ops []string
	op := func(sy *syncer.Syncer, line string) {
		o := fmt.Sprintf("seq=%d running=%d target=%d", sy.Seq, b2i(sy.VerifC17IsRunning()), sy.VerifC17Target())
		ops = append(ops, line+" => "+o)
		run.Op(line, o, sy.VerifC17IsRunning())
	}
	for _, variant := range []string{"after-timeout", "after-result"} {
		ops = nil
		local := newChain(nil, -1, 5, 13001)
		req := &recReq{}
		sy := syncer.NewSyncer(nil, &memChain{local}, syncer.VerifC17NewCfg(3, 2, 2, 2, 40*time.Millisecond, true))
		sy.SetRequester(req)
		notify := make(chan error, 4)
		op(sy, "sys new")
		sy.Receive(actorCtx{m: &message.SyncStart{PeerID: peerID(0), TargetNo: 9, NotifyC: notify}})
		op(sy, "sys start 9 5")
		seq := sy.Seq
		var stop *message.SyncStop
		var result *message.FinderResult
		asked := 0
		for i := 0; i < 800 && stop == nil && result == nil; i++ {
			time.Sleep(3 * time.Millisecond)
			for _, m := range req.take() {
				switch x := m.(type) {
				case *message.GetHashByNo:
					asked++
					if variant == "after-result" {
						// the peer answers in time: same chain
						if !recvGuard(sy, &message.GetHashByNoRsp{Seq: seq, BlockHash: local.hashAt(x.BlockNo)}) {
							run.Fail("the syncer actor did not return from Receive (timely GetHashByNoRsp)", map[string]interface{}{"variant": variant, "session": ops})
							return
						}
					}
				case *message.SyncStop:
					stop = x
				case *message.FinderResult:
					result = x
				}
			}
		}
		if asked == 0 || (variant == "after-timeout" && stop == nil) || (variant == "after-result" && result == nil) {
			run.Count("late-finder-reply:setup-failed")
			continue
		}
		if result != nil {
			if !recvGuard(sy, result) {
				run.Fail("the syncer actor did not return from Receive (FinderResult)", map[string]interface{}{"variant": variant, "session": ops})
				return
			}
			op(sy, fmt.Sprintf("sys msg finderResult %d", seq))
			if !sy.VerifC17IsRunning() {
				run.Fail("an ancestor found by the finder ended the session", map[string]interface{}{"variant": variant, "session": ops})
			}
		}
		// the late / duplicate reply
		if !recvGuard(sy, &message.GetHashByNoRsp{Seq: seq, BlockHash: local.hashAt(2)}) {
			run.Fail("the syncer actor is blocked for ever in Receive: a GetHashByNoRsp of the running session handled after the finder gave up (the SyncStop queued behind it is never processed)",
				map[string]interface{}{"variant": variant, "session": ops, "mailbox": []string{"GetHashByNoRsp(seq=cur)", "SyncStop(seq=cur)"}})
			return
		}
		op(sy, fmt.Sprintf("sys msg hashByNoRsp %d", seq))
		if !sy.VerifC17IsRunning() || sy.Seq != seq {
			run.Fail("a late GetHashByNoRsp changed the session", map[string]interface{}{"variant": variant, "session": ops})
		}
		if stop == nil {
			stop = &message.SyncStop{Seq: seq, FromWho: "test", Err: errStub}
		}
		if !recvGuard(sy, stop) {
			run.Fail("the syncer actor did not return from Receive (SyncStop)", map[string]interface{}{"variant": variant, "session": ops})
			return
		}
		op(sy, fmt.Sprintf("sys stop %d", seq))
		if sy.VerifC17IsRunning() {
			run.Fail("session not torn down by the stop that followed a late GetHashByNoRsp", map[string]interface{}{"variant": variant, "session": ops})
		}
		// a later synchronisation can start
		sy.Receive(actorCtx{m: &message.SyncStart{PeerID: peerID(0), TargetNo: 8, NotifyC: notify}})
		op(sy, "sys start 8 5")
		if !sy.VerifC17IsRunning() || sy.Seq != seq+1 {
			run.Fail("a synchronisation could not be started after a late GetHashByNoRsp", map[string]interface{}{"variant": variant, "session": ops})
		}
		recvGuard(sy, &message.SyncStop{Seq: sy.Seq, FromWho: "test"})
		run.Count("late-finder-reply:" + variant)
	}
}

// lateBlockReply: block replies handled by the syncer actor after the block fetcher's goroutine has returned
// with an error (its SyncStop is still behind them in the mailbox). Syncer.Receive -> BlockFetcher.handleBlockRsp
// is a plain send on responseCh (capacity 2*maxBlockReqTasks) that nobody reads any more. Scenario: one fetch task
// at a time, two peers that answer later than the fetch timeout but within P2P's time limit for the request (30 s,
// a constant: `TTL: DfltFetchTimeOut`): every request times out, is given to the other peer, ... until all peers are
// bad and the fetcher stops with ErrAllPeerBad; then the late answers arrive.
// Part 1 (oracle, always): with no more late answers than the buffer holds, Receive returns, the stop behind them
// ends the session (Reset returns: it joins finder, hash fetcher and block fetcher) and a new session starts.
// Part 2 (hazard, counted): with one more late answer than the buffer holds the actor blocks for ever. This needs a
// fetch timeout shorter than P2P's limit; NewSyncer's configuration has both at 30 s, where a late answer needs a tick
// inside the few microseconds between the task's start and its receiver's start. Not reported as a violation.
func lateBlockReply(run *vh.Run) {
	for _, variant := range []string{"fits-buffer", "one-more-than-buffer"} {
		local := newChain(nil, -1, 5, 13101)
		remote := newChain(local, 5, 9, 13102)
		req := &recReq{}
		req.future = func(msg interface{}) (interface{}, error) {
			if _, ok := msg.(*message.GetPeers); ok {
				return peersRsp(2), nil
			}
			return nil, errStub
		}
		cfg := syncer.VerifC17NewCfg(4, 1, 4, 1, 30*time.Millisecond, true)
		oldTick, oldHash := syncer.VerifC17SetTimers(3*time.Millisecond, 20*time.Second)
		sy := syncer.NewSyncer(nil, &memChain{local}, cfg)
		sy.SetRequester(req)
		notify := make(chan error, 4)
		sy.Receive(actorCtx{m: &message.SyncStart{PeerID: peerID(0), TargetNo: 9, NotifyC: notify}})
		seq := sy.Seq
		var stop *message.SyncStop
		var unanswered []*message.GetBlockChunks
		ok := true
		for i := 0; i < 1500 && stop == nil && ok; i++ {
			time.Sleep(2 * time.Millisecond)
			for _, m := range req.take() {
				switch x := m.(type) {
				case *message.GetHashByNo:
					ok = ok && recvGuard(sy, &message.GetHashByNoRsp{Seq: seq, BlockHash: remote.hashAt(x.BlockNo)})
				case *message.FinderResult:
					ok = ok && recvGuard(sy, x)
				case *message.GetHashes:
					rsp := &message.GetHashesRsp{Seq: seq, PrevInfo: x.PrevInfo}
					for k := uint64(1); k <= x.Count; k++ {
						rsp.Hashes = append(rsp.Hashes, message.BlockHash(remote.hashAt(x.PrevInfo.No+k)))
					}
					rsp.Count = uint64(len(rsp.Hashes))
					ok = ok && recvGuard(sy, rsp)
				case *message.GetBlockChunks:
					unanswered = append(unanswered, x) // the peer is slow
				case *message.CloseFetcher:
					ok = ok && recvGuard(sy, x)
				case *message.SyncStop:
					stop = x
				}
			}
		}
		syncer.VerifC17SetTimers(oldTick, oldHash)
		if !ok {
			run.Fail("the syncer actor did not return from Receive while a session was being set up", map[string]interface{}{"variant": variant})
			return
		}
		if stop == nil || stop.Err != syncer.ErrAllPeerBad || len(unanswered) < 3 {
			why := "no-stop"
			if stop != nil {
				why = fmt.Sprintf("stop=%v unanswered=%d", stop.Err, len(unanswered))
			}
			run.Count("late-block-reply:setup-failed:" + why)
			continue
		}
		// the late answers, oldest first; the fetcher's SyncStop is behind them in the mailbox
		n := 2 // capacity of responseCh with one task
		if variant == "one-more-than-buffer" {
			n = 3
		}
		blocked := false
		for k := 0; k < n && k < len(unanswered); k++ {
			g := unanswered[k]
			var bs []*types.Block
			for _, h := range g.Hashes {
				bs = append(bs, remote.byHash[string(h)])
			}
			if !recvGuard(sy, &message.GetBlockChunksRsp{Seq: seq, ToWhom: g.ToWhom, Blocks: bs}) {
				blocked = true
				break
			}
		}
		if variant == "one-more-than-buffer" {
			if blocked {
				run.Count("hazard:late-block-reply-blocks-syncer-actor(fetch timeout below P2P's limit)")
			} else {
				run.Count("late-block-reply:one-more-than-buffer:returned")
			}
			continue
		}
		if blocked {
			run.Fail("the syncer actor is blocked in Receive by a late block reply although the reply buffer had room",
				map[string]interface{}{"variant": variant, "late_replies": n})
			return
		}
		if !recvGuard(sy, stop) {
			run.Fail("the syncer actor did not return from Receive(SyncStop) after the block fetcher had stopped: Reset does not return",
				map[string]interface{}{"variant": variant})
			return
		}
		f, h, b := sy.VerifC17HasParts()
		if sy.VerifC17IsRunning() || f || h || b {
			run.Fail("session not torn down by the block fetcher's own stop", map[string]interface{}{"variant": variant})
		}
		select {
		case e := <-notify:
			if e != syncer.ErrAllPeerBad {
				run.Fail("the session's result is not the error the block fetcher stopped with", map[string]interface{}{"variant": variant, "got": fmt.Sprint(e)})
			}
		default:
			run.Fail("no result notification after the stop", map[string]interface{}{"variant": variant})
		}
		sy.Receive(actorCtx{m: &message.SyncStart{PeerID: peerID(0), TargetNo: 8, NotifyC: notify}})
		if !sy.VerifC17IsRunning() || sy.Seq != seq+1 {
			run.Fail("a synchronisation could not be started after late block replies and the stop", map[string]interface{}{"variant": variant})
		}
		recvGuard(sy, &message.SyncStop{Seq: sy.Seq, FromWho: "test"})
		run.Count("late-block-reply:" + variant)
	}
}
