package main

import (
	"fmt"
	"sync"
	"time"

	"github.com/aergoio/aergo-actor/actor"
	"github.com/aergoio/aergo/v2/p2p"
	"github.com/aergoio/aergo/v2/p2p/p2pcommon"
	"github.com/aergoio/aergo/v2/p2p/p2putil"
	"github.com/aergoio/aergo/v2/pkg/component"
	"github.com/aergoio/aergo/v2/types"
	"github.com/aergoio/aergo/v2/types/message"
)

// The request path below the syncer, real code on both ends:
//
//	syncer --TellTo(P2PSvc)--> P2P.Receive (actorwork.go) --> AncestorReceiver / BlockHashByNoReceiver /
//	BlockHashesReceiver / BlocksChunkReceiver .StartGet --> remotePeerImpl.SendMessage --> SendTo (request
//	table) --> MsgReadWriter ==wire==> remotePeerImpl.handleMsg of the serving node --> sub-protocol request
//	handler (getAncestor: ChainSvc findAncestor; getHashByNo / getHashes / getBlocks: chain accessor) -->
//	response order ==wire==> handleMsg --> response handler --> GetReceiver --> receiver.ReceiveResp -->
//	P2P.TellRequest(SyncerSvc) --> hub --> Syncer.Receive
//
// The harness owns only the wire (two message queues per link, where replies can be lost or rewritten),
// the component hub's two foreign components (SyncerSvc of the requesting node: hands the message to the
// session's mailbox; ChainSvc of the serving node: the real findAncestor, or no answer in time) and the peer
// manager's table. One goroutine moves the messages (the peers' read and write loops run by hand).

type pipeRW struct {
	mu sync.Mutex
	q  []p2pcommon.Message
}

func (p *pipeRW) ReadMsg() (p2pcommon.Message, error) { select {} }
func (p *pipeRW) WriteMsg(m p2pcommon.Message) error {
	p.mu.Lock()
	p.q = append(p.q, m)
	p.mu.Unlock()
	return nil
}
func (p *pipeRW) Close() error                            { return nil }
func (p *pipeRW) AddIOListener(l p2pcommon.MsgIOListener) {}
func (p *pipeRW) take() []p2pcommon.Message {
	p.mu.Lock()
	defer p.mu.Unlock()
	q := p.q
	p.q = nil
	return q
}

type wirePM struct {
	p2pcommon.PeerManager
	mu    sync.Mutex
	peers map[types.PeerID]p2pcommon.RemotePeer
}

func (pm *wirePM) GetPeer(id types.PeerID) (p2pcommon.RemotePeer, bool) {
	pm.mu.Lock()
	defer pm.mu.Unlock()
	p, ok := pm.peers[id]
	return p, ok
}
func (pm *wirePM) MsgBufSize() int                   { return 256 }
func (pm *wirePM) RemovePeer(p2pcommon.RemotePeer)   {}
func (pm *wirePM) SelfMeta() p2pcommon.PeerMeta      { return p2pcommon.PeerMeta{} }
func (pm *wirePM) SelfNodeID() types.PeerID          { return types.PeerID("self") }
func (pm *wirePM) GetPeers() []p2pcommon.RemotePeer { return nil }

// wireComp: a component of another module in the hub.
type wireComp struct {
	component.IComponent
	name string
	hub  *component.ComponentHub
	tell func(m interface{})
	ask  func(m interface{}) (interface{}, bool) // false: no answer within the caller's time limit
}

func (c *wireComp) GetName() string                   { return c.name }
func (c *wireComp) SetHub(h *component.ComponentHub)  { c.hub = h }
func (c *wireComp) Hub() *component.ComponentHub      { return c.hub }
func (c *wireComp) Tell(m interface{})                { c.tell(m) }
func (c *wireComp) Request(m interface{}, _ *actor.PID) { c.tell(m) }
func (c *wireComp) RequestFuture(m interface{}, timeout time.Duration, tip string) *actor.Future {
	if c.ask != nil {
		if rsp, ok := c.ask(m); ok {
			f := actor.NewFuture(timeout)
			f.PID().Tell(rsp)
			return f
		}
	}
	return actor.NewFuture(time.Microsecond) // nobody answers: the future runs into its time limit
}

// wctx: the actor context P2P.Receive sees. A request told (not asked) has no sender: Respond goes nowhere.
type wctx struct {
	actor.Context
	m         interface{}
	responded *[]interface{}
}

func (c wctx) Message() interface{} { return c.m }
func (c wctx) Respond(r interface{}) {
	if c.responded != nil {
		*c.responded = append(*c.responded, r)
	}
}
func (c wctx) Sender() *actor.PID { return nil }

type wnode struct {
	id   types.PeerID
	p2ps *p2p.P2P
	pm   *wirePM
	hub  *component.ComponentHub
}

type wlink struct {
	near, far     p2pcommon.RemotePeer // near: the requesting node's object for the serving node; far: the reverse
	toFar, toNear *pipeRW
	farNode       *wnode
}

// wireFault decides the fate of one message on the wire. dir 0: request (near -> far), 1: response.
// Return drop, or a replacement body (nil: unchanged).
type wireFault func(dir int, peer types.PeerID, proto p2pcommon.SubProtocol, body p2pcommon.MessageBody) (drop bool, repl p2pcommon.MessageBody)

type wireNet struct {
	local     *wnode
	links     []*wlink
	mu        sync.Mutex
	fault     wireFault
	onSyncer  func(m interface{})
	chainBusy func(peer types.PeerID) bool // the serving node's chain service does not answer GetAncestor in time
	responded []interface{}
	stop      chan struct{}
	done      chan struct{}
	log       func(string, ...interface{})
	counts    map[string]int
	ancAsks   []string // per GetAncestor request of a serving P2P module to its chain service: "<answered> <found>"
	ancRsps   []string // per GetAncestorResponse put on the wire by a serving node: "<status class> <tok>/<no>"
}

// remoteSide: what a serving node answers from.
type remoteSide struct {
	ca           types.ChainAccessor
	findAncestor func([][]byte) (*types.BlockInfo, error)
}

func newWireNode(id types.PeerID, ca types.ChainAccessor, comps ...*wireComp) *wnode {
	n := &wnode{id: id, pm: &wirePM{peers: map[types.PeerID]p2pcommon.RemotePeer{}}, hub: component.NewComponentHub()}
	for _, c := range comps {
		n.hub.Register(c)
	}
	n.p2ps = p2p.VerifC17NewP2P(n.pm, ca, n.hub)
	return n
}

// newWireNet: one requesting node (the local chain accessor is only stored, the requesting side never reads
// it) and npeers serving nodes, every one answering from rs(i).
func newWireNet(localCA types.ChainAccessor, npeers int, rs func(i int) *remoteSide) *wireNet {
	w := &wireNet{stop: make(chan struct{}), done: make(chan struct{}), counts: map[string]int{}}
	w.local = newWireNode(types.PeerID("local"), localCA,
		&wireComp{name: message.SyncerSvc, tell: func(m interface{}) {
			w.mu.Lock()
			f := w.onSyncer
			w.mu.Unlock()
			if f != nil {
				f(m)
			}
		}},
		&wireComp{name: message.ChainSvc, tell: func(interface{}) {}})
	for i := 0; i < npeers; i++ {
		side := rs(i)
		pid := peerID(i)
		far := newWireNode(pid, side.ca,
			&wireComp{name: message.SyncerSvc, tell: func(interface{}) {}},
			&wireComp{name: message.ChainSvc, tell: func(interface{}) {}, ask: func(m interface{}) (interface{}, bool) {
				g, ok := m.(*message.GetAncestor)
				if !ok {
					return nil, false
				}
				w.mu.Lock()
				busy := w.chainBusy
				w.mu.Unlock()
				// ChainManager.Receive, case *message.GetAncestor (chain/chainservice.go)
				anc, err := side.findAncestor(g.Hashes)
				found := "nil"
				if err == nil && anc != nil {
					found = fmt.Sprintf("%d/%d", tok(anc.Hash), anc.No)
				}
				if busy != nil && busy(pid) {
					w.mu.Lock()
					w.ancAsks = append(w.ancAsks, "0 "+found)
					w.mu.Unlock()
					return nil, false
				}
				w.mu.Lock()
				w.ancAsks = append(w.ancAsks, "1 "+found)
				w.mu.Unlock()
				return message.GetAncestorRsp{Ancestor: anc, Err: err}, true
			}})
		l := &wlink{toFar: &pipeRW{}, toNear: &pipeRW{}, farNode: far}
		l.near = w.local.p2ps.VerifC17NewPeer(pid, l.toFar)
		l.far = far.p2ps.VerifC17NewPeer(w.local.id, l.toNear)
		w.local.pm.peers[pid] = l.near
		far.pm.peers[w.local.id] = l.far
		w.links = append(w.links, l)
	}
	return w
}

func (w *wireNet) set(onSyncer func(interface{}), fault wireFault, busy func(types.PeerID) bool, log func(string, ...interface{})) {
	w.mu.Lock()
	w.onSyncer, w.fault, w.chainBusy, w.log = onSyncer, fault, busy, log
	w.mu.Unlock()
}

// request: a message of the syncer for P2PSvc, handled by the real P2P.Receive on the caller's thread (the
// P2P actor); what goes on the wire is moved by the wire goroutine.
func (w *wireNet) request(m interface{}) {
	w.local.p2ps.Receive(wctx{m: m, responded: &w.responded})
}

func decodeBody(proto p2pcommon.SubProtocol, payload []byte) p2pcommon.MessageBody {
	var b p2pcommon.MessageBody
	switch proto {
	case p2pcommon.GetAncestorRequest:
		b = &types.GetAncestorRequest{}
	case p2pcommon.GetAncestorResponse:
		b = &types.GetAncestorResponse{}
	case p2pcommon.GetHashByNoRequest:
		b = &types.GetHashByNo{}
	case p2pcommon.GetHashByNoResponse:
		b = &types.GetHashByNoResponse{}
	case p2pcommon.GetHashesRequest:
		b = &types.GetHashesRequest{}
	case p2pcommon.GetHashesResponse:
		b = &types.GetHashesResponse{}
	case p2pcommon.GetBlocksRequest:
		b = &types.GetBlockRequest{}
	case p2pcommon.GetBlocksResponse:
		b = &types.GetBlockResponse{}
	default:
		return nil
	}
	if p2putil.UnmarshalMessageBody(payload, b) != nil {
		return nil
	}
	return b
}

func (w *wireNet) pass(dir int, l *wlink, m p2pcommon.Message) p2pcommon.Message {
	w.mu.Lock()
	f := w.fault
	w.counts["wire:"+m.Subprotocol().String()]++
	w.mu.Unlock()
	if f == nil {
		f = func(int, types.PeerID, p2pcommon.SubProtocol, p2pcommon.MessageBody) (bool, p2pcommon.MessageBody) { return false, nil }
	}
	body := decodeBody(m.Subprotocol(), m.Payload())
	if body == nil {
		return m
	}
	if r, ok := body.(*types.GetAncestorResponse); ok && dir == 1 {
		w.mu.Lock()
		w.ancRsps = append(w.ancRsps, fmt.Sprintf("%s %d/%d", statusClass(r.Status), tok(r.AncestorHash), r.AncestorNo))
		w.mu.Unlock()
	}
	drop, repl := f(dir, l.farNode.id, m.Subprotocol(), body)
	if drop {
		return nil
	}
	if repl != nil {
		bs, err := p2putil.MarshalMessageBody(repl)
		if err != nil {
			panic(err)
		}
		return p2pcommon.NewMessageValue(m.Subprotocol(), m.ID(), m.OriginalID(), m.Timestamp(), bs)
	}
	return m
}

// step moves everything that is queued once; returns how many messages moved.
func (w *wireNet) step() int {
	n := 0
	for _, l := range w.links {
		p2p.VerifC17Flush(l.near)
		for _, m := range l.toFar.take() {
			n++
			if m = w.pass(0, l, m); m != nil {
				if err := p2p.VerifC17Handle(l.far, m); err != nil && w.log != nil {
					w.log("serving node: %v", err)
				}
			}
		}
		p2p.VerifC17Flush(l.far)
		for _, m := range l.toNear.take() {
			n++
			if m = w.pass(1, l, m); m != nil {
				if err := p2p.VerifC17Handle(l.near, m); err != nil && w.log != nil {
					w.log("requesting node: %v", err)
				}
			}
		}
	}
	return n
}

func (w *wireNet) start() {
	go func() {
		defer close(w.done)
		for {
			select {
			case <-w.stop:
				return
			default:
			}
			if w.step() == 0 {
				time.Sleep(150 * time.Microsecond)
			}
		}
	}()
}

func (w *wireNet) close() {
	close(w.stop)
	<-w.done
}

// pendingRequests: entries left in the requesting node's request tables.
func (w *wireNet) pendingRequests() int {
	n := 0
	for _, l := range w.links {
		n += p2p.VerifC17Pending(l.near)
	}
	return n
}

// serveAncOps: the serving handler's answers seen on the wire, as model lines (called from the harness thread
// once the session's goroutines are done).
func (w *wireNet) serveAncOps(emit func(op, out string)) {
	w.mu.Lock()
	asks, rsps := w.ancAsks, w.ancRsps
	w.ancAsks, w.ancRsps = nil, nil
	w.mu.Unlock()
	for i := 0; i < len(asks) && i < len(rsps); i++ {
		emit("serveanc "+asks[i], rsps[i])
	}
}
