package main

import (
	"fmt"
	"sync"

	"github.com/aergoio/aergo/v2/p2p/p2pcommon"
	"github.com/aergoio/aergo/v2/types"
	"github.com/aergoio/aergo/v2/types/message"
	"github.com/aergoio/aergo/v2/zz_verif/vh"
)

// End-to-end sessions whose requests to the peers travel the real P2P request path (wire.go), with real
// chain DBs on both sides (side-branch blocks included) and a local main chain that may change while the
// session runs. Only the property is evaluated.

const (
	ancNone    = iota
	ancBusy    // the serving node's chain service does not answer its P2P module in time: the real handler answers ABORTED
	ancStatus  // the answer carries a failure status (INTERNAL) - a peer running other code, or rewritten on the way
	ancLost    // the answer is lost
	ancUnknown // the peer has left the peer table: actorwork answers the (absent) sender
)

const (
	hbnNone = iota
	hbnNotFound
	hbnInternal
	hbnLost
)

const (
	hsNone = iota
	hsStatus
	hsTooMany
	hsWrongLen
	hsEmpty
	hsLost
	hsMore // HasNext set on the only part: the receiver waits for a part that never comes
)

type wireCfg struct {
	anc       int
	hbn       int
	hbnAt     int
	hs        int
	hsAt      int
	remoteSd  int // the remote DB also stores this many blocks of the local branch (above the fork point) as side-branch blocks
	localSd   int // the local DB also stores this many blocks of the remote branch as side-branch blocks
	swapAt    int // pump step at which the local main chain changes (-1: never)
	swapKind  int // 1: the own branch grows by 2 blocks, 2: reorganisation onto the remote branch (up to L+1)
	blkFaults bool
}

func (c *wireCfg) String() string {
	return fmt.Sprintf("anc=%d hbn=%d@%d hs=%d@%d remoteSide=%d localSide=%d swap=%d@%d blkFaults=%v", c.anc, c.hbn, c.hbnAt, c.hs, c.hsAt, c.remoteSd, c.localSd, c.swapKind, c.swapAt, c.blkFaults)
}

// wireSession installs the session's mailbox hook and the faults of the scenario on the wire.
func (env *e2eEnv) wireSession(sc *e2eScenario, faults bool, rng *vh.Rng, res *e2eResult, mu *sync.Mutex, logf func(string, ...interface{}), toSyncer func(m interface{})) {
	cfg := sc.wire
	var fmu sync.Mutex
	hbnNo, hsNo := 0, 0
	frng := vh.NewRng(sc.seed ^ 0x77697265)
	onSyncer := func(m interface{}) {
		if r, ok := m.(*message.GetSyncAncestorRsp); ok {
			mu.Lock()
			if r.Ancestor == nil {
				res.light = append(res.light, "nil")
			} else {
				res.light = append(res.light, fmt.Sprint(r.Ancestor.No))
			}
			mu.Unlock()
		}
		toSyncer(m)
	}
	var fault wireFault
	var busy func(types.PeerID) bool
	if faults {
		busy = func(types.PeerID) bool {
			if cfg.anc == ancBusy {
				logf("serving node: chain service does not answer GetAncestor in time")
				mu.Lock()
				res.ancFailed = true
				mu.Unlock()
				return true
			}
			return false
		}
		fault = func(dir int, peer types.PeerID, proto p2pcommon.SubProtocol, body p2pcommon.MessageBody) (bool, p2pcommon.MessageBody) {
			fmu.Lock()
			defer fmu.Unlock()
			if dir == 0 {
				return false, nil
			}
			switch b := body.(type) {
			case *types.GetAncestorResponse:
				switch cfg.anc {
				case ancStatus:
					logf("ancestor answer: status INTERNAL")
					mu.Lock()
					res.ancFailed = true
					mu.Unlock()
					return false, &types.GetAncestorResponse{Status: types.ResultStatus_INTERNAL}
				case ancLost:
					logf("ancestor answer lost")
					return true, nil
				}
			case *types.GetHashByNoResponse:
				hbnNo++
				if cfg.hbn != hbnNone && hbnNo == cfg.hbnAt {
					logf("hash-by-no answer %d: fault %d", hbnNo, cfg.hbn)
					mu.Lock()
					res.hbnFailed = true
					mu.Unlock()
					switch cfg.hbn {
					case hbnNotFound:
						return false, &types.GetHashByNoResponse{Status: types.ResultStatus_NOT_FOUND}
					case hbnInternal:
						return false, &types.GetHashByNoResponse{Status: types.ResultStatus_INTERNAL}
					case hbnLost:
						return true, nil
					}
				}
			case *types.GetHashesResponse:
				hsNo++
				if cfg.hs != hsNone && hsNo == cfg.hsAt {
					logf("hashes answer %d: fault %d", hsNo, cfg.hs)
					switch cfg.hs {
					case hsStatus:
						return false, &types.GetHashesResponse{Status: types.ResultStatus_INTERNAL}
					case hsTooMany:
						return false, &types.GetHashesResponse{Status: b.Status, Hashes: append(append([][]byte{}, b.Hashes...), env.alt.hashAt(1)), HasNext: b.HasNext}
					case hsWrongLen:
						hs := append([][]byte{}, b.Hashes...)
						if len(hs) > 0 {
							hs[len(hs)-1] = hs[len(hs)-1][:31]
						}
						return false, &types.GetHashesResponse{Status: b.Status, Hashes: hs, HasNext: b.HasNext}
					case hsEmpty:
						return false, &types.GetHashesResponse{Status: types.ResultStatus_OK}
					case hsLost:
						return true, nil
					case hsMore:
						return false, &types.GetHashesResponse{Status: b.Status, Hashes: b.Hashes, HasNext: true}
					}
				}
			case *types.GetBlockResponse:
				if cfg.blkFaults && frng.Intn(100) < sc.faultPct {
					k := frng.Intn(5)
					logf("block answer from %s: fault %d", peer, k)
					switch k {
					case 0:
						return true, nil
					case 1:
						return false, &types.GetBlockResponse{Status: types.ResultStatus_INTERNAL}
					case 2:
						if len(b.Blocks) >= 2 {
							bs := append([]*types.Block{}, b.Blocks...)
							bs[0], bs[1] = bs[1], bs[0]
							return false, &types.GetBlockResponse{Status: b.Status, Blocks: bs, HasNext: b.HasNext}
						}
					case 3:
						if len(b.Blocks) >= 1 {
							return false, &types.GetBlockResponse{Status: b.Status, Blocks: b.Blocks[:len(b.Blocks)-1], HasNext: false}
						}
					case 4:
						if len(b.Blocks) >= 1 {
							bs := append([]*types.Block{}, b.Blocks...)
							j := frng.Intn(len(bs))
							if no := bs[j].GetHeader().GetBlockNo(); no < uint64(len(env.alt.blocks)) {
								bs[j] = env.alt.blocks[no]
							}
							return false, &types.GetBlockResponse{Status: b.Status, Blocks: bs, HasNext: b.HasNext}
						}
					}
				}
			}
			return false, nil
		}
	}
	// the peer that left the table is back for the later, fault-free session
	pm := env.wire.local.pm
	pm.mu.Lock()
	if faults && cfg.anc == ancUnknown {
		delete(pm.peers, peerID(0))
	} else {
		pm.peers[peerID(0)] = env.wire.links[0].near
	}
	pm.mu.Unlock()
	env.wire.set(onSyncer, fault, busy, logf)
}

// setupWire: real chain DBs with side-branch blocks on both sides and the P2P nodes on top of them.
func (env *e2eEnv) setupWire(sc *e2eScenario, local, remote *chainT) {
	cfg := sc.wire
	env.local.useDB = true
	_, ldb := env.local.get()
	for i := 1; i <= cfg.localSd && sc.F+i < len(remote.blocks); i++ {
		if err := ldb.cs.VerifC17AddSide(remote.blocks[sc.F+i]); err != nil {
			panic(err)
		}
	}
	rdb := newDBChain(remote)
	for i := 1; i <= cfg.remoteSd && sc.F+i < len(local.blocks); i++ {
		if err := rdb.cs.VerifC17AddSide(local.blocks[sc.F+i]); err != nil {
			panic(err)
		}
	}
	env.wire = newWireNet(env.local, sc.npeers, func(i int) *remoteSide {
		return &remoteSide{ca: rdb.cs, findAncestor: rdb.cs.VerifC17FindAncestor}
	})
	env.wire.start()
}

func genWire(rng *vh.Rng, long bool) *e2eScenario {
	sc := &e2eScenario{addErrAt: -1, stopAt: -1, seed: rng.Next()}
	w := &wireCfg{swapAt: -1}
	sc.wire = w
	if long {
		// the anchor window (32 anchors, 16 apart) does not reach the genesis block
		sc.L = 497 + rng.Intn(60)
		la := sc.L - 496
		switch rng.Intn(4) {
		case 0: // fork below the lowest anchor: the quick comparison finds none
			sc.F = rng.Intn(la)
		case 1: // fork right at / around the lowest anchor
			sc.F = la - 1 + rng.Intn(3)
		default:
			sc.F = la + rng.Intn(sc.L-la+1)
		}
	} else {
		sc.L = rng.Intn(40)
		sc.F = rng.Intn(sc.L + 1)
	}
	sc.R = sc.L + 1 + rng.Intn(14)
	sc.npeers = 1 + rng.Intn(4)
	sc.hashReq = 1 + rng.Intn(6)
	sc.fetchSize = 1 + rng.Intn(4)
	sc.pendConn = 1 + rng.Intn(4)
	sc.tasks = 1 + rng.Intn(4)
	if long && sc.F < sc.L-30 {
		// many blocks to fetch: larger requests keep the run short
		sc.hashReq, sc.fetchSize, sc.pendConn, sc.tasks = 40+rng.Intn(80), 10+rng.Intn(30), 2+rng.Intn(6), 2+rng.Intn(4)
	}
	sc.fullOnly = rng.Intn(5) == 0
	if rng.Intn(2) == 0 {
		w.anc = rng.Intn(5)
	}
	if rng.Intn(3) == 0 {
		w.hbn, w.hbnAt = 1+rng.Intn(3), 1+rng.Intn(6)
	}
	if rng.Intn(3) == 0 {
		w.hs, w.hsAt = 1+rng.Intn(6), 1+rng.Intn(3)
	}
	if rng.Intn(2) == 0 {
		w.remoteSd = 1 + rng.Intn(40)
	}
	if rng.Intn(3) == 0 {
		w.localSd = 1 + rng.Intn(6)
	}
	if rng.Intn(4) == 0 {
		w.swapAt, w.swapKind = 1+rng.Intn(12), 1+rng.Intn(2)
	}
	if rng.Intn(2) == 0 {
		w.blkFaults = true
		sc.faultPct = 10 + 20*rng.Intn(2)
	}
	return sc
}

func wireRuns(run *vh.Run, n int) {
	rng := run.Rng
	// scripted first: the three transport failures of the ancestor exchange on a chain longer than the anchor window,
	// with the fork point above the lowest anchor (an anchor IS shared)
	for _, anc := range []int{ancBusy, ancStatus, ancUnknown, ancLost, ancNone} {
		sc := &e2eScenario{addErrAt: -1, stopAt: -1, seed: rng.Next(), L: 520, F: 515, R: 524, npeers: 2, hashReq: 50, fetchSize: 20, pendConn: 4, tasks: 3,
			wire: &wireCfg{anc: anc, swapAt: -1, remoteSd: 3}}
		runE2E(run, sc, 5000+anc)
		run.Count("wire:scripted")
	}
	// the full scan with a failed probe at a height that IS shared (the search must not take it for "different")
	for k, hbn := range []int{hbnNotFound, hbnInternal, hbnLost} {
		runE2E(run, &e2eScenario{addErrAt: -1, stopAt: -1, seed: rng.Next(), L: 30, F: 20 + k, R: 34, npeers: 2, hashReq: 5, fetchSize: 3, pendConn: 2, tasks: 2, fullOnly: true,
			wire: &wireCfg{hbn: hbn, hbnAt: 1 + k%2, swapAt: -1}}, 5200+k)
		run.Count("wire:scripted")
	}
	// fault-free, the highest shared anchor is far down the anchor list (18th of 32); the remote stores the local branch as a side branch
	runE2E(run, &e2eScenario{addErrAt: -1, stopAt: -1, seed: rng.Next(), L: 520, F: 250, R: 523, npeers: 2, hashReq: 100, fetchSize: 40, pendConn: 4, tasks: 3,
		wire: &wireCfg{swapAt: -1, remoteSd: 60}}, 5100)
	run.Count("wire:scripted")
	for i := 0; i < n && e2eFails < 3; i++ {
		sc := genWire(rng, i%3 == 0)
		runE2E(run, sc, 6000+i)
		run.Count("wire:random")
	}
	// stop requests while requests are under way in P2P: at every step of one fault-free scenario (thorough), at a few (quick)
	sc := genWire(rng, false)
	sc.wire = &wireCfg{swapAt: -1, remoteSd: sc.wire.remoteSd}
	sc.faultPct, sc.fullOnly = 0, false
	steps := runE2E(run, sc, 7000)
	for st := 1; st <= steps+1 && e2eFails < 3; st++ {
		if !run.Thorough() && st > 3 && st%7 != 0 {
			continue
		}
		c := *sc
		c.stopAt = st
		runE2E(run, &c, 7000)
		run.Count("wire:stop-injected")
	}
}
