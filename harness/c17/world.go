package main

import (
	"encoding/hex"
	"fmt"
	"strconv"
	"strings"
	"sync"
	"time"

	"github.com/aergoio/aergo/v2/types"
	"github.com/aergoio/aergo/v2/types/message"
)

// ---------------------------------------------------------------------------------------------
// hash tokens: the model sees block ids as small numbers (equal token <=> equal bytes).

type tokens struct {
	mu sync.Mutex
	m  map[string]int
}

var toks = &tokens{m: map[string]int{}}

func tok(h []byte) int {
	if len(h) == 0 {
		return 0
	}
	toks.mu.Lock()
	defer toks.mu.Unlock()
	k := string(h)
	if t, ok := toks.m[k]; ok {
		return t
	}
	t := len(toks.m) + 1
	toks.m[k] = t
	return t
}

func tokList(hs [][]byte) string {
	if len(hs) == 0 {
		return "-"
	}
	s := make([]string, len(hs))
	for i, h := range hs {
		s[i] = strconv.Itoa(tok(h))
	}
	return strings.Join(s, ",")
}

func hashesOf(hs []message.BlockHash) [][]byte {
	out := make([][]byte, len(hs))
	for i, h := range hs {
		out[i] = []byte(h)
	}
	return out
}

func blkTok(b *types.Block) string {
	if b == nil {
		return "-"
	}
	return fmt.Sprintf("%d/%d/%d", tok(b.GetHash()), tok(b.GetHeader().GetPrevBlockHash()), b.GetHeader().GetBlockNo())
}

func blksTok(bs []*types.Block) string {
	if len(bs) == 0 {
		return "-"
	}
	s := make([]string, len(bs))
	for i, b := range bs {
		s[i] = blkTok(b)
	}
	return strings.Join(s, ",")
}

func hx(b []byte) string { return hex.EncodeToString(b) }

// ---------------------------------------------------------------------------------------------
// blocks and chains

var blockSalt int64

// mkBlock builds a real block (real header, real computed id) on top of prev.
func mkBlock(prev *types.Block, no uint64, salt int64) *types.Block {
	var ph []byte
	if prev != nil {
		ph = prev.BlockHash()
	}
	blockSalt++
	b := types.NewBlock(&types.BlockHeaderInfo{No: no, Ts: salt*1000003 + blockSalt, PrevBlockHash: ph, ChainId: []byte("c17")}, nil, nil, nil, nil, nil)
	b.BlockHash()
	return b
}

// chainT is a main chain: blocks[i] has height i.
type chainT struct {
	blocks []*types.Block
	byHash map[string]*types.Block
}

func (c *chainT) best() uint64 { return uint64(len(c.blocks) - 1) }

func (c *chainT) add(b *types.Block) {
	c.blocks = append(c.blocks, b)
	if c.byHash == nil {
		c.byHash = map[string]*types.Block{}
	}
	c.byHash[string(b.GetHash())] = b
}

// newChain: common prefix of `from` up to height fork (fork < 0: nothing shared, own genesis), then own blocks up to best.
func newChain(from *chainT, fork int, best int, salt int64) *chainT {
	c := &chainT{}
	for i := 0; i <= fork && from != nil && i < len(from.blocks); i++ {
		c.add(from.blocks[i])
	}
	for len(c.blocks) <= best {
		var prev *types.Block
		if len(c.blocks) > 0 {
			prev = c.blocks[len(c.blocks)-1]
		}
		c.add(mkBlock(prev, uint64(len(c.blocks)), salt))
	}
	return c
}

func (c *chainT) hashAt(no uint64) []byte {
	if no >= uint64(len(c.blocks)) {
		return nil
	}
	return c.blocks[no].GetHash()
}

// same reports whether both chains have the same block at height no.
func sameAt(a, b *chainT, no uint64) bool {
	x, y := a.hashAt(no), b.hashAt(no)
	return x != nil && y != nil && string(x) == string(y)
}

// ---------------------------------------------------------------------------------------------
// a recording requester for the synchronous parts

type recReq struct {
	mu     sync.Mutex
	outs   []interface{}
	future func(msg interface{}) (interface{}, error)
	onTell func(target string, msg interface{})
}

func (r *recReq) TellTo(target string, msg interface{}) {
	r.mu.Lock()
	r.outs = append(r.outs, msg)
	f := r.onTell
	r.mu.Unlock()
	if f != nil {
		f(target, msg)
	}
}
func (r *recReq) RequestTo(target string, msg interface{}) { r.TellTo(target, msg) }
func (r *recReq) RequestToFutureResult(target string, msg interface{}, timeout time.Duration, tip string) (interface{}, error) {
	if r.future != nil {
		return r.future(msg)
	}
	return nil, errStub
}
func (r *recReq) take() []interface{} {
	r.mu.Lock()
	defer r.mu.Unlock()
	o := r.outs
	r.outs = nil
	return o
}

type stubErr string

func (e stubErr) Error() string { return string(e) }

var errStub = stubErr("c17 stub error")
var errLocal = stubErr("c17 local hash missing")

func peerID(i int) types.PeerID { return types.PeerID(fmt.Sprintf("peer-%d", i)) }

func peerNoOf(id types.PeerID) int {
	s := string(id)
	if strings.HasPrefix(s, "peer-") {
		if n, err := strconv.Atoi(s[5:]); err == nil {
			return n
		}
	}
	return 999
}

func peersRsp(n int) *message.GetPeersRsp {
	rsp := &message.GetPeersRsp{}
	for i := 0; i < n; i++ {
		rsp.Peers = append(rsp.Peers, &message.PeerInfo{Addr: &types.PeerAddress{PeerID: []byte(peerID(i))}, State: types.RUNNING})
	}
	return rsp
}

// peersRspMixed: n running peers peer-0..n-1 with `extra` peers in other states in between.
func peersRspMixed(n, extra int) *message.GetPeersRsp {
	rsp := &message.GetPeersRsp{}
	states := []types.PeerState{types.STARTING, types.STOPPING, types.STOPPED, types.DOWN}
	for i := 0; i < n || extra > 0; i++ {
		if extra > 0 && (i%2 == 0 || i >= n) {
			extra--
			rsp.Peers = append(rsp.Peers, &message.PeerInfo{Addr: &types.PeerAddress{PeerID: []byte(peerID(90 + extra))}, State: states[extra%len(states)]})
		}
		if i < n {
			rsp.Peers = append(rsp.Peers, &message.PeerInfo{Addr: &types.PeerAddress{PeerID: []byte(peerID(i))}, State: types.RUNNING})
		}
	}
	return rsp
}

func b2i(b bool) int {
	if b {
		return 1
	}
	return 0
}
