// Harness c18: the real p2p wire codec (V030ReadWriter), the real handshake status checks
// (V200 / V033 checkRemoteStatus) and the real block identifier / block chunk receiver against the
// Lean model, with the property's own predicate as oracle.
package main

import (
	"bufio"
	"bytes"
	"encoding/binary"
	"encoding/hex"
	"errors"
	"fmt"
	"io"
	"runtime"
	"strings"
	"time"

	"github.com/aergoio/aergo-lib/log"
	"github.com/aergoio/aergo/v2/chain"
	"github.com/aergoio/aergo/v2/internal/network"
	"github.com/aergoio/aergo/v2/p2p"
	"github.com/aergoio/aergo/v2/p2p/p2pcommon"
	"github.com/aergoio/aergo/v2/p2p/p2pmock"
	"github.com/aergoio/aergo/v2/p2p/p2putil"
	v030 "github.com/aergoio/aergo/v2/p2p/v030"
	v200 "github.com/aergoio/aergo/v2/p2p/v200"
	"github.com/aergoio/aergo/v2/types"
	"github.com/aergoio/aergo/v2/types/message"
	"github.com/aergoio/aergo/v2/zz_verif/vh"
	"github.com/btcsuite/btcd/btcec/v2"
	"github.com/golang/mock/gomock"
	"github.com/libp2p/go-libp2p/core/crypto"
	"github.com/rs/zerolog"
)

const hdrLen = 48

func hx(b []byte) string {
	if len(b) == 0 {
		return "-"
	}
	return hex.EncodeToString(b)
}

// ---------------------------------------------------------------------------------------------
// Part 1: framing

// rawMsg implements p2pcommon.Message with an independent Length (the interface keeps them apart).
type rawMsg struct {
	sub     uint32
	length  uint32
	ts      int64
	id, org p2pcommon.MsgID
	payload []byte
}

func (m *rawMsg) Subprotocol() p2pcommon.SubProtocol { return p2pcommon.SubProtocol(m.sub) }
func (m *rawMsg) Length() uint32                     { return m.length }
func (m *rawMsg) Timestamp() int64                   { return m.ts }
func (m *rawMsg) ID() p2pcommon.MsgID                { return m.id }
func (m *rawMsg) OriginalID() p2pcommon.MsgID        { return m.org }
func (m *rawMsg) Payload() []byte                    { return m.payload }

func showMsg(m p2pcommon.Message) string {
	id, org := m.ID(), m.OriginalID()
	return fmt.Sprintf("%d %d %d %s %s %s", m.Subprotocol().Uint32(), m.Length(), uint64(m.Timestamp()), hx(id[:]), hx(org[:]), hx(m.Payload()))
}

// countingReader delivers data then io.EOF and records what it was asked for.
type countingReader struct {
	data      []byte
	pos       int
	chunk     func() int // nil = as much as asked
	reqs      []int      // len(p) of every Read
	posAt     []int      // stream position when the request came
	hitEOF    bool
	delivered int
}

func (c *countingReader) Read(p []byte) (int, error) {
	if len(c.reqs) < cap(c.reqs) {
		c.reqs = append(c.reqs, len(p))
		c.posAt = append(c.posAt, c.pos)
	}
	if c.pos >= len(c.data) {
		c.hitEOF = true
		return 0, io.EOF
	}
	n := len(p)
	if c.chunk != nil {
		if k := c.chunk(); k < n {
			n = k
		}
	}
	if n > len(c.data)-c.pos {
		n = len(c.data) - c.pos
	}
	copy(p, c.data[c.pos:c.pos+n])
	c.pos += n
	c.delivered += n
	return n, nil
}

type nopCloser struct{}

func (nopCloser) Close() error { return nil }

// failWriter: a link that takes `after` more bytes, then fails (a short write always comes with an error, as io.Writer
// requires: bufio.Writer spins on a writer that returns (0, nil)). got = what the link received.
type failWriter struct {
	after int
	got   []byte
}

func (f *failWriter) Write(p []byte) (int, error) {
	if f.after >= len(p) {
		f.after -= len(p)
		f.got = append(f.got, p...)
		return len(p), nil
	}
	n := f.after
	f.after = 0
	f.got = append(f.got, p[:n]...)
	return n, errors.New("link down")
}

type readResult struct {
	line     string // canonical answer
	ok       bool
	msg      p2pcommon.Message
	consumed int // bytes the codec took from the stream (ok only: header + payload)
	panicked bool
	memDelta uint64
	maxReq   int
	under    int // bytes pulled from the underlying reader
}

func totalAlloc() uint64 {
	var ms runtime.MemStats
	runtime.ReadMemStats(&ms)
	return ms.TotalAlloc
}

// readOnce runs the real ReadMsg on stream. mode 0: bufio of 16 bytes, reader gives what is asked (so that the
// payload request length is visible to the reader); mode 1: default bufio; mode 2: default bufio, reader delivers
// random small chunks; mode 3: 16-byte bufio, chunks.
func readOnce(stream []byte, mode int, rng *vh.Rng, measure bool) readResult {
	cr := &countingReader{data: stream, reqs: make([]int, 0, 64), posAt: make([]int, 0, 64)}
	if mode >= 2 {
		cr.chunk = func() int { return 1 + rng.Intn(23) }
	}
	var br *bufio.Reader
	if mode == 0 || mode == 3 {
		br = bufio.NewReaderSize(cr, 16)
	} else {
		br = bufio.NewReader(cr)
	}
	rw := v030.NewV030ReadWriter(br, io.Discard, nopCloser{})
	var res readResult
	var msg p2pcommon.Message
	var err error
	var before uint64
	if measure {
		before = totalAlloc()
	}
	_, res.panicked = vh.Guard(func() string {
		msg, err = rw.ReadMsg()
		return ""
	})
	if measure {
		res.memDelta = totalAlloc() - before
	}
	res.under = cr.delivered
	declared := -1
	if len(stream) >= hdrLen {
		declared = int(binary.BigEndian.Uint32(stream[4:8]))
	}
	for i, r := range cr.reqs {
		if cr.posAt[i] >= hdrLen && r > res.maxReq {
			res.maxReq = r
		}
	}
	switch {
	case res.panicked:
		res.line = "panic"
	case err == nil && msg != nil:
		res.ok = true
		res.msg = msg
		res.consumed = hdrLen + len(msg.Payload())
		rest := len(stream) - res.consumed
		// allocation: the payload length; a buffer of larger capacity counts only once it exceeds the configured maximum (a
		// pooled or rounded-up buffer within the limit is within the property)
		alloc := len(msg.Payload())
		if cap(msg.Payload()) > int(p2pcommon.MaxPayloadLength) {
			alloc = cap(msg.Payload())
		}
		res.line = fmt.Sprintf("ok %s rest=%d alloc=%d", showMsg(msg), rest, alloc)
	case err == nil:
		res.line = "nil-nil"
	default:
		// classes without looking at the error text: the only way to fail without running into the end of
		// the stream is the size refusal; the end of the stream is inside the header iff the stream is shorter
		cls := "toobig"
		if cr.hitEOF {
			if len(stream) < hdrLen {
				cls = "eof"
			} else {
				cls = "short"
			}
		}
		alloc := 0
		if mode == 0 {
			// observed: the length of the buffer the codec asked the reader to fill after the header
			// (requests shorter than the 16-byte bufio buffer are served through that buffer: then the
			// declared length, which is < 16, is reported)
			if res.maxReq > 0 {
				alloc = res.maxReq
				if declared >= 0 && declared < 16 {
					alloc = declared
				}
			}
		} else if cls == "short" {
			alloc = declared
		}
		res.line = fmt.Sprintf("err %s alloc=%d", cls, alloc)
	}
	return res
}

var knownSubs = []uint32{1, 2, 3, 4, 5, 6, 7, 8, 9, 0x10, 0x11, 0x12, 0x13, 0x16, 0x17, 0x18, 0x19, 0x1a, 0x1b, 0x1c, 0x20, 0x21, 0x22, 0x30,
	0x3101, 0x3102, 0x3103}

func pickSub(rng *vh.Rng) uint32 {
	switch rng.Intn(10) {
	case 0:
		return []uint32{0, 0x14, 0x15, 0xffffffff, 0x80000000, 0x3100}[rng.Intn(6)]
	case 1:
		return uint32(rng.Next())
	default:
		return knownSubs[rng.Intn(len(knownSubs))]
	}
}

func pickTs(rng *vh.Rng) int64 {
	switch rng.Intn(6) {
	case 0:
		return 0
	case 1:
		return -1
	case 2:
		return int64(-1 << 63)
	case 3:
		return int64(1<<63 - 1)
	default:
		return int64(rng.Next())
	}
}

func pickID(rng *vh.Rng) (id p2pcommon.MsgID) {
	switch rng.Intn(5) {
	case 0:
	case 1:
		for i := range id {
			id[i] = 0xff
		}
	default:
		copy(id[:], rng.Bytes(16))
	}
	return
}

type framer struct {
	run  *vh.Run
	rng  *vh.Rng
	wbuf bytes.Buffer
	w    *v030.V030ReadWriter // one long-lived writer: its header buffer is reused from message to message
	// set once the real code was seen to allocate/read beyond the limit: later streams declaring more than 1 MiB are
	// skipped (a tree without the bound would otherwise spend the whole run zeroing gigabytes)
	degraded bool
}

func newFramer(run *vh.Run) *framer {
	f := &framer{run: run, rng: run.Rng}
	f.w = v030.NewV030ReadWriter(bytes.NewReader(nil), &f.wbuf, nopCloser{})
	return f
}

func setMax(max uint32) { p2pcommon.MaxPayloadLength = max }

// write runs the real WriteMsg, records the op, applies the round-trip oracle; returns the emitted bytes.
func (f *framer) write(max uint32, m *rawMsg) []byte {
	setMax(max)
	f.wbuf.Reset()
	var err error
	_, panicked := vh.Guard(func() string { err = f.w.WriteMsg(m); return "" })
	op := fmt.Sprintf("write %d %d %d %d %s %s %s", max, m.sub, m.length, uint64(m.ts), hx(m.id[:]), hx(m.org[:]), hx(m.payload))
	out := append([]byte{}, f.wbuf.Bytes()...)
	replay := map[string]interface{}{"op": op}
	switch {
	case panicked:
		f.run.Op(op, "panic", false)
		f.run.Fail("WriteMsg panicked", replay)
		return nil
	case err != nil:
		cls := "err toobig"
		if m.length != uint32(len(m.payload)) {
			cls = "err mismatch"
		}
		f.run.Op(op, cls, true)
		f.run.Count("write-" + cls[4:])
		if len(out) != 0 {
			f.run.Fail("WriteMsg refused the message but emitted bytes", replay)
		}
		return nil
	}
	f.run.Op(op, "ok "+hx(out), true)
	f.run.Count("write-ok")
	// oracle: what one node wrote, another node reads back identically (same limit on both sides)
	r := readOnce(out, 1, f.rng, false)
	same := r.ok && r.consumed == len(out) && showMsg(r.msg) == showMsg(m) && r.msg.Length() == uint32(len(r.msg.Payload()))
	if !same {
		replay["readback"] = r.line
		f.run.Fail("a message accepted by WriteMsg is not read back identically by ReadMsg", replay)
	}
	return out
}

// read records one `read` op (mode 0) and applies the stream oracles; the same stream through the other reader
// configurations must give the same canonical result.
func (f *framer) read(max uint32, stream []byte, kind string, variants bool) readResult {
	setMax(max)
	if f.degraded && len(stream) >= hdrLen && binary.BigEndian.Uint32(stream[4:8]) > 1<<20 {
		f.run.Count("read-skipped-large-after-bound-failure")
		return readResult{}
	}
	op := fmt.Sprintf("read %d %s", max, hx(stream))
	r := readOnce(stream, 0, f.rng, true)
	replay := map[string]interface{}{"op": op, "kind": kind, "impl": r.line}
	f.run.Op(op, r.line, r.ok || len(stream) >= hdrLen)
	f.run.Count("read-" + kind)
	if r.ok {
		f.run.Count("read=ok")
	} else {
		f.run.Count("read=" + strings.SplitN(r.line, " alloc=", 2)[0])
	}
	declared := int64(-1)
	if len(stream) >= hdrLen {
		declared = int64(binary.BigEndian.Uint32(stream[4:8]))
	}
	reported := false
	fail := func(what string) { // one report per stream: the first clause of the property it breaks
		if !reported {
			reported = true
			f.run.Fail(what, replay)
		}
	}
	if r.panicked {
		fail("ReadMsg panicked")
		return r
	}
	if r.line == "nil-nil" {
		fail("ReadMsg returned neither a message nor an error")
	}
	// never more than the configured maximum: the returned payload, the buffer the reader was asked to fill,
	// and the bytes allocated during the call
	if r.ok && (len(r.msg.Payload()) > int(max) || cap(r.msg.Payload()) > int(max)) {
		f.degraded = true
		fail("ReadMsg returned a payload larger than the configured maximum")
	}
	if r.maxReq > int(max) && r.maxReq > 16 {
		replay["requested"] = r.maxReq
		f.degraded = true
		fail("ReadMsg asked the stream to fill a buffer larger than the configured maximum")
	}
	const slack = 4096
	if r.memDelta > uint64(max)+slack {
		// re-measure (a concurrent runtime allocation would be noise): keep the smallest of three
		d := r.memDelta
		for i := 0; i < 2; i++ {
			if r2 := readOnce(stream, 0, f.rng, true); r2.memDelta < d {
				d = r2.memDelta
			}
		}
		if d > uint64(max)+slack {
			replay["allocated_bytes"] = d
			f.degraded = true
			fail("ReadMsg allocated more than the configured maximum payload")
		}
	}
	// oversized: error, before allocating or reading the payload
	if declared > int64(max) {
		if r.ok {
			f.degraded = true
			fail("ReadMsg accepted a frame whose declared length exceeds the maximum")
		}
		if r.maxReq > 0 {
			f.degraded = true
			fail("ReadMsg started reading the payload of an oversized frame")
		}
	}
	// truncated: clean error
	if declared >= 0 && declared <= int64(max) && int64(len(stream)) < hdrLen+declared && r.ok {
		fail("ReadMsg returned a message from a truncated frame")
	}
	if len(stream) < hdrLen && r.ok {
		fail("ReadMsg returned a message from a truncated header")
	}
	// a complete frame within the limit is delivered with exactly its bytes
	if declared >= 0 && declared <= int64(max) && int64(len(stream)) >= hdrLen+declared {
		if !r.ok {
			fail("ReadMsg rejected a complete frame within the limit")
		} else if !bytes.Equal(r.msg.Payload(), stream[hdrLen:hdrLen+int(declared)]) {
			fail("ReadMsg returned a payload that differs from the bytes on the wire")
		}
	}
	if variants {
		for mode := 1; mode <= 3; mode++ {
			rv := readOnce(stream, mode, f.rng, false)
			f.run.Eval("", false)
			a, b := r.line, rv.line
			// the allocation figure of an error is observed in mode 0 only
			if !r.ok {
				a, b = strings.SplitN(a, " alloc=", 2)[0], strings.SplitN(b, " alloc=", 2)[0]
			}
			if a != b {
				replay["mode"] = mode
				replay["variant"] = rv.line
				fail("ReadMsg result depends on how the transport chunks the same bytes")
			}
		}
	}
	return r
}

func (f *framer) readAll(max uint32, stream []byte) {
	setMax(max)
	cr := &countingReader{data: stream, reqs: make([]int, 0, 8)}
	rw := v030.NewV030ReadWriter(cr, io.Discard, nopCloser{})
	// every message stays alive (as a handler queue would hold it) until the connection ends and is rendered only then: a
	// codec that reuses the payload buffer or the message object for the next read changes an earlier message
	var held []p2pcommon.Message
	var early []string // what each message looked like right after its own ReadMsg
	maxAlloc := 0
	end := ""
	for end == "" {
		var msg p2pcommon.Message
		var err error
		_, panicked := vh.Guard(func() string { msg, err = rw.ReadMsg(); return "" })
		switch {
		case panicked:
			end = "panic"
		case err != nil:
			end = "toobig"
			if cr.hitEOF {
				end = "eofshort"
			}
		default:
			held = append(held, msg)
			early = append(early, showMsg(msg))
			a := len(msg.Payload())
			if cap(msg.Payload()) > int(max) {
				a = cap(msg.Payload())
			}
			if a > maxAlloc {
				maxAlloc = a
			}
		}
	}
	var msgs []string
	for _, m := range held {
		msgs = append(msgs, showMsg(m))
	}
	// which of eof / short: by the position of the last frame boundary (sum of what was delivered as messages)
	consumed := 0
	changed := -1
	for k, m := range held {
		// recompute from the stream: each delivered message consumed header + declared length
		d := int(binary.BigEndian.Uint32(stream[consumed+4 : consumed+8]))
		if changed < 0 && (msgs[k] != early[k] || !bytes.Equal(m.Payload(), stream[consumed+hdrLen:consumed+hdrLen+d])) {
			changed = k
		}
		consumed += hdrLen + d
	}
	if end == "eofshort" {
		if len(stream)-consumed < hdrLen {
			end = "eof"
		} else {
			end = "short"
			if d := int(binary.BigEndian.Uint32(stream[consumed+4 : consumed+8])); d > maxAlloc {
				maxAlloc = d
			}
		}
	}
	op := fmt.Sprintf("readall %d %s", max, hx(stream))
	line := fmt.Sprintf("n=%d end=%s maxalloc=%d %s", len(msgs), end, maxAlloc, strings.Join(msgs, "|"))
	f.run.Op(op, line, len(msgs) > 0)
	f.run.Count(fmt.Sprintf("readall-n=%d", min(len(msgs), 5)))
	if end == "panic" {
		f.run.Fail("ReadMsg panicked in a message sequence", map[string]interface{}{"op": op})
	}
	if maxAlloc > int(max) {
		f.run.Fail("ReadMsg allocated more than the maximum in a message sequence", map[string]interface{}{"op": op})
	}
	if changed >= 0 {
		f.run.Fail("a message read from the connection changed when later messages were read (it is no longer what was written)",
			map[string]interface{}{"op": op, "index": changed, "when_read": early[changed], "at_end_of_connection": msgs[changed]})
	}
}

func (f *framer) randomMsg(n int) *rawMsg {
	return &rawMsg{sub: pickSub(f.rng), length: uint32(n), ts: pickTs(f.rng), id: pickID(f.rng), org: pickID(f.rng), payload: f.rng.Bytes(n)}
}

func header(sub, length uint32, ts int64, id, org p2pcommon.MsgID) []byte {
	h := make([]byte, hdrLen)
	binary.BigEndian.PutUint32(h[0:4], sub)
	binary.BigEndian.PutUint32(h[4:8], length)
	binary.BigEndian.PutUint64(h[8:16], uint64(ts))
	copy(h[16:32], id[:])
	copy(h[32:48], org[:])
	return h
}

func framing(run *vh.Run) {
	f := newFramer(run)
	rng := run.Rng
	defaultMax := p2pcommon.MaxPayloadLength
	defer setMax(defaultMax)

	maxes := []uint32{0, 1, 15, 16, 17, 100, 255, 256, 1000}
	if run.Thorough() {
		maxes = append(maxes, 2, 31, 32, 33, 4095, 4096, 4097, 5000, 70000)
	} else {
		maxes = append(maxes, 4096, 5000)
	}
	// (a) every sub-protocol id x payload sizes around the limit: write, read back, read with trailing bytes
	for _, max := range maxes {
		sizes := map[int]bool{0: true, 1: true}
		for _, d := range []int{-2, -1, 0, 1, 2} {
			if s := int(max) + d; s >= 0 {
				sizes[s] = true
			}
		}
		sizes[int(max)/2] = true
		subs := knownSubs
		if max > 300 && !run.Thorough() {
			subs = []uint32{knownSubs[rng.Intn(len(knownSubs))], knownSubs[rng.Intn(len(knownSubs))], 0, 0xffffffff}
		}
		for n := range sizes {
			_ = n
		}
		var ordered []int
		for n := 0; n <= int(max)+2; n++ {
			if sizes[n] {
				ordered = append(ordered, n)
			}
		}
		for _, n := range ordered {
			for _, sub := range subs {
				m := f.randomMsg(n)
				m.sub = sub
				out := f.write(max, m)
				run.Count(fmt.Sprintf("size-vs-max=%+d", clamp(n-int(max), -3, 3)))
				if out != nil {
					tail := rng.Bytes(rng.Intn(4) * rng.Intn(30))
					f.read(max, append(append([]byte{}, out...), tail...), "valid+tail", n < 600)
				} else {
					// the frame a sender without the check would emit
					fr := append(header(m.sub, m.length, m.ts, m.id, m.org), m.payload...)
					f.read(max, fr, "oversized-complete", n < 600)
				}
			}
		}
	}
	// (a') random valid messages of random sizes
	for i := 0; i < run.Pick(10000, 60000); i++ {
		max := maxes[rng.Intn(len(maxes))]
		n := rng.Intn(int(min(max, 400)) + 1)
		out := f.write(max, f.randomMsg(n))
		tail := rng.Bytes(rng.Intn(3) * rng.Intn(60))
		f.read(max, append(append([]byte{}, out...), tail...), "valid+tail", i%4 == 0)
	}
	// (b) Length() that disagrees with len(Payload())
	for i := 0; i < run.Pick(1000, 6000); i++ {
		max := maxes[rng.Intn(len(maxes))]
		n := rng.Intn(int(min(max, 300)) + 3)
		m := f.randomMsg(n)
		switch rng.Intn(4) {
		case 0:
			m.length++
		case 1:
			if m.length > 0 {
				m.length--
			}
		case 2:
			m.length = uint32(rng.Next())
		default:
			m.length = uint32(rng.Intn(int(max) + 3))
		}
		f.write(max, m)
	}
	// (c) truncation at every offset of valid frames
	for i := 0; i < run.Pick(120, 900); i++ {
		max := []uint32{16, 17, 100, 256}[rng.Intn(4)]
		n := rng.Intn(int(min(max, 70)) + 1)
		if i%5 == 0 {
			n = int(min(max, 70))
		}
		out := f.write(max, f.randomMsg(n))
		for k := 0; k < len(out); k++ {
			f.read(max, out[:k], "truncated", run.Thorough() || k%7 == 0)
		}
	}
	// (d) hand-made headers: declared length around and far above the limit, payload present / partial / absent
	for i := 0; i < run.Pick(3000, 18000); i++ {
		max := maxes[rng.Intn(len(maxes))]
		var declared uint64
		switch rng.Intn(8) {
		case 0:
			declared = uint64(max) + 1
		case 1:
			declared = uint64(max) + 2
		case 2:
			declared = uint64(max)
		case 3:
			declared = uint64(max) * 2
		case 4:
			declared = []uint64{1 << 16, 1 << 20, 1 << 24, 1 << 27}[rng.Intn(4)]
		case 5:
			declared = []uint64{1 << 31, 1<<31 - 1, 1<<32 - 1, 1<<32 - 2}[rng.Intn(4)]
		case 6:
			declared = uint64(rng.Intn(int(max) + 1))
		default:
			declared = uint64(uint32(rng.Next()))
		}
		declared &= 0xffffffff
		avail := 0
		switch rng.Intn(4) {
		case 0:
		case 1:
			avail = int(min(declared, 2000))
		case 2:
			avail = rng.Intn(int(min(declared, 2000)) + 1)
		default:
			avail = int(min(declared, 2000)) + rng.Intn(5)
		}
		fr := append(header(pickSub(rng), uint32(declared), pickTs(rng), pickID(rng), pickID(rng)), rng.Bytes(avail)...)
		kind := "declared<=max"
		if declared > uint64(max) {
			kind = "declared>max"
		}
		f.read(max, fr, kind, true)
	}
	// (d') the production limit itself: header-only frames around it (no large allocation on the unchanged tree)
	for _, d := range []int64{-1, 0, 1, 2} {
		declared := uint32(int64(defaultMax) + d)
		fr := header(pickSub(rng), declared, pickTs(rng), pickID(rng), pickID(rng))
		f.read(defaultMax, fr, "production-limit", false)
	}
	// (e) random byte streams
	for i := 0; i < run.Pick(12000, 100000); i++ {
		max := maxes[rng.Intn(len(maxes))]
		n := rng.Intn(140)
		if rng.Chance(1, 10) {
			n = rng.Intn(600)
		}
		bs := rng.Bytes(n)
		if n >= 8 && rng.Chance(1, 2) { // make the length field small so that the payload phase is reached
			binary.BigEndian.PutUint32(bs[4:8], uint32(rng.Intn(int(max)+3)))
		}
		f.read(max, bs, "random", i%3 == 0)
	}
	// (f) sequences on one connection
	for i := 0; i < run.Pick(1200, 8000); i++ {
		max := []uint32{16, 100, 256, 1000}[rng.Intn(4)]
		var stream []byte
		k := rng.Intn(6)
		for j := 0; j < k; j++ {
			m := f.randomMsg(rng.Intn(int(min(max, 120)) + 1))
			setMax(max)
			f.wbuf.Reset()
			if err := f.w.WriteMsg(m); err != nil {
				panic(err)
			}
			stream = append(stream, f.wbuf.Bytes()...)
		}
		switch rng.Intn(4) {
		case 0:
		case 1:
			stream = append(stream, rng.Bytes(rng.Intn(47))...)
		case 2:
			stream = append(stream, header(pickSub(rng), max+1+uint32(rng.Intn(5)), 0, pickID(rng), pickID(rng))...)
			stream = append(stream, rng.Bytes(rng.Intn(20))...)
		default:
			d := 1 + rng.Intn(int(max))
			stream = append(stream, header(pickSub(rng), uint32(d), 0, pickID(rng), pickID(rng))...)
			stream = append(stream, rng.Bytes(rng.Intn(d))...)
		}
		f.readAll(max, stream)
	}
	// (g) a writer whose link fails after k bytes. Oracle: if WriteMsg reports success, the
	// link has received exactly the message's frame (so the other node reads it back identically); a failure must be
	// reported as an error, not as a panic
	for i := 0; i < run.Pick(400, 3000); i++ {
		setMax(5000)
		n := rng.Intn(5000)
		if rng.Chance(1, 3) {
			n = rng.Intn(60)
		}
		m := f.randomMsg(n)
		total := hdrLen + len(m.payload)
		fw := &failWriter{after: rng.Intn(total + 1)}
		if rng.Chance(1, 6) {
			fw.after = total + rng.Intn(10) // a healthy link
		}
		var w io.Writer = fw
		if rng.Chance(1, 4) {
			w = bufio.NewWriterSize(fw, 16+rng.Intn(200)) // the caller's own buffered writer is used as it is
		}
		rw := v030.NewV030ReadWriter(bytes.NewReader(nil), w, nopCloser{})
		var err error
		_, panicked := vh.Guard(func() string { err = rw.WriteMsg(m); return "" })
		run.Eval("", false)
		replay := map[string]interface{}{"message": showMsg(m), "link_got_bytes": len(fw.got)}
		switch {
		case panicked:
			run.Count("write-failing-link=panic")
			run.Fail("WriteMsg panicked on a failing link", replay)
		case err != nil:
			run.Count("write-failing-link=error")
			if fw.after >= total {
				run.Fail("WriteMsg failed although the link accepted every byte", replay)
			}
		default:
			run.Count("write-failing-link=ok")
			want := append(header(m.sub, m.length, m.ts, m.id, m.org), m.payload...)
			if !bytes.Equal(fw.got, want) {
				run.Fail("WriteMsg reported success but the link did not receive the message's frame", replay)
			} else if r := readOnce(fw.got, 1, f.rng, false); !r.ok || showMsg(r.msg) != showMsg(m) {
				run.Fail("a message accepted by WriteMsg is not read back identically by ReadMsg", replay)
			}
		}
	}
	// (h) the production limit, untouched: a message of exactly that size goes through both directions, one byte more is
	// refused by the writer and — as a complete frame — by the reader without reading or allocating the payload; and the
	// limit is the protocol's maximum message size (every legal block fits, nothing larger is buffered)
	setMax(defaultMax)
	if defaultMax < types.BlockSizeHardLimit() || defaultMax > types.MaxMessageSize() {
		run.Fail("the production payload limit is not between the block size hard limit and the protocol's maximum message size",
			map[string]interface{}{"MaxPayloadLength": defaultMax, "BlockSizeHardLimit": types.BlockSizeHardLimit(), "MaxMessageSize": types.MaxMessageSize()})
	}
	if defaultMax <= 64<<20 {
		for _, d := range []int{0, 1} {
			m := &rawMsg{sub: pickSub(rng), length: defaultMax + uint32(d), ts: pickTs(rng), id: pickID(rng), org: pickID(rng), payload: make([]byte, int(defaultMax)+d)}
			copy(m.payload, rng.Bytes(64))
			copy(m.payload[len(m.payload)-64:], rng.Bytes(64))
			f.wbuf.Reset()
			var err error
			_, panicked := vh.Guard(func() string { err = f.w.WriteMsg(m); return "" })
			run.Eval("", true)
			replay := map[string]interface{}{"payload_bytes": len(m.payload), "MaxPayloadLength": defaultMax}
			fr := append(header(m.sub, m.length, m.ts, m.id, m.org), m.payload...)
			r := readOnce(fr, 1, rng, true)
			switch {
			case panicked || r.panicked:
				run.Fail("the codec panicked at the production limit", replay)
			case d == 0 && (err != nil || !bytes.Equal(f.wbuf.Bytes(), fr)):
				run.Fail("WriteMsg does not emit a message of exactly the production limit", replay)
			case d == 0 && (!r.ok || !bytes.Equal(r.msg.Payload(), m.payload)):
				run.Fail("ReadMsg does not return a message of exactly the production limit", replay)
			case d == 1 && (err == nil || f.wbuf.Len() != 0):
				run.Fail("WriteMsg accepted a message above the production limit", replay)
			case d == 1 && (r.ok || r.under > hdrLen+4096 || r.memDelta > 1<<20):
				replay["read_from_stream"], replay["allocated"] = r.under, r.memDelta
				run.Fail("ReadMsg read or buffered the payload of a frame above the production limit", replay)
			}
			run.Count(fmt.Sprintf("production-limit%+d", d))
		}
		f.wbuf = bytes.Buffer{}
		f.w = v030.NewV030ReadWriter(bytes.NewReader(nil), &f.wbuf, nopCloser{})
	}
}

func clamp(x, lo, hi int) int {
	if x < lo {
		return lo
	}
	if x > hi {
		return hi
	}
	return x
}

// ---------------------------------------------------------------------------------------------
// Part 2: handshake status checks

type fakeVM struct {
	base  types.ChainID
	forks []uint64 // ascending; the era of a height = number of fork heights <= it
	// vers[k] = chain id version in era k (nil: base.Version + k)
	vers []int32
	// real, when set, answers GetChainID (the production ChainService.ChainID); expected stays the harness's own
	// computation from the configured fork heights, used by the oracle and for the op lines
	real func(no types.BlockNo) *types.ChainID
}

func (f *fakeVM) FindBestP2PVersion(versions []p2pcommon.P2PVersion) p2pcommon.P2PVersion {
	return p2pcommon.P2PVersionUnknown
}
func (f *fakeVM) GetVersionedHandshaker(version p2pcommon.P2PVersion, peerID types.PeerID, rwc io.ReadWriteCloser) (p2pcommon.VersionedHandshaker, error) {
	return nil, errors.New("not used")
}
func (f *fakeVM) GetBestChainID() *types.ChainID { return f.GetChainID(0) }
func (f *fakeVM) GetChainID(no types.BlockNo) *types.ChainID {
	if f.real != nil {
		return f.real(no)
	}
	return f.expected(no)
}

// expected: the node's chain id at a height, computed from the configured fork heights only.
func (f *fakeVM) expected(no types.BlockNo) *types.ChainID {
	cp := f.base
	era := 0
	for _, h := range f.forks {
		if h <= no {
			era++
		}
	}
	if f.vers != nil {
		cp.Version = f.vers[era]
	} else {
		cp.Version = f.base.Version + int32(era)
	}
	return &cp
}

type memPipe struct{ bytes.Buffer }

func (*memPipe) Close() error { return nil }

type bpKey struct {
	priv *btcec.PrivateKey
	id   types.PeerID
}

func newPeerID(rng *vh.Rng) types.PeerID {
	_, pub, err := crypto.GenerateSecp256k1Key(bytes.NewReader(rng.Bytes(64)))
	if err != nil {
		panic(err)
	}
	id, err := types.IDFromPublicKey(pub)
	if err != nil {
		panic(err)
	}
	return id
}

func newBP(rng *vh.Rng) bpKey {
	for {
		priv, pub := btcec.PrivKeyFromBytes(rng.Bytes(32))
		id, err := types.IDFromPublicKey(p2putil.ConvertPubToLibP2P(pub))
		if err == nil {
			return bpKey{priv, id}
		}
	}
}

func cloneStatus(s *types.Status) *types.Status {
	c := *s
	c.ChainID = append([]byte(nil), s.ChainID...)
	c.BestBlockHash = append([]byte(nil), s.BestBlockHash...)
	c.Genesis = append([]byte(nil), s.Genesis...)
	if s.Sender != nil {
		a := *s.Sender
		a.PeerID = append([]byte(nil), s.Sender.PeerID...)
		a.ProducerIDs = append([][]byte(nil), s.Sender.ProducerIDs...)
		a.Addresses = append([]string(nil), s.Sender.Addresses...)
		c.Sender = &a
	}
	c.Certificates = append([]*types.AgentCertificate(nil), s.Certificates...)
	return &c
}

// decodeChainID: the property's reading of "compatible chain identifier", written independently of ChainID.Read.
func decodeChainID(b []byte) (ok bool, ver int32, pub, main bool, magic, cons string) {
	if len(b) < 6 {
		return
	}
	rest := string(b[6:])
	if strings.Count(rest, "/") != 1 {
		return
	}
	i := strings.IndexByte(rest, '/')
	return true, int32(binary.LittleEndian.Uint32(b[0:4])), b[4] != 0, b[5] != 0, rest[:i], rest[i+1:]
}

func flipBytes(b []byte, rng *vh.Rng) []byte {
	c := append([]byte{}, b...)
	switch {
	case len(c) == 0:
		return []byte{byte(1 + rng.Intn(255))}
	case rng.Chance(1, 4):
		return c[:len(c)-1]
	case rng.Chance(1, 4):
		return append(c, byte(rng.Intn(256)))
	case rng.Chance(1, 6):
		return nil
	}
	c[rng.Intn(len(c))] ^= byte(1 << uint(rng.Intn(8)))
	return c
}

type hsCase struct {
	vm      *fakeVM
	peerID  types.PeerID
	genesis []byte
	st      *types.Status
}

var hsLogger *log.Logger

func hsRun(run *vh.Run, ver int, c hsCase, field string, single bool) bool {
	pipe := &memPipe{}
	var err error
	var no types.BlockNo
	var meta p2pcommon.PeerMeta
	_, panicked := vh.Guard(func() string {
		if ver == 200 {
			err, _, no, meta, _ = v200.VerifCheckRemoteStatus(c.vm, hsLogger, c.peerID, pipe, c.genesis, c.st)
		} else {
			err, _, no, meta = v030.VerifCheckRemoteStatusV033(c.vm, hsLogger, c.peerID, pipe, c.genesis, c.st)
		}
		return ""
	})
	_ = no
	_ = meta
	st := c.st
	local := c.vm.expected(st.BestHeight)
	var sb strings.Builder
	fmt.Fprintf(&sb, "hs %d %d %d %d %s %s %s %s %s %d %s %s", ver, uint32(local.Version), b2i(local.PublicNet), b2i(local.MainNet),
		hx([]byte(local.Magic)), hx([]byte(local.Consensus)), hx([]byte(c.peerID)), hx(c.genesis),
		hx(st.ChainID), st.BestHeight, hx(st.BestBlockHash), hx(st.Genesis))
	if st.Sender == nil {
		sb.WriteString(" nosender")
	} else {
		s := st.Sender
		addrOK := network.CheckAddressType(s.Address) != network.AddressTypeError
		fmt.Fprintf(&sb, " sender %d %s %d %d", b2i(addrOK), hx(s.PeerID), uint32(s.Role), len(s.ProducerIDs))
		for _, p := range s.ProducerIDs {
			sb.WriteString(" " + hx(p))
		}
		fmt.Fprintf(&sb, " %d", len(st.Certificates))
		for _, ct := range st.Certificates {
			_, cerr := p2putil.CheckAndGetV1(ct)
			fmt.Fprintf(&sb, " %d %s %s", b2i(cerr == nil), hx(ct.AgentID), hx(ct.BPID))
		}
	}
	op := sb.String()
	replay := map[string]interface{}{"op": op, "field": field, "version": ver}
	if panicked {
		run.Op(op, "panic", false)
		run.Fail("checkRemoteStatus panicked", replay)
		return false
	}
	accepted := err == nil
	ans := "reject"
	if accepted {
		ans = "ok"
	}
	run.Op(op, ans, accepted || single)
	run.Count(fmt.Sprintf("hs-v%d-%s=%s", ver, field, ans))
	// oracle: success only with the same genesis, a compatible chain id, and the connection's peer id
	if accepted {
		ok, v, pub, mn, mg, cs := decodeChainID(st.ChainID)
		compatible := ok && v == local.Version && pub == local.PublicNet && mn == local.MainNet && mg == local.Magic && cs == local.Consensus
		switch {
		case !bytes.Equal(st.Genesis, c.genesis):
			run.Fail("handshake succeeded with a peer presenting a different genesis block", replay)
		case !compatible:
			run.Fail("handshake succeeded with a peer on an incompatible chain identifier", replay)
		case st.Sender == nil || string(st.Sender.PeerID) != string(c.peerID):
			run.Fail("handshake succeeded with a peer id that is not the connection's", replay)
		}
	} else if pipe.Len() > 0 {
		// the go-away notice the peer gets is itself a well-formed frame
		setMax(types.MaxMessageSize())
		if m, e := v030.NewV030ReadWriter(bytes.NewReader(pipe.Bytes()), io.Discard, nopCloser{}).ReadMsg(); e != nil || m.Subprotocol() != p2pcommon.GoAway {
			run.Count("hs-goaway-unreadable")
		}
	}
	return accepted
}

func b2i(b bool) int {
	if b {
		return 1
	}
	return 0
}

// mut is one way a status message can deviate from the local view (or the local view from the message).
type mut struct {
	name string
	f    func(c *hsCase)
}

var (
	addrsOK  = []string{"192.168.1.2", "dummy.aergo.io", "::1", "2001:db8::1", "localhost", "a.b"}
	addrsBad = []string{"", "a b", "http://x.y", "1.2.3.4:80", "!!", "-x.com", "x..y"}
)

// statusMuts: every single field of a status message differing from the local one.
func statusMuts(rng *vh.Rng, vm *fakeVM, bps []bpKey) []mut {
	return []mut{
		{"chain.version", func(c *hsCase) {
			binary.LittleEndian.PutUint32(c.st.ChainID[0:4], uint32(int32(binary.LittleEndian.Uint32(c.st.ChainID[0:4]))+int32(1+rng.Intn(3))*(1-2*int32(rng.Intn(2)))))
		}},
		{"chain.public", func(c *hsCase) { c.st.ChainID[4] ^= 1 }},
		{"chain.mainnet", func(c *hsCase) { c.st.ChainID[5] ^= 1 }},
		{"chain.boolbyte", func(c *hsCase) { // a non-canonical "true": still the same chain id for ChainID.Read
			if c.st.ChainID[4] != 0 {
				c.st.ChainID[4] = byte(2 + rng.Intn(254))
			} else if c.st.ChainID[5] != 0 {
				c.st.ChainID[5] = byte(2 + rng.Intn(254))
			}
		}},
		{"chain.magic", func(c *hsCase) {
			i := bytes.IndexByte(c.st.ChainID[6:], '/') + 6
			mg := c.st.ChainID[6:i]
			var nm []byte
			for {
				nm = flipBytes(mg, rng)
				if !bytes.Equal(nm, mg) && bytes.IndexByte(nm, '/') < 0 {
					break
				}
			}
			c.st.ChainID = append(append(append([]byte{}, c.st.ChainID[:6]...), nm...), c.st.ChainID[i:]...)
		}},
		{"chain.consensus", func(c *hsCase) {
			i := bytes.IndexByte(c.st.ChainID[6:], '/') + 7
			cs := c.st.ChainID[i:]
			var nc []byte
			for {
				nc = flipBytes(cs, rng)
				if !bytes.Equal(nc, cs) && bytes.IndexByte(nc, '/') < 0 {
					break
				}
			}
			c.st.ChainID = append(append([]byte{}, c.st.ChainID[:i]...), nc...)
		}},
		{"chain.malformed", func(c *hsCase) {
			switch rng.Intn(5) {
			case 0:
				c.st.ChainID = c.st.ChainID[:rng.Intn(6)]
			case 1:
				c.st.ChainID = nil
			case 2:
				c.st.ChainID = bytes.ReplaceAll(c.st.ChainID[:], []byte("/"), []byte("_"))
				if bytes.IndexByte(c.st.ChainID, '/') >= 0 { // a '/' inside the fixed part stays: force none after byte 6
					c.st.ChainID = append(c.st.ChainID[:6:6], bytes.ReplaceAll(c.st.ChainID[6:], []byte("/"), []byte("_"))...)
				}
			case 3:
				c.st.ChainID = append(c.st.ChainID, '/')
			default:
				c.st.ChainID = append(c.st.ChainID, []byte("/x")...)
			}
		}},
		{"height.other-era", func(c *hsCase) {
			if len(vm.forks) == 0 {
				c.st.BestHeight += uint64(1 + rng.Intn(1000)) // no fork: same era, still accepted
				return
			}
			cur := vm.expected(c.st.BestHeight).Version
			for {
				hh := uint64(rng.Intn(int(vm.forks[len(vm.forks)-1]) + 10))
				if vm.expected(hh).Version != cur {
					c.st.BestHeight = hh
					return
				}
			}
		}},
		{"height.same-era", func(c *hsCase) {
			cur := vm.expected(c.st.BestHeight).Version
			for d := uint64(1); d < 4; d++ {
				if vm.expected(c.st.BestHeight+d).Version == cur {
					c.st.BestHeight += d
					return
				}
			}
		}},
		{"besthash.length", func(c *hsCase) {
			c.st.BestBlockHash = [][]byte{nil, {}, rng.Bytes(31), rng.Bytes(33), rng.Bytes(1), rng.Bytes(64)}[rng.Intn(6)]
		}},
		{"besthash.value", func(c *hsCase) { c.st.BestBlockHash = rng.Bytes(32) }},
		{"sender.nil", func(c *hsCase) { c.st.Sender = nil }},
		{"sender.address-bad", func(c *hsCase) { c.st.Sender.Address = addrsBad[rng.Intn(len(addrsBad))] }},
		{"sender.address-other", func(c *hsCase) { c.st.Sender.Address = addrsOK[rng.Intn(len(addrsOK))] }},
		{"sender.peerid", func(c *hsCase) {
			switch rng.Intn(4) {
			case 0:
				c.st.Sender.PeerID = []byte(newPeerID(rng))
			case 1:
				c.st.Sender.PeerID = c.st.Sender.PeerID[:len(c.st.Sender.PeerID)-1]
			case 2:
				c.st.Sender.PeerID = nil
			default:
				c.st.Sender.PeerID[rng.Intn(len(c.st.Sender.PeerID))] ^= byte(1 << uint(rng.Intn(8)))
			}
		}},
		{"genesis", func(c *hsCase) {
			for {
				g := flipBytes(c.st.Genesis, rng)
				if !bytes.Equal(g, c.genesis) {
					c.st.Genesis = g
					return
				}
			}
		}},
		{"local.genesis", func(c *hsCase) { c.genesis = rng.Bytes(32) }},
		{"local.peerid", func(c *hsCase) { c.peerID = newPeerID(rng) }},
		{"role.unknown", func(c *hsCase) { c.st.Sender.Role = types.PeerRole(4 + rng.Intn(100)) }},
		{"role.agent-noproducers", func(c *hsCase) { c.st.Sender.Role = types.PeerRole_Agent; c.st.Sender.ProducerIDs = nil }},
		{"role.agent-foreign-cert", func(c *hsCase) {
			c.st.Sender.Role = types.PeerRole_Agent
			c.st.Sender.ProducerIDs = [][]byte{[]byte(bps[0].id)}
			ct, _ := p2putil.NewAgentCertV1(bps[0].id, newPeerID(rng), bps[0].priv, []string{"192.168.1.2"}, time.Hour)
			pc, _ := p2putil.ConvertCertToProto(ct)
			c.st.Certificates = []*types.AgentCertificate{pc}
		}},
		{"role.agent-unlisted-bp", func(c *hsCase) {
			c.st.Sender.Role = types.PeerRole_Agent
			c.st.Sender.ProducerIDs = [][]byte{[]byte(bps[0].id)}
			ct, _ := p2putil.NewAgentCertV1(bps[1].id, c.peerID, bps[1].priv, []string{"192.168.1.2"}, time.Hour)
			pc, _ := p2putil.ConvertCertToProto(ct)
			c.st.Certificates = []*types.AgentCertificate{pc}
		}},
		{"role.agent-bad-signature", func(c *hsCase) {
			c.st.Sender.Role = types.PeerRole_Agent
			c.st.Sender.ProducerIDs = [][]byte{[]byte(bps[0].id)}
			ct, _ := p2putil.NewAgentCertV1(bps[0].id, c.peerID, bps[0].priv, []string{"192.168.1.2"}, time.Hour)
			pc, _ := p2putil.ConvertCertToProto(ct)
			pc.ExpireTime++ // signed content changed
			c.st.Certificates = []*types.AgentCertificate{pc}
		}},
		{"role.agent-good", func(c *hsCase) {
			c.st.Sender.Role = types.PeerRole_Agent
			c.st.Sender.ProducerIDs = [][]byte{[]byte(bps[0].id), []byte(bps[2].id)}
			ct, _ := p2putil.NewAgentCertV1(bps[2].id, c.peerID, bps[2].priv, []string{"192.168.1.2"}, time.Hour)
			pc, _ := p2putil.ConvertCertToProto(ct)
			c.st.Certificates = []*types.AgentCertificate{pc}
		}},
		{"noexpose", func(c *hsCase) { c.st.NoExpose = !c.st.NoExpose }},
		{"version-string", func(c *hsCase) { c.st.Version = "v9.9.9"; c.st.Sender.Version = "zzz" }},
	}
}

func handshake(run *vh.Run) {
	rng := run.Rng
	nop := zerolog.Nop()
	hsLogger = &log.Logger{Logger: &nop}
	bps := []bpKey{newBP(rng), newBP(rng), newBP(rng)}
	magics := []string{"aergo.io", "testnet.aergo.io", "itSmain1", "x", ""}
	conses := []string{"dpos", "raft", "sbp", ""}
	for i := 0; i < run.Pick(400, 3000); i++ {
		vm := &fakeVM{base: types.ChainID{Version: int32(rng.Intn(4)), PublicNet: rng.Bool(), MainNet: rng.Bool(),
			Magic: magics[rng.Intn(len(magics))], Consensus: conses[rng.Intn(len(conses))]}}
		h := uint64(0)
		for k := rng.Intn(4); k > 0; k-- {
			h += uint64(1 + rng.Intn(100000))
			vm.forks = append(vm.forks, h)
		}
		peerID := newPeerID(rng)
		genesis := rng.Bytes(32)
		height := uint64(rng.Intn(300000))
		if len(vm.forks) > 0 && rng.Chance(1, 2) {
			height = vm.forks[rng.Intn(len(vm.forks))] + uint64(rng.Intn(3)) - 1
		}
		cid, err := vm.expected(height).Bytes()
		if err != nil {
			panic(err)
		}
		role := []types.PeerRole{types.PeerRole_LegacyVersion, types.PeerRole_Producer, types.PeerRole_Watcher, types.PeerRole_Agent}[rng.Intn(4)]
		sender := &types.PeerAddress{Address: addrsOK[rng.Intn(len(addrsOK))], Port: uint32(rng.Intn(65536)), PeerID: []byte(peerID), Role: role,
			Version: "v2.0.0"}
		var certs []*types.AgentCertificate
		if role == types.PeerRole_Agent {
			n := 1 + rng.Intn(len(bps))
			for _, bp := range bps[:n] {
				sender.ProducerIDs = append(sender.ProducerIDs, []byte(bp.id))
			}
			for _, bp := range bps[:rng.Intn(n+1)] {
				c, err := p2putil.NewAgentCertV1(bp.id, peerID, bp.priv, []string{"192.168.1.2"}, time.Hour)
				if err != nil {
					panic(err)
				}
				pc, err := p2putil.ConvertCertToProto(c)
				if err != nil {
					panic(err)
				}
				certs = append(certs, pc)
			}
		}
		base := &types.Status{ChainID: cid, BestHeight: height, BestBlockHash: rng.Bytes(32), Sender: sender, Genesis: append([]byte{}, genesis...),
			NoExpose: rng.Bool(), Version: "v2.0.0", Certificates: certs}
		mk := func() hsCase { return hsCase{vm, peerID, genesis, cloneStatus(base)} }
		for _, ver := range []int{200, 33} {
			if !hsRun(run, ver, mk(), "none", false) {
				// the property only says "succeeds only with ..."; the converse is the model's business (trace diff)
				run.Count("hs-base-status-rejected")
			}
			// every single field differing from the local one
			muts := statusMuts(rng, vm, bps)
			for _, m := range muts {
				c := mk()
				m.f(&c)
				hsRun(run, ver, c, m.name, true)
			}
			// a few random multi-field combinations
			for k := 0; k < 3; k++ {
				c := mk()
				for j := 0; j < 2+rng.Intn(2); j++ {
					m := muts[rng.Intn(len(muts))]
					if c.st.Sender == nil && strings.HasPrefix(m.name, "sender.") || c.st.Sender == nil && strings.HasPrefix(m.name, "role.") ||
						c.st.Sender == nil && m.name == "version-string" || strings.HasPrefix(m.name, "chain.") && len(c.st.ChainID) < 8 {
						continue
					}
					if strings.HasPrefix(m.name, "chain.") && bytes.IndexByte(c.st.ChainID[6:], '/') < 0 {
						continue
					}
					if m.name == "sender.peerid" && len(c.st.Sender.PeerID) == 0 {
						continue
					}
					m.f(&c)
				}
				hsRun(run, ver, c, "multi", false)
			}
		}
	}
}

// ---------------------------------------------------------------------------------------------
// Part 3: block identifiers and the block chunk receiver

type reporter struct{}

func (reporter) Errorf(format string, args ...interface{}) {
	panic(fmt.Sprintf("gomock: "+format, args...))
}
func (reporter) Fatalf(format string, args ...interface{}) {
	panic(fmt.Sprintf("gomock: "+format, args...))
}

func randomBlock(rng *vh.Rng, txBytes int) *types.Block {
	b := &types.Block{Header: &types.BlockHeader{ChainID: rng.Bytes(1 + rng.Intn(12)), PrevBlockHash: rng.Bytes(32), BlockNo: uint64(rng.Intn(1 << 30)),
		Timestamp: rng.Int63(), BlocksRootHash: rng.Bytes(32), TxsRootHash: rng.Bytes(32), ReceiptsRootHash: rng.Bytes(32),
		Confirms: uint64(rng.Intn(30)), PubKey: rng.Bytes(33), CoinbaseAccount: rng.Bytes(33), Sign: rng.Bytes(70)}, Body: &types.BlockBody{}}
	if txBytes > 0 {
		b.Body.Txs = []*types.Tx{{Hash: rng.Bytes(32), Body: &types.TxBody{Nonce: 1, Account: rng.Bytes(33), Payload: rng.Bytes(txBytes)}}}
	}
	b.Hash = nil
	b.BlockHash() // fills Hash with the digest of the header
	return b
}

// digestOf: the digest of the block's own header (the carried Hash field is ignored).
func digestOf(b *types.Block) []byte {
	c := &types.Block{Header: b.Header, Body: b.Body}
	return c.BlockHash()
}

func cloneBlock(b *types.Block) *types.Block {
	h := *b.Header
	c := &types.Block{Hash: append([]byte(nil), b.Hash...), Header: &h, Body: b.Body}
	return c
}

func mutateHeader(h *types.BlockHeader, rng *vh.Rng) string {
	switch rng.Intn(8) {
	case 0:
		h.TxsRootHash = flipNZ(h.TxsRootHash, rng)
		return "TxsRootHash"
	case 1:
		h.Sign = flipNZ(h.Sign, rng)
		return "Sign"
	case 2:
		h.BlockNo++
		return "BlockNo"
	case 3:
		h.PrevBlockHash = flipNZ(h.PrevBlockHash, rng)
		return "PrevBlockHash"
	case 4:
		h.Timestamp ^= 1 << uint(rng.Intn(62))
		return "Timestamp"
	case 5:
		h.BlocksRootHash = flipNZ(h.BlocksRootHash, rng)
		return "BlocksRootHash"
	case 6:
		h.ReceiptsRootHash = flipNZ(h.ReceiptsRootHash, rng)
		return "ReceiptsRootHash"
	default:
		h.CoinbaseAccount = flipNZ(h.CoinbaseAccount, rng)
		return "CoinbaseAccount"
	}
}

func flipNZ(b []byte, rng *vh.Rng) []byte {
	c := append([]byte{}, b...)
	c[rng.Intn(len(c))] ^= byte(1 << uint(rng.Intn(8)))
	return c
}

func errClass(err error) string {
	switch err {
	case message.RemotePeerFailError:
		return "remotefail"
	case message.MissingHashError:
		return "missinghash"
	case message.TooManyBlocksError:
		return "toomany"
	case message.UnexpectedBlockError:
		return "unexpected"
	case message.TooBigBlockError:
		return "toobig"
	case message.TooFewBlocksError:
		return "toofew"
	}
	return "other"
}

func blockid(run *vh.Run) {
	rng := run.Rng
	// (a) Block.BlockHash: carried field vs digest of the header
	for i := 0; i < run.Pick(1000, 8000); i++ {
		b := randomBlock(rng, 0)
		digest := append([]byte{}, b.Hash...)
		var carried []byte
		kind := ""
		switch rng.Intn(5) {
		case 0:
			carried, kind = nil, "empty"
		case 1:
			carried, kind = digest, "genuine"
		case 2:
			carried, kind = rng.Bytes(32), "foreign"
		case 3:
			carried, kind = rng.Bytes(1+rng.Intn(40)), "odd-length"
		default:
			carried, kind = []byte{}, "empty"
		}
		c := cloneBlock(b)
		c.Hash = append([]byte(nil), carried...)
		if carried != nil && len(carried) == 0 {
			c.Hash = []byte{} // present but empty (what a decoded message with an explicit empty field may carry)
			kind = "empty-non-nil"
		}
		got := c.BlockHash()
		op := fmt.Sprintf("bhash %s %s", hx(carried), hx(digest))
		run.Op(op, hx(got), true)
		run.Count("bhash-" + kind)
		// oracle: a block that announces no identifier is referenced under the digest of its own header
		if len(carried) == 0 && !bytes.Equal(got, digest) {
			run.Fail("a block without an announced identifier is not identified by the digest of its header", map[string]interface{}{"op": op, "got": hx(got)})
		}
	}

	// (b) BlocksChunkReceiver
	const bodyLimit = 2000
	chain.Init(bodyLimit, "", false, 1, 1)
	maxBlock := int(chain.MaxBlockSize())
	ctrl := gomock.NewController(reporter{})
	peerID := newPeerID(rng)
	knownReported := 0
	for i := 0; i < run.Pick(6000, 40000); i++ {
		n := 1 + rng.Intn(5)
		if i == 0 {
			n = 1 // the minimal case first: one block requested, answered with an altered copy carrying the genuine identifier
		}
		var genuine []*types.Block
		var hashes []message.BlockHash
		for j := 0; j < n; j++ {
			b := randomBlock(rng, rng.Intn(2)*rng.Intn(200))
			genuine = append(genuine, b)
			hashes = append(hashes, message.BlockHash(append([]byte{}, b.Hash...)))
		}
		// what the remote peer answers: the genuine blocks, possibly altered
		scenario := []string{"genuine", "altered-header", "altered-hash", "missing", "duplicate", "extra", "toobig", "status-fail", "wrong-body", "empty",
			"short-last", "altered-header", "genuine"}[rng.Intn(13)]
		if i == 0 {
			scenario = "altered-header"
		}
		var send []*types.Block
		for _, b := range genuine {
			send = append(send, cloneBlock(b))
		}
		alteredAt, alteredField := -1, ""
		switch scenario {
		case "altered-header": // the relay changes the content but leaves the announced identifier
			alteredAt = rng.Intn(n)
			if i == 0 { // the minimal replay of notes/C18.md
				send[0].Header.TxsRootHash = flipNZ(send[0].Header.TxsRootHash, rng)
				alteredField = "TxsRootHash"
			} else {
				alteredField = mutateHeader(send[alteredAt].Header, rng)
			}
		case "altered-hash":
			k := rng.Intn(n)
			send[k].Hash = flipNZ(send[k].Hash, rng)
		case "missing":
			k := rng.Intn(n)
			send = append(send[:k], send[k+1:]...)
		case "duplicate":
			k := rng.Intn(n)
			send = append(send[:k+1], send[k:]...)
		case "extra":
			send = append(send, randomBlock(rng, 0))
		case "toobig":
			k := rng.Intn(n)
			big := randomBlock(rng, bodyLimit+500+rng.Intn(1000))
			big.Hash = append([]byte{}, send[k].Hash...)
			send[k] = big
		case "short-last":
			send = send[:rng.Intn(n)]
		}
		// split into responses
		var chunks [][]*types.Block
		rest := send
		for len(rest) > 0 {
			k := 1 + rng.Intn(len(rest))
			if i == 0 {
				k = len(rest)
			}
			chunks = append(chunks, rest[:k])
			rest = rest[k:]
		}
		if len(chunks) == 0 || scenario == "empty" {
			chunks = append(chunks, nil)
		}
		var outs []string
		var delivered []*types.Block
		actor := p2pmock.NewMockActorService(ctrl)
		cur := "nothing"
		actor.EXPECT().TellRequest(message.SyncerSvc, gomock.Any()).DoAndReturn(func(_ string, arg interface{}) {
			rsp := arg.(*message.GetBlockChunksRsp)
			if rsp.Err != nil {
				cur = "fail " + errClass(rsp.Err)
				return
			}
			var hs []string
			for _, b := range rsp.Blocks {
				hs = append(hs, hx(b.GetHash()))
			}
			cur = "deliver " + strings.Join(hs, ",")
			delivered = rsp.Blocks
		}).AnyTimes()
		peer := p2pmock.NewMockRemotePeer(ctrl)
		peer.EXPECT().ID().Return(peerID).AnyTimes()
		peer.EXPECT().ConsumeRequest(gomock.Any()).AnyTimes()
		br := p2p.NewBlockReceiver(actor, peer, 7, hashes, time.Hour)
		var sb strings.Builder
		fmt.Fprintf(&sb, "recv %d %d", maxBlock, n)
		for _, h := range hashes {
			sb.WriteString(" " + hx(h))
		}
		fmt.Fprintf(&sb, " %d", len(chunks)+1)
		msg := p2pcommon.NewSimpleMsgVal(p2pcommon.GetBlocksResponse, p2pcommon.NewMsgID())
		panicked := false
		feed := func(body p2pcommon.MessageBody, isBlk, statusOK, hasNext bool, blks []*types.Block) {
			fmt.Fprintf(&sb, " %d %d %d %d", b2i(isBlk), b2i(statusOK), b2i(hasNext), len(blks))
			for _, b := range blks {
				fmt.Fprintf(&sb, " %s %d", hx(b.Hash), b.Size())
			}
			cur = "nothing"
			if _, p := vh.Guard(func() string { br.ReceiveResp(msg, body); return "" }); p {
				panicked = true
				cur = "panic"
			}
			outs = append(outs, cur)
		}
		for k, ch := range chunks {
			hasNext := k < len(chunks)-1
			switch {
			case scenario == "status-fail" && k == len(chunks)-1:
				feed(&types.GetBlockResponse{Status: types.ResultStatus_NOT_FOUND, Blocks: ch, HasNext: hasNext}, true, false, hasNext, ch)
			case scenario == "wrong-body" && k == len(chunks)-1:
				if rng.Bool() {
					feed(&types.GetBlockHeadersResponse{Status: types.ResultStatus_OK}, false, true, false, nil)
				} else {
					feed(&types.NewBlockNotice{}, false, false, false, nil)
				}
			default:
				feed(&types.GetBlockResponse{Status: types.ResultStatus_OK, Blocks: ch, HasNext: hasNext}, true, true, hasNext, ch)
			}
		}
		// one more response after the end: must be ignored
		feed(&types.GetBlockResponse{Status: types.ResultStatus_OK, Blocks: send, HasNext: false}, true, true, false, send)
		op := sb.String()
		run.Op(op, strings.Join(outs, ";"), delivered != nil)
		run.Count("recv-" + scenario)
		if panicked {
			run.Fail("BlocksChunkReceiver panicked", map[string]interface{}{"op": op})
		}
		// oracle (the property): what is handed on for storage is content-addressed — every delivered block's own
		// header hashes to the identifier that was requested at that position
		if delivered != nil {
			run.Count("recv-delivered")
			if len(delivered) != len(hashes) {
				run.Fail("receiver delivered a different number of blocks than requested", map[string]interface{}{"op": op})
			}
			for k, b := range delivered {
				if k >= len(hashes) {
					break
				}
				if !bytes.Equal(b.GetHash(), hashes[k]) {
					run.Fail("receiver delivered a block whose announced identifier is not the requested one", map[string]interface{}{"op": op, "index": k})
					continue
				}
				if d := digestOf(b); !bytes.Equal(d, hashes[k]) {
					run.Count("known:C18-id-not-recomputed")
					if knownReported++; knownReported > 3 {
						continue // same class, already reported with replays; keep the failure slots for anything else
					}
					run.FailKnown("block chunk receiver forwards a block whose header does not hash to its announced identifier (identifier never recomputed on receipt)",
						"C18-id-not-recomputed", map[string]interface{}{
							"requested": hx(hashes[k]), "carried_hash": hx(b.GetHash()), "digest_of_header": hx(d),
							"altered_field": alteredField, "index": k, "scenario": scenario, "op": op})
				}
			}
		}
		_ = alteredAt
	}
}

func main() {
	run := vh.Start("c18", "framing: real V030ReadWriter over byte buffers — every sub-protocol id x payload sizes around the (lowered) limit, "+
		"Length()/payload mismatches, truncation at every offset, hand-made headers with declared lengths up to 2^32-1, random streams, message sequences, "+
		"each stream also through 3 other reader configurations; handshake: real V200/V033 checkRemoteStatus on a status equal to the local view and on "+
		"every single-field deviation (+ random multi-field); block ids: real Block.BlockHash and BlocksChunkReceiver on genuine/altered/missing/"+
		"duplicated/oversized blocks. non-trivial = read reached the header, write decided, handshake accepted or single-field case, receiver delivered")
	defer run.Finish()
	// vh seeds the splitmix state with seed*gamma+c and steps it by gamma, so seeds k and k+1 produce the same sequence
	// shifted by one draw; forking once makes the per-seed streams unrelated (still a function of -seed only)
	run.Rng = run.Rng.Fork()
	framing(run)
	handshake(run)
	wireHandshake(run)
	blockid(run)
	notices(run)
}
