// Part 5: blocks arriving outside the syncer — the production syncManager (its "seen blocks" set is keyed by the identifier
// the sender announces) behind the production message handlers of BlockProducedNotice, NewBlockNotice and GetBlockResponse.
// Every arrival goes through the handler's own ParsePayload and Handle. Oracle (third clause of the property): arrivals whose
// content does not hash to the identifier they announce must not change what the node does with the genuine arrivals — the
// same session is run a second time without them and the fate of every genuine arrival is compared.
package main

import (
	"bytes"
	"crypto/sha256"
	"fmt"
	"strings"

	"github.com/aergoio/aergo/v2/chain"
	"github.com/aergoio/aergo/v2/p2p"
	"github.com/aergoio/aergo/v2/p2p/p2pcommon"
	"github.com/aergoio/aergo/v2/p2p/p2putil"
	"github.com/aergoio/aergo/v2/p2p/subproto"
	"github.com/aergoio/aergo/v2/types"
	"github.com/aergoio/aergo/v2/types/message"
	"github.com/aergoio/aergo/v2/zz_verif/vh"
	"github.com/libp2p/go-libp2p/core/crypto"
)

type nPeer struct {
	p2pcommon.RemotePeer
	id    types.PeerID
	name  string
	role  types.PeerRole
	certs []*p2pcommon.AgentCertificateV1
	seen  map[types.BlockID]bool // the peer's own notice cache (RemotePeer.UpdateBlkCache)
	priv  crypto.PrivKey
}

func (p *nPeer) ID() types.PeerID             { return p.id }
func (p *nPeer) Name() string                 { return p.name }
func (p *nPeer) AcceptedRole() types.PeerRole { return p.role }
func (p *nPeer) RemoteInfo() p2pcommon.RemoteInfo {
	return p2pcommon.RemoteInfo{Meta: p2pcommon.PeerMeta{ID: p.id}, AcceptedRole: p.role, Certificates: p.certs}
}
func (p *nPeer) UpdateLastNotice(types.BlockID, types.BlockNo) {}
func (p *nPeer) UpdateBlkCache(h types.BlockID, _ types.BlockNo) bool {
	was := p.seen[h]
	p.seen[h] = true
	return was
}
func (p *nPeer) GetReceiver(p2pcommon.MsgID) p2pcommon.ResponseReceiver {
	return func(p2pcommon.Message, p2pcommon.MessageBody) bool { return false } // no syncer request is waiting for it
}
func (p *nPeer) ConsumeRequest(p2pcommon.MsgID) p2pcommon.MsgOrder { return nil }

func newNPeer(rng *vh.Rng, name string, role types.PeerRole) *nPeer {
	priv, pub, err := crypto.GenerateSecp256k1Key(bytes.NewReader(rng.Bytes(64)))
	if err != nil {
		panic(err)
	}
	id, err := types.IDFromPublicKey(pub)
	if err != nil {
		panic(err)
	}
	return &nPeer{id: id, name: name, role: role, priv: priv, seen: map[types.BlockID]bool{}}
}

// arrival: one message from one peer.
type arrival struct {
	kind    string // bp | nb | gbr
	from    int
	genuine bool // the content hashes to the announced identifier (nb: carries no content)
	shape   string
	raw     []byte // the payload on the wire
	id      []byte // the announced identifier
	opTail  string // the rest of the op line
	blk     *types.Block
	reaches bool // a BlockProduced notice that passes the handler's own checks (identifier present and well-formed, entitled sender)
}

type smSession struct {
	sm       p2pcommon.SyncManager
	actor    *fakeActor
	ca       *fakeCA
	peers    []*nPeer
	handlers [][3]p2pcommon.MessageHandler // per peer: bp, nb, gbr
}

func newSMSession(peers []*nPeer, chainHas map[string]*types.Block) *smSession {
	s := &smSession{peers: peers}
	s.ca = &fakeCA{blocks: chainHas}
	s.actor = &fakeActor{ca: s.ca}
	pm := &fakePM{}
	is := &fakeIS{ca: s.ca}
	s.sm = p2p.VerifC18SyncManager(s.actor, pm, hsLogger)
	for _, p := range peers {
		p.seen = map[types.BlockID]bool{}
		s.handlers = append(s.handlers, [3]p2pcommon.MessageHandler{
			subproto.NewBlockProducedNoticeHandler(is, pm, p, hsLogger, s.actor, s.sm),
			subproto.NewNewBlockNoticeHandler(pm, p, hsLogger, s.actor, s.sm),
			subproto.NewBlockRespHandler(pm, p, hsLogger, s.actor, s.sm),
		})
	}
	return s
}

// deliver hands the arrival to the production handler; answer = what reached the other services.
func (s *smSession) deliver(a *arrival) (ans string, fwd *types.Block, panicked bool) {
	k := map[string]int{"bp": 0, "nb": 1, "gbr": 2}[a.kind]
	sub := []p2pcommon.SubProtocol{p2pcommon.BlockProducedNotice, p2pcommon.NewBlockNotice, p2pcommon.GetBlocksResponse}[k]
	h := s.handlers[a.from][k]
	s.actor.sent = s.actor.sent[:0]
	_, panicked = vh.Guard(func() string {
		body, err := h.ParsePayload(a.raw)
		if err != nil {
			return ""
		}
		h.Handle(p2pcommon.NewSimpleMsgVal(sub, p2pcommon.NewMsgID()), body)
		return ""
	})
	if panicked {
		return "panic", nil, true
	}
	var parts []string
	for _, m := range s.actor.sent {
		switch x := m.msg.(type) {
		case *message.AddBlock:
			if m.to == message.ChainSvc {
				parts = append(parts, "forward "+hx(x.Block.GetHash()))
				fwd = x.Block
				continue
			}
		case *message.GetBlockInfos:
			if m.to == message.P2PSvc && len(x.Hashes) == 1 {
				parts = append(parts, "request "+hx(x.Hashes[0]))
				continue
			}
		}
		parts = append(parts, fmt.Sprintf("other:%s:%T", m.to, m.msg))
	}
	if len(parts) == 0 {
		return "nothing", nil, false
	}
	return strings.Join(parts, ","), fwd, false
}

// contentToken: equal tokens = equal content (the harness's own encoding of the whole block, hashed).
func contentToken(b *types.Block) string {
	raw, err := p2putil.MarshalMessageBody(b)
	if err != nil {
		panic(err)
	}
	d := sha256.Sum256(raw)
	return hx(d[:])
}

func signedBlock(rng *vh.Rng, bp *nPeer, no uint64, txBytes int) *types.Block {
	b := &types.Block{Header: &types.BlockHeader{ChainID: []byte("c18"), PrevBlockHash: rng.Bytes(32), BlockNo: no, Timestamp: rng.Int63(),
		BlocksRootHash: rng.Bytes(32), TxsRootHash: rng.Bytes(32), ReceiptsRootHash: rng.Bytes(32), Confirms: uint64(rng.Intn(20)),
		CoinbaseAccount: rng.Bytes(33)}, Body: &types.BlockBody{}}
	if txBytes > 0 {
		b.Body.Txs = []*types.Tx{{Hash: rng.Bytes(32), Body: &types.TxBody{Nonce: 1, Account: rng.Bytes(33), Payload: rng.Bytes(txBytes)}}}
	}
	if err := b.Sign(bp.priv); err != nil {
		panic(err)
	}
	b.Hash = nil
	b.BlockHash()
	return b
}

func notices(run *vh.Run) {
	rng := run.Rng
	const bodyLimit = 2000
	chain.Init(bodyLimit, "", false, 1, 1)
	maxBlock := int(chain.MaxBlockSize())
	seenCap := p2p.VerifC18SeenCap()

	for sess := 0; sess < run.Pick(500, 4000); sess++ {
		// peers: two producers, an agent holding a certificate of producer 0, a relay, an intruder
		bp0, bp1 := newNPeer(rng, "bp0", types.PeerRole_Producer), newNPeer(rng, "bp1", types.PeerRole_Producer)
		agent := newNPeer(rng, "agent", types.PeerRole_Agent)
		agent.certs = []*p2pcommon.AgentCertificateV1{{BPID: bp0.id, AgentID: agent.id}}
		relay, intr := newNPeer(rng, "relay", types.PeerRole_Watcher), newNPeer(rng, "intruder", types.PeerRole_Watcher)
		peers := []*nPeer{bp0, bp1, agent, relay, intr}
		nblk := 1 + rng.Intn(4)
		long := sess%40 == 7 // a session that overflows the seen set
		var blocks []*types.Block
		chainHas := map[string]*types.Block{}
		for i := 0; i < nblk; i++ {
			bp := []*nPeer{bp0, bp1}[rng.Intn(2)]
			b := signedBlock(rng, bp, uint64(100+i), rng.Intn(2)*rng.Intn(300))
			blocks = append(blocks, b)
			if rng.Chance(1, 10) {
				chainHas[string(b.Hash)] = b
			}
		}
		producerOf := func(b *types.Block) int {
			id, _ := b.BPID()
			if id == bp0.id {
				return 0
			}
			return 1
		}
		mkBP := func(from int, b *types.Block, genuine bool, shape string) *arrival {
			raw, err := p2putil.MarshalMessageBody(&types.BlockProducedNotice{ProducerID: []byte(peers[from].id), BlockNo: b.GetHeader().GetBlockNo(), Block: b})
			if err != nil {
				panic(err)
			}
			bpid, berr := b.BPID()
			senderOK := berr == nil && (bpid == peers[from].id || (peers[from].role == types.PeerRole_Agent && len(peers[from].certs) > 0 && peers[from].certs[0].BPID == bpid))
			present := b != nil && len(b.Hash) > 0
			return &arrival{kind: "bp", from: from, genuine: genuine, shape: shape, raw: raw, id: b.Hash, blk: b, reaches: present && len(b.Hash) == 32 && senderOK,
				opTail: fmt.Sprintf("%s %d %d %d %d %s", hx(b.Hash), b2i(present), b2i(len(b.Hash) == 32), b2i(senderOK), b2i(b.Size() <= maxBlock), contentToken(b))}
		}
		mkNB := func(from int, id []byte) *arrival {
			raw, _ := p2putil.MarshalMessageBody(&types.NewBlockNotice{BlockHash: id, BlockNo: uint64(rng.Intn(1000))})
			_, has := chainHas[string(id)]
			return &arrival{kind: "nb", from: from, genuine: true, shape: "notice", raw: raw, id: id,
				opTail: fmt.Sprintf("%s %d %%d %d", hx(id), b2i(len(id) == 32), b2i(has))}
		}
		mkGBR := func(from int, bs []*types.Block, status types.ResultStatus, genuine bool, shape string) *arrival {
			raw, _ := p2putil.MarshalMessageBody(&types.GetBlockResponse{Status: status, Blocks: bs, HasNext: false})
			a := &arrival{kind: "gbr", from: from, genuine: genuine, shape: shape, raw: raw}
			var sb strings.Builder
			fmt.Fprintf(&sb, "%d %d", b2i(status == types.ResultStatus_OK), len(bs))
			for _, b := range bs {
				fmt.Fprintf(&sb, " %s %d", hx(b.GetHash()), b2i(b.Size() <= maxBlock))
			}
			if len(bs) > 0 {
				a.id, a.blk = bs[0].GetHash(), bs[0]
			}
			a.opTail = sb.String()
			return a
		}
		// a copy of b that keeps the announced identifier but not the content
		alterKeepID := func(b *types.Block, by *nPeer, how int) (*types.Block, string) {
			c := cloneBlock(b)
			switch how {
			case 0: // the intruder's own key in the header: it is then "the producer" of the copy
				kb, _ := crypto.MarshalPublicKey(by.priv.GetPublic())
				c.Header.PubKey = kb
				c.Header.TxsRootHash = flipNZ(c.Header.TxsRootHash, rng)
				return c, "own-key-copy"
			case 1: // content altered, producer key kept (only the producer or its agent may send it)
				mutateHeader(c.Header, rng)
				return c, "kept-key-copy"
			case 2: // a body that makes the copy larger than a block may be
				kb, _ := crypto.MarshalPublicKey(by.priv.GetPublic())
				c.Header.PubKey = kb
				c.Body = &types.BlockBody{Txs: []*types.Tx{{Hash: rng.Bytes(32), Body: &types.TxBody{Nonce: 1, Account: rng.Bytes(33), Payload: rng.Bytes(bodyLimit + 600 + rng.Intn(500))}}}}
				return c, "oversized-copy"
			default: // body altered only
				c.Body = &types.BlockBody{Txs: []*types.Tx{{Hash: rng.Bytes(32), Body: &types.TxBody{Nonce: 9, Account: rng.Bytes(33), Payload: rng.Bytes(rng.Intn(40))}}}}
				return c, "body-copy"
			}
		}

		var seq []*arrival
		if sess == 0 {
			// the minimal scenario: the intruder sends a copy carrying the identifier of producer 0's new block (its own key in
			// the header, roots altered) before producer 0's notice arrives
			b := signedBlock(rng, bp0, 100, 0)
			blocks = []*types.Block{b}
			chainHas = map[string]*types.Block{}
			c, shape := alterKeepID(b, intr, 0)
			seq = []*arrival{mkBP(4, c, false, shape), mkBP(0, b, true, "genuine")}
		} else {
			n := 2 + rng.Intn(10)
			for k := 0; k < n; k++ {
				b := blocks[rng.Intn(len(blocks))]
				prod := producerOf(b)
				switch rng.Intn(14) {
				case 0, 1, 2:
					from := prod
					if prod == 0 && rng.Chance(1, 3) {
						from = 2 // through the producer's agent
					}
					seq = append(seq, mkBP(from, b, true, "genuine"))
				case 3:
					seq = append(seq, mkBP(3+rng.Intn(2), b, true, "genuine-from-unentitled"))
				case 4, 5:
					by := peers[3+rng.Intn(2)]
					c, shape := alterKeepID(b, by, []int{0, 0, 2}[rng.Intn(3)])
					from := 3
					if by == intr {
						from = 4
					}
					seq = append(seq, mkBP(from, c, false, shape))
				case 6:
					c, shape := alterKeepID(b, intr, []int{1, 3}[rng.Intn(2)])
					from := []int{3, 4, prod}[rng.Intn(3)]
					seq = append(seq, mkBP(from, c, false, shape+fmt.Sprintf("-from-%s", peers[from].name)))
				case 7: // genuine content under another identifier
					c := cloneBlock(b)
					c.Hash = [][]byte{rng.Bytes(32), flipNZ(b.Hash, rng), rng.Bytes(31), rng.Bytes(33), {}}[rng.Intn(5)]
					seq = append(seq, mkBP([]int{prod, 4}[rng.Intn(2)], c, false, "foreign-id"))
				case 8, 9:
					seq = append(seq, mkNB(rng.Intn(len(peers)), b.Hash))
				case 10:
					id := [][]byte{rng.Bytes(32), rng.Bytes(31), rng.Bytes(33), nil, rng.Bytes(64)}[rng.Intn(5)]
					seq = append(seq, mkNB(rng.Intn(len(peers)), id))
				case 11:
					seq = append(seq, mkGBR(rng.Intn(len(peers)), []*types.Block{b}, types.ResultStatus_OK, true, "genuine"))
				case 12:
					c, shape := alterKeepID(b, intr, rng.Intn(4))
					seq = append(seq, mkGBR(rng.Intn(len(peers)), []*types.Block{c}, types.ResultStatus_OK, false, shape))
				default:
					var bs []*types.Block
					for j := rng.Intn(4); j > 0; j-- {
						bs = append(bs, blocks[rng.Intn(len(blocks))])
					}
					st := types.ResultStatus_OK
					if rng.Chance(1, 3) {
						st = types.ResultStatus_NOT_FOUND
					}
					seq = append(seq, mkGBR(rng.Intn(len(peers)), bs, st, true, "multi"))
				}
			}
			if long {
				// more distinct identifiers than the seen set holds, then the earlier ones again
				var filler []*arrival
				for k := 0; k < seenCap+rng.Intn(5)-2; k++ {
					filler = append(filler, mkNB(3, rng.Bytes(32)))
				}
				again := append([]*arrival{}, seq...)
				for _, a := range again {
					if a.kind == "nb" { // the per-peer cache would hide the repetition: let another peer repeat it
						filler = append(filler, mkNB((a.from+1)%len(peers), a.id))
					} else {
						filler = append(filler, a)
					}
				}
				seq = append(seq, filler...)
			}
		}

		// run 1: the whole session, recorded for the model
		s1 := newSMSession(peers, chainHas)
		run.Op(fmt.Sprintf("sm new %d", seenCap), "ok", false)
		type fate struct {
			ans string
			fwd bool
		}
		fates := make([]fate, len(seq))
		served := map[string]int{} // identifier -> 1 + index of the first arrival after which the node has/asked for the genuine block
		for i, a := range seq {
			tail := a.opTail
			if a.kind == "nb" {
				// the peer's own notice cache (RemotePeer, not driven here) hides a repeated notice from the sync manager:
				// an input of the op
				peerSeen := false
				if len(a.id) == 32 {
					peerSeen = peers[a.from].seen[types.ToBlockID(a.id)]
				}
				tail = fmt.Sprintf(a.opTail, b2i(peerSeen))
			}
			ans, fwd, panicked := s1.deliver(a)
			op := fmt.Sprintf("sm %s %s", a.kind, tail)
			run.Op(op, ans, ans != "nothing")
			run.Count(fmt.Sprintf("sm-%s-%s=%s", a.kind, a.shape, strings.SplitN(ans, " ", 2)[0]))
			if panicked {
				run.Fail("a block message handler panicked", map[string]interface{}{"op": op, "session": sess, "index": i})
			}
			fates[i] = fate{ans, fwd != nil}
			if served[string(a.id)] == 0 {
				if fwd != nil && bytes.Equal(digestOf(fwd), fwd.GetHash()) && a.genuine {
					served[string(a.id)] = i + 1
				}
				if strings.HasPrefix(ans, "request ") {
					served[string(a.id)] = i + 1
				}
			}
			if fwd != nil && !bytes.Equal(digestOf(fwd), fwd.GetHash()) {
				// the listed class C18-id-not-recomputed at this entry point: exactly "the header does not hash to the carried id"
				run.Count("known:C18-id-not-recomputed@syncmanager-" + a.kind)
				run.FailKnown("the sync manager forwards a block whose header does not hash to its announced identifier (identifier never recomputed on receipt)",
					"C18-id-not-recomputed", map[string]interface{}{"op": op, "session": sess, "index": i, "carried_hash": hx(fwd.GetHash()), "digest_of_header": hx(digestOf(fwd))})
			}
			if fwd != nil && fwd.Size() > maxBlock {
				run.Fail("the sync manager forwarded a block larger than a block may be", map[string]interface{}{"op": op, "session": sess, "index": i})
			}
		}
		// run 2: the same session without the arrivals whose content does not hash to the identifier they announce
		s2 := newSMSession(peers, chainHas)
		for i, a := range seq {
			if !a.genuine {
				continue
			}
			ans, _, _ := s2.deliver(a)
			run.Eval("", false)
			if ans == fates[i].ans {
				continue
			}
			// which altered arrival put this identifier into the seen set? the first notice with altered content that names it
			// and passes the handler's sender check
			shape, entitled := "?", false
			for _, e := range seq[:i] {
				if !e.genuine && e.kind == "bp" && bytes.Equal(e.id, a.id) && e.reaches {
					shape, entitled = e.shape, true
					break
				}
			}
			replay := map[string]interface{}{"session": sess, "index": i, "arrival": a.kind + " " + a.opTail, "from": peers[a.from].name,
				"with_altered_copies": fates[i].ans, "without_them": ans, "altered_shape": shape}
			var tr []string
			for _, e := range seq[:i+1] {
				tr = append(tr, fmt.Sprintf("%s from=%s %s [%s]", e.kind, peers[e.from].name, strings.Replace(e.opTail, "%d", "?", 1), e.shape))
			}
			replay["arrivals"] = tr
			if strings.HasPrefix(ans, "nothing") {
				run.Count("sm-altered-copy-caused-extra-action") // eviction order: the node does more, not less
				continue
			}
			// the genuine arrival was acted on in the clean session and ignored in the real one. Harmless if the node already
			// has what the arrival offers: genuine content of that identifier was forwarded, or the block was asked for, earlier
			// in the real session (then this is the ordinary de-duplication, shifted by the table's eviction order).
			if served[string(a.id)] < i+1 && served[string(a.id)] > 0 {
				run.Count("sm-duplicate-dropped-differently")
				continue
			}
			_ = entitled
			run.Fail("content that does not hash to its announced identifier changed what the node does with the genuine block", replay)
		}
	}
}
