// Part 4: the handshake as a peer sees it — the production entry points (InboundWireHandshaker / OutboundWireHandshaker
// .Handle, the production version manager with its version negotiation, GetVersionedHandshaker and GetChainID(height), the
// DoForInbound / DoForOutbound wrappers of every accepted protocol version) driven over an in-memory connection whose other
// end is a scripted peer. The oracle is the property: the handshake may succeed only with the same genesis block, the
// chain identifier the node has at the peer's height, and the peer identity of the connection.
package main

import (
	"bytes"
	"encoding/binary"
	"fmt"
	"io"
	"os"
	"path/filepath"
	"strings"
	"time"

	"github.com/aergoio/aergo/v2/chain"
	"github.com/aergoio/aergo/v2/config"
	"github.com/aergoio/aergo/v2/internal/network"
	"github.com/aergoio/aergo/v2/p2p"
	"github.com/aergoio/aergo/v2/p2p/p2pcommon"
	"github.com/aergoio/aergo/v2/p2p/p2pkey"
	"github.com/aergoio/aergo/v2/p2p/p2putil"
	"github.com/aergoio/aergo/v2/types"
	"github.com/aergoio/aergo/v2/zz_verif/vh"
	"github.com/rs/zerolog"
)

// scriptConn: the bytes the remote peer sends (all of them, then EOF) and what the node wrote.
type scriptConn struct {
	in     *bytes.Reader
	out    bytes.Buffer
	closed bool
}

func (c *scriptConn) Read(p []byte) (int, error)  { return c.in.Read(p) }
func (c *scriptConn) Write(p []byte) (int, error) { return c.out.Write(p) }
func (c *scriptConn) Close() error                { c.closed = true; return nil }

// fakes of the node's surroundings: only what the handshake reads is implemented; anything else is a nil-interface call
// (a panic the harness reports)
type fakeCA struct {
	types.ChainAccessor
	best   *types.Block
	vm     *fakeVM
	blocks map[string]*types.Block
}

func (f *fakeCA) GetBestBlock() (*types.Block, error)     { return f.best, nil }
func (f *fakeCA) ChainID(no types.BlockNo) *types.ChainID { return f.vm.GetChainID(no) }
func (f *fakeCA) GetBlock(h []byte) (*types.Block, error) {
	if b, ok := f.blocks[string(h)]; ok {
		return b, nil
	}
	return nil, fmt.Errorf("not found")
}

type fakeCM struct{ p2pcommon.CertificateManager }

func (fakeCM) GetCertificates() []*p2pcommon.AgentCertificateV1 { return nil }

type fakePM struct {
	p2pcommon.PeerManager
	self p2pcommon.PeerMeta
}

func (f *fakePM) SelfMeta() p2pcommon.PeerMeta { return f.self }

type sent struct {
	to  string
	msg interface{}
}

type fakeActor struct {
	p2pcommon.ActorService
	ca   types.ChainAccessor
	sent []sent
}

func (f *fakeActor) GetChainAccessor() types.ChainAccessor { return f.ca }
func (f *fakeActor) SendRequest(to string, m interface{})  { f.sent = append(f.sent, sent{to, m}) }
func (f *fakeActor) TellRequest(to string, m interface{})  { f.sent = append(f.sent, sent{to, m}) }

type fakeIS struct {
	p2pcommon.InternalService
	self     p2pcommon.PeerMeta
	ca       types.ChainAccessor
	settings p2pcommon.LocalSettings
}

func (f *fakeIS) SelfMeta() p2pcommon.PeerMeta                     { return f.self }
func (f *fakeIS) SelfNodeID() types.PeerID                         { return f.self.ID }
func (f *fakeIS) GetChainAccessor() types.ChainAccessor            { return f.ca }
func (f *fakeIS) CertificateManager() p2pcommon.CertificateManager { return fakeCM{} }
func (f *fakeIS) LocalSettings() p2pcommon.LocalSettings           { return f.settings }

// hsWorld: one node configuration.
type hsWorld struct {
	name    string
	vm      *fakeVM
	genesis *types.Genesis
	cs      *chain.ChainService
}

// newRealChain: a production ChainService on a fresh memory store initialised with the given genesis and hard-fork
// heights; its ChainID(height) is what the production version manager asks.
func newRealChain(dir string, id types.ChainID, hf config.HardforkConfig) (*chain.ChainService, *types.Genesis) {
	os.RemoveAll(dir)
	g := &types.Genesis{ID: id, Timestamp: 1_600_000_000_000_000_000,
		Balance: map[string]string{"AmPNYHyzyh9zweLwDyuoiUuTVCdrdksxkRWDjVJS76WQLExa2Jr4": "1000000000000000000000"}}
	core, err := chain.NewCore("memorydb", dir, false, 0, &config.DBConfig{})
	if err != nil {
		panic(err)
	}
	if err := core.InitGenesisBlock(g, false); err != nil {
		panic(err)
	}
	core.Close()
	cfg := config.NewServerContext("", "").GetDefaultConfig().(*config.Config)
	cfg.DbType = "memorydb"
	cfg.DataDir = dir
	cfg.Blockchain.NumWorkers = 1
	cfg.Blockchain.VerifierCount = 1
	cfg.Hardfork = &hf
	cs := chain.NewChainService(cfg)
	return cs, cs.GetGenesisInfo()
}

var wireVersions = []p2pcommon.P2PVersion{p2pcommon.P2PVersion200, p2pcommon.P2PVersion033, p2pcommon.P2PVersion032, p2pcommon.P2PVersion031}

func verNo(v p2pcommon.P2PVersion) int {
	switch v {
	case p2pcommon.P2PVersion200:
		return 200
	case p2pcommon.P2PVersion033:
		return 33
	case p2pcommon.P2PVersion032:
		return 32
	case p2pcommon.P2PVersion031:
		return 31
	}
	return 0
}

func frameOf(sub p2pcommon.SubProtocol, payload []byte, rng *vh.Rng) []byte {
	return append(header(sub.Uint32(), uint32(len(payload)), pickTs(rng), pickID(rng), pickID(rng)), payload...)
}

// parseFrames splits what the node wrote after the wire header into frames (sub-protocol ids).
func parseFrames(b []byte) (subs []p2pcommon.SubProtocol, bodies [][]byte, clean bool) {
	for len(b) >= hdrLen {
		n := int(binary.BigEndian.Uint32(b[4:8]))
		if len(b) < hdrLen+n {
			return subs, bodies, false
		}
		subs = append(subs, p2pcommon.SubProtocol(binary.BigEndian.Uint32(b[0:4])))
		bodies = append(bodies, b[hdrLen:hdrLen+n])
		b = b[hdrLen+n:]
	}
	return subs, bodies, len(b) == 0
}

func wireHandshake(run *vh.Run) {
	rng := run.Rng
	setMax(types.MaxMessageSize())
	lvl := zerolog.GlobalLevel()
	zerolog.SetGlobalLevel(zerolog.Disabled) // the chain service logs through the global logger
	defer zerolog.SetGlobalLevel(lvl)
	p2pkey.VerifC08SetNodeSID("c18") // NodeVersion() needs an initialised node info
	defer p2pkey.VerifC08SetNodeSID("")
	bps := []bpKey{newBP(rng), newBP(rng), newBP(rng)}

	// worlds: two production chain services with different hard-fork schedules (versions 0,2,3,4,5 as config.HardforkConfig
	// numbers them) and harness-made schedules behind the same production version manager
	var worlds []*hsWorld
	realCfgs := []struct {
		id types.ChainID
		hf config.HardforkConfig
	}{
		{types.ChainID{Magic: "c18.verif", Consensus: "sbp"}, config.HardforkConfig{V2: 100, V3: 250, V4: 250, V5: 4000}},
		{types.ChainID{Magic: "c18b.verif", Consensus: "sbp", PublicNet: false, MainNet: false}, config.HardforkConfig{V2: 0, V3: 7, V4: 90000, V5: 1 << 40}},
	}
	for i, rc := range realCfgs {
		cs, g := newRealChain(filepath.Join(run.Out, fmt.Sprintf("hschain%d", i)), rc.id, rc.hf)
		vm := &fakeVM{base: g.ID, real: cs.ChainID}
		// era boundaries and the version of each era, written down independently of HardforkConfig.Version
		hs := []uint64{rc.hf.V2, rc.hf.V3, rc.hf.V4, rc.hf.V5}
		vm.vers = []int32{0}
		for k, h := range hs {
			if k > 0 && hs[k-1] == h { // two versions activated at the same height: the later one counts
				vm.vers[len(vm.vers)-1] = int32(k + 2)
				continue
			}
			if h == 0 { // active from the genesis block on
				vm.vers[0] = int32(k + 2)
				continue
			}
			vm.forks = append(vm.forks, h)
			vm.vers = append(vm.vers, int32(k+2))
		}
		worlds = append(worlds, &hsWorld{name: fmt.Sprintf("real%d", i), vm: vm, genesis: g, cs: cs})
	}
	defer func() {
		for _, w := range worlds {
			if w.cs != nil {
				w.cs.BeforeStop()
			}
		}
	}()
	magics := []string{"aergo.io", "testnet.aergo.io", "x"}
	for i := 0; i < 3; i++ {
		vm := &fakeVM{base: types.ChainID{Version: int32(rng.Intn(3)), PublicNet: rng.Bool(), MainNet: rng.Bool(), Magic: magics[i], Consensus: "dpos"}}
		h := uint64(0)
		for k := rng.Intn(4); k > 0; k-- {
			h += uint64(1 + rng.Intn(100000))
			vm.forks = append(vm.forks, h)
		}
		g := &types.Genesis{ID: vm.base, Timestamp: int64(1_500_000_000_000_000_000 + i)}
		worlds = append(worlds, &hsWorld{name: fmt.Sprintf("fake%d", i), vm: vm, genesis: g})
	}
	savedGenesis := chain.Genesis
	defer func() { chain.Genesis = savedGenesis }()

	for i := 0; i < run.Pick(2500, 16000); i++ {
		w := worlds[rng.Intn(len(worlds))]
		if i < 2*len(worlds) {
			w = worlds[i%len(worlds)]
		}
		vm := w.vm
		chain.Genesis = w.genesis // what GetVersionedHandshaker reads (chain.Genesis.Block().Hash)
		genHash := w.genesis.Block().BlockHash()
		selfID := newPeerID(rng)
		self := p2pcommon.NewMetaWith1Addr(selfID, "192.168.1.9", 7846, "v2.0.0")
		self.Role = types.PeerRole_Watcher
		localBest := uint64(rng.Intn(200000))
		best := &types.Block{Header: &types.BlockHeader{BlockNo: localBest, PrevBlockHash: rng.Bytes(32)}, Body: &types.BlockBody{}}
		best.BlockHash()
		ca := &fakeCA{best: best, vm: vm}
		actor := &fakeActor{ca: ca}
		pm := &fakePM{self: self}
		is := &fakeIS{self: self, ca: ca}
		genesisID := *vm.expected(0)
		genesisID.Version = vm.base.Version // p2ps.genesisChainID: the identifier written in the genesis block
		verM := p2p.VerifC18VersionManager(is, actor, pm, ca, hsLogger, &genesisID)

		// the remote peer
		peerID := newPeerID(rng)
		height := uint64(rng.Intn(300000))
		if len(vm.forks) > 0 && rng.Chance(2, 3) {
			height = vm.forks[rng.Intn(len(vm.forks))] + uint64(rng.Intn(3)) - 1
		}
		if rng.Chance(1, 8) {
			height = uint64(rng.Intn(3))
		}
		cid, err := vm.expected(height).Bytes()
		if err != nil {
			panic(err)
		}
		// a peer that only speaks the legacy versions and presents the identifier of the genesis era, as those versions
		// expect it: the status the legacy handshakers accept, so that every single deviation from it is meaningful there
		legacyPeer := rng.Chance(1, 4)
		if legacyPeer {
			cid, _ = genesisID.Bytes()
		}
		role := []types.PeerRole{types.PeerRole_LegacyVersion, types.PeerRole_Producer, types.PeerRole_Watcher}[rng.Intn(3)]
		sender := &types.PeerAddress{Address: addrsOK[rng.Intn(len(addrsOK))], Port: uint32(1 + rng.Intn(65535)), PeerID: []byte(peerID), Role: role, Version: "v2.0.0"}
		if rng.Bool() {
			ma, _ := types.ToMultiAddr(sender.Address, sender.Port)
			if ma != nil {
				sender.Addresses = []string{ma.String()}
			}
		}
		base := &types.Status{ChainID: cid, BestHeight: height, BestBlockHash: rng.Bytes(32), Sender: sender, Genesis: append([]byte{}, genHash...),
			NoExpose: rng.Bool(), Version: "v2.0.0"}
		c := hsCase{vm, peerID, genHash, cloneStatus(base)}
		muts := statusMuts(rng, vm, bps)
		muts = append(muts,
			mut{"chain.genesis-era-id", func(c *hsCase) { // the identifier of the genesis era, presented at the peer's height
				g := genesisID
				c.st.ChainID, _ = g.Bytes()
			}},
			mut{"genesis.empty", func(c *hsCase) { c.st.Genesis = nil }},
		)
		field := "none"
		switch rng.Intn(10) {
		case 0, 1, 2:
		case 3:
			field = "multi"
			for j := 0; j < 2; j++ {
				m := muts[rng.Intn(len(muts))]
				if c.st.Sender == nil || len(c.st.ChainID) < 8 || bytes.IndexByte(c.st.ChainID[6:], '/') < 0 || len(c.st.Sender.PeerID) == 0 {
					break
				}
				m.f(&c)
			}
		default:
			m := muts[rng.Intn(len(muts))]
			if i%4 == 0 { // the three fields the property names, often
				want := []string{"chain.genesis-era-id", "genesis.empty", "genesis", "chain.version", "height.other-era", "sender.peerid"}[rng.Intn(6)]
				for _, x := range muts {
					if x.name == want {
						m = x
					}
				}
			}
			for m.name == "local.genesis" || m.name == "local.peerid" { // the local view is the production wiring here
				m = muts[rng.Intn(len(muts))]
			}
			field = m.name
			m.f(&c)
		}
		st := c.st

		// what the peer sends after the version exchange
		kind := "status"
		var second []byte
		switch k := rng.Intn(20); {
		case k == 0:
			kind = "goaway"
			pl, _ := p2putil.MarshalMessageBody(&types.GoAwayNotice{Message: "bye"})
			second = frameOf(p2pcommon.GoAway, pl, rng)
		case k == 1:
			kind = "othersub"
			pl, _ := p2putil.MarshalMessageBody(st)
			second = frameOf([]p2pcommon.SubProtocol{p2pcommon.PingRequest, p2pcommon.NewBlockNotice, p2pcommon.AddressesRequest}[rng.Intn(3)], pl, rng)
		case k == 2:
			kind = "garbage"
			pl := rng.Bytes(1 + rng.Intn(60))
			pl[0] = 0xff // an invalid protobuf tag
			second = frameOf(p2pcommon.StatusRequest, pl, rng)
		case k == 3:
			kind = "cut"
			pl, _ := p2putil.MarshalMessageBody(st)
			fr := frameOf(p2pcommon.StatusRequest, pl, rng)
			second = fr[:rng.Intn(len(fr))]
		case k == 4:
			kind = "toobig"
			second = header(p2pcommon.StatusRequest.Uint32(), types.MaxMessageSize()+1+uint32(rng.Intn(1000)), 0, pickID(rng), pickID(rng))
		default:
			pl, err := p2putil.MarshalMessageBody(st)
			if err != nil {
				panic(err)
			}
			second = frameOf(p2pcommon.StatusRequest, pl, rng)
		}

		inbound := rng.Chance(2, 3)
		// versions: what the peer offers (inbound) / answers (outbound)
		var offered []p2pcommon.P2PVersion
		switch k := rng.Intn(12); {
		case legacyPeer:
			offered = [][]p2pcommon.P2PVersion{{p2pcommon.P2PVersion032}, {p2pcommon.P2PVersion031}, {p2pcommon.P2PVersion031, p2pcommon.P2PVersion032},
				{p2pcommon.P2PVersion032, p2pcommon.P2PVersion030}}[rng.Intn(4)]
		case k == 0:
			offered = []p2pcommon.P2PVersion{p2pcommon.P2PVersion200}
		case k == 1:
			offered = []p2pcommon.P2PVersion{p2pcommon.P2PVersion033}
		case k == 2:
			offered = []p2pcommon.P2PVersion{p2pcommon.P2PVersion032}
		case k == 3, k == 4:
			offered = []p2pcommon.P2PVersion{p2pcommon.P2PVersion031}
		case k == 5:
			offered = append([]p2pcommon.P2PVersion{}, wireVersions...)
		case k == 6:
			offered = []p2pcommon.P2PVersion{p2pcommon.P2PVersion031, p2pcommon.P2PVersion032, p2pcommon.P2PVersion033, p2pcommon.P2PVersion200}
		case k == 7:
			offered = []p2pcommon.P2PVersion{p2pcommon.P2PVersion030, p2pcommon.P2PVersion(rng.Next()), p2pcommon.P2PVersionUnknown}[:1+rng.Intn(3)]
		case k == 8:
			offered = []p2pcommon.P2PVersion{p2pcommon.P2PVersion030, wireVersions[rng.Intn(4)], p2pcommon.P2PVersion(0x00020001)}
		case k == 9:
			for k := rng.Intn(p2pcommon.HSMaxVersionCnt + 3); k > 0; k-- {
				offered = append(offered, wireVersions[rng.Intn(4)])
			}
		default:
			for _, v := range wireVersions {
				if rng.Bool() {
					offered = append(offered, v)
				}
			}
			rng2 := rng.Intn(len(offered) + 1)
			offered = append(offered[rng2:], offered[:rng2]...)
		}
		magic := p2pcommon.MAGICMain
		if rng.Chance(1, 15) {
			magic = []uint32{0, p2pcommon.MAGICTest, uint32(rng.Next())}[rng.Intn(3)]
		}
		var first []byte
		if inbound {
			first = p2pcommon.HSHeadReq{Magic: magic, Versions: offered}.Marshal()
		} else {
			if len(offered) == 0 {
				offered = []p2pcommon.P2PVersion{p2pcommon.P2PVersionUnknown}
			}
			offered = offered[:1]
			first = p2pcommon.HSHeadResp{Magic: magic, RespCode: offered[0].Uint32()}.Marshal()
		}
		conn := &scriptConn{in: bytes.NewReader(append(append([]byte{}, first...), second...))}
		var res *p2pcommon.HandshakeResult
		var herr error
		_, panicked := vh.Guard(func() string {
			if inbound {
				res, herr = p2p.NewInboundHSHandler(pm, actor, verM, hsLogger, &genesisID, peerID).Handle(conn, time.Hour)
			} else {
				res, herr = p2p.NewOutboundHSHandler(pm, actor, verM, hsLogger, &genesisID, peerID).Handle(conn, time.Hour)
			}
			return ""
		})

		// which versions the node is prepared to speak at all (its lists and the handshaker factory), read from the code
		var accepted []string
		for _, v := range p2pcommon.AcceptedInboundVersions {
			accepted = append(accepted, fmt.Sprint(verNo(v), ":", v.Uint32()))
		}
		var made []string
		for _, v := range wireVersions {
			if h, e := verM.GetVersionedHandshaker(v, peerID, &scriptConn{in: bytes.NewReader(nil)}); e == nil && h != nil {
				made = append(made, fmt.Sprint(verNo(v)))
			}
		}

		// the op line
		var sb strings.Builder
		dir := "out"
		if inbound {
			dir = "in"
		}
		fmt.Fprintf(&sb, "hsw %s %d %d", dir, b2i(magic == p2pcommon.MAGICMain), len(p2pcommon.AcceptedInboundVersions))
		for _, v := range p2pcommon.AcceptedInboundVersions {
			fmt.Fprintf(&sb, " %d", v.Uint32())
		}
		fmt.Fprintf(&sb, " %d", len(made))
		for _, v := range made {
			sb.WriteString(" " + v)
		}
		fmt.Fprintf(&sb, " %d", len(offered))
		for _, v := range offered {
			fmt.Fprintf(&sb, " %d", v.Uint32())
		}
		local := vm.expected(st.BestHeight)
		fmt.Fprintf(&sb, " %s %d %d %d %d %s %s %s %s %s %d %s %s", kind, uint32(genesisID.Version), uint32(local.Version), b2i(local.PublicNet), b2i(local.MainNet),
			hx([]byte(local.Magic)), hx([]byte(local.Consensus)), hx([]byte(peerID)), hx(genHash),
			hx(st.ChainID), st.BestHeight, hx(st.BestBlockHash), hx(st.Genesis))
		if st.Sender == nil {
			sb.WriteString(" nosender")
		} else {
			s := st.Sender
			addrOK := network.CheckAddressType(s.Address) != network.AddressTypeError
			// the legacy readers rebuild Addresses from Address/Port when it is empty: an unusable pair ends the handshake there
			legacyAddr := len(s.Addresses) > 0
			if !legacyAddr {
				_, e := types.ToMultiAddr(s.Address, s.Port)
				legacyAddr = e == nil
			}
			fmt.Fprintf(&sb, " sender %d %d %s %d %d", b2i(addrOK), b2i(legacyAddr), hx(s.PeerID), uint32(s.Role), len(s.ProducerIDs))
			for _, p := range s.ProducerIDs {
				sb.WriteString(" " + hx(p))
			}
			fmt.Fprintf(&sb, " %d", len(st.Certificates))
			for _, ct := range st.Certificates {
				_, cerr := p2putil.CheckAndGetV1(ct)
				fmt.Fprintf(&sb, " %d %s %s", b2i(cerr == nil), hx(ct.AgentID), hx(ct.BPID))
			}
		}
		op := sb.String()
		replay := map[string]interface{}{"op": op, "field": field, "world": w.name, "direction": dir, "kind": kind, "accepted_versions": accepted}
		if panicked {
			run.Op(op, "panic", false)
			run.Fail("the handshake panicked", replay)
			continue
		}

		// what the node wrote: inbound — wire response (8 bytes: magic, version or error code), then frames
		wrote := conn.out.Bytes()
		negotiated := 0
		var frames []p2pcommon.SubProtocol
		if inbound {
			if len(wrote) >= 8 {
				if binary.BigEndian.Uint32(wrote[0:4]) == magic && magic != p2pcommon.HSError {
					negotiated = verNo(p2pcommon.P2PVersion(binary.BigEndian.Uint32(wrote[4:8])))
				}
				frames, _, _ = parseFrames(wrote[8:])
			}
		} else {
			// the node's request: magic, count, versions; then frames
			if len(wrote) >= 8 {
				n := int(binary.BigEndian.Uint32(wrote[4:8]))
				if len(wrote) >= 8+4*n {
					frames, _, _ = parseFrames(wrote[8+4*n:])
				}
			}
			if magic == p2pcommon.MAGICMain {
				negotiated = verNo(offered[0])
			}
		}
		sentStatus, sentGoAway := false, false
		for _, f := range frames {
			sentStatus = sentStatus || f == p2pcommon.StatusRequest
			sentGoAway = sentGoAway || f == p2pcommon.GoAway
		}
		accepted1 := herr == nil && res != nil
		ans := "reject"
		switch {
		case herr == nil && res == nil:
			ans = "nil-nil"
		case accepted1:
			ans = "ok"
		}
		line := fmt.Sprintf("v=%d %s", negotiated, ans)
		run.Op(op, line, accepted1 || (kind == "status" && field != "multi" && negotiated != 0))
		run.Count(fmt.Sprintf("hsw-%s-v%d-%s-%s=%s", dir, negotiated, kind, field, ans))
		run.Count(fmt.Sprintf("hsw-%s-v%d=%s", dir, negotiated, ans))
		if ans == "nil-nil" {
			run.Fail("the handshake returned neither a result nor an error", replay)
			continue
		}
		if !accepted1 {
			// an inbound peer that was refused after the version exchange must not have been sent the node's status
			if inbound && sentStatus {
				run.Fail("a refused inbound peer was sent the node's status message", replay)
			}
			continue
		}
		replay["negotiated"] = negotiated
		// oracle: success only with the same genesis, a compatible chain id, and the connection's peer id — and only on a
		// status message the peer really sent
		ok, v, pub, mn, mg, cs := decodeChainID(st.ChainID)
		compatible := ok && v == local.Version && pub == local.PublicNet && mn == local.MainNet && mg == local.Magic && cs == local.Consensus
		what := ""
		switch {
		case kind != "status":
			what = "handshake succeeded without a status message from the peer"
		case !bytes.Equal(st.Genesis, genHash):
			what = "handshake succeeded with a peer presenting a different genesis block"
		case !compatible:
			what = "handshake succeeded with a peer on an incompatible chain identifier"
		case st.Sender == nil || string(st.Sender.PeerID) != string(peerID):
			what = "handshake succeeded with a peer id that is not the connection's"
		case res.Meta.ID != peerID:
			what = "handshake result names a peer that is not the connection's"
		case uint64(res.BestBlockNo) != st.BestHeight || res.Hidden != st.NoExpose:
			what = "handshake result does not carry the peer's status"
		}
		if what != "" {
			// known finding C18-legacy-handshake-0.3.x, exactly its two shapes: protocol 0.3.1 compares no genesis hash; 0.3.1 and
			// 0.3.2 accept the genesis-era chain identifier at any height. Anything else over these versions (0.3.2 with another
			// genesis, another peer id, a chain id that is neither the node's at that height nor the genesis-era one) is unlisted.
			gb, _ := genesisID.Bytes()
			gok, gv, gpub, gmn, gmg, gcs := decodeChainID(gb)
			genesisEra := ok && gok && v == gv && pub == gpub && mn == gmn && mg == gmg && cs == gcs
			sameGenesis, samePeer := bytes.Equal(st.Genesis, genHash), st.Sender != nil && string(st.Sender.PeerID) == string(peerID)
			listed := samePeer && kind == "status" &&
				((negotiated == 31 && (compatible || genesisEra)) || (negotiated == 32 && sameGenesis && genesisEra))
			if listed {
				run.Count(fmt.Sprintf("known:C18-legacy-handshake-0.3.x:v0%d:%s", negotiated, strings.TrimPrefix(what, "handshake succeeded with a peer ")))
				run.FailKnown(what+fmt.Sprintf(" (p2p protocol version 0.3.%d)", negotiated%10), "C18-legacy-handshake-0.3.x", replay)
				continue
			}
			run.Fail(what, replay)
		}
		if !sentStatus {
			run.Fail("handshake succeeded but the node did not send its own status", replay)
		}
		_ = sentGoAway
		_ = io.EOF
	}
}
