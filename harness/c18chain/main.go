// Harness c18chain: the chain-service half of property C18 (third clause: blocks are stored and referenced by the digest
// of their header; an altered copy must not affect what the node later accepts). Machinery shared with C05 (harness/c05lib):
// a real ChainService on memorydb, altered copies of blocks offered around the genuine one, compared with the Chain model.
package main

import "github.com/aergoio/aergo/v2/zz_verif/c05lib"

func main() { c05lib.Main("C18") }
