// Harness c19: the real digest writers, Merkle root, receipt codecs, chain-id codec, hardfork version
// functions and the gob storage path, driven on generated inputs against the Lean model (model-c19),
// with the property's own predicates (binding under single-field mutation, exact-list commitment,
// read-back equality, version monotonicity/stability) evaluated on the real results.
package main

import (
	"bytes"
	"crypto/sha256"
	"encoding/hex"
	"encoding/json"
	"fmt"
	"math/big"
	"reflect"
	"sort"
	"strconv"
	"strings"

	"github.com/aergoio/aergo/v2/account/key"
	"github.com/aergoio/aergo/v2/config"
	"github.com/aergoio/aergo/v2/internal/enc/gob"
	"github.com/aergoio/aergo/v2/internal/merkle"
	"github.com/aergoio/aergo/v2/types"
	"github.com/aergoio/aergo/v2/zz_verif/vh"
	"github.com/willf/bloom"
)

var run *vh.Run
var rng *vh.Rng

func hx(b []byte) string {
	if len(b) == 0 {
		return "-"
	}
	return hex.EncodeToString(b)
}

func main() {
	run = vh.Start("c19", "enc: random block headers / tx bodies (boundary integers, empty and odd-length byte fields), real digest input vs model; "+
		"mut: every exported field of BlockHeader/TxBody mutated singly (bit flip, append, prepend, truncate) against all four digests; "+
		"merkle: every entry count 0..40 (thorough ..130), nil and odd-length entry hashes; root oracle on same-length changes/swaps, append/drop, all same-length lists over 3 letters up to length 4 (6), deliberate odd-duplication probe; "+
		"receipts: well-formed and ill-formed receipts (with/without events, bloom, fee delegation) in both formats at and around the V2 fork height: store/Merkle bytes, decode of exact/truncated/trailing bytes, Receipts container through gob, receipts root, single-field mutation oracle; "+
		"chain ids incl. '/' and non-UTF-8 names, int32 boundaries, mutated/truncated bytes, MakeChainId, ChainIdEqualWithoutVersion; "+
		"hardfork: sorted/unsorted configs, every height next to a fork height, all 256 configs over heights 0..3, database copies altered/missing/newer/bad keys; genesis gob round trip (real code only); "+
		"non-trivial = the operation reached a non-error model clause; distinct by (op, answer)")
	// the model prints the input of a digest it cannot observe directly as `sha256:<hex>`; evaluated here with SHA-256
	run.EvalTerms(func(line string) string {
		if !strings.HasPrefix(line, "sha256:") {
			return line
		}
		arg := strings.TrimPrefix(line, "sha256:")
		var b []byte
		if arg != "-" {
			var err error
			if b, err = hex.DecodeString(arg); err != nil {
				return line
			}
		}
		return hx(sha(b))
	})
	defer run.Finish()
	// vh.NewRng(seed) starts splitmix64 at seed*gamma+c, so the streams of seeds k and k+1 are the same stream shifted by one
	// draw and re-synchronise quickly; forking through one mixed output gives unrelated streams per seed.
	rng = run.Rng.Fork()
	digests()
	merkles()
	receipts()
	chainIDs()
	hardforks()
	genesisStore()
	inventories()
	stateful()
}

// ---------------------------------------------------------------------------------------------
// 1. digests: block id, header signing message, tx id, tx signing digest

var boundaryU64 = []uint64{0, 1, 255, 256, 65535, 65536, 1<<32 - 1, 1 << 32, 1<<63 - 1, 1 << 63, 1<<64 - 1}

func randU64() uint64 {
	switch rng.Intn(4) {
	case 0:
		return boundaryU64[rng.Intn(len(boundaryU64))]
	case 1:
		return uint64(rng.Intn(1000))
	default:
		return rng.Next() >> uint(rng.Intn(64))
	}
}

func randBytes(typical int) []byte {
	switch rng.Intn(8) {
	case 0:
		return nil
	case 1:
		return rng.Bytes(1 + rng.Intn(3))
	case 2:
		return rng.Bytes(typical + 1 - rng.Intn(3))
	case 3:
		return make([]byte, typical) // all zero
	default:
		return rng.Bytes(typical)
	}
}

// fill sets every exported field of a protobuf struct to a generated value (reflection: a field added
// to the struct later is generated and mutated too).
func fill(v reflect.Value, typical map[string]int) {
	t := v.Type()
	for i := 0; i < t.NumField(); i++ {
		f := t.Field(i)
		if !f.IsExported() {
			continue
		}
		fv := v.Field(i)
		switch fv.Kind() {
		case reflect.Slice:
			n, ok := typical[f.Name]
			if !ok {
				n = 32
			}
			fv.SetBytes(randBytes(n))
		case reflect.Uint64, reflect.Uint32:
			fv.SetUint(randU64())
		case reflect.Int64:
			fv.SetInt(int64(randU64()))
		case reflect.Int32:
			fv.SetInt(int64(int32(randU64())))
		default:
			panic("c19 harness: field kind not handled: " + f.Name + " " + fv.Kind().String())
		}
	}
}

func exportedFields(t reflect.Type) []string {
	var out []string
	for i := 0; i < t.NumField(); i++ {
		if t.Field(i).IsExported() {
			out = append(out, t.Field(i).Name)
		}
	}
	return out
}

// assigns renders the record for the model: Name=<hex> for bytes, Name=#<unsigned bit pattern> for integers.
func assigns(v reflect.Value) string {
	var sb strings.Builder
	t := v.Type()
	for i := 0; i < t.NumField(); i++ {
		f := t.Field(i)
		if !f.IsExported() {
			continue
		}
		fv := v.Field(i)
		sb.WriteByte(' ')
		sb.WriteString(f.Name)
		sb.WriteByte('=')
		switch fv.Kind() {
		case reflect.Slice:
			sb.WriteString(hx(fv.Bytes()))
		case reflect.Uint64:
			fmt.Fprintf(&sb, "#%d", fv.Uint())
		case reflect.Uint32:
			fmt.Fprintf(&sb, "#%d", fv.Uint())
		case reflect.Int64:
			fmt.Fprintf(&sb, "#%d", uint64(fv.Int()))
		case reflect.Int32:
			fmt.Fprintf(&sb, "#%d", uint32(int32(fv.Int())))
		}
	}
	return sb.String()
}

// verified returns the hex of cand if its SHA-256 is the real digest, else a marker that can never equal a model answer.
func verified(cand, realDigest []byte) string {
	s := sha256.Sum256(cand)
	if bytes.Equal(s[:], realDigest) {
		return hx(cand)
	}
	return "digest-input-not-identified:" + hx(realDigest)
}

func mutateField(v reflect.Value, name string) {
	fv := v.FieldByName(name)
	switch fv.Kind() {
	case reflect.Slice:
		fv.SetBytes(flip(fv.Bytes()))
	case reflect.Uint64, reflect.Uint32:
		bits := 64
		if fv.Kind() == reflect.Uint32 {
			bits = 32
		}
		fv.SetUint(fv.Uint() ^ (1 << uint(rng.Intn(bits))))
	case reflect.Int64:
		fv.SetInt(fv.Int() ^ (1 << uint(rng.Intn(64))))
	case reflect.Int32:
		fv.SetInt(int64(int32(fv.Int()) ^ (1 << uint(rng.Intn(32)))))
	}
}

func flip(b []byte) []byte {
	if len(b) == 0 {
		return []byte{byte(rng.Intn(256))} // incl. a single zero byte
	}
	c := append([]byte{}, b...)
	switch rng.Intn(4) {
	case 0:
		c[rng.Intn(len(c))] ^= byte(1 << uint(rng.Intn(8)))
	case 1:
		c = append(c, byte(rng.Intn(2))) // append 0x00 or 0x01
	case 2:
		c = c[:len(c)-1] // possibly to empty
	default:
		c = append([]byte{byte(rng.Intn(2))}, c...) // prepend
	}
	return c
}

func cloneHeader(h *types.BlockHeader) *types.BlockHeader {
	c := &types.BlockHeader{}
	cv, hv := reflect.ValueOf(c).Elem(), reflect.ValueOf(h).Elem()
	for _, f := range exportedFields(hv.Type()) {
		if hv.FieldByName(f).Kind() == reflect.Slice {
			cv.FieldByName(f).SetBytes(append([]byte(nil), hv.FieldByName(f).Bytes()...))
		} else {
			cv.FieldByName(f).Set(hv.FieldByName(f))
		}
	}
	return c
}

func cloneBody(h *types.TxBody) *types.TxBody {
	c := &types.TxBody{}
	cv, hv := reflect.ValueOf(c).Elem(), reflect.ValueOf(h).Elem()
	for _, f := range exportedFields(hv.Type()) {
		if hv.FieldByName(f).Kind() == reflect.Slice {
			cv.FieldByName(f).SetBytes(append([]byte(nil), hv.FieldByName(f).Bytes()...))
		} else {
			cv.FieldByName(f).Set(hv.FieldByName(f))
		}
	}
	return c
}

func blockID(h *types.BlockHeader) []byte {
	return types.VerifC19CalculateBlockHash(&types.Block{Header: h})
}
func blockMsg(h *types.BlockHeader) []byte {
	b, err := types.VerifC19BytesForDigest(h)
	if err != nil {
		panic(err)
	}
	return b
}
func txID(b *types.TxBody) []byte   { return (&types.Tx{Body: b}).CalculateTxHash() }
func txSign(b *types.TxBody) []byte { return key.CalculateHashWithoutSign(b) }

func digests() {
	hdrTypical := map[string]int{"ChainID": 20, "PubKey": 37, "CoinbaseAccount": 33, "Sign": 71, "Consensus": 8}
	txTypical := map[string]int{"Account": 33, "Recipient": 33, "Amount": 9, "Payload": 60, "GasPrice": 5, "Sign": 71}
	hdrFields := exportedFields(reflect.TypeOf(types.BlockHeader{}))
	txFields := exportedFields(reflect.TypeOf(types.TxBody{}))

	for i := 0; i < run.Pick(1500, 30000); i++ {
		// ---- block header
		h := &types.BlockHeader{}
		fill(reflect.ValueOf(h).Elem(), hdrTypical)
		as := assigns(reflect.ValueOf(h).Elem())
		var pre bytes.Buffer
		if err := types.VerifC19WriteBlockHeader(&pre, h); err != nil {
			panic(err)
		}
		id := blockID(h)
		run.Op("enc blk"+as, verified(pre.Bytes(), id), true)
		run.Op("enc blksign"+as, hx(blockMsg(h)), true)
		run.Count("enc-header")

		// ---- tx body
		b := &types.TxBody{}
		fill(reflect.ValueOf(b).Elem(), txTypical)
		as = assigns(reflect.ValueOf(b).Elem())
		run.Op("enc tx"+as, hx(txID(b)), true)
		run.Op("enc txsign"+as, hx(txSign(b)), true)
		run.Count("enc-tx")

		if i%10 != 0 {
			continue
		}
		// ---- single-field mutations, oracle = the property
		for _, f := range hdrFields {
			m := cloneHeader(h)
			mutateField(reflect.ValueOf(m).Elem(), f)
			idCh := !bytes.Equal(id, blockID(m))
			msgCh := !bytes.Equal(blockMsg(h), blockMsg(m))
			run.Op("mut blk "+f, fmt.Sprint(idCh), true)
			run.Op("mut blksign "+f, fmt.Sprint(msgCh), true)
			run.Count("mut-header")
			rep := map[string]interface{}{"field": f, "header": strings.TrimSpace(assigns(reflect.ValueOf(h).Elem())),
				"mutated": strings.TrimSpace(assigns(reflect.ValueOf(m).Elem()))}
			if !idCh {
				run.Fail("block identifier unchanged after changing header field "+f, rep)
			}
			if f != "Sign" && !msgCh {
				run.Fail("block signing digest unchanged after changing header field "+f, rep)
			}
			if f == "Sign" && msgCh {
				run.Fail("block signing digest depends on the signature itself", rep)
			}
		}
		for _, f := range txFields {
			m := cloneBody(b)
			mutateField(reflect.ValueOf(m).Elem(), f)
			idCh := !bytes.Equal(txID(b), txID(m))
			sgCh := !bytes.Equal(txSign(b), txSign(m))
			run.Op("mut tx "+f, fmt.Sprint(idCh), true)
			run.Op("mut txsign "+f, fmt.Sprint(sgCh), true)
			run.Count("mut-tx")
			rep := map[string]interface{}{"field": f, "body": strings.TrimSpace(assigns(reflect.ValueOf(b).Elem())),
				"mutated": strings.TrimSpace(assigns(reflect.ValueOf(m).Elem()))}
			if !idCh {
				run.Fail("transaction identifier unchanged after changing body field "+f, rep)
			}
			if f != "Sign" && !sgCh {
				run.Fail("transaction signing digest unchanged after changing body field "+f, rep)
			}
			if f == "Sign" && sgCh {
				run.Fail("transaction signing digest depends on the signature itself", rep)
			}
		}
	}
}

// ---------------------------------------------------------------------------------------------
// 2. Merkle root

type leaf []byte

func (l leaf) GetHash() []byte { return l }

func sha(parts ...[]byte) []byte {
	h := sha256.New()
	for _, p := range parts {
		h.Write(p)
	}
	return h.Sum(nil)
}

func nodeStr(b []byte) string {
	if b == nil {
		return "nil"
	}
	return hx(b)
}

// merkleOp records one `merkle` operation: the entry hashes, a table of true SHA-256 facts about pairs of
// nodes of the real tree (adjacent nodes and self pairs - independent of which pairs the algorithm uses),
// and the real root.
func merkleOp(hashes [][]byte) []byte {
	es := make([]merkle.MerkleEntry, len(hashes))
	for i, h := range hashes {
		es[i] = leaf(h)
	}
	return merkleOpReal(hashes, merkle.CalculateMerkleRoot(es))
}

// merkleOpReal: root is what the real code (CalculateMerkleRoot, CalculateTxsRootHash, Receipts.MerkleRoot) returned for these leaves.
func merkleOpReal(hashes [][]byte, root []byte) []byte {
	es := make([]merkle.MerkleEntry, len(hashes))
	for i, h := range hashes {
		es[i] = leaf(h)
	}
	nodes := merkle.CalculateMerkleTree(es)
	var sb strings.Builder
	fmt.Fprintf(&sb, "merkle %d", len(hashes))
	for _, h := range hashes {
		sb.WriteByte(' ')
		sb.WriteString(nodeStr(h))
	}
	seen := map[string]bool{}
	var tb []string
	add := func(l, r []byte) {
		if l == nil || r == nil {
			return
		}
		k := hx(l) + " " + hx(r)
		if seen[k] {
			return
		}
		seen[k] = true
		tb = append(tb, k+" "+hx(sha(l, r)))
	}
	for i := range nodes {
		add(nodes[i], nodes[i])
		if i+1 < len(nodes) {
			add(nodes[i], nodes[i+1])
		}
	}
	fmt.Fprintf(&sb, " %d", len(tb))
	for _, t := range tb {
		sb.WriteByte(' ')
		sb.WriteString(t)
	}
	nonNil := len(hashes) > 0
	for _, h := range hashes {
		if h == nil {
			nonNil = false
		}
	}
	run.Op(sb.String(), nodeStr(root), nonNil)
	return root
}

func hashesStr(hs [][]byte) []string {
	out := make([]string, len(hs))
	for i, h := range hs {
		out[i] = nodeStr(h)
	}
	return out
}

func sameList(a, b [][]byte) bool {
	if len(a) != len(b) {
		return false
	}
	for i := range a {
		if !bytes.Equal(a[i], b[i]) || (a[i] == nil) != (b[i] == nil) {
			return false
		}
	}
	return true
}

// oracle: two different entry lists must have different roots. The one shape the pinned algorithm is known
// to violate is tagged: xs of odd length >= 3 against xs ++ [last xs] (known finding C19-merkle-odd-duplication).
func checkDistinctRoots(kind string, xs, ys [][]byte) {
	if sameList(xs, ys) {
		return
	}
	es := func(hs [][]byte) []merkle.MerkleEntry {
		o := make([]merkle.MerkleEntry, len(hs))
		for i, h := range hs {
			o[i] = leaf(h)
		}
		return o
	}
	rx, ry := merkle.CalculateMerkleRoot(es(xs)), merkle.CalculateMerkleRoot(es(ys))
	run.Eval("roots "+kind+" "+strings.Join(hashesStr(xs), ",")+" | "+strings.Join(hashesStr(ys), ","), true)
	run.Count("root-pair-" + kind)
	if !bytes.Equal(rx, ry) {
		return
	}
	rep := map[string]interface{}{"kind": kind, "list_a": hashesStr(xs), "list_b": hashesStr(ys), "root": nodeStr(rx)}
	oddDup := func(a, b [][]byte) bool {
		return len(a) >= 3 && len(a)%2 == 1 && len(b) == len(a)+1 && sameList(a, b[:len(a)]) && bytes.Equal(b[len(a)], a[len(a)-1])
	}
	if kind == "odd-duplication-probe" && (oddDup(xs, ys) || oddDup(ys, xs)) {
		run.FailKnown("Merkle root of an odd-length entry list equals the root of the list with its last entry repeated "+
			"(internal/merkle CalculateMerkleTree copies the left child into a missing right child)", "C19-merkle-odd-duplication", rep)
		return
	}
	run.Fail("two different entry lists have the same Merkle root ("+kind+")", rep)
}

func randLeaves(n int) [][]byte {
	hs := make([][]byte, n)
	for i := range hs {
		switch {
		case i > 0 && rng.Chance(1, 12):
			hs[i] = append([]byte(nil), hs[rng.Intn(i)]...) // duplicate of an earlier entry
		default:
			hs[i] = rng.Bytes(32)
		}
	}
	return hs
}

func merkles() {
	// correspondence: every length 0..40 (thorough: ..130), plus nil entries and odd hash lengths
	maxN := run.Pick(40, 130)
	for n := 0; n <= maxN; n++ {
		for rep := 0; rep < run.Pick(3, 6); rep++ {
			merkleOp(randLeaves(n))
			run.Count("merkle-len")
		}
	}
	for i := 0; i < run.Pick(150, 2000); i++ {
		hs := randLeaves(1 + rng.Intn(12))
		for j := range hs {
			switch rng.Intn(6) {
			case 0:
				hs[j] = nil
			case 1:
				hs[j] = rng.Bytes(rng.Intn(40)) // incl. empty non-nil... make sure non-nil
				if hs[j] == nil {
					hs[j] = []byte{}
				}
			}
		}
		merkleOp(hs)
		run.Count("merkle-nil-or-odd-entries")
	}
	// oracle on entry lists (32-byte hashes)
	for i := 0; i < run.Pick(600, 12000); i++ {
		n := 1 + rng.Intn(20)
		xs := randLeaves(n)
		// same length: one entry changed
		ys := append([][]byte(nil), xs...)
		ys[rng.Intn(n)] = flip32(ys[rng.Intn(n)])
		checkDistinctRoots("same-length-one-entry-changed", xs, ys)
		// same length: two entries swapped
		if n >= 2 {
			a, b := rng.Intn(n), rng.Intn(n)
			zs := append([][]byte(nil), xs...)
			zs[a], zs[b] = zs[b], zs[a]
			checkDistinctRoots("same-length-swap", xs, zs)
		}
		// different length: a fresh entry appended / the last entry dropped (when it is not a repetition)
		checkDistinctRoots("append-fresh-entry", xs, append(append([][]byte(nil), xs...), rng.Bytes(32)))
		if n >= 2 && !bytes.Equal(xs[n-1], xs[n-2]) {
			checkDistinctRoots("drop-last-entry", xs, xs[:n-1])
		}
	}
	// small-scope: all pairs of same-length lists over a 3-letter alphabet, lengths 1..5 (thorough: ..6)
	alpha := [][]byte{rng.Bytes(32), rng.Bytes(32), rng.Bytes(32)}
	for n := 1; n <= run.Pick(4, 6); n++ {
		total := 1
		for k := 0; k < n; k++ {
			total *= 3
		}
		roots := map[string]int{}
		for code := 0; code < total; code++ {
			xs := make([][]byte, n)
			es := make([]merkle.MerkleEntry, n)
			for k, c := 0, code; k < n; k, c = k+1, c/3 {
				xs[k] = alpha[c%3]
				es[k] = leaf(xs[k])
			}
			r := string(merkle.CalculateMerkleRoot(es))
			run.Eval(fmt.Sprintf("small-scope %d %d", n, code), true)
			if prev, ok := roots[r]; ok {
				run.Fail("two different same-length entry lists have the same Merkle root (small scope)",
					map[string]interface{}{"n": n, "code_a": prev, "code_b": code, "alphabet": hashesStr(alpha)})
			}
			roots[r] = code
		}
		run.Count("small-scope-same-length")
	}
	// the deliberate probe of the known weakness
	for _, n := range []int{3, 5, 7, 9, 11, 13, 21} {
		xs := randLeaves(n)
		checkDistinctRoots("odd-duplication-probe", xs, append(append([][]byte(nil), xs...), xs[n-1]))
	}
}

func flip32(b []byte) []byte {
	c := append([]byte(nil), b...)
	c[rng.Intn(len(c))] ^= byte(1 << uint(rng.Intn(8)))
	return c
}

// ---------------------------------------------------------------------------------------------
// 3. receipts: storage codec, Merkle bytes, Receipts container, receipts root

var statuses = []string{"SUCCESS", "CREATED", "ERROR", "RECREATED"}

func randAddr() []byte {
	a := rng.Bytes(33)
	a[0] = []byte{0x02, 0x03, 0x0c, 0x80}[rng.Intn(4)]
	return a
}

func randText(max int) string {
	n := rng.Intn(max + 1)
	if rng.Chance(1, 6) {
		n = 0
	}
	b := make([]byte, n)
	const cs = `{}[]":, abcXYZ019\/_`
	for i := range b {
		if rng.Chance(1, 20) {
			b[i] = byte(rng.Intn(256)) // any byte, incl. 0 and non-UTF-8
		} else {
			b[i] = cs[rng.Intn(len(cs))]
		}
	}
	return string(b)
}

func randBloomFilter() *bloom.BloomFilter {
	bf := bloom.New(types.BloomBitBits, types.BloomHashKNum)
	for i := rng.Intn(6); i >= 0; i-- {
		bf.Add(rng.Bytes(8))
	}
	return bf
}

func bloomBytes(bf *bloom.BloomFilter) []byte {
	b, err := bf.GobEncode()
	if err != nil {
		panic(err)
	}
	return b[24:]
}

// wfReceipt: a receipt as the node builds them (33-byte addresses, 32-byte tx hash, no CumulativeFeeUsed,
// bloom absent or 256 bytes); events carry the receipt's tx hash (SetMemoryInfo) and an address that is
// the receipt's or another contract's.
func wfReceipt() *types.Receipt {
	r := &types.Receipt{ContractAddress: randAddr(), Status: statuses[rng.Intn(4)], Ret: randText(60), TxHash: rng.Bytes(32)}
	if rng.Chance(3, 4) {
		r.FeeUsed = rng.Bytes(1 + rng.Intn(12))
	}
	if rng.Chance(1, 2) {
		r.GasUsed = randU64()
		r.FeeDelegation = rng.Bool()
	}
	if rng.Chance(1, 3) {
		r.Bloom = bloomBytes(randBloomFilter())
	}
	ne := 0
	if rng.Chance(1, 2) {
		ne = 1 + rng.Intn(4)
	}
	for i := 0; i < ne; i++ {
		ev := &types.Event{ContractAddress: r.ContractAddress, EventName: randText(12), JsonArgs: randText(40), EventIdx: int32(i), TxHash: r.TxHash}
		if rng.Chance(1, 3) {
			ev.ContractAddress = randAddr()
		}
		if rng.Chance(1, 10) {
			ev.EventIdx = int32(randU64())
		}
		r.Events = append(r.Events, ev)
	}
	return r
}

// anyReceipt: wfReceipt with some well-formedness conditions broken (correspondence only, no round-trip oracle).
func anyReceipt() (*types.Receipt, bool) {
	r := wfReceipt()
	wf := true
	switch rng.Intn(9) {
	case 0:
		r.CumulativeFeeUsed = rng.Bytes(1 + rng.Intn(5)) // the stray `pos += l`
		wf = false
	case 1:
		r.Status = []string{"", "success", "FAIL", "ERROR "}[rng.Intn(4)]
		wf = false
	case 2:
		r.ContractAddress = rng.Bytes(rng.Intn(40))
		wf = len(r.ContractAddress) == 33
		for _, e := range r.Events { // keep "same address" events the same
			if rng.Bool() {
				e.ContractAddress = r.ContractAddress
			}
		}
		for _, e := range r.Events {
			if !bytes.Equal(e.ContractAddress, r.ContractAddress) && (len(e.ContractAddress) != 33 || e.ContractAddress[0] == 0) {
				wf = false
			}
		}
	case 3:
		r.TxHash = rng.Bytes(rng.Intn(40))
		wf = len(r.TxHash) == 32
	case 4:
		r.Bloom = rng.Bytes(1 + rng.Intn(300))
		wf = len(r.Bloom) == 256
	case 5:
		if len(r.Events) > 0 {
			e := r.Events[rng.Intn(len(r.Events))]
			e.ContractAddress = rng.Bytes(33)
			e.ContractAddress[0] = 0 // an address that starts with the "same as receipt" marker
			wf = bytes.Equal(e.ContractAddress, r.ContractAddress)
		}
	}
	return r, wf
}

func receiptTokens(r *types.Receipt) string {
	var sb strings.Builder
	fd := 0
	if r.FeeDelegation {
		fd = 1
	}
	fmt.Fprintf(&sb, "%s %s %s %s %s %s %d %d %s %d", hx(r.ContractAddress), hx([]byte(r.Status)), hx([]byte(r.Ret)), hx(r.TxHash),
		hx(r.FeeUsed), hx(r.CumulativeFeeUsed), r.GasUsed, fd, hx(r.Bloom), len(r.Events))
	for _, e := range r.Events {
		fmt.Fprintf(&sb, " %s %s %s %d %s", hx(e.ContractAddress), hx([]byte(e.EventName)), hx([]byte(e.JsonArgs)), uint32(e.EventIdx), hx(e.TxHash))
	}
	return sb.String()
}

func exact(b []byte) []byte { // capacity == length, as a database read returns
	c := make([]byte, len(b))
	copy(c, b)
	return c
}

func vtag(v2 bool) string {
	if v2 {
		return "2"
	}
	return "1"
}

func merkleBytes(r *types.Receipt, v2 bool) ([]byte, error) {
	if v2 {
		return r.MarshalMerkleBinaryV2()
	}
	return r.MarshalMerkleBinary()
}

// the real hardfork configuration decides the format: blocks below V2 use the old one
var hfCfg = &config.HardforkConfig{V2: 1000, V3: 2000, V4: 3000, V5: 4000}

func blockNoFor(v2 bool) types.BlockNo {
	edge := rng.Chance(1, 3) // sit on the fork height itself / the last block before it
	if v2 {
		if edge {
			return 1000
		}
		return types.BlockNo(1000 + rng.Intn(5000))
	}
	if edge {
		return 999
	}
	return types.BlockNo(rng.Intn(1000))
}

func newReceipts(rs []*types.Receipt, bf *bloom.BloomFilter, v2 bool) *types.Receipts {
	var c types.Receipts
	c.Set(rs)
	c.SetHardFork(hfCfg, blockNoFor(v2))
	if bf != nil {
		if err := c.MergeBloom(bf); err != nil {
			panic(err)
		}
	}
	return &c
}

// storedEqual: what storage is meant to preserve of a receipt in format v2/v1.
func storedEqual(a, b *types.Receipt, v2 bool) string {
	switch {
	case !bytes.Equal(a.ContractAddress, b.ContractAddress):
		return "ContractAddress"
	case a.Status != b.Status:
		return "Status"
	case a.Ret != b.Ret:
		return "Ret"
	case !bytes.Equal(a.TxHash, b.TxHash):
		return "TxHash"
	case !bytes.Equal(a.FeeUsed, b.FeeUsed):
		return "FeeUsed"
	case !bytes.Equal(a.CumulativeFeeUsed, b.CumulativeFeeUsed):
		return "CumulativeFeeUsed"
	case v2 && a.GasUsed != b.GasUsed:
		return "GasUsed"
	case v2 && a.FeeDelegation != b.FeeDelegation:
		return "FeeDelegation"
	case !bytes.Equal(a.Bloom, b.Bloom):
		return "Bloom"
	case len(a.Events) != len(b.Events):
		return "Events(count)"
	}
	for i := range a.Events {
		x, y := a.Events[i], b.Events[i]
		if !bytes.Equal(x.ContractAddress, y.ContractAddress) || x.EventName != y.EventName || x.JsonArgs != y.JsonArgs || x.EventIdx != y.EventIdx {
			return fmt.Sprintf("Events[%d]", i)
		}
	}
	return ""
}

func cloneReceipt(r *types.Receipt) *types.Receipt {
	c := &types.Receipt{ContractAddress: exact(r.ContractAddress), Status: r.Status, Ret: r.Ret, TxHash: exact(r.TxHash), FeeUsed: exact(r.FeeUsed),
		CumulativeFeeUsed: exact(r.CumulativeFeeUsed), GasUsed: r.GasUsed, FeeDelegation: r.FeeDelegation, Bloom: exact(r.Bloom)}
	if r.FeeUsed == nil {
		c.FeeUsed = nil
	}
	if r.CumulativeFeeUsed == nil {
		c.CumulativeFeeUsed = nil
	}
	if r.Bloom == nil {
		c.Bloom = nil
	}
	for _, e := range r.Events {
		c.Events = append(c.Events, &types.Event{ContractAddress: exact(e.ContractAddress), EventName: e.EventName, JsonArgs: e.JsonArgs, EventIdx: e.EventIdx, TxHash: exact(e.TxHash)})
	}
	return c
}

// one consensus-relevant field of format v2/v1 changed; returns "" when the chosen mutation does not apply
func mutateReceipt(r *types.Receipt, v2 bool) string {
	flipIn := func(b []byte) []byte {
		c := exact(b)
		c[rng.Intn(len(c))] ^= byte(1 << uint(rng.Intn(8)))
		return c
	}
	for {
		switch rng.Intn(12) {
		case 0:
			old := r.Status
			for r.Status == old {
				r.Status = statuses[rng.Intn(4)]
			}
			if old == "ERROR" || r.Status == "ERROR" {
				// the return value of a failed execution is not committed: compare with equal (empty) Ret only
				r.Ret = ""
				return "Status(Ret cleared)"
			}
			return "Status"
		case 1:
			r.ContractAddress = flipIn(r.ContractAddress)
			return "ContractAddress"
		case 2:
			r.TxHash = flipIn(r.TxHash)
			return "TxHash"
		case 3:
			r.FeeUsed = flip(r.FeeUsed)
			return "FeeUsed"
		case 4:
			if v2 {
				r.GasUsed ^= 1 << uint(rng.Intn(64))
				return "GasUsed"
			}
		case 5:
			if v2 {
				r.FeeDelegation = !r.FeeDelegation
				return "FeeDelegation"
			}
		case 6:
			if r.Status != "ERROR" {
				r.Ret = string(flip([]byte(r.Ret)))
				return "Ret"
			}
		case 7:
			if len(r.Events) > 0 {
				r.Events = r.Events[:len(r.Events)-1]
				return "Events(drop last)"
			}
		case 8:
			r.Events = append(r.Events, &types.Event{ContractAddress: r.ContractAddress, EventName: randText(5), JsonArgs: randText(5), EventIdx: int32(len(r.Events)), TxHash: r.TxHash})
			return "Events(append)"
		case 9:
			if len(r.Events) > 0 {
				e := r.Events[rng.Intn(len(r.Events))]
				switch rng.Intn(5) {
				case 0:
					e.EventName = string(flip([]byte(e.EventName)))
					return "Event.EventName"
				case 1:
					e.JsonArgs = string(flip([]byte(e.JsonArgs)))
					return "Event.JsonArgs"
				case 2:
					e.EventIdx ^= 1 << uint(rng.Intn(32))
					return "Event.EventIdx"
				case 3:
					e.ContractAddress = flipIn(e.ContractAddress)
					return "Event.ContractAddress"
				default:
					e.TxHash = flipIn(e.TxHash)
					return "Event.TxHash"
				}
			}
		case 10:
			if len(r.Events) >= 2 && storedEqualEvent(r.Events[0], r.Events[1]) == false {
				r.Events[0], r.Events[1] = r.Events[1], r.Events[0]
				return "Events(swap)"
			}
		case 11:
			if len(r.Bloom) == 0 {
				r.Bloom = bloomBytes(randBloomFilter())
			} else if rng.Bool() {
				r.Bloom = nil
			} else {
				r.Bloom = flipIn(r.Bloom)
			}
			return "Bloom"
		}
	}
}

func storedEqualEvent(x, y *types.Event) bool {
	return bytes.Equal(x.ContractAddress, y.ContractAddress) && x.EventName == y.EventName && x.JsonArgs == y.JsonArgs &&
		x.EventIdx == y.EventIdx && bytes.Equal(x.TxHash, y.TxHash)
}

func receipts() {
	for i := 0; i < run.Pick(1200, 25000); i++ {
		v2 := rng.Bool()
		r, wf := anyReceipt()
		tok := receiptTokens(r)

		// ---- Merkle bytes (the receipts-root leaf is sha256 of these: checked against the real single-receipt root)
		mb, merr := merkleBytes(r, v2)
		if merr != nil {
			run.Op("rmk "+vtag(v2)+" "+tok, "err", false)
		} else {
			leafHash := newReceipts([]*types.Receipt{r}, nil, v2).MerkleRoot()
			run.Op("rmk "+vtag(v2)+" "+tok, verified(mb, leafHash), true)
		}
		// ---- storage bytes
		sb, serr := types.VerifC19MarshalStore(r, v2)
		if serr != nil {
			run.Op("rst "+vtag(v2)+" "+tok, "err", false)
			run.Count("receipt-unsupported-status")
			continue
		}
		run.Op("rst "+vtag(v2)+" "+tok, hx(sb), true)
		// ---- decode: the stored bytes, a truncation, or the stored bytes followed by more data
		data := exact(sb)
		kind := "exact"
		switch rng.Intn(5) {
		case 0:
			data = exact(sb[:rng.Intn(len(sb))])
			kind = "truncated"
		case 1:
			data = exact(append(append([]byte(nil), sb...), rng.Bytes(1+rng.Intn(8))...))
			kind = "trailing"
		}
		var dec types.Receipt
		var rest []byte
		// misaligned input can make the decoder read a garbage event count and allocate that many pointers
		// (a resource question outside this property): such inputs are skipped, the count is taken from the real body decoder
		if cnt, pp := vh.Guard(func() string { return fmt.Sprint(types.VerifC19UnmarshalBody(data, v2)) }); !pp && len(cnt) > 4 {
			run.Count("receipt-decode-skipped-huge-event-count")
			continue
		}
		out, panicked := vh.Guard(func() string {
			var err error
			rest, err = types.VerifC19UnmarshalStore(&dec, data, v2)
			if err != nil {
				return "reject"
			}
			return receiptTokens(&dec) + " | " + hx(rest)
		})
		if panicked {
			out = "reject" // a decoder that panics on bytes it cannot read and one that returns an error both refuse them
		}
		run.Op("rus "+vtag(v2)+" "+hx(data), out, !panicked)
		run.Count("receipt-decode-" + kind)
		if wf {
			run.Count("receipt-wf")
		} else {
			run.Count("receipt-not-wf")
		}
		// ---- oracle: what was written is read back (receipts the node can build)
		if wf && kind != "truncated" {
			rep := map[string]interface{}{"format": vtag(v2), "receipt": tok, "stored": hx(data)}
			if panicked {
				run.Fail("stored receipt cannot be read back (panic)", rep)
			} else if f := storedEqual(r, &dec, v2); f != "" {
				rep["field"] = f
				rep["read_back"] = receiptTokens(&dec)
				run.Fail("receipt read back from storage differs from what was written in field "+f, rep)
			} else if len(rest) != len(data)-len(sb) {
				run.Fail("receipt decoder consumed a different number of bytes than the encoder wrote", rep)
			}
		}
		// ---- oracle: the Merkle bytes (hence the leaf) change with every consensus-relevant field of the format
		if wf && merr == nil {
			m := cloneReceipt(r)
			base := cloneReceipt(r)
			what := mutateReceipt(m, v2)
			if what == "Status(Ret cleared)" {
				base.Ret = ""
			}
			b0, _ := merkleBytes(base, v2)
			b1, e1 := merkleBytes(m, v2)
			run.Eval("rcpt-mut "+what+" "+receiptTokens(base)+" -> "+receiptTokens(m), true)
			run.Count("receipt-mut-" + strings.SplitN(what, "(", 2)[0])
			if e1 == nil && bytes.Equal(b0, b1) {
				run.Fail("receipt Merkle bytes unchanged after changing "+what, map[string]interface{}{"format": vtag(v2), "receipt": receiptTokens(base), "mutated": receiptTokens(m)})
			}
			l0 := newReceipts([]*types.Receipt{base}, nil, v2).MerkleRoot()
			l1 := newReceipts([]*types.Receipt{m}, nil, v2).MerkleRoot()
			if e1 == nil && bytes.Equal(l0, l1) {
				run.Fail("receipts root unchanged after changing "+what, map[string]interface{}{"format": vtag(v2), "receipt": receiptTokens(base), "mutated": receiptTokens(m)})
			}
		}
	}

	// ---- the Receipts container: MarshalBinary / UnmarshalBinary through the gob path used by chain/chaindb.go, and MerkleRoot
	for i := 0; i < run.Pick(400, 8000); i++ {
		v2 := rng.Bool()
		n := rng.Intn(7)
		if rng.Chance(1, 10) {
			n = 0
		}
		allWf := true
		var rs []*types.Receipt
		for k := 0; k < n; k++ {
			if rng.Chance(1, 12) {
				// only ill-formed receipts that keep the byte stream aligned (see the event-count remark above)
				r := wfReceipt()
				r.Status = []string{"", "success", "FAIL", "ERROR "}[rng.Intn(4)]
				rs = append(rs, r)
				allWf = false
			} else {
				rs = append(rs, wfReceipt())
			}
		}
		var bf *bloom.BloomFilter
		btok := "nil"
		if rng.Bool() {
			bf = randBloomFilter()
			btok = hx(bloomBytes(bf))
		}
		c := newReceipts(rs, bf, v2)
		var sb strings.Builder
		fmt.Fprintf(&sb, "rsm %s %s %d", vtag(v2), btok, n)
		for _, r := range rs {
			sb.WriteByte(' ')
			sb.WriteString(receiptTokens(r))
		}
		raw, err := c.MarshalBinary()
		if err != nil {
			run.Op(sb.String(), "err", false)
			continue
		}
		run.Op(sb.String(), hx(raw), true)
		run.Count(fmt.Sprintf("receipts-v%s-bloom=%v", vtag(v2), bf != nil))

		// decode what was stored (gob path), or a truncation of the raw bytes (direct)
		if rng.Chance(1, 5) {
			data := exact(raw[:rng.Intn(len(raw))])
			var d types.Receipts
			d.SetHardFork(hfCfg, c.GetBlockNo())
			out, panicked := vh.Guard(func() string {
				if err := d.UnmarshalBinary(data); err != nil {
					return "reject"
				}
				return receiptsTokens(&d)
			})
			if panicked {
				out = "reject"
			}
			run.Op("rsu "+vtag(v2)+" "+hx(data), out, !panicked)
			run.Count("receipts-decode-truncated")
		} else {
			val, err := gob.Encode(c) // chaindb.go: val, _ := gob.Encode(receipts)
			if err != nil {
				panic(err)
			}
			var d types.Receipts
			d.SetHardFork(hfCfg, c.GetBlockNo()) // chaindb.go getReceipts
			out, panicked := vh.Guard(func() string {
				if err := gob.Decode(val, &d); err != nil {
					return "reject"
				}
				return receiptsTokens(&d)
			})
			if panicked {
				out = "reject"
			}
			run.Op("rsu "+vtag(v2)+" "+hx(raw), out, !panicked)
			run.Count("receipts-decode-gob")
			if allWf {
				rep := map[string]interface{}{"format": vtag(v2), "op": sb.String()}
				if panicked || out == "reject" {
					run.Fail("stored receipts cannot be read back ("+out+")", rep)
				} else {
					got := d.Get()
					if len(got) != len(rs) {
						run.Fail("number of receipts read back differs", rep)
					} else {
						for k := range rs {
							if f := storedEqual(rs[k], got[k], v2); f != "" {
								rep["index"], rep["field"] = k, f
								run.Fail("receipt read back from storage differs from what was written in field "+f, rep)
								break
							}
						}
					}
					gb := types.VerifC19Bloom(&d)
					if (gb == nil) != (bf == nil) || (gb != nil && !bytes.Equal(bloomBytes(gb), bloomBytes(bf))) {
						run.Fail("block bloom filter read back from storage differs from what was written", rep)
					}
				}
			}
		}

		// receipts root = Merkle root over the receipt leaves (+ the bloom leaf); leaves obtained from the real code
		{
			var leaves [][]byte
			okLeaves := true
			for _, r := range rs {
				if _, e := merkleBytes(r, v2); e != nil {
					okLeaves = false
				}
				cc := newReceipts([]*types.Receipt{r}, nil, v2)
				cc.SetHardFork(hfCfg, c.GetBlockNo())
				leaves = append(leaves, cc.MerkleRoot())
			}
			if bf != nil {
				cc := newReceipts(nil, bf, v2)
				leaves = append(leaves, cc.MerkleRoot())
			}
			if okLeaves {
				merkleOpReal(leaves, c.MerkleRoot())
				run.Count("receipts-root")
			}
		}
		// oracle: the receipts root commits to the ordered list
		if allWf && n >= 1 {
			rs2 := append([]*types.Receipt(nil), rs...)
			k := rng.Intn(n)
			rs2[k] = cloneReceipt(rs[k])
			what := mutateReceipt(rs2[k], v2)
			base := rs
			if what == "Status(Ret cleared)" {
				base = append([]*types.Receipt(nil), rs...)
				base[k] = cloneReceipt(rs[k])
				base[k].Ret = ""
			}
			c0, c1 := newReceipts(base, bf, v2), newReceipts(rs2, bf, v2)
			run.Eval("rcpts-root-mut "+sb.String()+" "+what+fmt.Sprint(k), true)
			if bytes.Equal(c0.MerkleRoot(), c1.MerkleRoot()) {
				run.Fail("receipts root unchanged after changing "+what+" of one receipt",
					map[string]interface{}{"format": vtag(v2), "index": k, "receipt": receiptTokens(base[k]), "mutated": receiptTokens(rs2[k])})
			}
			if n >= 2 {
				a, b := rng.Intn(n), rng.Intn(n)
				x0, _ := merkleBytes(rs[a], v2)
				x1, _ := merkleBytes(rs[b], v2)
				if !bytes.Equal(x0, x1) {
					rs3 := append([]*types.Receipt(nil), rs...)
					rs3[a], rs3[b] = rs3[b], rs3[a]
					if bytes.Equal(c.MerkleRoot(), newReceipts(rs3, bf, v2).MerkleRoot()) {
						run.Fail("receipts root unchanged after swapping two different receipts", map[string]interface{}{"format": vtag(v2), "a": a, "b": b, "op": sb.String()})
					}
				}
			}
			// with / without block bloom filter
			if bf != nil && bytes.Equal(c.MerkleRoot(), newReceipts(rs, nil, v2).MerkleRoot()) {
				run.Fail("receipts root does not depend on the presence of the block bloom filter", map[string]interface{}{"op": sb.String()})
			}
		}
	}
}

func receiptsTokens(d *types.Receipts) string {
	var sb strings.Builder
	b := "nil"
	if bf := types.VerifC19Bloom(d); bf != nil {
		b = hx(bloomBytes(bf))
	}
	fmt.Fprintf(&sb, "%s %d", b, len(d.Get()))
	for _, r := range d.Get() {
		sb.WriteByte(' ')
		sb.WriteString(receiptTokens(r))
	}
	return sb.String()
}

// ---------------------------------------------------------------------------------------------
// 4. chain id codec

func randName(slash bool) string {
	n := rng.Intn(12)
	b := make([]byte, n)
	const cs = "abcdefghijklmnopqrstuvwxyz.-_0123456789ABCDEFGHIJKLMNOPQRSTUVWXYZ"
	for i := range b {
		switch {
		case slash && rng.Chance(1, 6):
			b[i] = '/'
		case rng.Chance(1, 25):
			b[i] = byte(rng.Intn(256))
			if b[i] == '/' && !slash {
				b[i] = '.'
			}
		default:
			b[i] = cs[rng.Intn(len(cs))]
		}
	}
	return string(b)
}

func randI32() int32 {
	switch rng.Intn(5) {
	case 0:
		return []int32{0, 1, 2, 3, 4, 5, -1, 1<<31 - 1, -1 << 31, 255, 256}[rng.Intn(11)]
	case 1:
		return int32(rng.Intn(6))
	default:
		return int32(rng.Next())
	}
}

func randChainID() (*types.ChainID, bool) {
	slash := rng.Chance(1, 8)
	c := &types.ChainID{Version: randI32(), PublicNet: rng.Bool(), MainNet: rng.Bool(), Magic: randName(slash), Consensus: randName(slash)}
	if rng.Chance(1, 3) {
		c.Magic, c.Consensus = []string{"dev.chain", "aergo.io", "testnet.aergo.io"}[rng.Intn(3)], []string{"dpos", "raft", "sbp", "RAFT", "Dpos", "SBP"}[rng.Intn(6)]
	}
	has := strings.Contains(c.Magic, "/") || strings.Contains(c.Consensus, "/")
	return c, !has
}

func cidTokens(c *types.ChainID) string {
	return fmt.Sprintf("%d %v %v %s %s", c.Version, c.PublicNet, c.MainNet, hx([]byte(c.Magic)), hx([]byte(c.Consensus)))
}

func cidRead(data []byte) (string, *types.ChainID) {
	c := types.NewChainID()
	if err := c.Read(exact(data)); err != nil {
		return "err", nil
	}
	return cidTokens(c), c
}

func chainIDs() {
	for i := 0; i < run.Pick(2500, 50000); i++ {
		c, noSlash := randChainID()
		b, err := c.Bytes()
		if err != nil {
			run.Op("cidb "+cidTokens(c), "err", false)
			continue
		}
		run.Op("cidb "+cidTokens(c), hx(b), true)
		out, back := cidRead(b)
		run.Op("cidr "+hx(b), out, back != nil)
		run.Count(fmt.Sprintf("chainid-no-slash=%v-read-ok=%v", noSlash, back != nil))
		// oracle: the chain id read back is the one written. An id whose magic/consensus contains "/" is allowed to be
		// *rejected* by Read (chaindb.go GetGenesisInfo then keeps the gob copy of the id) but never to come back different.
		rep := map[string]interface{}{"chain_id": cidTokens(c), "bytes": hx(b)}
		if back == nil && noSlash {
			run.Fail("chain id bytes cannot be read back", rep)
		}
		if back != nil && (!back.Equals(c) || !reflect.DeepEqual(*back, *c)) {
			rep["read_back"] = fmt.Sprintf("%+v", *back)
			run.Fail("chain id read back differs from what was written", rep)
		}
		// decode: mutated / truncated / random inputs
		var d []byte
		switch rng.Intn(4) {
		case 0:
			d = b[:rng.Intn(len(b))]
		case 1:
			d = flip(b)
		case 2:
			d = rng.Bytes(rng.Intn(16))
		default:
			d = append(append([]byte(nil), b[:6]...), []byte(randName(true)+"/"+randName(rng.Bool()))...)
		}
		out, back = cidRead(d)
		run.Op("cidr "+hx(d), out, back != nil)
		run.Op("cidv "+hx(d), fmt.Sprint(types.DecodeChainIdVersion(exact(d))), len(d) >= 4)

		// MakeChainId / ChainIdEqualWithoutVersion
		v := randI32()
		src := exact(b)
		if rng.Chance(1, 6) {
			src = exact(d)
		}
		srcBefore := hx(src)
		// a caller's slice usually has spare capacity and is a field of a block header (NewBlockHeaderInfoFromPrevBlock hands in the
		// parent's ChainID): both shapes, capacity = length and capacity > length
		if rng.Bool() && len(src) >= 4 { // (shorter than a version prefix: cid[:4] panics or not depending on the capacity; kept at capacity = length)
			src = append(make([]byte, 0, len(src)+8), src...)
		}
		mk, panicked := vh.Guard(func() string { return hx(types.MakeChainId(src, v)) })
		if panicked {
			mk = "panic"
		}
		run.Op(fmt.Sprintf("mkcid %s %d", srcBefore, v), mk, !panicked)
		if !panicked && hx(src) != srcBefore {
			// the chain id handed in is the ChainID field of the parent block's header: rewriting it changes a header whose
			// identifier is already fixed (the parent's id is no longer the digest of its header) and what is read back from it
			run.Fail("MakeChainId modified the chain id bytes it was given (the parent header's ChainID): that block's identifier no longer is the digest of its header",
				map[string]interface{}{"chain_id_bytes_before": srcBefore, "chain_id_bytes_after": hx(src), "version": v, "result": mk})
		}
		if !panicked {
			src = exact(src)
			nb := types.MakeChainId(exact(src), v)
			rep := map[string]interface{}{"chain_id_bytes": hx(src), "version": v, "result": hx(nb)}
			if types.DecodeChainIdVersion(nb) != v {
				run.Fail("MakeChainId result does not carry the requested version", rep)
			}
			if !types.ChainIdEqualWithoutVersion(nb, src) {
				run.Fail("MakeChainId changed something other than the version prefix", rep)
			}
			if noSlash && bytes.Equal(src, b) {
				c2 := types.NewChainID()
				want := *c
				want.Version = v
				if err := c2.Read(nb); err != nil || !c2.Equals(&want) {
					run.Fail("chain id with replaced version does not read back as the same id with that version", rep)
				}
			}
		}
		o := exact(d)
		if rng.Bool() {
			c3 := *c
			c3.Version = randI32()
			if rng.Chance(1, 3) {
				c3.PublicNet = !c3.PublicNet
			}
			o, _ = c3.Bytes()
		}
		eq := types.ChainIdEqualWithoutVersion(exact(b), o)
		run.Op("cideq "+hx(b)+" "+hx(o), fmt.Sprint(eq), true)
		run.Count(fmt.Sprintf("cideq=%v", eq))
	}
}

// ---------------------------------------------------------------------------------------------
// 5. hardfork version function and compatibility check

func hfFields() []string { return exportedFields(reflect.TypeOf(config.HardforkConfig{})) }

func mkCfg(hs []uint64) *config.HardforkConfig {
	c := &config.HardforkConfig{}
	v := reflect.ValueOf(c).Elem()
	for i, f := range hfFields() {
		v.FieldByName(f).SetUint(hs[i])
	}
	return c
}

func natsStr(hs []uint64) string {
	var sb strings.Builder
	fmt.Fprintf(&sb, "%d", len(hs))
	for _, h := range hs {
		fmt.Fprintf(&sb, " %d", h)
	}
	return sb.String()
}

// dbTokens: "<bad keys> <m> (k v)*" for keys V<k>; keys whose suffix is not a number are only counted
func dbTokens(db config.HardforkDbConfig) string {
	bad := 0
	type kv struct{ k, v uint64 }
	var kvs []kv
	for k, v := range db {
		n, err := strconv.ParseUint(k[1:], 10, 64)
		if err != nil {
			bad++
			continue
		}
		kvs = append(kvs, kv{n, v})
	}
	sort.Slice(kvs, func(i, j int) bool { return kvs[i].k < kvs[j].k })
	var sb strings.Builder
	fmt.Fprintf(&sb, "%d %d", bad, len(kvs))
	for _, e := range kvs {
		fmt.Fprintf(&sb, " %d %d", e.k, e.v)
	}
	return sb.String()
}

func compatClass(err error) string {
	if err == nil {
		return "ok"
	}
	if ver, ok := config.VerifC19ForkErrVersion(err); ok {
		for _, f := range hfFields() {
			if f == ver {
				return "fork:" + ver
			}
		}
		return "older"
	}
	if _, ok := err.(*strconv.NumError); ok {
		return "older"
	}
	return "invalid"
}

// heights at which unsigned comparison, signed comparison and subtraction tricks disagree
var extremeHeights = []uint64{0, 1, 1<<31 - 1, 1 << 31, 1<<31 + 1, 1<<32 - 1, 1 << 32, 1<<32 + 1, 1 << 62, 1<<63 - 1, 1 << 63, 1<<63 + 1,
	1<<64 - 2, 1<<64 - 1}

func randHeights(n int, sorted bool) []uint64 {
	hs := make([]uint64, n)
	mode := rng.Intn(6)
	for i := range hs {
		switch {
		case mode <= 2:
			hs[i] = uint64(rng.Intn(12))
		case mode == 3:
			hs[i] = rng.Next() >> uint(rng.Intn(64))
		case mode == 4: // realistic heights with some forks "disabled" (MaxUint64) or far away
			if rng.Chance(1, 2) {
				hs[i] = extremeHeights[rng.Intn(len(extremeHeights))]
			} else {
				hs[i] = uint64(rng.Intn(1000))
			}
		default:
			hs[i] = extremeHeights[rng.Intn(len(extremeHeights))]
			if rng.Chance(1, 3) {
				hs[i] += uint64(rng.Intn(5)) - 2 // wraps around at both ends on purpose
			}
		}
	}
	if sorted {
		sort.Slice(hs, func(i, j int) bool { return hs[i] < hs[j] })
	}
	return hs
}

// heightGrid: every height next to a configured fork height, next to the extreme values, and half the range away from each
func heightGrid(lists ...[]uint64) []uint64 {
	set := map[uint64]bool{}
	add := func(x uint64) {
		for _, d := range []uint64{0, 1, 2, 7} {
			if x+d >= x {
				set[x+d] = true
			}
			if x >= d {
				set[x-d] = true
			}
		}
	}
	for _, x := range extremeHeights {
		add(x)
	}
	for _, l := range lists {
		for _, x := range l {
			add(x)
			add(x + 1<<63) // exactly half the uint64 range away (wraps)
			add(x + 1<<63 - 1)
		}
	}
	var out []uint64
	for h := range set {
		out = append(out, h)
	}
	sort.Slice(out, func(i, j int) bool { return out[i] < out[j] })
	return out
}

// versionOracles: monotone over the ascending heights; on a valid (non-decreasing) configuration Version(h) >= k exactly when IsVkFork(h)
func versionOracles(c *config.HardforkConfig, hs []uint64, heights []uint64) {
	fields := hfFields()
	valid := sort.SliceIsSorted(hs, func(a, b int) bool { return hs[a] < hs[b] })
	prev, prevH := int32(-1<<31), uint64(0)
	for _, h := range heights {
		v := c.Version(h)
		if v < prev {
			run.Fail("hardfork version decreases with the height",
				map[string]interface{}{"config": hs, "height": h, "version": v, "lower_height": prevH, "version_at_lower_height": prev})
		}
		prev, prevH = v, h
		if !valid {
			continue
		}
		for k, f := range fields {
			m := reflect.ValueOf(c).MethodByName("Is" + f + "Fork")
			if !m.IsValid() {
				continue
			}
			is := m.Call([]reflect.Value{reflect.ValueOf(types.BlockNo(h))})[0].Bool()
			if (v >= int32(k+2)) != is {
				run.Fail(fmt.Sprintf("Is%sFork disagrees with Version >= %d on a valid configuration", f, k+2),
					map[string]interface{}{"config": hs, "height": h, "version": v, "is_fork": is})
			}
		}
	}
}

func hardforks() {
	n := len(hfFields())
	// the shipped configurations and "fork disabled" (MaxUint64) variants, over the full grid
	if n == 4 {
		never := uint64(1<<64 - 1)
		for _, c := range []*config.HardforkConfig{config.MainNetHardforkConfig, config.TestNetHardforkConfig, config.AllEnabledHardforkConfig,
			mkCfg([]uint64{100, 200, 300, never}), mkCfg([]uint64{never, never, never, never}), mkCfg([]uint64{10, 20, 1 << 63, never - 1})} {
			hs := make([]uint64, n)
			for k, f := range hfFields() {
				hs[k] = reflect.ValueOf(c).Elem().FieldByName(f).Uint()
			}
			grid := heightGrid(hs)
			for _, h := range grid {
				v := c.Version(h)
				run.Op(fmt.Sprintf("ver %d %s", h, natsStr(hs)), fmt.Sprint(v), v != 0)
			}
			versionOracles(c, hs, grid)
			run.Count("version-table-shipped-or-disabled")
		}
	}
	for i := 0; i < run.Pick(700, 12000); i++ {
		hs := randHeights(n, rng.Chance(3, 4))
		c := mkCfg(hs)
		// version table on the grid of all heights next to a fork height / an extreme value; oracles: monotone, agrees with IsVkFork
		grid := heightGrid(hs)
		for _, h := range grid {
			v := c.Version(h)
			run.Op(fmt.Sprintf("ver %d %s", h, natsStr(hs)), fmt.Sprint(v), v != 0)
		}
		versionOracles(c, hs, grid)
		run.Count("version-table")

		// the database copy: what WriteHardfork stores (JSON), then altered
		data, err := json.Marshal(c)
		if err != nil {
			panic(err)
		}
		var db config.HardforkDbConfig
		if err := json.Unmarshal(data, &db); err != nil {
			panic(err)
		}
		fields := hfFields()
		kind := rng.Intn(8)
		switch kind {
		case 0: // unchanged: a restart with the same configuration
		case 1, 2:
			f := fields[rng.Intn(n)]
			if rng.Bool() {
				db[f] = uint64(rng.Intn(12))
			} else {
				db[f] = db[f] + uint64(rng.Intn(3)) - 1
			}
		case 3:
			delete(db, fields[rng.Intn(n)]) // written by an older release
		case 4:
			db[fmt.Sprintf("V%d", n+2+rng.Intn(3))] = uint64(rng.Intn(12)) // written by a newer release
		case 5:
			db["Vx"] = 1
		case 6:
			for _, f := range fields {
				if rng.Bool() {
					db[f] = uint64(rng.Intn(12))
				}
			}
		case 7:
			db = config.HardforkDbConfig{}
		}
		best := grid[rng.Intn(len(grid))]
		if rng.Chance(1, 4) {
			best = uint64(rng.Intn(14))
		}
		dbTok := dbTokens(db)
		if kind == 3 && rng.Bool() {
			// chaindb.go Hardfork(): keys missing in the database copy are filled from the node's configuration first
			cp := config.HardforkDbConfig{}
			for k, v := range db {
				cp[k] = v
			}
			fixed := cp.FixDbConfig(*c)
			var parts []string
			var keys []int
			byK := map[int]uint64{}
			for k, v := range fixed {
				kn, _ := strconv.Atoi(k[1:])
				keys = append(keys, kn)
				byK[kn] = v
			}
			sort.Ints(keys)
			for _, k := range keys {
				parts = append(parts, fmt.Sprintf("V%d=%d", k, byK[k]))
			}
			run.Op(fmt.Sprintf("fix %s %s", natsStr(hs), strings.SplitN(dbTok, " ", 2)[1]), strings.Join(parts, " "), true)
			db = fixed
			dbTok = dbTokens(db)
		}
		cerr := c.CheckCompatibility(db, best)
		cls := compatClass(cerr)
		run.Op(fmt.Sprintf("compat %d %s %s", best, natsStr(hs), dbTok), cls, cls == "ok")
		run.Count("compat-" + strings.SplitN(cls, ":", 2)[0])
		// oracle: stable across restarts - if the node starts (check passed), every height up to the best block has the
		// version it had under the configuration recorded in the database
		if cerr == nil {
			dbHs := make([]uint64, n)
			for k, f := range fields {
				dbHs[k] = db[f]
			}
			dc := mkCfg(dbHs)
			for _, h := range heightGrid(hs, dbHs) {
				if h > best {
					break
				}
				run.Eval(fmt.Sprintf("stable %v %v %d", hs, dbHs, h), true)
				if c.Version(h) != dc.Version(h) {
					run.Fail("hardfork version of an existing block changed across a restart that passed CheckCompatibility",
						map[string]interface{}{"node_config": hs, "db_config": dbTok, "best": best, "height": h, "node_version": c.Version(h), "db_version": dc.Version(h)})
				}
			}
		}
		if kind == 0 && cerr != nil && cls != "invalid" {
			run.Fail("restart with the unchanged configuration is refused", map[string]interface{}{"config": hs, "best": best, "class": cls})
		}
	}
	// small scope, exhaustive: every configuration over heights 0..3 (4 fields: 256 configs) x every height 0..4
	if n <= 4 {
		total := 1
		for k := 0; k < n; k++ {
			total *= 4
		}
		for code := 0; code < total; code++ {
			hs := make([]uint64, n)
			for k, cc := 0, code; k < n; k, cc = k+1, cc/4 {
				hs[k] = uint64(cc % 4)
			}
			c := mkCfg(hs)
			prev := int32(-1 << 31)
			for h := uint64(0); h <= 4; h++ {
				v := c.Version(h)
				run.Op(fmt.Sprintf("ver %d %s", h, natsStr(hs)), fmt.Sprint(v), v != 0)
				if v < prev {
					run.Fail("hardfork version decreases with the height", map[string]interface{}{"config": hs, "height": h})
				}
				prev = v
			}
		}
		run.Count("version-small-scope-exhaustive")
	}
}

// ---------------------------------------------------------------------------------------------
// 6. genesis: the gob storage path of chain/chaindb.go (addGenesisBlock / GetGenesisInfo) - real code only, no model

func genesisStore() {
	for i := 0; i < run.Pick(300, 5000); i++ {
		c, _ := randChainID()
		g := &types.Genesis{ID: *c, Timestamp: int64(randU64())}
		for k := rng.Intn(5); k > 0; k-- {
			g.BPs = append(g.BPs, randName(true))
		}
		for k := rng.Intn(3); k > 0; k-- {
			g.EnterpriseBPs = append(g.EnterpriseBPs, types.EnterpriseBP{Name: randName(true), Address: randName(true), PeerID: randName(false)})
		}
		if rng.Bool() {
			g.Balance = map[string]string{randName(false): "1000", randName(false): "5"}
		}
		total := new(big.Int).SetBytes(rng.Bytes(rng.Intn(14)))
		g.AddBalance(total)
		stored := g.Bytes()                        // tx.Set(dbkey.Genesis(), genesis.Bytes())
		storedBal := g.TotalBalance().Bytes()      // tx.Set(dbkey.GenesisBalance(), totalBalance.Bytes())
		storedCid := g.Block().GetHeader().ChainID // the genesis block carries ID.Bytes()
		back := types.GetGenesisFromBytes(stored)
		run.Eval(fmt.Sprintf("genesis %s %d %v %v", cidTokens(c), g.Timestamp, g.BPs, g.EnterpriseBPs), true)
		run.Count("genesis-gob-roundtrip")
		rep := map[string]interface{}{"chain_id": cidTokens(c), "timestamp": g.Timestamp, "bps": g.BPs, "enterprise_bps": g.EnterpriseBPs}
		if back == nil {
			run.Fail("stored genesis cannot be read back", rep)
			continue
		}
		// GetGenesisInfo: the id is overwritten by the genesis block's chain id when that parses
		if len(storedCid) > 0 {
			cid := types.NewChainID()
			if err := cid.Read(storedCid); err == nil {
				back.ID = *cid
			}
		}
		if len(storedBal) != 0 {
			back.SetTotalBalance(storedBal)
		}
		switch {
		case !back.ID.Equals(&g.ID):
			run.Fail("genesis chain id read back differs from what was written", rep)
		case back.Timestamp != g.Timestamp:
			run.Fail("genesis timestamp read back differs", rep)
		case !reflect.DeepEqual(append([]string{}, back.BPs...), append([]string{}, g.BPs...)):
			run.Fail("genesis block producers read back differ", rep)
		case !reflect.DeepEqual(append([]types.EnterpriseBP{}, back.EnterpriseBPs...), append([]types.EnterpriseBP{}, g.EnterpriseBPs...)):
			run.Fail("genesis enterprise block producers read back differ", rep)
		case total.Sign() != 0 && (back.TotalBalance() == nil || back.TotalBalance().Cmp(total) != 0):
			run.Fail("genesis total balance read back differs", rep)
		}
	}
}

// ---------------------------------------------------------------------------------------------
// 7. inventories by reflection: every exported field of Receipt, Event and ChainID - also one added later - is generated,
// changed singly and looked for in the commitment (Merkle bytes, chain id bytes) and in what storage gives back. The only
// fields allowed to be absent are the ones named here (the same lists the Lean theorems of Part 6 are stated over).

var receiptDerived = map[string]bool{"BlockNo": true, "BlockHash": true, "TxIndex": true, "From": true, "To": true} // filled in when a receipt is served
var receiptV2Only = map[string]bool{"GasUsed": true, "FeeDelegation": true}
var eventDerived = map[string]bool{"BlockHash": true, "BlockNo": true, "TxIndex": true}
var eventNotStored = map[string]bool{"TxHash": true} // restored from the receipt (SetMemoryInfo)

// changeField gives the exported field f of the struct v another value (kinds of the pinned structs; an unknown kind stops the harness)
func changeField(v reflect.Value, f string) {
	fv := v.FieldByName(f)
	switch fv.Kind() {
	case reflect.Slice:
		if fv.Type().Elem().Kind() == reflect.Uint8 {
			b := fv.Bytes()
			if len(b) == 0 {
				fv.SetBytes([]byte{byte(1 + rng.Intn(255))})
			} else {
				c := append([]byte(nil), b...)
				k := rng.Intn(len(c))
				if k == 0 && len(c) > 1 {
					k = 1 // the first byte of an address is its type marker (an event address starting with 0x00 is the "same as receipt" marker)
				}
				c[k] ^= byte(1 << uint(rng.Intn(8)))
				fv.SetBytes(c)
			}
			return
		}
		if fv.Type() == reflect.TypeOf([]*types.Event{}) {
			evs := fv.Interface().([]*types.Event)
			r := v.Addr().Interface().(*types.Receipt)
			evs = append(append([]*types.Event(nil), evs...), &types.Event{ContractAddress: r.ContractAddress, EventName: "x", JsonArgs: "[]", EventIdx: int32(len(evs)), TxHash: r.TxHash})
			fv.Set(reflect.ValueOf(evs))
			return
		}
		panic("c19 harness: slice field kind not handled: " + f)
	case reflect.String:
		if f == "Status" {
			old := fv.String()
			for fv.String() == old {
				fv.SetString([]string{"SUCCESS", "CREATED", "RECREATED"}[rng.Intn(3)])
			}
			return
		}
		fv.SetString(fv.String() + string(rune('a'+rng.Intn(26))))
	case reflect.Uint64, reflect.Uint32:
		fv.SetUint(fv.Uint() ^ (1 << uint(rng.Intn(32))))
	case reflect.Int64, reflect.Int32:
		fv.SetInt(int64(int32(fv.Int()) ^ (1 << uint(rng.Intn(31)))))
	case reflect.Bool:
		fv.SetBool(!fv.Bool())
	default:
		panic("c19 harness: field kind not handled: " + f + " " + fv.Kind().String())
	}
}

func sameField(a, b reflect.Value) bool {
	if a.Kind() == reflect.Slice && a.Type().Elem().Kind() == reflect.Uint8 {
		return bytes.Equal(a.Bytes(), b.Bytes())
	}
	return reflect.DeepEqual(a.Interface(), b.Interface())
}

// copyOf: a receipt with the same exported fields (events copied one level deep), by reflection so that a field added later is carried over
func copyOf(r *types.Receipt) *types.Receipt {
	m := &types.Receipt{}
	mv, rv := reflect.ValueOf(m).Elem(), reflect.ValueOf(r).Elem()
	for _, g := range exportedFields(rv.Type()) {
		mv.FieldByName(g).Set(rv.FieldByName(g))
	}
	m.Events = nil
	for _, e := range r.Events {
		c := &types.Event{}
		cv, ev := reflect.ValueOf(c).Elem(), reflect.ValueOf(e).Elem()
		for _, g := range exportedFields(ev.Type()) {
			cv.FieldByName(g).Set(ev.FieldByName(g))
		}
		m.Events = append(m.Events, c)
	}
	return m
}

func decodeStored(sb []byte, v2 bool) (*types.Receipt, string) {
	var dec types.Receipt
	out, panicked := vh.Guard(func() string {
		if _, e := types.VerifC19UnmarshalStore(&dec, exact(sb), v2); e != nil {
			return "err"
		}
		return ""
	})
	if panicked {
		return nil, "panic"
	}
	if out != "" {
		return nil, out
	}
	return &dec, ""
}

func inventories() {
	rFields := exportedFields(reflect.TypeOf(types.Receipt{}))
	eFields := exportedFields(reflect.TypeOf(types.Event{}))
	cFields := exportedFields(reflect.TypeOf(types.ChainID{}))
	for i := 0; i < run.Pick(60, 1200); i++ {
		r := wfReceipt()
		if r.Status == "ERROR" {
			r.Status = "SUCCESS" // the return value of a failed execution is not committed (stated separately)
		}
		if len(r.Events) == 0 {
			r.Events = []*types.Event{{ContractAddress: r.ContractAddress, EventName: "e", JsonArgs: "[1]", EventIdx: 0, TxHash: r.TxHash}}
		}
		if len(r.Bloom) == 0 {
			r.Bloom = bloomBytes(randBloomFilter()) // a bloom filter is absent or 256 bytes: changes keep the length
		}
		for _, v2 := range []bool{false, true} {
			base, err := merkleBytes(r, v2)
			if err != nil {
				panic(err)
			}
			// ---- receipt fields
			for _, f := range rFields {
				m := copyOf(r)
				changeField(reflect.ValueOf(m).Elem(), f)
				mb, merr := merkleBytes(m, v2)
				committed := merr != nil || !bytes.Equal(mb, base)
				run.Eval(fmt.Sprintf("inventory receipt %s %v %d", f, v2, i), true)
				run.Count("inventory-receipt-field")
				must := !receiptDerived[f] && (v2 || !receiptV2Only[f])
				if must && !committed {
					run.Fail("receipt field "+f+" is not committed by the receipt's Merkle bytes of format "+vtag(v2)+
						" (and is not one of the fields filled in when a receipt is served: BlockNo, BlockHash, TxIndex, From, To)",
						map[string]interface{}{"format": vtag(v2), "field": f, "receipt": receiptTokens(r)})
				}
				// storage: what is written reads back, field by field
				// (CumulativeFeeUsed is never assigned by the node and a non-empty one does not read back - the stray `pos += l` of
				// unmarshalBody, see notes/C19.md; it is committed, which is what is checked above)
				if sb, serr := types.VerifC19MarshalStore(m, v2); must && f != "CumulativeFeeUsed" && merr == nil && serr == nil {
					dec, out := decodeStored(sb, v2)
					bad := dec == nil
					if !bad && f == "Events" {
						bad = len(dec.Events) != len(m.Events)
					} else if !bad {
						bad = !sameField(reflect.ValueOf(dec).Elem().FieldByName(f), reflect.ValueOf(m).Elem().FieldByName(f))
					}
					if bad {
						run.Fail("receipt field "+f+" does not read back from the storage bytes of format "+vtag(v2)+" as written",
							map[string]interface{}{"format": vtag(v2), "field": f, "receipt": receiptTokens(m), "decode": out})
					}
				}
			}
			// ---- event fields (first event)
			for _, f := range eFields {
				m := copyOf(r)
				ev := reflect.ValueOf(m.Events[0]).Elem()
				changeField(ev, f)
				mb, merr := merkleBytes(m, v2)
				committed := merr != nil || !bytes.Equal(mb, base)
				run.Eval(fmt.Sprintf("inventory event %s %v %d", f, v2, i), true)
				run.Count("inventory-event-field")
				if !eventDerived[f] && !committed {
					run.Fail("event field "+f+" is not committed by the receipt's Merkle bytes of format "+vtag(v2)+
						" (and is not one of the fields filled in when an event is served: BlockHash, BlockNo, TxIndex)",
						map[string]interface{}{"format": vtag(v2), "field": f, "receipt": receiptTokens(r)})
				}
				if sb, serr := types.VerifC19MarshalStore(m, v2); !eventDerived[f] && !eventNotStored[f] && merr == nil && serr == nil {
					dec, out := decodeStored(sb, v2)
					if dec == nil || len(dec.Events) == 0 || !sameField(reflect.ValueOf(dec.Events[0]).Elem().FieldByName(f), ev.FieldByName(f)) {
						run.Fail("event field "+f+" does not read back from the storage bytes of format "+vtag(v2)+" as written",
							map[string]interface{}{"format": vtag(v2), "field": f, "receipt": receiptTokens(m), "decode": out})
					}
				}
			}
		}
		// ---- chain id fields
		c, noSlash := randChainID()
		if !noSlash {
			continue
		}
		cb, err := c.Bytes()
		if err != nil {
			continue
		}
		for _, f := range cFields {
			m := *c
			changeField(reflect.ValueOf(&m).Elem(), f)
			if strings.Contains(m.Magic, "/") || strings.Contains(m.Consensus, "/") {
				continue
			}
			mb, err := m.Bytes()
			run.Eval(fmt.Sprintf("inventory chainid %s %d", f, i), true)
			run.Count("inventory-chainid-field")
			rep := map[string]interface{}{"field": f, "chain_id": fmt.Sprintf("%+v", *c), "changed": fmt.Sprintf("%+v", m)}
			if err == nil && bytes.Equal(mb, cb) {
				run.Fail("chain id field "+f+" is not part of the chain id bytes (ChainID.Bytes): two different chain ids have the same encoding", rep)
			}
			if err == nil {
				back := types.NewChainID()
				if e := back.Read(exact(mb)); e != nil || !reflect.DeepEqual(*back, m) {
					rep["read_back"] = fmt.Sprintf("%+v", *back)
					run.Fail("chain id field "+f+" does not read back from the chain id bytes as written", rep)
				}
				if back.Equals(c) {
					run.Fail("ChainID.Equals ignores field "+f, rep)
				}
			}
		}
	}
}

// ---------------------------------------------------------------------------------------------
// 8. the same bindings in the STATEFUL order, on one object: the digest / root / bytes are taken, the object is changed in
// place through what its API hands out (live *Receipt pointers and the list of Receipts.Get(), the fields of a header, body,
// chain id), and taken again. The second answer must be the one a freshly built object with the same content gives: any
// memoisation inside the object must be invisible. (The one documented memo, Block.Hash filled in by BlockHash(), is cleared
// before the comparison: a NEW cache is what this looks for.)

func statefulFail(what string, rep map[string]interface{}) {
	run.Fail("after a change made in place on the same object "+what+" still is what it was before the change (differs from a freshly built object with the same content)", rep)
}

func freshReceipts(c *types.Receipts, v2 bool) *types.Receipts {
	var f types.Receipts
	var rs []*types.Receipt
	for _, r := range c.Get() {
		rs = append(rs, copyOf(r))
	}
	f.Set(rs)
	f.SetHardFork(hfCfg, c.GetBlockNo())
	if bf := types.VerifC19Bloom(c); bf != nil {
		if err := f.MergeBloom(bf); err != nil {
			panic(err)
		}
	}
	return &f
}

func stateful() {
	hdrFields := exportedFields(reflect.TypeOf(types.BlockHeader{}))
	txFields := exportedFields(reflect.TypeOf(types.TxBody{}))
	cFields := exportedFields(reflect.TypeOf(types.ChainID{}))
	rFields := exportedFields(reflect.TypeOf(types.Receipt{}))
	hdrTypical := map[string]int{"ChainID": 20, "PubKey": 37, "CoinbaseAccount": 33, "Sign": 71, "Consensus": 8}
	txTypical := map[string]int{"Account": 33, "Recipient": 33, "Amount": 9, "Payload": 60, "GasPrice": 5, "Sign": 71}
	for i := 0; i < run.Pick(150, 3000); i++ {
		// ---- the Receipts container: root and stored bytes
		v2 := rng.Bool()
		n := 1 + rng.Intn(5)
		var rs []*types.Receipt
		for k := 0; k < n; k++ {
			rs = append(rs, wfReceipt())
		}
		var bf *bloom.BloomFilter
		if rng.Bool() {
			bf = randBloomFilter()
		}
		c := newReceipts(rs, bf, v2)
		root0 := c.MerkleRoot()
		raw0, _ := c.MarshalBinary()
		what := ""
		live := c.Get()
		switch rng.Intn(4) {
		case 0:
			if n >= 2 {
				a, b := rng.Intn(n), rng.Intn(n)
				live[a], live[b] = live[b], live[a] // the list Get() hands out is the container's own
				what = fmt.Sprintf("receipts %d and %d swapped", a, b)
				break
			}
			fallthrough
		case 1:
			k := rng.Intn(n)
			what = fmt.Sprintf("receipt %d: %s", k, mutateReceipt(live[k], v2))
		case 2: // what the node does to receipts it serves / executes
			k := rng.Intn(n)
			live[k].SetMemoryInfo(rng.Bytes(32), types.BlockNo(rng.Intn(1000)), int32(k))
			what = fmt.Sprintf("receipt %d: SetMemoryInfo", k)
		default:
			k := rng.Intn(n)
			f := rFields[rng.Intn(len(rFields))]
			if f == "Bloom" && len(live[k].Bloom) == 0 {
				live[k].Bloom = bloomBytes(randBloomFilter())
			} else {
				changeField(reflect.ValueOf(live[k]).Elem(), f)
			}
			what = fmt.Sprintf("receipt %d: field %s", k, f)
		}
		f := freshReceipts(c, v2)
		root1, rootF := c.MerkleRoot(), f.MerkleRoot()
		run.Eval(fmt.Sprintf("stateful receipts %d %s", i, what), true)
		run.Count("stateful-receipts")
		rep := map[string]interface{}{"format": vtag(v2), "change": what, "root_before": hx(root0), "root_after_on_same_object": hx(root1), "root_of_fresh_object": hx(rootF)}
		if !bytes.Equal(root1, rootF) {
			statefulFail("the receipts root (Receipts.MerkleRoot)", rep)
		}
		raw1, e1 := c.MarshalBinary()
		rawF, eF := f.MarshalBinary()
		if (e1 == nil) != (eF == nil) || !bytes.Equal(raw1, rawF) {
			statefulFail("the stored form of the receipts (Receipts.MarshalBinary)", rep)
		}
		_ = raw0
		// SetHardFork to the other format and back, MergeBloom: the documented ways of changing the container
		c.SetHardFork(hfCfg, blockNoFor(!v2))
		f = freshReceipts(c, !v2)
		if !bytes.Equal(c.MerkleRoot(), f.MerkleRoot()) {
			statefulFail("the receipts root after SetHardFork", rep)
		}

		// ---- one receipt: Merkle bytes, leaf hash, storage bytes
		r := wfReceipt()
		mb0, _ := merkleBytes(r, v2)
		gh0 := r.GetHash()
		what = mutateReceipt(r, v2)
		fr := copyOf(r)
		mb1, _ := merkleBytes(r, v2)
		mbF, _ := merkleBytes(fr, v2)
		sb1, _ := types.VerifC19MarshalStore(r, v2)
		sbF, _ := types.VerifC19MarshalStore(fr, v2)
		run.Eval(fmt.Sprintf("stateful receipt %d %s", i, what), true)
		run.Count("stateful-receipt")
		if !bytes.Equal(mb1, mbF) || !bytes.Equal(r.GetHash(), fr.GetHash()) || !bytes.Equal(sb1, sbF) {
			statefulFail("the Merkle / storage bytes of a receipt", map[string]interface{}{"format": vtag(v2), "change": what, "before": hx(mb0), "leaf_before": hx(gh0)})
		}

		// ---- transaction: identifier and signing digest
		b := &types.TxBody{}
		fill(reflect.ValueOf(b).Elem(), txTypical)
		tx := &types.Tx{Body: b}
		wtx := types.NewTransaction(tx)
		id0, sg0 := tx.CalculateTxHash(), key.CalculateHashWithoutSign(b)
		_ = wtx.CalculateTxHash()
		fld := txFields[rng.Intn(len(txFields))]
		mutateField(reflect.ValueOf(tx.Body).Elem(), fld)
		fb := cloneBody(tx.Body)
		run.Eval(fmt.Sprintf("stateful tx %d %s", i, fld), true)
		run.Count("stateful-tx")
		rep = map[string]interface{}{"field": fld, "id_before": hx(id0), "sign_digest_before": hx(sg0), "body": strings.TrimSpace(assigns(reflect.ValueOf(tx.Body).Elem()))}
		if !bytes.Equal(tx.CalculateTxHash(), txID(fb)) || !bytes.Equal(wtx.CalculateTxHash(), txID(fb)) {
			statefulFail("the transaction identifier (CalculateTxHash)", rep)
		}
		if !bytes.Equal(key.CalculateHashWithoutSign(tx.Body), txSign(fb)) {
			statefulFail("the transaction signing digest (CalculateHashWithoutSign)", rep)
		}
		// the tx root over a list whose entries are changed in place
		txs := []*types.Tx{{Hash: rng.Bytes(32)}, {Hash: rng.Bytes(32)}, {Hash: rng.Bytes(32)}}
		_ = types.CalculateTxsRootHash(txs)
		if rng.Bool() {
			txs[0], txs[2] = txs[2], txs[0]
		} else {
			txs[1].Hash = rng.Bytes(32)
		}
		if !bytes.Equal(types.CalculateTxsRootHash(txs), types.CalculateTxsRootHash([]*types.Tx{{Hash: txs[0].Hash}, {Hash: txs[1].Hash}, {Hash: txs[2].Hash}})) {
			statefulFail("the transaction root (CalculateTxsRootHash)", map[string]interface{}{})
		}

		// ---- block header: identifier and signing message
		h := &types.BlockHeader{}
		fill(reflect.ValueOf(h).Elem(), hdrTypical)
		blk := &types.Block{Header: h}
		d0, m0 := types.VerifC19CalculateBlockHash(blk), blockMsg(h)
		bh0 := append([]byte(nil), blk.BlockHash()...) // fills the documented memo Block.Hash
		fld = hdrFields[rng.Intn(len(hdrFields))]
		mutateField(reflect.ValueOf(blk.Header).Elem(), fld)
		fh := cloneHeader(blk.Header)
		run.Eval(fmt.Sprintf("stateful header %d %s", i, fld), true)
		run.Count("stateful-header")
		rep = map[string]interface{}{"field": fld, "digest_before": hx(d0), "sign_message_before": hx(m0), "header": strings.TrimSpace(assigns(reflect.ValueOf(blk.Header).Elem()))}
		if !bytes.Equal(types.VerifC19CalculateBlockHash(blk), blockID(fh)) {
			statefulFail("the digest of the block header (calculateBlockHash)", rep)
		}
		if !bytes.Equal(blockMsg(blk.Header), blockMsg(fh)) {
			statefulFail("the block signing message (bytesForDigest)", rep)
		}
		// Block.Hash is the documented memo of BlockHash() (Lean: block_id_stale_after_memo; C18-id-not-recomputed): it keeps the old
		// value. Once it is cleared, BlockHash() must give the digest of the header as it is now.
		if !bytes.Equal(blk.BlockHash(), bh0) {
			run.Count("stateful-blockhash-memo-not-kept") // not demanded
		}
		blk.Hash = nil
		if !bytes.Equal(blk.BlockHash(), blockID(fh)) {
			statefulFail("Block.BlockHash() with the carried Hash cleared", rep)
		}

		// ---- chain id: bytes of a changed id, Read into an object that already holds another id
		cid, noSlash := randChainID()
		b0, err := cid.Bytes()
		if err != nil || !noSlash {
			continue
		}
		fld = cFields[rng.Intn(len(cFields))]
		changeField(reflect.ValueOf(cid).Elem(), fld)
		if strings.Contains(cid.Magic, "/") || strings.Contains(cid.Consensus, "/") {
			continue
		}
		fc := *cid
		b1, e1 := cid.Bytes()
		bF, eF := fc.Bytes()
		run.Eval(fmt.Sprintf("stateful chainid %d %s", i, fld), true)
		run.Count("stateful-chainid")
		rep = map[string]interface{}{"field": fld, "bytes_before": hx(b0), "chain_id": fmt.Sprintf("%+v", *cid)}
		if (e1 == nil) != (eF == nil) || !bytes.Equal(b1, bF) {
			statefulFail("the chain id bytes (ChainID.Bytes)", rep)
		}
		if e1 == nil {
			used := types.NewChainID()
			if used.Read(exact(b0)) == nil {
				eu := used.Read(exact(b1))
				fr := types.NewChainID()
				ef := fr.Read(exact(b1))
				if (eu == nil) != (ef == nil) || (eu == nil && !reflect.DeepEqual(*used, *fr)) {
					statefulFail("the chain id read (ChainID.Read) into an object that held another id", rep)
				}
			}
		}
	}
}
