package main

import (
	"fmt"
	"math/big"
	"os"
	"path/filepath"
	"reflect"
	"sort"

	"github.com/aergoio/aergo/v2/chain"
	"github.com/aergoio/aergo/v2/config"
	"github.com/aergoio/aergo/v2/internal/enc/base58"
	"github.com/aergoio/aergo/v2/types"
)

// genesisRoundTrips: `aergosvr init` (NewCore + InitGenesisBlock) with a generated genesis on a fresh data directory,
// process end, NewCore on the same directory, the real ChainDB.GetGenesisInfo. Every exported field of types.Genesis
// and of its ChainID (enumerated by reflection: a field added later is generated and compared too) must read back as
// written; the only field the storage format leaves out on purpose is Balance (types/genesis.go Bytes: "Omit the
// Balance to reduce the resulting data size"; the balances are in the genesis state, their sum is stored separately).

var genesisNotStored = map[string]bool{"Balance": true}

func randName(slash bool) string {
	n := 1 + rng.Intn(12)
	b := make([]byte, n)
	const cs = "abcdefghijklmnopqrstuvwxyz.-_0123456789ABCDEFGHIJKLMNOPQRSTUVWXYZ"
	for i := range b {
		switch {
		case slash && rng.Chance(1, 6):
			b[i] = '/'
		case rng.Chance(1, 25):
			b[i] = byte(rng.Intn(256))
			if b[i] == '/' {
				b[i] = '.'
			}
		default:
			b[i] = cs[rng.Intn(len(cs))]
		}
	}
	return string(b)
}

// fillValue sets v (a settable value of a genesis field) to a generated non-zero value
func fillValue(v reflect.Value, path string) {
	switch v.Kind() {
	case reflect.Bool:
		v.SetBool(rng.Bool())
	case reflect.Int32:
		x := int32(rng.Next())
		if rng.Bool() {
			x = int32(rng.Intn(6))
		}
		v.SetInt(int64(x))
	case reflect.Int64:
		v.SetInt(int64(rng.Next() >> uint(rng.Intn(64))))
	case reflect.Uint64, reflect.Uint32:
		v.SetUint(uint64(rng.Intn(1 << 30)))
	case reflect.String:
		v.SetString(randName(false))
	case reflect.Slice:
		n := rng.Intn(4)
		s := reflect.MakeSlice(v.Type(), n, n)
		for i := 0; i < n; i++ {
			fillValue(s.Index(i), path)
		}
		if n > 0 {
			v.Set(s)
		}
	case reflect.Struct:
		for i := 0; i < v.NumField(); i++ {
			if v.Type().Field(i).IsExported() {
				fillValue(v.Field(i), path+"."+v.Type().Field(i).Name)
			}
		}
	default:
		panic("c19chain harness: genesis field kind not handled: " + path + " " + v.Kind().String())
	}
}

func randGenesis() *types.Genesis {
	g := &types.Genesis{}
	gv := reflect.ValueOf(g).Elem()
	for i := 0; i < gv.NumField(); i++ {
		f := gv.Type().Field(i)
		if !f.IsExported() || f.Name == "Balance" {
			continue
		}
		fillValue(gv.Field(i), f.Name)
	}
	// what the node requires of a genesis it can be initialised with
	g.ID.Consensus = []string{"dpos", "raft", "sbp"}[rng.Intn(3)]
	if rng.Chance(1, 8) {
		g.ID.Magic = randName(true) // may contain '/': the chain id of the genesis block then does not parse, the stored copy of the id is kept
	}
	if rng.Chance(1, 4) {
		g.ID.Magic = []string{"dev.chain", "aergo.io", "testnet.aergo.io"}[rng.Intn(3)]
	}
	g.BPs = nil
	for k := rng.Intn(5); k > 0; k-- {
		g.BPs = append(g.BPs, base58.Encode(rng.Bytes(38))) // producers are base58 peer ids
	}
	g.Balance = map[string]string{}
	for k := rng.Intn(4); k > 0; k-- {
		a := rng.Bytes(33)
		a[0] = 0x02 + byte(rng.Intn(2))
		g.Balance[types.EncodeAddress(a)] = new(big.Int).SetBytes(rng.Bytes(1 + rng.Intn(12))).String()
	}
	return g
}

func fieldDiff(a, b reflect.Value, path string, skip map[string]bool) string {
	switch a.Kind() {
	case reflect.Struct:
		for i := 0; i < a.NumField(); i++ {
			f := a.Type().Field(i)
			if !f.IsExported() || (skip != nil && skip[f.Name]) {
				continue
			}
			if d := fieldDiff(a.Field(i), b.Field(i), path+"."+f.Name, nil); d != "" {
				return d
			}
		}
		return ""
	case reflect.Slice:
		if a.Len() != b.Len() {
			return path + " (length)"
		}
		for i := 0; i < a.Len(); i++ {
			if d := fieldDiff(a.Index(i), b.Index(i), fmt.Sprintf("%s[%d]", path, i), nil); d != "" {
				return d
			}
		}
		return ""
	default:
		if !reflect.DeepEqual(a.Interface(), b.Interface()) {
			return path
		}
		return ""
	}
}

func genesisRoundTrips(root string) {
	for i := 0; i < run.Pick(30, 300); i++ {
		g := randGenesis()
		dir := filepath.Join(root, "gen", fmt.Sprint(i))
		os.RemoveAll(dir)
		os.MkdirAll(dir, 0o755)
		core, err := chain.NewCore("memorydb", dir, false, 0, &config.DBConfig{})
		if err != nil {
			panic(err)
		}
		if err := core.InitGenesisBlock(g, false); err != nil {
			panic(err)
		}
		core.Close()
		// g is now what was written (InitGenesisBlock orders the producers and sums the balances up)
		written := *g
		core, err = chain.NewCore("memorydb", dir, false, 0, &config.DBConfig{})
		if err != nil {
			panic(err)
		}
		back := core.GetGenesisInfo()
		core.Close()
		os.RemoveAll(dir)
		run.Eval(fmt.Sprintf("genesis-info %v %d %v %d", written.ID, written.Timestamp, written.BPs, len(written.EnterpriseBPs)), true)
		run.Count("genesis-info-roundtrip")
		var bal []string
		for k, v := range written.Balance {
			bal = append(bal, k+"="+v)
		}
		sort.Strings(bal)
		rep := map[string]interface{}{"chain_id": written.ID.ToJSON(), "timestamp": written.Timestamp, "bps": written.BPs, "enterprise_bps": written.EnterpriseBPs, "balance": bal}
		if back == nil {
			run.Fail("GetGenesisInfo finds no genesis on a store initialised by InitGenesisBlock", rep)
			continue
		}
		if d := fieldDiff(reflect.ValueOf(written), reflect.ValueOf(*back), "Genesis", genesisNotStored); d != "" {
			rep["field"] = d
			rep["read_back"] = fmt.Sprintf("%+v", *back)
			run.Fail("genesis read back by GetGenesisInfo differs from what InitGenesisBlock wrote in field "+d, rep)
			continue
		}
		wt, bt := written.TotalBalance(), back.TotalBalance()
		// (a total of zero is stored as an empty value and reads back as "no total": the same amount)
		zero := func(x *big.Int) bool { return x == nil || x.Sign() == 0 }
		if zero(wt) != zero(bt) || (!zero(wt) && wt.Cmp(bt) != 0) {
			rep["total_written"], rep["total_read"] = fmt.Sprint(wt), fmt.Sprint(bt)
			run.Fail("genesis total balance read back by GetGenesisInfo differs from what was written", rep)
		}
		// the genesis block read back carries the chain id that was written
		cid, err := written.ID.Bytes()
		if err == nil && back.Block() != nil && hx(back.Block().GetHeader().GetChainID()) != hx(cid) {
			run.Fail("the stored genesis block does not carry the chain id of the genesis", rep)
		}
	}
}
