// Harness c19chain: the node-level half of property C19 (canonical, binding encodings). A real ChainService with the
// real DPoS block factory (see node.go) is driven across hardfork heights; observed are
//   - the receipt format each call site picks for a block (producer: dpos/blockfactory.go SetHardFork(bf.bv, bi.No);
//     validator/committer: chain/chainhandle.go newBlockExecutor SetHardFork(cfg.Hardfork, block.BlockNo()); reader:
//     chain/chaindb.go getReceipts SetHardFork(cfg, blockNo)), against the model's `isFork V2 no`;
//   - receipts read back through the chain worker's queries against what the executor produced;
//   - the identifier a produced / stored block carries against the digest of its final header, and the parent block
//     object (the cached best block) before and after a child was derived from it;
//   - blocks whose transactions carry a Hash that is not the digest of the body (tx root computed over the carried
//     hashes, header signed by the genuine producer key): must be refused (types/transaction.go Validate);
//   - the start-up compatibility check (ChainService.checkHardfork with ChainDB.Hardfork / FixDbConfig / WriteHardfork)
//     on stored hardfork records as written by this, an older or a newer release or damaged, both through the shim on
//     the live node and through a real stop / NewChainService on the same data directory; oracle: a node that starts
//     gives every existing block the version its header carries ("stable across restarts");
//   - GetGenesisInfo on stores initialised by InitGenesisBlock with generated geneses.
//
// The operation lines are answered by the same Lean driver as harness c19 (model-c19).
package main

import (
	"bytes"
	"encoding/hex"
	"encoding/json"
	"fmt"
	"math/big"
	"os"
	"path/filepath"
	"reflect"
	"sort"
	"strconv"
	"strings"

	"github.com/aergoio/aergo/v2/chain"
	"github.com/aergoio/aergo/v2/config"
	"github.com/aergoio/aergo/v2/contract"
	"github.com/aergoio/aergo/v2/internal/enc/gob"
	"github.com/aergoio/aergo/v2/p2p/p2pkey"
	"github.com/aergoio/aergo/v2/types"
	"github.com/aergoio/aergo/v2/types/dbkey"
	"github.com/aergoio/aergo/v2/zz_verif/vh"
)

var run *vh.Run
var rng *vh.Rng

const never = uint64(1<<64 - 1)

func hx(b []byte) string {
	if len(b) == 0 {
		return "-"
	}
	return hex.EncodeToString(b)
}

func main() {
	run = vh.Start("c19chain", "real ChainService + DPoS block factory across hardfork heights: receipt format per call site, receipts read back, "+
		"carried identifiers of produced/stored blocks, parent block intact, blocks with a forged carried tx hash, "+
		"checkHardfork on stored records of this/older/newer releases and damaged ones (shim on the live node and real restarts), GetGenesisInfo; "+
		"non-trivial = the operation reached a non-error clause; distinct by (op, answer)")
	defer run.Finish()
	rng = run.Rng.Fork()
	root := filepath.Join(run.Out, "w")
	os.MkdirAll(root, 0o755)
	scripted(root)
	for i := 0; i < run.Pick(10, 80); i++ {
		scenario(root, i)
	}
	genesisRoundTrips(root)
	os.RemoveAll(root)
}

// ---------------------------------------------------------------- hardfork configurations

func hfFields() []string {
	var out []string
	t := reflect.TypeOf(config.HardforkConfig{})
	for i := 0; i < t.NumField(); i++ {
		out = append(out, t.Field(i).Name)
	}
	return out
}

func mkCfg(hs []uint64) *config.HardforkConfig {
	c := &config.HardforkConfig{}
	v := reflect.ValueOf(c).Elem()
	for i := range hfFields() {
		v.Field(i).SetUint(hs[i])
	}
	return c
}

func heightsOf(c *config.HardforkConfig) []uint64 {
	v := reflect.ValueOf(c).Elem()
	hs := make([]uint64, v.NumField())
	for i := range hs {
		hs[i] = v.Field(i).Uint()
	}
	return hs
}

func natsStr(hs []uint64) string {
	var sb strings.Builder
	fmt.Fprintf(&sb, "%d", len(hs))
	for _, h := range hs {
		fmt.Fprintf(&sb, " %d", h)
	}
	return sb.String()
}

// firstCfg: non-decreasing small heights, a suffix of the forks possibly not scheduled yet (MaxUint64), V2 mostly inside the
// chain that is going to be built so that both receipt formats occur.
func firstCfg(maxNo int) []uint64 {
	n := len(hfFields())
	hs := make([]uint64, n)
	h := uint64(rng.Intn(4))
	if rng.Chance(1, 2) {
		h = uint64(1 + rng.Intn(maxNo)) // the V2 fork (receipt format switch) inside the chain that is going to be built
	}
	if rng.Chance(1, 8) {
		h = 0
	}
	for i := range hs {
		hs[i] = h
		h += uint64(rng.Intn(4))
		if rng.Chance(1, 8) {
			h += uint64(maxNo)
		}
	}
	if rng.Chance(1, 2) {
		for i := n - 1 - rng.Intn(2); i < n; i++ {
			if i >= 1 {
				hs[i] = never
			}
		}
	}
	return hs
}

// ---------------------------------------------------------------- one node life

type built struct {
	blk      *types.Block
	id       []byte
	receipts []*types.Receipt
	version  int32
}

func scenario(root string, idx int) {
	maxNo := 3 + rng.Intn(run.Pick(8, 12))
	hs1 := firstCfg(maxNo)
	c1 := mkCfg(hs1)
	n := newCNode(root, c1)
	defer func() {
		n.close()
		os.RemoveAll(n.dir)
	}()
	run.Count("node")
	chainOf := []built{{blk: n.best(), id: n.best().BlockHash()}}
	for no := 1; no <= maxNo; no++ {
		b, ok := buildBlock(n, hs1, uint64(no))
		if !ok {
			return
		}
		chainOf = append(chainOf, b)
	}
	forgedTxHash(n, hs1)
	readBack(n, hs1, chainOf, "first-life")
	startupChecks(n, hs1, chainOf)
	restarts(n, hs1, chainOf)
}

// scripted: the two upgrade paths of the audit as fixed scenarios through a real stop / NewChainService.
//  1. a release that knows V2..V4 runs the chain up to block 6 (its stored record has no V5 key); the next release
//     schedules V5 at height 5 <= best block;
//  2. the stored record is not a JSON object of unsigned numbers; the next start moves V3 from 2 to 4 (blocks 2..3 exist).
func scripted(root string) {
	for k := 0; k < 2; k++ {
		hs1 := []uint64{1, 2, 3, never}
		if len(hfFields()) != 4 {
			return
		}
		n := newCNode(root, mkCfg(hs1))
		chainOf := []built{{blk: n.best(), id: n.best().BlockHash()}}
		for no := 1; no <= 6; no++ {
			b, ok := buildBlock(n, hs1, uint64(no))
			if !ok {
				n.close()
				return
			}
			chainOf = append(chainOf, b)
		}
		var rec record
		var hs2 []uint64
		if k == 0 {
			rec = recordOf("older-release", map[string]uint64{"V2": 1, "V3": 2, "V4": 3})
			hs2 = []uint64{1, 2, 3, 5}
		} else {
			rec = record{kind: "unparsable", json: []byte(`{"V2":1,"V3":2,"V4":3,"V5":-1}`), bad: true}
			hs2 = []uint64{1, 4, 5, never}
		}
		putRecord(n, rec)
		n.close()
		err := n.open(mkCfg(hs2))
		run.Eval(fmt.Sprintf("scripted-restart %d", k), err == nil)
		run.Count(fmt.Sprintf("scripted-restart-%d-started=%v", k, err == nil))
		if err == nil {
			judge("scripted: stop, NewChainService on the same data directory", hs1, hs2, rec, 6, chainOf, "scripted")
		}
		n.close()
		os.RemoveAll(n.dir)
	}
}

// randScript: a script for the stub VM (overlay/stub/vmstub.go): return value, events, a runtime error
func randScript(call bool) string {
	sc := map[string]interface{}{"fee": "0"}
	if rng.Chance(1, 2) {
		sc["ret"] = fmt.Sprintf("r%d", rng.Intn(1000))
	}
	if rng.Chance(1, 2) {
		sc["events"] = 1 + rng.Intn(3)
	}
	if call && rng.Chance(1, 4) {
		sc["err"] = "vm"
	}
	b, _ := json.Marshal(sc)
	return string(b)
}

func cloneReceiptList(rs []*types.Receipt) []*types.Receipt {
	var out []*types.Receipt
	for _, r := range rs {
		c := *r
		c.Events = append([]*types.Event(nil), r.Events...)
		out = append(out, &c)
	}
	return out
}

// rootIn: the receipts root of the list in the forced format (1 or 2), computed with the real Receipts.MerkleRoot
func rootIn(rs []*types.Receipt, src *types.Receipts, format int, no types.BlockNo) []byte {
	var c types.Receipts
	c.Set(rs)
	c.SetHardFork(types.DummyBlockVersionner(format), no)
	if bf := types.VerifC19Bloom(src); bf != nil {
		if err := c.MergeBloom(bf); err != nil {
			panic(err)
		}
	}
	return c.MerkleRoot()
}

func storedIn(rs []*types.Receipt, src *types.Receipts, format int, no types.BlockNo) []byte {
	var c types.Receipts
	c.Set(rs)
	c.SetHardFork(types.DummyBlockVersionner(format), no)
	if bf := types.VerifC19Bloom(src); bf != nil {
		if err := c.MergeBloom(bf); err != nil {
			panic(err)
		}
	}
	val, err := gob.Encode(&c)
	if err != nil {
		panic(err)
	}
	return val
}

func fmtOp(site string, no uint64, hs []uint64) string {
	return fmt.Sprintf("rfmt %s %d %s", site, no, natsStr(hs))
}

func headerDigest(b *types.Block) []byte { return types.VerifC19CalculateBlockHash(b) }

func encHeader(b *types.Block) string {
	var buf bytes.Buffer
	if err := types.VerifC19WriteBlockHeader(&buf, b.GetHeader()); err != nil {
		panic(err)
	}
	return hx(buf.Bytes())
}

// buildBlock: the real block factory on the node's best block, then the real addBlock (own block / network block).
func buildBlock(n *cnode, hs []uint64, no uint64) (built, bool) {
	parent := n.best()
	parentHdr := encHeader(parent)
	parentID := append([]byte(nil), parent.BlockHash()...)
	parentDigest := headerDigest(parent)
	parentCid := append([]byte(nil), parent.GetHeader().GetChainID()...)
	ntx := rng.Intn(5)
	if rng.Chance(1, 5) {
		ntx = 0
	}
	if ntx == 0 && (no == hs[0] || no+1 == hs[0] || no == hs[0]+1) {
		ntx = 1 + rng.Intn(3) // the blocks around the receipt format switch always carry receipts
	}
	var txs []*types.Tx
	queued := map[int]uint64{}
	for k := 0; k < ntx; k++ {
		from := rng.Intn(cAccts)
		nonce := n.stateNonce(from) + 1 + queued[from]
		queued[from]++
		switch kind := rng.Intn(6); {
		case kind <= 2 || (kind >= 4 && len(n.contracts) == 0):
			to := (from + 1 + rng.Intn(cAccts-1)) % cAccts
			txs = append(txs, n.mkTx(from, nonce, n.addrs[to], big.NewInt(int64(1+rng.Intn(1000))), types.TxType_TRANSFER, nil))
			run.Count("tx-transfer")
		case kind == 3: // deploy: receipt CREATED with a return value, possibly events (bloom filter)
			txs = append(txs, n.mkTx(from, nonce, nil, big.NewInt(0), types.TxType_DEPLOY, []byte(randScript(false))))
			run.Count("tx-deploy")
		default: // call: SUCCESS with return value / events, or ERROR (vm error: the tx stays in the block)
			c := n.contracts[rng.Intn(len(n.contracts))]
			txs = append(txs, n.mkTx(from, nonce, c, big.NewInt(0), types.TxType_CALL, []byte(randScript(true))))
			run.Count("tx-call")
		}
	}
	blk, bs, err := n.produce(parent, txs)
	rep := map[string]interface{}{"hardfork": hs, "block_no": no, "txs": len(txs)}
	if err != nil {
		run.Fail("the block factory cannot produce a block of plain transfers: "+err.Error(), rep)
		return built{}, false
	}
	run.Count(fmt.Sprintf("block-version-%d", types.DecodeChainIdVersion(blk.GetHeader().GetChainID())))

	// ---- the parent (the node's cached best block object) is what it was before the child was derived from it
	run.Eval(fmt.Sprintf("parent-intact %d %v", no, hs), true)
	if h := encHeader(parent); h != parentHdr || !bytes.Equal(headerDigest(parent), parentDigest) || !bytes.Equal(parent.BlockHash(), parentID) {
		rep2 := map[string]interface{}{"hardfork": hs, "child_no": no, "parent_chain_id_before": hx(parentCid), "parent_chain_id_after": hx(parent.GetHeader().GetChainID()),
			"parent_id": hx(parentID), "parent_header_digest_now": hx(headerDigest(parent))}
		run.Fail("deriving a child block changed the header of its parent (the cached best block): the parent's identifier is no longer the digest of its header", rep2)
	}

	// ---- identifier of the produced block = digest of its final header
	carried := append([]byte(nil), blk.GetHash()...)
	digest := headerDigest(blk)
	id := append([]byte(nil), blk.BlockHash()...)
	run.Op("blkid "+hx(carried)+" "+hx(digest), hx(id), true)
	if !bytes.Equal(id, digest) {
		run.Fail("the identifier of a block produced by the node's block factory is not the digest of its header",
			map[string]interface{}{"hardfork": hs, "block_no": no, "identifier": hx(id), "header_digest": hx(digest), "header": encHeader(blk)})
	}
	// ---- version part of the chain id = Version(no)
	ver := types.DecodeChainIdVersion(blk.GetHeader().GetChainID())
	run.Op(fmt.Sprintf("ver %d %s", no, natsStr(hs)), fmt.Sprint(ver), ver != 0)

	// ---- receipt format at the producer
	prod := cloneReceiptList(bs.Receipts().Get())
	format := 0
	if len(prod) > 0 {
		r1, r2 := rootIn(prod, bs.Receipts(), 1, types.BlockNo(no)), rootIn(prod, bs.Receipts(), 2, types.BlockNo(no))
		switch {
		case bytes.Equal(r1, r2):
		case bytes.Equal(blk.GetHeader().GetReceiptsRootHash(), r1):
			format = 1
		case bytes.Equal(blk.GetHeader().GetReceiptsRootHash(), r2):
			format = 2
		default:
			format = -1
		}
		if format != 0 {
			run.Op(fmtOp("producer", no, hs), fmt.Sprint(format), true)
			run.Count(fmt.Sprintf("receipt-format-%d", format))
		}
		want := 1
		if hs[0] <= no {
			want = 2
		}
		if format != 0 && format != want {
			run.Fail("the block factory committed the receipts of a block in the wrong format for its height",
				map[string]interface{}{"hardfork": hs, "block_no": no, "format": format, "expected": want})
		}
	}

	// ---- connect: own block (commit only) or network block (executed again by the validator)
	own := rng.Bool()
	if own {
		err = n.connectOwn(blk, bs)
	} else {
		err = n.receive(wire(blk))
	}
	run.Count(fmt.Sprintf("connect-own=%v", own))
	if err != nil {
		run.Fail("a block produced by the node's own block factory is refused by the chain service: "+err.Error(),
			map[string]interface{}{"hardfork": hs, "block_no": no, "own": own, "txs": len(txs), "receipt_format_of_producer": format})
		return built{}, false
	}
	for k, t := range blk.GetBody().GetTxs() {
		if t.GetBody().GetType() == types.TxType_DEPLOY && k < len(prod) && prod[k].Status == "CREATED" {
			n.contracts = append(n.contracts, contract.CreateContractID(t.GetBody().GetAccount(), t.GetBody().GetNonce()))
		}
	}
	for _, r := range prod {
		run.Count("receipt-status-" + r.Status)
		if len(r.Events) > 0 {
			run.Count("receipt-with-events")
		}
	}
	if !own && format > 0 {
		// accepted: the validator's receipts root equals the header's, i.e. it used the producer's format
		run.Op(fmtOp("validator", no, hs), fmt.Sprint(format), true)
	}
	// ---- what was stored, and in which format
	if len(prod) > 0 {
		raw := chain.VerifC19Store(n.cs).Get(dbkey.Receipts(id, types.BlockNo(no)))
		s1, s2 := storedIn(prod, bs.Receipts(), 1, types.BlockNo(no)), storedIn(prod, bs.Receipts(), 2, types.BlockNo(no))
		sf := -1
		switch {
		case bytes.Equal(raw, s1) && !bytes.Equal(s1, s2):
			sf = 1
		case bytes.Equal(raw, s2) && !bytes.Equal(s1, s2):
			sf = 2
		}
		run.Op(fmtOp("store", no, hs), fmt.Sprint(sf), true)
	}
	return built{blk: blk, id: id, receipts: prod, version: ver}, true
}

func storedEqual(a, b *types.Receipt, v2 bool) string {
	switch {
	case !bytes.Equal(a.ContractAddress, b.ContractAddress):
		return "ContractAddress"
	case a.Status != b.Status:
		return "Status"
	case a.Ret != b.Ret:
		return "Ret"
	case !bytes.Equal(a.TxHash, b.TxHash):
		return "TxHash"
	case !bytes.Equal(a.FeeUsed, b.FeeUsed):
		return "FeeUsed"
	case !bytes.Equal(a.CumulativeFeeUsed, b.CumulativeFeeUsed):
		return "CumulativeFeeUsed"
	case v2 && a.GasUsed != b.GasUsed:
		return "GasUsed"
	case v2 && a.FeeDelegation != b.FeeDelegation:
		return "FeeDelegation"
	case !bytes.Equal(a.Bloom, b.Bloom):
		return "Bloom"
	case len(a.Events) != len(b.Events):
		return "Events(count)"
	}
	for i := range a.Events {
		x, y := a.Events[i], b.Events[i]
		if !bytes.Equal(x.ContractAddress, y.ContractAddress) || x.EventName != y.EventName || x.JsonArgs != y.JsonArgs || x.EventIdx != y.EventIdx {
			return fmt.Sprintf("Events[%d]", i)
		}
	}
	return ""
}

// readBack: every stored block and its receipts through the chain worker's queries, against what was produced.
// hs: the hardfork heights the blocks were produced under. Returns a description of the first difference ("" = none).
func readBack(n *cnode, hs []uint64, chainOf []built, life string) string {
	first := ""
	fail := func(what string, rep map[string]interface{}) {
		if first == "" {
			first = what
		}
		rep["hardfork_at_production"] = hs
		rep["life"] = life
		if life == "first-life" {
			run.Fail(what, rep)
		}
	}
	for no, b := range chainOf {
		if no == 0 {
			continue
		}
		run.Eval(fmt.Sprintf("readback %s %d %v", life, no, hs), true)
		var sb *types.Block
		h, err := n.cs.GetHashByNo(types.BlockNo(no))
		if err == nil {
			sb, err = n.cs.GetBlock(h)
		}
		if err != nil || !bytes.Equal(h, b.id) || !bytes.Equal(sb.BlockHash(), b.id) {
			fail("a connected block is not the block stored under its number", map[string]interface{}{"block_no": no})
			continue
		}
		if !bytes.Equal(headerDigest(sb), sb.BlockHash()) {
			fail("the identifier of a stored block is not the digest of its stored header",
				map[string]interface{}{"block_no": no, "identifier": hx(sb.BlockHash()), "header_digest": hx(headerDigest(sb))})
		}
		if len(b.receipts) == 0 {
			continue
		}
		v2 := hs[0] <= uint64(no)
		var got *types.Receipts
		out, panicked := vh.Guard(func() string {
			var err error
			if rng.Bool() {
				got, err = chain.VerifC19GetReceipts(n.cs, b.id)
			} else {
				got, err = chain.VerifC19GetReceiptsByNo(n.cs, types.BlockNo(no))
			}
			if err != nil {
				return "err: " + err.Error()
			}
			return ""
		})
		rep := map[string]interface{}{"block_no": no, "receipts": len(b.receipts), "format_v2": v2}
		if panicked || out != "" {
			rep["result"] = out
			fail("the stored receipts of a block cannot be read back", rep)
			continue
		}
		if len(got.Get()) != len(b.receipts) {
			fail("number of receipts read back differs from what was written", rep)
			continue
		}
		same := true
		for k := range b.receipts {
			if f := storedEqual(b.receipts[k], got.Get()[k], v2); f != "" {
				rep["index"], rep["field"] = k, f
				fail("receipt read back from the chain database differs from what the executor produced in field "+f, rep)
				same = false
				break
			}
		}
		if same && life == "first-life" {
			f := 1
			if v2 {
				f = 2
			}
			run.Op(fmtOp("reader", uint64(no), hs), fmt.Sprint(f), true)
			run.Count("receipts-read-back")
		}
		// the single-receipt query (by transaction hash): index bound and memory info
		k := rng.Intn(len(b.receipts))
		var one *types.Receipt
		out, panicked = vh.Guard(func() string {
			var err error
			one, err = chain.VerifC19GetReceipt(n.cs, b.receipts[k].TxHash)
			if err != nil {
				return "err: " + err.Error()
			}
			return ""
		})
		if panicked || out != "" {
			rep["result"], rep["index"] = out, k
			fail("the receipt of a transaction of a stored block cannot be read back", rep)
		} else if f := storedEqual(b.receipts[k], one, v2); f != "" {
			rep["index"], rep["field"] = k, f
			fail("receipt read back by transaction hash differs from what the executor produced in field "+f, rep)
		}
	}
	return first
}

// ---------------------------------------------------------------- a block whose tx root commits to forged carried tx hashes

func forgedTxHash(n *cnode, hs []uint64) {
	parent := n.best()
	no := parent.BlockNo() + 1
	from := rng.Intn(cAccts)
	to := (from + 1) % cAccts
	tx := n.mkTx(from, n.stateNonce(from)+1, n.addrs[to], big.NewInt(7), types.TxType_TRANSFER, nil)
	blk, pbs, err := n.produce(parent, []*types.Tx{tx})
	if err != nil || len(blk.GetBody().GetTxs()) != 1 || len(pbs.Receipts().Get()) != 1 {
		run.Count("forged-tx-hash-skipped")
		return
	}
	forged := wire(blk)
	t := forged.Body.Txs[0]
	kind := rng.Intn(4)
	switch kind {
	case 0:
		t.Hash[rng.Intn(32)] ^= byte(1 << uint(rng.Intn(8)))
	case 1:
		t.Hash = rng.Bytes(32)
	case 2:
		t.Hash = t.Hash[:31]
	default:
		t.Hash = nil // "not filled in"
	}
	// direct: the transaction validator
	verr := types.NewTransaction(t).Validate(types.NewBlockHeaderInfo(forged).ChainIdHash(), false)
	cls := "other"
	switch verr {
	case nil:
		cls = "ok"
	case types.ErrTxHasInvalidHash:
		cls = "badhash"
	}
	run.Op("txval "+hx(t.Hash)+" "+hx(t.CalculateTxHash()), cls, true)
	gerr := types.NewTransaction(tx).Validate(types.NewBlockHeaderInfo(forged).ChainIdHash(), false)
	gcls := "other"
	switch gerr {
	case nil:
		gcls = "ok"
	case types.ErrTxHasInvalidHash:
		gcls = "badhash"
	}
	run.Op("txval "+hx(tx.Hash)+" "+hx(tx.CalculateTxHash()), gcls, true)
	if verr == nil {
		run.Fail("Tx.Validate accepts a transaction whose carried Hash is not the digest of its body",
			map[string]interface{}{"carried": hx(t.Hash), "digest": hx(t.CalculateTxHash())})
	}
	// node level: the header commits to the carried hashes and is signed by the genuine producer
	forged.Header.TxsRootHash = types.CalculateTxsRootHash(forged.Body.Txs)
	// ... and to the receipt the execution of that transaction yields (the receipt names the carried hash)
	frs := cloneReceiptList(pbs.Receipts().Get())
	frs[0].TxHash = t.Hash
	format := 1
	if hs[0] <= uint64(no) {
		format = 2
	}
	forged.Header.ReceiptsRootHash = rootIn(frs, pbs.Receipts(), format, no)
	forged.Header.Sign = nil
	forged.Hash = nil
	if err := forged.Sign(p2pkey.NodePrivKey()); err != nil {
		panic(err)
	}
	forged.Hash = nil
	forged.BlockHash()
	err = n.receive(wire(forged))
	run.Eval(fmt.Sprintf("forged-tx-hash %d %d", no, kind), true)
	run.Count("forged-tx-hash-block")
	if err != nil {
		msg := err.Error()
		if len(msg) > 48 {
			msg = msg[:48]
		}
		run.Count("forged-tx-hash-refused: " + msg)
	}
	if err == nil {
		run.Fail("the chain service connected a block whose transaction root commits to a carried transaction hash that is not the digest of the transaction",
			map[string]interface{}{"hardfork": hs, "block_no": no, "carried": hx(t.Hash), "digest": hx(t.CalculateTxHash())})
	}
}

// ---------------------------------------------------------------- start-up compatibility check

// a stored hardfork record: the JSON text under dbkey.HardFork()
type record struct {
	kind string
	json []byte // nil: no record
	// parsed view for the model: bad = unparsable; keys V<k> -> height; other = number of keys that are not V<number>
	bad   bool
	kv    map[uint64]uint64
	other int
}

func recordOf(kind string, m map[string]uint64) record {
	j, err := json.Marshal(m)
	if err != nil {
		panic(err)
	}
	r := record{kind: kind, json: j, kv: map[uint64]uint64{}}
	for k, v := range m {
		if len(k) >= 2 && k[0] == 'V' {
			if x, err := strconv.ParseUint(k[1:], 10, 64); err == nil {
				r.kv[x] = v
				continue
			}
		}
		r.other++
	}
	return r
}

func (r record) tokens() string {
	switch {
	case r.json == nil:
		return "absent"
	case r.bad:
		return "bad"
	}
	var ks []uint64
	for k := range r.kv {
		ks = append(ks, k)
	}
	sort.Slice(ks, func(i, j int) bool { return ks[i] < ks[j] })
	var sb strings.Builder
	fmt.Fprintf(&sb, "%d %d", r.other, len(ks))
	for _, k := range ks {
		fmt.Fprintf(&sb, " %d %d", k, r.kv[k])
	}
	return sb.String()
}

// randRecord: what the previous life of the node (heights hs1) may have left as the stored record
func randRecord(hs1 []uint64, best uint64) record {
	fields := hfFields()
	m := map[string]uint64{}
	for i, f := range fields {
		m[f] = hs1[i]
	}
	switch rng.Intn(10) {
	case 0, 1: // written by this release
		return recordOf("same-release", m)
	case 2, 3, 4, 5: // written by an older release that did not know the last versions: only forks that were not active on this chain
		// up to the best block can be absent from the record (the release that produced blocks of a version knew it)
		dropped := 0
		for i := len(fields) - 1; i >= 1 && hs1[i] > best; i-- {
			delete(m, fields[i])
			dropped++
			if rng.Chance(1, 3) {
				break
			}
		}
		if dropped == 0 {
			return recordOf("same-release", m)
		}
		return recordOf("older-release", m)
	case 6: // written by a newer release
		m[fmt.Sprintf("V%d", len(fields)+2+rng.Intn(2))] = []uint64{0, best, best + 1, never}[rng.Intn(4)]
		return recordOf("newer-release", m)
	case 7: // a key that is not V<number>
		m["Vx"] = 1
		return recordOf("odd-key", m)
	case 8: // damaged / another format: not a JSON object of unsigned numbers
		j, _ := json.Marshal(m)
		var bad []byte
		switch rng.Intn(5) {
		case 0:
			bad = j[:1+rng.Intn(len(j)-1)]
		case 1:
			bad = bytes.Replace(j, []byte(":"), []byte(":-"), 1)
		case 2:
			bad = []byte(`{"V2":"` + fmt.Sprint(hs1[0]) + `"}`)
		case 3:
			bad = []byte("null garbage")
		default:
			bad = bytes.Replace(j, []byte(":"), []byte(":1.5e"), 1)
		}
		return record{kind: "unparsable", json: bad, bad: true}
	default:
		return record{kind: "absent"}
	}
}

// nextCfg: the configuration of the next start
func nextCfg(hs1 []uint64, best uint64) ([]uint64, string) {
	hs := append([]uint64(nil), hs1...)
	n := len(hs)
	switch rng.Intn(8) {
	case 0, 1:
		return hs, "unchanged"
	case 2, 3: // forks that were not scheduled get a height: at or below the best block, or above it
		what := "new-fork-above-best"
		below := rng.Bool()
		prev := uint64(0)
		for i := range hs {
			if hs[i] == never {
				if below {
					hs[i] = prev + uint64(rng.Intn(int(best-min64(prev, best))+1))
					if hs[i] > best {
						hs[i] = best
					}
					what = "new-fork-at-or-below-best"
				} else {
					hs[i] = max64(prev, best) + 1 + uint64(rng.Intn(3))
				}
			}
			prev = hs[i]
		}
		if what == "new-fork-above-best" && !contains(hs1, never) {
			what = "unchanged"
		}
		return hs, what
	case 4: // one height moved by one
		i := rng.Intn(n)
		if rng.Bool() {
			hs[i]++
		} else {
			hs[i]--
		}
		return hs, "one-height-moved"
	case 5: // one height rewritten
		hs[rng.Intn(n)] = uint64(rng.Intn(int(best) + 3))
		return hs, "one-height-rewritten"
	case 6: // a fork cancelled
		hs[n-1] = never
		return hs, "last-fork-cancelled"
	default:
		for i := range hs {
			if rng.Bool() {
				hs[i] = uint64(rng.Intn(int(best) + 3))
			}
		}
		return hs, "several-rewritten"
	}
}

func contains(l []uint64, x uint64) bool {
	for _, y := range l {
		if y == x {
			return true
		}
	}
	return false
}
func min64(a, b uint64) uint64 {
	if a < b {
		return a
	}
	return b
}
func max64(a, b uint64) uint64 {
	if a > b {
		return a
	}
	return b
}

func compatClass(err error) string {
	if err == nil {
		return "ok"
	}
	if ver, ok := config.VerifC19ForkErrVersion(err); ok {
		for _, f := range hfFields() {
			if f == ver {
				return "fork:" + ver
			}
		}
		return "older"
	}
	if _, ok := err.(*strconv.NumError); ok {
		return "older"
	}
	return "invalid"
}

func putRecord(n *cnode, r record) {
	st := chain.VerifC19Store(n.cs)
	if r.json == nil {
		st.Delete(dbkey.HardFork())
	} else {
		st.Set(dbkey.HardFork(), r.json)
	}
}

// stable: the property's predicate. Every existing block keeps the version its header carries.
func versionChanged(chainOf []built, c2 *config.HardforkConfig) (uint64, int32, int32, bool) {
	for no, b := range chainOf {
		if no == 0 {
			continue
		}
		if v := c2.Version(types.BlockNo(no)); v != b.version {
			return uint64(no), b.version, v, true
		}
	}
	return 0, 0, 0, false
}

// judge: the node started with heights hs2 on a store whose record was rec and whose blocks were produced under hs1
func judge(how string, hs1, hs2 []uint64, rec record, best uint64, chainOf []built, cfgKind string) {
	c2 := mkCfg(hs2)
	no, was, now, changed := versionChanged(chainOf, c2)
	if !changed {
		return
	}
	rep := map[string]interface{}{"how": how, "heights_the_blocks_were_produced_under": hs1, "stored_record_kind": rec.kind, "stored_record": string(rec.json),
		"heights_of_the_new_start": hs2, "change": cfgKind, "best_block": best, "block_no": no, "version_in_block_header": was, "version_after_start": now}
	// the known finding (known_findings.json): ChainDB.Hardfork fills the keys the stored record lacks with the node's own heights
	// (FixDbConfig) before CheckCompatibility runs, and takes an unreadable record for "no record": a fork height newly introduced
	// at or below the best block is accepted. Any other instability is a plain failure.
	missing := false
	for i := range hs2 {
		if _, ok := rec.kv[uint64(i+2)]; !ok && rec.json != nil && !rec.bad && hs2[i] <= best && hs2[i] != hs1[i] {
			missing = true
		}
	}
	const known = "C19-hardfork-new-fork-height-at-or-below-best-accepted"
	switch {
	case rec.bad:
		run.Count("known:unparsable-record-skips-compatibility-check")
		run.FailKnown("the node started although the hardfork version of an existing block changed: the stored hardfork record is unreadable, "+
			"ChainDB.Hardfork returns nil for it and checkHardfork skips CheckCompatibility", known, rep)
	case rec.json == nil:
		// no record at all: a store initialised before the first start; nothing to compare with (the record is written by the first start)
		run.Count("version-changed-without-stored-record")
	case missing:
		run.Count("known:missing-key-filled-from-node-config-before-check")
		run.FailKnown("the node started although the hardfork version of an existing block changed: the stored hardfork record lacks the key of a version "+
			"this release configures at or below the best block; FixDbConfig fills it with the node's own height before CheckCompatibility", known, rep)
	default:
		run.Fail("the node started although the hardfork version of an existing block changed (version in the stored block header differs from Version(block no) after the start)", rep)
	}
}

// startupChecks: the real checkHardfork on the live node, many (record, configuration) pairs
func startupChecks(n *cnode, hs1 []uint64, chainOf []built) {
	best := uint64(chain.VerifC19BestNo(n.cs))
	orig := chain.VerifC19Store(n.cs).Get(dbkey.HardFork())
	for i := 0; i < run.Pick(40, 120); i++ {
		rec := randRecord(hs1, best)
		hs2, cfgKind := nextCfg(hs1, best)
		putRecord(n, rec)
		c2 := mkCfg(hs2)
		err := chain.VerifC19CheckHardfork(n.cs, c2)
		cls := compatClass(err)
		after := chain.VerifC19Store(n.cs).Get(dbkey.HardFork())
		wrote := "kept"
		if want, _ := json.Marshal(c2); bytes.Equal(after, want) {
			wrote = "written"
		} else if !bytes.Equal(after, rec.json) {
			wrote = "other"
		}
		run.Op(fmt.Sprintf("chkhf %d %s %s", best, natsStr(hs2), rec.tokens()), cls+" "+wrote, cls == "ok")
		run.Count("startup-" + strings.SplitN(cls, ":", 2)[0] + "-record=" + rec.kind)
		run.Count("startup-config=" + cfgKind)
		if err == nil {
			judge("checkHardfork on the live node", hs1, hs2, rec, best, chainOf, cfgKind)
		} else if cfgKind == "unchanged" && rec.kind == "same-release" {
			run.Fail("a start with the unchanged configuration on the record the node itself wrote is refused: "+err.Error(),
				map[string]interface{}{"heights": hs1, "best_block": best, "class": cls})
		}
	}
	chain.VerifC19Store(n.cs).Set(dbkey.HardFork(), orig)
}

// restarts: the process stops and NewChainService runs again on the same data directory
func restarts(n *cnode, hs1 []uint64, chainOf []built) {
	best := uint64(chain.VerifC19BestNo(n.cs))
	if want, _ := json.Marshal(mkCfg(hs1)); !bytes.Equal(chain.VerifC19Store(n.cs).Get(dbkey.HardFork()), want) {
		run.Fail("the first start did not record the node's hardfork heights", map[string]interface{}{"heights": hs1,
			"record": string(chain.VerifC19Store(n.cs).Get(dbkey.HardFork()))})
	}
	for i := 0; i < run.Pick(2, 4); i++ {
		rec := randRecord(hs1, best)
		hs2, cfgKind := nextCfg(hs1, best)
		putRecord(n, rec)
		n.close()
		err := n.open(mkCfg(hs2))
		run.Eval(fmt.Sprintf("restart %v %v %s %d", hs1, hs2, rec.tokens(), best), err == nil)
		run.Count(fmt.Sprintf("restart-started=%v", err == nil))
		if err != nil {
			if cfgKind == "unchanged" && rec.kind == "same-release" {
				run.Fail("a restart with the unchanged configuration is refused: "+err.Error(), map[string]interface{}{"heights": hs1, "best_block": best})
			}
			// refused: the operator goes back to the old configuration (on a record the node itself wrote; a record the harness
			// altered stays in the store of a node that refused to start, so the rounds of this node end there)
			if rec.kind != "same-release" {
				return
			}
			if err := n.open(mkCfg(hs1)); err != nil {
				run.Fail("after a refused start the node does not start with its previous configuration either: "+err.Error(),
					map[string]interface{}{"heights": hs1, "refused_heights": hs2, "stored_record": string(rec.json)})
				return
			}
			continue
		}
		if uint64(chain.VerifC19BestNo(n.cs)) != best {
			run.Fail("best block number after a restart differs", map[string]interface{}{"before": best, "after": chain.VerifC19BestNo(n.cs)})
		}
		judge("stop, NewChainService on the same data directory", hs1, hs2, rec, best, chainOf, cfgKind)
		if _, _, _, changed := versionChanged(chainOf, mkCfg(hs2)); !changed {
			// same versions for all existing blocks: everything stored must still read back as written
			if d := readBack(n, hs1, chainOf, "after-restart"); d != "" {
				rep := map[string]interface{}{"heights_before": hs1, "heights_after": hs2, "best_block": best, "stored_record_kind": rec.kind, "stored_record": string(rec.json)}
				switch {
				case rec.bad:
					// the unreadable record skipped CheckCompatibility and with it validate(): a configuration whose heights are not
					// in order runs, IsV2Fork (receipt format) and Version then disagree for existing blocks
					run.FailKnown("after a restart on an unreadable hardfork record (compatibility check and validation skipped): "+d,
						"C19-hardfork-new-fork-height-at-or-below-best-accepted", rep)
				case rec.json == nil:
					run.Count("readback-differs-without-stored-record") // no record although blocks exist: not a state a node produces
				default:
					run.Fail("after a restart that keeps the version of every existing block: "+d, rep)
				}
			}
			// and the chain goes on
			if _, ok := buildBlock(n, hs2, best+1); ok {
				run.Count("block-after-restart")
			}
			return
		}
		// versions changed (defect candidates): go back to the first configuration on the original record for the next round
		chain.VerifC19Store(n.cs).Delete(dbkey.HardFork())
		n.close()
		if err := n.open(mkCfg(hs1)); err != nil {
			return
		}
	}
}
