// Node part of harness c19chain: a REAL chain.ChainService (memorydb stores) with the REAL DPoS consensus object
// (dpos.New: block factory included) on a private DPoS genesis. Blocks are produced by the real
// BlockFactory.generateBlock (receipt format height chosen at consensus/impl/dpos/blockfactory.go, GenerateBlock,
// SetConfirms, Sign) and connected by the real ChainService.addBlock, either as the node's own block (with its block
// state) or as a block from the network (executed again: format height chosen at chain/chainhandle.go newBlockExecutor).
// The node can be stopped and started again on the same data directory with another hardfork configuration
// (NewChainService -> checkHardfork).
package main

import (
	"fmt"
	"math/big"
	"os"
	"path/filepath"
	"time"

	"github.com/aergoio/aergo-actor/actor"
	"github.com/aergoio/aergo-lib/log"
	"github.com/aergoio/aergo/v2/account/key"
	crypto "github.com/aergoio/aergo/v2/account/key/crypto"
	"github.com/aergoio/aergo/v2/chain"
	"github.com/aergoio/aergo/v2/config"
	"github.com/aergoio/aergo/v2/consensus"
	"github.com/aergoio/aergo/v2/consensus/impl/dpos"
	"github.com/aergoio/aergo/v2/consensus/impl/dpos/bp"
	"github.com/aergoio/aergo/v2/consensus/impl/dpos/slot"
	"github.com/aergoio/aergo/v2/contract/system"
	"github.com/aergoio/aergo/v2/internal/enc/proto"
	"github.com/aergoio/aergo/v2/p2p/p2pkey"
	"github.com/aergoio/aergo/v2/p2p/p2putil"
	"github.com/aergoio/aergo/v2/pkg/component"
	"github.com/aergoio/aergo/v2/state"
	"github.com/aergoio/aergo/v2/types"
	"github.com/aergoio/aergo/v2/types/message"
	"github.com/aergoio/aergo/v2/zz_verif/vh"
	"github.com/btcsuite/btcd/btcec/v2"
	lcrypto "github.com/libp2p/go-libp2p/core/crypto"
)

// ---------------------------------------------------------------- stub components (mempool hands out the queued txs)

type stubComp struct {
	name string
	hub  *component.ComponentHub
	txs  func() []types.Transaction
}

func (r *stubComp) GetName() string                          { return r.name }
func (r *stubComp) Start()                                   {}
func (r *stubComp) Stop()                                    {}
func (r *stubComp) Status() component.Status                 { return component.StartedStatus }
func (r *stubComp) SetHub(hub *component.ComponentHub)       { r.hub = hub }
func (r *stubComp) Hub() *component.ComponentHub             { return r.hub }
func (r *stubComp) MsgQueueLen() int32                       { return 0 }
func (r *stubComp) Receive(actor.Context)                    {}
func (r *stubComp) Tell(m interface{})                       {}
func (r *stubComp) Request(m interface{}, sender *actor.PID) {}
func (r *stubComp) RequestFuture(m interface{}, timeout time.Duration, tip string) *actor.Future {
	f := actor.NewFuturePrefix("verif", timeout)
	if _, ok := m.(*message.MemPoolGet); ok && r.txs != nil {
		f.PID().Tell(&message.MemPoolGetRsp{Txs: r.txs()})
		return f
	}
	f.PID().Tell(component.ErrHubUnregistered)
	return f
}

// ---------------------------------------------------------------- node

type cnode struct {
	dir       string
	cs        *chain.ChainService
	cons      consensus.Consensus
	keys      []*btcec.PrivateKey
	addrs     [][]byte
	contracts [][]byte
	queue     []types.Transaction // what the stub mempool hands to the block factory
	ts        int64               // time of the last produced block (ns)
	lpb       types.BlockNo
	bpSize    uint16
	bpIdx     uint16
	gbps      []string
	cfg       *config.Config
	open_     bool
	shifted   bool // a sign verification was started and never waited for
}

var nodeSeq int

const cAccts = 4

func coins(n int64) *big.Int {
	return new(big.Int).Mul(big.NewInt(n), new(big.Int).Exp(big.NewInt(10), big.NewInt(18), nil))
}

// newCNode: `aergosvr init --genesis` on a fresh data directory, then the first start with the hardfork heights hf.
func newCNode(root string, hf *config.HardforkConfig) *cnode {
	nodeSeq++
	n := &cnode{dir: filepath.Join(root, "cnode", fmt.Sprint(nodeSeq))}
	os.RemoveAll(n.dir)
	os.MkdirAll(n.dir, 0o755)
	seed := vh.NewRng(1977) // fixed keys: the same accounts and producers in every run
	nodeKey, _ := btcec.PrivKeyFromBytes(seed.Bytes(32))
	if p2pkey.NodeSID() == "" {
		kf := filepath.Join(root, "cnode", "node.key")
		raw, err := lcrypto.MarshalPrivateKey(p2putil.ConvertPKToLibP2P(nodeKey))
		if err != nil {
			panic(err)
		}
		if err := os.WriteFile(kf, raw, 0o600); err != nil {
			panic(err)
		}
		p2pkey.InitNodeInfo(&config.BaseConfig{}, &config.P2PConfig{NPKey: kf}, "v2.0.0", log.NewLogger("c19"))
	}
	bal := map[string]string{}
	for i := 0; i < cAccts; i++ {
		k, _ := btcec.PrivKeyFromBytes(seed.Bytes(32))
		n.keys = append(n.keys, k)
		a := crypto.GenerateAddress(k.PubKey().ToECDSA())
		n.addrs = append(n.addrs, a)
		bal[types.EncodeAddress(a)] = coins(1000000).String()
	}
	// two more genesis producers that never produce: the last irreversible block stays at genesis
	bps := []string{p2pkey.NodeSID()}
	for i := 0; i < 2; i++ {
		k, _ := btcec.PrivKeyFromBytes(seed.Bytes(32))
		pid, _ := types.IDFromPublicKey(p2putil.ConvertPKToLibP2P(k).GetPublic())
		bps = append(bps, types.IDB58Encode(pid))
	}
	n.gbps = bps
	g := &types.Genesis{
		ID:        types.ChainID{Version: 0, Magic: "c19.verif", PublicNet: false, MainNet: false, Consensus: "dpos"},
		Timestamp: 1_600_000_000_000_000_000,
		Balance:   bal,
		BPs:       bps,
	}
	core, err := chain.NewCore("memorydb", n.dir, false, 0, &config.DBConfig{})
	if err != nil {
		panic(err)
	}
	if err := core.InitGenesisBlock(g, false); err != nil {
		panic(err)
	}
	core.Close()
	cfg := config.NewServerContext("", "").GetDefaultConfig().(*config.Config)
	cfg.DbType = "memorydb"
	cfg.DataDir = n.dir
	cfg.Blockchain.NumWorkers = 1
	cfg.Blockchain.VerifierCount = 2
	n.cfg = cfg
	if err := n.open(hf); err != nil {
		panic(fmt.Sprintf("first start of a node refused: %v", err))
	}
	return n
}

// open starts the chain service and the consensus object on the node's data directory with the hardfork heights hf
// (first start and restart). A start-up the node refuses (NewChainService panics through logger.Panic) is returned
// as an error; the stores were not written in that case.
func (n *cnode) open(hf *config.HardforkConfig) (err error) {
	c := *hf
	n.cfg.Hardfork = &c
	out, panicked := vh.Guard(func() string {
		n.cs = chain.NewChainService(n.cfg)
		return ""
	})
	if panicked {
		n.cs = nil
		return fmt.Errorf("%s", out)
	}
	hub := component.NewComponentHub()
	for _, nm := range []string{message.MemPoolSvc, message.RPCSvc, message.P2PSvc, message.SyncerSvc} {
		c := &stubComp{name: nm}
		if nm == message.MemPoolSvc {
			c.txs = func() []types.Transaction { return n.queue }
		}
		hub.Register(c)
	}
	n.cs.SetHub(hub)
	n.cons, err = dpos.New(n.cfg, hub, n.cs.CDB(), n.cs.SDB())
	if err != nil {
		panic(err)
	}
	n.cs.SetChainConsensus(n.cons)
	chain.VerifC19SetSkipMempool(n.cs, true)
	gb, _ := n.cs.GetBestBlock()
	if gb.GetHeader().GetTimestamp() > n.ts {
		n.ts = gb.GetHeader().GetTimestamp()
	}
	n.bpSize = uint16(len(n.gbps))
	for i, id := range dpos.VerifC19BPs(n.cons) {
		if id == p2pkey.NodeSID() {
			n.bpIdx = uint16(i)
		}
	}
	n.open_ = true
	n.shifted = false
	return nil
}

// close waits until the sign-verifier goroutines are idle before the node is stopped: a verification that was started
// for a block whose execution failed ends by putting its result into the result channel, and stopping closes it.
func (n *cnode) close() {
	if n.open_ {
		need, pending := chain.VerifC19VerifyState(n.cs)
		if need || n.shifted {
			limit := 40
			if need {
				limit = 4000
			}
			for i := 0; pending != 1 && i < limit; i++ {
				time.Sleep(50 * time.Microsecond)
				_, pending = chain.VerifC19VerifyState(n.cs)
			}
		}
		n.cs.BeforeStop() // closes the stores too (memorydb writes its file)
		n.open_ = false
	}
}

func (n *cnode) best() *types.Block {
	b, err := n.cs.GetBestBlock()
	if err != nil {
		panic(err)
	}
	return b
}

// nextSlot: the next time after n.ts whose slot belongs to this node's producer index.
func (n *cnode) nextSlot() int64 {
	t := n.ts
	for i := 0; i < 1000; i++ {
		t += int64(consensus.BlockInterval)
		if slot.NewFromUnixNano(t).IsFor(bp.Index(n.bpIdx), n.bpSize) {
			n.ts = t
			return t
		}
	}
	panic("no slot for this producer")
}

// stateNonce: the nonce of account i in the state of the best block
func (n *cnode) stateNonce(i int) uint64 {
	st, err := n.cs.SDB().GetStateDB().GetAccountState(types.ToAccountID(n.addrs[i]))
	if err != nil || st == nil {
		return 0
	}
	return st.GetNonce()
}

// mkTx: a signed transaction of account i for the block after the current best block.
func (n *cnode) mkTx(i int, nonce uint64, rcpt []byte, amount *big.Int, typ types.TxType, payload []byte) *types.Tx {
	bi := types.NewBlockHeaderInfoFromPrevBlock(n.best(), n.ts, n.cfg.Hardfork)
	tx := &types.Tx{Body: &types.TxBody{Account: n.addrs[i], Recipient: rcpt, Amount: amount.Bytes(), Nonce: nonce,
		GasPrice: system.GetGasPrice().Bytes(), Type: typ, Payload: payload, ChainIdHash: bi.ChainIdHash()}}
	if err := key.SignTx(tx, n.keys[i]); err != nil {
		panic(err)
	}
	if b, err := proto.Encode(tx); err == nil {
		t2 := &types.Tx{}
		if proto.Decode(b, t2) == nil {
			tx = t2
		}
	}
	return tx
}

// produce runs the real block factory on parent with the given transactions.
func (n *cnode) produce(parent *types.Block, txs []*types.Tx) (*types.Block, *state.BlockState, error) {
	n.queue = nil
	for _, t := range txs {
		n.queue = append(n.queue, types.NewTransaction(t))
	}
	defer func() { n.queue = nil }()
	return dpos.VerifC19Generate(n.cons, parent, n.nextSlot(), n.lpb)
}

func wire(b *types.Block) *types.Block {
	raw, err := proto.Encode(b)
	if err != nil {
		panic(err)
	}
	out := &types.Block{}
	if err := proto.Decode(raw, out); err != nil {
		panic(err)
	}
	return out
}

func (n *cnode) connectOwn(b *types.Block, bs *state.BlockState) error {
	err := chain.VerifC19AddBlock(n.cs, b, bs, "")
	if err == nil {
		n.lpb = b.BlockNo()
	}
	return err
}

func (n *cnode) receive(b *types.Block) error {
	err := chain.VerifC19AddBlock(n.cs, b, nil, "peer")
	if need, _ := chain.VerifC19VerifyState(n.cs); need {
		n.shifted = true
	}
	if err == nil {
		n.lpb = b.BlockNo()
	}
	return err
}
