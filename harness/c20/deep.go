package main

// Round 3 oracles of harness c20 on the extraction (Go mirrors of the decidable checks of Model.HostApi, so that a
// broken clause is reported as a VIOLATION with the place in the source, not only as a failed `decide`):
//
//   - a test of isQuery / nestedView on something that is not the function's own context; a foreign context handed
//     to an in-package function
//   - executor.isView: written from anything but the ABI's View bit / `true`; a path through newExecutor to its
//     final return that does not assign it; something emitted in executor.call before the view bracket
//   - a branch on a read-only flag that is not a refusal (returns without an error value) outside the reviewed
//     exemption list
//   - a C guard whose comparison does not hold for every positive view depth or whose statement does not raise
//   - an implementation of an interface method that does more than the class the tables give the method

import (
	"fmt"
	"sort"
	"strings"

	"github.com/aergoio/aergo/v2/zz_verif/vh"
)

func hFlagFree(c *HCond) bool {
	q, v := hxHasFlag(c)
	return !q && !v
}

// hFF: value of the condition with both flags clear, if the atoms cannot change it (0 unknown, 1 true, 2 false).
func hFF(c *HCond) int {
	switch c.Op {
	case "query", "view":
		return 2
	case "atom", "any":
		return 0
	case "not":
		switch hFF(c.A) {
		case 1:
			return 2
		case 2:
			return 1
		}
		return 0
	case "and":
		a, b := hFF(c.A), hFF(c.B)
		if a == 2 || b == 2 {
			return 2
		}
		if a == 1 && b == 1 {
			return 1
		}
		return 0
	case "or":
		a, b := hFF(c.A), hFF(c.B)
		if a == 1 || b == 1 {
			return 1
		}
		if a == 2 && b == 2 {
			return 2
		}
		return 0
	}
	return 0
}

// hNotTransp returns the position of a flag-dependent branch of s that is not a refusal ("" if there is none).
func hNotTransp(s *HStmt) string {
	switch s.Op {
	case "seq":
		for _, e := range s.L {
			if p := hNotTransp(e); p != "" {
				return p
			}
		}
	case "ite":
		if hFlagFree(s.C) {
			if p := hNotTransp(s.T); p != "" {
				return p
			}
			return hNotTransp(s.E)
		}
		switch hFF(s.C) {
		case 2:
			if !hMustRefuse(s.T) {
				return s.Pos
			}
			return hNotTransp(s.E)
		case 1:
			if !hMustRefuse(s.E) {
				return s.Pos
			}
			return hNotTransp(s.T)
		}
		return s.Pos
	case "loop", "scope":
		return hNotTransp(s.T)
	}
	return ""
}

func hStartsExempt(s *HStmt) bool {
	if s.Op == "sink" {
		return s.Sink.Kind == "exempt"
	}
	return s.Op == "seq" && len(s.L) > 0 && s.L[0].Op == "sink" && s.L[0].Sink.Kind == "exempt"
}

func hEmitsAlways(s *HStmt, k string) bool {
	switch s.Op {
	case "sink":
		return s.Sink.Kind == k
	case "seq":
		for _, e := range s.L {
			if hEmitsAlways(e, k) {
				return true
			}
			if !hStraight(e) {
				return false
			}
		}
		return false
	case "ite":
		return hEmitsAlways(s.T, k) && hEmitsAlways(s.E, k)
	case "scope":
		return hEmitsAlways(s.T, k)
	}
	return false
}

func hEmitsOnNormal(s *HStmt, k string) bool {
	switch s.Op {
	case "sink":
		return s.Sink.Kind == k
	case "seq":
		for _, e := range s.L {
			if hEmitsOnNormal(e, k) {
				return true
			}
		}
		return false
	case "ite":
		return hEmitsOnNormal(s.T, k) && hEmitsOnNormal(s.E, k)
	case "scope":
		return hEmitsAlways(s.T, k)
	case "ret", "brk", "cont":
		return true
	}
	return false
}

func hSilent(p *HProgram, s *HStmt, depth int) bool {
	switch s.Op {
	case "skip", "ret", "brk", "cont":
		return true
	case "seq":
		for _, e := range s.L {
			if !hSilent(p, e, depth) {
				return false
			}
		}
		return true
	case "ite":
		return hSilent(p, s.T, depth) && hSilent(p, s.E, depth)
	case "loop", "scope":
		return hSilent(p, s.T, depth)
	case "call":
		if depth == 0 {
			return false
		}
		f := p.Func(s.Fn)
		return f != nil && hSilent(p, f.Body, depth-1)
	}
	return false
}

func hIsBracket(s *HStmt, atom int) bool {
	if s.Op != "ite" || s.C.Op != "atom" || s.C.Atom != atom || s.T.Op != "seq" || len(s.T.L) != 2 {
		return false
	}
	a, b := s.T.L[0], s.T.L[1]
	return a.Op == "sink" && a.Sink.Kind == "viewInc" && b.Op == "loop" && b.T.Op == "scope" && b.T.T.Op == "sink" && b.T.T.Sink.Kind == "viewDec"
}

// hBracketFirst: position of the first statement of the body that can emit something before the view bracket
// ("" = the bracket comes first; "none" = there is no bracket).
func hBracketFirst(p *HProgram, body *HStmt, atom int) string {
	l := []*HStmt{body}
	if body.Op == "seq" {
		l = body.L
	}
	for _, e := range l {
		if hIsBracket(e, atom) {
			return ""
		}
		if !hSilent(p, e, 3) {
			pos := e.Pos
			if pos == "" {
				pos = "?"
			}
			return pos
		}
	}
	return "none"
}

var kindRank = map[string]int{"mut": 5, "mutQ": 4, "restore": 3, "txctl": 2, "cache": 1, "ro": 0}

func hMaxRank(p *HProgram, name string, depth int) (int, string) {
	if depth == 0 {
		return 5, "call depth"
	}
	f := p.Func(name)
	if f == nil {
		return 5, "missing " + name
	}
	best, what := 0, ""
	var walk func(s *HStmt)
	walk = func(s *HStmt) {
		switch s.Op {
		case "seq":
			for _, e := range s.L {
				walk(e)
			}
		case "ite":
			walk(s.T)
			walk(s.E)
		case "loop", "scope":
			walk(s.T)
		case "sink":
			if r := kindRank[s.Sink.Kind]; r > best {
				best, what = r, s.Sink.Name+" ("+s.Sink.Pos+")"
			}
		case "call":
			if r, w := hMaxRank(p, s.Fn, depth-1); r > best {
				best, what = r, w
			}
		}
	}
	walk(f.Body)
	return best, what
}

// deepOracles evaluates the round-3 clauses on the extraction; returns the fact lines for the trace.
func deepOracles(run *vh.Run, g *HGen) [][2]string {
	fx := g.Real.Facts
	p := g.Real
	for _, r := range fx.FlagForeign {
		run.Fail(fmt.Sprintf("%s tests a read-only flag of something that is not its own context: %s", r[0], r[1]),
			map[string]interface{}{"function": r[0], "expression": r[1],
				"how": "the guard reads isQuery / nestedView of another vmContext (another slot of contexts[], a fresh literal, a stored pointer): it does not protect the context the callback runs for"})
	}
	for _, r := range fx.CtxArgs {
		run.Fail(fmt.Sprintf("%s hands %s to %s, which is not its own context", r[0], r[2], r[1]),
			map[string]interface{}{"function": r[0], "callee": r[1], "argument": r[2]})
	}
	run.Eval("own-context", true)

	// ---- isView
	for _, w := range fx.IsViewWrites {
		run.Eval("isViewWrite "+w[0]+" "+w[1], true)
		if w[0] != "newExecutor" || (w[1] != "f.View" && w[1] != "true") {
			run.Fail(fmt.Sprintf("%s assigns executor.isView := %s: whether a call opens the view bracket no longer is the View bit of the function's ABI entry", w[0], w[1]),
				map[string]interface{}{"function": w[0], "value": w[1]})
		}
	}
	isViewSet := "missing"
	if f := p.Func("newExecutor"); f != nil {
		isViewSet = "no-final-return"
		if f.Body.Op == "seq" && f.Body.L[len(f.Body.L)-1].Op == "ret" {
			init := &HStmt{Op: "seq", L: f.Body.L[:len(f.Body.L)-1]}
			ok := hEmitsOnNormal(init, "viewSet")
			isViewSet = fmt.Sprint(ok)
			if !ok {
				run.Fail("newExecutor can reach its final `return ce` without assigning ce.isView: a function declared as a view then runs with nestedView == 0",
					map[string]interface{}{"function": "newExecutor", "file": f.File, "line": f.Line,
						"how": "call a function registered with abi.register_view by a transaction: executor.call does not open the view bracket, every `nestedView > 0` guard is inert"})
			}
		}
	}
	viewBracket := "missing"
	if f := p.Func("executor.call"); f != nil {
		viewBracket = "no-isView-test"
		for i, a := range f.Atoms {
			if a == "executor.isView" {
				pos := hBracketFirst(p, f.Body, i)
				viewBracket = fmt.Sprint(pos == "")
				if pos != "" {
					run.Fail("executor.call: something can happen before the view bracket `if ce.isView { ctx.nestedView++; defer ctx.nestedView-- }` (at "+pos+")",
						map[string]interface{}{"function": "executor.call", "first_effect_before_bracket": pos})
				}
			}
		}
		if viewBracket == "no-isView-test" {
			run.Fail("executor.call no longer tests ce.isView before it runs the function: the view bracket is gone or conditional on something else",
				map[string]interface{}{"function": "executor.call", "atoms": f.Atoms})
		}
	}
	if len(fx.CheckViewRet) != 1 || fx.CheckViewRet[0] != "nestedView" {
		run.Fail("luaCheckView does not return the own context's nestedView: "+strings.Join(fx.CheckViewRet, " | "),
			map[string]interface{}{"returns": fx.CheckViewRet})
	}

	// ---- refuses with an error
	refuseOK := true
	for _, f := range p.Funcs {
		if hStartsExempt(f.Body) {
			run.Count("refuse-exempt")
			continue
		}
		if pos := hNotTransp(f.Body); pos != "" {
			refuseOK = false
			run.Fail(fmt.Sprintf("%s: the branch at %s depends on a read-only flag but its read-only arm does not return an error (the operation is silently skipped or altered)", f.Name, pos),
				map[string]interface{}{"function": f.Name, "branch": pos,
					"how": "call the Lua function bound to this callback in a query / view function: it returns normally although it did not do what it does in a transaction"})
		} else if q, v := hasFlagStmt(f.Body); q || v {
			run.Count("refusing-guard")
			run.Eval("refuse "+f.Name, true)
		}
	}

	// ---- interface implementations
	for _, r := range fx.IfaceImpls {
		run.Eval("impl "+r[2], true)
		want, ok := kindRank[r[1]]
		got, what := hMaxRank(p, r[2], 6)
		if !ok || got > want {
			run.Fail(fmt.Sprintf("%s implements %s (class %s in the tables) but reaches %s", r[2], r[0], r[1], what),
				map[string]interface{}{"implementation": r[2], "interface_method": r[0], "class": r[1], "reaches": what})
		}
		if strings.HasPrefix(r[2], "readOnlySqlTx.") && got > kindRank["txctl"] {
			run.Fail(fmt.Sprintf("%s (the transaction object of query mode) reaches %s", r[2], what),
				map[string]interface{}{"implementation": r[2], "reaches": what})
		}
	}
	for _, o := range fx.SQLOpens {
		run.Eval("sqlOpen "+o[0]+" "+o[3], true)
	}

	// ---- C guards
	for _, f := range g.C.LuaFns {
		if !f.SQLStep || sqlStepExceptions[f.Table+"."+f.LuaName] || len(f.GuardsBeforeStep) == 0 {
			continue // (no guard at all is reported by the older rule in main.go)
		}
		run.Eval("cguard "+f.Table+"."+f.LuaName, true)
		if !f.ViewGuarded() {
			var gs []string
			for _, gd := range f.Guards {
				gs = append(gs, fmt.Sprintf("if (%s) raises=%v", gd.Text, gd.Raise))
			}
			run.Fail(fmt.Sprintf("Lua function %s.%s (%s in %s) has a view check before its SQL execution, but not one that stops every nestedView > 0 with a Lua error: %s",
				f.Table, f.LuaName, f.CFunc, f.File, strings.Join(gs, "; ")),
				map[string]interface{}{"file": f.File, "lua_function": f.Table + "." + f.LuaName, "c_function": f.CFunc, "guards": gs,
					"how": "run the statement from a function registered with abi.register_view called by a transaction (nestedView = 1)"})
		}
	}

	// ---- the C wrappers turn the returned error value into a Lua error
	okCond := map[string]bool{"r != NULL": true, "r.r1 != NULL": true, "r.r0 < 0": true, "(r = call) != NULL": true}
	var errChecks []string
	has := map[string]bool{}
	for _, r := range g.C.ErrChecks {
		run.Eval("cerr "+r[0]+" "+r[1], true)
		has[r[0]] = true
		errChecks = append(errChecks, r[0]+"="+r[1]+"="+strings.ReplaceAll(r[2], " ", "_")+"="+r[3])
		if r[3] != "raise" || !okCond[r[2]] {
			run.Fail(fmt.Sprintf("C function %s calls %s but does not turn its error value into a Lua error (test: %s, %s)", r[1], r[0], r[2], r[3]),
				map[string]interface{}{"callback": r[0], "c_function": r[1], "test": r[2], "action": r[3],
					"how": "the Go callback refuses with an error message in a read-only context; the wrapper must raise it (luaL_throwerror), otherwise the Lua call returns normally"})
		}
	}
	for _, n := range g.C.Refusing {
		if !has[n] {
			run.Fail("no C wrapper of the refusing callback "+n+" was found", map[string]interface{}{"callback": n})
		}
	}

	// ---- the keyword gate of db.query (sqlcheck.c): mirror of SqlGate.firstOK / pragmasOK
	firstOK, pragmasOK := true, true
	for _, r := range g.C.SQLReadonlyFirst {
		run.Eval("sqlgate "+r[0]+" "+r[1], true)
		if r[1] == "pragma" {
			if r[0] != "PRAGMA" {
				firstOK = false
			}
			continue
		}
		for _, w := range sqlWriteCapable {
			if sqlAdmits(r, w) {
				firstOK = false
				ex := map[string]string{"WITH": "with t(k, v) as (select 'x', 1) insert into ledger select k, v from t", "PRAGMA": "pragma user_version = 1"}[w]
				if ex == "" {
					ex = strings.ToLower(w) + " …"
				}
				run.Fail(fmt.Sprintf("sqlcheck_is_readonly_sql answers read-only for statements whose leading keyword is %s (rule %s %s), a keyword that can begin a writing statement, e.g. %q; db.query has no other gate and may be called from view functions",
					w, r[0], r[1], ex),
					map[string]interface{}{"rule": r, "write_capable_keyword": w, "example": ex,
						"how": "a view function called by a transaction runs `db.query(<statement>)` and `rs:next()` on the writable SQL connection"})
			}
		}
	}
	for _, r := range g.C.SQLReadonlyPragmas {
		for _, w := range sqlSettablePragmas {
			if sqlAdmits(r, w) {
				pragmasOK = false
				run.Fail(fmt.Sprintf("sqlcheck_is_permitted_pragma admits PRAGMA %s (rule %s %s), a pragma that sets something", w, r[0], r[1]),
					map[string]interface{}{"rule": r, "pragma": w})
			}
		}
	}
	hasGate := false
	for _, r := range g.C.PrepareGates {
		if r[0] == "db_lib.query" && strings.Contains(r[1], "sqlcheck_is_readonly_sql") {
			hasGate = true
		}
	}
	if !hasGate {
		run.Fail("db.query (db_query in db_module.c) no longer calls sqlcheck_is_readonly_sql before sqlite3_prepare", map[string]interface{}{"gates": g.C.PrepareGates})
	}

	// ---- context slots: the translated scan step on concrete numbers
	slotTable, slotFacts := "", ""
	if sl := fx.Slot; sl != nil {
		maxVm, chain := sl.constVals["MaxVmService"], sl.constVals["ChainService"]
		var cells []string
		for m := int64(3); m <= 9; m++ {
			for i := int64(1); i < m; i++ {
				v, ok := sl.Eval(m, i)
				if !ok {
					v = -1
				}
				cells = append(cells, fmt.Sprintf("%d:%d>%d", m, i, v))
			}
		}
		slotTable = strings.Join(cells, " ")
		if sl.StepLean == "" {
			run.Fail("the slot scan of allocContextSlot is outside the subset the translator handles ("+sl.StepWhy+"): theorems slot_step_in_range / slot_scan_never_reserved no longer speak about the code",
				map[string]interface{}{"statements": sl.StepSrc, "why": sl.StepWhy})
		} else {
			reported := false
			for m := maxVm + 1; m <= 40 && !reported; m++ {
				for i := chain; i < m && !reported; i++ {
					run.Eval(fmt.Sprintf("slotstep %d %d", m, i), true)
					v, ok := sl.Eval(m, i)
					if !ok || v < maxVm || v >= m {
						reported = true
						run.Fail(fmt.Sprintf("allocContextSlot: with maxContext=%d the scan goes from index %d to slot %d, which is not a query slot [%d, %d) — slots below MaxVmService hold the context of the running transaction (`%s`)",
							m, i, v, maxVm, m, sl.StepSrc),
							map[string]interface{}{"maxContext": m, "index": i, "next": v, "statements": sl.StepSrc,
								"how": "a query that is handed slot ChainService has its host calls checked against the context Call/Create store there (isQuery false), and nils the slot when it ends"})
					}
				}
			}
		}
		init := sl.InitLean
		if init == "" {
			init = "(-1)"
		}
		if v, ok := sl.constVals[init]; ok {
			init = fmt.Sprint(v)
		}
		var sc [][2]string
		for _, n := range []string{"allocContextSlot", "freeContextSlot"} {
			for _, c := range fx.CallersOf[n] {
				sc = append(sc, [2]string{n, c})
			}
		}
		slotFacts = fmt.Sprintf("init=%s translated=%v ", init, sl.StepLean != "") + triples(sl.SlotWrites) + " | " + pairs(sl.SvcWrites) + " | " + pairs(sl.LastWrites) + " | " + pairs(sc)
		okW := map[[2]string]bool{{"Call", "ctx.service"}: true, {"Create", "ctx.service"}: true, {"InitContext", "*"}: true, {"allocContextSlot", "index"}: true, {"freeContextSlot", "ctx.service"}: true}
		for _, w := range sl.SlotWrites {
			if !okW[[2]string{w[0], w[1]}] {
				run.Fail(fmt.Sprintf("%s writes contexts[%s] = %s: the context slots are no longer written only by Call/Create (service slots) and allocContextSlot/freeContextSlot (query slots)", w[0], w[1], w[2]),
					map[string]interface{}{"function": w[0], "index": w[1], "value": w[2]})
			}
		}
		for _, w := range sl.LastWrites {
			if w[0] != "allocContextSlot" || w[1] != "index" {
				run.Fail(fmt.Sprintf("%s assigns lastQueryIndex = %s: the scan position is no longer a value of the scan itself", w[0], w[1]), map[string]interface{}{"function": w[0], "value": w[1]})
			}
		}
	}

	ro := append([]string(nil), fx.RoCallees...)
	sort.Strings(ro)
	var opens []string
	for _, o := range fx.SQLOpens {
		opens = append(opens, o[0]+"="+o[1]+"="+o[3])
	}
	var ex []string
	for _, f := range p.Funcs {
		if _, ok := hostTables.RefuseExempt[f.Name]; ok {
			ex = append(ex, f.Name)
		}
	}
	var cvr []string
	for _, c := range fx.CheckViewRet {
		cvr = append(cvr, strings.ReplaceAll(c, " ", "_"))
	}
	return [][2]string{
		{"flagForeign", pairs(fx.FlagForeign)}, {"ctxArgs", triples(fx.CtxArgs)}, {"isViewWrites", pairs(fx.IsViewWrites)},
		{"sqlOpens", strings.Join(opens, " ")}, {"sqlExecs", triples(fx.SQLExecs)}, {"ifaceImpls", triples(fx.IfaceImpls)},
		{"flagBranches", triples(fx.FlagBranches)}, {"roCallees", strings.Join(ro, " ")}, {"checkViewRet", strings.Join(cvr, " ")},
		{"sqlReadonly", pairs(g.C.SQLReadonlyFirst) + " | " + pairs(g.C.SQLReadonlyPragmas)}, {"sqlGateOK", fmt.Sprintf("%v %v", firstOK, pragmasOK)},
		{"cPrepareGates", pairs(g.C.PrepareGates)},
		{"slotStepTable", slotTable}, {"slotFacts", slotFacts},
		{"refuseExempt", strings.Join(ex, " ")}, {"cErrChecks", strings.Join(errChecks, " ")}, {"refuseOK", fmt.Sprint(refuseOK)}, {"viewBracket", viewBracket}, {"isViewSet", isViewSet},
	}
}

func hasFlagStmt(s *HStmt) (q, v bool) {
	switch s.Op {
	case "seq":
		for _, e := range s.L {
			a, b := hasFlagStmt(e)
			q, v = q || a, v || b
		}
	case "ite":
		q, v = hxHasFlag(s.C)
		for _, e := range []*HStmt{s.T, s.E} {
			a, b := hasFlagStmt(e)
			q, v = q || a, v || b
		}
	case "loop", "scope":
		return hasFlagStmt(s.T)
	}
	return
}

func triples(rows [][3]string) string {
	var out []string
	for _, r := range rows {
		out = append(out, strings.ReplaceAll(r[0], " ", "_")+"="+strings.ReplaceAll(r[1], " ", "_")+"="+strings.ReplaceAll(r[2], " ", "_"))
	}
	return strings.Join(out, " ")
}

// mirrors of SqlGate.writeCapable / settablePragmas / admits (Model.HostApi); the verdicts are compared in the trace
var sqlWriteCapable = []string{"ALTER", "ANALYZE", "ATTACH", "BEGIN", "COMMIT", "CREATE", "DELETE", "DETACH", "DROP", "END", "INSERT",
	"REINDEX", "RELEASE", "REPLACE", "ROLLBACK", "SAVEPOINT", "UPDATE", "VACUUM", "WITH", "PRAGMA"}

var sqlSettablePragmas = []string{"ANALYSIS_LIMIT", "APPLICATION_ID", "AUTO_VACUUM", "AUTOMATIC_INDEX", "BUSY_TIMEOUT", "CACHE_SIZE", "CACHE_SPILL",
	"CASE_SENSITIVE_LIKE", "CELL_SIZE_CHECK", "CHECKPOINT_FULLFSYNC", "COUNT_CHANGES", "DATA_STORE_DIRECTORY",
	"DEFAULT_CACHE_SIZE", "DEFER_FOREIGN_KEYS", "EMPTY_RESULT_CALLBACKS", "ENCODING", "FOREIGN_KEYS", "FULL_COLUMN_NAMES",
	"FULLFSYNC", "HARD_HEAP_LIMIT", "IGNORE_CHECK_CONSTRAINTS", "INCREMENTAL_VACUUM", "JOURNAL_MODE", "JOURNAL_SIZE_LIMIT",
	"LEGACY_ALTER_TABLE", "LEGACY_FILE_FORMAT", "LOCKING_MODE", "MAX_PAGE_COUNT", "MMAP_SIZE", "OPTIMIZE", "PAGE_SIZE",
	"PARSER_TRACE", "QUERY_ONLY", "READ_UNCOMMITTED", "RECURSIVE_TRIGGERS", "REVERSE_UNORDERED_SELECTS", "SCHEMA_VERSION",
	"SECURE_DELETE", "SHORT_COLUMN_NAMES", "SHRINK_MEMORY", "SOFT_HEAP_LIMIT", "SYNCHRONOUS", "TEMP_STORE",
	"TEMP_STORE_DIRECTORY", "THREADS", "TRUSTED_SCHEMA", "USER_VERSION", "VDBE_ADDOPTRACE", "VDBE_DEBUG", "VDBE_LISTING",
	"VDBE_TRACE", "WAL_AUTOCHECKPOINT", "WAL_CHECKPOINT", "WRITABLE_SCHEMA",
	"BRANCH", "BRANCH_TRUNCATE", "BRANCH_LOG", "NEW_BRANCH", "DEL_BRANCH", "RENAME_BRANCH", "BRANCH_MERGE"}

func sqlAdmits(rule [2]string, kw string) bool {
	switch rule[1] {
	case "prefix":
		return strings.HasPrefix(kw, rule[0])
	case "exact":
		return kw == rule[0]
	}
	return true
}
