// Harness c20: read-only contract execution (host-API source analysis).
//
// There is no implementation to run for C20 — package contract's VM is cgo against LuaJIT and does not build
// here — so this harness does not drive functions; it drives the *source*: it runs the host-API extractor
// (the very files of tools/goext, linked into this package: hostapi_extract.go, hostapi_tables.go,
// hostapi_c.go, hostapi_facts.go) on the current tree and on the synthetic corpus, and then
//
//   - oracle (the property itself, evaluated on the source): a witness search — breadth-first over the
//     control-flow graph of every exported callback and of Query / CheckFeeDelegation, in query mode and in
//     view mode, path-sensitive in the stable condition atoms — for a path that reaches a mutating sink while
//     isQuery or nestedView > 0 is set.  A witness (callback, branch decisions with source positions, sink)
//     is reported through run.Fail and becomes the replay of the VIOLATION line.  Same for the lexical C
//     facts: a registered Lua function that executes SQL with no view / read-only check before it, an
//     internal-only callback reachable from other C code, a write of isQuery, a new writer of nestedView.
//   - correspondence lines (diffed by ./check against model-c20, i.e. against what Lean computes from the
//     regenerated Aergo.Gen.HostApi):
//     cb real <name>       what the reviewed table below expects of each callback (guarded | pure)
//     cb corpus <name>     the `// verdict:` annotation of each synthetic callback
//     search <set> <name>  what the witness search found (ok | unguarded) — a second, differently built
//     analysis of the same IR (explicit path search vs. Lean's abstract interpretation)
//     cfn <i>, fact <name> the C scan and the inventories, to pin that the generated Lean file is the
//     extraction of *this* tree
//
// Everything is enumerated completely (all callbacks, all corpus entries, all registered Lua functions); the
// seed only permutes the order of the operation lines.
package main

import (
	"fmt"
	"os"
	"path/filepath"
	"sort"
	"strings"

	"github.com/aergoio/aergo/v2/zz_verif/vh"
)

// expectReal: reviewed expectation per exported callback of vm_callback.go.  `guarded`: the callback can
// change chain state and must refuse in a read-only context; `pure`: it cannot reach a mutating operation at
// all.  A callback that is not listed answers `unlisted` (=> trace difference: review it and list it).
var expectReal = map[string]string{
	"luaSetDB": "guarded", "luaDelDB": "guarded", "luaCallContract": "guarded", "luaSendAmount": "guarded",
	"luaDeployContract": "guarded", "luaEvent": "guarded", "luaGovernance": "guarded",
	"luaGetDbHandle": "guarded", // opens the SQL transaction: read-only handle in query mode
	"luaGetDB":       "pure", "luaDelegateCallContract": "pure", "luaPrint": "pure",
	"luaSetRecoveryPoint": "pure", // only recovery-point bookkeeping (and that only outside read-only contexts)
	"luaClearRecovery":    "pure", // restore-class only
	"luaGetBalance":       "pure", "luaGetSender": "pure", "luaGetHash": "pure", "luaGetBlockNo": "pure",
	"luaGetTimeStamp": "pure", "luaGetContractId": "pure", "luaGetAmount": "pure", "luaGetOrigin": "pure",
	"luaGetPrevBlockHash": "pure", "luaCryptoSha256": "pure", "luaECVerify": "pure", "luaCryptoVerifyProof": "pure",
	"luaCryptoKeccak256": "pure", "isPublic": "pure", "luaRandomInt": "pure", "luaGetEventCount": "pure",
	"luaDropEvent": "pure", // restore-class only
	"luaToPubkey":  "pure", "luaToAddress": "pure", "luaIsContract": "pure", "luaNameResolve": "pure",
	"luaViewStart": "pure", "luaViewEnd": "pure", "luaCheckView": "pure", "luaCheckTimeout": "pure",
	"luaIsFeeDelegation": "pure", "LuaGetDbHandleSnap": "pure", "LuaGetDbSnapshot": "pure", "luaGetStaking": "pure",
}

// reviewed exceptions of the C-side SQL rule: rs:next steps only statements that db.query / pstmt:query
// created after a read-only check
var sqlStepExceptions = map[string]bool{"rs_methods.next": true}

// C functions that may call the internal-only callbacks
var internalCallersAllowed = map[string]bool{"pcall": true, "xpcall": true, "modulePcall": true,
	"vm_internal_view_start": true, "vm_internal_view_end": true}

func env(k, d string) string {
	if v := os.Getenv(k); v != "" {
		return v
	}
	return d
}

func pairs(rows [][2]string) string {
	var out []string
	for _, r := range rows {
		out = append(out, strings.ReplaceAll(r[0], " ", "_")+"="+strings.ReplaceAll(r[1], " ", "_"))
	}
	return strings.Join(out, " ")
}

type opLine struct {
	op, impl   string
	nontrivial bool
}

func main() {
	run := vh.Start("c20", "complete enumeration: every //export callback of contract/{vm.go,vm_callback.go,vm_state.go} (verdict vs. reviewed "+
		"expectation; witness search in query and in view mode), every synthetic callback of corpus/C20 (verdict vs. annotation), every Lua function "+
		"registered by contract/*.c, every generated inventory. non-trivial = callback with a mutating sink reachable syntactically (guarded or unguarded); "+
		"distinct by (op, answer)")
	defer run.Finish()
	repo := env("VERIF_REPO", "/repo")
	corpus := filepath.Join(env("VERIF_DIR", "/verif"), "corpus", "C20")
	g, err := HGenerate(repo, corpus)
	if err != nil {
		fmt.Fprintln(os.Stderr, "c20: extraction failed:", err)
		os.Exit(3)
	}
	var ops []opLine
	// round 3: the cgo build of the statesql drive runs while everything else is evaluated
	sqlB := startSQLBuild(run, repo)
	sqlScs := sqlScenarios(run)
	slotB := startSlotBuild(run, repo)
	chkB := startSqlcheckBuild(run, repo)
	chkCorpus := sqlcheckCorpus(run)

	// ------------------------------------------------------------------ corpus (extractor + search self-test)
	cs := newSearcher(g.Corpus)
	for _, f := range g.Corpus.Funcs {
		if !f.Exported {
			continue
		}
		want := g.Expect[f.Name]
		ops = append(ops, opLine{"cb corpus " + f.Name, want, want != "pure"})
		w := cs.witness(f.Name)
		got := "ok"
		if w != nil {
			got = "unguarded"
		}
		if (want == "unguarded") != (w != nil) {
			// the search itself disagrees with the annotation: make it visible in the trace
			got = "selftest-mismatch(" + got + ")"
			run.Count("corpus-search-mismatch")
		}
		ops = append(ops, opLine{"search corpus " + f.Name, got, want != "pure"})
		run.Count("corpus-" + want)
	}

	// ------------------------------------------------------------------ real callbacks
	rs := newSearcher(g.Real)
	names := map[string]bool{}
	for _, f := range g.Real.Funcs {
		if f.Exported {
			names[f.Name] = true
		}
	}
	for n := range expectReal {
		names[n] = true
	}
	var sorted []string
	for n := range names {
		sorted = append(sorted, n)
	}
	sort.Strings(sorted)
	for _, n := range sorted {
		want, listed := expectReal[n]
		if !listed {
			want = "unlisted"
			run.Count("callback-unlisted")
		}
		f := g.Real.Func(n)
		ops = append(ops, opLine{"cb real " + n, want, want == "guarded"})
		if f == nil || !f.Exported {
			ops = append(ops, opLine{"search real " + n, "missing", false})
			run.Count("callback-missing")
			continue
		}
		w := rs.witness(n)
		if w == nil {
			ops = append(ops, opLine{"search real " + n, "ok", want == "guarded"})
			run.Count("callback-" + want)
			continue
		}
		ops = append(ops, opLine{"search real " + n, "unguarded", true})
		run.Count("callback-unguarded")
		run.Fail(fmt.Sprintf("host callback %s reaches %s (%s) in a read-only context (%s mode): no read-only guard on the path",
			n, w.sink.Name, w.sink.Pos, w.mode),
			map[string]interface{}{"callback": n, "file": f.File, "line": f.Line, "mode": w.mode, "sink": w.sink.Name, "sink_kind": w.sink.Kind,
				"sink_position": w.sink.Pos, "path": w.path,
				"how": "a contract calls the Lua function bound to this callback from a query / view function; follow `path` in " + f.File})
	}
	// Assumptions on condition atoms (hostapi_tables.go: Assume).  The theorems are stated under them; here each one
	// is dropped again: a callback that is clean only thanks to an assumption is reported, tagged with a class id
	// that names the callback and the sink, so that the one reviewed case can be listed as a known finding while
	// any other one is a violation.
	bare := &HProgram{Facts: g.Real.Facts}
	for _, f := range g.Real.Funcs {
		c := *f
		c.Assume, c.AssumeWhy = nil, nil
		bare.Funcs = append(bare.Funcs, &c)
	}
	bs := newSearcher(bare)
	for _, f := range g.Real.Funcs {
		if !f.Exported || len(f.Assume) == 0 {
			continue
		}
		run.Eval("assumption "+f.Name, true)
		if rs.witness(f.Name) != nil {
			continue // already reported above
		}
		if w := bs.witness(f.Name); w != nil {
			var texts []string
			for _, cl := range f.Assume {
				var lits []string
				for _, l := range cl {
					lits = append(lits, f.Atoms[l.Atom])
				}
				texts = append(texts, strings.Join(lits, "  or  "))
			}
			class := "C20-" + f.Name + "-reaches-" + w.sink.Name + "-unless-assumed"
			run.FailKnown(fmt.Sprintf("host callback %s reaches %s (%s) in a read-only context unless one assumes: %s",
				f.Name, w.sink.Name, w.sink.Pos, strings.Join(texts, "; ")), class,
				map[string]interface{}{"callback": f.Name, "mode": w.mode, "sink": w.sink.Name, "sink_position": w.sink.Pos, "path": w.path,
					"assumed": texts, "why_assumed": f.AssumeWhy,
					"concrete": "luaSendAmount: a view function (or a query) calls contract.send(<address of a non-contract account>, \"-1.5 aergo\") in a block of " +
						"hard-fork version 4: transformAmount returns -1.5e18 (negative decimal amounts are rejected only from version 5 on), the guard " +
						"`(isQuery || nestedView > 0) && amount > 0` does not fire, `amount == 0` is false, sendBalance checks the sign only if " +
						"currentForkVersion >= 5, and state.SendBalance(sender, receiver, -1.5e18) moves 1.5 aergo from the receiver to the calling contract"})
			run.Count("assumption-load-bearing")
		}
	}

	// Go-level read-only entry points (query mode only)
	for _, f := range g.Real.Funcs {
		if !f.QueryEntry {
			continue
		}
		run.Eval("query-entry "+f.Name, true)
		if w := rs.witnessIn(f.Name, "query"); w != nil {
			run.Fail(fmt.Sprintf("%s (always isQuery) reaches %s (%s)", f.Name, w.sink.Name, w.sink.Pos),
				map[string]interface{}{"entry": f.Name, "sink": w.sink.Name, "sink_position": w.sink.Pos, "path": w.path})
		}
	}

	// ------------------------------------------------------------------ inventories
	fx := g.Real.Facts
	okView := map[[2]string]bool{{"luaViewStart", "inc"}: true, {"luaViewEnd", "dec"}: true, {"executor.call", "inc"}: true, {"executor.call", "dec"}: true}
	for _, w := range fx.ViewWrites {
		run.Eval("viewWrite "+w[0]+" "+w[1], true)
		if !okView[w] {
			run.Fail(fmt.Sprintf("%s writes vmContext.nestedView (%s): the view depth is no longer maintained by the view bracket alone", w[0], w[1]),
				map[string]interface{}{"function": w[0], "write": w[1]})
		}
	}
	for _, w := range fx.QueryWrites {
		run.Fail(fmt.Sprintf("%s assigns vmContext.isQuery at %s: a query context can stop being read-only", w[0], w[1]),
			map[string]interface{}{"function": w[0], "position": w[1]})
	}
	for _, l := range fx.QueryCtxLits {
		run.Eval("ctxLit "+l[0], true)
		if l[0] == "NewVmContextQuery" && l[1] != "true" {
			run.Fail("NewVmContextQuery builds its context with isQuery: "+l[1], map[string]interface{}{"function": l[0], "isQuery": l[1]})
		}
	}
	var callers [][2]string
	for _, n := range []string{"NewVmContextQuery", "NewVmContext"} {
		for _, c := range fx.CallersOf[n] {
			callers = append(callers, [2]string{n, c})
		}
	}
	for _, e := range []string{"Query", "CheckFeeDelegation"} {
		found := false
		for _, c := range fx.CallersOf["NewVmContextQuery"] {
			found = found || c == e
		}
		if !found {
			run.Fail(e+" no longer builds its context with NewVmContextQuery (isQuery: true)", map[string]interface{}{"entry": e})
		}
	}
	var uncl int
	for _, r := range g.StateAPI {
		switch r[2] {
		case "ro", "mut", "mutQ", "restore", "txctl", "cache":
		default:
			uncl++
		}
	}
	var internal [][2]string
	for _, r := range g.C.CallbackCallers {
		if hostInternalCallbacks[r[0]] {
			internal = append(internal, r)
			if !internalCallersAllowed[r[1]] {
				run.Fail(fmt.Sprintf("internal-only callback %s is called from C function %s", r[0], r[1]),
					map[string]interface{}{"callback": r[0], "c_function": r[1]})
			}
		}
	}
	nExp, nCorp := 0, 0
	for _, f := range g.Real.Funcs {
		if f.Exported {
			nExp++
		}
	}
	for _, f := range g.Corpus.Funcs {
		if f.Exported {
			nCorp++
		}
	}
	facts := [][2]string{
		{"viewWrites", pairs(fx.ViewWrites)}, {"queryWrites", pairs(fx.QueryWrites)}, {"queryCtxLits", pairs(fx.QueryCtxLits)},
		{"guardWhen", pairs(fx.GuardWhen)}, {"queryOnly", pairs(fx.QueryOnly)}, {"viewOnly", pairs(fx.ViewOnly)},
		{"reenterSites", pairs(fx.Reenter)}, {"ctxBuilders", pairs(callers)}, {"internalCallers", pairs(internal)},
		{"fnPtrWiring", pairs(g.C.FnPtrWiring)},
		{"unknownSinks", fmt.Sprint(len(fx.Unknown))}, {"unsupported", fmt.Sprint(len(fx.Unsupported))},
		{"stateApiUnclassified", fmt.Sprint(uncl)},
		{"counts", fmt.Sprintf("fns=%d exported=%d corpus=%d cfns=%d", len(g.Real.Funcs), nExp, nCorp, len(g.C.LuaFns))},
	}
	facts = append(facts, deepOracles(run, g)...)
	for _, f := range facts {
		ops = append(ops, opLine{"fact " + f[0], f[1], true})
	}
	// ------------------------------------------------------------------ `ro` entries of the tables, on the real code
	ops = append(ops, roDrive(run, g)...)

	// ------------------------------------------------------------------ C modules
	for i, f := range g.C.LuaFns {
		ops = append(ops, opLine{fmt.Sprintf("cfn %d", i), f.File + " " + f.Table + "." + f.LuaName + " " + f.Line(), len(f.Callbacks) > 0 || f.SQLStep})
		if f.SQLStep {
			run.Count("c-sql-step")
			if len(f.GuardsBeforeStep) == 0 && !sqlStepExceptions[f.Table+"."+f.LuaName] {
				run.Fail(fmt.Sprintf("Lua function %s.%s (%s in %s) executes SQL with no view / read-only check before it",
					f.Table, f.LuaName, f.CFunc, f.File),
					map[string]interface{}{"file": f.File, "table": f.Table, "lua_function": f.LuaName, "c_function": f.CFunc})
			}
		}
	}
	ops = append(ops, opLine{fmt.Sprintf("cfn %d", len(g.C.LuaFns)), "none", false})
	ops = append(ops, opLine{"frobnicate", "bad-op", false}) // malformed line: the driver must say bad-op

	// the seed only permutes the order
	for i := len(ops) - 1; i > 0; i-- {
		j := run.Rng.Intn(i + 1)
		ops[i], ops[j] = ops[j], ops[i]
	}
	for _, o := range ops {
		run.Op(o.op, o.impl, o.nontrivial)
	}
	// ------------------------------------------------------------------ read-only SQL connection, on the real code
	sqlDrive(run, sqlB, sqlScs)
	// ------------------------------------------------------------------ the keyword gate of db.query, against SQLite itself
	sqlcheckDrive(run, chkB, chkCorpus)
	// ------------------------------------------------------------------ the context slots, on the real code
	slotDrive(run, slotB)
	run.SetExhaustive(true)
}

// ---------------------------------------------------------------------------------- witness search

type witness struct {
	mode string
	sink *HSink
	path []string
}

type instr struct {
	kind string // sink call branch jump choice end
	sink *HSink
	fn   string
	cond *HCond
	t, f int   // branch targets / jump target in t
	alts []int // choice
	pos  string
}

type cfg struct {
	fn       *HFunc
	code     []instr
	entry    int
	relevant map[int]bool // atoms whose value the search tracks: those tested together with a flag, or assumed about
}

type searcher struct {
	prog    *HProgram
	cfgs    map[string]*cfg
	summary map[string]map[string]*witness // mode -> function -> witness from entry
}

func newSearcher(p *HProgram) *searcher {
	s := &searcher{prog: p, cfgs: map[string]*cfg{}, summary: map[string]map[string]*witness{"query": {}, "view": {}}}
	for _, f := range p.Funcs {
		s.cfgs[f.Name] = compile(f)
	}
	for _, mode := range []string{"query", "view"} {
		// least fixpoint: a function is unsafe if some path reaches a forbidden sink or a call of an unsafe function
		for changed := true; changed; {
			changed = false
			for _, f := range p.Funcs {
				if s.summary[mode][f.Name] != nil {
					continue
				}
				if w := s.search(f.Name, mode); w != nil {
					s.summary[mode][f.Name] = w
					changed = true
				}
			}
		}
	}
	return s
}

func (s *searcher) witnessIn(fn, mode string) *witness { return s.summary[mode][fn] }

func (s *searcher) witness(fn string) *witness {
	if w := s.summary["query"][fn]; w != nil {
		return w
	}
	return s.summary["view"][fn]
}

type compiler struct {
	code []instr
}

func (c *compiler) emit(i instr) int {
	c.code = append(c.code, i)
	return len(c.code) - 1
}

// gen compiles s so that control continues at `next`; returns the entry pc.
func (c *compiler) gen(s *HStmt, next, ret, brk, cont int) int {
	switch s.Op {
	case "skip":
		return next
	case "seq":
		n := next
		for i := len(s.L) - 1; i >= 0; i-- {
			n = c.gen(s.L[i], n, ret, brk, cont)
		}
		return n
	case "ite":
		t := c.gen(s.T, next, ret, brk, cont)
		f := c.gen(s.E, next, ret, brk, cont)
		return c.emit(instr{kind: "branch", cond: s.C, t: t, f: f, pos: s.Pos})
	case "ret":
		return ret
	case "brk":
		return brk
	case "cont":
		return cont
	case "sink":
		return c.emit(instr{kind: "sink", sink: s.Sink, t: next, pos: s.Pos})
	case "call":
		return c.emit(instr{kind: "call", fn: s.Fn, t: next, pos: s.Pos})
	case "reenter":
		return next // exported callbacks are searched on their own
	case "loop":
		head := c.emit(instr{kind: "choice"})
		body := c.gen(s.T, head, ret, next, head)
		c.code[head].alts = []int{body, next}
		return head
	case "scope":
		return c.gen(s.T, next, next, next, next)
	}
	panic("c20: statement op " + s.Op)
}

func compile(f *HFunc) *cfg {
	c := &compiler{}
	end := c.emit(instr{kind: "end"})
	entry := c.gen(f.Body, end, end, end, end)
	g := &cfg{fn: f, code: c.code, entry: entry, relevant: map[int]bool{}}
	for _, in := range c.code {
		if in.kind == "branch" {
			if q, v := hxHasFlag(in.cond); q || v {
				condAtoms(in.cond, "", nil, g.relevant)
			}
		}
	}
	for _, cl := range f.Assume {
		for _, l := range cl {
			g.relevant[l.Atom] = true
		}
	}
	return g
}

// atoms: -1 = the other flag (view in query mode, query in view mode)
type valuation map[int]bool

func (v valuation) key() string {
	var ks []int
	for k := range v {
		ks = append(ks, k)
	}
	sort.Ints(ks)
	var b strings.Builder
	for _, k := range ks {
		fmt.Fprintf(&b, "%d:%v,", k, v[k])
	}
	return b.String()
}

// condAtoms collects the atoms of c (restricted to `only` if not nil) and -1 for the flag the mode leaves open.
func condAtoms(c *HCond, mode string, only, out map[int]bool) {
	if c == nil {
		return
	}
	switch c.Op {
	case "atom":
		if only == nil || only[c.Atom] {
			out[c.Atom] = true
		}
	case "query":
		if mode == "view" {
			out[-1] = true
		}
	case "view":
		if mode == "query" {
			out[-1] = true
		}
	}
	condAtoms(c.A, mode, only, out)
	condAtoms(c.B, mode, only, out)
}

// outcomes of c under a total valuation of its atoms: subset of {true,false}
func evalCond(c *HCond, mode string, v valuation) (canT, canF bool) {
	switch c.Op {
	case "query":
		if mode == "query" {
			return true, false
		}
		return v[-1], !v[-1]
	case "view":
		if mode == "view" {
			return true, false
		}
		return v[-1], !v[-1]
	case "atom":
		if x, tracked := v[c.Atom]; tracked {
			return x, !x
		}
		return true, true // not tracked: either outcome
	case "any":
		return true, true
	case "not":
		t, f := evalCond(c.A, mode, v)
		return f, t
	case "and":
		at, af := evalCond(c.A, mode, v)
		bt, bf := evalCond(c.B, mode, v)
		return at && bt, af || bf
	case "or":
		at, af := evalCond(c.A, mode, v)
		bt, bf := evalCond(c.B, mode, v)
		return at || bt, af && bf
	}
	panic("c20: cond op " + c.Op)
}

func forbiddenKind(mode, kind string) bool {
	return kind == "mut" || (mode == "query" && kind == "mutQ")
}

func violates(f *HFunc, v valuation) bool {
	for _, cl := range f.Assume {
		all := true
		for _, l := range cl {
			val, known := v[l.Atom]
			if !known || val == l.Pos {
				all = false
			}
		}
		if all {
			return true
		}
	}
	return false
}

type srchState struct {
	pc  int
	val valuation
}

type visit struct {
	prev *visit
	note string
}

func (s *searcher) search(fn, mode string) *witness {
	g := s.cfgs[fn]
	if g == nil {
		return nil
	}
	type item struct {
		st srchState
		v  *visit
	}
	seen := map[string]bool{}
	queue := []item{{srchState{g.entry, valuation{}}, nil}}
	push := func(st srchState, v *visit) {
		k := fmt.Sprintf("%d|%s", st.pc, st.val.key())
		if !seen[k] {
			seen[k] = true
			queue = append(queue, item{st, v})
		}
	}
	trace := func(v *visit) []string {
		var out []string
		for ; v != nil; v = v.prev {
			if v.note != "" {
				out = append([]string{v.note}, out...)
			}
		}
		return out
	}
	for len(queue) > 0 {
		it := queue[0]
		queue = queue[1:]
		in := g.code[it.st.pc]
		switch in.kind {
		case "end":
		case "sink":
			if forbiddenKind(mode, in.sink.Kind) {
				return &witness{mode: mode, sink: in.sink, path: append(trace(it.v), fmt.Sprintf("%s: %s [%s]", in.pos, in.sink.Name, in.sink.Kind))}
			}
			push(srchState{in.t, it.st.val}, it.v)
		case "call":
			if w := s.summary[mode][in.fn]; w != nil {
				p := append(trace(it.v), fmt.Sprintf("%s: call %s", in.pos, in.fn))
				return &witness{mode: mode, sink: w.sink, path: append(p, w.path...)}
			}
			push(srchState{in.t, it.st.val}, it.v)
		case "choice":
			for _, a := range in.alts {
				push(srchState{a, it.st.val}, it.v)
			}
		case "branch":
			need := map[int]bool{}
			condAtoms(in.cond, mode, g.relevant, need)
			var free []int
			for a := range need {
				if _, ok := it.st.val[a]; !ok {
					free = append(free, a)
				}
			}
			sort.Ints(free)
			for bits := 0; bits < 1<<len(free); bits++ {
				v := valuation{}
				for k, x := range it.st.val {
					v[k] = x
				}
				for i, a := range free {
					v[a] = bits&(1<<i) != 0
				}
				if violates(g.fn, v) {
					continue
				}
				ct, cf := evalCond(in.cond, mode, v)
				text := hDumpCondShort(in.cond, g.fn.Atoms)
				if ct {
					push(srchState{in.t, v}, &visit{it.v, fmt.Sprintf("%s: %s is true", in.pos, text)})
				}
				if cf {
					push(srchState{in.f, v}, &visit{it.v, fmt.Sprintf("%s: %s is false", in.pos, text)})
				}
			}
		}
	}
	return nil
}

func hDumpCondShort(c *HCond, atoms []string) string {
	switch c.Op {
	case "atom":
		return "`" + atoms[c.Atom] + "`"
	case "not":
		return "!" + hDumpCondShort(c.A, atoms)
	case "and":
		return "(" + hDumpCondShort(c.A, atoms) + " && " + hDumpCondShort(c.B, atoms) + ")"
	case "or":
		return "(" + hDumpCondShort(c.A, atoms) + " || " + hDumpCondShort(c.B, atoms) + ")"
	case "query":
		return "isQuery"
	case "view":
		return "nestedView>0"
	case "any":
		return "<condition>"
	}
	return c.Op
}
