package main

// Round 3: the `ro` entries of the classification tables, driven on the real code.
//
// The extractor classes calls into state / statedb / name / system / blacklist by the reviewed tables; the bodies
// of the callees are not part of the extraction.  For every callee the tables class as a *read* and the analysed
// code actually calls (generated list Facts.RoCallees) this file runs the real function on a real chain state
// (ChainStateDB on memorydb with the test genesis, accounts, a contract with code and storage, a registered name,
// stakings) and checks the property's own observable: the state root after `BlockState.Update()` — and again
// after `Commit()` and reopening — is the root it was before the calls, no account or storage entry appeared.
// Arguments come from the run's PRNG: existing and missing accounts, existing and missing keys.
//
// One line `ro <callee>` per callee goes to the trace: `unchanged` when driven, `undriven` when a newly
// referenced callee has no driver here (the model answers `unchanged` for every referenced callee, so that is a
// trace difference: write the driver).

import (
	"bytes"
	"encoding/hex"
	"fmt"
	"math/big"
	"path/filepath"
	"sort"

	"github.com/aergoio/aergo-lib/db"
	"github.com/aergoio/aergo/v2/blacklist"
	"github.com/aergoio/aergo/v2/contract/name"
	"github.com/aergoio/aergo/v2/contract/system"
	"github.com/aergoio/aergo/v2/state"
	"github.com/aergoio/aergo/v2/state/statedb"
	"github.com/aergoio/aergo/v2/types"
	"github.com/aergoio/aergo/v2/zz_verif/vh"
)

type roWorld struct {
	sdb      *state.ChainStateDB
	root     []byte
	accounts [][]byte // existing plain accounts
	contract []byte   // existing contract account
	keys     [][]byte // existing storage keys of the contract
	missing  [][]byte // addresses with no account
	nameReg  []byte   // a registered name
	staker   []byte
}

func addr33(rng *vh.Rng, tag byte) []byte {
	a := rng.Bytes(types.AddressLength)
	a[0] = 0x02 | (tag & 1)
	return a
}

func buildRoWorld(run *vh.Run, seq int) (*roWorld, error) {
	w := &roWorld{}
	w.sdb = state.NewChainStateDB()
	if err := w.sdb.Init(string(db.MemoryImpl), filepath.Join(run.Out, "rodb", fmt.Sprint(seq)), nil, false, nil); err != nil {
		return nil, err
	}
	g := types.GetTestGenesis()
	if err := w.sdb.SetGenesis(g, nil); err != nil {
		return nil, err
	}
	bs := w.sdb.NewBlockState(w.sdb.GetRoot())
	rng := run.Rng
	for i := 0; i < 3+rng.Intn(3); i++ {
		a := addr33(rng, byte(i))
		as, err := state.GetAccountState(a, bs.StateDB)
		if err != nil {
			return nil, err
		}
		as.AddBalance(new(big.Int).SetUint64(1 + rng.Next()%1000000))
		as.SetNonce(uint64(rng.Intn(50)))
		if err := as.PutState(); err != nil {
			return nil, err
		}
		w.accounts = append(w.accounts, a)
	}
	for i := 0; i < 3; i++ {
		w.missing = append(w.missing, addr33(rng, byte(i)))
	}
	// a contract with code and storage
	w.contract = addr33(rng, 1)
	cas, err := state.CreateAccountState(w.contract, bs.StateDB)
	if err != nil {
		return nil, err
	}
	cas.AddBalance(big.NewInt(777))
	cs, err := statedb.OpenContractState(cas.ID(), cas.State(), bs.StateDB)
	if err != nil {
		return nil, err
	}
	if err := cs.SetCode([]byte("function f() end abi.register(f)"), append([]byte{0, 0, 0, 12}, rng.Bytes(24)...)); err != nil {
		return nil, err
	}
	for i := 0; i < 4+rng.Intn(4); i++ {
		k := append([]byte("_sv_k"), byte('a'+i))
		if err := cs.SetData(k, rng.Bytes(1+rng.Intn(40))); err != nil {
			return nil, err
		}
		w.keys = append(w.keys, k)
	}
	if err := statedb.StageContractState(cs, bs.StateDB); err != nil {
		return nil, err
	}
	if err := cas.PutState(); err != nil {
		return nil, err
	}
	// a name and a staking, written the way the governance contracts store them
	ncs, err := statedb.GetNameAccountState(bs.StateDB)
	if err != nil {
		return nil, err
	}
	w.nameReg = []byte("verifname012")
	if res, _ := vh.Guard(func() string {
		sender, err := state.GetAccountState(w.accounts[0], bs.StateDB)
		if err != nil {
			return "err"
		}
		receiver, err := state.GetAccountState([]byte(types.AergoName), bs.StateDB)
		if err != nil {
			return "err"
		}
		if err := name.CreateName(ncs, &types.TxBody{Account: w.accounts[0]}, sender, receiver, string(w.nameReg)); err != nil {
			return "err"
		}
		return "ok"
	}); res != "ok" {
		w.nameReg = nil // no registered name: the name reads then only see missing names
		run.Count("ro-world-no-name")
	}
	if err := statedb.StageContractState(ncs, bs.StateDB); err != nil {
		return nil, err
	}
	if err := bs.Update(); err != nil {
		return nil, err
	}
	if err := bs.Commit(); err != nil {
		return nil, err
	}
	w.root = append([]byte{}, bs.GetRoot()...)
	if err := w.sdb.UpdateRoot(bs); err != nil {
		return nil, err
	}
	w.staker = w.accounts[0]
	return w, nil
}

func (w *roWorld) pickAddr(rng *vh.Rng) []byte {
	switch rng.Intn(4) {
	case 0:
		return w.missing[rng.Intn(len(w.missing))]
	case 1:
		return w.contract
	}
	return w.accounts[rng.Intn(len(w.accounts))]
}

func (w *roWorld) pickKey(rng *vh.Rng) []byte {
	if rng.Intn(3) == 0 {
		return append([]byte("_sv_missing"), rng.Bytes(3)...)
	}
	return w.keys[rng.Intn(len(w.keys))]
}

// roDrivers: callee name -> exercise it on a fresh block state (args drawn from rng); returns a note for the replay.
var roDrivers = map[string]func(w *roWorld, bs *state.BlockState, rng *vh.Rng) string{
	"blacklist.Check": func(w *roWorld, bs *state.BlockState, rng *vh.Rng) string {
		a := w.pickAddr(rng)
		return fmt.Sprintf("Check(%s)=%v", types.EncodeAddress(a), blacklist.Check(types.EncodeAddress(a)))
	},
	"name.GetAddress": func(w *roWorld, bs *state.BlockState, rng *vh.Rng) string {
		scs, _ := statedb.GetNameAccountState(bs.StateDB)
		n := []byte("nosuchname01")
		if w.nameReg != nil && rng.Bool() {
			n = w.nameReg
		}
		return fmt.Sprintf("GetAddress(%s)=%x", n, name.GetAddress(scs, n))
	},
	"name.Resolve": func(w *roWorld, bs *state.BlockState, rng *vh.Rng) string {
		n := []byte("nosuchname02")
		if w.nameReg != nil && rng.Bool() {
			n = w.nameReg
		}
		r, err := name.Resolve(bs, n, rng.Bool())
		return fmt.Sprintf("Resolve(%s)=%x,%v", n, r, err)
	},
	"state.GetAccountState": func(w *roWorld, bs *state.BlockState, rng *vh.Rng) string {
		out := ""
		for i := 0; i < 4; i++ {
			a := w.pickAddr(rng)
			as, err := state.GetAccountState(a, bs.StateDB)
			out += fmt.Sprintf("GetAccountState(%x)=%v,%v ", a[:4], as != nil, err)
			if as != nil {
				// the accessors the callbacks use on the result
				_, _, _, _, _, _, _ = as.AccountID(), as.Balance(), as.CodeHash(), as.ID(), as.Nonce(), as.RP(), as.State()
			}
		}
		return out
	},
	"state.InitAccountState": func(w *roWorld, bs *state.BlockState, rng *vh.Rng) string {
		a := w.pickAddr(rng)
		st, _ := bs.StateDB.GetAccountState(types.ToAccountID(a))
		if st == nil {
			st = &types.State{}
		}
		as := state.InitAccountState(a, bs.StateDB, st, st.Clone())
		return fmt.Sprintf("InitAccountState(%x) balance=%s", a[:4], as.Balance())
	},
	"state.BlockState.GetABI": func(w *roWorld, bs *state.BlockState, rng *vh.Rng) string {
		return fmt.Sprintf("GetABI=%v", bs.GetABI(types.ToAccountID(w.pickAddr(rng))) != nil)
	},
	"state.BlockState.GetCode": func(w *roWorld, bs *state.BlockState, rng *vh.Rng) string {
		return fmt.Sprintf("GetCode=%d", len(bs.GetCode(types.ToAccountID(w.pickAddr(rng)))))
	},
	"statedb.OpenContractStateAccount": func(w *roWorld, bs *state.BlockState, rng *vh.Rng) string {
		out := ""
		for i := 0; i < 3; i++ {
			a := w.pickAddr(rng)
			cs, err := statedb.OpenContractStateAccount(a, bs.StateDB)
			out += fmt.Sprintf("OpenContractStateAccount(%x)=%v,%v ", a[:4], cs != nil, err)
			if cs != nil {
				out += roContractReads(w, cs, rng)
			}
		}
		return out
	},
	"statedb.OpenContractState": func(w *roWorld, bs *state.BlockState, rng *vh.Rng) string {
		a := w.pickAddr(rng)
		as, err := state.GetAccountState(a, bs.StateDB)
		if err != nil {
			return "err " + err.Error()
		}
		cs, err := statedb.OpenContractState(as.ID(), as.State(), bs.StateDB)
		out := fmt.Sprintf("OpenContractState(%x)=%v,%v ", a[:4], cs != nil, err)
		if cs != nil {
			out += roContractReads(w, cs, rng)
		}
		return out
	},
	"statedb.GetMultiCallState": func(w *roWorld, bs *state.BlockState, rng *vh.Rng) string {
		a := w.accounts[rng.Intn(len(w.accounts))]
		st, _ := bs.StateDB.GetAccountState(types.ToAccountID(a))
		cs := statedb.GetMultiCallState(a, st)
		return fmt.Sprintf("GetMultiCallState multicall=%v", cs.IsMultiCall())
	},
	"statedb.GetSystemAccountState": func(w *roWorld, bs *state.BlockState, rng *vh.Rng) string {
		cs, err := statedb.GetSystemAccountState(bs.StateDB)
		return fmt.Sprintf("GetSystemAccountState=%v,%v", cs != nil, err)
	},
	"statedb.GetNameAccountState": func(w *roWorld, bs *state.BlockState, rng *vh.Rng) string {
		cs, err := statedb.GetNameAccountState(bs.StateDB)
		return fmt.Sprintf("GetNameAccountState=%v,%v", cs != nil, err)
	},
	"statedb.StateDB.GetAccountState": func(w *roWorld, bs *state.BlockState, rng *vh.Rng) string {
		out := ""
		for i := 0; i < 4; i++ {
			a := w.pickAddr(rng)
			st, err := bs.StateDB.GetAccountState(types.ToAccountID(a))
			out += fmt.Sprintf("GetAccountState(%x)=%v,%v ", a[:4], st != nil, err)
		}
		return out
	},
	"statedb.StateDB.GetAccountAndProof": func(w *roWorld, bs *state.BlockState, rng *vh.Rng) string {
		a := w.pickAddr(rng)
		p, err := bs.StateDB.GetAccountAndProof(a, w.root, rng.Bool())
		return fmt.Sprintf("GetAccountAndProof(%x)=%v,%v", a[:4], p != nil, err)
	},
	"statedb.StateDB.GetVarAndProof": func(w *roWorld, bs *state.BlockState, rng *vh.Rng) string {
		st, _ := bs.StateDB.GetAccountState(types.ToAccountID(w.contract))
		if st == nil {
			return "no contract state"
		}
		k := w.pickKey(rng)
		p, err := bs.StateDB.GetVarAndProof(k, st.GetStorageRoot(), rng.Bool())
		return fmt.Sprintf("GetVarAndProof(%s)=%v,%v", k, p != nil, err)
	},
	"system.GetStaking": func(w *roWorld, bs *state.BlockState, rng *vh.Rng) string {
		scs, err := statedb.GetSystemAccountState(bs.StateDB)
		if err != nil {
			return "err " + err.Error()
		}
		a := w.pickAddr(rng)
		s, err := system.GetStaking(scs, a)
		return fmt.Sprintf("GetStaking(%x)=%v,%v", a[:4], s != nil, err)
	},
}

// the ContractState / AccountState accessors are exercised together with the functions that produce the objects
var roViaParent = map[string]string{
	"state.AccountState.AccountID": "state.GetAccountState", "state.AccountState.Balance": "state.GetAccountState",
	"state.AccountState.CodeHash": "state.GetAccountState", "state.AccountState.ID": "state.GetAccountState",
	"state.AccountState.Nonce": "state.GetAccountState", "state.AccountState.RP": "state.GetAccountState",
	"state.AccountState.State":               "state.GetAccountState",
	"statedb.ContractState.GetAccountID":     "statedb.OpenContractStateAccount",
	"statedb.ContractState.GetBalanceBigInt": "statedb.OpenContractStateAccount",
	"statedb.ContractState.GetCode":          "statedb.OpenContractStateAccount",
	"statedb.ContractState.GetCodeHash":      "statedb.OpenContractStateAccount",
	"statedb.ContractState.GetData":          "statedb.OpenContractStateAccount",
	"statedb.ContractState.GetID":            "statedb.OpenContractStateAccount",
	"statedb.ContractState.GetSourceCode":    "statedb.OpenContractStateAccount",
	"statedb.ContractState.IsMultiCall":      "statedb.OpenContractStateAccount",
	"statedb.ContractState.GetRawKV":         "statedb.OpenContractStateAccount",
	"statedb.ContractState.HasKey":           "statedb.OpenContractStateAccount",
	"statedb.ContractState.GetInitialData":   "statedb.OpenContractStateAccount",
	"statedb.ContractState.GetBalance":       "statedb.OpenContractStateAccount",
	"statedb.ContractState.GetNonce":         "statedb.OpenContractStateAccount",
	"statedb.ContractState.GetStorageRoot":   "statedb.OpenContractStateAccount",
}

func roContractReads(w *roWorld, cs *statedb.ContractState, rng *vh.Rng) string {
	out := ""
	for i := 0; i < 3; i++ {
		k := w.pickKey(rng)
		v, err := cs.GetData(k)
		out += fmt.Sprintf("GetData(%s)=%d,%v ", k, len(v), err)
		_, _ = cs.GetRawKV(k)
		_ = cs.HasKey(k)
		_, _ = cs.GetInitialData(k)
	}
	code, _ := cs.GetCode()
	_ = cs.GetSourceCode()
	_, _, _, _, _ = cs.GetAccountID(), cs.GetID(), cs.GetCodeHash(), cs.GetBalanceBigInt(), cs.IsMultiCall()
	_, _, _ = cs.GetBalance(), cs.GetNonce(), cs.GetStorageRoot()
	return out + fmt.Sprintf("code=%d ", len(code))
}

// roCheck runs one driver on a fresh block state at the world's root and compares the root afterwards.
func roCheck(run *vh.Run, w *roWorld, callee string, drv func(*roWorld, *state.BlockState, *vh.Rng) string) {
	rounds := run.Pick(3, 12)
	for i := 0; i < rounds; i++ {
		bs := w.sdb.NewBlockState(w.root)
		var note string
		res, _ := vh.Guard(func() string { note = drv(w, bs, run.Rng); return "ok" })
		run.Eval("ro "+callee+" "+note, true)
		run.Count("ro-driven")
		if res != "ok" {
			run.Count("ro-panic")
			continue // a panic in a getter is not a state change (C14 looks at panics)
		}
		if err := bs.Update(); err != nil {
			run.Fail("BlockState.Update fails after a call of "+callee+": "+err.Error(), map[string]interface{}{"callee": callee, "calls": note})
			continue
		}
		after := bs.GetRoot()
		if !bytes.Equal(after, w.root) {
			run.Fail(fmt.Sprintf("%s is classed as a read by the C20 tables, but the state root differs after it (Update): %s -> %s",
				callee, hex.EncodeToString(w.root), hex.EncodeToString(after)),
				map[string]interface{}{"callee": callee, "calls": note, "root_before": hex.EncodeToString(w.root), "root_after": hex.EncodeToString(after),
					"how": "the unguarded host callbacks (luaGetDB, luaGetBalance, luaIsContract, luaNameResolve, …) call this function in queries and view functions"})
			return
		}
		if i == 0 {
			if err := bs.Commit(); err != nil {
				run.Fail("BlockState.Commit fails after a call of "+callee+": "+err.Error(), map[string]interface{}{"callee": callee, "calls": note})
				continue
			}
			re := w.sdb.OpenNewStateDB(w.root)
			for _, m := range w.missing {
				if st, _ := re.GetAccountState(types.ToAccountID(m)); st != nil && (len(st.Balance) > 0 || st.Nonce != 0 || len(st.CodeHash) > 0) {
					run.Fail(callee+" created an account that did not exist", map[string]interface{}{"callee": callee, "calls": note, "account": hex.EncodeToString(m)})
				}
			}
		}
	}
}

// roDrive: trace lines `ro <callee>` for every referenced callee (sorted), oracle on each.
func roDrive(run *vh.Run, g *HGen) []opLine {
	var ops []opLine
	callees := append([]string(nil), g.Real.Facts.RoCallees...)
	sort.Strings(callees)
	w, err := buildRoWorld(run, 1)
	if err != nil {
		run.Count("ro-world-failed")
		run.Fail("cannot build the chain state for the read-only drive: "+err.Error(), map[string]interface{}{"error": err.Error()})
		return nil
	}
	defer w.sdb.Close()
	driven := map[string]bool{}
	for _, c := range callees {
		name := c
		if p, ok := roViaParent[c]; ok {
			name = p
		}
		drv, ok := roDrivers[name]
		if !ok {
			ops = append(ops, opLine{"ro " + c, "undriven", true})
			run.Count("ro-undriven")
			continue
		}
		if !driven[name] {
			driven[name] = true
			roCheck(run, w, name, drv)
		}
		ops = append(ops, opLine{"ro " + c, "unchanged", true})
	}
	ops = append(ops, opLine{"ro state.SendBalance", "not-referenced", false}) // a mutator is not in the list
	return ops
}
