package main

// Round 3c: the context slots, driven on the real code.
//
// Every host-API guard reads contexts[service]; a query's code is checked against the query's own context only if
// allocContextSlot never hands a query one of the slots below MaxVmService (BlockFactory, ChainService: Call / Create
// store the running transaction's context there without looking) and never hands out a slot that is held.
// contract/vm.go as a whole is cgo glue, but allocContextSlot / freeContextSlot (and what they call) are plain Go: this
// file lifts them — go/ast, verbatim, `C.int(` → `int(` — out of the *current tree's* vm.go, together with the const
// group of contract.go that declares the VM services and the statements of init() / InitContext that set up the slot
// table, into a generated standalone program and runs it:
//
//	sequential allocate/free with a sliding window over several wrap-arounds, for many pool sizes, from the state of
//	a freshly started node (service slots empty) and with the service slots occupied;  many goroutines allocating,
//	holding and freeing concurrently;  exhaustion (all query slots held, one more allocation must wait and gets the
//	slot that is freed)
//
// Oracle, checked inside the generated program with its own ownership table: every slot handed to a query is
// ≥ MaxVmService and < maxContext, the query's context is what the slot holds, no slot is handed out while held,
// the service slots are never touched, a freed slot is nil and gets reused.
// Skipped and counted (`slotdrive-skipped-…`) if the functions cannot be lifted (other cgo inside) or `go` cannot
// build the program.

import (
	"bytes"
	"context"
	"fmt"
	"go/ast"
	"go/parser"
	"go/printer"
	"go/token"
	"os"
	"os/exec"
	"path/filepath"
	"strings"
	"time"

	"github.com/aergoio/aergo/v2/zz_verif/vh"
)

const slotMainSrc = `
// ---- stand-ins for the package state of contract/vm.go (declarations only; every statement that touches them
// ---- below is lifted from the tree)
type vmContext struct {
	service int
	isQuery bool
	id      int
}

var (
	maxContext     int
	contexts       []*vmContext
	lastQueryIndex int
	querySync      sync.Mutex
)

var (
	ownerMu sync.Mutex
	owner   []int // our own record of who holds which slot (0 = free)
	nbad    int
)

func bad(format string, a ...interface{}) {
	ownerMu.Lock()
	defer ownerMu.Unlock()
	if nbad < 12 {
		fmt.Printf("BAD "+format+"\n", a...)
	}
	nbad++
}

func acquire(q *vmContext, scen string) {
	allocContextSlot(q)
	s := q.service
	if s < MaxVmService || s >= maxContext {
		bad("%s maxContext=%d: a query was handed slot %d (the slots below MaxVmService=%d belong to the VM services: BlockFactory=%d, ChainService=%d)", scen, maxContext, s, MaxVmService, BlockFactory, ChainService)
		return
	}
	ownerMu.Lock()
	if owner[s] != 0 {
		ownerMu.Unlock()
		bad("%s maxContext=%d: slot %d was handed to query %d while query %d holds it", scen, maxContext, s, q.id, owner[s])
		return
	}
	owner[s] = q.id
	ownerMu.Unlock()
	querySync.Lock()
	c := contexts[s]
	querySync.Unlock()
	if c != q {
		bad("%s maxContext=%d: after allocContextSlot slot %d does not hold the query's context", scen, maxContext, s)
	}
}

func release(q *vmContext, scen string) {
	s := q.service
	if s >= MaxVmService && s < maxContext {
		ownerMu.Lock()
		if owner[s] == q.id {
			owner[s] = 0
		}
		ownerMu.Unlock()
	}
	freeContextSlot(q)
	if s < MaxVmService {
		return // (already reported at allocation)
	}
}

func setup(numCtx int, occupyServices bool) (txs []*vmContext) {
	verifInit()
	verifInitContext(numCtx)
	owner = make([]int, numCtx)
	if occupyServices {
		// what Call / Create do: contexts[ctx.service] = ctx for the execution mode of the transaction
		for s := 0; s < MaxVmService && s < numCtx; s++ {
			tx := &vmContext{service: s}
			contexts[s] = tx
			txs = append(txs, tx)
		}
	}
	return
}

func servicesUntouched(txs []*vmContext, scen string) {
	for s := 0; s < MaxVmService && s < maxContext; s++ {
		var want *vmContext
		if txs != nil {
			want = txs[s]
		}
		if contexts[s] != want {
			bad("%s maxContext=%d: service slot %d was overwritten or cleared by query slot management", scen, maxContext, s)
		}
	}
}

func main() {
	var seed uint64 = 1
	rounds := 4
	fmt.Sscan(os.Args[1], &seed)
	fmt.Sscan(os.Args[2], &rounds)
	rnd := func(n int) int {
		seed = seed*6364136223846793005 + 1442695040888963407
		return int((seed >> 33) % uint64(n))
	}
	next := 0
	newQ := func() *vmContext { next++; return &vmContext{isQuery: true, id: next} }
	sizes := []int{3, 4, 5, 6, 8, 10, 16, 3 + rnd(30)}
	allocs := 0
	for _, numCtx := range sizes {
		for _, occ := range []bool{false, true} {
			// ---- sequential, sliding window, several wrap-arounds
			scen := fmt.Sprintf("sequential(services occupied=%v)", occ)
			txs := setup(numCtx, occ)
			var held []*vmContext
			window := numCtx - MaxVmService - 1 // always leave a free query slot
			for n := 0; n < rounds*numCtx; n++ {
				q := newQ()
				acquire(q, scen)
				allocs++
				held = append(held, q)
				for len(held) > window || (len(held) > 0 && rnd(5) == 0) {
					k := 0
					if rnd(2) == 0 {
						k = rnd(len(held))
					}
					release(held[k], scen)
					held = append(held[:k], held[k+1:]...)
				}
			}
			for _, q := range held {
				release(q, scen)
			}
			servicesUntouched(txs, scen)
			for s := MaxVmService; s < numCtx; s++ {
				if contexts[s] != nil {
					bad("%s maxContext=%d: slot %d is still occupied after every query has freed its slot", scen, numCtx, s)
				}
			}
			// ---- concurrent
			scen = fmt.Sprintf("concurrent(services occupied=%v)", occ)
			txs = setup(numCtx, occ)
			var wg sync.WaitGroup
			workers := numCtx - MaxVmService // as many as there are query slots: nobody waits for long
			if workers > 6 {
				workers = 6
			}
			for w := 0; w < workers; w++ {
				wg.Add(1)
				ids := make([]*vmContext, rounds*4)
				for i := range ids {
					ids[i] = newQ()
				}
				go func(qs []*vmContext) {
					defer wg.Done()
					for _, q := range qs {
						acquire(q, scen)
						runtime.Gosched()
						release(q, scen)
					}
				}(ids)
				allocs += len(ids)
			}
			wg.Wait()
			servicesUntouched(txs, scen)
		}
		// ---- exhaustion: every query slot held; one more allocation waits and gets the slot that is freed
		if numCtx <= 6 {
			scen := "exhaustion"
			txs := setup(numCtx, true)
			var held []*vmContext
			for s := MaxVmService; s < numCtx; s++ {
				q := newQ()
				acquire(q, scen)
				held = append(held, q)
			}
			late := newQ()
			got := make(chan struct{})
			go func() { acquire(late, scen); close(got) }()
			select {
			case <-got:
				bad("%s maxContext=%d: an allocation succeeded although all %d query slots were held (slot %d)", scen, numCtx, numCtx-MaxVmService, late.service)
			case <-time.After(30 * time.Millisecond):
			}
			victim := held[rnd(len(held))]
			freed := victim.service
			release(victim, scen)
			select {
			case <-got:
				if late.service != freed {
					bad("%s maxContext=%d: the waiting allocation got slot %d, the freed slot was %d", scen, numCtx, late.service, freed)
				}
			case <-time.After(3 * time.Second):
				bad("%s maxContext=%d: the waiting allocation did not get the freed slot %d within 3 s", scen, numCtx, freed)
			}
			servicesUntouched(txs, scen)
			allocs += len(held) + 1
		}
	}
	fmt.Printf("DONE allocations=%d bad=%d\n", allocs, nbad)
}
`

type slotBuild struct {
	done chan struct{}
	bin  string
	skip string
	work string
}

// liftFuncs prints the named functions of file (and, transitively, the package-level functions of that file they call).
func liftFuncs(fset *token.FileSet, af *ast.File, names []string) (string, string) {
	decls := map[string]*ast.FuncDecl{}
	for _, d := range af.Decls {
		if fd, ok := d.(*ast.FuncDecl); ok && fd.Recv == nil {
			decls[fd.Name.Name] = fd
		}
	}
	seen := map[string]bool{}
	var order []string
	var visit func(n string) string
	visit = func(n string) string {
		if seen[n] {
			return ""
		}
		fd := decls[n]
		if fd == nil || fd.Body == nil {
			return "function " + n + " not found in vm.go"
		}
		seen[n] = true
		order = append(order, n)
		why := ""
		ast.Inspect(fd.Body, func(nd ast.Node) bool {
			if c, ok := nd.(*ast.CallExpr); ok {
				if id, ok := c.Fun.(*ast.Ident); ok && decls[id.Name] != nil && why == "" {
					why = visit(id.Name)
				}
			}
			return true
		})
		return why
	}
	for _, n := range names {
		if why := visit(n); why != "" {
			return "", why
		}
	}
	var b bytes.Buffer
	for _, n := range order {
		fd := *decls[n]
		fd.Doc = nil
		if err := printer.Fprint(&b, fset, &fd); err != nil {
			return "", err.Error()
		}
		b.WriteString("\n\n")
	}
	return b.String(), ""
}

// liftStmts prints the statements of function fn that assign one of the given package variables, as the body of a new
// function `name(params)`.
func liftStmts(fset *token.FileSet, af *ast.File, fn string, vars map[string]bool, name, params string) string {
	var b bytes.Buffer
	fmt.Fprintf(&b, "func %s(%s) {\n", name, params)
	for _, d := range af.Decls {
		fd, ok := d.(*ast.FuncDecl)
		if !ok || fd.Recv != nil || fd.Name.Name != fn || fd.Body == nil {
			continue
		}
		for _, st := range fd.Body.List {
			if as, ok := st.(*ast.AssignStmt); ok && len(as.Lhs) == 1 {
				if id, ok := as.Lhs[0].(*ast.Ident); ok && vars[id.Name] {
					b.WriteString("\t")
					printer.Fprint(&b, fset, st)
					b.WriteString("\n")
				}
			}
		}
	}
	b.WriteString("}\n\n")
	return b.String()
}

func startSlotBuild(run *vh.Run, repo string) *slotBuild {
	b := &slotBuild{done: make(chan struct{})}
	fail := func(why string) *slotBuild { b.skip = why; close(b.done); return b }
	if os.Getenv("VERIF_C20_NOSLOT") != "" {
		return fail("disabled")
	}
	work, err := filepath.Abs(filepath.Join(run.Out, "slotdrive"))
	if err != nil || os.MkdirAll(work, 0o755) != nil {
		return fail("no-scratch")
	}
	b.work = work
	fset := token.NewFileSet()
	af, err := parser.ParseFile(fset, filepath.Join(repo, "contract", "vm.go"), nil, parser.SkipObjectResolution)
	if err != nil {
		return fail("vm.go-does-not-parse")
	}
	funcs, why := liftFuncs(fset, af, []string{"allocContextSlot", "freeContextSlot"})
	if why != "" {
		os.WriteFile(filepath.Join(work, "why.txt"), []byte(why), 0o644)
		return fail("functions-not-found")
	}
	setup := liftStmts(fset, af, "init", map[string]bool{"lastQueryIndex": true}, "verifInit", "") +
		liftStmts(fset, af, "InitContext", map[string]bool{"maxContext": true, "contexts": true}, "verifInitContext", "numCtx int")
	// the const group of the VM services (contract.go)
	consts := ""
	cset := token.NewFileSet()
	if cf, err := parser.ParseFile(cset, filepath.Join(repo, "contract", "contract.go"), nil, parser.SkipObjectResolution); err == nil {
		for _, d := range cf.Decls {
			if gd, ok := d.(*ast.GenDecl); ok && gd.Tok == token.CONST {
				var cb bytes.Buffer
				printer.Fprint(&cb, cset, gd)
				if strings.Contains(cb.String(), "ChainService") {
					consts = cb.String() + "\n\n"
				}
			}
		}
	}
	if consts == "" {
		return fail("service-constants-not-found")
	}
	lifted := strings.ReplaceAll(funcs+setup, "C.int(", "int(")
	if strings.Contains(lifted, "C.") {
		os.WriteFile(filepath.Join(work, "why.txt"), []byte("cgo left in the lifted code:\n"+lifted), 0o644)
		return fail("cgo-in-slot-functions")
	}
	src := "// generated by harness/c20 (slotdrive.go)\npackage main\n\nimport (\n\t\"fmt\"\n\t\"os\"\n\t\"runtime\"\n\t\"sync\"\n\t\"time\"\n)\n\nvar _ = time.Sleep\nvar _ = runtime.Gosched\n\n" +
		"// ---- lifted from contract/contract.go\n" + consts +
		"// ---- lifted from contract/vm.go\n" + lifted + slotMainSrc
	os.WriteFile(filepath.Join(work, "main.go"), []byte(src), 0o644)
	os.WriteFile(filepath.Join(work, "go.mod"), []byte("module c20slots\n\ngo 1.21\n"), 0o644)
	bin := filepath.Join(work, "slots")
	cmd := exec.Command("go", "build", "-o", bin, ".")
	cmd.Dir = work
	env := goEnvForSubBuild()
	for i, e := range env {
		if e == "CGO_ENABLED=1" {
			env[i] = "CGO_ENABLED=0"
		}
	}
	cmd.Env = append(env, "GOWORK=off", "GOTOOLCHAIN=local")
	var outb bytes.Buffer
	cmd.Stdout, cmd.Stderr = &outb, &outb
	if err := cmd.Start(); err != nil {
		return fail("go-not-startable")
	}
	go func() {
		if err := cmd.Wait(); err != nil {
			b.skip = "build-failed"
			os.WriteFile(filepath.Join(work, "build.log"), outb.Bytes(), 0o644)
		} else {
			b.bin = bin
		}
		close(b.done)
	}()
	return b
}

func slotDrive(run *vh.Run, b *slotBuild) {
	select {
	case <-b.done:
	case <-time.After(150 * time.Second):
		run.Count("slotdrive-skipped-build-timeout")
		return
	}
	if b.skip != "" {
		run.Count("slotdrive-skipped-" + b.skip)
		return
	}
	ctx, cancel := context.WithTimeout(context.Background(), 120*time.Second)
	defer cancel()
	seed := run.Rng.Next()
	cmd := exec.CommandContext(ctx, b.bin, fmt.Sprint(seed), fmt.Sprint(run.Pick(4, 12)))
	var stdout, stderr bytes.Buffer
	cmd.Stdout, cmd.Stderr = &stdout, &stderr
	err := cmd.Run()
	out := stdout.String()
	var bads []string
	done := ""
	for _, l := range strings.Split(out, "\n") {
		if strings.HasPrefix(l, "BAD ") {
			bads = append(bads, l[4:])
		}
		if strings.HasPrefix(l, "DONE ") {
			done = l
		}
	}
	if done == "" && len(bads) == 0 {
		// a crash (index out of range in the lifted code is a finding of its own kind) or a hang
		msg := stderr.String()
		if strings.Contains(msg, "index out of range") || strings.Contains(msg, "panic:") {
			first := strings.SplitN(msg, "\n", 2)[0]
			run.Fail("allocContextSlot / freeContextSlot (lifted from contract/vm.go) crash while slots are allocated and freed: "+first,
				map[string]interface{}{"stderr": truncate(msg, 1500), "seed": seed, "program": filepath.Join(b.work, "main.go")})
			return
		}
		run.Count("slotdrive-skipped-run-failed")
		os.WriteFile(filepath.Join(b.work, "run.log"), []byte(msg+fmt.Sprint(err)), 0o644)
		return
	}
	run.Count("slotdrive-driven")
	var allocs, nb int
	fmt.Sscanf(done, "DONE allocations=%d bad=%d", &allocs, &nb)
	for i := 0; i < allocs; i += 50 {
		run.Eval(fmt.Sprintf("slot-alloc %d", i), true)
	}
	run.Count(fmt.Sprintf("slotdrive-allocations~%d00", allocs/100))
	if len(bads) > 0 {
		run.Fail("context slot management (allocContextSlot / freeContextSlot of contract/vm.go, run as they are): "+bads[0],
			map[string]interface{}{"violations": bads, "seed": seed,
				"how": "every host-API guard reads contexts[service]; Call / Create store the running transaction's context into the service slots without looking. " +
					"A query that is handed a service slot has its host calls checked against the transaction's context (isQuery false) and clears the slot when it ends",
				"program": "generated from the current tree (go/ast): const group of contract.go, allocContextSlot, freeContextSlot, the slot set-up statements of init() and InitContext"})
	}
}

func truncate(s string, n int) string {
	if len(s) > n {
		return s[:n]
	}
	return s
}
