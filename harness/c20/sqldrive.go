package main

// Round 3: the read-only SQL connection of query mode, driven on the real code.
//
// In a query / fee-delegation check `db.exec` is protected by nothing but the connection that
// contract/statesql.go: beginReadOnly -> readOnlyConn opens (`…&_query_only=true`, interpreted by the SQLite driver of
// contract/sqlite3.go: `PRAGMA query_only`).  Package contract as a whole cannot be built here (LuaJIT), but the
// statesql layer and the SQLite driver can: this file builds, with cgo, a second program whose package `contract`
// consists of the *current tree's* statesql.go, statesql_params.go, sqlite3.go (cgo LDFLAGS line rewritten to link the
// system's libsqlite3 instead of the absent litetree build), sqlite3_other.go, callback.go, error.go plus an add-only
// shim, and runs it on scenarios drawn from the run's PRNG:
//
//	seed a database through the real writable connection (conn/openDB) · open it through the real beginReadOnly ·
//	run write statements (only commands db.exec permits: INSERT UPDATE DELETE REPLACE CREATE DROP ALTER REINDEX)
//	on the raw handle getHandle() returns — what db_module.c does with it · call the transaction-control methods of
//	the read-only sqlTx · dump the database again through a fresh connection
//
// Oracle (the property): every write statement is refused with an error, the content is what it was, the
// read-only sqlTx refuses savepoint / commit / release.  Non-vacuity: the same statements through the writable
// handle succeed and change the content.
//
// Not litetree: stock SQLite ignores `branches=on` and `PRAGMA branch=…`, so recovery points are not exercised.
// The build needs a C compiler and libsqlite3; if it is impossible (or does not finish within the budget) the drive
// is skipped and counted (`sqldrive-skipped-…`): the static facts (`sql_handles`, mode Q of `all_callbacks_ok`) remain.
// Built binaries are cached by the hash of every input file.

import (
	"bytes"
	"context"
	"crypto/sha256"
	"encoding/hex"
	"encoding/json"
	"fmt"
	"os"
	"os/exec"
	"os/user"
	"path/filepath"
	"sort"
	"strings"
	"time"

	"github.com/aergoio/aergo/v2/internal/enc/base58"
	"github.com/aergoio/aergo/v2/zz_verif/vh"
)

const sqlShimSrc = `//go:build verif_c20sql

package contract

/*
#include "sqlite3-binding.h"
#include <stdlib.h>
*/
import "C"
import (
	"context"
	"fmt"
	"sort"
	"strings"
	"unsafe"
)

var _ = sort.Strings

// (contract.go is not part of this build; the one variable of it that statesql.go reads)
var maxSQLDBSize uint64 = stateSQLMinDBSize

func VerifSetup(dir string) error { return LoadTestDatabase(dir) }

func verifExecRaw(h *C.sqlite3, sql string) (int, string) {
	cs := C.CString(sql)
	defer C.free(unsafe.Pointer(cs))
	var em *C.char
	rc := C.sqlite3_exec(h, cs, nil, nil, &em)
	msg := ""
	if em != nil {
		msg = C.GoString(em)
		C.sqlite3_free(unsafe.Pointer(em))
	}
	return int(rc), msg
}

// VerifSeed runs stmts through the real writable connection (conn -> openDB) and closes it (CloseDatabase).
func VerifSeed(name string, stmts []string) error {
	db, err := conn(name)
	if err != nil {
		return err
	}
	defer CloseDatabase()
	for _, s := range stmts {
		if _, err := db.ExecContext(context.Background(), s); err != nil {
			return fmt.Errorf("%s: %v", s, err)
		}
	}
	return nil
}

// VerifWritableTrial: each statement on its own on the raw handle of the writable connection, inside a savepoint that
// is rolled back: return code, and whether the statement changed the content (which statements of the scenario are
// effective writes; non-vacuity of the scenario).
func VerifWritableTrial(name string, stmts []string) (rcs []int, changed []bool) {
	db, err := conn(name)
	if err != nil {
		return nil, nil
	}
	defer CloseDatabase()
	base, err := verifDumpOn(db)
	if err != nil {
		return nil, nil
	}
	for _, s := range stmts {
		verifExecRaw(db.conn.db, "SAVEPOINT veriftrial")
		rc, _ := verifExecRaw(db.conn.db, s)
		after, err := verifDumpOn(db)
		verifExecRaw(db.conn.db, "ROLLBACK TO veriftrial")
		verifExecRaw(db.conn.db, "RELEASE veriftrial")
		rcs = append(rcs, rc)
		changed = append(changed, err == nil && after != base)
	}
	return
}

// VerifDump: logical content (schema + all rows of all tables), through a fresh writable connection.
func VerifDump(name string) (string, error) {
	db, err := conn(name)
	if err != nil {
		return "", err
	}
	defer CloseDatabase()
	return verifDumpOn(db)
}

func verifDumpOn(db *litetree) (string, error) {
	ctx := context.Background()
	rows, err := db.QueryContext(ctx, "select type, name, coalesce(sql,'') from sqlite_master order by type, name")
	if err != nil {
		return "", err
	}
	var b strings.Builder
	var tables []string
	for rows.Next() {
		var t, n, s string
		if err := rows.Scan(&t, &n, &s); err != nil {
			rows.Close()
			return "", err
		}
		fmt.Fprintf(&b, "%s|%s|%s\n", t, n, s)
		if t == "table" {
			tables = append(tables, n)
		}
	}
	rows.Close()
	sort.Strings(tables)
	for _, t := range tables {
		rs, err := db.QueryContext(ctx, "select * from \""+t+"\" order by rowid")
		if err != nil {
			return "", err
		}
		cols, _ := rs.Columns()
		for rs.Next() {
			vals := make([]interface{}, len(cols))
			ptrs := make([]interface{}, len(cols))
			for i := range vals {
				ptrs[i] = &vals[i]
			}
			if err := rs.Scan(ptrs...); err != nil {
				rs.Close()
				return "", err
			}
			fmt.Fprintf(&b, "%s:%v\n", t, vals)
		}
		rs.Close()
	}
	return b.String(), nil
}

type VerifTx struct{ tx sqlTx }

// VerifBeginReadOnly is the real beginReadOnly (what luaGetDbHandle calls when ctx.isQuery).
func VerifBeginReadOnly(name string, rp uint64) (*VerifTx, error) {
	tx, err := beginReadOnly(name, rp)
	if err != nil {
		return nil, err
	}
	return &VerifTx{tx}, nil
}

// Exec runs sql on the handle the db module gets from getHandle().
func (t *VerifTx) Exec(sql string) (int, string) { return verifExecRaw(t.tx.getHandle(), sql) }

func verifErr(e error) string {
	if e == nil {
		return ""
	}
	return e.Error()
}

// Control calls the transaction-control methods of the sqlTx in the order luaGetDbHandle / recovery points use them.
func (t *VerifTx) Control() map[string]string {
	return map[string]string{"savepoint": verifErr(t.tx.savepoint()), "release": verifErr(t.tx.release()),
		"commit": verifErr(t.tx.commit()), "begin": verifErr(t.tx.begin()), "subSavepoint": verifErr(t.tx.subSavepoint("s1")),
		"subRelease": verifErr(t.tx.subRelease("s1")), "rollbackToSubSavepoint": verifErr(t.tx.rollbackToSubSavepoint("s1"))}
}

func (t *VerifTx) Close() error { return t.tx.rollback() }
`

const sqlMainSrc = `//go:build verif_c20sql

package main

import (
	"encoding/json"
	"fmt"
	"os"

	c "github.com/aergoio/aergo/v2/contract"
)

type scenario struct {
	Name   string   ` + "`json:\"name\"`" + `
	Rp     uint64   ` + "`json:\"rp\"`" + `
	Seed   []string ` + "`json:\"seed\"`" + `
	Writes []string ` + "`json:\"writes\"`" + `
	Reads  []string ` + "`json:\"reads\"`" + `
}

type attempt struct {
	SQL string ` + "`json:\"sql\"`" + `
	Rc  int    ` + "`json:\"rc\"`" + `
	Msg string ` + "`json:\"msg\"`" + `
}

type result struct {
	Name     string            ` + "`json:\"name\"`" + `
	Err      string            ` + "`json:\"err\"`" + `
	Before   string            ` + "`json:\"before\"`" + `
	After    string            ` + "`json:\"after\"`" + `
	Writes   []attempt         ` + "`json:\"writes\"`" + `
	Reads    []attempt         ` + "`json:\"reads\"`" + `
	Control  map[string]string ` + "`json:\"control\"`" + `
	RwRc     []int             ` + "`json:\"rw_rc\"`" + `
	RwChanged []bool           ` + "`json:\"rw_changed\"`" + `
}

func main() {
	var scs []scenario
	raw, err := os.ReadFile(os.Args[2])
	if err != nil {
		panic(err)
	}
	if err := json.Unmarshal(raw, &scs); err != nil {
		panic(err)
	}
	if err := c.VerifSetup(os.Args[1]); err != nil {
		panic(err)
	}
	var out []result
	for _, s := range scs {
		r := result{Name: s.Name}
		func() {
			defer func() {
				if e := recover(); e != nil {
					r.Err = fmt.Sprint("panic: ", e)
				}
			}()
			if err := c.VerifSeed(s.Name, s.Seed); err != nil {
				r.Err = "seed: " + err.Error()
				return
			}
			var err error
			if r.Before, err = c.VerifDump(s.Name); err != nil {
				r.Err = "dump: " + err.Error()
				return
			}
			// which of the statements are effective writes: each one alone through the writable handle, rolled back
			r.RwRc, r.RwChanged = c.VerifWritableTrial(s.Name, s.Writes)
			if again, err := c.VerifDump(s.Name); err != nil || again != r.Before {
				r.Err = "trial: the rolled-back trial run changed the database"
				return
			}
			tx, err := c.VerifBeginReadOnly(s.Name, s.Rp)
			if err != nil {
				r.Err = "beginReadOnly: " + err.Error()
				return
			}
			for _, q := range s.Reads {
				rc, msg := tx.Exec(q)
				r.Reads = append(r.Reads, attempt{q, rc, msg})
			}
			for _, q := range s.Writes {
				rc, msg := tx.Exec(q)
				r.Writes = append(r.Writes, attempt{q, rc, msg})
			}
			r.Control = tx.Control()
			for _, q := range s.Writes[:len(s.Writes)/2] { // once more after the control calls
				rc, msg := tx.Exec(q)
				r.Writes = append(r.Writes, attempt{q, rc, msg})
			}
			_ = tx.Close()
			if r.After, err = c.VerifDump(s.Name); err != nil {
				r.Err = "dump after: " + err.Error()
				return
			}
		}()
		out = append(out, r)
	}
	b, _ := json.Marshal(out)
	os.Stdout.Write(b)
}
`

type sqlScenario struct {
	Name   string   `json:"name"`
	Rp     uint64   `json:"rp"`
	Seed   []string `json:"seed"`
	Writes []string `json:"writes"`
	Reads  []string `json:"reads"`
}

type sqlAttempt struct {
	SQL string `json:"sql"`
	Rc  int    `json:"rc"`
	Msg string `json:"msg"`
}

type sqlResult struct {
	Name      string            `json:"name"`
	Err       string            `json:"err"`
	Before    string            `json:"before"`
	After     string            `json:"after"`
	Writes    []sqlAttempt      `json:"writes"`
	Reads     []sqlAttempt      `json:"reads"`
	Control   map[string]string `json:"control"`
	RwRc      []int             `json:"rw_rc"`
	RwChanged []bool            `json:"rw_changed"`
}

var sqlKeep = map[string]bool{"statesql.go": true, "statesql_params.go": true, "sqlite3_other.go": true, "callback.go": true, "error.go": true}

type sqlBuild struct {
	done chan struct{}
	bin  string
	skip string // reason the drive is skipped ("" = binary ready)
	cmd  *exec.Cmd
}

func goEnvForSubBuild() []string {
	home := ""
	if u, err := user.Current(); err == nil {
		home = u.HomeDir
	}
	if _, err := os.Stat(filepath.Join(home, "go", "pkg", "mod")); err != nil {
		home = "/root"
	}
	env := []string{}
	for _, e := range os.Environ() {
		k := strings.SplitN(e, "=", 2)[0]
		switch k {
		case "HOME", "GOFLAGS", "GOPROXY", "CGO_ENABLED", "GOPATH", "GOCACHE", "GOMODCACHE", "CGO_CFLAGS", "CGO_LDFLAGS":
			continue
		}
		env = append(env, e)
	}
	gopath := env20("VERIF_GOPATH", filepath.Join(home, "go"))
	return append(env, "HOME="+home, "GOFLAGS=-mod=mod", "GOPROXY=off", "CGO_ENABLED=1", "GOPATH="+gopath,
		"GOMODCACHE="+filepath.Join(gopath, "pkg", "mod"), "GOCACHE="+env20("VERIF_GOCACHE", filepath.Join(home, ".cache", "go-build")))
}

func env20(k, d string) string {
	if v := os.Getenv(k); v != "" {
		return v
	}
	return d
}

// startSQLBuild prepares the overlay and starts `go build` (or finds the cached binary); non-blocking.
func startSQLBuild(run *vh.Run, repo string) *sqlBuild {
	b := &sqlBuild{done: make(chan struct{})}
	fail := func(why string) *sqlBuild {
		b.skip = why
		close(b.done)
		return b
	}
	if os.Getenv("VERIF_C20_NOSQL") != "" {
		return fail("disabled")
	}
	work, err := filepath.Abs(filepath.Join(run.Out, "sqldrive"))
	if err != nil {
		return fail("no-scratch")
	}
	os.MkdirAll(work, 0o755)
	cdir := filepath.Join(repo, "contract")
	ents, err := os.ReadDir(cdir)
	if err != nil {
		return fail("no-contract-dir")
	}
	rep := map[string]string{}
	h := sha256.New()
	addHash := func(name string, data []byte) { fmt.Fprintf(h, "%s %d\n", name, len(data)); h.Write(data) }
	for _, e := range ents {
		n := e.Name()
		p := filepath.Join(cdir, n)
		if e.IsDir() {
			continue
		}
		if sqlKeep[n] || strings.HasSuffix(n, ".h") {
			if data, err := os.ReadFile(p); err == nil {
				addHash(n, data)
			}
			continue
		}
		if n == "sqlite3.go" {
			src, err := os.ReadFile(p)
			if err != nil {
				return fail("no-sqlite3.go")
			}
			// link the system's SQLite instead of the litetree build (absent here); nothing else is touched
			lines := strings.Split(string(src), "\n")
			hit := 0
			for i, l := range lines {
				if strings.HasPrefix(l, "#cgo LDFLAGS:") && strings.Contains(l, "liblmdb.a") {
					lines[i] = "#cgo LDFLAGS: -lsqlite3 -lm"
					hit++
				}
			}
			if hit != 1 {
				return fail("sqlite3.go-ldflags-line-not-found")
			}
			out := filepath.Join(work, "sqlite3.go")
			data := []byte(strings.Join(lines, "\n"))
			if err := os.WriteFile(out, data, 0o644); err != nil {
				return fail("no-scratch")
			}
			rep[p] = out
			addHash(n, data)
			continue
		}
		if strings.HasSuffix(n, ".go") || strings.HasSuffix(n, ".c") || strings.HasSuffix(n, ".lua") {
			rep[p] = ""
		}
	}
	shim, mainf := filepath.Join(work, "shim.go"), filepath.Join(work, "main.go")
	os.WriteFile(shim, []byte(sqlShimSrc), 0o644)
	os.WriteFile(mainf, []byte(sqlMainSrc), 0o644)
	rep[filepath.Join(cdir, "zz_verif_c20sql.go")] = shim
	rep[filepath.Join(repo, "zz_verif", "c20sqlmain", "main.go")] = mainf
	addHash("shim", []byte(sqlShimSrc))
	addHash("main", []byte(sqlMainSrc))
	for _, f := range []string{"go.mod", "go.sum"} {
		if data, err := os.ReadFile(filepath.Join(repo, f)); err == nil {
			addHash(f, data)
		}
	}
	ov, _ := json.Marshal(map[string]interface{}{"Replace": rep})
	ovPath := filepath.Join(work, "overlay.json")
	os.WriteFile(ovPath, ov, 0o644)
	key := hex.EncodeToString(h.Sum(nil))[:24]
	cache := env20("VERIF_C20_CACHE", "/var/tmp/verif-c20-sqlcache")
	cached := filepath.Join(cache, key, "sqlmain")
	if st, err := os.Stat(cached); err == nil && st.Size() > 0 {
		b.bin = cached
		run.Count("sqldrive-binary-cached")
		close(b.done)
		return b
	}
	bin := filepath.Join(work, "sqlmain")
	cmd := exec.Command("go", "build", "-trimpath", "-tags", "verif_c20sql", "-overlay", ovPath, "-o", bin, "./zz_verif/c20sqlmain")
	cmd.Dir = repo
	cmd.Env = goEnvForSubBuild()
	var outb bytes.Buffer
	cmd.Stdout, cmd.Stderr = &outb, &outb
	if err := cmd.Start(); err != nil {
		return fail("go-not-startable")
	}
	b.cmd = cmd
	go func() {
		err := cmd.Wait()
		if err != nil {
			b.skip = "build-failed"
			os.WriteFile(filepath.Join(work, "build.log"), outb.Bytes(), 0o644)
		} else {
			b.bin = bin
			// publish to the cache (best effort, atomically)
			if os.MkdirAll(filepath.Join(cache, key), 0o755) == nil {
				if data, err := os.ReadFile(bin); err == nil {
					tmp := cached + fmt.Sprintf(".tmp%d", os.Getpid())
					if os.WriteFile(tmp, data, 0o755) == nil {
						os.Rename(tmp, cached)
					}
					pruneSQLCache(cache, 6)
				}
			}
		}
		close(b.done)
	}()
	return b
}

// pruneSQLCache keeps the newest `keep` cached binaries.
func pruneSQLCache(cache string, keep int) {
	ents, err := os.ReadDir(cache)
	if err != nil {
		return
	}
	type ent struct {
		name string
		t    time.Time
	}
	var l []ent
	for _, e := range ents {
		if info, err := e.Info(); err == nil && e.IsDir() {
			l = append(l, ent{e.Name(), info.ModTime()})
		}
	}
	sort.Slice(l, func(i, j int) bool { return l[i].t.After(l[j].t) })
	for i := keep; i < len(l); i++ {
		os.RemoveAll(filepath.Join(cache, l[i].name))
	}
}

func sqlScenarios(run *vh.Run) []sqlScenario {
	rng := run.Rng
	n := run.Pick(3, 10)
	var out []sqlScenario
	for i := 0; i < n; i++ {
		// (the connect hook of the writable driver decodes the name as base58: an account id, as in the real code)
		// recovery point 1 only: `pragma branch=master.N` is litetree syntax, stock SQLite cannot parse it, and snapshotView
		// ignores the error for rp == 1 (a database without commits yet)
		sc := sqlScenario{Name: base58.Encode(rng.Bytes(32)), Rp: 1}
		nt := 1 + rng.Intn(3)
		for t := 0; t < nt; t++ {
			sc.Seed = append(sc.Seed, fmt.Sprintf("create table t%d(a integer primary key, b text, c)", t))
			for r := 0; r < 1+rng.Intn(5); r++ {
				sc.Seed = append(sc.Seed, fmt.Sprintf("insert into t%d values (%d, 'v%x', %d)", t, r+1, rng.Bytes(3), rng.Intn(1000)))
			}
			if rng.Bool() {
				sc.Seed = append(sc.Seed, fmt.Sprintf("create index ix%d on t%d(b)", t, t))
			}
		}
		t := rng.Intn(nt)
		all := []string{
			fmt.Sprintf("INSERT INTO t%d VALUES (%d, 'new', 1)", t, 100+rng.Intn(100)),
			fmt.Sprintf("insert into t%d(b, c) values ('x%x', 2)", t, rng.Bytes(2)),
			fmt.Sprintf("UPDATE t%d SET c = c + 1", t),
			fmt.Sprintf("update t%d set b = 'changed' where a = 1", t),
			fmt.Sprintf("DELETE FROM t%d", t),
			fmt.Sprintf("delete from t%d where a = 1", t),
			fmt.Sprintf("REPLACE INTO t%d VALUES (1, 'replaced', 0)", t),
			fmt.Sprintf("insert or replace into t%d values (1, 'r2', 0)", t),
			fmt.Sprintf("CREATE TABLE n%x(x)", rng.Bytes(3)),
			fmt.Sprintf("create index nix%x on t%d(c)", rng.Bytes(3), t),
			fmt.Sprintf("DROP TABLE t%d", t),
			fmt.Sprintf("ALTER TABLE t%d ADD COLUMN d", t),
			fmt.Sprintf("alter table t%d rename to r%x", t, rng.Bytes(3)),
			fmt.Sprintf("create view v%x as select * from t%d", rng.Bytes(3), t),
			fmt.Sprintf("create trigger g%x after insert on t%d begin delete from t%d; end", rng.Bytes(3), t, t),
			"REINDEX",
			fmt.Sprintf("insert into t%d select a + 1000, b, c from t%d", t, t),
			fmt.Sprintf("with x(a) as (select 5000) insert into t%d select a, 'cte', 0 from x", t),
			fmt.Sprintf("update t%d set c = 7; delete from t%d", t, t),
		}
		// a random non-empty subset, in random order
		for _, j := range permC20(rng, len(all)) {
			if len(sc.Writes) == 0 || rng.Intn(3) != 0 {
				sc.Writes = append(sc.Writes, all[j])
			}
		}
		sc.Reads = []string{fmt.Sprintf("select count(*) from t%d", t), "select name from sqlite_master"}
		out = append(out, sc)
	}
	return out
}

func permC20(rng *vh.Rng, n int) []int {
	p := make([]int, n)
	for i := range p {
		p[i] = i
	}
	for i := n - 1; i > 0; i-- {
		j := rng.Intn(i + 1)
		p[i], p[j] = p[j], p[i]
	}
	return p
}

// sqlDrive waits for the binary (within the budget), runs the scenarios and evaluates the oracle.
func sqlDrive(run *vh.Run, b *sqlBuild, scs []sqlScenario) {
	budget := time.Duration(run.Pick(200, 600)) * time.Second
	if v := os.Getenv("VERIF_C20_SQLBUDGET"); v != "" {
		if d, err := time.ParseDuration(v); err == nil {
			budget = d
		}
	}
	select {
	case <-b.done:
	case <-time.After(budget):
		if b.cmd != nil && b.cmd.Process != nil {
			b.cmd.Process.Kill()
		}
		run.Count("sqldrive-skipped-build-timeout")
		return
	}
	if b.skip != "" {
		run.Count("sqldrive-skipped-" + b.skip)
		return
	}
	work, _ := filepath.Abs(filepath.Join(run.Out, "sqldrive"))
	data := filepath.Join(work, "data")
	os.RemoveAll(data)
	os.MkdirAll(data, 0o755)
	spec := filepath.Join(work, "scenarios.json")
	js, _ := json.Marshal(scs)
	os.WriteFile(spec, js, 0o644)
	ctx, cancel := context.WithTimeout(context.Background(), 120*time.Second)
	defer cancel()
	cmd := exec.CommandContext(ctx, b.bin, data, spec)
	var stdout, stderr bytes.Buffer
	cmd.Stdout, cmd.Stderr = &stdout, &stderr
	if err := cmd.Run(); err != nil {
		run.Count("sqldrive-skipped-run-failed")
		os.WriteFile(filepath.Join(work, "run.log"), append(stderr.Bytes(), []byte(err.Error())...), 0o644)
		return
	}
	var res []sqlResult
	if err := json.Unmarshal(stdout.Bytes(), &res); err != nil {
		run.Count("sqldrive-skipped-bad-output")
		return
	}
	byName := map[string]sqlScenario{}
	for _, s := range scs {
		byName[s.Name] = s
	}
	for _, r := range res {
		sc := byName[r.Name]
		replay := map[string]interface{}{"database": r.Name, "seed_statements": sc.Seed, "recovery_point": sc.Rp,
			"how": "real contract/statesql.go + contract/sqlite3.go of this tree linked against the system SQLite: seed through conn(), then beginReadOnly(name, rp) " +
				"and sqlite3_exec on getHandle()"}
		if r.Err != "" {
			run.Count("sqldrive-scenario-error")
			if strings.HasPrefix(r.Err, "beginReadOnly") || strings.HasPrefix(r.Err, "panic") {
				// opening the read-only connection failing is not a state change; count it (visible in the distribution)
				run.Count("sqldrive-readonly-open-failed")
			}
			continue
		}
		run.Count("sqldrive-scenario")
		// a statement is an effective write if, on its own through the writable handle, it changes the content
		effective := map[string]bool{}
		for i, q := range sc.Writes {
			if i < len(r.RwChanged) && r.RwChanged[i] {
				effective[q] = true
			}
		}
		accepted := []string{}
		for _, a := range r.Writes {
			run.Eval("sqlwrite "+a.SQL, true)
			switch {
			case a.Rc != 0:
				run.Count("sqldrive-write-refused")
			case effective[a.SQL]:
				accepted = append(accepted, a.SQL)
			default:
				run.Count("sqldrive-accepted-but-changes-nothing") // e.g. REINDEX without an index, DELETE matching no row
			}
		}
		if len(accepted) > 0 {
			replay["accepted"] = accepted
			run.Fail(fmt.Sprintf("the SQL handle that beginReadOnly hands to a query accepted %d write statement(s) without an error, e.g. %q", len(accepted), accepted[0]), replay)
		}
		if r.Before != r.After {
			replay["before"], replay["after"] = r.Before, r.After
			run.Fail("SQL data changed through the read-only handle of a query (database "+r.Name+")", replay)
		}
		var ctl []string
		for _, m := range []string{"savepoint", "release", "commit"} {
			if r.Control[m] == "" {
				ctl = append(ctl, m)
			}
		}
		sort.Strings(ctl)
		if len(ctl) > 0 {
			replay["control"] = r.Control
			run.Fail("the read-only sqlTx of query mode accepts "+strings.Join(ctl, ", ")+" without an error", replay)
		}
		for _, a := range r.Reads {
			if a.Rc == 0 {
				run.Count("sqldrive-read-ok")
			} else {
				run.Count("sqldrive-read-failed")
			}
		}
		if len(effective) > 0 {
			run.Count("sqldrive-nonvacuous(writable-handle-changes-data)")
			for range effective {
				run.Count("sqldrive-effective-write-statement")
			}
		} else {
			run.Count("sqldrive-vacuous-scenario")
		}
	}
}
