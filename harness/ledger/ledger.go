// Package ledger: the correspondence harness shared by C01 (ledger conservation) and C03 (transaction
// atomicity). Injected at /repo/zz_verif/ledger by the build overlay; harness/c01 and harness/c03 are thin
// mains.
//
// It drives the REAL code in-process:
//
//	chain.NewTxExecutor (snapshot, executeTx, rollback)   producer loop, one tx at a time
//	chain.SendBlockReward as decorated by DPoS             sendVotingReward + sendRewardCoinbase
//	BlockState.Update / Commit, ChainStateDB.UpdateRoot    block commit
//	chain.blockExecutor.execute (shim VerifC01RunBlock)    validator: the produced block and broken variants
//
// on a real StateDB (memorydb) and, for every operation, writes the operation line for the Lean model
// driver plus the canonical dump of everything the real state shows afterwards. The oracles evaluate the
// properties on the implementation directly:
//
//	C01  Σ balances (+ BpReward) is the same before and after every tx; per block Σ over a full trie dump
//	     (StateDB.RawDump) is unchanged with a coinbase and shrinks by exactly Σ receipt fees without one.
//	C03  after every tx the full-state diff is classified against the receipt / error: success = the
//	     intended effects of that tx type (an independent, copy-free reference), ERROR = fee + nonce
//	     only, rejected = nothing; a refused block leaves root and every account unchanged.
package ledger

import (
	"bytes"
	"context"
	"encoding/hex"
	"encoding/json"
	"fmt"
	"math/big"
	"os"
	"sort"
	"strconv"
	"strings"

	"github.com/aergoio/aergo-lib/db"
	"github.com/aergoio/aergo/v2/account/key"
	"github.com/aergoio/aergo/v2/chain"
	"github.com/aergoio/aergo/v2/config"
	"github.com/aergoio/aergo/v2/consensus"
	"github.com/aergoio/aergo/v2/consensus/impl/dpos"
	"github.com/aergoio/aergo/v2/contract"
	"github.com/aergoio/aergo/v2/contract/name"
	"github.com/aergoio/aergo/v2/contract/system"
	"github.com/aergoio/aergo/v2/fee"
	"github.com/aergoio/aergo/v2/internal/common"
	"github.com/aergoio/aergo/v2/state"
	"github.com/aergoio/aergo/v2/state/statedb"
	"github.com/aergoio/aergo/v2/types"
	"github.com/aergoio/aergo/v2/types/dbkey"
	"github.com/aergoio/aergo/v2/zz_verif/vh"
	"github.com/btcsuite/btcd/btcec/v2"
	"github.com/rs/zerolog"
)

// ---------------------------------------------------------------- addresses

const (
	iSystem     = 0
	iName       = 1
	iVault      = 2
	iEnterprise = 3
	iCoinbase   = 8
	iUser0      = 10
	nUsers      = 5
	iGhost0     = 20
	nGhosts     = 3
	iContract0  = 100
	nKeys       = 4 // storage key universe k0..k3
	nNames      = 3 // names n1..n3 (n0 = "aergo.name")
)

type table struct {
	addr map[int][]byte
	idx  map[string]int
	next int
	keys map[int]*btcec.PrivateKey // users, ghosts, coinbase: real secp256k1 keys (addresses = public keys)
}

func newTable() *table {
	t := &table{addr: map[int][]byte{}, idx: map[string]int{}, next: iContract0, keys: map[int]*btcec.PrivateKey{}}
	t.set(iSystem, []byte(types.AergoSystem))
	t.set(iName, []byte(types.AergoName))
	t.set(iVault, []byte(types.AergoVault))
	t.set(iEnterprise, []byte(types.AergoEnterprise))
	r := vh.NewRng(20260922) // fixed addresses: replays name accounts by index
	mk := func(i int) {
		k, _ := btcec.PrivKeyFromBytes(r.Bytes(32))
		t.keys[i] = k
		t.set(i, k.PubKey().SerializeCompressed())
	}
	mk(iCoinbase)
	for i := 0; i < nUsers; i++ {
		mk(iUser0 + i)
	}
	for i := 0; i < nGhosts; i++ {
		mk(iGhost0 + i)
	}
	return t
}

func (t *table) set(i int, a []byte) { t.addr[i] = a; t.idx[string(a)] = i }

func (t *table) of(a []byte) int {
	if i, ok := t.idx[string(a)]; ok {
		return i
	}
	i := t.next
	t.next++
	t.set(i, append([]byte{}, a...))
	return i
}

func (t *table) sorted() []int {
	ks := make([]int, 0, len(t.addr))
	for k := range t.addr {
		ks = append(ks, k)
	}
	sort.Ints(ks)
	return ks
}

func nameStr(n int) string {
	if n == 0 {
		return types.AergoName
	}
	return fmt.Sprintf("name%08d", n)
}

// ---------------------------------------------------------------- snapshots of the real state

type acct struct {
	bal   *big.Int
	nonce uint64
	code  bool
	// observed but not part of the model's world: which code (hash in the account record, hash of the blob
	// GetCode returns), the SQL recovery point
	codeHash string
	codeSum  string
	sqlrp    uint64
}

type stk struct {
	amt  *big.Int
	when uint64
}

type snap struct {
	accts   map[int]acct
	stor    map[int]map[int]int
	creator map[int]int
	staking map[int]stk
	total   *big.Int
	voted   map[int]bool
	names   map[int][2]int
	bp      *big.Int
	nrec    int
	// observed but not part of the model's world: the BP-vote tally (aergo.system's sorted vote list) and
	// each voter's own vote record (amount, candidates)
	tally   map[string]string
	voteAmt map[int]string
	voteFor map[int]string
}

func (s *snap) clone() *snap {
	c := &snap{accts: map[int]acct{}, stor: map[int]map[int]int{}, creator: map[int]int{}, staking: map[int]stk{},
		total: new(big.Int).Set(s.total), voted: map[int]bool{}, names: map[int][2]int{}, bp: new(big.Int).Set(s.bp), nrec: s.nrec,
		tally: map[string]string{}, voteAmt: map[int]string{}, voteFor: map[int]string{}}
	for k, v := range s.accts {
		c.accts[k] = acct{new(big.Int).Set(v.bal), v.nonce, v.code, v.codeHash, v.codeSum, v.sqlrp}
	}
	for k, v := range s.tally {
		c.tally[k] = v
	}
	for k, v := range s.voteAmt {
		c.voteAmt[k] = v
	}
	for k, v := range s.voteFor {
		c.voteFor[k] = v
	}
	for k, m := range s.stor {
		c.stor[k] = map[int]int{}
		for a, b := range m {
			c.stor[k][a] = b
		}
	}
	for k, v := range s.creator {
		c.creator[k] = v
	}
	for k, v := range s.staking {
		c.staking[k] = stk{new(big.Int).Set(v.amt), v.when}
	}
	for k, v := range s.voted {
		c.voted[k] = v
	}
	for k, v := range s.names {
		c.names[k] = v
	}
	return c
}

func (s *snap) sum() *big.Int {
	t := new(big.Int)
	for _, a := range s.accts {
		t.Add(t, a.bal)
	}
	return t
}

func sortedKeys[V any](m map[int]V) []int {
	ks := make([]int, 0, len(m))
	for k := range m {
		ks = append(ks, k)
	}
	sort.Ints(ks)
	return ks
}

// dump: the canonical line, identical to Aergo.Ledger.Drv.dump; bp = BpReward still to be counted.
func (s *snap) dump(bp *big.Int) string {
	var p []string
	for _, i := range sortedKeys(s.accts) {
		a := s.accts[i]
		c := "-"
		if a.code {
			c = "c"
		}
		p = append(p, fmt.Sprintf("a%d:%s:%d:%s", i, a.bal, a.nonce, c))
	}
	for _, i := range sortedKeys(s.stor) {
		m := s.stor[i]
		if len(m) == 0 {
			continue
		}
		var kv []string
		for _, k := range sortedKeys(m) {
			kv = append(kv, fmt.Sprintf("%d=%d", k, m[k]))
		}
		p = append(p, fmt.Sprintf("s%d[%s]", i, strings.Join(kv, ",")))
	}
	for _, i := range sortedKeys(s.creator) {
		p = append(p, fmt.Sprintf("c%d=%d", i, s.creator[i]))
	}
	for _, i := range sortedKeys(s.staking) {
		p = append(p, fmt.Sprintf("k%d=%s@%d", i, s.staking[i].amt, s.staking[i].when))
	}
	p = append(p, "T="+s.total.String())
	for _, i := range sortedKeys(s.voted) {
		p = append(p, fmt.Sprintf("v%d", i))
	}
	for _, i := range sortedKeys(s.names) {
		p = append(p, fmt.Sprintf("n%d=%d,%d", i, s.names[i][0], s.names[i][1]))
	}
	p = append(p, "S="+new(big.Int).Add(s.sum(), bp).String())
	return strings.Join(p, " ")
}

// equalState compares everything except bp/nrec.
func (s *snap) equalState(o *snap) bool {
	z := new(big.Int)
	return s.dump(z) == o.dump(z)
}

// ---------------------------------------------------------------- session

type cfg struct {
	fv         int32
	public     bool // public network <=> fees charged (chain.Init: !pubNet -> fee.EnableZeroFee)
	gasPrice   *big.Int
	namePrice  *big.Int
	stakingMin *big.Int
}

type session struct {
	run     *vh.Run
	prop    string
	rng     *vh.Rng
	t       *table
	sdb     *state.ChainStateDB
	cfg     cfg
	chainID []byte
	blockNo uint64
	prev    []byte
	dir     string
	hist    []string // op lines of this session (replay)
	aborted bool
	knownInBlock string
	seenContracts []int
	staged  map[int]bool // contracts whose storage was staged by a successful tx of the current block
	ts      int64
	node    *chain.ChainService // what the real newBlockExecutor needs (shim VerifC01Node)
	vnode   *chain.ChainService // the same with BlockValidator.verbose (verify mode)
}

var knownSeen = map[string]int{}

type stubCcc struct{}

func (stubCcc) MakeConfChangeProposal(req *types.MembershipChange) (*consensus.ConfChangePropose, error) {
	return nil, consensus.ErrorMembershipChangeSkip
}

// stubCons satisfies consensus.ChainConsensus for the ChainService literal the real newBlockExecutor reads
// (it only hands it to NewTxExecutor as the ChainConsensusCluster).
type stubCons struct{ stubCcc }

func (stubCons) GetType() consensus.ConsensusType                      { return consensus.ConsensusDPOS }
func (stubCons) IsTransactionValid(tx *types.Tx) bool                  { return true }
func (stubCons) VerifyTimestamp(block *types.Block) bool               { return true }
func (stubCons) VerifySign(block *types.Block) error                   { return nil }
func (stubCons) IsBlockValid(block *types.Block, best *types.Block) error { return nil }
func (stubCons) Update(block *types.Block)                             {}
func (stubCons) Save(tx consensus.TxWriter) error                      { return nil }
func (stubCons) NeedReorganization(rootNo types.BlockNo) bool          { return true }
func (stubCons) NeedNotify() bool                                      { return false }
func (stubCons) HasWAL() bool                                          { return false }
func (stubCons) IsConnectedBlock(block *types.Block) bool              { return false }
func (stubCons) IsForkEnable() bool                                    { return true }
func (stubCons) Info() string                                          { return "stub" }

func b2i(b bool) int {
	if b {
		return 1
	}
	return 0
}

func (s *session) op(line, impl string, nontrivial bool) {
	s.hist = append(s.hist, line+" => "+impl)
	s.run.Op(line, impl, nontrivial)
}

func (s *session) replay(extra ...string) map[string]interface{} {
	h := s.hist
	if len(h) > 60 {
		h = append(append([]string{}, h[:12]...), append([]string{"…"}, h[len(h)-40:]...)...)
	}
	return map[string]interface{}{"session": h, "detail": extra}
}

// fail reports a violation of this harness' own property only (C01: conservation, C03: atomicity).
func (s *session) fail(prop, what, class string, extra ...string) {
	s.run.Count("oracle-" + prop + "-" + map[bool]string{true: "known:" + class, false: "unclassified"}[class != ""])
	if prop != s.prop {
		return
	}
	if class != "" {
		// a known class is reported a few times only, so that it cannot crowd a different violation
		// out of the bounded failure list
		knownSeen[class]++
		if knownSeen[class] > 2 {
			return
		}
		s.run.FailKnown(what, prop+"-"+class, s.replay(extra...))
	} else {
		s.run.Fail(what, s.replay(extra...))
	}
}

func newSession(run *vh.Run, prop string, rng *vh.Rng, c cfg, n int) *session {
	s := &session{run: run, prop: prop, rng: rng, t: newTable(), cfg: c, blockNo: 1, ts: 1700000000000000000}
	s.dir = fmt.Sprintf("%s/sdb%d", run.Out, n)
	s.sdb = state.NewChainStateDB()
	if err := s.sdb.Init(string(db.MemoryImpl), s.dir, nil, false, nil); err != nil {
		panic(err)
	}
	g := types.GetTestGenesis()
	g.ID.PublicNet = c.public
	g.ID.Consensus = "dpos"
	cid, _ := g.ID.Bytes()
	s.chainID = cid
	s.prev = common.Hasher([]byte(fmt.Sprintf("genesis-%d", n)))

	types.InitGovernance("dpos", c.public)
	consensus.SetCurConsensus("dpos")
	chain.VerifC01SetPublic(c.public)
	if c.public {
		fee.DisableZeroFee()
	} else {
		fee.EnableZeroFee()
	}
	// system parameters in aergo.system's storage, then the node's loader
	bs := s.sdb.NewBlockState(s.sdb.GetRoot())
	scs, err := statedb.GetSystemAccountState(bs.StateDB)
	if err != nil {
		panic(err)
	}
	scs.SetData(dbkey.SystemParam("STAKINGMIN"), c.stakingMin.Bytes())
	scs.SetData(dbkey.SystemParam("GASPRICE"), c.gasPrice.Bytes())
	scs.SetData(dbkey.SystemParam("NAMEPRICE"), c.namePrice.Bytes())
	if err := statedb.StageContractState(scs, bs.StateDB); err != nil {
		panic(err)
	}
	if err := s.sdb.Apply(bs); err != nil {
		panic(err)
	}
	s.node = chain.VerifC01Node(s.sdb, stubCons{}, s.hf(), false)
	s.vnode = chain.VerifC01Node(s.sdb, stubCons{}, s.hf(), true)
	s.reloadGlobals()
	if system.GetGasPrice().Cmp(c.gasPrice) != 0 || system.GetNamePrice().Cmp(c.namePrice) != 0 || system.GetStakingMinimum().Cmp(c.stakingMin) != 0 {
		panic("system parameters not loaded")
	}
	s.op(fmt.Sprintf("world %d %d %d %s %s %s", c.fv, b2i(!c.public), b2i(c.public), c.gasPrice, c.namePrice, c.stakingMin), "ok", false)
	return s
}

// reloadGlobals re-reads the in-memory governance state (system parameters, voting power rank) from the
// committed state, as the node does at start-up and on reorganisation.
func (s *session) reloadGlobals() {
	sdb := s.sdb.OpenNewStateDB(s.sdb.GetRoot())
	scs, err := statedb.GetSystemAccountState(sdb)
	if err != nil {
		panic(err)
	}
	system.InitSystemParams(scs, 3)
	if err := system.InitVotingPowerRank(scs); err != nil {
		panic(err)
	}
}

func (s *session) fund(i int, bal *big.Int) {
	bs := s.sdb.NewBlockState(s.sdb.GetRoot())
	as, err := state.GetAccountState(s.t.addr[i], bs.StateDB)
	if err != nil {
		panic(err)
	}
	as.AddBalance(bal)
	as.PutState()
	if err := s.sdb.Apply(bs); err != nil {
		panic(err)
	}
	sn := s.read(state.NewBlockState(s.sdb.OpenNewStateDB(s.sdb.GetRoot())))
	s.op(fmt.Sprintf("acct %d %s", i, bal), "ok "+sn.dump(new(big.Int)), false)
}

// read: everything the real BlockState shows (buffered view), for all addresses seen so far.
func (s *session) read(bs *state.BlockState) *snap {
	sn := &snap{accts: map[int]acct{}, stor: map[int]map[int]int{}, creator: map[int]int{}, staking: map[int]stk{},
		voted: map[int]bool{}, names: map[int][2]int{}, bp: new(big.Int).Set(&bs.BpReward), nrec: len(bs.Receipts().Get()),
		tally: map[string]string{}, voteAmt: map[int]string{}, voteFor: map[int]string{}}
	scs, err := statedb.GetSystemAccountState(bs.StateDB)
	if err != nil {
		panic(err)
	}
	ncs, err := statedb.GetNameAccountState(bs.StateDB)
	if err != nil {
		panic(err)
	}
	for _, i := range s.t.sorted() {
		a := s.t.addr[i]
		st, err := bs.StateDB.GetState(types.ToAccountID(a))
		if err != nil {
			panic(err)
		}
		if st != nil {
			sn.accts[i] = acct{bal: new(big.Int).SetBytes(st.Balance), nonce: st.Nonce, code: len(st.CodeHash) > 0,
				codeHash: hex.EncodeToString(st.CodeHash), sqlrp: st.SqlRecoveryPoint}
		}
		if i >= iContract0 || (st != nil && len(st.CodeHash) > 0) {
			cs, err := statedb.OpenContractStateAccount(a, bs.StateDB)
			if err != nil {
				panic(err)
			}
			if st != nil && len(st.CodeHash) > 0 {
				blob, err := cs.GetCode()
				if err != nil {
					panic(err)
				}
				ac := sn.accts[i]
				ac.codeSum = hex.EncodeToString(common.Hasher(blob))
				sn.accts[i] = ac
			}
			for k := 0; k < nKeys; k++ {
				v, err := cs.GetData([]byte(fmt.Sprintf("k%d", k)))
				if err != nil {
					panic(err)
				}
				if v != nil {
					n, err := strconv.Atoi(strings.TrimPrefix(string(v), "v"))
					if err != nil {
						panic("unexpected storage value " + string(v))
					}
					if sn.stor[i] == nil {
						sn.stor[i] = map[int]int{}
					}
					sn.stor[i][k] = n
				}
			}
			cr, err := cs.GetData(dbkey.CreatorMeta())
			if err != nil {
				panic(err)
			}
			if cr != nil {
				ca, err := types.DecodeAddress(string(cr))
				if err != nil {
					panic(err)
				}
				sn.creator[i] = s.t.of(ca)
			}
		}
		sk, err := system.GetStaking(scs, a)
		if err != nil {
			panic(err)
		}
		if sk.GetWhen() != 0 || sk.GetAmountBigInt().Sign() != 0 {
			sn.staking[i] = stk{sk.GetAmountBigInt(), sk.GetWhen()}
		}
		v, err := system.GetVote(scs, a, []byte(types.OpvoteBP.ID()))
		if err != nil {
			panic(err)
		}
		if v.Amount != nil {
			sn.voted[i] = true
			sn.voteAmt[i] = new(big.Int).SetBytes(v.Amount).String()
			sn.voteFor[i] = string(v.Candidate)
		}
	}
	tot, err := system.GetStakingTotal(scs)
	if err != nil {
		panic(err)
	}
	sn.total = tot
	vl, err := system.GetVoteResult(scs, []byte(types.OpvoteBP.ID()), 1000)
	if err != nil {
		panic(err)
	}
	for _, v := range vl.Votes {
		sn.tally[string(v.Candidate)] = new(big.Int).SetBytes(v.Amount).String()
	}
	for n := 0; n <= nNames; n++ {
		o, d, ok := name.VerifC01NameMap(ncs, []byte(nameStr(n)))
		if ok {
			// AccountState.ID() pads the special accounts to address length (aergo.name as a sender)
			sn.names[n] = [2]int{s.t.of(types.AddressOrigin(o)), s.t.of(types.AddressOrigin(d))}
		}
	}
	return sn
}

// ---------------------------------------------------------------- transactions

type xfer struct {
	to  int
	amt *big.Int
}

type script struct {
	fee   *big.Int
	err   string // ok | vm | system | negfee
	xfers []xfer
	sets  [][2]int
	dels  []int
	nofd  bool
	pad   int
	multi bool // the payload of a MULTICALL that is a multicall script (the stub runs it on the sender's own record)
}

type txSpec struct {
	typ      types.TxType
	sender   int
	rcpt     int // -1: none
	amount   *big.Int
	nonce    uint64
	gasLimit uint64
	gov      []string // op words for the model line
	govJSON  string
	sc       *script
	newAddr  int
	payload  []byte
	beyondVM bool // the scripted VM fee exceeds what the real VM could charge (gas limit): oracles do not apply
	label    string
	// the account / recipient is given by NAME (12 characters, resolved by executeTx through the name
	// contract's committed table); sender / rcpt hold the resolved indices, which is what the model sees
	asName   int
	rcptName int
	signer   int // whose key signs (no key for that index: unsigned); default: the sender
	signerSet bool
	// the block verifier's signature check accepts the tx on the committed state (SignVerifier.verifyTx)
	admissible bool
}

var typeName = map[types.TxType]string{
	types.TxType_NORMAL: "normal", types.TxType_GOVERNANCE: "governance", types.TxType_REDEPLOY: "redeploy",
	types.TxType_FEEDELEGATION: "feedelegation", types.TxType_TRANSFER: "transfer", types.TxType_CALL: "call",
	types.TxType_DEPLOY: "deploy", types.TxType_MULTICALL: "multicall",
}

func (s *session) scriptJSON(sc *script) []byte {
	type jx struct {
		To  string `json:"to"`
		Amt string `json:"amt"`
	}
	type js struct {
		K string `json:"k"`
		V string `json:"v"`
	}
	o := struct {
		Fee   string   `json:"fee"`
		Err   string   `json:"err"`
		Xfers []jx     `json:"xfers"`
		Sets  []js     `json:"sets"`
		Dels  []string `json:"dels"`
		Multi bool     `json:"multi,omitempty"`
	}{Fee: sc.fee.String(), Err: sc.err, Multi: sc.multi}
	if sc.err == "ok" {
		o.Err = ""
	}
	if sc.nofd {
		o.Err = "nofd"
	}
	for _, x := range sc.xfers {
		o.Xfers = append(o.Xfers, jx{hex.EncodeToString(s.t.addr[x.to]), x.amt.String()})
	}
	for _, kv := range sc.sets {
		o.Sets = append(o.Sets, js{fmt.Sprintf("k%d", kv[0]), fmt.Sprintf("v%d", kv[1])})
	}
	for _, k := range sc.dels {
		o.Dels = append(o.Dels, fmt.Sprintf("k%d", k))
	}
	b, _ := json.Marshal(o)
	if sc.pad > 0 {
		b = append(b, bytes.Repeat([]byte(" "), sc.pad)...)
	}
	return b
}

// outside: the transaction is outside the domain on which the oracles speak: a scripted VM behaviour the
// real VM cannot show (beyondVM), or a transaction the real signature verifier refuses - no valid block can
// carry it, only the model correspondence is checked (it runs in a probe block that is never committed).
func (x *txSpec) outside() bool { return x.beyondVM || !x.admissible }

// accountBytes / recipientBytes: what goes into the tx body (a name, or the address).
func (s *session) accountBytes(x *txSpec) []byte {
	if x.asName > 0 {
		return []byte(nameStr(x.asName))
	}
	if x.asName < 0 {
		return []byte(types.AergoName)
	}
	return s.t.addr[x.sender]
}

func (s *session) recipientBytes(x *txSpec) []byte {
	if x.rcpt < 0 {
		return nil
	}
	if x.rcptName > 0 {
		return []byte(nameStr(x.rcptName))
	}
	return s.t.addr[x.rcpt]
}

// target: the account the VM runs on (the recipient, the contract being created, or - MULTICALL - the sender).
func (x *txSpec) target() int {
	if x.typ == types.TxType_MULTICALL {
		return x.sender
	}
	if x.rcpt < 0 {
		return x.newAddr
	}
	return x.rcpt
}

func (s *session) finish(x *txSpec) {
	if x.typ == types.TxType_GOVERNANCE {
		x.payload = []byte(x.govJSON)
	} else if x.sc != nil {
		x.payload = s.scriptJSON(x.sc)
	}
	x.newAddr = 0
	if x.rcpt < 0 {
		// executeTx derives the address from the account bytes of the tx body (a name stays a name)
		x.newAddr = s.t.of(contract.CreateContractID(s.accountBytes(x), x.nonce))
	}
	if !x.signerSet {
		x.signer = x.sender
	}
}

func (s *session) build(x *txSpec, bi *types.BlockHeaderInfo) *types.Tx {
	tx := &types.Tx{Body: &types.TxBody{
		Nonce: x.nonce, Account: s.accountBytes(x), Recipient: s.recipientBytes(x), Amount: x.amount.Bytes(),
		Payload: x.payload, GasLimit: x.gasLimit, Type: x.typ, ChainIdHash: common.Hasher(bi.ChainId),
	}}
	if k := s.t.keys[x.signer]; k != nil {
		if err := key.SignTx(tx, k); err != nil {
			panic(err)
		}
	}
	tx.Hash = tx.CalculateTxHash()
	return tx
}

func joinInts(xs []int) string {
	var p []string
	for _, x := range xs {
		p = append(p, strconv.Itoa(x))
	}
	return strings.Join(p, ",")
}

func (x *txSpec) words() string {
	r := "-"
	if x.rcpt >= 0 {
		r = strconv.Itoa(x.rcpt)
	}
	// "<resolved sender>/<n>": the account field of the tx body is name n (0 = "aergo.name")
	snd := strconv.Itoa(x.sender)
	if x.asName > 0 {
		snd += "/" + strconv.Itoa(x.asName)
	} else if x.asName < 0 {
		snd += "/0"
	}
	head := fmt.Sprintf("%s %s %s %s %d %d %d %d", typeName[x.typ], snd, r, x.amount, x.nonce, x.gasLimit, len(x.payload), x.newAddr)
	if x.typ == types.TxType_GOVERNANCE {
		return head + " " + strings.Join(x.gov, " ")
	}
	if x.sc == nil {
		return head + " -"
	}
	var xs, ss []string
	for _, t := range x.sc.xfers {
		xs = append(xs, fmt.Sprintf("%d:%s", t.to, t.amt))
	}
	for _, kv := range x.sc.sets {
		ss = append(ss, fmt.Sprintf("%d:%d", kv[0], kv[1]))
	}
	w := fmt.Sprintf("%s vm %s %s x=%s s=%s d=%s fd=%d", head, x.sc.fee, x.sc.err, strings.Join(xs, ","), strings.Join(ss, ","), joinInts(x.sc.dels), b2i(!x.sc.nofd))
	if x.sc.multi {
		w += " multi"
	}
	return w
}

func rejClass(err error) string {
	switch err {
	case types.ErrTxInvalidAmount:
		return "invalidAmount"
	case types.ErrTxInvalidType:
		return "invalidType"
	case types.ErrTxInvalidRecipient:
		return "invalidRecipient"
	case types.ErrTxFormatInvalid:
		return "formatInvalid"
	case types.ErrTxInvalidPayload:
		return "invalidPayload"
	case types.ErrTxNonceTooLow:
		return "nonceLow"
	case types.ErrTxNonceToohigh:
		return "nonceHigh"
	case types.ErrInsufficientBalance:
		return "insufficient"
	case types.ErrNotAllowedFeeDelegation:
		return "notAllowedFD"
	case types.ErrLessTimeHasPassed:
		return "lessTime"
	case types.ErrTooSmallAmount:
		return "tooSmall"
	case types.ErrMustStakeBeforeVote:
		return "mustStakeVote"
	case types.ErrMustStakeBeforeUnstake:
		return "mustStakeUnstake"
	case types.ErrExceedAmount:
		return "exceed"
	case contract.ErrVmStart:
		return "system"
	}
	switch e := err.(type) {
	case *contract.VmSystemError, *contract.DbSystemError, *contract.VmTimeoutError:
		return "system"
	case *types.InternalError:
		if e.Reason == "fee is greater than balance" {
			return "internalFee"
		}
		return "other"
	}
	if strings.HasPrefix(err.Error(), "the minimum required amount of gas") {
		// fee.TxMaxFee builds this error with fmt.Errorf: there is no sentinel to compare with
		return "minGas"
	}
	if strings.HasSuffix(err.Error(), "aleardy exists") {
		return "exists"
	}
	return "other"
}

// ---------------------------------------------------------------- the reference of intended effects (C03)

func (sn *snap) acct(i int) acct {
	if a, ok := sn.accts[i]; ok {
		return a
	}
	return acct{bal: new(big.Int)}
}

func (sn *snap) move(from, to int, amt *big.Int) {
	if from == to {
		if _, ok := sn.accts[to]; !ok {
			sn.accts[to] = sn.acct(to)
		}
		return
	}
	f, t := sn.acct(from), sn.acct(to)
	f.bal = new(big.Int).Sub(f.bal, amt)
	t.bal = new(big.Int).Add(t.bal, amt)
	sn.accts[from], sn.accts[to] = f, t
}

func (sn *snap) charge(i int, feeUsed *big.Int) {
	a := sn.acct(i)
	a.bal = new(big.Int).Sub(a.bal, feeUsed)
	sn.accts[i] = a
	sn.bp = new(big.Int).Add(sn.bp, feeUsed)
}

// expectFailed: a transaction that failed at run time charges the fee to the payer and advances the
// sender's nonce; nothing else.
func expectFailed(pre *snap, x *txSpec, feeUsed *big.Int) *snap {
	e := pre.clone()
	payer := x.sender
	if x.typ == types.TxType_FEEDELEGATION && x.rcpt >= 0 {
		payer = x.rcpt
	}
	e.charge(payer, feeUsed)
	a := e.acct(x.sender)
	a.nonce = x.nonce
	e.accts[x.sender] = a
	e.nrec++
	return e
}

// expectLeak: the one known way an ERROR receipt leaves more than fee and nonce (known finding
// vm-fee-check-after-commit): the scripted call succeeded, its transfers to third accounts were written,
// then Execute's balance-for-fee check failed. Returns the two admissible states (without / with the
// contract's storage writes, which survive only if the storage object is shared with the block's cache),
// or nil if the transaction does not have that shape.
func (s *session) expectLeak(pre *snap, x *txSpec, feeUsed *big.Int) []*snap {
	if x.sc == nil || x.sc.err != "ok" || x.rcpt < 0 && x.typ != types.TxType_DEPLOY && x.typ != types.TxType_NORMAL && !(x.typ == types.TxType_MULTICALL && x.sc.multi) {
		return nil
	}
	rc := x.target()
	e := expectFailed(pre, x, feeUsed)
	av := new(big.Int).Set(pre.acct(rc).bal)
	if x.sender != rc {
		av.Add(av, x.amount)
	}
	for _, t := range x.sc.xfers {
		if t.to == rc {
			continue
		}
		if t.amt.Cmp(av) > 0 {
			return nil // the VM call itself fails: no effects
		}
		av.Sub(av, t.amt)
		if t.to != x.sender {
			a := e.acct(t.to)
			a.bal = new(big.Int).Add(a.bal, t.amt)
			e.accts[t.to] = a
		}
	}
	e2 := e.clone()
	if x.typ == types.TxType_MULTICALL {
		return []*snap{e} // a multicall has no storage of its own
	}
	for _, kv := range x.sc.sets {
		if e2.stor[rc] == nil {
			e2.stor[rc] = map[int]int{}
		}
		e2.stor[rc][kv[0]] = kv[1]
	}
	for _, k := range x.sc.dels {
		delete(e2.stor[rc], k)
	}
	return []*snap{e, e2}
}

// expectLateWrite: the one other known way an ERROR receipt leaves more than fee and nonce (known finding
// toplevel-vm-error-keeps-staged-storage-writes): a Lua error after top-level variable writes ("vmlate") on a
// contract whose storage was staged by an earlier transaction of the same block - the handle the VM wrote
// through is the block's cached storage. Returns the admissible state (fee + nonce + exactly the script's
// storage writes on the called contract), or nil if the transaction does not have that shape.
func (s *session) expectLateWrite(pre *snap, x *txSpec, feeUsed *big.Int) *snap {
	if x.sc == nil || x.sc.err != "vmlate" || x.rcpt < 0 || !s.staged[x.rcpt] {
		return nil
	}
	e := expectFailed(pre, x, feeUsed)
	rc := x.rcpt
	for _, kv := range x.sc.sets {
		if e.stor[rc] == nil {
			e.stor[rc] = map[int]int{}
		}
		e.stor[rc][kv[0]] = kv[1]
	}
	for _, k := range x.sc.dels {
		delete(e.stor[rc], k)
	}
	return e
}

// expectSuccess: the intended effects of a successful transaction, written without account copies.
func (s *session) expectSuccess(pre *snap, x *txSpec, feeUsed *big.Int, blockNo uint64) *snap {
	e := pre.clone()
	e.nrec++
	rc := x.rcpt
	if rc < 0 {
		rc = x.newAddr
	}
	switch x.typ {
	case types.TxType_GOVERNANCE:
		switch x.gov[0] {
		case "stake":
			e.move(x.sender, iSystem, x.amount)
			k := e.staking[x.sender]
			if k.amt == nil {
				k.amt = new(big.Int)
			}
			e.staking[x.sender] = stk{new(big.Int).Add(k.amt, x.amount), blockNo}
			e.total = new(big.Int).Add(e.total, x.amount)
		case "unstake":
			e.move(iSystem, x.sender, x.amount)
			k := e.staking[x.sender]
			e.staking[x.sender] = stk{new(big.Int).Sub(k.amt, x.amount), blockNo}
			e.total = new(big.Int).Sub(e.total, x.amount)
		case "vote":
			k := e.staking[x.sender]
			e.staking[x.sender] = stk{k.amt, blockNo}
			e.voted[x.sender] = true
			e.move(x.sender, iSystem, new(big.Int))
		case "ncreate", "nupdate":
			ben := iName
			if o, ok := pre.names[0]; ok {
				ben = o[0]
			}
			e.move(x.sender, ben, x.amount)
			e.move(x.sender, iName, new(big.Int))
			n, _ := strconv.Atoi(x.gov[1])
			if x.gov[0] == "ncreate" {
				e.names[n] = [2]int{x.sender, x.sender}
			} else {
				to, _ := strconv.Atoi(x.gov[2])
				ow := to
				if c, ok := pre.creator[to]; ok {
					ow = c
				}
				e.names[n] = [2]int{ow, to}
			}
		case "setowner":
			a, _ := strconv.Atoi(x.gov[1])
			e.move(iName, a, pre.acct(iName).bal)
			e.move(x.sender, iName, new(big.Int))
			e.names[0] = [2]int{a, iName}
		}
	case types.TxType_MULTICALL:
		// `receiver = sender`: the script's transfers leave the sender's own account; no storage, no staging
		if x.sc != nil && x.sc.multi {
			for _, t := range x.sc.xfers {
				if t.to != x.sender {
					e.move(x.sender, t.to, t.amt)
				}
			}
		}
	default:
		e.move(x.sender, rc, x.amount)
		rcv := pre.acct(rc)
		isDeploy := x.rcpt < 0 || x.typ == types.TxType_REDEPLOY
		executed := isDeploy || rcv.code
		if executed && x.sc != nil {
			if isDeploy {
				a := e.acct(rc)
				a.code = true
				e.accts[rc] = a
				e.creator[rc] = x.sender
			}
			for _, t := range x.sc.xfers {
				if t.to != rc {
					e.move(rc, t.to, t.amt)
				}
			}
			for _, kv := range x.sc.sets {
				if e.stor[rc] == nil {
					e.stor[rc] = map[int]int{}
				}
				e.stor[rc][kv[0]] = kv[1]
			}
			for _, k := range x.sc.dels {
				delete(e.stor[rc], k)
			}
		}
	}
	payer := x.sender
	if x.typ == types.TxType_FEEDELEGATION {
		payer = rc
	}
	e.charge(payer, feeUsed)
	a := e.acct(x.sender)
	a.nonce = x.nonce
	e.accts[x.sender] = a
	return e
}

// ---------------------------------------------------------------- one block

type produced struct {
	specs []*txSpec
	txs   []*types.Tx
}

func (s *session) hf() *config.HardforkConfig { return config.AllEnabledHardforkConfig }

func (s *session) newBS(bi *types.BlockHeaderInfo) *state.BlockState {
	bs := state.NewBlockState(s.sdb.OpenNewStateDB(s.sdb.GetRoot()), state.SetPrevBlockHash(bi.PrevBlockHash))
	bs.SetGasPrice(system.GetGasPrice())
	bs.Receipts().SetHardFork(s.hf(), bi.No)
	return bs
}

// runTx executes one tx through the real executor and evaluates the per-tx oracles.
func (s *session) runTx(bs *state.BlockState, exec chain.TxExecFn, bi *types.BlockHeaderInfo, x *txSpec, pre *snap) (post *snap, kept bool) {
	tx := s.build(x, bi)
	// would the block verifier's signature check let a block carry this transaction? (committed state)
	x.admissible = chain.VerifC01VerifyTx(s.node, tx) == nil
	s.run.Count(map[bool]string{true: "sig-admissible", false: "sig-refused"}[x.admissible])
	line := "tx " + x.words()
	s.run.Pending(line)
	var err error
	out, panicked := vh.Guard(func() string {
		err = exec(bs, types.NewTransaction(tx))
		return ""
	})
	if panicked {
		// a Go panic inside executeTx is C14's subject; the block state is unusable afterwards
		s.run.Count("panic")
		s.run.Crash(line + " :: " + out)
		s.aborted = true
		return pre, false
	}
	post = s.read(bs)
	s.run.Count("type-" + typeName[x.typ])
	if x.label != "" {
		s.run.Count("case-" + x.label)
	}
	var impl string
	residue := false
	leakShape := false
	known := ""
	z := new(big.Int)
	sumPre := new(big.Int).Add(pre.sum(), pre.bp)
	sumPost := new(big.Int).Add(post.sum(), post.bp)
	switch {
	case err != nil:
		impl = "rejected " + rejClass(err)
		s.run.Count("out-rejected-" + rejClass(err))
		if !post.equalState(pre) || post.bp.Cmp(pre.bp) != 0 || post.nrec != pre.nrec {
			s.fail("C03", "a rejected transaction left a residue in the block state", "", line, "pre  "+pre.dump(z), "post "+post.dump(z))
		}
		s.checkHidden(pre, post, x, "rejected", line)
	default:
		rs := bs.Receipts().Get()
		if len(rs) != pre.nrec+1 {
			s.fail("C03", "an executed transaction did not add exactly one receipt", "", line)
			impl = "bad-receipts"
			break
		}
		rc := rs[len(rs)-1]
		feeUsed := new(big.Int).SetBytes(rc.FeeUsed)
		// receiver.ID() pads the special accounts ("aergo.system" ...) to address length
		to := s.t.of(types.AddressOrigin(rc.ContractAddress))
		kept = true
		// C01 receipt_fee: BpReward grows by exactly the fee recorded in the receipt
		if new(big.Int).Sub(post.bp, pre.bp).Cmp(feeUsed) != 0 {
			s.fail("C01", "BpReward did not grow by the receipt's FeeUsed", "", line, "pre  "+pre.dump(pre.bp), "post "+post.dump(post.bp))
		}
		if rc.Status == "ERROR" {
			impl = fmt.Sprintf("failed ERROR fee=%s fd=%d to=%d", feeUsed, b2i(rc.FeeDelegation), to)
			s.run.Count("out-failed")
			s.checkHidden(pre, post, x, "failed", line)
			exp := expectFailed(pre, x, feeUsed)
			if !post.equalState(exp) {
				residue = true
				for _, l := range s.expectLeak(pre, x, feeUsed) {
					if post.equalState(l) {
						leakShape = true
					}
				}
				if lw := s.expectLateWrite(pre, x, feeUsed); lw != nil && post.equalState(lw) {
					leakShape = true
					if !x.outside() {
						known = "toplevel-vm-error-keeps-staged-storage-writes"
					}
				}
				if !x.outside() {
					if leakShape && known == "" {
						known = "vm-fee-check-after-commit"
					}
					s.fail("C03", "a transaction with an ERROR receipt did not change exactly fee and nonce", known, line, "pre    "+pre.dump(z), "post   "+post.dump(z), "expect "+exp.dump(z))
				}
			}
		} else {
			impl = fmt.Sprintf("applied %s fee=%s fd=%d to=%d", rc.Status, feeUsed, b2i(rc.FeeDelegation), to)
			s.run.Count("out-" + rc.Status)
			s.checkHidden(pre, post, x, "applied", line)
			s.checkTally(post, line)
			exp := s.expectSuccess(pre, x, feeUsed, bi.No)
			if x.typ != types.TxType_GOVERNANCE && x.typ != types.TxType_MULTICALL {
				rcv := x.rcpt
				if rcv < 0 {
					rcv = x.newAddr
				}
				if x.rcpt < 0 || x.typ == types.TxType_REDEPLOY || pre.acct(rcv).code {
					s.staged[rcv] = true // Execute ran the VM and StageContractState put the storage into the block's cache
				}
			}
			if !post.equalState(exp) && x.outside() {
				s.run.Count(map[bool]string{true: "sig-domain-effects", false: "stub-domain-effects"}[!x.admissible])
			} else if !post.equalState(exp) {
				known = s.classify(x, pre)
				s.fail("C03", "a successful transaction did not apply exactly its effects", known, line, "pre    "+pre.dump(z), "post   "+post.dump(z), "expect "+exp.dump(z))
			}
		}
	}
	// C01: every unit debited is credited exactly once (BpReward counted as a holder until paid out)
	if sumPre.Cmp(sumPost) != 0 && !x.outside() {
		if known == "" {
			known = s.classify(x, pre)
			if known == "" && leakShape {
				known = "vm-fee-check-after-commit"
			}
		}
		s.fail("C01", fmt.Sprintf("sum of balances + BpReward changed by %s across one transaction", new(big.Int).Sub(sumPost, sumPre)), known, line, "pre  "+pre.dump(pre.bp), "post "+post.dump(post.bp))
		if s.knownInBlock == "" {
			s.knownInBlock = known
			if known == "" {
				s.knownInBlock = "?"
			}
		}
	} else if sumPre.Cmp(sumPost) != 0 {
		s.run.Count(map[bool]string{true: "sig-domain-sum-change", false: "stub-domain-sum-change"}[!x.admissible])
		if s.knownInBlock == "" {
			s.knownInBlock = "stub"
		}
	}
	if residue {
		impl += " leak"
	}
	impl += fmt.Sprintf(" bp=%s | %s", post.bp, post.dump(post.bp))
	s.op(line, impl, err == nil)
	return post, kept
}

// hidden: the effects the model's world does not carry, as one canonical string.
func (sn *snap) hidden() string {
	var p []string
	for _, i := range sortedKeys(sn.accts) {
		a := sn.accts[i]
		if a.codeHash != "" || a.sqlrp != 0 {
			p = append(p, fmt.Sprintf("code%d=%s/%s rp%d=%d", i, a.codeHash, a.codeSum, i, a.sqlrp))
		}
	}
	for _, i := range sortedKeys(sn.voteAmt) {
		p = append(p, fmt.Sprintf("vote%d=%s->%x", i, sn.voteAmt[i], sn.voteFor[i]))
	}
	ks := make([]string, 0, len(sn.tally))
	for k := range sn.tally {
		ks = append(ks, k)
	}
	sort.Strings(ks)
	for _, k := range ks {
		p = append(p, fmt.Sprintf("tally[%x]=%s", k, sn.tally[k]))
	}
	return strings.Join(p, " ")
}

// tallyOf: what the BP-vote tally must be, given every voter's own record: the sum of the amounts of the
// votes naming the candidate.
func (sn *snap) tallyOf() map[string]string {
	t := map[string]*big.Int{}
	for i, amt := range sn.voteAmt {
		a, _ := new(big.Int).SetString(amt, 10)
		c := sn.voteFor[i]
		for off := 0; off+system.PeerIDLength <= len(c); off += system.PeerIDLength {
			k := c[off : off+system.PeerIDLength]
			if t[k] == nil {
				t[k] = new(big.Int)
			}
			t[k].Add(t[k], a)
		}
	}
	r := map[string]string{}
	for k, v := range t {
		r[k] = v.String()
	}
	return r
}

// checkHidden: the effects of a transaction the model's world does not carry (C03 "all of its effects" /
// "only fee and nonce" / "as if never submitted" also for them).
//   - the code of an account (hash in the record and the stored blob) changes only by a successful DEPLOY /
//     REDEPLOY of that account, and then to exactly the payload;
//   - vote records and the vote tally change only by a successful governance transaction to aergo.system;
//   - SQL recovery points never change (the scripted VM has no SQL).
func (s *session) checkHidden(pre, post *snap, x *txSpec, outcome string, line string) {
	if pre.hidden() == post.hidden() {
		return
	}
	rc := x.rcpt
	if rc < 0 {
		rc = x.newAddr
	}
	bad := ""
	for _, i := range sortedKeys(post.accts) {
		a, b := pre.acct(i), post.accts[i]
		deploys := outcome == "applied" && i == rc && x.typ != types.TxType_GOVERNANCE && (x.rcpt < 0 || x.typ == types.TxType_REDEPLOY)
		// CreateAccountState gives a new contract account recovery point 1; nothing else moves it here
		if a.sqlrp != b.sqlrp && !(deploys && x.rcpt < 0 && b.sqlrp == 1) {
			bad = fmt.Sprintf("SQL recovery point of account %d changed", i)
		}
		if a.codeHash == b.codeHash && a.codeSum == b.codeSum {
			continue
		}
		want := hex.EncodeToString(common.Hasher(x.payload))
		if !deploys {
			bad = fmt.Sprintf("the code of account %d changed without a successful deploy of it (%s tx)", i, outcome)
		} else if b.codeHash != want || b.codeSum != want {
			bad = fmt.Sprintf("the code stored for account %d is not the deployed payload", i)
		}
	}
	voteChanged := fmt.Sprint(pre.voteAmt, pre.voteFor, pre.tally) != fmt.Sprint(post.voteAmt, post.voteFor, post.tally)
	if voteChanged && !(outcome == "applied" && x.typ == types.TxType_GOVERNANCE && x.rcpt == iSystem) {
		bad = fmt.Sprintf("vote records / the vote tally changed by a %s transaction that is no governance transaction to aergo.system", outcome)
	}
	if bad != "" {
		s.fail("C03", bad, "", line, "pre  "+pre.hidden(), "post "+post.hidden())
	}
}

// checkTally: after an applied transaction the tally of each candidate is the sum of the votes naming it, and
// (from fork version 2 on) no vote exceeds its voter's stake.
func (s *session) checkTally(post *snap, line string) {
	want := post.tallyOf()
	for k, v := range post.tally {
		w := want[k]
		if w == "" {
			w = "0"
		}
		if v != w {
			s.fail("C03", fmt.Sprintf("the vote tally of a candidate is %s, the votes naming it sum to %s", v, w), "", line, "post "+post.hidden())
			return
		}
	}
	for k, w := range want {
		if _, ok := post.tally[k]; !ok && w != "0" {
			s.fail("C03", "a candidate with votes is missing from the vote tally", "", line, "post "+post.hidden())
			return
		}
	}
	for i, amt := range post.voteAmt {
		a, _ := new(big.Int).SetString(amt, 10)
		if k, ok := post.staking[i]; !ok || a.Cmp(k.amt) > 0 {
			s.fail("C03", fmt.Sprintf("the vote of account %d (%s) exceeds its stake", i, amt), "", line, "post "+post.hidden())
			return
		}
	}
}

// classify names the known defect class a failing successful tx belongs to (by input shape), or "".
// The two name-contract shapes this check found (v1setOwner to the sender; a paid name tx while
// aergo.name owns itself) are repaired in /repo: they are ordinary violations now.
func (s *session) classify(x *txSpec, pre *snap) string {
	// (The shape this check found - a tx sent under a NAME whose destination is a contract, addressed to that
	// contract, worked on two records of the one account and minted what the script sent away - is repaired in
	// /repo (343afa85): it is an ordinary violation now.)
	return ""
}

// fullSum: Σ balances over every account of the committed trie (StateDB.RawDump walks the trie keys).
func (s *session) fullSum() (*big.Int, int) {
	d, err := s.sdb.OpenNewStateDB(s.sdb.GetRoot()).RawDump()
	if err != nil {
		panic(err)
	}
	t := new(big.Int)
	for _, a := range d.Accounts {
		t.Add(t, a.State.GetBalanceBigInt())
	}
	return t, len(d.Accounts)
}

func (s *session) committedSnap() *snap {
	return s.read(state.NewBlockState(s.sdb.OpenNewStateDB(s.sdb.GetRoot())))
}

// committedAfter reads the committed state back after a block was offered to the validator. If it cannot be
// read any more (the state DB was damaged: trie nodes referenced by the root are missing), that is itself
// a violation of "a block that fails leaves the state as it was": reported, the session ends.
func (s *session) committedAfter(what string) *snap {
	var sn *snap
	out, panicked := vh.Guard(func() string {
		sn = s.committedSnap()
		_, _ = s.fullSum()
		return ""
	})
	if panicked {
		s.fail("C03", "after "+what+" the committed state cannot be read back: "+out, "", what)
		s.aborted = true
		return nil
	}
	return sn
}

func (s *session) block(gen func(b *blockGen), coinbase int, trials bool) {
	if s.aborted {
		return
	}
	s.reloadGlobals()
	s.knownInBlock = ""
	s.staged = map[int]bool{}
	var cb []byte
	cbw := "-"
	if coinbase >= 0 {
		cb = s.t.addr[coinbase]
		cbw = strconv.Itoa(coinbase)
	}
	s.ts += 1000000000
	bi := &types.BlockHeaderInfo{No: s.blockNo, Ts: s.ts, PrevBlockHash: s.prev, ChainId: types.MakeChainId(s.chainID, s.cfg.fv), ForkVersion: s.cfg.fv}
	bs := s.newBS(bi)
	exec := chain.NewTxExecutor(context.Background(), stubCcc{}, nil, bi, contract.BlockFactory)
	preBlock := s.read(bs)
	rootBefore := append([]byte{}, s.sdb.GetRoot()...)
	sumBefore, _ := s.fullSum()
	if sumBefore.Cmp(preBlock.sum()) != 0 {
		panic("address table does not cover the trie")
	}
	s.op(fmt.Sprintf("begin %d %d %s", bi.No, s.cfg.fv, cbw), "ok", false)

	bg := &blockGen{s: s, bs: bs, bi: bi, exec: exec, cur: preBlock, pre: preBlock}
	gen(bg)
	if s.aborted {
		return
	}
	pre := bg.cur

	// rewards: voting reward (vault -> winner) then the fees to the coinbase, as the block factory does
	if err := chain.SendBlockReward(bs, cb); err != nil {
		panic(err)
	}
	post := s.read(bs)
	winner := "-"
	if w := bs.Consensus(); len(w) > 0 {
		winner = strconv.Itoa(s.t.of(w))
		s.run.Count("voting-reward-paid")
	}
	fees := new(big.Int)
	for _, r := range bs.Receipts().Get() {
		fees.Add(fees, new(big.Int).SetBytes(r.FeeUsed))
	}
	left := new(big.Int).Set(&bs.BpReward)
	if cb != nil {
		left = new(big.Int)
	}
	s.op(fmt.Sprintf("reward %s %s", winner, system.GetVotingRewardAmount()), fmt.Sprintf("ok fees=%s | %s", fees, post.dump(left)), true)
	if fees.Cmp(&bs.BpReward) != 0 {
		s.fail("C01", "BpReward differs from the sum of the receipts' fees", "", "fees "+fees.String(), "bp "+bs.BpReward.String())
	}
	want := new(big.Int).Add(pre.sum(), pre.bp)
	got := new(big.Int).Add(post.sum(), left)
	if want.Cmp(got) != 0 {
		s.fail("C01", "block rewards did not conserve the sum of balances", "", "pre  "+pre.dump(pre.bp), "post "+post.dump(left))
	}
	if err := bs.Update(); err != nil {
		panic(err)
	}
	block := types.NewBlock(bi, bs.GetRoot(), bs.Receipts(), bg.p.txs, cb, bs.Consensus())

	z := new(big.Int)
	validatorCommit := false
	if trials {
		// C03, block level: broken variants of the block through the real blockExecutor; nothing may change
		for _, v := range s.variants(bg, block, bi, preBlock) {
			s.reloadGlobals()
			_, err := chain.VerifC01ExecBlock(s.node, v.block, false)
			after := s.committedAfter("a refused block (" + v.kind + ")")
			if after == nil {
				s.op(v.line, "state-unreadable", true)
				return
			}
			sumAfter, _ := s.fullSum()
			impl := "refused-tx"
			if err == chain.ErrorBlockVerifyStateRoot || err == chain.ErrorBlockVerifyReceiptRoot {
				impl = "refused-root"
			}
			if err == chain.ErrorBlockVerifySign {
				impl = "refused-sig"
			}
			if err == nil {
				impl = "accepted"
				s.fail("C03", "an invalid block ("+v.kind+") was executed and committed", "", v.line)
			}
			if !bytes.Equal(rootBefore, s.sdb.GetRoot()) || !after.equalState(preBlock) || sumAfter.Cmp(sumBefore) != 0 {
				s.fail("C03", "a refused block ("+v.kind+") changed the state DB", "", v.line, "before "+preBlock.dump(z), "after  "+after.dump(z))
			}
			s.run.Count("vblock-" + v.kind)
			s.op(v.line, impl+" | "+after.dump(z), true)
			if err == nil {
				s.aborted = true
				return
			}
		}
		// DESIGN §5 lead 8: in verify mode (BlockValidator.verbose, i.e. cfg.Blockchain.VerifyBlock != 0)
		// ValidatePost only *reports* a receipts-root mismatch. That mode runs blocks with verifyOnly (the
		// chain manager is not started), so nothing may be committed whatever ValidatePost answers.
		if s.rng.Chance(1, 4) {
			s.reloadGlobals()
			b := cloneBlock(block, block.Body.Txs)
			b.Header.ReceiptsRootHash = common.Hasher(append([]byte("y"), block.Header.ReceiptsRootHash...))
			_, err := chain.VerifC01ExecBlock(s.vnode, b, true)
			after := s.committedAfter("a verify-only run")
			if after == nil {
				return
			}
			if err == nil {
				s.run.Count("lead8-verify-mode-reports-only")
			} else {
				s.run.Count("lead8-verify-mode-refuses")
			}
			if !bytes.Equal(rootBefore, s.sdb.GetRoot()) || !after.equalState(preBlock) {
				s.fail("C03", "verify mode (verifyOnly) committed a block with a wrong receipts root", "", "block "+strconv.FormatUint(bi.No, 10))
			}
			s.run.Eval(fmt.Sprintf("lead8 %d %v", bi.No, err == nil), true)
		}
		validatorCommit = s.rng.Chance(2, 3)
	}
	var final *snap
	if validatorCommit {
		s.reloadGlobals()
		vbs, err := chain.VerifC01ExecBlock(s.node, block, false)
		final = s.committedAfter("the validator's run of the produced block")
		if final == nil {
			return
		}
		if err != nil {
			s.fail("C03", "the validator refused the block the producer built from the same state: "+err.Error(), "", "block "+strconv.FormatUint(bi.No, 10))
			s.op("vblock ok", "refused-tx | "+final.dump(z), true)
			s.aborted = true
			return
		}
		vfees := new(big.Int)
		for _, r := range vbs.Receipts().Get() {
			vfees.Add(vfees, new(big.Int).SetBytes(r.FeeUsed))
		}
		if !final.equalState(post) {
			s.fail("C03", "validator and producer disagree on the state after the same block", "", "producer  "+post.dump(z), "validator "+final.dump(z))
		}
		s.run.Count("vblock-ok")
		s.op("vblock ok", fmt.Sprintf("accepted fees=%s | %s", vfees, final.dump(z)), true)
	} else {
		if err := bs.Commit(); err != nil {
			panic(err)
		}
		if err := s.sdb.UpdateRoot(bs); err != nil {
			panic(err)
		}
		final = s.committedSnap()
		s.op("end", "ok | "+final.dump(z), true)
	}
	// C01, block level, over a full dump of the committed trie
	sumAfter, n := s.fullSum()
	if n != len(final.accts) {
		panic("address table does not cover the trie")
	}
	wantAfter := new(big.Int).Set(sumBefore)
	if cb == nil {
		wantAfter.Sub(wantAfter, fees)
	}
	s.run.Count(map[bool]string{true: "block-coinbase", false: "block-no-coinbase"}[cb != nil])
	if sumAfter.Cmp(wantAfter) != 0 {
		k := s.knownInBlock
		if k == "stub" {
			s.run.Count("stub-domain-block")
		} else {
			if k == "?" {
				k = ""
			}
			s.fail("C01", fmt.Sprintf("block %d: sum of all balances went from %s to %s, expected %s (coinbase %v, receipts' fees %s)", bi.No, sumBefore, sumAfter, wantAfter, cb != nil, fees), k)
		}
	}
	s.run.Eval(fmt.Sprintf("block %d %s", bi.No, final.dump(z)), true)
	s.prev = common.Hasher(append(append([]byte{}, s.prev...), byte(bi.No)))
	s.blockNo++
}

// probeBlock: a block state that is never committed. It may carry transactions the signature verifier
// refuses (sent "by" a contract address, by aergo.name without an owner, unsigned ...): the real executeTx
// never looks at signatures, so the model correspondence is checked on them, the oracles only on the
// admissible ones. Afterwards the state DB must be what it was (op "abort").
func (s *session) probeBlock(gen func(b *blockGen)) {
	if s.aborted {
		return
	}
	s.reloadGlobals()
	s.knownInBlock = ""
	s.staged = map[int]bool{}
	s.ts += 1000000000
	bi := &types.BlockHeaderInfo{No: s.blockNo, Ts: s.ts, PrevBlockHash: s.prev, ChainId: types.MakeChainId(s.chainID, s.cfg.fv), ForkVersion: s.cfg.fv}
	bs := s.newBS(bi)
	exec := chain.NewTxExecutor(context.Background(), stubCcc{}, nil, bi, contract.BlockFactory)
	preBlock := s.read(bs)
	rootBefore := append([]byte{}, s.sdb.GetRoot()...)
	s.op(fmt.Sprintf("begin %d %d -", bi.No, s.cfg.fv), "ok", false)
	bg := &blockGen{s: s, bs: bs, bi: bi, exec: exec, cur: preBlock, pre: preBlock, probe: true}
	gen(bg)
	if s.aborted {
		return
	}
	z := new(big.Int)
	// If the block state holds a transaction the signature verifier refuses, finish the block as a producer
	// would (rewards, roots of what was really executed) and hand it to the validator: every root in the header
	// is right, only the signature verdict can refuse it - it must, and nothing may be committed.
	inadmissible := 0
	for _, x := range bg.p.specs {
		if !x.admissible {
			inadmissible++
		}
	}
	if inadmissible > 0 {
		if err := chain.SendBlockReward(bs, nil); err != nil {
			panic(err)
		}
		if err := bs.Update(); err != nil {
			panic(err)
		}
		blk := types.NewBlock(bi, bs.GetRoot(), bs.Receipts(), bg.p.txs, nil, bs.Consensus())
		s.reloadGlobals()
		_, err := chain.VerifC01ExecBlock(s.node, blk, false)
		s.run.Count("probe-block-through-validator")
		if err == nil {
			s.fail("C03", "a block carrying a transaction the signature verifier refuses was executed and committed", "", fmt.Sprintf("block %d, %d such transactions", bi.No, inadmissible))
			s.aborted = true
			return
		}
		if err != chain.ErrorBlockVerifySign {
			s.run.Count("probe-block-refused-otherwise")
		}
		s.run.Eval(fmt.Sprintf("probe-validate %d %v", bi.No, err == chain.ErrorBlockVerifySign), true)
	}
	after := s.committedAfter("a block state that was never committed")
	if after == nil {
		return
	}
	if !bytes.Equal(rootBefore, s.sdb.GetRoot()) || !after.equalState(preBlock) {
		s.fail("C03", "a block state that was never committed changed the state DB", "", "before "+preBlock.dump(z), "after  "+after.dump(z))
	}
	s.run.Count("probe-block")
	s.op("abort", "ok | "+after.dump(z), true)
}

type variant struct {
	kind  string
	line  string
	block *types.Block
}

func cloneBlock(b *types.Block, txs []*types.Tx) *types.Block {
	h := *b.Header
	nb := &types.Block{Header: &h, Body: &types.BlockBody{Txs: txs}}
	nb.Header.TxsRootHash = types.CalculateTxsRootHash(txs)
	return nb
}

// variants: the produced block made invalid at every kind of position.
func (s *session) variants(bg *blockGen, block *types.Block, bi *types.BlockHeaderInfo, preBlock *snap) []variant {
	var vs []variant
	if s.rng.Chance(1, 2) {
		b := cloneBlock(block, block.Body.Txs)
		b.Header.BlocksRootHash = common.Hasher(append([]byte("x"), block.Header.BlocksRootHash...))
		vs = append(vs, variant{"badroot", "vblock badroot", b})
	}
	if s.rng.Chance(1, 2) {
		b := cloneBlock(block, block.Body.Txs)
		b.Header.ReceiptsRootHash = common.Hasher(append([]byte("x"), block.Header.ReceiptsRootHash...))
		vs = append(vs, variant{"badreceipts", "vblock badreceipts", b})
	}
	// one transaction's signature made wrong: every transaction still executes (executeTx does not look at
	// signatures), the block must be refused by the verifier's verdict and nothing may be committed
	if len(block.Body.Txs) > 0 && s.rng.Chance(1, 2) {
		k := s.rng.Intn(len(block.Body.Txs))
		txs := append([]*types.Tx{}, block.Body.Txs...)
		body := *txs[k].Body
		sig := append([]byte{}, body.Sign...)
		if len(sig) > 8 {
			sig[len(sig)-3] ^= 0x5a
		} else {
			sig = []byte{1, 2, 3}
		}
		body.Sign = sig
		bad := &types.Tx{Body: &body}
		bad.Hash = bad.CalculateTxHash()
		txs[k] = bad
		vs = append(vs, variant{"badsig", "vblock badsig", cloneBlock(block, txs)})
	}
	// a transaction the executor rejects, at a random position (first, middle, last)
	n := len(block.Body.Txs)
	for _, pos := range []int{0, n / 2, n} {
		if !s.rng.Chance(1, 2) {
			continue
		}
		x := s.badTx(preBlock, func(u int) uint64 {
			n := preBlock.acct(u).nonce
			for _, k := range bg.p.specs[:pos] {
				if k.sender == u {
					n = k.nonce
				}
			}
			return n + 1
		})
		s.finish(x)
		tx := s.build(x, bi)
		txs := append(append(append([]*types.Tx{}, block.Body.Txs[:pos]...), tx), block.Body.Txs[pos:]...)
		vs = append(vs, variant{"badtx-" + x.label, fmt.Sprintf("vblock badtx %d %s", pos, x.words()), cloneBlock(block, txs)})
		if pos == n {
			break
		}
	}
	return vs
}

// badTx: a transaction that is rejected wherever it stands in the block.
func (s *session) badTx(pre *snap, nonceAt func(u int) uint64) *txSpec {
	u := iUser0 + s.rng.Intn(nUsers)
	huge := new(big.Int).Exp(big.NewInt(10), big.NewInt(26), nil)
	switch s.rng.Intn(4) {
	case 0:
		return &txSpec{typ: types.TxType_TRANSFER, sender: u, rcpt: iUser0, amount: big.NewInt(1), nonce: 1 << 40, label: "nonce-high"}
	case 1:
		return &txSpec{typ: types.TxType_TRANSFER, sender: u, rcpt: iUser0, amount: big.NewInt(1), nonce: 0, label: "nonce-low"}
	case 2:
		// rejected after the VM has written: a system error in a contract call (if a contract exists)
		for _, c := range sortedKeys(pre.accts) {
			if pre.accts[c].code && c >= iContract0 {
				// a valid nonce: the tx reaches the VM, which writes storage and pays a third account, then
				// reports a system error: the executor must roll all of it back and the block must be refused
				e := []string{"system", "timeout"}[s.rng.Intn(2)]
				return &txSpec{typ: types.TxType_CALL, sender: u, rcpt: c, amount: big.NewInt(1), nonce: nonceAt(u), label: "vm-" + e + "-after-writes",
					sc: &script{fee: new(big.Int), err: e, xfers: []xfer{{iGhost0, big.NewInt(1)}}, sets: [][2]int{{0, 9}}}}
			}
		}
		fallthrough
	default:
		return &txSpec{typ: types.TxType_TRANSFER, sender: iGhost0 + 1, rcpt: iUser0, amount: huge, nonce: 1, label: "insufficient"}
	}
}

// ---------------------------------------------------------------- generation

type blockGen struct {
	s    *session
	bs   *state.BlockState
	bi   *types.BlockHeaderInfo
	exec chain.TxExecFn
	cur  *snap
	pre  *snap // the committed view at block start: what name resolution and signature verification read
	p    produced
	probe bool // a block that is never committed: it may carry transactions the verifier refuses
}

func (b *blockGen) submit(x *txSpec) bool {
	if b.s.aborted {
		return false
	}
	b.s.finish(x)
	if !b.probe {
		// a block that is going to be committed carries only what the signature verifier admits
		if chain.VerifC01VerifyTx(b.s.node, b.s.build(x, b.bi)) != nil {
			b.s.run.Count("not-admitted-to-a-committed-block")
			return false
		}
	}
	post, kept := b.s.runTx(b.bs, b.exec, b.bi, x, b.cur)
	b.cur = post
	if kept {
		b.p.specs = append(b.p.specs, x)
		b.p.txs = append(b.p.txs, b.s.build(x, b.bi))
	}
	return kept
}

func bn(n int64) *big.Int { return big.NewInt(n) }

func pow10(n int) *big.Int { return new(big.Int).Exp(big.NewInt(10), big.NewInt(int64(n)), nil) }

func clampNonNeg(x *big.Int) *big.Int {
	if x.Sign() < 0 {
		return new(big.Int)
	}
	return x
}

func (b *blockGen) nextNonce(u int) uint64 { return b.cur.acct(u).nonce + 1 }

// baseFee / maxFee / gas limit through the node's own fee package
func (b *blockGen) baseFee(payloadLen int) *big.Int {
	return fee.TxBaseFee(b.s.cfg.fv, b.bs.GasPrice, payloadLen)
}

// vmBound: the largest fee the real VM could charge for this call (its gas limit times the gas price;
// before version 2 the state-update fee cap; nothing on a zero-fee network).
func (b *blockGen) vmBound(x *txSpec, isFD bool) *big.Int {
	if fee.IsZeroFee() {
		return new(big.Int)
	}
	if b.s.cfg.fv < 2 {
		return new(big.Int).Mul(big.NewInt(5000000000000), big.NewInt(fee.StateDbMaxUpdateSize-200))
	}
	base := b.baseFee(len(x.payload))
	sb := new(big.Int).Sub(b.cur.acct(x.sender).bal, x.amount)
	rc := x.target()
	rb := new(big.Int).Add(b.cur.acct(rc).bal, x.amount)
	if x.sender == rc {
		sb, rb = b.cur.acct(x.sender).bal, b.cur.acct(rc).bal
	}
	gl, err := fee.GasLimit(b.s.cfg.fv, isFD, x.gasLimit, len(x.payload), b.bs.GasPrice, base, sb, rb)
	if err != nil {
		return new(big.Int)
	}
	return new(big.Int).Mul(new(big.Int).SetUint64(gl), b.bs.GasPrice)
}

func (b *blockGen) pickUser() int { return iUser0 + b.s.rng.Intn(nUsers) }

func (b *blockGen) contracts() []int {
	var cs []int
	for _, i := range sortedKeys(b.cur.accts) {
		if b.cur.accts[i].code {
			cs = append(cs, i)
		}
	}
	return cs
}

func (b *blockGen) anyTarget() int {
	r := b.s.rng
	switch r.Intn(10) {
	case 0:
		return iGhost0 + r.Intn(nGhosts)
	case 1:
		return iCoinbase
	case 2:
		return []int{iSystem, iName, iVault}[r.Intn(3)]
	case 3, 4:
		if cs := b.contracts(); len(cs) > 0 {
			return cs[r.Intn(len(cs))]
		}
	}
	return b.pickUser()
}

// around: v-1, v, v+1 (clamped at 0)
func (b *blockGen) around(v *big.Int) *big.Int {
	d := int64(b.s.rng.Intn(3)) - 1
	return clampNonNeg(new(big.Int).Add(v, big.NewInt(d)))
}

func (b *blockGen) randAmount(u int) *big.Int {
	r := b.s.rng
	bal := b.cur.acct(u).bal
	switch r.Intn(8) {
	case 0:
		return new(big.Int)
	case 1:
		return b.around(bal)
	case 2:
		return big.NewInt(int64(1 + r.Intn(1000)))
	default:
		if bal.Sign() == 0 {
			return new(big.Int)
		}
		return new(big.Int).Div(bal, big.NewInt(int64(2+r.Intn(50))))
	}
}

func (b *blockGen) randNonce(u int) (uint64, string) {
	n := b.nextNonce(u)
	switch b.s.rng.Intn(14) {
	case 0:
		if n > 0 {
			return n - 1, "nonce-1"
		}
	case 1:
		return n + 1, "nonce+1"
	case 2:
		return n + 5, "nonce+5"
	}
	return n, ""
}

// genScript: a VM script within the real VM's contract (fee <= gas bound, no partial third-party
// effects before a failing transfer), sitting on the balance boundaries.
func (b *blockGen) genScript(x *txSpec, isFD bool, contractBal *big.Int) *script {
	r := b.s.rng
	sc := &script{fee: new(big.Int), err: "ok"}
	switch r.Intn(15) {
	case 0:
		sc.err = "vm"
	case 1:
		sc.err = "system"
	case 2:
		sc.err = "negfee"
	case 3:
		sc.err = "timeout"
	case 4, 5:
		// a Lua error after top-level variable writes: on a contract staged earlier in the block the writes
		// survive the ERROR receipt (known finding), on any other contract they must vanish
		sc.err = "vmlate"
	}
	// "system" and "timeout" strike after the script's transfers and storage writes have been made
	writes := sc.err == "ok" || sc.err == "system" || sc.err == "timeout"
	if isFD && r.Chance(1, 12) {
		sc.nofd = true
	}
	// transfers out of the called contract
	avail := new(big.Int).Set(contractBal)
	rc := x.rcpt
	nx := r.Intn(4)
	for i := 0; i < nx && writes; i++ {
		to := b.anyTarget()
		if r.Chance(1, 4) {
			to = x.sender
		}
		var amt *big.Int
		switch r.Intn(5) {
		case 0:
			amt = new(big.Int)
		case 1:
			amt = new(big.Int).Set(avail) // everything the contract holds
		case 2:
			amt = new(big.Int).Add(avail, big.NewInt(1)) // one more than it holds: the VM call fails
		default:
			if avail.Sign() > 0 {
				amt = new(big.Int).Div(avail, big.NewInt(int64(1+r.Intn(4))))
			} else {
				amt = new(big.Int)
			}
		}
		sc.xfers = append(sc.xfers, xfer{to, amt})
		if to != rc && rc >= 0 {
			if amt.Cmp(avail) > 0 {
				break // the failing transfer is the last one
			}
			avail.Sub(avail, amt)
		}
	}
	// keep the stub inside the domain where it is atomic like the real VM: a failing transfer must not
	// follow a transfer to a third party
	third := false
	av := new(big.Int).Set(contractBal)
	for i, t := range sc.xfers {
		if t.to == rc {
			continue
		}
		if t.amt.Cmp(av) > 0 {
			if third {
				sc.xfers = sc.xfers[:i]
			}
			break
		}
		av.Sub(av, t.amt)
		if t.to != x.sender {
			third = true
		}
	}
	for i, n := 0, r.Intn(3); i < n; i++ {
		sc.sets = append(sc.sets, [2]int{r.Intn(nKeys), 1 + r.Intn(9)})
	}
	for i, n := 0, r.Intn(2); i < n; i++ {
		sc.dels = append(sc.dels, r.Intn(nKeys))
	}
	return sc
}

// holdAtCheck: what the payer holds when Execute checks the fee (after the amount moved and the
// scripted transfers ran).
func (b *blockGen) holdAtCheck(x *txSpec, isFD bool) *big.Int {
	sc := x.sc
	payer := x.sender
	if isFD {
		payer = x.rcpt
	}
	hold := new(big.Int).Set(b.cur.acct(payer).bal)
	rc := x.target()
	if x.sender != rc {
		if payer == x.sender {
			hold.Sub(hold, x.amount)
		} else {
			hold.Add(hold, x.amount)
		}
	}
	if sc.err == "ok" {
		av := new(big.Int).Set(b.cur.acct(rc).bal)
		if x.sender != rc {
			av.Add(av, x.amount)
		}
		for _, t := range sc.xfers {
			if t.to == rc || t.amt.Cmp(av) > 0 {
				continue
			}
			av.Sub(av, t.amt)
			if payer == rc {
				hold.Sub(hold, t.amt)
			} else if t.to == payer {
				hold.Add(hold, t.amt)
			}
		}
	}
	return hold
}

// fitFee sets the VM fee to want(bound, room) where bound is the largest fee the real VM could charge
// and room the fee that exactly empties the payer; both depend on the payload length, which depends on
// the digits of the fee: iterate to a fixpoint. A fee above the bound marks the tx as outside the VM's
// contract (beyondVM).
func (b *blockGen) fitFee(x *txSpec, isFD bool, want func(bound, room *big.Int) *big.Int) {
	sc := x.sc
	for i := 0; i < 6; i++ {
		x.payload = b.s.scriptJSON(sc)
		bound := b.vmBound(x, isFD)
		room := clampNonNeg(new(big.Int).Sub(b.holdAtCheck(x, isFD), b.baseFee(len(x.payload))))
		f := clampNonNeg(want(bound, room))
		if f.Cmp(sc.fee) == 0 {
			break
		}
		sc.fee = f
	}
	x.payload = b.s.scriptJSON(sc)
	x.beyondVM = sc.fee.Cmp(b.vmBound(x, isFD)) > 0
}

// setFee chooses the VM fee: mostly inside the VM's contract, on the boundaries.
func (b *blockGen) setFee(x *txSpec, isFD bool) {
	r := b.s.rng
	k := r.Intn(6)
	d := int64(r.Intn(3)) - 1
	div := int64(2 + r.Intn(1000))
	beyond := r.Chance(1, 6)
	b.fitFee(x, isFD, func(bound, room *big.Int) *big.Int {
		var f *big.Int
		switch k {
		case 0:
			f = new(big.Int)
		case 1:
			f = new(big.Int).Add(room, big.NewInt(d))
		case 2:
			f = new(big.Int).Set(bound)
		case 3:
			f = new(big.Int).Add(bound, big.NewInt(d))
		default:
			f = new(big.Int).Div(bound, big.NewInt(div))
		}
		if f.Cmp(bound) > 0 && !beyond {
			f = new(big.Int).Set(bound)
		}
		return f
	})
}

func (b *blockGen) genTransferLike() *txSpec {
	r := b.s.rng
	u := b.pickUser()
	x := &txSpec{sender: u, rcpt: b.anyTarget(), amount: b.randAmount(u)}
	x.typ = []types.TxType{types.TxType_NORMAL, types.TxType_TRANSFER, types.TxType_TRANSFER, types.TxType_CALL}[r.Intn(4)]
	switch r.Intn(12) {
	case 0:
		x.rcpt = u
		x.label = "self-send"
	case 1:
		x.rcpt = -1 // TRANSFER/CALL without recipient: refused; NORMAL without recipient and payload: refused
		x.label = "no-recipient"
	}
	x.nonce, _ = b.randNonce(u)
	if r.Chance(1, 3) {
		x.gasLimit = b.genGasLimit(0)
	}
	// threshold: balance - amount against the maximum fee
	if r.Chance(1, 3) {
		if mf, err := fee.TxMaxFee(b.s.cfg.fv, 0, x.gasLimit, b.cur.acct(u).bal, b.bs.GasPrice); err == nil {
			x.amount = b.around(clampNonNeg(new(big.Int).Sub(b.cur.acct(u).bal, mf)))
			x.label = "maxfee-boundary"
		}
	}
	if x.rcpt >= 0 && b.cur.acct(x.rcpt).code {
		// the recipient is a contract: a call
		x.sc = b.genScript(x, false, new(big.Int).Add(b.cur.acct(x.rcpt).bal, x.amount))
		if r.Chance(1, 4) {
			x.sc = &script{fee: new(big.Int), err: "ok"} // becomes the empty payload below
			x.payload = nil
			x.sc = nil
		} else {
			b.setFee(x, false)
		}
	}
	return x
}

func (b *blockGen) genGasLimit(payloadLen int) uint64 {
	r := b.s.rng
	tg := fee.TxGas(payloadLen)
	switch r.Intn(5) {
	case 0:
		if tg > 0 {
			return tg - 1
		}
		return 1
	case 1:
		return tg
	case 2:
		return tg + 1
	case 3:
		return tg + uint64(r.Intn(100000))
	}
	return tg * 3
}

func (b *blockGen) genDeploy() *txSpec {
	r := b.s.rng
	u := b.pickUser()
	x := &txSpec{typ: types.TxType_DEPLOY, sender: u, rcpt: -1, amount: new(big.Int)}
	if r.Chance(1, 3) {
		x.amount = b.randAmount(u)
	}
	if r.Chance(1, 8) {
		x.typ = types.TxType_NORMAL // legacy deploy: NORMAL without recipient, with payload
	}
	x.nonce, _ = b.randNonce(u)
	x.newAddr = b.s.t.of(contract.CreateContractID(b.s.t.addr[u], x.nonce))
	x.sc = b.genScript(x, false, x.amount)
	x.sc.xfers = nil
	if r.Chance(1, 2) {
		for i, n := 0, r.Intn(3); i < n; i++ {
			t := b.pickUser()
			x.sc.xfers = append(x.sc.xfers, xfer{t, new(big.Int).Div(x.amount, big.NewInt(int64(2+i)))})
		}
	}
	if r.Chance(1, 3) {
		x.sc.pad = r.Intn(300)
	}
	b.setFee(x, false)
	return x
}

func (b *blockGen) genRedeploy() *txSpec {
	r := b.s.rng
	cs := b.contracts()
	x := &txSpec{typ: types.TxType_REDEPLOY, amount: new(big.Int)}
	if len(cs) > 0 && !r.Chance(1, 6) {
		x.rcpt = cs[r.Intn(len(cs))]
		x.sender = b.pickUser()
		if c, ok := b.cur.creator[x.rcpt]; ok && r.Chance(3, 4) {
			x.sender = c
		}
	} else {
		x.sender = b.pickUser()
		x.rcpt = b.anyTarget()
	}
	x.nonce, _ = b.randNonce(x.sender)
	x.sc = b.genScript(x, false, b.cur.acct(x.rcpt).bal)
	b.setFee(x, false)
	return x
}

func (b *blockGen) genFeeDelegation() *txSpec {
	r := b.s.rng
	u := b.pickUser()
	x := &txSpec{typ: types.TxType_FEEDELEGATION, sender: u, amount: new(big.Int)}
	cs := b.contracts()
	if len(cs) > 0 && !r.Chance(1, 8) {
		x.rcpt = cs[r.Intn(len(cs))]
	} else {
		x.rcpt = b.anyTarget()
	}
	if r.Chance(1, 3) {
		x.amount = b.randAmount(u)
	}
	x.nonce, _ = b.randNonce(u)
	x.sc = b.genScript(x, true, new(big.Int).Add(b.cur.acct(x.rcpt).bal, x.amount))
	x.payload = b.s.scriptJSON(x.sc)
	if r.Chance(1, 3) && b.s.cfg.fv >= 2 && !fee.IsZeroFee() {
		// ValidateMaxFee(receiver balance): gasLimit * gasPrice against what the contract holds
		rb := b.cur.acct(x.rcpt).bal
		gl := new(big.Int).Div(rb, b.bs.GasPrice)
		gl = b.around(gl)
		if gl.IsUint64() && gl.Uint64() > 0 {
			x.gasLimit = gl.Uint64()
			x.label = "fd-maxfee-boundary"
		}
	}
	b.setFee(x, true)
	if !b.cur.acct(x.rcpt).code {
		// CheckFeeDelegation refuses a recipient without code ("cannot find contract"; the stub keeps that
		// precondition of the real function): the tx must be rejected without a trace - the other side of
		// the former FdTarget assumption, now inside the oracles' domain
		x.beyondVM = false
		x.label = "fd-to-non-contract"
	}
	return x
}

// namesTo: committed names whose destination is account i and whose owner holds a key the harness can sign
// with (executeTx resolves a name through the committed table; the signature verifier checks the signature
// of a tx sent under a name against the name's OWNER).
func (b *blockGen) namesTo(i int) []int {
	var ns []int
	for n := 1; n <= nNames; n++ {
		if nm, ok := b.pre.names[n]; ok && nm[1] == i && b.s.t.keys[nm[0]] != nil {
			ns = append(ns, n)
		}
	}
	return ns
}

// genOtherSender: transactions whose sender is NOT a key account - both sides of the `SenderOK` hypothesis of
// the conservation theorems, and of what the real signature verifier admits:
//   - under a NAME whose destination is a contract: signed by the name's owner (the contract's creator),
//     admitted by the verifier, executed with the contract account as the sender - to another account (inside
//     SenderOK), or to the contract itself (outside it);
//   - under the account "aergo.name": admitted iff the name contract has an owner with a key (v1setOwner);
//   - with a contract address as the account (no key can sign for it): refused by the verifier; executeTx
//     itself never looks at signatures, so these run in probe blocks for the model correspondence.
func (b *blockGen) genOtherSender() *txSpec {
	r := b.s.rng
	cs := b.contracts()
	// contracts reachable under a name
	type named struct{ c, n int }
	var nc []named
	for _, c := range cs {
		for _, n := range b.namesTo(c) {
			nc = append(nc, named{c, n})
		}
	}
	k := r.Intn(10)
	switch {
	case k < 4 && len(nc) > 0:
		p := nc[r.Intn(len(nc))]
		owner := b.pre.names[p.n][0]
		x := &txSpec{sender: p.c, asName: p.n, signer: owner, signerSet: true, nonce: b.nextNonce(p.c)}
		switch r.Intn(4) {
		case 0:
			x.typ, x.rcpt, x.amount, x.label = types.TxType_TRANSFER, b.pickUser(), b.randAmount(p.c), "name-contract-transfer"
		case 1:
			d := cs[r.Intn(len(cs))]
			if d == p.c {
				x.typ, x.rcpt, x.amount, x.label = types.TxType_TRANSFER, b.pickUser(), b.randAmount(p.c), "name-contract-transfer"
				break
			}
			x.typ, x.rcpt, x.amount, x.label = types.TxType_CALL, d, b.randAmount(p.c), "name-contract-calls-other"
			x.sc = b.genScript(x, false, new(big.Int).Add(b.cur.acct(d).bal, x.amount))
			b.setFee(x, false)
		default:
			// the contract account "calls" itself: recipient = its address, or the same name
			x.typ, x.rcpt, x.amount, x.label = types.TxType_CALL, p.c, b.randAmount(p.c), "name-contract-calls-itself"
			if r.Chance(1, 3) {
				x.rcptName = p.n
			}
			x.sc = b.genScript(x, false, b.cur.acct(p.c).bal)
			if len(x.sc.xfers) == 0 && x.sc.err == "ok" {
				x.sc.xfers = []xfer{{b.pickUser(), new(big.Int).Div(b.cur.acct(p.c).bal, big.NewInt(int64(2+r.Intn(5))))}}
			}
			b.setFee(x, false)
		}
		return x
	case k < 7:
		// the account "aergo.name"
		x := &txSpec{sender: iName, asName: -1, nonce: b.nextNonce(iName), amount: new(big.Int), label: "account-aergo.name"}
		if o, ok := b.pre.names[0]; ok {
			x.signer, x.signerSet = o[0], true
		}
		switch r.Intn(4) {
		case 0:
			a := b.pickUser()
			x.typ, x.rcpt = types.TxType_GOVERNANCE, iName
			x.gov = []string{"setowner", strconv.Itoa(a)}
			x.govJSON = `{"Name":"v1setOwner","Args":["` + types.EncodeAddress(b.s.t.addr[a]) + `"]}`
		case 1:
			x.typ, x.rcpt, x.amount = types.TxType_TRANSFER, b.pickUser(), b.randAmount(iName)
		default:
			n := 1 + r.Intn(nNames)
			x.typ, x.rcpt = types.TxType_GOVERNANCE, iName
			x.gov = []string{"ncreate", strconv.Itoa(n)}
			x.govJSON = `{"Name":"v1createName","Args":["` + nameStr(n) + `"]}`
			x.amount = b.around(b.s.cfg.namePrice)
		}
		return x
	case len(cs) > 0:
		// a contract address as the account: nobody can sign for it
		c := cs[r.Intn(len(cs))]
		x := &txSpec{sender: c, signer: -1, signerSet: true, nonce: b.nextNonce(c), amount: b.randAmount(c)}
		switch r.Intn(3) {
		case 0:
			x.typ, x.rcpt, x.label = types.TxType_TRANSFER, b.pickUser(), "unsigned-contract-transfer"
		case 1:
			d := cs[r.Intn(len(cs))]
			x.typ, x.rcpt, x.label = types.TxType_CALL, d, "unsigned-contract-call"
			x.sc = b.genScript(x, false, new(big.Int).Add(b.cur.acct(d).bal, x.amount))
			if d == c {
				x.sc = b.genScript(x, false, b.cur.acct(c).bal)
			}
			b.setFee(x, false)
		default:
			x.typ, x.rcpt, x.label = types.TxType_CALL, c, "unsigned-contract-calls-itself"
			x.sc = b.genScript(x, false, b.cur.acct(c).bal)
			if len(x.sc.xfers) == 0 && x.sc.err == "ok" {
				x.sc.xfers = []xfer{{b.pickUser(), new(big.Int).Div(b.cur.acct(c).bal, big.NewInt(int64(2+r.Intn(5))))}}
			}
			b.setFee(x, false)
		}
		return x
	}
	return b.genTransferLike()
}

// useNames: give the account and / or the recipient of a generated transaction by name where a committed
// name resolves to it (name.Resolve in executeTx; the verifier checks the signature against the name's owner).
func (b *blockGen) useNames(x *txSpec) *txSpec {
	r := b.s.rng
	if x.asName == 0 && !x.signerSet && r.Chance(1, 6) {
		if ns := b.namesTo(x.sender); len(ns) > 0 {
			x.asName = ns[r.Intn(len(ns))]
			x.signer, x.signerSet = b.pre.names[x.asName][0], true
			b.s.run.Count("account-by-name")
		}
	}
	if x.rcpt >= 0 && x.rcptName == 0 && x.typ != types.TxType_GOVERNANCE && r.Chance(1, 6) {
		if ns := b.namesTo(x.rcpt); len(ns) > 0 {
			x.rcptName = ns[r.Intn(len(ns))]
			b.s.run.Count("recipient-by-name")
		}
	}
	return x
}

func (b *blockGen) genMulticall() *txSpec {
	u := b.pickUser()
	x := &txSpec{typ: types.TxType_MULTICALL, sender: u, rcpt: -1, amount: new(big.Int)}
	x.nonce, _ = b.randNonce(u)
	x.sc = &script{fee: new(big.Int), err: "ok"}
	if b.s.rng.Chance(2, 3) {
		// a multicall script: transfers out of the sender's own account (`receiver = sender`), VM fee on the
		// boundaries, every error class
		x.rcpt = u // genScript / setFee look at the "called" account: the sender's own
		x.sc = b.genScript(x, false, b.cur.acct(u).bal)
		x.sc.multi = true
		x.rcpt = -1
		if b.s.rng.Chance(1, 3) {
			x.gasLimit = b.genGasLimit(len(b.s.scriptJSON(x.sc)))
		}
		b.setFee(x, false)
		x.label = "multicall-script"
	}
	if b.s.rng.Chance(1, 6) {
		x.amount = big.NewInt(1) // refused: a multicall carries no amount
	}
	return x
}

const peerID = "16Uiu2HAmPZE7gT1hF2bjpg1UVH65xyNUbBVRf3mBFBJpz3tgLGGt"

func (b *blockGen) genGov() *txSpec {
	r := b.s.rng
	u := b.pickUser()
	x := &txSpec{typ: types.TxType_GOVERNANCE, sender: u, amount: new(big.Int)}
	bal := b.cur.acct(u).bal
	staked := new(big.Int)
	if k, ok := b.cur.staking[u]; ok {
		staked = k.amt
	}
	smin := b.s.cfg.stakingMin
	switch r.Intn(12) {
	case 0, 1, 2:
		x.rcpt, x.gov, x.govJSON = iSystem, []string{"stake"}, `{"Name":"v1stake"}`
		switch r.Intn(5) {
		case 0:
			x.amount = b.around(clampNonNeg(new(big.Int).Sub(smin, staked)))
			x.label = "stake-min-boundary"
		case 1:
			x.amount = b.around(bal)
			x.label = "stake-balance-boundary"
		default:
			x.amount = new(big.Int).Add(smin, big.NewInt(int64(r.Intn(50))))
		}
	case 3, 4:
		x.rcpt, x.gov, x.govJSON = iSystem, []string{"unstake"}, `{"Name":"v1unstake"}`
		switch r.Intn(5) {
		case 0:
			x.amount = b.around(staked)
			x.label = "unstake-all-boundary"
		case 1:
			x.amount = b.around(clampNonNeg(new(big.Int).Sub(staked, smin)))
			x.label = "unstake-min-boundary"
		default:
			x.amount = big.NewInt(int64(r.Intn(20)))
		}
	case 5:
		x.rcpt, x.gov, x.govJSON = iSystem, []string{"vote"}, `{"Name":"v1voteBP","Args":["`+peerID+`"]}`
	case 6, 7:
		n := 1 + r.Intn(nNames)
		x.rcpt, x.gov = iName, []string{"ncreate", strconv.Itoa(n)}
		x.govJSON = `{"Name":"v1createName","Args":["` + nameStr(n) + `"]}`
		x.amount = b.around(b.s.cfg.namePrice)
		if r.Chance(1, 5) {
			x.amount = b.around(bal)
		}
	case 8:
		n := 1 + r.Intn(nNames)
		to := b.anyTarget()
		if to < iCoinbase {
			to = b.pickUser()
		}
		x.rcpt, x.gov = iName, []string{"nupdate", strconv.Itoa(n), strconv.Itoa(to)}
		x.govJSON = `{"Name":"v1updateName","Args":["` + nameStr(n) + `","` + types.EncodeAddress(b.s.t.addr[to]) + `"]}`
		if o, ok := b.cur.names[n]; ok && r.Chance(4, 5) {
			x.sender = o[0]
			if x.sender < iUser0 || x.sender >= iUser0+nUsers {
				x.sender = u
			}
		}
		x.amount = b.around(b.s.cfg.namePrice)
	case 9:
		a := b.pickUser()
		switch r.Intn(5) {
		case 0:
			a = u // the new owner is the sender
		case 1:
			a = iName
		case 2:
			a = iGhost0
		}
		x.rcpt, x.gov = iName, []string{"setowner", strconv.Itoa(a)}
		as := types.EncodeAddress(b.s.t.addr[a])
		if a == iName {
			as = types.AergoName
		}
		x.govJSON = `{"Name":"v1setOwner","Args":["` + as + `"]}`
	case 10:
		x.rcpt, x.gov, x.govJSON = []int{iSystem, iName}[r.Intn(2)], []string{"badgov"}, `{"Name":"v1nothing","Args":["x"]}`
	default:
		// a governance tx to something that is no governance contract
		x.rcpt, x.gov, x.govJSON = b.pickUser(), []string{"stake"}, `{"Name":"v1stake"}`
	}
	x.nonce, _ = b.randNonce(x.sender)
	return x
}

// genPrefund: a transfer to the address the sender's next deploy would create (CreateContractID is
// predictable): the deploy is then refused ("account already exists").
func (b *blockGen) genPrefund() *txSpec {
	u := b.pickUser()
	v := b.pickUser()
	x := &txSpec{typ: types.TxType_TRANSFER, sender: u, amount: big.NewInt(int64(b.s.rng.Intn(3)))}
	x.rcpt = b.s.t.of(contract.CreateContractID(b.s.t.addr[v], b.nextNonce(v)+uint64(b2i(u == v))))
	x.nonce = b.nextNonce(u)
	x.label = "prefund-contract-address"
	return x
}

// genRejectAfterCommit: a call whose scripted VM fee exceeds everything the sender ever held (outside
// the real VM's gas bound: labelled beyondVM). The VM writes third accounts and storage, Execute's fee
// check fails, resetAccount finds the fee greater than the balance: the tx is REJECTED after all those
// writes, and the executor's rollback has to undo them.
func (b *blockGen) genRejectAfterCommit() *txSpec {
	cs := b.contracts()
	if len(cs) == 0 {
		return b.genTransferLike()
	}
	u := b.pickUser()
	ct := cs[b.s.rng.Intn(len(cs))]
	x := &txSpec{typ: types.TxType_CALL, sender: u, rcpt: ct, amount: big.NewInt(int64(b.s.rng.Intn(3))), nonce: b.nextNonce(u), label: "reject-after-vm-commit"}
	x.sc = &script{fee: new(big.Int).Add(b.cur.acct(u).bal, big.NewInt(1)), err: "ok",
		xfers: []xfer{{iGhost0 + b.s.rng.Intn(nGhosts), new(big.Int)}, {b.pickUser(), new(big.Int).Div(b.cur.acct(ct).bal, big.NewInt(3))}},
		sets: [][2]int{{b.s.rng.Intn(nKeys), 1 + b.s.rng.Intn(9)}}}
	x.payload = b.s.scriptJSON(x.sc)
	x.beyondVM = true
	return x
}

func (b *blockGen) genAny() *txSpec { return b.useNames(b.genAny0()) }

func (b *blockGen) genAny0() *txSpec {
	if b.s.rng.Chance(1, 40) {
		return b.genPrefund()
	}
	if b.s.rng.Chance(1, 30) {
		return b.genRejectAfterCommit()
	}
	if b.s.rng.Chance(1, 25) {
		return b.genOtherSender()
	}
	switch b.s.rng.Intn(20) {
	case 0, 1, 2, 3, 4, 5:
		return b.genTransferLike()
	case 6, 7, 8:
		return b.genDeploy()
	case 9:
		if !b.s.cfg.public {
			return b.genRedeploy()
		}
		return b.genTransferLike()
	case 10, 11, 12:
		return b.genFeeDelegation()
	case 13:
		return b.genMulticall()
	default:
		return b.genGov()
	}
}

// ---------------------------------------------------------------- sessions

func defaultCfg(fv int32, public bool, r *vh.Rng) cfg {
	c := cfg{fv: fv, public: public}
	c.gasPrice = []*big.Int{bn(1), bn(3), new(big.Int).Mul(bn(50), pow10(9))}[r.Intn(3)]
	c.namePrice = []*big.Int{bn(5), pow10(18)}[r.Intn(2)]
	c.stakingMin = []*big.Int{bn(100), pow10(22)}[r.Intn(2)]
	return c
}

func (s *session) fundAll() {
	r := s.rng
	big1 := new(big.Int).Mul(bn(int64(1+r.Intn(9))), pow10(24))
	for i := 0; i < nUsers; i++ {
		var v *big.Int
		switch r.Intn(5) {
		case 0:
			v = bn(int64(r.Intn(3000))) // poor
		case 1:
			v = new(big.Int).Add(fee.TxBaseFee(s.cfg.fv, s.cfg.gasPrice, 0), bn(int64(r.Intn(5))-2)) // just about one base fee
			v = clampNonNeg(v)
		default:
			v = new(big.Int).Add(big1, bn(int64(r.Intn(1000))))
		}
		s.fund(iUser0+i, v)
	}
	s.fund(iSystem, bn(int64(r.Intn(1000))))
	if !r.Chance(1, 4) {
		s.fund(iName, bn(int64(1+r.Intn(100000))))
	}
	// the voting-reward fund: empty, around one reward, or plenty
	rw := system.GetVotingRewardAmount()
	switch r.Intn(4) {
	case 0:
	case 1:
		s.fund(iVault, clampNonNeg(new(big.Int).Add(rw, bn(int64(r.Intn(3))-1))))
	case 2:
		s.fund(iVault, new(big.Int).Add(new(big.Int).Mul(rw, bn(2)), bn(1)))
	default:
		s.fund(iVault, new(big.Int).Mul(rw, bn(1000)))
	}
	if r.Chance(1, 2) {
		s.fund(iCoinbase, bn(int64(r.Intn(100))))
	}
}

func (s *session) pickCoinbase(mode int) int {
	switch mode {
	case 0:
		return -1
	case 1:
		return iCoinbase
	}
	return iUser0 + s.rng.Intn(nUsers) // the producer's coinbase also sends and receives
}

// randomSession: mixed blocks.
func randomSession(run *vh.Run, prop string, rng *vh.Rng, n int, fv int32, public bool, cbMode int, blocks, txs int) {
	s := newSession(run, prop, rng, defaultCfg(fv, public, rng), n)
	s.fundAll()
	// a first block that sets the scene: contracts, stakes, a vote, names
	s.block(func(b *blockGen) {
		for i := 0; i < 3; i++ {
			x := b.genDeploy()
			x.nonce = b.nextNonce(x.sender)
			b.submit(x)
		}
		for i := 0; i < 2; i++ {
			u := iUser0 + i
			b.submit(&txSpec{typ: types.TxType_GOVERNANCE, sender: u, rcpt: iSystem, amount: new(big.Int).Add(s.cfg.stakingMin, bn(int64(i))), nonce: b.nextNonce(u),
				gov: []string{"stake"}, govJSON: `{"Name":"v1stake"}`})
			if s.cfg.fv >= 2 || i == 0 {
				b.submit(&txSpec{typ: types.TxType_GOVERNANCE, sender: u, rcpt: iSystem, amount: new(big.Int), nonce: b.nextNonce(u),
					gov: []string{"vote"}, govJSON: `{"Name":"v1voteBP","Args":["` + peerID + `"]}`})
			}
		}
		u := iUser0 + 2
		b.submit(&txSpec{typ: types.TxType_GOVERNANCE, sender: u, rcpt: iName, amount: s.cfg.namePrice, nonce: b.nextNonce(u),
			gov: []string{"ncreate", "1"}, govJSON: `{"Name":"v1createName","Args":["` + nameStr(1) + `"]}`})
	}, s.pickCoinbase(cbMode), false)
	// a second scene block: name 1 (committed by now) is pointed at a contract - its owner becomes the
	// contract's creator, who can from then on send transactions under that name *as the contract account* -
	// and name 2 is created for a user (account / recipient by name)
	s.block(func(b *blockGen) {
		u := iUser0 + 2
		if cs := b.contracts(); len(cs) > 0 && b.pre.names[1][0] == u {
			ct := cs[rng.Intn(len(cs))]
			b.submit(&txSpec{typ: types.TxType_GOVERNANCE, sender: u, rcpt: iName, amount: s.cfg.namePrice, nonce: b.nextNonce(u),
				gov:     []string{"nupdate", "1", strconv.Itoa(ct)},
				govJSON: `{"Name":"v1updateName","Args":["` + nameStr(1) + `","` + types.EncodeAddress(s.t.addr[ct]) + `"]}`, label: "scene-name-to-contract"})
		}
		v := iUser0 + 3
		b.submit(&txSpec{typ: types.TxType_GOVERNANCE, sender: v, rcpt: iName, amount: s.cfg.namePrice, nonce: b.nextNonce(v),
			gov: []string{"ncreate", "2"}, govJSON: `{"Name":"v1createName","Args":["` + nameStr(2) + `"]}`, label: "scene-name-for-user"})
	}, s.pickCoinbase(cbMode), false)
	for k := 0; k < blocks && !s.aborted; k++ {
		if rng.Chance(1, 3) {
			// a block state that is never committed, with transactions no signature could cover
			np := 1 + rng.Intn(txs)
			s.probeBlock(func(b *blockGen) {
				for i := 0; i < np && !s.aborted; i++ {
					if rng.Chance(1, 2) {
						b.submit(b.genOtherSender())
					} else {
						b.submit(b.genAny())
					}
				}
			})
		}
		// time passes: sometimes exactly up to the staking / voting delay
		switch rng.Intn(6) {
		case 0:
			s.blockNo += system.StakingDelay - 2 + uint64(rng.Intn(4))
		case 1:
			s.blockNo += 2 * system.StakingDelay
		}
		if rng.Chance(1, 8) && s.cfg.fv < 4 {
			s.cfg.fv++ // a hard fork between two blocks
		}
		nt := 1 + rng.Intn(txs)
		s.block(func(b *blockGen) {
			for i := 0; i < nt && !s.aborted; i++ {
				b.submit(b.genAny())
			}
		}, s.pickCoinbase(cbMode), prop == "C03" || rng.Chance(1, 3))
	}
	os.RemoveAll(s.dir)
}

// boundarySession: every tx type at balance = need-1, need, need+1 (need = amount + maximum fee).
func boundarySession(run *vh.Run, prop string, rng *vh.Rng, n int, fv int32, public bool, cbMode int) {
	c := defaultCfg(fv, public, rng)
	s := newSession(run, prop, rng, c, n)
	rich := new(big.Int).Mul(bn(5), pow10(24))
	s.fund(iUser0, rich)
	s.fund(iUser0+1, rich)
	s.fund(iName, bn(777))
	s.fund(iVault, system.GetVotingRewardAmount())
	amount := bn(int64(1000 + rng.Intn(1000)))
	// users 2..4 hold exactly need-1, need, need+1 for a plain transfer
	mf, err := fee.TxMaxFee(fv, 0, 0, new(big.Int).Mul(rich, bn(1)), c.gasPrice)
	if err != nil {
		panic(err)
	}
	base := fee.TxBaseFee(fv, c.gasPrice, 0)
	_ = mf
	for d := 0; d < 3; d++ {
		need := new(big.Int).Add(amount, base)
		s.fund(iUser0+2+d, clampNonNeg(new(big.Int).Add(need, bn(int64(d-1)))))
	}
	s.block(func(b *blockGen) {
		// a contract to call, deployed by user 0
		dep := &txSpec{typ: types.TxType_DEPLOY, sender: iUser0, rcpt: -1, amount: bn(5000), nonce: 1, sc: &script{fee: new(big.Int), err: "ok"}}
		b.submit(dep)
		for d := 0; d < 3; d++ {
			u := iUser0 + 2 + d
			for _, ty := range []types.TxType{types.TxType_TRANSFER, types.TxType_NORMAL, types.TxType_CALL} {
				x := &txSpec{typ: ty, sender: u, rcpt: iUser0 + 1, amount: amount, nonce: b.nextNonce(u), label: fmt.Sprintf("need%+d", d-1)}
				if !b.submit(x) {
					continue
				}
				// give it back so that the next type meets the same balance
				back := new(big.Int).Sub(new(big.Int).Add(amount, base), new(big.Int))
				b.submit(&txSpec{typ: types.TxType_TRANSFER, sender: iUser0 + 1, rcpt: u, amount: back, nonce: b.nextNonce(iUser0 + 1)})
			}
		}
	}, s.pickCoinbase(cbMode), prop == "C03")
	s.block(func(b *blockGen) {
		cs := b.contracts()
		if len(cs) == 0 {
			return
		}
		ct := cs[0]
		// calls whose VM fee empties the sender exactly, one less, one more (within the gas bound)
		for d := -1; d <= 1; d++ {
			u := iUser0
			x := &txSpec{typ: types.TxType_CALL, sender: u, rcpt: ct, amount: bn(10), nonce: b.nextNonce(u), label: fmt.Sprintf("vmfee%+d", d)}
			x.sc = &script{fee: new(big.Int), err: "ok", xfers: []xfer{{iUser0 + 3, bn(7)}}, sets: [][2]int{{1, 1 + d + 1}}}
			dd := int64(d)
			b.fitFee(x, false, func(bound, room *big.Int) *big.Int { return new(big.Int).Add(bound, big.NewInt(dd)) })
			b.submit(x)
		}
		// fee delegation: the contract pays; it sends away what it holds
		for d := -1; d <= 1; d++ {
			u := iUser0 + 1
			hold := b.cur.acct(ct).bal
			x := &txSpec{typ: types.TxType_FEEDELEGATION, sender: u, rcpt: ct, amount: new(big.Int), nonce: b.nextNonce(u), label: fmt.Sprintf("fd-drain%+d", d)}
			x.sc = &script{fee: new(big.Int), err: "ok"}
			x.payload = s.scriptJSON(x.sc)
			basefd := b.baseFee(len(x.payload) + 60)
			keep := clampNonNeg(new(big.Int).Add(basefd, bn(int64(d)*1000000)))
			send := clampNonNeg(new(big.Int).Sub(hold, keep))
			x.sc.xfers = []xfer{{iUser0 + 4, send}}
			b.submit(x)
			// refill the contract
			b.submit(&txSpec{typ: types.TxType_TRANSFER, sender: iUser0, rcpt: ct, amount: new(big.Int).Mul(bn(4), pow10(20)), nonce: b.nextNonce(iUser0)})
		}
		// v1setOwner with the sender as the new owner (DESIGN §5 lead 11), and to somebody else
		if rng.Chance(1, 2) {
			b.submit(&txSpec{typ: types.TxType_GOVERNANCE, sender: iUser0, rcpt: iName, amount: new(big.Int), nonce: b.nextNonce(iUser0),
				gov: []string{"setowner", strconv.Itoa(iUser0)}, govJSON: `{"Name":"v1setOwner","Args":["` + types.EncodeAddress(s.t.addr[iUser0]) + `"]}`, label: "setowner-self"})
		} else {
			b.submit(&txSpec{typ: types.TxType_GOVERNANCE, sender: iUser0, rcpt: iName, amount: new(big.Int), nonce: b.nextNonce(iUser0),
				gov: []string{"setowner", strconv.Itoa(iUser0 + 1)}, govJSON: `{"Name":"v1setOwner","Args":["` + types.EncodeAddress(s.t.addr[iUser0+1]) + `"]}`, label: "setowner-other"})
		}
		b.submit(&txSpec{typ: types.TxType_GOVERNANCE, sender: iUser0 + 1, rcpt: iName, amount: c.namePrice, nonce: b.nextNonce(iUser0 + 1),
			gov: []string{"ncreate", "2"}, govJSON: `{"Name":"v1createName","Args":["` + nameStr(2) + `"]}`})
	}, s.pickCoinbase(cbMode), prop == "C03")
	os.RemoveAll(s.dir)
}

// Main runs the harness for property prop ("C01" or "C03").
func Main(prop string) {
	rule := "nontrivial = the transaction was executed (a receipt was written: SUCCESS/CREATED/RECREATED/ERROR) or a block-level operation; rejected transactions are evaluated but not counted as non-trivial"
	run := vh.Start(strings.ToLower(prop), rule)
	if os.Getenv("C01_LOG") == "" {
		zerolog.SetGlobalLevel(zerolog.Disabled)
	}
	dpos.VerifC01DecorateBlockReward()
	// what the node's start-up does with its configuration (VerifierCount = number of signature workers)
	if err := chain.Init(1<<20, "", false, 20, 2); err != nil {
		panic(err)
	}
	n := 0
	nRandom := run.Pick(6, 40)
	blocks := run.Pick(5, 12)
	txs := run.Pick(10, 12)
	if prop == "C03" {
		blocks = run.Pick(4, 10)
	}
	for rep := 0; rep < nRandom; rep++ {
		for fv := int32(0); fv <= 4; fv++ {
			for _, public := range []bool{true, false} {
				for cbMode := 0; cbMode < 3; cbMode++ {
					if rep > 0 && cbMode == 2 && !run.Rng.Chance(1, 2) {
						continue
					}
					n++
					randomSession(run, prop, run.Rng.Fork(), n, fv, public, cbMode, blocks, txs)
				}
			}
		}
	}
	for rep := 0; rep < run.Pick(1, 6); rep++ {
		for fv := int32(0); fv <= 4; fv++ {
			for _, public := range []bool{true, false} {
				for cbMode := 0; cbMode < 2; cbMode++ {
					n++
					boundarySession(run, prop, run.Rng.Fork(), n, fv, public, cbMode)
				}
			}
		}
	}
	run.Count(fmt.Sprintf("sessions"))
	run.Finish()
}
