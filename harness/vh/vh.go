// Package vh: shared plumbing of the correspondence harnesses (injected at
// /repo/zz_verif/vh by the build overlay). One PRNG state per run (splitmix64 from
// VERIF_SEED) drives every random choice; every harness writes
//
//	<out>/ops.txt      one operation per line (input of the Lean model driver)
//	<out>/impl.txt     one line per operation: what the real code did (canonicalised)
//	<out>/summary.json counts, distribution, samples, oracle failures
package vh

import (
	"bufio"
	"crypto/sha256"
	"encoding/json"
	"flag"
	"fmt"
	"os"
	"path/filepath"
	"sort"
	"strings"
	"time"
)

type Rng struct{ s uint64 }

// NewRng mixes the seed through the output function first: splitmix64 streams whose states differ by a
// multiple of the increment are shifted copies of each other, so the raw seed must not be the state.
func NewRng(seed uint64) *Rng {
	r := &Rng{s: seed ^ 0x5DEECE66D1234567}
	r.s = r.Next() ^ (seed * 0xD1342543DE82EF95)
	r.Next()
	return r
}

func (r *Rng) Next() uint64 {
	r.s += 0x9E3779B97F4A7C15
	z := r.s
	z = (z ^ (z >> 30)) * 0xBF58476D1CE4E5B9
	z = (z ^ (z >> 27)) * 0x94D049BB133111EB
	return z ^ (z >> 31)
}
func (r *Rng) Intn(n int) int {
	if n <= 0 {
		return 0
	}
	return int(r.Next() % uint64(n))
}
func (r *Rng) Int63() int64 { return int64(r.Next() >> 1) }
func (r *Rng) Bool() bool   { return r.Next()&1 == 1 }
func (r *Rng) Chance(num, den int) bool {
	return r.Intn(den) < num
}
func (r *Rng) Bytes(n int) []byte {
	b := make([]byte, n)
	for i := range b {
		b[i] = byte(r.Next())
	}
	return b
}
func (r *Rng) Fork() *Rng { return NewRng(r.Next()) }

type Failure struct {
	What   string      `json:"what"`
	Known  string      `json:"known,omitempty"` // id of a known-finding class this failure belongs to ("" = none)
	Replay interface{} `json:"replay"`
}

type Summary struct {
	Harness     string         `json:"harness"`
	Seed        uint64         `json:"seed"`
	Tier        string         `json:"tier"`
	Evaluations int            `json:"evaluations"`
	Distinct    int            `json:"distinct_nontrivial"`
	Rule        string         `json:"rule"`
	Exhaustive  bool           `json:"exhaustive"`
	Dist        map[string]int `json:"distribution"`
	Samples     []string       `json:"samples"`
	Failures    []Failure      `json:"oracle_failures"`
	Crashed     []string       `json:"crashed,omitempty"`
	WallS       float64        `json:"wall_s"`
}

type Run struct {
	Seed     uint64
	Tier     string
	Out      string
	Rng      *Rng
	Replay   string
	ops      *bufio.Writer
	impl     *bufio.Writer
	fo, fi   *os.File
	seen     map[[16]byte]struct{}
	sum      Summary
	start    time.Time
	maxFail  int
	evalIn   string
	flush    bool
	nUnknown int
}

// Pending writes the operation line *before* the real code runs (only in flush mode, which the
// check uses to re-run a crashed harness): if the process dies inside the real code the last line
// of ops.txt is the operation that killed it.
func (r *Run) Pending(op string) {
	if r.flush {
		r.ops.WriteString("#pending " + strings.ReplaceAll(op, "\n", "\\n") + "\n")
		r.ops.Flush()
	}
}

// EvalTerms: when the harness was started with -evalterms <file>, rewrite every line of <file>
// with f (which evaluates the hash terms the model printed, using the node's own hasher) into
// <file>.eval and exit. Must be called right after Start.
func (r *Run) EvalTerms(f func(line string) string) {
	if r.evalIn == "" {
		return
	}
	in, err := os.Open(r.evalIn)
	if err != nil {
		panic(err)
	}
	out, err := os.Create(r.evalIn + ".eval")
	if err != nil {
		panic(err)
	}
	w := bufio.NewWriterSize(out, 1<<20)
	sc := bufio.NewScanner(in)
	sc.Buffer(make([]byte, 1<<20), 1<<28)
	for sc.Scan() {
		w.WriteString(f(sc.Text()))
		w.WriteByte('\n')
	}
	w.Flush()
	out.Close()
	os.Exit(0)
}

func Start(name, rule string) *Run {
	seed := flag.Uint64("seed", 1, "VERIF_SEED")
	tier := flag.String("tier", "quick", "quick|thorough")
	out := flag.String("out", "", "output directory")
	replay := flag.String("replay", "", "replay file (ops to re-run instead of generating)")
	evalIn := flag.String("evalterms", "", "evaluate the hash terms in this model output file (written to <file>.eval) and exit")
	flag.Parse()
	if *evalIn != "" {
		return &Run{evalIn: *evalIn, Rng: NewRng(0)}
	}
	if *out == "" {
		fmt.Fprintln(os.Stderr, "need -out")
		os.Exit(2)
	}
	os.MkdirAll(*out, 0o755)
	r := &Run{Seed: *seed, Tier: *tier, Out: *out, Rng: NewRng(*seed), Replay: *replay,
		seen: map[[16]byte]struct{}{}, start: time.Now(), maxFail: 20}
	var err error
	if r.fo, err = os.Create(filepath.Join(*out, "ops.txt")); err != nil {
		panic(err)
	}
	if r.fi, err = os.Create(filepath.Join(*out, "impl.txt")); err != nil {
		panic(err)
	}
	r.ops = bufio.NewWriterSize(r.fo, 1<<20)
	r.impl = bufio.NewWriterSize(r.fi, 1<<20)
	r.flush = os.Getenv("VERIF_FLUSH") != ""
	r.sum = Summary{Harness: name, Seed: *seed, Tier: *tier, Rule: rule, Dist: map[string]int{}}
	return r
}

func (r *Run) Thorough() bool { return r.Tier == "thorough" }

// Pick returns q in the quick tier and t in the thorough tier.
func (r *Run) Pick(q, t int) int {
	if r.Thorough() {
		return t
	}
	return q
}

// Op records one operation and the implementation's canonical answer.
// nontrivial: the operation reached a non-error, non-degenerate path (by the harness' rule).
func (r *Run) Op(op, out string, nontrivial bool) {
	op = strings.ReplaceAll(op, "\n", "\\n")
	out = strings.ReplaceAll(out, "\n", "\\n")
	r.ops.WriteString(op)
	r.ops.WriteByte('\n')
	r.impl.WriteString(out)
	r.impl.WriteByte('\n')
	if r.flush {
		r.ops.Flush()
		r.impl.Flush()
	}
	r.sum.Evaluations++
	if nontrivial {
		h := sha256.Sum256([]byte(op + "\x00" + out))
		var k [16]byte
		copy(k[:], h[:16])
		if _, ok := r.seen[k]; !ok {
			r.seen[k] = struct{}{}
			r.sum.Distinct++
		}
	}
	if len(r.sum.Samples) < 12 && (r.sum.Evaluations < 4 || r.Rng.s%97 == uint64(r.sum.Evaluations%97)) {
		r.sum.Samples = append(r.sum.Samples, op+" => "+out)
	}
}

// Eval counts an oracle evaluation that has no model-side line.
func (r *Run) Eval(key string, nontrivial bool) {
	r.sum.Evaluations++
	if nontrivial {
		h := sha256.Sum256([]byte(key))
		var k [16]byte
		copy(k[:], h[:16])
		if _, ok := r.seen[k]; !ok {
			r.seen[k] = struct{}{}
			r.sum.Distinct++
		}
	}
}

func (r *Run) Sample(s string) {
	if len(r.sum.Samples) < 16 {
		r.sum.Samples = append(r.sum.Samples, s)
	}
}

func (r *Run) Count(key string) { r.sum.Dist[key]++ }

func (r *Run) SetExhaustive(b bool) { r.sum.Exhaustive = b }

// Fail records a failure of the property's own predicate on the implementation.
func (r *Run) Fail(what string, replay interface{}) { r.FailKnown(what, "", replay) }

func (r *Run) FailKnown(what, known string, replay interface{}) {
	r.Count("oracle-fail")
	if known != "" {
		// failures of a (possibly) listed class must never use up the slots of unlisted ones
		r.Count("oracle-fail-class:" + known)
		if r.sum.Dist["oracle-fail-class:"+known] > 2 {
			return
		}
		r.sum.Failures = append(r.sum.Failures, Failure{What: what, Known: known, Replay: replay})
		return
	}
	r.nUnknown++
	if r.nUnknown <= r.maxFail {
		r.sum.Failures = append(r.sum.Failures, Failure{What: what, Known: known, Replay: replay})
	}
}

func (r *Run) Crash(op string) {
	if len(r.sum.Crashed) < 20 {
		r.sum.Crashed = append(r.sum.Crashed, op)
	}
}

func (r *Run) Finish() {
	r.ops.Flush()
	r.impl.Flush()
	r.fo.Close()
	r.fi.Close()
	r.sum.WallS = time.Since(r.start).Seconds()
	keys := make([]string, 0, len(r.sum.Dist))
	for k := range r.sum.Dist {
		keys = append(keys, k)
	}
	sort.Strings(keys)
	b, _ := json.MarshalIndent(r.sum, "", " ")
	os.WriteFile(filepath.Join(r.Out, "summary.json"), b, 0o644)
}

// Guard runs f and converts a Go panic into ("panic: ...", true).
func Guard(f func() string) (out string, panicked bool) {
	defer func() {
		if e := recover(); e != nil {
			out = fmt.Sprintf("panic: %v", e)
			panicked = true
		}
	}()
	return f(), false
}
