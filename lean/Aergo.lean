import Aergo.Model.Slot
import Aergo.Model.Enc
import Aergo.Props.C09
