/-
Helper lemmas for C14 (`Aergo.Props.C14`): a compositional "panics only at sites of `u`" predicate
over the `Outcome` monad of `Aergo.Model.Admit`, and one lemma per model function.
-/
import Aergo.Model.Admit

namespace Aergo.Admit
open Aergo.Json

/-- `x` panics only at sites listed in `u`. -/
def Safe (u : List Site) (x : Outcome α) : Prop := ∀ s, x = .panic s → s ∈ u

theorem safe_ok {u : List Site} (a : α) : Safe u (Outcome.ok a) := by intro s h; cases h
theorem safe_pure {u : List Site} (a : α) : Safe u (pure a : Outcome α) := safe_ok a
theorem safe_reject {u : List Site} (r : Rej) : Safe u (Outcome.reject r : Outcome α) := by intro s h; cases h
theorem safe_panic {u : List Site} {s : Site} (h : s ∈ u) : Safe u (Outcome.panic s : Outcome α) := by
  intro s' h'; cases h'; exact h

theorem safe_bind {u : List Site} {x : Outcome α} {f : α → Outcome β}
    (hx : Safe u x) (hf : ∀ a, x = .ok a → Safe u (f a)) : Safe u (x >>= f) := by
  cases x with
  | ok a => exact hf a rfl
  | reject r => exact safe_reject r
  | panic s => intro s' h; cases h; exact hx s rfl

theorem safe_rejectIf {u : List Site} (c : Bool) (r : Rej) : Safe u (rejectIf c r) := by
  unfold rejectIf; split <;> first | exact safe_reject _ | exact safe_ok _

theorem rejectIf_ok {c : Bool} {r : Rej} {a : Unit} (h : rejectIf c r = .ok a) : c = false := by
  unfold rejectIf at h; split at h <;> simp_all

theorem safe_fixGuard {u : List Site} (s : Site) (c : Bool) (r : Rej) : Safe u (fixGuard u s c r) := by
  unfold fixGuard; split <;> first | exact safe_reject _ | exact safe_ok _

/-- After the repair guard of a site: either the site is still unguarded, or the bad case is excluded. -/
theorem fixGuard_ok {u : List Site} {s : Site} {c : Bool} {r : Rej} {a : Unit}
    (h : fixGuard u s c r = .ok a) : s ∈ u ∨ c = false := by
  unfold fixGuard at h
  split at h
  · cases h
  · rename_i hc
    cases c
    · exact .inr rfl
    · left; simpa using hc

theorem safe_idx {u : List Site} (s : Site) (xs : List α) (i : Nat) (h : s ∈ u ∨ i < xs.length) :
    Safe u (idx s xs i) := by
  unfold idx
  split
  · exact safe_ok _
  · rename_i hn
    rcases h with h | h
    · exact safe_panic h
    · simp at hn; omega

theorem idx_ok {s : Site} {xs : List α} {i : Nat} {v : α} (h : idx s xs i = .ok v) : xs[i]? = some v := by
  unfold idx at h; split at h <;> simp_all

theorem safe_sliceFrom {u : List Site} (s : Site) (xs : List α) (i : Nat) (h : s ∈ u ∨ i ≤ xs.length) :
    Safe u (sliceFrom s xs i) := by
  unfold sliceFrom
  split
  · exact safe_ok _
  · rcases h with h | h
    · exact safe_panic h
    · omega

theorem safe_asStr {u : List Site} (s : Site) (v : JVal) (h : s ∈ u ∨ isStr v = true) : Safe u (asStr s v) := by
  cases v <;> simp [asStr, isStr, str?] at h ⊢ <;> first | exact safe_ok _ | exact safe_panic h

theorem safe_argStr {u : List Site} (s : Site) (xs : List JVal) (i : Nat)
    (h : s ∈ u ∨ ∃ v, xs[i]? = some v ∧ isStr v = true) : Safe u (argStr s xs i) := by
  unfold argStr
  apply safe_bind
  · apply safe_idx
    rcases h with h | ⟨v, hv, _⟩
    · exact .inl h
    · right
      have := List.getElem?_eq_some_iff.mp hv
      exact this.1
  · intro a ha
    apply safe_asStr
    rcases h with h | ⟨v, hv, hs⟩
    · exact .inl h
    · right
      have := idx_ok ha
      rw [hv] at this
      cases this
      exact hs

theorem bind_ok {x : Outcome α} {f : α → Outcome β} {b : β} (h : x >>= f = .ok b) :
    ∃ a, x = .ok a ∧ f a = .ok b := by
  cases x with
  | ok a => exact ⟨a, rfl, h⟩
  | reject r => cases h
  | panic s => cases h

theorem rejectIf_dec {p : Prop} [Decidable p] {r : Rej} {a : Unit} (h : rejectIf (decide p) r = .ok a) : ¬ p :=
  of_decide_eq_false (rejectIf_ok h)

/-! ### types/transaction.go -/

theorem safe_typesNameCommon (u : List Site) (ci : CallInfo) : Safe u (typesNameCommon ci) := by
  unfold typesNameCommon
  apply safe_bind (safe_rejectIf _ _)
  intro _ h1
  have h1 := rejectIf_dec h1
  apply safe_bind
  · apply safe_idx; right; omega
  · intro a0 _
    split
    · exact safe_reject _
    · apply safe_bind (safe_rejectIf _ _); intro _ _
      apply safe_bind (safe_rejectIf _ _); intro _ _
      exact safe_rejectIf _ _

theorem typesNameCommon_ok {ci : CallInfo} {a : Unit} (h : typesNameCommon ci = .ok a) : 1 ≤ ci.args.length := by
  unfold typesNameCommon at h
  obtain ⟨_, h1, _⟩ := bind_ok h
  have := rejectIf_dec h1
  omega

theorem getD_of_lt {xs : List JVal} {i : Nat} (h : i < xs.length) : xs[i]? = some (xs.getD i .null) := by
  simp [List.getD_eq_getElem?_getD, List.getElem?_eq_getElem h]

theorem safe_typesName (u : List Site) (e : Env) (ci : CallInfo) : Safe u (typesName u e ci) := by
  unfold typesName
  split
  · apply safe_bind (safe_typesNameCommon _ _); intro _ _; exact safe_rejectIf _ _
  · split
    · apply safe_bind (safe_typesNameCommon _ _); intro _ _
      apply safe_bind (safe_rejectIf _ _); intro _ h2
      have h2 := rejectIf_ok h2
      have hlen : ci.args.length = 2 := by simpa using h2
      apply safe_bind (safe_fixGuard _ _ _); intro _ hg
      apply safe_bind
      · apply safe_argStr
        rcases fixGuard_ok hg with h | h
        · exact .inl h
        · right
          refine ⟨_, getD_of_lt (by omega), ?_⟩
          simpa using h
      · intro _ _
        split
        · exact safe_reject _
        · exact safe_rejectIf _ _
    · split
      · apply safe_bind (safe_fixGuard _ _ _); intro _ hg
        apply safe_bind
        · apply safe_idx
          rcases fixGuard_ok hg with h | h
          · exact .inl h
          · right; have := of_decide_eq_false h; omega
        · intro a0 _
          split
          · exact safe_reject _
          · exact safe_rejectIf _ _
      · exact safe_reject _

theorem safe_typesSystem (u : List Site) (e : Env) (ci : CallInfo) : Safe u (typesSystem u e ci) := by
  unfold typesSystem
  split
  · exact safe_ok _
  · exact safe_ok _
  · apply safe_bind (safe_rejectIf _ _); intro _ _
    apply safe_bind (safe_rejectIf _ _); intro _ _
    apply safe_bind (safe_rejectIf _ _); intro _ _
    apply safe_bind (safe_rejectIf _ _); intro _ _
    exact safe_fixGuard _ _ _
  · apply safe_bind (safe_rejectIf _ _); intro _ _
    apply safe_bind (safe_rejectIf _ _); intro _ _
    exact safe_rejectIf _ _

theorem safe_typesGov (u : List Site) (e : Env) : Safe u (typesGov u e) := by
  unfold typesGov
  split
  · split
    · exact safe_reject _
    · split
      · exact safe_reject _
      · exact safe_typesSystem _ _ _
  · split
    · split
      · exact safe_reject _
      · exact safe_typesName _ _ _
    · split
      · exact safe_rejectIf _ _
      · exact safe_reject _

theorem safe_typesValidate (u : List Site) (e : Env) : Safe u (typesValidate u e) := by
  unfold typesValidate
  repeat (apply safe_bind (safe_rejectIf _ _); intro _ _)
  split
  · repeat (apply safe_bind (safe_rejectIf _ _); intro _ _)
    exact safe_rejectIf _ _
  · split
    · exact safe_rejectIf _ _
    · split
      · apply safe_bind (safe_rejectIf _ _); intro _ _
        exact safe_typesGov _ _
      · split
        · apply safe_bind (safe_rejectIf _ _); intro _ _
          exact safe_rejectIf _ _
        · split
          · exact safe_rejectIf _ _
          · split
            · repeat (apply safe_bind (safe_rejectIf _ _); intro _ _)
              exact safe_rejectIf _ _
            · exact safe_reject _

theorem safe_senderGov (u : List Site) (e : Env) : Safe u (senderGov e) := by
  unfold senderGov
  split
  · split
    · exact safe_reject _
    · exact safe_rejectIf _ _
  · split
    · exact safe_ok _
    · exact safe_reject _

theorem safe_senderState (u : List Site) (e : Env) (strict : Bool) : Safe u (senderState e strict) := by
  unfold senderState
  apply safe_bind (safe_rejectIf _ _); intro _ _
  apply safe_bind (safe_senderGov _ _); intro _ _
  exact safe_rejectIf _ _

/-! ### what a successful types-level validation establishes -/

theorem typesSystem_dao {u : List Site} {e : Env} {ci : CallInfo} {a : Unit}
    (h : typesSystem u e ci = .ok a) (hop : getOpSysTx ci.name = .voteDAO) :
    1 ≤ ci.args.length ∧ ci.args.all isStr = true := by
  unfold typesSystem at h
  rw [hop] at h
  simp only at h
  obtain ⟨_, h1, h⟩ := bind_ok h
  obtain ⟨_, h2, _⟩ := bind_ok h
  have h1 := rejectIf_dec h1
  have h2 := rejectIf_ok h2
  exact ⟨by omega, by simpa using h2⟩

theorem typesSystem_bp {u : List Site} {e : Env} {ci : CallInfo} {a : Unit}
    (h : typesSystem u e ci = .ok a) (hop : getOpSysTx ci.name = .voteBP) :
    ci.args.all isStr = true ∧
      (.rAddSlice ∈ u ∨ (indices ci.args).all (fun i => (e.arg i).b58 == some peerIDLength) = true) := by
  unfold typesSystem at h
  rw [hop] at h
  simp only at h
  obtain ⟨_, _, h⟩ := bind_ok h
  obtain ⟨_, h2, h⟩ := bind_ok h
  obtain ⟨_, _, h⟩ := bind_ok h
  obtain ⟨_, _, h⟩ := bind_ok h
  have h2 := rejectIf_ok h2
  refine ⟨by simpa using h2, ?_⟩
  rcases fixGuard_ok h with h | h
  · exact .inl h
  · right; simpa using h

end Aergo.Admit
