/-
Helper lemmas for C14 (`Aergo.Props.C14`): a compositional "panics only at sites of `u`" predicate
over the `Outcome` monad of `Aergo.Model.Admit`, and one lemma per model function.
-/
import Aergo.Model.Admit

namespace Aergo.Admit
open Aergo.Json

/-- `x` panics only at sites listed in `u`. -/
def Safe (u : List Site) (x : Outcome α) : Prop := ∀ s, x = .panic s → s ∈ u

theorem safe_ok {u : List Site} (a : α) : Safe u (Outcome.ok a) := by intro s h; cases h
theorem safe_pure {u : List Site} (a : α) : Safe u (pure a : Outcome α) := safe_ok a
theorem safe_reject {u : List Site} (r : Rej) : Safe u (Outcome.reject r : Outcome α) := by intro s h; cases h
theorem safe_panic {u : List Site} {s : Site} (h : s ∈ u) : Safe u (Outcome.panic s : Outcome α) := by
  intro s' h'; cases h'; exact h

theorem safe_bind {u : List Site} {x : Outcome α} {f : α → Outcome β}
    (hx : Safe u x) (hf : ∀ a, x = .ok a → Safe u (f a)) : Safe u (x >>= f) := by
  cases x with
  | ok a => exact hf a rfl
  | reject r => exact safe_reject r
  | panic s => intro s' h; cases h; exact hx s rfl

theorem safe_rejectIf {u : List Site} (c : Bool) (r : Rej) : Safe u (rejectIf c r) := by
  unfold rejectIf; split <;> first | exact safe_reject _ | exact safe_ok _

theorem rejectIf_ok {c : Bool} {r : Rej} {a : Unit} (h : rejectIf c r = .ok a) : c = false := by
  unfold rejectIf at h; split at h <;> simp_all

theorem safe_fixGuard {u : List Site} (s : Site) (c : Bool) (r : Rej) : Safe u (fixGuard u s c r) := by
  unfold fixGuard; split <;> first | exact safe_reject _ | exact safe_ok _

/-- After the repair guard of a site: either the site is still unguarded, or the bad case is excluded. -/
theorem fixGuard_ok {u : List Site} {s : Site} {c : Bool} {r : Rej} {a : Unit}
    (h : fixGuard u s c r = .ok a) : s ∈ u ∨ c = false := by
  unfold fixGuard at h
  split at h
  · cases h
  · rename_i hc
    cases c
    · exact .inr rfl
    · left; simpa using hc

theorem safe_idx {u : List Site} (s : Site) (xs : List α) (i : Nat) (h : s ∈ u ∨ i < xs.length) :
    Safe u (idx s xs i) := by
  unfold idx
  split
  · exact safe_ok _
  · rename_i hn
    rcases h with h | h
    · exact safe_panic h
    · simp at hn; omega

theorem idx_ok {s : Site} {xs : List α} {i : Nat} {v : α} (h : idx s xs i = .ok v) : xs[i]? = some v := by
  unfold idx at h; split at h <;> simp_all

theorem safe_sliceFrom {u : List Site} (s : Site) (xs : List α) (i : Nat) (h : s ∈ u ∨ i ≤ xs.length) :
    Safe u (sliceFrom s xs i) := by
  unfold sliceFrom
  split
  · exact safe_ok _
  · rcases h with h | h
    · exact safe_panic h
    · omega

theorem safe_divNat {u : List Site} (s : Site) (a b : Nat) (h : s ∈ u ∨ b ≠ 0) : Safe u (divNat s a b) := by
  unfold divNat
  split
  · rename_i hb
    rcases h with h | h
    · exact safe_panic h
    · exact absurd (by simpa using hb) h
  · exact safe_ok _

theorem safe_divInt {u : List Site} (s : Site) (a b : Int) (h : s ∈ u ∨ b ≠ 0) : Safe u (divInt s a b) := by
  unfold divInt
  split
  · rename_i hb
    rcases h with h | h
    · exact safe_panic h
    · exact absurd (by simpa using hb) h
  · exact safe_ok _

theorem safe_asStr {u : List Site} (s : Site) (v : JVal) (h : s ∈ u ∨ isStr v = true) : Safe u (asStr s v) := by
  cases v <;> simp [asStr, isStr, str?] at h ⊢ <;> first | exact safe_ok _ | exact safe_panic h

theorem safe_argStr {u : List Site} (s : Site) (xs : List JVal) (i : Nat)
    (h : s ∈ u ∨ ∃ v, xs[i]? = some v ∧ isStr v = true) : Safe u (argStr s xs i) := by
  unfold argStr
  apply safe_bind
  · apply safe_idx
    rcases h with h | ⟨v, hv, _⟩
    · exact .inl h
    · right
      have := List.getElem?_eq_some_iff.mp hv
      exact this.1
  · intro a ha
    apply safe_asStr
    rcases h with h | ⟨v, hv, hs⟩
    · exact .inl h
    · right
      have := idx_ok ha
      rw [hv] at this
      cases this
      exact hs

theorem bind_ok {x : Outcome α} {f : α → Outcome β} {b : β} (h : x >>= f = .ok b) :
    ∃ a, x = .ok a ∧ f a = .ok b := by
  cases x with
  | ok a => exact ⟨a, rfl, h⟩
  | reject r => cases h
  | panic s => cases h

theorem rejectIf_dec {p : Prop} [Decidable p] {r : Rej} {a : Unit} (h : rejectIf (decide p) r = .ok a) : ¬ p :=
  of_decide_eq_false (rejectIf_ok h)

theorem asStr_ok {s : Site} {v : JVal} {x : Str} (h : asStr s v = .ok x) : v = .str x := by
  cases v <;> simp [asStr] at h; subst h; rfl

theorem argStr_ok {s : Site} {xs : List JVal} {i : Nat} {x : Str} (h : argStr s xs i = .ok x) :
    xs[i]? = some (.str x) := by
  unfold argStr at h
  obtain ⟨v, hv, h⟩ := bind_ok h
  have := asStr_ok h; subst this
  exact idx_ok hv

/-! ### types/transaction.go -/

theorem safe_typesNameCommon (u : List Site) (ci : CallInfo) : Safe u (typesNameCommon ci) := by
  unfold typesNameCommon
  apply safe_bind (safe_rejectIf _ _)
  intro _ h1
  have h1 := rejectIf_dec h1
  apply safe_bind
  · apply safe_idx; right; omega
  · intro a0 _
    split
    · exact safe_reject _
    · apply safe_bind (safe_rejectIf _ _); intro _ _
      apply safe_bind (safe_rejectIf _ _); intro _ _
      exact safe_rejectIf _ _

theorem typesNameCommon_ok {ci : CallInfo} {a : Unit} (h : typesNameCommon ci = .ok a) : 1 ≤ ci.args.length := by
  unfold typesNameCommon at h
  obtain ⟨_, h1, _⟩ := bind_ok h
  have := rejectIf_dec h1
  omega

theorem getD_of_lt {xs : List JVal} {i : Nat} (h : i < xs.length) : xs[i]? = some (xs.getD i .null) := by
  simp [List.getD_eq_getElem?_getD, List.getElem?_eq_getElem h]

theorem safe_typesName (u : List Site) (e : Env) (ci : CallInfo) : Safe u (typesName u e ci) := by
  unfold typesName
  split
  · apply safe_bind (safe_typesNameCommon _ _); intro _ _; exact safe_rejectIf _ _
  · split
    · apply safe_bind (safe_typesNameCommon _ _); intro _ _
      apply safe_bind (safe_rejectIf _ _); intro _ h2
      have h2 := rejectIf_ok h2
      have hlen : ci.args.length = 2 := by simpa using h2
      apply safe_bind (safe_fixGuard _ _ _); intro _ hg
      apply safe_bind
      · apply safe_argStr
        rcases fixGuard_ok hg with h | h
        · exact .inl h
        · right
          refine ⟨_, getD_of_lt (by omega), ?_⟩
          simpa using h
      · intro _ _
        split
        · exact safe_reject _
        · exact safe_rejectIf _ _
    · split
      · apply safe_bind (safe_fixGuard _ _ _); intro _ hg
        apply safe_bind
        · apply safe_idx
          rcases fixGuard_ok hg with h | h
          · exact .inl h
          · right; have := of_decide_eq_false h; omega
        · intro a0 _
          split
          · exact safe_reject _
          · exact safe_rejectIf _ _
      · exact safe_reject _

theorem safe_typesSystem (u : List Site) (e : Env) (ci : CallInfo) : Safe u (typesSystem u e ci) := by
  unfold typesSystem
  split
  · exact safe_ok _
  · exact safe_ok _
  · apply safe_bind (safe_rejectIf _ _); intro _ _
    apply safe_bind (safe_rejectIf _ _); intro _ _
    apply safe_bind (safe_rejectIf _ _); intro _ _
    apply safe_bind (safe_rejectIf _ _); intro _ _
    exact safe_fixGuard _ _ _
  · apply safe_bind (safe_rejectIf _ _); intro _ _
    apply safe_bind (safe_rejectIf _ _); intro _ _
    exact safe_rejectIf _ _

theorem safe_typesGov (u : List Site) (e : Env) : Safe u (typesGov u e) := by
  unfold typesGov
  split
  · split
    · exact safe_reject _
    · split
      · exact safe_reject _
      · exact safe_typesSystem _ _ _
  · split
    · split
      · exact safe_reject _
      · exact safe_typesName _ _ _
    · split
      · exact safe_rejectIf _ _
      · exact safe_reject _

theorem safe_typesValidate (u : List Site) (e : Env) : Safe u (typesValidate u e) := by
  unfold typesValidate
  repeat (apply safe_bind (safe_rejectIf _ _); intro _ _)
  split
  · repeat (apply safe_bind (safe_rejectIf _ _); intro _ _)
    exact safe_rejectIf _ _
  · split
    · exact safe_rejectIf _ _
    · split
      · apply safe_bind (safe_rejectIf _ _); intro _ _
        exact safe_typesGov _ _
      · split
        · apply safe_bind (safe_rejectIf _ _); intro _ _
          exact safe_rejectIf _ _
        · split
          · exact safe_rejectIf _ _
          · split
            · repeat (apply safe_bind (safe_rejectIf _ _); intro _ _)
              exact safe_rejectIf _ _
            · exact safe_reject _

theorem safe_senderGov (u : List Site) (e : Env) : Safe u (senderGov e) := by
  unfold senderGov
  split
  · split
    · exact safe_reject _
    · exact safe_rejectIf _ _
  · split
    · exact safe_ok _
    · exact safe_reject _

/-- State invariant: the voted gas price is not zero (`validateById` refuses a zero candidate, the default is
50 gaer; `Props.C14.gasPrice_nonzero_all_histories`).  Negative prices are possible and do not crash. -/
def GasPriceOk (e : Env) : Prop := e.gasPrice ≠ 0

theorem safe_maxGasLimit (u : List Site) (b g : Int) (h : .fCalcGas ∈ u ∨ g ≠ 0) : Safe u (maxGasLimit b g) := by
  unfold maxGasLimit
  apply safe_bind (safe_divInt _ _ _ h); intro _ _
  exact safe_pure _

theorem safe_txMaxFee (u : List Site) (e : Env) (b : Int) (h : .fCalcGas ∈ u ∨ GasPriceOk e) : Safe u (txMaxFee e b) := by
  unfold txMaxFee
  split
  · exact safe_ok _
  · split
    · exact safe_ok _
    · apply safe_bind
      · unfold gasLimitOf
        split
        · exact safe_maxGasLimit _ _ _ h
        · exact safe_ok _
      · intro _ _
        exact safe_pure _

theorem safe_validateMaxFee (u : List Site) (e : Env) (b : Int) (h : .fCalcGas ∈ u ∨ GasPriceOk e) :
    Safe u (validateMaxFee e b) := by
  unfold validateMaxFee
  apply safe_bind (safe_txMaxFee _ _ _ h); intro r _
  cases r with
  | none => exact safe_reject _
  | some f => exact safe_rejectIf _ _

theorem safe_senderType (u : List Site) (e : Env) (h : .fCalcGas ∈ u ∨ GasPriceOk e) : Safe u (senderType e) := by
  unfold senderType
  simp only
  split
  · apply safe_bind (safe_rejectIf _ _); intro _ _
    exact safe_validateMaxFee _ _ _ h
  · split
    · exact safe_senderGov _ _
    · split
      · exact safe_rejectIf _ _
      · exact safe_ok _

theorem safe_senderState (u : List Site) (e : Env) (strict : Bool) (h : .fCalcGas ∈ u ∨ GasPriceOk e) :
    Safe u (senderState e strict) := by
  unfold senderState
  apply safe_bind (safe_rejectIf _ _); intro _ _
  apply safe_bind (safe_senderType _ _ h); intro _ _
  exact safe_rejectIf _ _

/-! ### what a successful types-level validation establishes -/

theorem typesSystem_dao {u : List Site} {e : Env} {ci : CallInfo} {a : Unit}
    (h : typesSystem u e ci = .ok a) (hop : getOpSysTx ci.name = .voteDAO) :
    1 ≤ ci.args.length ∧ ci.args.all isStr = true := by
  unfold typesSystem at h
  rw [hop] at h
  simp only at h
  obtain ⟨_, h1, h⟩ := bind_ok h
  obtain ⟨_, h2, _⟩ := bind_ok h
  have h1 := rejectIf_dec h1
  have h2 := rejectIf_ok h2
  exact ⟨by omega, by simpa using h2⟩

theorem typesSystem_bp {u : List Site} {e : Env} {ci : CallInfo} {a : Unit}
    (h : typesSystem u e ci = .ok a) (hop : getOpSysTx ci.name = .voteBP) :
    ci.args.all isStr = true ∧
      (.rAddSlice ∈ u ∨ (indices ci.args).all (fun i => (e.arg i).b58 == some peerIDLength) = true) := by
  unfold typesSystem at h
  rw [hop] at h
  simp only at h
  obtain ⟨_, _, h⟩ := bind_ok h
  obtain ⟨_, h2, h⟩ := bind_ok h
  obtain ⟨_, _, h⟩ := bind_ok h
  obtain ⟨_, _, h⟩ := bind_ok h
  have h2 := rejectIf_ok h2
  refine ⟨by simpa using h2, ?_⟩
  rcases fixGuard_ok h with h | h
  · exact .inl h
  · right; simpa using h

/-! ### contract/system -/

theorem safe_validateForVote (u : List Site) (e : Env) (i : Nat) : Safe u (validateForVote e i) := by
  unfold validateForVote
  apply safe_bind (safe_rejectIf _ _); intro _ _
  exact safe_rejectIf _ _

theorem all_isStr_getElem {xs : List JVal} (h : xs.all isStr = true) {i : Nat} {v : JVal} (hv : xs[i]? = some v) :
    isStr v = true := by
  have hm : v ∈ xs := List.mem_of_getElem? hv
  exact (List.all_eq_true.mp h) v hm

/-- `system.ValidateSystemTx` panics only at unguarded sites, given what `types.ValidateSystemTx`
established for the same payload. -/
theorem safe_sysValidate (u : List Site) (e : Env)
    (ht : ∀ ci, unmarshalCallInfo e.tx.payload = some ci → typesSystem u e ci = .ok ()) :
    Safe u (sysValidate u e) := by
  unfold sysValidate
  split
  · exact safe_reject _
  · rename_i ci hci
    have ht := ht ci hci
    split
    · repeat (apply safe_bind (safe_rejectIf _ _); intro _ _)
      exact safe_pure _
    · apply safe_bind (safe_validateForVote _ _ _); intro _ _
      exact safe_pure _
    · repeat (apply safe_bind (safe_rejectIf _ _); intro _ _)
      exact safe_pure _
    · rename_i hop
      have ⟨hlen, _⟩ := typesSystem_dao ht hop
      apply safe_bind (safe_rejectIf _ _); intro _ _
      apply safe_bind
      · apply safe_idx; right; omega
      · intro a0 _
        split
        · exact safe_reject _
        · split
          · exact safe_reject _
          · apply safe_bind
            · apply safe_sliceFrom; right; omega
            · intro candis _
              apply safe_bind (safe_rejectIf _ _); intro _ _
              apply safe_bind (safe_fixGuard _ _ _); intro _ _
              apply safe_bind (safe_rejectIf _ _); intro _ _
              apply safe_bind (safe_validateForVote _ _ _); intro _ _
              exact safe_pure _

theorem sliceFrom_ok {s : Site} {xs ys : List α} {i : Nat} (h : sliceFrom s xs i = .ok ys) :
    i ≤ xs.length ∧ ys = xs.drop i := by
  unfold sliceFrom at h
  split at h
  · cases h; exact ⟨by assumption, rfl⟩
  · cases h

theorem str?_some {v : JVal} {s : Str} (h : str? v = some s) : v = .str s := by
  cases v <;> simp [str?] at h; subst h; rfl

theorem pure_ok {a b : α} (h : (pure a : Outcome α) = .ok b) : a = b := by
  cases h; rfl

/-- What a successful `system.ValidateSystemTx` leaves in the context. -/
theorem sysValidate_ok {u : List Site} {e : Env} {c : SysCtx} (h : sysValidate u e = .ok c) :
    unmarshalCallInfo e.tx.payload = some c.ci ∧ c.op = getOpSysTx c.ci.name ∧
    (c.proposal = false → c.op ≠ .voteDAO) ∧
    (c.proposal = true → 1 ≤ c.ci.args.length ∧ (∃ s, c.ci.args[0]? = some (.str s)) ∧
        (.vDaoVal ∈ u ∨ ∃ v, c.ci.args[1]? = some v ∧ isStr v = true)) := by
  unfold sysValidate at h
  split at h
  · cases h
  · rename_i ci hci
    split at h
    · rename_i hop
      obtain ⟨_, _, h⟩ := bind_ok h
      obtain ⟨_, _, h⟩ := bind_ok h
      obtain ⟨_, _, h⟩ := bind_ok h
      have := pure_ok h; subst this
      simp [hci, hop]
    · rename_i hop
      obtain ⟨_, _, h⟩ := bind_ok h
      have := pure_ok h; subst this
      simp [hci, hop]
    · rename_i hop
      obtain ⟨_, _, h⟩ := bind_ok h
      obtain ⟨_, _, h⟩ := bind_ok h
      obtain ⟨_, _, h⟩ := bind_ok h
      obtain ⟨_, _, h⟩ := bind_ok h
      have := pure_ok h; subst this
      simp [hci, hop]
    · rename_i hop
      obtain ⟨_, _, h⟩ := bind_ok h
      obtain ⟨a0, ha0, h⟩ := bind_ok h
      split at h
      · cases h
      · rename_i id hid
        split at h
        · cases h
        · obtain ⟨candis, hc, h⟩ := bind_ok h
          obtain ⟨_, _, h⟩ := bind_ok h
          obtain ⟨_, hg, h⟩ := bind_ok h
          obtain ⟨_, hall, h⟩ := bind_ok h
          obtain ⟨_, _, h⟩ := bind_ok h
          have := pure_ok h; subst this
          obtain ⟨hlen, hcand⟩ := sliceFrom_ok hc
          have ha0 := idx_ok ha0
          have := str?_some hid; subst this
          refine ⟨hci, hop.symm, by simp, fun _ => ⟨hlen, ⟨id, ha0⟩, ?_⟩⟩
          rcases fixGuard_ok hg with hg | hg
          · exact .inl hg
          · right
            have hg := of_decide_eq_false hg
            have hl : 1 < ci.args.length := by
              rw [hcand] at hg; simp at hg; omega
            refine ⟨ci.args[1], List.getElem?_eq_getElem hl, ?_⟩
            have hall := rejectIf_ok hall
            simp only [Bool.not_eq_false', List.all_eq_true] at hall
            have hm : ci.args[1] ∈ candis := by
              rw [hcand]
              have h0 : (ci.args.drop 1)[0]? = some ci.args[1] := by
                simp [List.getElem?_drop, List.getElem?_eq_getElem hl]
              exact List.mem_of_getElem? h0
            have := hall _ hm
            unfold isStr
            cases hs : str? ci.args[1] with
            | none => simp [hs] at this
            | some _ => rfl

/-- What validation establishes about the candidates of an admitted parameter vote: each is a string that
`SetString` parses and `validateById` accepts for the issue the context names. -/
theorem sysValidate_dao_valid {u : List Site} {e : Env} {c : SysCtx} (h : sysValidate u e = .ok c) (hp : c.proposal = true) :
    ∀ v ∈ c.ci.args.drop 1, ∃ s n, v = .str s ∧ parseBigInt s = some n ∧ validateById e c.issue n = true := by
  unfold sysValidate at h
  split at h
  · cases h
  · rename_i ci hci
    split at h
    · obtain ⟨_, _, h⟩ := bind_ok h
      obtain ⟨_, _, h⟩ := bind_ok h
      obtain ⟨_, _, h⟩ := bind_ok h
      have := pure_ok h; subst this; cases hp
    · obtain ⟨_, _, h⟩ := bind_ok h
      have := pure_ok h; subst this; cases hp
    · obtain ⟨_, _, h⟩ := bind_ok h
      obtain ⟨_, _, h⟩ := bind_ok h
      obtain ⟨_, _, h⟩ := bind_ok h
      obtain ⟨_, _, h⟩ := bind_ok h
      have := pure_ok h; subst this; cases hp
    · obtain ⟨_, _, h⟩ := bind_ok h
      obtain ⟨a0, _, h⟩ := bind_ok h
      split at h
      · cases h
      · split at h
        · cases h
        · rename_i issue _
          obtain ⟨candis, hc, h⟩ := bind_ok h
          obtain ⟨_, _, h⟩ := bind_ok h
          obtain ⟨_, _, h⟩ := bind_ok h
          obtain ⟨_, hall, h⟩ := bind_ok h
          obtain ⟨_, _, h⟩ := bind_ok h
          have := pure_ok h; subst this
          obtain ⟨_, hcand⟩ := sliceFrom_ok hc
          have hall := rejectIf_ok hall
          simp only [Bool.not_eq_false', List.all_eq_true] at hall
          intro v hv
          have hv' : v ∈ candis := by rw [hcand]; exact hv
          have := hall v hv'
          cases hs : str? v with
          | none => simp [hs] at this
          | some s =>
            simp only [hs] at this
            cases hn : parseBigInt s with
            | none => simp [hn] at this
            | some n =>
              simp only [hn] at this
              exact ⟨s, n, str?_some hs, hn, this⟩

/-! #### parameter votes: tally sort (`VoteList.Less`), threshold, Sync -/

theorem contains_mem {u : List Site} {s : Site} (h : u.contains s = true) : s ∈ u := by
  simpa using h

/-- `VoteList.Less` on two entries of ANY candidate lengths panics only if its guard is missing (site in `u`). -/
theorem safe_lessKey (u : List Site) (a b : VoteEnt) : Safe u (lessKey u a b) := by
  unfold lessKey
  split
  · rename_i hc
    simp only [Bool.and_eq_true, Bool.or_eq_true, beq_iff_eq, decide_eq_true_eq] at hc
    obtain ⟨ha, hb⟩ := hc
    apply safe_bind
    · apply safe_sliceFrom; right; omega
    · intro _ _
      apply safe_bind
      · apply safe_sliceFrom
        rcases hb with hb | hb
        · right; omega
        · left; exact contains_mem hb
      · intro _ _; exact safe_pure _
  · exact safe_ok _

theorem safe_voteLess (u : List Site) (a b : VoteEnt) : Safe u (voteLess u a b) := by
  unfold voteLess
  split
  · exact safe_ok _
  · split
    · apply safe_bind (safe_lessKey _ _ _); intro _ _; exact safe_pure _
    · exact safe_ok _

theorem safe_insertDesc (u : List Site) (x : VoteEnt) (l : List VoteEnt) : Safe u (insertDesc u x l) := by
  induction l with
  | nil => exact safe_ok _
  | cons y r ih =>
    unfold insertDesc
    apply safe_bind (safe_voteLess _ _ _); intro b _
    split
    · exact safe_ok _
    · apply safe_bind ih; intro _ _; exact safe_ok _

theorem insertDesc_length {u : List Site} {x : VoteEnt} {l l' : List VoteEnt} (h : insertDesc u x l = .ok l') :
    l'.length = l.length + 1 := by
  induction l generalizing l' with
  | nil => unfold insertDesc at h; cases h; rfl
  | cons y r ih =>
    unfold insertDesc at h
    obtain ⟨b, _, h⟩ := bind_ok h
    split at h
    · cases h; rfl
    · obtain ⟨r', hr, h⟩ := bind_ok h
      cases h
      simp [ih hr]

/-- The tally sort is total on every list: it panics only at an unguarded `Less`. -/
theorem safe_sortDesc (u : List Site) (l : List VoteEnt) : Safe u (sortDesc u l) := by
  induction l with
  | nil => exact safe_ok _
  | cons x r ih =>
    unfold sortDesc
    apply safe_bind ih; intro _ _
    exact safe_insertDesc _ _ _

theorem sortDesc_length {u : List Site} {l l' : List VoteEnt} (h : sortDesc u l = .ok l') : l'.length = l.length := by
  induction l generalizing l' with
  | nil => unfold sortDesc at h; cases h; rfl
  | cons x r ih =>
    unfold sortDesc at h
    obtain ⟨r', hr, h⟩ := bind_ok h
    rw [insertDesc_length h, ih hr]; rfl

/-- `threshold` divides only by a non-zero hundredth of the top tally — unless its guard is missing. -/
theorem safe_threshold (u : List Site) (p t : Nat) : Safe u (threshold u p t) := by
  unfold threshold
  split
  · exact safe_ok _
  · simp only
    split
    · exact safe_ok _
    · rename_i hg
      apply safe_bind
      · apply safe_divNat
        simp only [Bool.and_eq_true, beq_iff_eq, Bool.not_eq_true', not_and, Bool.not_eq_false] at hg
        by_cases h0 : p / 100 = 0
        · left; exact contains_mem (hg h0)
        · right; exact h0
      · intro _ _; exact safe_pure _

/-! Which sites these functions can reach at all (whatever the guards). -/

theorem only_lessKey (u : List Site) (a b : VoteEnt) : Safe [Site.tLessSlice] (lessKey u a b) := by
  unfold lessKey
  split
  · refine safe_bind (safe_sliceFrom _ _ _ (.inl (by decide))) (fun _ _ => ?_)
    exact safe_bind (safe_sliceFrom _ _ _ (.inl (by decide))) (fun _ _ => safe_pure _)
  · exact safe_ok _

theorem only_voteLess (u : List Site) (a b : VoteEnt) : Safe [Site.tLessSlice] (voteLess u a b) := by
  unfold voteLess
  split
  · exact safe_ok _
  · split
    · exact safe_bind (only_lessKey _ _ _) (fun _ _ => safe_pure _)
    · exact safe_ok _

theorem only_insertDesc (u : List Site) (x : VoteEnt) (l : List VoteEnt) : Safe [Site.tLessSlice] (insertDesc u x l) := by
  induction l with
  | nil => exact safe_ok _
  | cons y r ih =>
    unfold insertDesc
    refine safe_bind (only_voteLess _ _ _) (fun b _ => ?_)
    split
    · exact safe_ok _
    · exact safe_bind ih (fun _ _ => safe_ok _)

theorem only_sortDesc (u : List Site) (l : List VoteEnt) : Safe [Site.tLessSlice] (sortDesc u l) := by
  induction l with
  | nil => exact safe_ok _
  | cons x r ih =>
    unfold sortDesc
    exact safe_bind ih (fun _ _ => only_insertDesc _ _ _)

theorem only_threshold (u : List Site) (p t : Nat) : Safe [Site.rThreshDiv] (threshold u p t) := by
  unfold threshold
  split
  · exact safe_ok _
  · simp only
    split
    · exact safe_ok _
    · exact safe_bind (safe_divNat _ _ _ (.inl (by decide))) (fun _ _ => safe_pure _)

theorem addRow_length (rows : List TallyRow) (c : List Nat) (a : Nat) :
    rows.length ≤ (addRow rows c a).length ∧ 0 < (addRow rows c a).length := by
  unfold addRow
  split
  · rename_i h
    simp only [List.length_map]
    refine ⟨Nat.le_refl _, ?_⟩
    cases rows with
    | nil => simp at h
    | cons _ _ => simp
  · simp

theorem addRows_length (rows : List TallyRow) (cs : List (List Nat)) (a : Nat) :
    rows.length ≤ (addRows rows cs a).length ∧ (cs ≠ [] → 0 < (addRows rows cs a).length) := by
  induction cs generalizing rows with
  | nil => simp [addRows]
  | cons c r ih =>
    unfold addRows
    simp only [List.foldl_cons]
    have h1 := addRow_length rows c a
    have h2 := ih (addRow rows c a)
    unfold addRows at h2
    exact ⟨Nat.le_trans h1.1 h2.1, fun _ => Nat.lt_of_lt_of_le h1.2 h2.1⟩

/-- `Sync` of a parameter tally: the top entry exists when the vote being added names a candidate or the tally
is not empty. -/
theorem safe_syncDao (u : List Site) (e : Env) (issue : Nat) (hadOld : Bool) (cs : List (List Nat)) (amt : Nat)
    (h : .rSyncTop ∈ u ∨ cs ≠ [] ∨ e.rows issue ≠ []) : Safe u (syncDao u e issue hadOld cs amt) := by
  unfold syncDao
  simp only
  apply safe_bind (safe_sortDesc _ _); intro sorted hs
  apply safe_bind
  · apply safe_idx
    rcases h with h | h
    · exact .inl h
    · right
      rw [sortDesc_length hs]
      simp only [buildVoteList, List.length_map]
      rcases h with h | h
      · exact (addRows_length _ cs amt).2 h
      · have hpos : 0 < (e.rows issue).length := by
          cases hr : e.rows issue with
          | nil => exact absurd hr h
          | cons _ _ => simp
        have := (addRows_length (if hadOld = true then subRows (e.rows issue) (e.voteAmt.getD issue 0) else e.rows issue) cs amt).1
        have hl : (if hadOld = true then subRows (e.rows issue) (e.voteAmt.getD issue 0) else e.rows issue).length = (e.rows issue).length := by
          split
          · simp [subRows]
          · rfl
        omega
  · intro _ _
    apply safe_bind (safe_threshold _ _ _); intro _ _
    exact safe_pure _

/-- State invariant: the sender's old record on a parameter issue names at least one candidate of that issue's
tally (every stored parameter vote has exactly one candidate since fix 9f771520; with `OldVotesOk` it is in the tally). -/
def OldDaoVotesOk (e : Env) : Prop :=
  ∀ i, i ≠ 0 → e.voteRec.getD i false = true → oldCands e i ≠ []

/-- State invariant used by the vote commands: an old vote record only names candidates that have an
entry in the issue's tally (true in every state reached through validated 39-byte candidates). -/
def OldVotesOk (e : Env) : Prop := ∀ i, e.voteRec.getD i false = true → e.oldVoteOk.getD i true = true

theorem safe_subOld (u : List Site) (e : Env) (i : Nat) (c : Bool) (hs : .rSubNil ∈ u ∨ OldVotesOk e) :
    Safe u (subOld e i c) := by
  unfold subOld
  split
  · rename_i h
    rcases hs with hs | hs
    · exact safe_panic hs
    · simp only [Bool.and_eq_true, Bool.not_eq_true'] at h
      have := hs i h.1.2
      rw [this] at h
      exact absurd h.2 (by simp)
  · exact safe_ok _

theorem safe_refreshOne (u : List Site) (e : Env) (n i : Nat) (hs : .rSubNil ∈ u ∨ OldVotesOk e)
    (hd : .rSyncTop ∈ u ∨ OldDaoVotesOk e) : Safe u (refreshOne u e n i) := by
  unfold refreshOne
  apply safe_bind (safe_subOld _ _ _ _ hs); intro _ _
  split
  · rename_i ht
    simp only [Bool.and_eq_true, decide_eq_true_eq, bne_iff_ne, ne_eq] at ht
    apply safe_syncDao
    rcases hd with hd | hd
    · exact .inl hd
    · exact .inr (.inl (hd i ht.2 ht.1.1))
  · exact safe_ok _

theorem safe_refreshAllVote (u : List Site) (e : Env) (n : Nat) (l : List Nat) (hs : .rSubNil ∈ u ∨ OldVotesOk e)
    (hd : .rSyncTop ∈ u ∨ OldDaoVotesOk e) : Safe u (refreshAllVote u e n l) := by
  induction l with
  | nil => exact safe_ok _
  | cons i r ih =>
    unfold refreshAllVote
    apply safe_bind (safe_refreshOne _ _ _ _ hs hd); intro _ _
    exact ih

theorem safe_asStrAll (u : List Site) (s : Site) (xs : List JVal) (h : s ∈ u ∨ xs.all isStr = true) :
    Safe u (asStrAll s xs) := by
  induction xs with
  | nil => exact safe_ok _
  | cons v r ih =>
    unfold asStrAll
    apply safe_bind
    · apply safe_asStr
      rcases h with h | h
      · exact .inl h
      · right; simp at h; exact h.1
    · intro _ _
      apply ih
      rcases h with h | h
      · exact .inl h
      · right; simp at h; simpa using h.2

theorem sum_const {l : List Nat} {f : Nat → Nat} {k : Nat} (h : ∀ i ∈ l, f i = k) : (l.map f).sum = k * l.length := by
  induction l with
  | nil => simp
  | cons a r ih =>
    simp only [List.map_cons, List.sum_cons, List.length_cons]
    rw [h a (by simp), ih (fun i hi => h i (by simp [hi]))]
    rw [Nat.mul_succ, Nat.add_comm]

theorem candTotal_of_all {e : Env} {args : List JVal}
    (h : (indices args).all (fun i => (e.arg i).b58 == some peerIDLength) = true) :
    candTotal e args = peerIDLength * args.length := by
  unfold candTotal
  have : ∀ i ∈ indices args, ((e.arg i).b58.getD 0) = peerIDLength := by
    intro i hi
    have := (List.all_eq_true.mp h) i hi
    have : (e.arg i).b58 = some peerIDLength := by simpa using this
    simp [this]
  rw [sum_const this]
  simp [indices]

theorem safe_addNew (u : List Site) (e : Env) (p : Bool) (args : List JVal)
    (hcap : candTotal e args ≤ e.candCap)
    (h : p = false → .rAddSlice ∈ u ∨ (indices args).all (fun i => (e.arg i).b58 == some peerIDLength) = true) :
    Safe u (addNew e p args) := by
  unfold addNew
  split
  · rename_i hc
    simp only [Bool.and_eq_true, Bool.not_eq_true'] at hc
    rcases h hc.1 with h | h
    · exact safe_panic h
    · exfalso
      have ht := candTotal_of_all h
      have hfit : chunksFit (candTotal e args) e.candCap = true := by
        unfold chunksFit
        rw [ht] at hcap ⊢
        simp only [decide_eq_true_eq]
        have : (peerIDLength * args.length + peerIDLength - 1) / peerIDLength = args.length := by
          unfold peerIDLength
          omega
        rw [this, Nat.mul_comm]; exact hcap
      rw [hfit] at hc
      exact absurd hc.2 (by simp)
  · exact safe_ok _

theorem safe_voteArgs (u : List Site) (c : SysCtx)
    (hP : c.proposal = true → 1 ≤ c.ci.args.length ∧ (∃ s, c.ci.args[0]? = some (.str s)) ∧
        (.vDaoVal ∈ u ∨ ∃ v, c.ci.args[1]? = some v ∧ isStr v = true))
    (hB : c.proposal = false → c.ci.args.all isStr = true) : Safe u (voteArgs c) := by
  unfold voteArgs
  split
  · rename_i hp
    obtain ⟨hlen, ⟨s, hs⟩, h1⟩ := hP hp
    apply safe_bind
    · apply safe_sliceFrom; right; omega
    · intro _ _
      apply safe_bind
      · apply safe_argStr; right; exact ⟨_, hs, rfl⟩
      · intro _ _
        apply safe_bind
        · apply safe_argStr; exact h1
        · intro _ _; exact safe_pure _
  · rename_i hp
    apply safe_asStrAll; right; exact hB (by simpa using hp)

theorem voteArgs_dao {c : SysCtx} {a : Unit} (hp : c.proposal = true) (h : voteArgs c = .ok a) :
    daoCands c.ci.args ≠ [] := by
  unfold voteArgs at h
  rw [if_pos hp] at h
  obtain ⟨_, _, h⟩ := bind_ok h
  obtain ⟨_, _, h⟩ := bind_ok h
  obtain ⟨s, hs, _⟩ := bind_ok h
  have h1 := argStr_ok hs
  unfold daoCands
  intro hnil
  have hlen : 1 < c.ci.args.length := (List.getElem?_eq_some_iff.mp h1).1
  have h0 : (c.ci.args.drop 1)[0]? = some (.str s) := by
    simp [List.getElem?_drop, h1]
  cases hd : c.ci.args.drop 1 with
  | nil => rw [hd] at h0; simp at h0
  | cons v r =>
    rw [hd] at h0 hnil
    simp only [List.getElem?_cons_zero, Option.some.injEq] at h0
    subst h0
    simp [List.filterMap_cons, str?] at hnil

theorem safe_sysRun (u : List Site) (e : Env) (c : SysCtx) (hs : .rSubNil ∈ u ∨ OldVotesOk e)
    (hd : .rSyncTop ∈ u ∨ OldDaoVotesOk e)
    (hcap : candTotal e c.ci.args ≤ e.candCap)
    (hP : c.proposal = true → 1 ≤ c.ci.args.length ∧ (∃ s, c.ci.args[0]? = some (.str s)) ∧
        (.vDaoVal ∈ u ∨ ∃ v, c.ci.args[1]? = some v ∧ isStr v = true))
    (hB : c.proposal = false → (c.op = .voteBP ∨ c.op = .voteDAO) → c.ci.args.all isStr = true ∧
        (.rAddSlice ∈ u ∨ (indices c.ci.args).all (fun i => (e.arg i).b58 == some peerIDLength) = true)) :
    Safe u (sysRun u e c) := by
  unfold sysRun
  split
  · exact safe_ok _
  · exact safe_refreshAllVote _ _ _ _ hs hd
  all_goals
    rename_i hop
    apply safe_bind
    · apply safe_voteArgs _ _ hP
      intro hp; exact (hB hp (by simp [hop])).1
    · intro _ hva
      apply safe_bind (safe_subOld _ _ _ _ hs); intro _ _
      apply safe_bind
      · apply safe_addNew _ _ _ _ hcap
        intro hp; exact (hB hp (by simp [hop])).2
      · intro _ _
        split
        · rename_i hp
          apply safe_syncDao
          exact .inr (.inl (voteArgs_dao hp hva))
        · exact safe_ok _

/-- Runtime fact: a slice's length never exceeds its capacity (the candidate buffer of `newVoteCmd`). -/
def CapOk (e : Env) : Prop := ∀ ci, unmarshalCallInfo e.tx.payload = some ci → candTotal e ci.args ≤ e.candCap

theorem safe_sysExecute (u : List Site) (e : Env)
    (ht : ∀ ci, unmarshalCallInfo e.tx.payload = some ci → typesSystem u e ci = .ok ())
    (hs : .rSubNil ∈ u ∨ OldVotesOk e) (hd : .rSyncTop ∈ u ∨ OldDaoVotesOk e) (hcap : CapOk e) : Safe u (sysExecute u e) := by
  unfold sysExecute
  apply safe_bind (safe_sysValidate u e ht)
  intro c hc
  obtain ⟨hci, hop, hnd, hP⟩ := sysValidate_ok hc
  apply safe_sysRun u e c hs hd (hcap _ hci) hP
  intro hp hor
  have hbp : getOpSysTx c.ci.name = .voteBP := by
    rcases hor with h | h
    · rw [← hop]; exact h
    · exact absurd h (hnd hp)
  exact typesSystem_bp (ht _ hci) hbp

/-! ### contract/name -/

theorem typesNameCommon_arg0 {ci : CallInfo} {a : Unit} (h : typesNameCommon ci = .ok a) :
    ∃ s, ci.args[0]? = some (.str s) := by
  unfold typesNameCommon at h
  obtain ⟨_, _, h⟩ := bind_ok h
  obtain ⟨a0, ha0, h⟩ := bind_ok h
  split at h
  · cases h
  · rename_i s hs
    have := str?_some hs; subst this
    exact ⟨s, idx_ok ha0⟩

/-- What a successful `validateNameTx` establishes about the arguments. -/
theorem typesName_ok {u : List Site} {e : Env} {ci : CallInfo} {a : Unit} (h : typesName u e ci = .ok a) :
    (∃ s, ci.args[0]? = some (.str s)) ∧
    ((ci.name == str% "v1updateName") = true → ∃ s, ci.args[1]? = some (.str s)) := by
  unfold typesName at h
  split at h
  · rename_i hn
    obtain ⟨_, hc, _⟩ := bind_ok h
    refine ⟨typesNameCommon_arg0 hc, fun hu => ?_⟩
    have h1 : ci.name = str% "v1createName" := by simpa using hn
    rw [h1] at hu
    exact absurd hu (by decide)
  · split at h
    · obtain ⟨_, hc, h⟩ := bind_ok h
      obtain ⟨_, _, h⟩ := bind_ok h
      obtain ⟨_, _, h⟩ := bind_ok h
      obtain ⟨to, hto, _⟩ := bind_ok h
      exact ⟨typesNameCommon_arg0 hc, fun _ => ⟨to, argStr_ok hto⟩⟩
    · rename_i hnu
      split at h
      · obtain ⟨_, _, h⟩ := bind_ok h
        obtain ⟨a0, ha0, h⟩ := bind_ok h
        split at h
        · cases h
        · rename_i s hs
          have := str?_some hs; subst this
          exact ⟨⟨s, idx_ok ha0⟩, fun hu => absurd hu hnu⟩
      · cases h

theorem safe_nameState (u : List Site) (e : Env) (ci : CallInfo) : Safe u (nameState e ci) := by
  unfold nameState
  split
  · apply safe_bind (safe_rejectIf _ _); intro _ _; exact safe_rejectIf _ _
  · split
    · apply safe_bind (safe_rejectIf _ _); intro _ _; exact safe_rejectIf _ _
    · split
      · exact safe_rejectIf _ _
      · exact safe_reject _

theorem safe_nameValidate (u : List Site) (e : Env)
    (h0 : ∀ ci, unmarshalCallInfo e.tx.payload = some ci → ∃ s, ci.args[0]? = some (.str s)) :
    Safe u (nameValidate e) := by
  unfold nameValidate
  apply safe_bind (safe_rejectIf _ _); intro _ _
  split
  · exact safe_reject _
  · rename_i ci hci
    obtain ⟨s, hs⟩ := h0 ci hci
    apply safe_bind
    · apply safe_argStr; right; exact ⟨_, hs, rfl⟩
    · intro _ _
      apply safe_bind (safe_nameState _ _ _); intro _ _
      exact safe_pure _

theorem nameValidate_ok {e : Env} {ci : CallInfo} (h : nameValidate e = .ok ci) :
    unmarshalCallInfo e.tx.payload = some ci := by
  unfold nameValidate at h
  obtain ⟨_, _, h⟩ := bind_ok h
  split at h
  · cases h
  · rename_i ci' hci
    obtain ⟨_, _, h⟩ := bind_ok h
    obtain ⟨_, _, h⟩ := bind_ok h
    have := pure_ok h; subst this
    exact hci

theorem safe_nameExecArgs (u : List Site) (ci : CallInfo)
    (h0 : ∃ s, ci.args[0]? = some (.str s))
    (h1 : (ci.name == str% "v1updateName") = true → ∃ s, ci.args[1]? = some (.str s)) :
    Safe u (nameExecArgs ci) := by
  obtain ⟨s0, hs0⟩ := h0
  unfold nameExecArgs
  split
  · apply safe_bind
    · apply safe_argStr; right; exact ⟨_, hs0, rfl⟩
    · intro _ _; exact safe_pure _
  · split
    · rename_i hu
      obtain ⟨s1, hs1⟩ := h1 hu
      apply safe_bind
      · apply safe_argStr; right; exact ⟨_, hs0, rfl⟩
      · intro _ _
        apply safe_bind
        · apply safe_argStr; right; exact ⟨_, hs1, rfl⟩
        · intro _ _; exact safe_pure _
    · split
      · apply safe_bind
        · apply safe_argStr; right; exact ⟨_, hs0, rfl⟩
        · intro _ _; exact safe_pure _
      · exact safe_ok _

theorem safe_nameExecute (u : List Site) (e : Env)
    (ht : ∀ ci, unmarshalCallInfo e.tx.payload = some ci → typesName u e ci = .ok ()) :
    Safe u (nameExecute e) := by
  unfold nameExecute
  apply safe_bind
  · exact safe_nameValidate u e (fun ci hci => (typesName_ok (ht ci hci)).1)
  · intro ci hci
    have := nameValidate_ok hci
    have hk := typesName_ok (ht ci this)
    exact safe_nameExecArgs u ci hk.1 hk.2

/-! ### contract/enterprise -/

theorem safe_checkAdmin (u : List Site) (e : Env) (b : Bool) (hr : .gAdmins ∈ u ∨ e.adminsReadable = true) :
    Safe u (checkAdmin e b) := by
  unfold checkAdmin
  split
  · rename_i h
    rcases hr with hr | hr
    · exact safe_panic hr
    · rw [hr] at h; exact absurd h (by simp)
  · split <;> exact safe_rejectIf _ _

theorem safe_rpcHasWrite (u : List Site) (vals : List Str) (h : ∀ v ∈ vals, 2 ≤ (splitColon v).length) :
    Safe u (rpcHasWrite vals) := by
  induction vals with
  | nil => exact safe_reject _
  | cons v r ih =>
    unfold rpcHasWrite
    apply safe_bind
    · apply safe_idx; right; have := h v (by simp); omega
    · intro _ _
      split
      · exact safe_ok _
      · exact ih (fun w hw => h w (by simp [hw]))

def rpcKey : Str := str% "RPCPERMISSIONS"

theorem safe_confValidate (u : List Site) (e : Env) (key : Str) (c : Conf) (ctx : Option Conf)
    (h : toUpper key = rpcKey → ∀ v ∈ c.values, 2 ≤ (splitColon v).length) : Safe u (confValidate e key c ctx) := by
  unfold confValidate
  split
  · exact safe_ok _
  · split
    · rename_i hk
      exact safe_rpcHasWrite u _ (h (by simpa [rpcKey] using hk))
    · split
      · exact safe_rejectIf _ _
      · exact safe_ok _

theorem safe_checkRpc (u : List Site) (e : Env) (i : Nat) (v : Str) : Safe u (checkRpc e i v) := by
  unfold checkRpc
  split
  · exact safe_ok _
  · rename_i h
    have hl : (splitColon v).length = 2 := by simpa using h
    apply safe_bind
    · apply safe_idx; right; omega
    · intro _ _; exact safe_pure _

theorem checkRpc_true {e : Env} {i : Nat} {v : Str} (h : checkRpc e i v = .ok true) : (splitColon v).length = 2 := by
  unfold checkRpc at h
  split at h
  · cases h
  · rename_i hl; simpa using hl

theorem safe_checkOp (u : List Site) (e : Env) (key : Str) (i : Nat) (v : Str) : Safe u (checkOp e key i v) := by
  unfold checkOp
  split
  · exact safe_rejectIf _ _
  · split
    · exact safe_rejectIf _ _
    · split
      · apply safe_bind (safe_checkRpc _ _ _ _); intro _ _; exact safe_rejectIf _ _
      · exact safe_ok _

theorem checkOp_rpc {e : Env} {i : Nat} {v : Str} {a : Unit} (h : checkOp e rpcKey i v = .ok a) :
    (splitColon v).length = 2 := by
  unfold checkOp at h
  have e1 : ¬ ((rpcKey == str% "P2PWHITE" || rpcKey == str% "P2PBLACK") = true) := by decide
  have e2 : ¬ ((rpcKey == str% "ACCOUNTWHITE") = true) := by decide
  have e3 : (rpcKey == str% "RPCPERMISSIONS") = true := by decide
  rw [if_neg e1, if_neg e2, if_pos e3] at h
  obtain ⟨ok, hok, h⟩ := bind_ok h
  have := rejectIf_ok h
  have : ok = true := by simpa using this
  subst this
  exact checkRpc_true hok

theorem safe_checkOps (u : List Site) (e : Env) (key : Str) (i : Nat) (l : List Str) : Safe u (checkOps e key i l) := by
  induction l generalizing i with
  | nil => exact safe_ok _
  | cons v r ih =>
    unfold checkOps
    apply safe_bind (safe_checkOp _ _ _ _ _); intro _ _
    exact ih _

theorem checkOps_rpc {e : Env} {i : Nat} {l : List Str} {a : Unit} (h : checkOps e rpcKey i l = .ok a) :
    ∀ v ∈ l, (splitColon v).length = 2 := by
  induction l generalizing i with
  | nil => intro v hv; cases hv
  | cons w r ih =>
    unfold checkOps at h
    obtain ⟨_, h1, h2⟩ := bind_ok h
    intro v hv
    rcases List.mem_cons.mp hv with hv | hv
    · subst hv; exact checkOp_rpc h1
    · exact ih h2 v hv

theorem filterMap_str_of_all {xs : List JVal} (h : xs.all isStr = true) : xs = (xs.filterMap str?).map JVal.str := by
  induction xs with
  | nil => rfl
  | cons v r ih =>
    simp only [List.all_cons, Bool.and_eq_true] at h
    obtain ⟨hv, hr⟩ := h
    cases v <;> simp [isStr, str?] at hv
    rename_i s
    simp only [List.filterMap_cons, str?, List.map_cons]
    rw [← ih hr]

/-- What a successful `checkArgs` returns: the arguments, all strings, in order; for the
RPCPERMISSIONS key every value has exactly two `:`-separated parts. -/
theorem checkArgs_ok {u : List Site} {e : Env} {ci : CallInfo} {strs : List Str} (h : checkArgs u e ci = .ok strs) :
    ci.args = strs.map JVal.str ∧
    (∀ a0, strs[0]? = some a0 → toUpper a0 = rpcKey → ∀ v ∈ strs.drop 1, (splitColon v).length = 2) := by
  unfold checkArgs at h
  obtain ⟨_, _, h⟩ := bind_ok h
  obtain ⟨a0, ha0, h⟩ := bind_ok h
  obtain ⟨_, _, h⟩ := bind_ok h
  obtain ⟨_, hall, h⟩ := bind_ok h
  obtain ⟨_, _, h⟩ := bind_ok h
  obtain ⟨_, _, h⟩ := bind_ok h
  obtain ⟨_, hops, h⟩ := bind_ok h
  have := pure_ok h; subst this
  have hall := rejectIf_ok hall
  have hall : ci.args.all isStr = true := by simpa using hall
  have heq := filterMap_str_of_all hall
  refine ⟨heq, ?_⟩
  intro b0 hb0 hup
  have h0 := argStr_ok ha0
  rw [heq] at h0
  simp only [List.getElem?_map] at h0
  rw [hb0] at h0
  simp only [Option.map_some, Option.some.injEq, JVal.str.injEq] at h0
  subst h0
  rw [hup] at hops
  exact checkOps_rpc hops

theorem safe_checkArgs (u : List Site) (e : Env) (ci : CallInfo) (hlen : 1 ≤ ci.args.length) :
    Safe u (checkArgs u e ci) := by
  unfold checkArgs
  apply safe_bind (safe_fixGuard _ _ _); intro _ hg
  apply safe_bind
  · apply safe_argStr
    rcases fixGuard_ok hg with h | h
    · exact .inl h
    · right
      exact ⟨_, getD_of_lt (by omega), by simpa using h⟩
  · intro _ _
    apply safe_bind (safe_rejectIf _ _); intro _ _
    apply safe_bind (safe_rejectIf _ _); intro _ _
    apply safe_bind (safe_rejectIf _ _); intro _ _
    apply safe_bind (safe_rejectIf _ _); intro _ _
    apply safe_bind (safe_checkOps _ _ _ _ _); intro _ _
    exact safe_pure _

/-- State invariant: every stored RPCPERMISSIONS value has a `:` (they were all accepted by
`checkRPCPermissions`, which demands exactly one). -/
def RpcOk (e : Env) : Prop :=
  ∀ ci a0 c, unmarshalCallInfo e.tx.payload = some ci → ci.args[0]? = some (.str a0) → toUpper a0 = rpcKey →
    e.confKey = some c → ∀ v ∈ c.values, 2 ≤ (splitColon v).length

/-- What the execution step needs from the validated context. -/
def CtxOk (c : EntCtx) : Prop :=
  ((c.ci.name == str% "changeCluster") = false → 1 ≤ c.args.length) ∧
  ((c.ci.name == str% "enableConf") = true → 2 ≤ c.ci.args.length) ∧
  ((c.ci.name == str% "changeCluster") = true → 1 ≤ c.anyLen)

/-- State invariant: no enterprise configuration record is stored EMPTY (non-nil, length 0): `setConf` is the only
writer and `serializeConf` always emits the on/off byte (`Props.C14.serializeConf_nonempty`). -/
def ConfRecOk (e : Env) : Prop := e.confKeyEmpty = false ∧ e.confWhiteEmpty = false

theorem safe_confRead (u : List Site) (b : Bool) (h : .cDeser0 ∈ u ∨ b = false) : Safe u (confRead b) := by
  unfold confRead
  split
  · rename_i hb
    rcases h with h | h
    · exact safe_bind (safe_idx _ _ _ (.inl h)) (fun _ _ => safe_ok _)
    · rw [h] at hb; cases hb
  · exact safe_ok _

theorem safe_adminState (u : List Site) (e : Env) (ci : CallInfo) (a : Str) (ad : List Nat)
    (hk : .cDeser0 ∈ u ∨ ConfRecOk e) : Safe u (adminState e ci a ad) := by
  unfold adminState
  split
  · exact safe_rejectIf _ _
  · apply safe_bind (safe_rejectIf _ _); intro _ _
    apply safe_bind (safe_confRead _ _ (hk.imp id (·.2))); intro _ _
    split
    · exact safe_rejectIf _ _
    · exact safe_ok _

theorem safe_entAdmin (u : List Site) (e : Env) (ci : CallInfo) (hr : .gAdmins ∈ u ∨ e.adminsReadable = true)
    (hk : .cDeser0 ∈ u ∨ ConfRecOk e) : Safe u (entAdmin u e ci) := by
  unfold entAdmin
  apply safe_bind (safe_rejectIf _ _); intro _ h1
  have hlen : ci.args.length = 1 := by simpa using rejectIf_ok h1
  apply safe_bind (safe_fixGuard _ _ _); intro _ hg
  apply safe_bind
  · apply safe_argStr
    rcases fixGuard_ok hg with h | h
    · exact .inl h
    · right; exact ⟨_, getD_of_lt (by omega), by simpa using h⟩
  · intro _ _
    apply safe_bind (safe_rejectIf _ _); intro _ _
    apply safe_bind (safe_fixGuard _ _ _); intro _ _
    apply safe_bind (safe_checkAdmin _ _ _ hr); intro _ _
    apply safe_bind (safe_adminState _ _ _ _ _ hk); intro _ _
    exact safe_pure _

theorem entAdmin_ok {u : List Site} {e : Env} {ci : CallInfo} {c : EntCtx} (h : entAdmin u e ci = .ok c) :
    c.ci = ci ∧ c.args.length = 1 := by
  unfold entAdmin at h
  obtain ⟨_, _, h⟩ := bind_ok h
  obtain ⟨_, _, h⟩ := bind_ok h
  obtain ⟨_, _, h⟩ := bind_ok h
  obtain ⟨_, _, h⟩ := bind_ok h
  obtain ⟨_, _, h⟩ := bind_ok h
  obtain ⟨_, _, h⟩ := bind_ok h
  obtain ⟨_, _, h⟩ := bind_ok h
  have := pure_ok h; subst this
  exact ⟨rfl, rfl⟩

theorem safe_validateStored (u : List Site) (e : Env) (key : Str) (nc : Conf)
    (h : ∀ c, e.confKey = some c → toUpper key = rpcKey → ∀ v ∈ c.values, 2 ≤ (splitColon v).length) :
    Safe u (validateStored e key nc) := by
  unfold validateStored
  split
  · rename_i stored hs
    exact safe_confValidate u e key stored _ (h stored hs)
  · exact safe_ok _

theorem map_str_getElem? {l : List Str} {i : Nat} {k : Str} (h : l[i]? = some k) :
    (l.map JVal.str)[i]? = some (.str k) := by
  simp [List.getElem?_map, h]

theorem safe_entSetConf (u : List Site) (e : Env) (ci : CallInfo) (hr : .gAdmins ∈ u ∨ e.adminsReadable = true)
    (hk : .cDeser0 ∈ u ∨ ConfRecOk e)
    (hrpc : ∀ a0 c, ci.args[0]? = some (.str a0) → toUpper a0 = rpcKey → e.confKey = some c →
      ∀ v ∈ c.values, 2 ≤ (splitColon v).length) : Safe u (entSetConf u e ci) := by
  unfold entSetConf
  apply safe_bind (safe_rejectIf _ _); intro _ h1
  have hlen : ¬ ci.args.length ≤ 1 := rejectIf_dec h1
  apply safe_bind (safe_checkArgs u e ci (by omega)); intro ctxArgs hca
  obtain ⟨heq, _⟩ := checkArgs_ok hca
  have hl : ctxArgs.length = ci.args.length := by rw [heq]; simp
  apply safe_bind
  · apply safe_idx; right; omega
  · intro key hkey
    apply safe_bind (safe_checkAdmin _ _ _ hr); intro _ _
    apply safe_bind
    · apply safe_sliceFrom; right; omega
    · intro vals _
      apply safe_bind (safe_confRead _ _ (hk.imp id (·.1))); intro _ _
      apply safe_bind
      · apply safe_idx; right; omega
      · intro _ _
        apply safe_bind
        · apply safe_validateStored
          intro c hc hk
          have : ci.args[0]? = some (.str key) := by rw [heq]; exact map_str_getElem? (idx_ok hkey)
          exact hrpc key c this hk hc
        · intro _ _; exact safe_pure _

theorem entSetConf_ok {u : List Site} {e : Env} {ci : CallInfo} {c : EntCtx} (h : entSetConf u e ci = .ok c) :
    c.ci = ci ∧ 1 ≤ c.args.length := by
  unfold entSetConf at h
  obtain ⟨_, _, h⟩ := bind_ok h
  obtain ⟨ctxArgs, _, h⟩ := bind_ok h
  obtain ⟨_, hk, h⟩ := bind_ok h
  obtain ⟨_, _, h⟩ := bind_ok h
  obtain ⟨_, _, h⟩ := bind_ok h
  obtain ⟨_, _, h⟩ := bind_ok h
  obtain ⟨_, _, h⟩ := bind_ok h
  obtain ⟨_, _, h⟩ := bind_ok h
  have := pure_ok h; subst this
  refine ⟨rfl, ?_⟩
  have := idx_ok hk
  have := (List.getElem?_eq_some_iff.mp this).1
  show 1 ≤ ctxArgs.length
  omega

theorem modConf_values {ci : CallInfo} {conf conf' : Conf} {v : Str} (h : modConf ci conf v = .ok conf') :
    ∀ w ∈ conf'.values, w ∈ conf.values ∨ w = v := by
  unfold modConf at h
  split at h
  · obtain ⟨_, _, h⟩ := bind_ok h
    have := pure_ok h; subst this
    intro w hw
    simp only [List.mem_append, List.mem_singleton] at hw
    exact hw
  · obtain ⟨_, _, h⟩ := bind_ok h
    have := pure_ok h; subst this
    intro w hw
    exact .inl (List.mem_of_mem_erase hw)

theorem safe_modConf (u : List Site) (ci : CallInfo) (conf : Conf) (v : Str) : Safe u (modConf ci conf v) := by
  unfold modConf
  split
  · apply safe_bind (safe_rejectIf _ _); intro _ _; exact safe_pure _
  · apply safe_bind (safe_rejectIf _ _); intro _ _; exact safe_pure _

theorem safe_entModConf (u : List Site) (e : Env) (ci : CallInfo) (hr : .gAdmins ∈ u ∨ e.adminsReadable = true)
    (hk : .cDeser0 ∈ u ∨ ConfRecOk e)
    (hrpc : ∀ a0 c, ci.args[0]? = some (.str a0) → toUpper a0 = rpcKey → e.confKey = some c →
      ∀ v ∈ c.values, 2 ≤ (splitColon v).length) : Safe u (entModConf u e ci) := by
  unfold entModConf
  apply safe_bind (safe_rejectIf _ _); intro _ h1
  have hlen : ci.args.length = 2 := by simpa using rejectIf_ok h1
  apply safe_bind (safe_checkArgs u e ci (by omega)); intro ctxArgs hca
  obtain ⟨heq, hvals⟩ := checkArgs_ok hca
  have hl : ctxArgs.length = 2 := by rw [← hlen, heq]; simp
  apply safe_bind (safe_checkAdmin _ _ _ hr); intro _ _
  apply safe_bind
  · apply safe_idx; right; omega
  · intro key hkey
    apply safe_bind (safe_confRead _ _ (hk.imp id (·.1))); intro _ _
    apply safe_bind
    · apply safe_idx; right; omega
    · intro v hv
      apply safe_bind (safe_modConf _ _ _ _); intro conf' hm
      apply safe_bind
      · apply safe_confValidate
        intro hk w hw
        rcases modConf_values hm w hw with hw | hw
        · -- a stored value
          unfold storedOr at hw
          cases hc : e.confKey with
          | none => simp [hc] at hw
          | some c =>
            simp only [hc, Option.getD_some] at hw
            have : ci.args[0]? = some (.str key) := by rw [heq]; exact map_str_getElem? (idx_ok hkey)
            exact hrpc key c this hk hc w hw
        · -- the value being appended: accepted by checkRPCPermissions
          subst hw
          have hmem : w ∈ ctxArgs.drop 1 := by
            have h1 := idx_ok hv
            have : (ctxArgs.drop 1)[0]? = some w := by simpa using h1
            exact List.mem_of_getElem? this
          have := hvals key (idx_ok hkey) hk w hmem
          omega
      · intro _ _; exact safe_pure _

theorem entModConf_ok {u : List Site} {e : Env} {ci : CallInfo} {c : EntCtx} (h : entModConf u e ci = .ok c) :
    c.ci = ci ∧ 1 ≤ c.args.length := by
  unfold entModConf at h
  obtain ⟨_, _, h⟩ := bind_ok h
  obtain ⟨ctxArgs, _, h⟩ := bind_ok h
  obtain ⟨_, _, h⟩ := bind_ok h
  obtain ⟨_, hk, h⟩ := bind_ok h
  obtain ⟨_, _, h⟩ := bind_ok h
  obtain ⟨_, _, h⟩ := bind_ok h
  obtain ⟨_, _, h⟩ := bind_ok h
  obtain ⟨_, _, h⟩ := bind_ok h
  have := pure_ok h; subst this
  refine ⟨rfl, ?_⟩
  have := idx_ok hk
  have := (List.getElem?_eq_some_iff.mp this).1
  show 1 ≤ ctxArgs.length
  omega

theorem safe_entEnableVal (u : List Site) (e : Env) (ci : CallInfo) (arg0 : Str) (a1 : JVal)
    (hr : .gAdmins ∈ u ∨ e.adminsReadable = true) (hk : .cDeser0 ∈ u ∨ ConfRecOk e)
    (hrpc : ∀ c, toUpper arg0 = rpcKey → e.confKey = some c → ∀ v ∈ c.values, 2 ≤ (splitColon v).length) :
    Safe u (entEnableVal e ci arg0 a1) := by
  unfold entEnableVal
  split
  · apply safe_bind (safe_checkAdmin _ _ _ hr); intro _ _
    apply safe_bind (safe_confRead _ _ (hk.imp id (·.1))); intro _ _
    apply safe_bind
    · apply safe_confValidate
      intro hk w hw
      unfold enabledConf at hw
      cases hc : e.confKey with
      | none => simp [hc] at hw
      | some c => simp only [hc] at hw; exact hrpc c hk hc w hw
    · intro _ _; exact safe_pure _
  · exact safe_reject _

theorem safe_entEnable (u : List Site) (e : Env) (ci : CallInfo) (hr : .gAdmins ∈ u ∨ e.adminsReadable = true)
    (hk : .cDeser0 ∈ u ∨ ConfRecOk e)
    (hrpc : ∀ a0 c, ci.args[0]? = some (.str a0) → toUpper a0 = rpcKey → e.confKey = some c →
      ∀ v ∈ c.values, 2 ≤ (splitColon v).length) : Safe u (entEnable e ci) := by
  unfold entEnable
  apply safe_bind (safe_rejectIf _ _); intro _ h1
  have hlen : ci.args.length = 2 := by simpa using rejectIf_ok h1
  apply safe_bind
  · apply safe_idx; right; omega
  · intro a0 ha0
    split
    · exact safe_reject _
    · rename_i s hs
      have := str?_some hs; subst this
      apply safe_bind
      · apply safe_argStr; right; exact ⟨_, idx_ok ha0, rfl⟩
      · intro arg0 harg0
        apply safe_bind (safe_rejectIf _ _); intro _ _
        apply safe_bind
        · apply safe_idx; right; omega
        · intro a1 _
          apply safe_entEnableVal _ _ _ _ _ hr hk
          intro c hk hc
          exact hrpc arg0 c (argStr_ok harg0) hk hc

theorem entEnableVal_ok {e : Env} {ci : CallInfo} {arg0 : Str} {a1 : JVal} {c : EntCtx}
    (h : entEnableVal e ci arg0 a1 = .ok c) : c.ci = ci ∧ c.args.length = 1 := by
  unfold entEnableVal at h
  split at h
  · obtain ⟨_, _, h⟩ := bind_ok h
    obtain ⟨_, _, h⟩ := bind_ok h
    obtain ⟨_, _, h⟩ := bind_ok h
    have := pure_ok h; subst this
    exact ⟨rfl, rfl⟩
  · cases h

theorem entEnable_ok {e : Env} {ci : CallInfo} {c : EntCtx} (h : entEnable e ci = .ok c) :
    c.ci = ci ∧ c.args.length = 1 ∧ ci.args.length = 2 := by
  unfold entEnable at h
  obtain ⟨_, h1, h⟩ := bind_ok h
  have hlen : ci.args.length = 2 := by simpa using rejectIf_ok h1
  obtain ⟨_, _, h⟩ := bind_ok h
  split at h
  · cases h
  · obtain ⟨_, _, h⟩ := bind_ok h
    obtain ⟨_, _, h⟩ := bind_ok h
    obtain ⟨_, _, h⟩ := bind_ok h
    have := entEnableVal_ok h
    exact ⟨this.1, this.2, hlen⟩

theorem safe_ccParse (u : List Site) (e : Env) (kvs : List (Str × JVal)) : Safe u (ccParse e kvs) := by
  unfold ccParse
  split
  · exact safe_reject _
  · split
    · split
      · apply safe_bind (safe_rejectIf _ _); intro _ _; exact safe_rejectIf _ _
      · exact safe_reject _
    · split
      · split
        · exact safe_rejectIf _ _
        · exact safe_reject _
      · exact safe_reject _

theorem safe_validateChangeCluster (u : List Site) (e : Env) (ci : CallInfo) : Safe u (validateChangeCluster e ci) := by
  unfold validateChangeCluster
  apply safe_bind (safe_rejectIf _ _); intro _ h1
  have hlen : ci.args.length = 1 := by simpa using rejectIf_ok h1
  apply safe_bind
  · apply safe_idx; right; omega
  · intro a0 _
    split
    · exact safe_ccParse _ _ _
    · exact safe_reject _

theorem safe_entCluster (u : List Site) (e : Env) (ci : CallInfo) (hr : .gAdmins ∈ u ∨ e.adminsReadable = true) :
    Safe u (entCluster e ci) := by
  unfold entCluster
  apply safe_bind (safe_rejectIf _ _); intro _ _
  apply safe_bind (safe_validateChangeCluster _ _ _); intro _ _
  apply safe_bind (safe_checkAdmin _ _ _ hr); intro _ _
  exact safe_pure _

theorem entCluster_ok {e : Env} {ci : CallInfo} {c : EntCtx} (h : entCluster e ci = .ok c) :
    c.ci = ci ∧ c.anyLen = 1 := by
  unfold entCluster at h
  obtain ⟨_, _, h⟩ := bind_ok h
  obtain ⟨_, _, h⟩ := bind_ok h
  obtain ⟨_, _, h⟩ := bind_ok h
  have := pure_ok h; subst this
  exact ⟨rfl, rfl⟩

/-- `enterprise.ValidateEnterpriseTx` panics only at unguarded sites (given the two state invariants). -/
theorem safe_entValidate (u : List Site) (e : Env) (hr : .gAdmins ∈ u ∨ e.adminsReadable = true) (hrpc : RpcOk e)
    (hk : .cDeser0 ∈ u ∨ ConfRecOk e) : Safe u (entValidate u e) := by
  unfold entValidate
  split
  · exact safe_reject _
  · rename_i ci hci
    have hrpc' := fun a0 c h0 hk hc => hrpc ci a0 c hci h0 hk hc
    split
    · exact safe_entAdmin u e ci hr hk
    · split
      · exact safe_entSetConf u e ci hr hk hrpc'
      · split
        · exact safe_entModConf u e ci hr hk hrpc'
        · split
          · exact safe_entEnable u e ci hr hk hrpc'
          · split
            · exact safe_entCluster u e ci hr
            · exact safe_reject _

theorem entValidate_ok {u : List Site} {e : Env} {c : EntCtx} (h : entValidate u e = .ok c) : CtxOk c := by
  unfold entValidate at h
  split at h
  · cases h
  · rename_i ci hci
    split at h
    · rename_i hn
      obtain ⟨h1, h2⟩ := entAdmin_ok h
      refine ⟨fun _ => by omega, fun he => ?_, fun hc => ?_⟩
      · rw [h1] at he
        have : ci.name = str% "enableConf" := by simpa using he
        rw [this] at hn; exact absurd hn (by decide)
      · rw [h1] at hc
        have : ci.name = str% "changeCluster" := by simpa using hc
        rw [this] at hn; exact absurd hn (by decide)
    · split at h
      · rename_i hn
        obtain ⟨h1, h2⟩ := entSetConf_ok h
        refine ⟨fun _ => h2, fun he => ?_, fun hc => ?_⟩
        · rw [h1] at he
          have : ci.name = str% "enableConf" := by simpa using he
          rw [this] at hn; exact absurd hn (by decide)
        · rw [h1] at hc
          have : ci.name = str% "changeCluster" := by simpa using hc
          rw [this] at hn; exact absurd hn (by decide)
      · split at h
        · rename_i hn
          obtain ⟨h1, h2⟩ := entModConf_ok h
          refine ⟨fun _ => h2, fun he => ?_, fun hc => ?_⟩
          · rw [h1] at he
            have : ci.name = str% "enableConf" := by simpa using he
            rw [this] at hn; exact absurd hn (by decide)
          · rw [h1] at hc
            have : ci.name = str% "changeCluster" := by simpa using hc
            rw [this] at hn; exact absurd hn (by decide)
        · split at h
          · rename_i hn
            obtain ⟨h1, h2, h3⟩ := entEnable_ok h
            refine ⟨fun _ => by omega, fun _ => by rw [h1]; omega, fun hc => ?_⟩
            rw [h1] at hc
            have : ci.name = str% "changeCluster" := by simpa using hc
            rw [this] at hn; exact absurd hn (by decide)
          · split at h
            · rename_i hne hn
              obtain ⟨h1, h2⟩ := entCluster_ok h
              refine ⟨fun hc => ?_, fun he => ?_, fun _ => by omega⟩
              · rw [h1] at hc; rw [hc] at hn; exact absurd hn (by simp)
              · rw [h1] at he; exact absurd he hne
            · cases h

theorem safe_entExecArgs (u : List Site) (c : EntCtx) (h : CtxOk c) : Safe u (entExecArgs c) := by
  obtain ⟨h1, h2, h3⟩ := h
  unfold entExecArgs
  simp only
  split
  · rename_i hn
    have hcc : (c.ci.name == str% "changeCluster") = false := by
      cases hc : (c.ci.name == str% "changeCluster")
      · rfl
      · have : c.ci.name = str% "changeCluster" := by simpa using hc
        rw [this] at hn; exact absurd hn (by decide)
    apply safe_bind
    · apply safe_idx; right; have := h1 hcc; omega
    · intro _ _; exact safe_pure _
  · split
    · rename_i he
      have hcc : (c.ci.name == str% "changeCluster") = false := by
        cases hc : (c.ci.name == str% "changeCluster")
        · rfl
        · have : c.ci.name = str% "changeCluster" := by simpa using hc
          rw [this] at he; exact absurd he (by decide)
      apply safe_bind
      · apply safe_idx; right; have := h1 hcc; omega
      · intro _ _
        apply safe_bind
        · apply safe_idx; right; have := h2 he; omega
        · intro _ _; exact safe_pure _
    · split
      · rename_i hc
        apply safe_bind
        · apply safe_idx; right; have := h3 hc; simp; omega
        · intro _ _; exact safe_pure _
      · exact safe_ok _

theorem safe_entExecute (u : List Site) (e : Env) (hr : .gAdmins ∈ u ∨ e.adminsReadable = true) (hrpc : RpcOk e)
    (hk : .cDeser0 ∈ u ∨ ConfRecOk e) : Safe u (entExecute u e) := by
  unfold entExecute
  apply safe_bind (safe_entValidate u e hr hrpc hk)
  intro c hc
  exact safe_entExecArgs u c (entValidate_ok hc)

/-! ### The two entry points -/

theorem safe_void {u : List Site} {x : Outcome α} (h : Safe u x) : Safe u (void x) := by
  unfold void
  exact safe_bind h (fun _ _ => safe_ok _)

theorem typesGov_sys {u : List Site} {e : Env} {a : Unit} (h : typesGov u e = .ok a)
    (hr : (e.tx.recipient == aergoSystem) = true) :
    ∀ ci, unmarshalCallInfo e.tx.payload = some ci → typesSystem u e ci = .ok () := by
  unfold typesGov at h
  rw [if_pos hr] at h
  split at h
  · cases h
  · split at h
    · cases h
    · rename_i ci hci
      intro ci' hci'
      rw [hci] at hci'; cases hci'
      exact h

theorem typesGov_name {u : List Site} {e : Env} {a : Unit} (h : typesGov u e = .ok a)
    (hs : ¬ (e.tx.recipient == aergoSystem) = true) (hr : (e.tx.recipient == aergoName) = true) :
    ∀ ci, unmarshalCallInfo e.tx.payload = some ci → typesName u e ci = .ok () := by
  unfold typesGov at h
  rw [if_neg hs, if_pos hr] at h
  split at h
  · cases h
  · rename_i ci hci
    intro ci' hci'
    rw [hci] at hci'; cases hci'
    exact h

/-- A governance transaction that passes `Validate` passed its recipient's validator. -/
theorem typesValidate_gov {u : List Site} {e : Env} {a : Unit} (h : typesValidate u e = .ok a)
    (ht : (e.tx.type == 1) = true) : typesGov u e = .ok () := by
  have ht : e.tx.type = 1 := by simpa using ht
  unfold typesValidate at h
  simp only at h
  obtain ⟨_, _, h⟩ := bind_ok h
  obtain ⟨_, _, h⟩ := bind_ok h
  obtain ⟨_, _, h⟩ := bind_ok h
  obtain ⟨_, _, h⟩ := bind_ok h
  obtain ⟨_, _, h⟩ := bind_ok h
  obtain ⟨_, _, h⟩ := bind_ok h
  obtain ⟨_, _, h⟩ := bind_ok h
  obtain ⟨_, _, h⟩ := bind_ok h
  obtain ⟨_, _, h⟩ := bind_ok h
  rw [ht] at h
  rw [if_neg (by decide), if_neg (by decide), if_pos (by decide)] at h
  obtain ⟨_, _, h⟩ := bind_ok h
  exact h

theorem safe_poolGov (u : List Site) (e : Env) (htg : typesGov u e = .ok ())
    (hr : .gAdmins ∈ u ∨ e.adminsReadable = true) (hrpc : RpcOk e) (hk : .cDeser0 ∈ u ∨ ConfRecOk e) : Safe u (poolGov u e) := by
  unfold poolGov
  split
  · rename_i hs
    exact safe_void (safe_sysValidate u e (typesGov_sys htg hs))
  · rename_i hs
    split
    · rename_i hn
      exact safe_void (safe_nameValidate u e (fun ci hci => (typesName_ok (typesGov_name htg hs hn ci hci)).1))
    · split
      · exact safe_void (safe_entValidate u e hr hrpc hk)
      · exact safe_ok _

/-- Hypothesis about the actor system: the chain service answers a fee-delegation request with its typed reply
or not at all (it always does when it is registered at the hub; an unregistered service yields an error VALUE). -/
def FdReplyOk (e : Env) : Prop := e.fdReply ≠ .untyped

theorem safe_poolRecipient (u : List Site) (e : Env) : Safe u (poolRecipient e) := by
  unfold poolRecipient
  simp only
  apply safe_bind (safe_rejectIf _ _); intro _ _
  exact safe_rejectIf _ _

theorem safe_poolFeeDelegation (u : List Site) (e : Env) (hg : .fCalcGas ∈ u ∨ GasPriceOk e)
    (hf : .pFdRsp ∈ u ∨ FdReplyOk e) : Safe u (poolFeeDelegation e) := by
  unfold poolFeeDelegation
  simp only
  apply safe_bind (safe_rejectIf _ _); intro _ _
  apply safe_bind (safe_rejectIf _ _); intro _ _
  apply safe_bind (safe_validateMaxFee _ _ _ hg); intro _ _
  split
  · exact safe_reject _
  · rename_i hr
    rcases hf with hf | hf
    · exact safe_panic hf
    · exact absurd hr hf
  · exact safe_reject _
  · exact safe_ok _

theorem safe_poolOther (u : List Site) (e : Env) (hg : .fCalcGas ∈ u ∨ GasPriceOk e)
    (hf : .pFdRsp ∈ u ∨ FdReplyOk e) : Safe u (poolOther e) := by
  unfold poolOther
  simp only
  split
  · apply safe_bind (safe_rejectIf _ _); intro _ _
    apply safe_bind (safe_rejectIf _ _); intro _ _
    exact safe_poolRecipient _ _
  · split
    · exact safe_poolRecipient _ _
    · split
      · exact safe_rejectIf _ _
      · split
        · apply safe_bind (safe_rejectIf _ _); intro _ _
          exact safe_rejectIf _ _
        · split
          · exact safe_poolFeeDelegation _ _ hg hf
          · exact safe_ok _

/-- Pool admission panics only at sites of `u`. -/
theorem safe_poolAdmit (u : List Site) (e : Env) (hr : .gAdmins ∈ u ∨ e.adminsReadable = true) (hrpc : RpcOk e)
    (hg : .fCalcGas ∈ u ∨ GasPriceOk e) (hf : .pFdRsp ∈ u ∨ FdReplyOk e) (hk : .cDeser0 ∈ u ∨ ConfRecOk e) :
    Safe u (poolAdmit u e) := by
  unfold poolAdmit
  apply safe_bind (safe_typesValidate u e); intro _ htv
  apply safe_bind (safe_rejectIf _ _); intro _ _
  apply safe_bind (safe_senderState _ _ _ hg); intro _ _
  split
  · rename_i ht
    exact safe_poolGov u e (typesValidate_gov htv ht) hr hrpc hk
  · exact safe_poolOther _ _ hg hf

theorem safe_execGov (u : List Site) (e : Env) (htg : typesGov u e = .ok ())
    (hr : .gAdmins ∈ u ∨ e.adminsReadable = true) (hrpc : RpcOk e) (hv : .rSubNil ∈ u ∨ OldVotesOk e)
    (hd : .rSyncTop ∈ u ∨ OldDaoVotesOk e) (hc : CapOk e) (hk : .cDeser0 ∈ u ∨ ConfRecOk e) :
    Safe u (execGov u e) := by
  unfold execGov
  apply safe_bind (safe_rejectIf _ _); intro _ _
  split
  · rename_i hs
    exact safe_sysExecute u e (typesGov_sys htg hs) hv hd hc
  · rename_i hs
    split
    · rename_i hn
      exact safe_nameExecute u e (typesGov_name htg hs hn)
    · split
      · exact safe_entExecute u e hr hrpc hk
      · exact safe_reject _

theorem safe_execOther (u : List Site) (e : Env) (hg : .fCalcGas ∈ u ∨ GasPriceOk e) : Safe u (execOther e) := by
  unfold execOther
  split
  · exact safe_void (safe_divInt _ _ _ hg)
  · exact safe_ok _

/-- Block execution of a transaction panics only at sites of `u`. -/
theorem safe_execute (u : List Site) (e : Env) (hr : .gAdmins ∈ u ∨ e.adminsReadable = true) (hrpc : RpcOk e)
    (hv : .rSubNil ∈ u ∨ OldVotesOk e) (hd : .rSyncTop ∈ u ∨ OldDaoVotesOk e) (hc : CapOk e)
    (hg : .fCalcGas ∈ u ∨ GasPriceOk e) (hk : .cDeser0 ∈ u ∨ ConfRecOk e) : Safe u (execute u e) := by
  unfold execute
  apply safe_bind (safe_typesValidate u e); intro _ htv
  apply safe_bind (safe_senderState _ _ _ hg); intro _ _
  split
  · rename_i ht
    exact safe_execGov u e (typesValidate_gov htv ht) hr hrpc hv hd hc hk
  · exact safe_execOther _ _ hg

end Aergo.Admit
