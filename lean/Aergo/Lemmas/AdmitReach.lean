/-
C14 helper lemmas, second pass: which sites pool admission can reach at all.

Purely syntactic: whatever the guards, `poolAdmit` only ever traps at a site of `admissionSites` (the
execution-only traps `vDao*`, `vBpCand`, `rAddSlice`, `rSubNil`, `rSyncTop`, `rThreshDiv`, `tLessSlice`, `nEx*`, `x*`
do not occur in it).
Together with `safe_poolAdmit` this gives full-strength admission totality as soon as no admission
site is left in `pinned`.
-/
import Aergo.Lemmas.Admit
namespace Aergo.Admit
open Aergo.Json

open Site in
def admissionSites : List Site := [tNameUpdTo, tNameOwner0, tNameCommon0, sParseId0, sCandSlice, nVal0, eAdmin0,
  eEnable0, eEnable1, eCtx0, eCtxTail, eCtx1, eCheckArgs0, eRpcVals0, eCc0, cRpcSplit, gAdmins, cDeser0, fCalcGas, pFdRsp]

theorem reach_fixGuard {L : List Site} (u : List Site) (s : Site) (c : Bool) (r : Rej) : Safe L (fixGuard u s c r) := by
  unfold fixGuard; split <;> first | exact safe_reject _ | exact safe_ok _

syntax "reach_lemma" : tactic
macro_rules | `(tactic| reach_lemma) => `(tactic| fail "no lemma")

/-- Discharge `Safe admissionSites (…)` for a function body built from binds, `if`/`match`, rejections,
guards and traps at admission sites. -/
macro "reach" : tactic => `(tactic| repeat (first
  | exact safe_ok _ | exact safe_pure _ | exact safe_reject _ | exact safe_rejectIf _ _ | exact reach_fixGuard _ _ _ _
  | reach_lemma
  | exact safe_idx _ _ _ (.inl (by decide)) | exact safe_sliceFrom _ _ _ (.inl (by decide))
  | exact safe_argStr _ _ _ (.inl (by decide)) | exact safe_panic (by decide)
  | exact safe_divInt _ _ _ (.inl (by decide)) | exact safe_divNat _ _ _ (.inl (by decide))
  | refine safe_bind ?_ (fun _ _ => ?_) | split))

theorem reach_typesNameCommon (ci : CallInfo) : Safe admissionSites (typesNameCommon ci) := by
  unfold typesNameCommon; reach
macro_rules | `(tactic| reach_lemma) => `(tactic| exact reach_typesNameCommon _)

theorem reach_typesName (u : List Site) (e : Env) (ci : CallInfo) : Safe admissionSites (typesName u e ci) := by
  unfold typesName; reach
macro_rules | `(tactic| reach_lemma) => `(tactic| exact reach_typesName _ _ _)

theorem reach_typesSystem (u : List Site) (e : Env) (ci : CallInfo) : Safe admissionSites (typesSystem u e ci) := by
  unfold typesSystem; reach
macro_rules | `(tactic| reach_lemma) => `(tactic| exact reach_typesSystem _ _ _)

theorem reach_typesGov (u : List Site) (e : Env) : Safe admissionSites (typesGov u e) := by
  unfold typesGov; reach
macro_rules | `(tactic| reach_lemma) => `(tactic| exact reach_typesGov _ _)

set_option maxHeartbeats 400000 in
theorem reach_typesValidate (u : List Site) (e : Env) : Safe admissionSites (typesValidate u e) := by
  unfold typesValidate; reach
macro_rules | `(tactic| reach_lemma) => `(tactic| exact reach_typesValidate _ _)

theorem reach_senderGov (e : Env) : Safe admissionSites (senderGov e) := by
  unfold senderGov; reach
macro_rules | `(tactic| reach_lemma) => `(tactic| exact reach_senderGov _)

theorem reach_maxGasLimit (b g : Int) : Safe admissionSites (maxGasLimit b g) := by
  unfold maxGasLimit; reach
macro_rules | `(tactic| reach_lemma) => `(tactic| exact reach_maxGasLimit _ _)

theorem reach_gasLimitOf (e : Env) (b : Int) : Safe admissionSites (gasLimitOf e b) := by
  unfold gasLimitOf; reach
macro_rules | `(tactic| reach_lemma) => `(tactic| exact reach_gasLimitOf _ _)

theorem reach_txMaxFee (e : Env) (b : Int) : Safe admissionSites (txMaxFee e b) := by
  unfold txMaxFee; reach
macro_rules | `(tactic| reach_lemma) => `(tactic| exact reach_txMaxFee _ _)

theorem reach_validateMaxFee (e : Env) (b : Int) : Safe admissionSites (validateMaxFee e b) := by
  unfold validateMaxFee
  refine safe_bind (reach_txMaxFee _ _) (fun r _ => ?_)
  cases r with
  | none => exact safe_reject _
  | some f => exact safe_rejectIf _ _
macro_rules | `(tactic| reach_lemma) => `(tactic| exact reach_validateMaxFee _ _)

theorem reach_senderType (e : Env) : Safe admissionSites (senderType e) := by
  unfold senderType; simp only; reach
macro_rules | `(tactic| reach_lemma) => `(tactic| exact reach_senderType _)

theorem reach_senderState (e : Env) (b : Bool) : Safe admissionSites (senderState e b) := by
  unfold senderState; reach
macro_rules | `(tactic| reach_lemma) => `(tactic| exact reach_senderState _ _)

theorem reach_poolRecipient (e : Env) : Safe admissionSites (poolRecipient e) := by
  unfold poolRecipient; simp only; reach
macro_rules | `(tactic| reach_lemma) => `(tactic| exact reach_poolRecipient _)

theorem reach_poolFeeDelegation (e : Env) : Safe admissionSites (poolFeeDelegation e) := by
  unfold poolFeeDelegation; simp only; reach
macro_rules | `(tactic| reach_lemma) => `(tactic| exact reach_poolFeeDelegation _)

theorem reach_poolOther (e : Env) : Safe admissionSites (poolOther e) := by
  unfold poolOther; simp only; reach
macro_rules | `(tactic| reach_lemma) => `(tactic| exact reach_poolOther _)

theorem reach_validateForVote (e : Env) (i : Nat) : Safe admissionSites (validateForVote e i) := by
  unfold validateForVote; reach
macro_rules | `(tactic| reach_lemma) => `(tactic| exact reach_validateForVote _ _)

set_option maxHeartbeats 400000 in
theorem reach_sysValidate (u : List Site) (e : Env) : Safe admissionSites (sysValidate u e) := by
  unfold sysValidate; reach
macro_rules | `(tactic| reach_lemma) => `(tactic| exact reach_sysValidate _ _)

theorem reach_nameState (e : Env) (ci : CallInfo) : Safe admissionSites (nameState e ci) := by
  unfold nameState; reach
macro_rules | `(tactic| reach_lemma) => `(tactic| exact reach_nameState _ _)

theorem reach_nameValidate (e : Env) : Safe admissionSites (nameValidate e) := by
  unfold nameValidate; reach
macro_rules | `(tactic| reach_lemma) => `(tactic| exact reach_nameValidate _)

theorem reach_confRead (b : Bool) : Safe admissionSites (confRead b) := by
  unfold confRead; reach
macro_rules | `(tactic| reach_lemma) => `(tactic| exact reach_confRead _)

theorem reach_checkAdmin (e : Env) (b : Bool) : Safe admissionSites (checkAdmin e b) := by
  unfold checkAdmin; reach
macro_rules | `(tactic| reach_lemma) => `(tactic| exact reach_checkAdmin _ _)

theorem reach_rpcHasWrite (vals : List Str) : Safe admissionSites (rpcHasWrite vals) := by
  induction vals with
  | nil => exact safe_reject _
  | cons v r ih => unfold rpcHasWrite; reach; exact ih
macro_rules | `(tactic| reach_lemma) => `(tactic| exact reach_rpcHasWrite _)

theorem reach_confValidate (e : Env) (k : Str) (c : Conf) (x : Option Conf) : Safe admissionSites (confValidate e k c x) := by
  unfold confValidate; reach
macro_rules | `(tactic| reach_lemma) => `(tactic| exact reach_confValidate _ _ _ _)

theorem reach_checkRpc (e : Env) (i : Nat) (v : Str) : Safe admissionSites (checkRpc e i v) := by
  unfold checkRpc; reach
macro_rules | `(tactic| reach_lemma) => `(tactic| exact reach_checkRpc _ _ _)

theorem reach_checkOp (e : Env) (k : Str) (i : Nat) (v : Str) : Safe admissionSites (checkOp e k i v) := by
  unfold checkOp; reach
macro_rules | `(tactic| reach_lemma) => `(tactic| exact reach_checkOp _ _ _ _)

theorem reach_checkOps (e : Env) (k : Str) (i : Nat) (l : List Str) : Safe admissionSites (checkOps e k i l) := by
  induction l generalizing i with
  | nil => exact safe_ok _
  | cons v r ih => unfold checkOps; reach; exact ih _
macro_rules | `(tactic| reach_lemma) => `(tactic| exact reach_checkOps _ _ _ _)

theorem reach_checkArgs (u : List Site) (e : Env) (ci : CallInfo) : Safe admissionSites (checkArgs u e ci) := by
  unfold checkArgs; reach
macro_rules | `(tactic| reach_lemma) => `(tactic| exact reach_checkArgs _ _ _)

theorem reach_ccParse (e : Env) (kvs : List (Str × JVal)) : Safe admissionSites (ccParse e kvs) := by
  unfold ccParse; reach
macro_rules | `(tactic| reach_lemma) => `(tactic| exact reach_ccParse _ _)

theorem reach_validateChangeCluster (e : Env) (ci : CallInfo) : Safe admissionSites (validateChangeCluster e ci) := by
  unfold validateChangeCluster; reach
macro_rules | `(tactic| reach_lemma) => `(tactic| exact reach_validateChangeCluster _ _)

theorem reach_adminState (e : Env) (ci : CallInfo) (a : Str) (ad : List Nat) : Safe admissionSites (adminState e ci a ad) := by
  unfold adminState; reach
macro_rules | `(tactic| reach_lemma) => `(tactic| exact reach_adminState _ _ _ _)

theorem reach_validateStored (e : Env) (k : Str) (c : Conf) : Safe admissionSites (validateStored e k c) := by
  unfold validateStored; reach
macro_rules | `(tactic| reach_lemma) => `(tactic| exact reach_validateStored _ _ _)

theorem reach_modConf (ci : CallInfo) (c : Conf) (v : Str) : Safe admissionSites (modConf ci c v) := by
  unfold modConf; reach
macro_rules | `(tactic| reach_lemma) => `(tactic| exact reach_modConf _ _ _)

set_option maxHeartbeats 400000 in
theorem reach_entAdmin (u : List Site) (e : Env) (ci : CallInfo) : Safe admissionSites (entAdmin u e ci) := by
  unfold entAdmin; reach
theorem reach_entSetConf (u : List Site) (e : Env) (ci : CallInfo) : Safe admissionSites (entSetConf u e ci) := by
  unfold entSetConf; reach
theorem reach_entModConf (u : List Site) (e : Env) (ci : CallInfo) : Safe admissionSites (entModConf u e ci) := by
  unfold entModConf; reach
theorem reach_entEnableVal (e : Env) (ci : CallInfo) (a : Str) (v : JVal) : Safe admissionSites (entEnableVal e ci a v) := by
  unfold entEnableVal; reach
macro_rules | `(tactic| reach_lemma) => `(tactic| exact reach_entEnableVal _ _ _ _)
theorem reach_entEnable (e : Env) (ci : CallInfo) : Safe admissionSites (entEnable e ci) := by
  unfold entEnable; reach
theorem reach_entCluster (e : Env) (ci : CallInfo) : Safe admissionSites (entCluster e ci) := by
  unfold entCluster; reach

theorem reach_entValidate (u : List Site) (e : Env) : Safe admissionSites (entValidate u e) := by
  unfold entValidate
  split
  · exact safe_reject _
  · split
    · exact reach_entAdmin _ _ _
    · split
      · exact reach_entSetConf _ _ _
      · split
        · exact reach_entModConf _ _ _
        · split
          · exact reach_entEnable _ _
          · split
            · exact reach_entCluster _ _
            · exact safe_reject _

theorem reach_poolGov (u : List Site) (e : Env) : Safe admissionSites (poolGov u e) := by
  unfold poolGov
  split
  · exact safe_void (reach_sysValidate _ _)
  · split
    · exact safe_void (reach_nameValidate _)
    · split
      · exact safe_void (reach_entValidate _ _)
      · exact safe_ok _

/-- Pool admission can only ever trap at an admission site. -/
theorem reach_poolAdmit (u : List Site) (e : Env) : Safe admissionSites (poolAdmit u e) := by
  unfold poolAdmit
  apply safe_bind (reach_typesValidate _ _); intro _ _
  apply safe_bind (safe_rejectIf _ _); intro _ _
  apply safe_bind (reach_senderState _ _); intro _ _
  split
  · exact reach_poolGov _ _
  · exact reach_poolOther _

end Aergo.Admit
